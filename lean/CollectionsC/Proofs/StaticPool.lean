import CollectionsC.Model.StaticPool
/-! Helper lemmas for the static pool: facts about the block-list spec, and the per-operation
invariant / refinement / fault-freedom lemmas of the concrete model. -/
namespace CC
open Spec

/-! ## block lists -/
namespace Spec

theorem layout_bound (bs : List (Nat × Nat)) (h : SPool.layout bs) :
    ∀ b ∈ bs, b.1 + b.2 ≤ blocksLen bs := by
  induction bs with
  | nil => intro b hb; cases hb
  | cons a as ih =>
    intro b hb
    simp only [SPool.layout] at h
    simp only [blocksLen]
    cases hb with
    | head => omega
    | tail _ hb' => have := ih h.2 b hb'; omega

/-- live blocks are pairwise disjoint -/
theorem layout_pairwise (bs : List (Nat × Nat)) (h : SPool.layout bs) :
    bs.Pairwise fun a b => disjoint a b := by
  induction bs with
  | nil => exact List.Pairwise.nil
  | cons a as ih =>
    simp only [SPool.layout] at h
    refine List.Pairwise.cons ?_ (ih h.2)
    intro b hb
    have := layout_bound as h.2 b hb
    right; omega

/-- the size of the region never changes -/
theorem SPool.run_size (ops : List SPool.Op) (t : SPool) : (t.run ops).2.size = t.size := by
  induction ops generalizing t with
  | nil => rfl
  | cons op ops ih =>
    simp only [SPool.run]
    rw [ih]
    cases op <;> simp only [SPool.step, SPool.malloc, SPool.calloc, SPool.release, SPool.reset, SPool.write]
    · split <;> rfl
    · split <;> rfl
    · split
      · split <;> rfl
      · rfl

end Spec

namespace StaticPool

theorem layoutB_iff (bs : List (Nat × Nat)) : layoutB bs = true ↔ SPool.layout bs := by
  induction bs with
  | nil => simp [layoutB, SPool.layout]
  | cons a as ih => simp [layoutB, SPool.layout, ih]

/-- the invariant of the model implies well-formedness of its abstraction -/
theorem abs_wf (s : StaticPool) (h : s.Inv) : s.abs.WF := by
  obtain ⟨h1, _, h3, h4, h5, _, _⟩ := h
  refine ⟨(layoutB_iff _).1 h5, ?_, h3⟩
  simp only [SPool.used, abs]; omega

theorem used_abs (s : StaticPool) (h : s.Inv) : s.core.usedBytes = s.abs.used := h.2.2.2.1
theorem free_abs (s : StaticPool) (h : s.Inv) : s.core.freeBytes = s.abs.free := by
  simp only [SPoolCore.freeBytes, SPool.free, SPool.used, abs]; rw [h.2.2.2.1]

/-! ### the C-visible part never depends on the ghost fields -/
theorem malloc_core (s : StaticPool) (n : Nat) :
    (s.malloc n).1 = (s.core.malloc n).1 ∧ (s.malloc n).2.core = (s.core.malloc n).2 := by
  unfold malloc; dsimp only; split <;> simp_all
theorem calloc_core (s : StaticPool) (c k : Nat) (m : Mem) :
    (s.calloc c k m).1 = (s.core.calloc c k m).1 ∧ (s.calloc c k m).2.1.core = (s.core.calloc c k m).2.1 ∧
    (s.calloc c k m).2.2 = (s.core.calloc c k m).2.2 := by
  unfold calloc; dsimp only; split <;> simp_all
theorem release_core (s : StaticPool) (p : Option Nat) : (s.release p).core = s.core.release p := by
  unfold release; split <;> rfl
theorem reset_core (s : StaticPool) : s.reset.core = s.core.reset := rfl
theorem write_core (s : StaticPool) (off n v : Nat) (m : Mem) :
    (s.write off n v m).1.core = (s.core.write off n v m).1 ∧ (s.write off n v m).2 = (s.core.write off n v m).2 :=
  ⟨rfl, rfl⟩

/-! ### new / reset -/
theorem new_inv (size : Nat) (bytes : Buf Nat) (hb : bytes.length = size) : (new size bytes).Inv := by
  simp [new, SPoolCore.new, Inv, hb, blocksLen, layoutB]
theorem new_abs (size : Nat) (bytes : Buf Nat) : (new size bytes).abs = SPool.init size bytes := rfl

theorem reset_inv (s : StaticPool) (h : s.Inv) : s.reset.Inv := by
  obtain ⟨_, _, h3, _⟩ := h
  simp [reset, SPoolCore.reset, Inv, h3, blocksLen, layoutB]
theorem reset_refines (s : StaticPool) : s.reset.abs = s.abs.reset := rfl

/-! ### malloc -/
theorem malloc_refines (s : StaticPool) (n : Nat) (h : s.Inv) :
    (s.malloc n).1 = (s.abs.malloc n).1 ∧ (s.malloc n).2.abs = (s.abs.malloc n).2 := by
  have hu : s.abs.used = s.core.free := (used_abs s h).symm
  have hs : s.abs.size = s.core.size := rfl
  unfold malloc SPoolCore.malloc SPool.malloc; dsimp only
  rw [hu, hs]
  by_cases hn : n > s.core.size - s.core.free
  · have : ¬ n ≤ s.core.size - s.core.free := by omega
    simp [hn, this]
  · have : n ≤ s.core.size - s.core.free := by omega
    simp [hn, this, abs]

theorem malloc_inv (s : StaticPool) (n : Nat) (h : s.Inv) : (s.malloc n).2.Inv := by
  obtain ⟨h1, h2, h3, h4, h5, h6, h7⟩ := h
  unfold malloc SPoolCore.malloc; dsimp only
  by_cases hn : n > s.core.size - s.core.free
  · simp only [hn, if_true]; exact ⟨h1, h2, h3, h4, h5, h6, h7⟩
  · simp only [hn, if_false]
    refine ⟨by dsimp only; omega, by dsimp only; omega, h3, ?_, ?_, by simp, ?_⟩
    · simp only [blocksLen]; omega
    · simp only [layoutB, h5, Bool.and_true, beq_iff_eq]; exact h4
    · intro _; exact ⟨rfl, rfl⟩

/-- a request that does not fit: NULL and the whole state (physical and ghost) is unchanged -/
theorem malloc_inert (s : StaticPool) (n : Nat) (h : (s.malloc n).1 = none) : (s.malloc n).2 = s := by
  unfold malloc SPoolCore.malloc at *; dsimp only at *
  by_cases hn : n > s.core.size - s.core.free
  · simp [hn]
  · simp [hn] at h

/-! ### calloc -/
theorem calloc_overflow (s : StaticPool) (c k : Nat) (m : Mem) (h : sizeMod ≤ c * k) :
    s.calloc c k m = (none, s, m) := by
  have := (mulOverflows_iff c k).2 h
  simp [calloc, SPoolCore.calloc, this]

theorem calloc_refines (s : StaticPool) (c k : Nat) (m : Mem) (h : s.Inv) (hsz : s.core.size < sizeMod) :
    (s.calloc c k m).1 = (s.abs.calloc c k).1 ∧ (s.calloc c k m).2.1.abs = (s.abs.calloc c k).2 := by
  have hu : s.abs.used = s.core.free := (used_abs s h).symm
  have hs : s.abs.size = s.core.size := rfl
  by_cases hov : sizeMod ≤ c * k
  · rw [calloc_overflow s c k m hov]
    unfold SPool.calloc
    rw [hu, hs]
    have : ¬ c * k ≤ s.core.size - s.core.free := by omega
    simp [this]
  · have hno : mulOverflows c k = false := by
      cases hm : mulOverflows c k
      · rfl
      · exact (hov ((mulOverflows_iff c k).1 hm)).elim
    have hmod : c * k % sizeMod = c * k := Nat.mod_eq_of_lt (by omega)
    unfold calloc SPoolCore.calloc SPoolCore.malloc SPool.calloc; dsimp only
    rw [hno, hmod, hu, hs]
    by_cases hn : c * k > s.core.size - s.core.free
    · have : ¬ c * k ≤ s.core.size - s.core.free := by omega
      simp [hn, this]
    · have : c * k ≤ s.core.size - s.core.free := by omega
      simp [hn, this, abs]

theorem calloc_inv (s : StaticPool) (c k : Nat) (m : Mem) (h : s.Inv) : (s.calloc c k m).2.1.Inv := by
  obtain ⟨h1, h2, h3, h4, h5, h6, h7⟩ := h
  unfold calloc SPoolCore.calloc SPoolCore.malloc; dsimp only
  cases mulOverflows c k
  · simp only [Bool.false_eq_true, if_false]
    by_cases hn : c * k % sizeMod > s.core.size - s.core.free
    · simp only [hn, if_true]; exact ⟨h1, h2, h3, h4, h5, h6, h7⟩
    · simp only [hn, if_false]
      refine ⟨by dsimp only; omega, by dsimp only; omega, by simpa using h3, ?_, ?_, by simp, ?_⟩
      · simp only [blocksLen]; omega
      · simp only [layoutB, h5, Bool.and_true, beq_iff_eq]; exact h4
      · intro _; exact ⟨rfl, rfl⟩
  · simp only [if_true]; exact ⟨h1, h2, h3, h4, h5, h6, h7⟩

/-- the `memset` of calloc stays inside the region -/
theorem calloc_nofault (s : StaticPool) (c k : Nat) (m : Mem) (h : s.Inv) :
    (s.calloc c k m).2.2 = m := by
  obtain ⟨h1, h2, h3, _⟩ := h
  unfold calloc SPoolCore.calloc SPoolCore.malloc; dsimp only
  cases mulOverflows c k
  · simp only [Bool.false_eq_true, if_false]
    by_cases hn : c * k % sizeMod > s.core.size - s.core.free
    · simp [hn]
    · have : s.core.free + c * k % sizeMod ≤ s.core.bytes.length := by omega
      simp [hn, this]
  · simp

theorem calloc_inert (s : StaticPool) (c k : Nat) (m : Mem) (h : (s.calloc c k m).1 = none) :
    (s.calloc c k m).2.1 = s := by
  unfold calloc SPoolCore.calloc SPoolCore.malloc at *; dsimp only at *
  cases hm : mulOverflows c k
  · simp only [hm, Bool.false_eq_true, if_false] at h ⊢
    by_cases hn : c * k % sizeMod > s.core.size - s.core.free
    · simp [hn]
    · simp [hn] at h
  · simp

/-! ### free -/
theorem release_refines (s : StaticPool) (p : Option Nat) (h : s.Inv) :
    (s.release p).abs = s.abs.release p := by
  obtain ⟨h1, h2, h3, h4, h5, h6, h7⟩ := h
  unfold release SPoolCore.release SPool.release
  cases hu : s.undo
  · -- nothing to roll back: free = high, so the C assignment changes nothing
    have hf := h6 hu
    by_cases hp : p = some s.core.high
    · simp [hp, abs, hu, ← hf]
    · simp [hp, abs, hu]
  · have h7' := h7 hu
    cases hb : s.blocks with
    | nil => rw [hb] at h7'; exact h7'.elim
    | cons b rest =>
      rw [hb] at h7'
      cases p with
      | none => simp [abs, hu, hb]
      | some a =>
        by_cases ha : a = s.core.high
        · have : a = b.1 := by omega
          simp [abs, hu, hb, ha, h7'.1]
        · have : ¬ a = b.1 := by omega
          simp [abs, hu, hb, ha, this]

theorem release_inv (s : StaticPool) (p : Option Nat) (h : s.Inv) : (s.release p).Inv := by
  obtain ⟨h1, h2, h3, h4, h5, h6, h7⟩ := h
  unfold release SPoolCore.release
  by_cases hp : p = some s.core.high
  · simp only [hp, if_true]
    cases hu : s.undo
    · have hf := h6 hu
      refine ⟨by dsimp only; omega, by dsimp only; omega, h3, ?_, ?_, by simp, by simp⟩
      · simp only [Bool.false_eq_true, if_false]; omega
      · simpa using h5
    · have h7' := h7 hu
      cases hb : s.blocks with
      | nil => rw [hb] at h7'; exact h7'.elim
      | cons b rest =>
        rw [hb] at h7' h4 h5
        simp only [layoutB, Bool.and_eq_true, beq_iff_eq] at h5
        simp only [blocksLen] at h4
        refine ⟨by dsimp only; omega, by dsimp only; omega, h3, ?_, ?_, by simp, by simp⟩
        · simp only [if_true, List.tail_cons]; omega
        · simpa using h5.2
  · simp only [hp, if_false]; exact ⟨h1, h2, h3, h4, h5, h6, h7⟩

/-- freeing anything but the address of the newest block: the whole state is unchanged -/
theorem release_inert (s : StaticPool) (p : Option Nat) (hp : p ≠ some s.core.high) : s.release p = s := by
  unfold release SPoolCore.release; simp [hp]

/-! ### user writes -/
theorem write_refines (s : StaticPool) (off n v : Nat) (m : Mem) :
    (s.write off n v m).1.abs = s.abs.write off n v := rfl
theorem write_inv (s : StaticPool) (off n v : Nat) (m : Mem) (h : s.Inv) : (s.write off n v m).1.Inv := by
  obtain ⟨h1, h2, h3, h4, h5, h6, h7⟩ := h
  exact ⟨h1, h2, by simpa [write, SPoolCore.write] using h3, h4, h5, h6, h7⟩
theorem write_nofault (s : StaticPool) (off n v : Nat) (m : Mem) (h : s.Inv) (hb : off + n ≤ s.core.size) :
    (s.write off n v m).2 = m := by
  simp [write, SPoolCore.write, h.2.2.1, hb]

/-! ### The region content is irrelevant to malloc / free / reset

The correspondence runs pools of several GiB over reserved, never touched address space (`giant=1`);
there the driver keeps an empty byte list.  These lemmas justify it: replacing the byte list commutes
with every operation that a giant history uses, and `Inv` with a byte list of the right length follows
from the byte-free part of the invariant. -/

/-- the same pool over a different region content -/
def withBytes (s : StaticPool) (b : Buf Nat) : StaticPool := { s with core := { s.core with bytes := b } }

theorem malloc_withBytes (s : StaticPool) (b : Buf Nat) (n : Nat) :
    (s.withBytes b).malloc n = ((s.malloc n).1, (s.malloc n).2.withBytes b) := by
  unfold malloc SPoolCore.malloc withBytes
  by_cases h : n > s.core.size - s.core.free <;> simp [h]

theorem release_withBytes (s : StaticPool) (b : Buf Nat) (p : Option Nat) :
    (s.withBytes b).release p = (s.release p).withBytes b := by
  unfold release SPoolCore.release withBytes
  by_cases h : p = some s.core.high <;> simp [h]

theorem reset_withBytes (s : StaticPool) (b : Buf Nat) : (s.withBytes b).reset = s.reset.withBytes b := rfl

theorem new_withBytes (size : Nat) (b b' : Buf Nat) : (new size b).withBytes b' = new size b' := rfl

/-- `Inv` without its clause about the byte list -/
def InvNoBytes (s : StaticPool) : Prop :=
  s.core.free ≤ s.core.size ∧ s.core.high ≤ s.core.free ∧
  s.core.free = Spec.blocksLen s.blocks ∧ layoutB s.blocks = true ∧
  (s.undo = false → s.core.free = s.core.high) ∧
  (s.undo = true → match s.blocks with
                   | b :: _ => b.1 = s.core.high ∧ b.1 + b.2 = s.core.free
                   | [] => False)

instance (s : StaticPool) : Decidable s.InvNoBytes := by
  unfold InvNoBytes
  cases s.blocks <;> infer_instance

theorem inv_withBytes (s : StaticPool) (b : Buf Nat) (h : s.InvNoBytes) (hb : b.length = s.core.size) :
    (s.withBytes b).Inv := ⟨h.1, h.2.1, hb, h.2.2.1, h.2.2.2.1, h.2.2.2.2.1, h.2.2.2.2.2⟩

theorem invNoBytes_of_inv (s : StaticPool) (h : s.Inv) : s.InvNoBytes :=
  ⟨h.1, h.2.1, h.2.2.2.1, h.2.2.2.2.1, h.2.2.2.2.2.1, h.2.2.2.2.2.2⟩

theorem invNoBytes_withBytes (s : StaticPool) (b : Buf Nat) : (s.withBytes b).InvNoBytes ↔ s.InvNoBytes := Iff.rfl

end StaticPool
end CC
