import CollectionsC.Proofs.SListStep
/-! Induction over histories, shared by the two list models: a step function that refines the
ideal step (in the sense of `StepSpec`) refines ideal histories. -/
namespace CC.ListHistory
open CC CC.Chain
open CC.Spec
open CC.Spec.LSeq (Op Out Params)

def PairOk (s : Chain × Chain) (m : Mem) : Prop :=
  s.1.Inv ∧ s.2.Inv ∧ s.1.abs.length + s.2.abs.length ≤ m.live

def StepRefines (dbl : Bool) (P : Params) (s : Chain × Chain) (op : Op) (m : Mem)
    (r : Out × (Chain × Chain) × Mem) : Prop :=
  PairOk r.2.1 r.2.2 ∧
  (r.1.st = some .errAlloc → r.1 = { st := some .errAlloc } ∧ r.2.1 = s ∧ r.2.2.live = m.live) ∧
  (r.1.st ≠ some .errAlloc → (r.1, (r.2.1.1.abs, r.2.1.2.abs)) = LSeq.step dbl P (s.1.abs, s.2.abs) op) ∧
  r.2.2.fault = m.fault ∧ r.2.2.libc = m.libc ∧
  r.2.2.live + (s.1.abs.length + s.2.abs.length) = m.live + (r.2.1.1.abs.length + r.2.1.2.abs.length) ∧
  (m.sched = [] → r.2.2.sched = [] ∧ r.1.st ≠ some .errAlloc)

abbrev StepFn := Chain × Chain → Op → Mem → Out × (Chain × Chain) × Mem

def runWith (f : StepFn) (s : Chain × Chain) (ops : List Op) (m : Mem) : List Out × (Chain × Chain) × Mem :=
  match ops with
  | [] => ([], s, m)
  | op :: ops => let r := f s op m; let rs := runWith f r.2.1 ops r.2.2; (r.1 :: rs.1, rs.2.1, rs.2.2)

theorem dlist_run_eq (P : Params) (s : Chain × Chain) (ops : List Op) (m : Mem) :
    DList.run P s ops m = runWith (DList.step P) s ops m := by
  induction ops generalizing s m with
  | nil => rfl
  | cons op ops ih => simp only [DList.run, runWith, ih]

theorem slist_run_eq (P : Params) (s : Chain × Chain) (ops : List Op) (m : Mem) :
    SList.run P s ops m = runWith (SList.step P) s ops m := by
  induction ops generalizing s m with
  | nil => rfl
  | cons op ops ih => simp only [SList.run, runWith, ih]

variable {dbl : Bool} {P : Params} {f : StepFn}

/-- histories under an arbitrary refusal schedule: the model behaves like the ideal lists on
which the refused operations did not happen -/
theorem run_skipping (hf : ∀ s op m, PairOk s m → StepRefines dbl P s op m (f s op m)) :
    ∀ (ops : List Op) (s : Chain × Chain) (m : Mem), PairOk s m →
      (runWith f s ops m).1 = (LSeq.runSkipping dbl P (s.1.abs, s.2.abs) ops ((runWith f s ops m).1.map (·.st))).1 ∧
      ((runWith f s ops m).2.1.1.abs, (runWith f s ops m).2.1.2.abs) =
        (LSeq.runSkipping dbl P (s.1.abs, s.2.abs) ops ((runWith f s ops m).1.map (·.st))).2 ∧
      PairOk (runWith f s ops m).2.1 (runWith f s ops m).2.2 ∧
      (runWith f s ops m).2.2.fault = m.fault ∧ (runWith f s ops m).2.2.libc = m.libc
  | [], s, m, h => ⟨rfl, rfl, h, rfl, rfl⟩
  | op :: ops, s, m, h => by
    obtain ⟨h1, h2, h3, h4, h5, _, _⟩ := hf s op m h
    have ih := run_skipping hf ops (f s op m).2.1 (f s op m).2.2 h1
    simp only [runWith, List.map_cons, LSeq.runSkipping]
    by_cases he : (f s op m).1.st = some .errAlloc
    · obtain ⟨e1, e2, _⟩ := h2 he
      rw [if_pos he]
      have ea : ((f s op m).2.1.1.abs, (f s op m).2.1.2.abs) = (s.1.abs, s.2.abs) := by rw [e2]
      rw [ea] at ih
      refine ⟨?_, ih.2.1, ih.2.2.1, by rw [ih.2.2.2.1, h4], by rw [ih.2.2.2.2, h5]⟩
      simp only []; rw [← ih.1, ← e1]
    · have e := h3 he
      rw [if_neg he]
      have e1 : (LSeq.step dbl P (s.1.abs, s.2.abs) op).1 = (f s op m).1 := by rw [← e]
      have e2 : (LSeq.step dbl P (s.1.abs, s.2.abs) op).2 = ((f s op m).2.1.1.abs, (f s op m).2.1.2.abs) := by rw [← e]
      simp only [e1, e2]
      exact ⟨by rw [← ih.1], ih.2.1, ih.2.2.1, by rw [ih.2.2.2.1, h4], by rw [ih.2.2.2.2, h5]⟩

/-- histories with an allocator that never refuses: exactly the ideal lists -/
theorem run_exact (hf : ∀ s op m, PairOk s m → StepRefines dbl P s op m (f s op m)) :
    ∀ (ops : List Op) (s : Chain × Chain) (m : Mem), PairOk s m → m.sched = [] →
      (runWith f s ops m).1 = (LSeq.run dbl P (s.1.abs, s.2.abs) ops).1 ∧
      ((runWith f s ops m).2.1.1.abs, (runWith f s ops m).2.1.2.abs) = (LSeq.run dbl P (s.1.abs, s.2.abs) ops).2 ∧
      PairOk (runWith f s ops m).2.1 (runWith f s ops m).2.2 ∧
      (runWith f s ops m).2.2.fault = m.fault ∧ (runWith f s ops m).2.2.libc = m.libc ∧
      (runWith f s ops m).2.2.sched = []
  | [], s, m, h, hs => ⟨rfl, rfl, h, rfl, rfl, hs⟩
  | op :: ops, s, m, h, hs => by
    obtain ⟨h1, _, h3, h4, h5, _, h7⟩ := hf s op m h
    obtain ⟨hs', hne⟩ := h7 hs
    have ih := run_exact hf ops (f s op m).2.1 (f s op m).2.2 h1 hs'
    have e := h3 hne
    have e1 : (LSeq.step dbl P (s.1.abs, s.2.abs) op).1 = (f s op m).1 := by rw [← e]
    have e2 : (LSeq.step dbl P (s.1.abs, s.2.abs) op).2 = ((f s op m).2.1.1.abs, (f s op m).2.1.2.abs) := by rw [← e]
    simp only [runWith, LSeq.run, e1, e2]
    exact ⟨by rw [← ih.1], ih.2.1, ih.2.2.1, by rw [ih.2.2.2.1, h4], by rw [ih.2.2.2.2.1, h5], ih.2.2.2.2.2⟩

end CC.ListHistory
