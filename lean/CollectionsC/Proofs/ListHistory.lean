import CollectionsC.Proofs.SListStep
/-! Induction over histories, shared by the two list models: a step function that refines the
ideal step (in the sense of `StepRefines`) refines ideal histories.  The two lists of a pair may sit
on different allocator triples; the ledger invariant says that each triple's `live` counter covers
the node blocks of the lists on that triple. -/
namespace CC.ListHistory
open CC CC.Chain
open CC.Spec
open CC.Spec.LSeq (Op Out Params)

/-- node blocks the pair holds through the triple `t` -/
def owned (s : Chain × Chain) (t : Triple) : Nat := ownedBy s.1.triple s.2.triple s.1.abs s.2.abs t

/-- both lists satisfy the representation invariant and, per allocator triple, their node blocks are live -/
def PairOk (s : Chain × Chain) (m : Mem) : Prop :=
  s.1.Inv ∧ s.2.Inv ∧ ∀ t, owned s t ≤ m.liveT t

/-- what one step `r` guarantees relative to the ideal step -/
def StepRefines (dbl : Bool) (P : Params) (s : Chain × Chain) (op : Op) (m : Mem)
    (r : Out × (Chain × Chain) × Mem) : Prop :=
  PairOk r.2.1 r.2.2 ∧
  ((r.2.1.1.triple = r.2.1.2.triple ↔ s.1.triple = s.2.triple) ∧
   (op ≠ .swapRoles → r.2.1.1.triple = s.1.triple ∧ r.2.1.2.triple = s.2.triple) ∧
   ((r.2.1.1.triple = s.1.triple ∧ r.2.1.2.triple = s.2.triple) ∨ (r.2.1.1.triple = s.2.triple ∧ r.2.1.2.triple = s.1.triple))) ∧
  (r.1.st = some .errAlloc → r.1 = { st := some .errAlloc } ∧ r.2.1 = s ∧ ∀ t, r.2.2.liveT t = m.liveT t) ∧
  (r.1.st ≠ some .errAlloc → (r.1, (r.2.1.1.abs, r.2.1.2.abs)) = LSeq.step dbl P (s.1.abs, s.2.abs) op) ∧
  r.2.2.fault = m.fault ∧ Mem.Frame s.1.triple m r.2.2 ∧
  (∀ t, r.2.2.liveT t + owned s t = m.liveT t + owned r.2.1 t) ∧
  (m.sched = [] → r.2.2.sched = [] ∧ r.1.st ≠ some .errAlloc) ∧
  (r.1.st = some .errAlloc ↔ m.nrefused < r.2.2.nrefused)

theorem stepRefines_of_stepOk {dbl : Bool} {P : Params} {s : Chain × Chain} {op : Op} {m : Mem}
    {r : Out × (Chain × Chain) × Mem} {a' b' : List Nat} {t1' t2' : Triple} (h : PairOk s m)
    (ok : StepOk dbl P s.1.triple s.2.triple s.1.abs s.2.abs op m r a' b' t1' t2') : StepRefines dbl P s op m r := by
  have hs : s = (ofList s.1.triple s.1.abs, ofList s.2.triple s.2.abs) := by rw [← h.1.eq, ← h.2.1.eq]
  have hst := ok.state
  have e1 : r.2.1.1.abs = a' := by rw [hst]; rfl
  have e2 : r.2.1.2.abs = b' := by rw [hst]; rfl
  have e3 : r.2.1.1.triple = t1' := by rw [hst]; rfl
  have e4 : r.2.1.2.triple = t2' := by rw [hst]; rfl
  have hown : ∀ t, owned r.2.1 t = ownedBy t1' t2' a' b' t := by intro t; simp only [owned, e1, e2, e3, e4]
  refine ⟨⟨?_, ?_, ?_⟩, ?_, ?_, ?_, ok.fault, ok.frame, ?_, ok.nosched, ok.refused_iff⟩
  · rw [hst]; exact ofList_inv _
  · rw [hst]; exact ofList_inv _
  · intro t; rw [hown]; have := ok.ledger t; have := h.2.2 t; simp only [owned] at *; omega
  · refine ⟨?_, fun hsw => by rw [e3, e4]; exact ok.keep hsw, by rw [e3, e4]; exact ok.triples⟩
    rw [e3, e4]; rcases ok.triples with ⟨a, b⟩ | ⟨a, b⟩ <;> rw [a, b]; exact eq_comm
  · intro he
    obtain ⟨ha, hb, ht1, ht2, ho⟩ := ok.atomic he
    refine ⟨ho, ?_, ?_⟩
    · rw [hst, ha, hb, ht1, ht2]; exact hs.symm
    · intro t; have := ok.ledger t; rw [ha, hb, ht1, ht2] at this; omega
  · intro he; rw [e1, e2]; exact ok.refines he
  · intro t; rw [hown]; exact ok.ledger t

abbrev StepFn := Chain × Chain → Op → Mem → Out × (Chain × Chain) × Mem

def runWith (f : StepFn) (s : Chain × Chain) (ops : List Op) (m : Mem) : List Out × (Chain × Chain) × Mem :=
  match ops with
  | [] => ([], s, m)
  | op :: ops => let r := f s op m; let rs := runWith f r.2.1 ops r.2.2; (r.1 :: rs.1, rs.2.1, rs.2.2)

theorem dlist_run_eq (P : Params) (s : Chain × Chain) (ops : List Op) (m : Mem) :
    DList.run P s ops m = runWith (DList.step P) s ops m := by
  induction ops generalizing s m with
  | nil => rfl
  | cons op ops ih => simp only [DList.run, runWith, ih]

theorem slist_run_eq (P : Params) (s : Chain × Chain) (ops : List Op) (m : Mem) :
    SList.run P s ops m = runWith (SList.step P) s ops m := by
  induction ops generalizing s m with
  | nil => rfl
  | cons op ops ih => simp only [SList.run, runWith, ih]

/-- `splice`/`splice_at` move the nodes themselves: a history may use them only between lists on the
same allocator triple (the documented contract of this model; across triples the destination would
later release blocks through a triple that never handed them out) -/
def isSplice : Op → Bool
  | .splice => true
  | .spliceAt _ => true
  | _ => false
def Compat (s : Chain × Chain) (ops : List Op) : Prop :=
  s.1.triple = s.2.triple ∨ ∀ op, op ∈ ops → isSplice op = false

theorem Compat.spliceOk {s : Chain × Chain} {op : Op} {ops : List Op} (h : Compat s (op :: ops)) :
    SpliceOk s.1.triple s.2.triple op := by
  intro hsp
  rcases h with h | h
  · exact h
  · have := h op List.mem_cons_self
    rcases hsp with e | ⟨i, e⟩ <;> (subst e; simp [isSplice] at this)

theorem Compat.tail {s s' : Chain × Chain} {op : Op} {ops : List Op} (h : Compat s (op :: ops))
    (ht : s'.1.triple = s'.2.triple ↔ s.1.triple = s.2.triple) : Compat s' ops := by
  rcases h with h | h
  · exact Or.inl (ht.2 h)
  · exact Or.inr (fun o ho => h o (List.mem_cons_of_mem _ ho))

variable {dbl : Bool} {P : Params} {f : StepFn}

/-- histories under an arbitrary refusal schedule: the model behaves like the ideal lists on
which the refused operations did not happen -/
theorem run_skipping (hf : ∀ s op m, PairOk s m → SpliceOk s.1.triple s.2.triple op → StepRefines dbl P s op m (f s op m)) :
    ∀ (ops : List Op) (s : Chain × Chain) (m : Mem), PairOk s m → Compat s ops →
      (runWith f s ops m).1 = (LSeq.runSkipping dbl P (s.1.abs, s.2.abs) ops ((runWith f s ops m).1.map (·.st))).1 ∧
      ((runWith f s ops m).2.1.1.abs, (runWith f s ops m).2.1.2.abs) =
        (LSeq.runSkipping dbl P (s.1.abs, s.2.abs) ops ((runWith f s ops m).1.map (·.st))).2 ∧
      PairOk (runWith f s ops m).2.1 (runWith f s ops m).2.2 ∧
      (runWith f s ops m).2.2.fault = m.fault
  | [], s, m, h, _ => ⟨rfl, rfl, h, rfl⟩
  | op :: ops, s, m, h, hc => by
    obtain ⟨h1, ht, h2, h3, h4, _, _, _, _⟩ := hf s op m h hc.spliceOk
    have ih := run_skipping hf ops (f s op m).2.1 (f s op m).2.2 h1 (hc.tail ht.1)
    simp only [runWith, List.map_cons, LSeq.runSkipping]
    by_cases he : (f s op m).1.st = some .errAlloc
    · obtain ⟨e1, e2, _⟩ := h2 he
      rw [if_pos he]
      have ea : ((f s op m).2.1.1.abs, (f s op m).2.1.2.abs) = (s.1.abs, s.2.abs) := by rw [e2]
      rw [ea] at ih
      refine ⟨?_, ih.2.1, ih.2.2.1, by rw [ih.2.2.2, h4]⟩
      simp only []; rw [← ih.1, ← e1]
    · have e := h3 he
      rw [if_neg he]
      have e1 : (LSeq.step dbl P (s.1.abs, s.2.abs) op).1 = (f s op m).1 := by rw [← e]
      have e2 : (LSeq.step dbl P (s.1.abs, s.2.abs) op).2 = ((f s op m).2.1.1.abs, (f s op m).2.1.2.abs) := by rw [← e]
      simp only [e1, e2]
      exact ⟨by rw [← ih.1], ih.2.1, ih.2.2.1, by rw [ih.2.2.2, h4]⟩

/-- histories with an allocator that never refuses: exactly the ideal lists -/
theorem run_exact (hf : ∀ s op m, PairOk s m → SpliceOk s.1.triple s.2.triple op → StepRefines dbl P s op m (f s op m)) :
    ∀ (ops : List Op) (s : Chain × Chain) (m : Mem), PairOk s m → Compat s ops → m.sched = [] →
      (runWith f s ops m).1 = (LSeq.run dbl P (s.1.abs, s.2.abs) ops).1 ∧
      ((runWith f s ops m).2.1.1.abs, (runWith f s ops m).2.1.2.abs) = (LSeq.run dbl P (s.1.abs, s.2.abs) ops).2 ∧
      PairOk (runWith f s ops m).2.1 (runWith f s ops m).2.2 ∧
      (runWith f s ops m).2.2.fault = m.fault ∧ (runWith f s ops m).2.2.sched = []
  | [], s, m, h, _, hs => ⟨rfl, rfl, h, rfl, hs⟩
  | op :: ops, s, m, h, hc, hs => by
    obtain ⟨h1, ht, _, h3, h4, _, _, h7, _⟩ := hf s op m h hc.spliceOk
    obtain ⟨hs', hne⟩ := h7 hs
    have ih := run_exact hf ops (f s op m).2.1 (f s op m).2.2 h1 (hc.tail ht.1) hs'
    have e := h3 hne
    have e1 : (LSeq.step dbl P (s.1.abs, s.2.abs) op).1 = (f s op m).1 := by rw [← e]
    have e2 : (LSeq.step dbl P (s.1.abs, s.2.abs) op).2 = ((f s op m).2.1.1.abs, (f s op m).2.1.2.abs) := by rw [← e]
    simp only [runWith, LSeq.run, e1, e2]
    exact ⟨by rw [← ih.1], ih.2.1, ih.2.2.1, by rw [ih.2.2.2.1, h4], ih.2.2.2.2⟩

/-- ledger balance of a whole history, per allocator triple -/
theorem run_ledger (hf : ∀ s op m, PairOk s m → SpliceOk s.1.triple s.2.triple op → StepRefines dbl P s op m (f s op m)) :
    ∀ (ops : List Op) (s : Chain × Chain) (m : Mem), PairOk s m → Compat s ops →
      ∀ t, (runWith f s ops m).2.2.liveT t + owned s t = m.liveT t + owned (runWith f s ops m).2.1 t
  | [], _, _, _, _ => fun _ => rfl
  | op :: ops, s, m, h, hc => by
    obtain ⟨h1, ht, _, _, _, _, h6, _, _⟩ := hf s op m h hc.spliceOk
    have ih := run_ledger hf ops (f s op m).2.1 (f s op m).2.2 h1 (hc.tail ht.1)
    intro t
    have a := ih t
    have b := h6 t
    simp only [runWith]
    omega

/-- over a whole history the two lists keep their allocator triples, up to the exchange of roles -/
theorem run_triples (hf : ∀ s op m, PairOk s m → SpliceOk s.1.triple s.2.triple op → StepRefines dbl P s op m (f s op m)) :
    ∀ (ops : List Op) (s : Chain × Chain) (m : Mem), PairOk s m → Compat s ops →
      ((runWith f s ops m).2.1.1.triple = s.1.triple ∧ (runWith f s ops m).2.1.2.triple = s.2.triple) ∨
      ((runWith f s ops m).2.1.1.triple = s.2.triple ∧ (runWith f s ops m).2.1.2.triple = s.1.triple)
  | [], _, _, _, _ => Or.inl ⟨rfl, rfl⟩
  | op :: ops, s, m, h, hc => by
    obtain ⟨h1, ht, _⟩ := hf s op m h hc.spliceOk
    have ih := run_triples hf ops (f s op m).2.1 (f s op m).2.2 h1 (hc.tail ht.1)
    simp only [runWith]
    rcases ht.2.2 with ⟨a, b⟩ | ⟨a, b⟩ <;> rcases ih with ⟨c, d⟩ | ⟨c, d⟩
    · exact Or.inl ⟨c.trans a, d.trans b⟩
    · exact Or.inr ⟨c.trans b, d.trans a⟩
    · exact Or.inr ⟨c.trans a, d.trans b⟩
    · exact Or.inl ⟨c.trans b, d.trans a⟩

/-- a history between two lists on the same triple `t` never touches the other allocator -/
theorem run_frame_same (hf : ∀ s op m, PairOk s m → SpliceOk s.1.triple s.2.triple op → StepRefines dbl P s op m (f s op m)) (t : Triple) :
    ∀ (ops : List Op) (s : Chain × Chain) (m : Mem), PairOk s m → s.1.triple = t → s.2.triple = t →
      Mem.Frame t m (runWith f s ops m).2.2
  | [], _, m, _, _, _ => Mem.Frame.rfl' t m
  | op :: ops, s, m, h, h1, h2 => by
    obtain ⟨p1, ht, _, _, _, hfr, _⟩ := hf s op m h (fun _ => h1.trans h2.symm)
    have h1' : (f s op m).2.1.1.triple = t := by rcases ht.2.2 with ⟨a, _⟩ | ⟨a, _⟩ <;> rw [a] <;> assumption
    have h2' : (f s op m).2.1.2.triple = t := by rcases ht.2.2 with ⟨_, b⟩ | ⟨_, b⟩ <;> rw [b] <;> assumption
    have ih := run_frame_same hf t ops (f s op m).2.1 (f s op m).2.2 p1 h1' h2'
    simp only [runWith]
    rw [h1] at hfr
    exact hfr.trans ih

/-- a history without exchange of roles charges and discharges only the **destination's** triple:
the source list's allocator is never touched (`add_all`/`add_all_at` build their copies through the
destination — repair L5) -/
theorem run_frame_dest (hf : ∀ s op m, PairOk s m → SpliceOk s.1.triple s.2.triple op → StepRefines dbl P s op m (f s op m)) :
    ∀ (ops : List Op) (s : Chain × Chain) (m : Mem), PairOk s m → Compat s ops → (∀ op, op ∈ ops → op ≠ .swapRoles) →
      Mem.Frame s.1.triple m (runWith f s ops m).2.2 ∧ (runWith f s ops m).2.1.1.triple = s.1.triple ∧
      (runWith f s ops m).2.1.2.triple = s.2.triple
  | [], s, m, _, _, _ => ⟨Mem.Frame.rfl' _ m, rfl, rfl⟩
  | op :: ops, s, m, h, hc, hsw => by
    obtain ⟨p1, ht, _, _, _, hfr, _⟩ := hf s op m h hc.spliceOk
    obtain ⟨k1, k2⟩ := ht.2.1 (hsw op List.mem_cons_self)
    have ih := run_frame_dest hf ops (f s op m).2.1 (f s op m).2.2 p1 (hc.tail ht.1) (fun o ho => hsw o (List.mem_cons_of_mem _ ho))
    simp only [runWith]
    rw [k1] at ih
    exact ⟨hfr.trans ih.1, ih.2.1, ih.2.2.trans k2⟩

end CC.ListHistory
