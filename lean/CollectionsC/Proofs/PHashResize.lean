import CollectionsC.Proofs.PHash
/-! Pointer-level hash table: `move_entries` (the relinking loop), `resize`, the growth loop and
`cc_hashtable_add` as a whole. -/
namespace CC.PHash
open CC CC.HT

/-- the ghost id lists of the destination array while `move_entries` runs: every id is pushed on the
head of the list its index selects -/
def moveIds (ix : Nat → Nat) (ids : List Nat) (D : List (List Nat)) : List (List Nat) :=
  ids.foldl (fun d id => d.set (ix id) (id :: d.getD (ix id) [])) D

theorem moveIds_cons (ix : Nat → Nat) (id : Nat) (ids : List Nat) (D : List (List Nat)) :
    moveIds ix (id :: ids) D = moveIds ix ids (D.set (ix id) (id :: D.getD (ix id) [])) := rfl

theorem moveIds_append (ix : Nat → Nat) (a b : List Nat) (D : List (List Nat)) :
    moveIds ix (a ++ b) D = moveIds ix b (moveIds ix a D) := by
  unfold moveIds; rw [List.foldl_append]

theorem moveIds_length (ix : Nat → Nat) (ids : List Nat) (D : List (List Nat)) :
    (moveIds ix ids D).length = D.length := by
  induction ids generalizing D with
  | nil => rfl
  | cons id ids ih => rw [moveIds_cons, ih]; simp

theorem moveIds_perm (ix : Nat → Nat) (ids : List Nat) (D : List (List Nat)) (hix : ∀ x ∈ ids, ix x < D.length) :
    (moveIds ix ids D).flatten.Perm (ids ++ D.flatten) := by
  induction ids generalizing D with
  | nil => exact List.Perm.refl _
  | cons id ids ih =>
    rw [moveIds_cons]
    refine (ih _ (fun x hx => by simpa using hix x (by simp [hx]))).trans ?_
    refine ((perm_cons_set' D (ix id) id (hix id (by simp))).append_left ids).trans ?_
    simp only [List.cons_append]
    exact List.perm_middle

/-- the id-level relinking read entry by entry is `moveEntries` of the bucket-list model -/
theorem map_moveIds (h : Heap) (n : Nat) (ids : List Nat) (D : List (List Nat)) :
    (moveIds (fun id => (nd h id).hash &&& (n - 1)) ids D).map (ents h) =
      HashTable.moveEntries (ents h ids) (D.map (ents h)) n := by
  induction ids generalizing D with
  | nil => rfl
  | cons id ids ih =>
    rw [moveIds_cons, ih]
    have : HashTable.moveEntries (ents h (id :: ids)) (D.map (ents h)) n =
        HashTable.moveEntries (ents h ids) ((D.map (ents h)).set ((toEntry (nd h id)).hash &&& (n - 1))
          (toEntry (nd h id) :: (D.map (ents h)).getD ((toEntry (nd h id)).hash &&& (n - 1)) [])) n := rfl
    rw [this, List.map_set, getD_map_nil (ents h) rfl]
    rfl

theorem ents_flatten (h : Heap) (idss : List (List Nat)) : (idss.map (ents h)).flatten = ents h idss.flatten := by
  induction idss with
  | nil => rfl
  | cons ids idss ih => simp only [List.map_cons, List.flatten_cons, ih, ents_append]

/-- the inner loop of `move_entries` on one chain -/
theorem moveChain_spec (n : Nat) {ids : List Nat} : ∀ {h : Heap} {dest : List (Option Nat)} {D : List (List Nat)}
    {p : Option Nat} (_ : IsChain h p ids) (fuel : Nat) (_ : ids.length ≤ fuel) (_ : Chains h dest D)
    (_ : ids.Nodup) (_ : ∀ x ∈ ids, x ∉ D.flatten) (_ : ∀ x ∈ ids, (nd h x).hash &&& (n - 1) < dest.length),
    Chains (moveChain n fuel h dest p).1 (moveChain n fuel h dest p).2
        (moveIds (fun id => (nd h id).hash &&& (n - 1)) ids D) ∧
    (∀ y, ((moveChain n fuel h dest p).1.get y).isSome = (h.get y).isSome) ∧
    (∀ y, toEntry (nd (moveChain n fuel h dest p).1 y) = toEntry (nd h y)) ∧
    (∀ y, y ∉ ids → (nd (moveChain n fuel h dest p).1 y).next = (nd h y).next) ∧
    (moveChain n fuel h dest p).2.length = dest.length := by
  induction ids with
  | nil =>
    intro h dest D p hc fuel _ hD _ _ _
    have : p = none := hc
    subst this
    have : moveChain n fuel h dest none = (h, dest) := by cases fuel <;> rfl
    rw [this]
    exact ⟨hD, fun _ => rfl, fun _ => rfl, fun _ _ => rfl, rfl⟩
  | cons id rest ih =>
    intro h dest D p hc fuel hf hD hnd hdisj hix
    obtain ⟨h1, hlive, hnext⟩ := hc
    subst h1
    cases fuel with
    | zero => simp at hf
    | succ k =>
      obtain ⟨hidrest, hndrest⟩ := List.nodup_cons.mp hnd
      have hidD : id ∉ D.flatten := hdisj id (by simp)
      have hixid : (nd h id).hash &&& (n - 1) < dest.length := hix id (by simp)
      have hixD : (nd h id).hash &&& (n - 1) < D.length := by rw [hD.length]; exact hixid
      have hstep : moveChain n (k + 1) h dest (some id) =
          moveChain n k (setNext h id (dest.getD ((nd h id).hash &&& (n - 1)) none))
            (dest.set ((nd h id).hash &&& (n - 1)) (some id)) (nd h id).next := rfl
      have hfun : (fun x => (nd (setNext h id (dest.getD ((nd h id).hash &&& (n - 1)) none)) x).hash &&& (n - 1)) =
          (fun x => (nd h x).hash &&& (n - 1)) := by
        funext x; rw [hash_setNext]
      have hperm := perm_cons_set' D ((nd h id).hash &&& (n - 1)) id hixD
      have := ih (h := setNext h id (dest.getD ((nd h id).hash &&& (n - 1)) none))
        (dest := dest.set ((nd h id).hash &&& (n - 1)) (some id))
        (D := D.set ((nd h id).hash &&& (n - 1)) (id :: D.getD ((nd h id).hash &&& (n - 1)) []))
        (p := (nd h id).next)
        (IsChain.congr hnext (fun y hy => by
          have hne : y ≠ id := by rintro rfl; exact hidrest hy
          rw [isSome_setNext, nd_setNext_ne _ _ _ _ hne]; exact ⟨rfl, rfl⟩))
        k (by simpa using hf)
        (Chains.set_congr hD _ hixid _ _
          ⟨rfl, by rw [isSome_setNext]; exact hlive, by
            rw [nd_setNext_self _ _ _ hlive]
            simp only
            refine IsChain.congr (hD.get _) (fun y hy => ?_)
            have hne : y ≠ id := by rintro rfl; exact hidD (mem_flatten_of_getD D _ _ hy)
            rw [isSome_setNext, nd_setNext_ne _ _ _ _ hne]; exact ⟨rfl, rfl⟩⟩
          (fun j _ y hy => by
            have hne : y ≠ id := by rintro rfl; exact hidD (mem_flatten_of_getD D _ _ hy)
            rw [isSome_setNext, nd_setNext_ne _ _ _ _ hne]; exact ⟨rfl, rfl⟩))
        hndrest
        (fun x hx hm => by
          rw [hperm.mem_iff, List.mem_cons] at hm
          rcases hm with rfl | hm
          · exact hidrest hx
          · exact hdisj x (by simp [hx]) hm)
        (fun x hx => by
          rw [hash_setNext, List.length_set]; exact hix x (by simp [hx]))
      rw [hfun] at this
      obtain ⟨r1, r2, r3, r4, r5⟩ := this
      rw [hstep, moveIds_cons]
      refine ⟨r1, fun y => by rw [r2, isSome_setNext], fun y => by rw [r3, toEntry_setNext], ?_, by rw [r5, List.length_set]⟩
      intro y hy
      have hy1 : y ≠ id := fun e => hy (by simp [e])
      have hy2 : y ∉ rest := fun e => hy (by simp [e])
      rw [r4 y hy2, nd_setNext_ne _ _ _ _ hy1]

/-- `move_entries`: all source chains -/
theorem moveEntries_spec (n fuel : Nat) {src : List (Option Nat)} : ∀ {S : List (List Nat)} {h : Heap}
    {dest : List (Option Nat)} {D : List (List Nat)} (_ : Chains h src S) (_ : ∀ ids ∈ S, ids.length ≤ fuel)
    (_ : Chains h dest D) (_ : S.flatten.Nodup) (_ : ∀ x ∈ S.flatten, x ∉ D.flatten)
    (_ : ∀ x ∈ S.flatten, (nd h x).hash &&& (n - 1) < dest.length),
    Chains (moveEntries n fuel h src dest).1 (moveEntries n fuel h src dest).2
        (moveIds (fun id => (nd h id).hash &&& (n - 1)) S.flatten D) ∧
    (∀ y, ((moveEntries n fuel h src dest).1.get y).isSome = (h.get y).isSome) ∧
    (∀ y, toEntry (nd (moveEntries n fuel h src dest).1 y) = toEntry (nd h y)) ∧
    (moveEntries n fuel h src dest).2.length = dest.length := by
  induction src with
  | nil =>
    intro S h dest D hS _ hD _ _ _
    cases S with
    | cons _ _ => exact hS.elim
    | nil => exact ⟨hD, fun _ => rfl, fun _ => rfl, rfl⟩
  | cons p src ih =>
    intro S h dest D hS hf hD hnd hdisj hix
    cases S with
    | nil => exact hS.elim
    | cons ids S =>
      rw [List.flatten_cons] at hnd hdisj hix
      obtain ⟨hnd1, hnd2, hnd3⟩ := List.nodup_append.mp hnd
      obtain ⟨c1, c2, c3, c4, c5⟩ := moveChain_spec n hS.1 fuel (hf ids (by simp)) hD hnd1
        (fun x hx => hdisj x (List.mem_append_left _ hx)) (fun x hx => hix x (List.mem_append_left _ hx))
      have hstep : moveEntries n fuel h (p :: src) dest =
          moveEntries n fuel (moveChain n fuel h dest p).1 src (moveChain n fuel h dest p).2 := rfl
      have hfun : (fun x => (nd (moveChain n fuel h dest p).1 x).hash &&& (n - 1)) =
          (fun x => (nd h x).hash &&& (n - 1)) := by
        funext x; rw [show (nd (moveChain n fuel h dest p).1 x).hash = (toEntry (nd (moveChain n fuel h dest p).1 x)).hash from rfl, c3]; rfl
      have hperm := moveIds_perm (fun id => (nd h id).hash &&& (n - 1)) ids D (fun x hx => by
        rw [hD.length]; exact hix x (List.mem_append_left _ hx))
      have := ih (S := S) (h := (moveChain n fuel h dest p).1) (dest := (moveChain n fuel h dest p).2)
        (D := moveIds (fun id => (nd h id).hash &&& (n - 1)) ids D)
        (Chains.congr hS.2 (fun y hy => ⟨c2 y, c4 y (fun hm => hnd3 y hm y hy rfl)⟩))
        (fun x hx => hf x (by simp [hx])) c1 hnd2
        (fun x hx hm => by
          rw [hperm.mem_iff, List.mem_append] at hm
          rcases hm with hm | hm
          · exact hnd3 x hm x hx rfl
          · exact hdisj x (List.mem_append_right _ hx) hm)
        (fun x hx => by
          rw [c5, show (nd (moveChain n fuel h dest p).1 x).hash = (toEntry (nd (moveChain n fuel h dest p).1 x)).hash from rfl, c3]
          exact hix x (List.mem_append_right _ hx))
      rw [hfun] at this
      obtain ⟨r1, r2, r3, r4⟩ := this
      rw [hstep, List.flatten_cons, moveIds_append]
      exact ⟨r1, fun y => by rw [r2, c2], fun y => by rw [r3, c3], by rw [r4, c5]⟩

/-- `resize`: only the bucket array is allocated (and the old one released); every entry is relinked,
none is allocated, released or changed in key, value or hash -/
theorem resize_spec (c : HCfg) {t : PTable} {idss : List (List Nat)} (hs : Shape t idss)
    (hlen : t.buckets.length = t.capacity) (newCap : Nat) (hmask : ∀ h : Nat, h &&& (newCap - 1) < newCap) (m : Mem) :
    ((t.resize c newCap m).1, PTable.toTable (t.resize c newCap m).2.1, (t.resize c newCap m).2.2) =
        (PTable.toTable t).resize c newCap m ∧
    ∃ idss', Shape (t.resize c newCap m).2.1 idss' ∧ idss'.flatten.Perm idss.flatten ∧
      (∀ y, ((t.resize c newCap m).2.1.heap.get y).isSome = (t.heap.get y).isSome) ∧
      (∀ y, toEntry (nd (t.resize c newCap m).2.1.heap y) = toEntry (nd t.heap y)) ∧
      (t.resize c newCap m).2.1.fresh = t.fresh ∧
      ((t.resize c newCap m).1 = .ok → (t.resize c newCap m).2.1.capacity = newCap ∧
        (t.resize c newCap m).2.1.buckets.length = newCap ∧
        (t.resize c newCap m).2.2 = (m.allocT t.triple).2.freeT t.triple) ∧
      ((t.resize c newCap m).1 ≠ .ok → (t.resize c newCap m).2.1 = t) := by
  by_cases hmax : t.capacity = Gen.MAX_POW_TWO
  · have hr : t.resize c newCap m = (.errMaxCapacity, t, m) := by unfold PTable.resize; rw [if_pos hmax]
    have hl : (PTable.toTable t).resize c newCap m = (.errMaxCapacity, PTable.toTable t, m) := by
      unfold HashTable.resize; rw [if_pos (show (PTable.toTable t).capacity = Gen.MAX_POW_TWO from hmax)]
    rw [hr, hl]
    exact ⟨rfl, idss, hs, List.Perm.refl _, fun _ => rfl, fun _ => rfl, rfl, fun h => (by cases h), fun _ => rfl⟩
  cases ha : (m.allocT t.triple).1 with
  | false =>
    have hr : t.resize c newCap m = (.errAlloc, t, (m.allocT t.triple).2) := by
      unfold PTable.resize; rw [if_neg hmax]; simp only [ha]; rfl
    have hl : (PTable.toTable t).resize c newCap m = (.errAlloc, PTable.toTable t, (m.allocT t.triple).2) := by
      unfold HashTable.resize; rw [if_neg (show ¬ (PTable.toTable t).capacity = Gen.MAX_POW_TWO from hmax)]
      rw [show (PTable.toTable t).triple = t.triple from rfl]; simp only [ha]; rfl
    rw [hr, hl]
    exact ⟨rfl, idss, hs, List.Perm.refl _, fun _ => rfl, fun _ => rfl, rfl, fun h => (by cases h), fun _ => rfl⟩
  | true =>
    have htake : t.buckets.take t.capacity = t.buckets := List.take_of_length_le (by omega)
    have hall : ∀ (l : List Nat), l.all (fun id => decide ((nd t.heap id).hash &&& (newCap - 1) < newCap)) = true := by
      intro l; rw [List.all_eq_true]; intro x _; simpa using hmask _
    have hr : t.resize c newCap m = (.ok, { t with
        capacity := newCap, threshold := c.thr newCap,
        buckets := (moveEntries newCap t.fresh t.heap t.buckets (List.replicate newCap none)).2,
        heap := (moveEntries newCap t.fresh t.heap t.buckets (List.replicate newCap none)).1 },
        (m.allocT t.triple).2.freeT t.triple) := by
      unfold PTable.resize; rw [if_neg hmax]
      simp only [ha, htake, hs.chainsOk, hall, Bool.not_true, Bool.false_eq_true, if_false]
      have : decide (t.capacity ≤ t.buckets.length) = true := by simp; omega
      rw [this]; rfl
    have hwalk : (PTable.toTable t).walk = ents t.heap idss.flatten := by
      unfold HashTable.walk
      rw [toTable_eq hs]
      simp only
      rw [List.take_of_length_le (by rw [List.length_map, hs.len]; omega), ents_flatten]
    have hl : (PTable.toTable t).resize c newCap m = (.ok, { PTable.toTable t with
        capacity := newCap,
        threshold := c.thr newCap,
        buckets := (HashTable.moveEntries (ents t.heap idss.flatten) (List.replicate newCap []) newCap) },
        (m.allocT t.triple).2.freeT t.triple) := by
      unfold HashTable.resize; rw [if_neg (show ¬ (PTable.toTable t).capacity = Gen.MAX_POW_TWO from hmax)]
      rw [show (PTable.toTable t).triple = t.triple from rfl]
      simp only [ha, hwalk, Bool.not_true, Bool.false_eq_true, if_false]
      have h1 : decide ((PTable.toTable t).capacity ≤ (PTable.toTable t).buckets.length) = true := by
        rw [toTable_len]; exact decide_eq_true (by show t.capacity ≤ _; omega)
      have h2 : (ents t.heap idss.flatten).all (fun e => decide (e.hash &&& (newCap - 1) < newCap)) = true := by
        rw [List.all_eq_true]; intro x _; simpa using hmask _
      rw [h1, h2]; rfl
    obtain ⟨r1, r2, r3, r4⟩ := moveEntries_spec newCap t.fresh (src := t.buckets) (S := idss) (h := t.heap)
      (dest := List.replicate newCap none) (D := List.replicate newCap []) hs.chains hs.fuel_mem
      (Chains.replicate _ _) hs.nodup (fun x _ hm => by simp at hm)
      (fun x _ => by rw [List.length_replicate]; exact hmask _)
    have hperm := moveIds_perm (fun id => (nd t.heap id).hash &&& (newCap - 1)) idss.flatten (List.replicate newCap [])
      (fun x _ => by rw [List.length_replicate]; exact hmask _)
    have hflat : (List.replicate newCap ([] : List Nat)).flatten = [] := by simp
    rw [hflat, List.append_nil] at hperm
    have hs' : Shape { t with
        capacity := newCap, threshold := c.thr newCap,
        buckets := (moveEntries newCap t.fresh t.heap t.buckets (List.replicate newCap none)).2,
        heap := (moveEntries newCap t.fresh t.heap t.buckets (List.replicate newCap none)).1 }
        (moveIds (fun id => (nd t.heap id).hash &&& (newCap - 1)) idss.flatten (List.replicate newCap [])) :=
      ⟨r1, hperm.nodup_iff.mpr hs.nodup, fun y => by simp only; rw [r2, hs.live, hperm.mem_iff],
       fun y hy => hs.bound y (hperm.mem_iff.mp hy)⟩
    rw [hr, hl]
    refine ⟨?_, _, hs', hperm, r2, r3, rfl, fun _ => ⟨rfl, by simp only; rw [r4, List.length_replicate], rfl⟩, fun h => absurd rfl h⟩
    simp only
    rw [toTable_eq hs']
    simp only
    congr 2
    · congr 1
      have : (fun ids => ents (moveEntries newCap t.fresh t.heap t.buckets (List.replicate newCap none)).1 ids) = ents t.heap := by
        funext ids; exact ents_congr (fun y _ => r3 y)
      rw [show ents (moveEntries newCap t.fresh t.heap t.buckets (List.replicate newCap none)).1 = ents t.heap from this]
      rw [map_moveIds]
      simp

/-- the geometry the growth loop relies on: the capacity is a power of two and the bucket array has
`capacity` slots -/
structure Geo (t : PTable) : Prop where
  pow : ∃ k, t.capacity = 2 ^ k
  len : t.buckets.length = t.capacity

theorem Geo.index_lt {t : PTable} (hg : Geo t) (h : Nat) : t.index h < t.buckets.length := by
  obtain ⟨k, hk⟩ := hg.pow
  rw [hg.len]; unfold PTable.index; rw [hk, mask_eq_mod]; exact Nat.mod_lt _ (Nat.two_pow_pos k)

theorem growLoop_succ (c : HCfg) (fuel : Nat) (t : PTable) (m : Mem) :
    t.growLoop c (fuel + 1) m = if t.size ≥ t.threshold then
      (if (t.resize c (t.capacity <<< 1) m).1 ≠ .ok then t.resize c (t.capacity <<< 1) m
       else (t.resize c (t.capacity <<< 1) m).2.1.growLoop c fuel (t.resize c (t.capacity <<< 1) m).2.2)
      else (.ok, t, m) := rfl

theorem lgrowLoop_succ (c : HCfg) (fuel : Nat) (t : HashTable) (m : Mem) :
    t.growLoop c (fuel + 1) m = if t.size ≥ t.threshold then
      (if (t.resize c (t.capacity <<< 1) m).1 ≠ .ok then t.resize c (t.capacity <<< 1) m
       else (t.resize c (t.capacity <<< 1) m).2.1.growLoop c fuel (t.resize c (t.capacity <<< 1) m).2.2)
      else (.ok, t, m) := rfl

/-- the `while (size >= threshold) resize(...)` loop: entries are only relinked -/
theorem growLoop_spec (c : HCfg) (fuel : Nat) : ∀ {t : PTable} {idss : List (List Nat)} (_ : Shape t idss) (_ : Geo t)
    (m : Mem),
    ((t.growLoop c fuel m).1, PTable.toTable (t.growLoop c fuel m).2.1, (t.growLoop c fuel m).2.2) =
        (PTable.toTable t).growLoop c fuel m ∧
    ∃ idss', Shape (t.growLoop c fuel m).2.1 idss' ∧ idss'.flatten.Perm idss.flatten ∧ Geo (t.growLoop c fuel m).2.1 ∧
      (∀ y, ((t.growLoop c fuel m).2.1.heap.get y).isSome = (t.heap.get y).isSome) ∧
      (∀ y, toEntry (nd (t.growLoop c fuel m).2.1.heap y) = toEntry (nd t.heap y)) ∧
      (t.growLoop c fuel m).2.1.fresh = t.fresh := by
  induction fuel with
  | zero =>
    intro t idss hs hg m
    exact ⟨rfl, idss, hs, List.Perm.refl _, hg, fun _ => rfl, fun _ => rfl, rfl⟩
  | succ fuel ih =>
    intro t idss hs hg m
    rw [growLoop_succ, lgrowLoop_succ]
    by_cases hge : t.size ≥ t.threshold
    · rw [if_pos hge, if_pos (show (PTable.toTable t).size ≥ (PTable.toTable t).threshold from hge)]
      obtain ⟨k, hk⟩ := hg.pow
      have hsh : t.capacity <<< 1 = 2 ^ (k + 1) := by
        have : t.capacity <<< 1 = t.capacity * 2 := by simp [Nat.shiftLeft_eq]
        rw [this, hk]; exact (Nat.pow_succ ..).symm
      have hmask : ∀ h : Nat, h &&& (t.capacity <<< 1 - 1) < t.capacity <<< 1 := by
        intro h; rw [hsh, mask_eq_mod]; exact Nat.mod_lt _ (Nat.two_pow_pos _)
      obtain ⟨e, idss1, s1, p1, l1, t1, f1, ok1, nok1⟩ := resize_spec c hs hg.len (t.capacity <<< 1) hmask m
      rw [show (PTable.toTable t).capacity = t.capacity from rfl, ← e]
      simp only
      by_cases hst : (t.resize c (t.capacity <<< 1) m).1 = .ok
      · rw [if_neg (fun h => h hst), if_neg (fun h => h hst)]
        have hg1 : Geo (t.resize c (t.capacity <<< 1) m).2.1 := by
          obtain ⟨o1, o2, _⟩ := ok1 hst
          exact ⟨⟨k + 1, by rw [o1, hsh]⟩, by rw [o2, o1]⟩
        obtain ⟨e2, idss2, s2, p2, g2, l2, t2, f2⟩ := ih s1 hg1 (t.resize c (t.capacity <<< 1) m).2.2
        exact ⟨e2, idss2, s2, p2.trans p1, g2, fun y => by rw [l2, l1], fun y => by rw [t2, t1], by rw [f2, f1]⟩
      · rw [if_pos hst, if_pos hst]
        have := nok1 hst
        exact ⟨rfl, idss1, s1, p1, by rw [this]; exact hg, l1, t1, f1⟩
    · rw [if_neg hge, if_neg (show ¬ (PTable.toTable t).size ≥ (PTable.toTable t).threshold from hge)]
      exact ⟨rfl, idss, hs, List.Perm.refl _, hg, fun _ => rfl, fun _ => rfl, rfl⟩

/-- `cc_hashtable_add` on the heap is `add` of the bucket-list model; at most the entry with the next
serial number is allocated, no entry is released -/
theorem add_spec (c : HCfg) {t : PTable} {idss : List (List Nat)} (hs : Shape t idss) (hg : Geo t)
    (key : Option Nat) (v : Nat) (m : Mem) :
    ((t.add c key v m).1, PTable.toTable (t.add c key v m).2.1, (t.add c key v m).2.2) =
        (PTable.toTable t).add c key v m ∧
    ∃ idss', Shape (t.add c key v m).2.1 idss' ∧ Geo (t.add c key v m).2.1 ∧
      (∀ id, id ≠ t.fresh → ((t.add c key v m).2.1.heap.get id).isSome = (t.heap.get id).isSome) ∧
      t.fresh ≤ (t.add c key v m).2.1.fresh ∧ (t.add c key v m).2.1.fresh ≤ t.fresh + 1 := by
  obtain ⟨e, idss1, s1, _, g1, l1, _, f1⟩ := growLoop_spec c 64 hs hg m
  rw [add_eq, ladd_eq, ← e]
  simp only
  by_cases hst : (t.growLoop c 64 m).1 = .ok
  · rw [if_neg (fun h => h hst), if_neg (fun h => h hst)]
    obtain ⟨idss2, s2, e2, l2, f2, f3⟩ := addTail_spec c s1 key v (t.growLoop c 64 m).2.2 (g1.index_lt _)
    refine ⟨e2, idss2, s2, ?_, fun y hy => ?_, by rw [← f1]; exact f2, by rw [← f1]; exact f3⟩
    · -- the geometry: `addTail` keeps capacity and the length of the bucket array
      unfold addTail
      simp only
      split
      · exact ⟨g1.pow, g1.len⟩
      · split
        · exact ⟨g1.pow, g1.len⟩
        · exact ⟨g1.pow, by simp only [List.length_set]; exact g1.len⟩
    · rw [l2 y (by rw [f1]; exact hy), l1]
  · rw [if_pos hst, if_pos hst]
    exact ⟨rfl, idss1, s1, g1, fun y _ => l1 y, by rw [f1]; exact Nat.le_refl _, by rw [f1]; exact Nat.le_succ _⟩

end CC.PHash
