-- rotate_left of the pointer-level tree: node-by-node reads of the resulting heap and the representation theorem
import CollectionsC.Proofs.PTree
set_option linter.unusedSimpArgs false
set_option linter.unusedVariables false
namespace CC.PTree
open CC
open CC.Tree (Path Dir)

namespace ITree
theorem subtree_append (t : ITree) (q1 q2 : Path) : t.subtree (q1 ++ q2) = (t.subtree q1).subtree q2 := by
  induction q1 generalizing t with
  | nil => simp
  | cons d q ih =>
    cases t with
    | nil => simp
    | node id c l k v r => cases d <;> simp [ih]

theorem ids_subtree_nodup (t : ITree) (q : Path) (h : t.ids.Nodup) : (t.subtree q).ids.Nodup := by
  induction q generalizing t with
  | nil => simpa using h
  | cons d q ih =>
    cases t with
    | nil => simp
    | node id c l k v r =>
      simp only [ids_node, List.nodup_cons] at h
      have := List.nodup_append.1 h.2
      cases d with
      | L => simpa using ih l this.1
      | R => simpa using ih r this.2.1
end ITree

/-- the node above a non-empty position: it exists, it is outside the subtree, and it points to the
subtree with exactly the child pointer the last step of the path names -/
theorem Rep.parent_child {h : Heap} {t : ITree} {p0 : Nat} (hr : Rep h t p0) (hnd : t.ids.Nodup)
    (q0 : Path) (d : Dir) {x cx a kx vx b} (hs : t.subtree (q0 ++ [d]) = .node x cx a kx vx b) :
    parentAt t p0 (q0 ++ [d]) ≠ 0 ∧ parentAt t p0 (q0 ++ [d]) ∉ (t.subtree (q0 ++ [d])).ids ∧
    ((h.get (parentAt t p0 (q0 ++ [d]))).left = x ↔ d = .L) ∧
    ((h.get (parentAt t p0 (q0 ++ [d]))).right = x ↔ d = .R) := by
  have hpa : parentAt t p0 (q0 ++ [d]) = (t.subtree q0).rid := by
    simp [parentAt]
  rw [hpa]
  rw [ITree.subtree_append] at hs ⊢
  have hsub := hr.sub q0
  have hnd' := ITree.ids_subtree_nodup t q0 hnd
  cases hq : t.subtree q0 with
  | nil => rw [hq] at hs; simp at hs
  | node pn c l k v r =>
    rw [hq] at hs hsub hnd'
    obtain ⟨h1, h2, h3, h4⟩ := hsub
    simp only [ITree.ids_node, List.nodup_cons, List.mem_append, not_or] at hnd'
    obtain ⟨⟨hidl, hidr⟩, hnd''⟩ := hnd'
    obtain ⟨_, _, hdisj⟩ := List.nodup_append.1 hnd''
    cases d with
    | L =>
      simp only [ITree.subtree_L, ITree.subtree_root] at hs ⊢
      subst hs
      refine ⟨h1, hidl, by simp [h2], ?_⟩
      simp only [h2, ITree.rid_node, reduceCtorEq, iff_false]
      intro e
      cases r with
      | nil => exact h3.1 (by simpa using e.symm)
      | node i2 c2 l2 k2 v2 r2 =>
        simp only [ITree.rid_node] at e
        exact hdisj x (by simp) i2 (by simp) e.symm
    | R =>
      simp only [ITree.subtree_R, ITree.subtree_root] at hs ⊢
      subst hs
      refine ⟨h1, hidr, ?_, by simp [h2]⟩
      simp only [h2, ITree.rid_node, reduceCtorEq, iff_false]
      intro e
      cases l with
      | nil => exact h4.1 (by simpa using e.symm)
      | node i2 c2 l2 k2 v2 r2 =>
        simp only [ITree.rid_node] at e
        exact hdisj i2 (by simp) x (by simp) e

end CC.PTree

namespace CC.PTree
open CC
open CC.Tree (Path Dir)

theorem ite_get (c : Prop) [Decidable c] (h1 h2 : Heap) (i : Nat) :
    (if c then h1 else h2).get i = if c then h1.get i else h2.get i := by split <;> rfl

theorem path_cases (q : Path) : q = [] ∨ ∃ q0 d, q = q0 ++ [d] := by
  rcases List.eq_nil_or_concat q with h | ⟨q0, d, h⟩
  · exact Or.inl h
  · exact Or.inr ⟨q0, d, by simpa using h⟩

theorem rotateLeft_get_x (st : PT) (x y pn B al cr kx vx ky vy : Nat) (cx cy : Colour)
    (hxr : st.heap.get x = { key := kx, value := vx, color := cx, left := al, right := y, parent := pn })
    (hyr : st.heap.get y = { key := ky, value := vy, color := cy, left := B, right := cr, parent := x })
    (hxy : x ≠ y) (hbx : B ≠ x) (hby : B ≠ y)
    (hpar : pn = 0 ∨ (pn ≠ x ∧ pn ≠ y ∧ (B ≠ 0 → pn ≠ B))) :
    (rotateLeft st x).heap.get x = { key := kx, value := vx, color := cx, left := al, right := B, parent := y } := by
  have hyx : y ≠ x := Ne.symm hxy
  have hxb' : x ≠ B := Ne.symm hbx
  have hyb' : y ≠ B := Ne.symm hby
  unfold rotateLeft
  by_cases hb0 : B = 0 <;> rcases hpar with hp0 | ⟨hpx, hpy, hpb0⟩
  · simp [S, ite_get, setRight, setLeft, setParent, Heap.get_set, hxr, hyr, hxy, hyx, hb0, hp0]
    all_goals (try (split <;> simp))
  · have hpx' := Ne.symm hpx; have hpy' := Ne.symm hpy
    by_cases hp0 : pn = 0
    · simp [S, ite_get, setRight, setLeft, setParent, Heap.get_set, hxr, hyr, hxy, hyx, hb0, hp0]
    all_goals (try (split <;> simp))
    · simp [S, ite_get, setRight, setLeft, setParent, Heap.get_set, hxr, hyr, hxy, hyx, hb0, hp0, hpx, hpy, hpx', hpy']
    all_goals (try (split <;> simp))
  · simp [S, ite_get, setRight, setLeft, setParent, Heap.get_set, hxr, hyr, hxy, hyx, hb0, hp0, hbx, hby, hxb', hyb']
    all_goals (try (split <;> simp))
  · have hpx' := Ne.symm hpx; have hpy' := Ne.symm hpy
    have hpb := hpb0 hb0; have hpb' := Ne.symm hpb
    by_cases hp0 : pn = 0
    · simp [S, ite_get, setRight, setLeft, setParent, Heap.get_set, hxr, hyr, hxy, hyx, hb0, hp0, hbx, hby, hxb', hyb']
    all_goals (try (split <;> simp))
    · simp [S, ite_get, setRight, setLeft, setParent, Heap.get_set, hxr, hyr, hxy, hyx, hb0, hp0, hpx, hpy, hpx', hpy', hbx, hby, hxb', hyb', hpb, hpb']
    all_goals (try (split <;> simp))

theorem rotateLeft_get_y (st : PT) (x y pn B al cr kx vx ky vy : Nat) (cx cy : Colour)
    (hxr : st.heap.get x = { key := kx, value := vx, color := cx, left := al, right := y, parent := pn })
    (hyr : st.heap.get y = { key := ky, value := vy, color := cy, left := B, right := cr, parent := x })
    (hxy : x ≠ y) (hbx : B ≠ x) (hby : B ≠ y)
    (hpar : pn = 0 ∨ (pn ≠ x ∧ pn ≠ y ∧ (B ≠ 0 → pn ≠ B))) :
    (rotateLeft st x).heap.get y = { key := ky, value := vy, color := cy, left := x, right := cr, parent := pn } := by
  have hyx : y ≠ x := Ne.symm hxy
  have hxb' : x ≠ B := Ne.symm hbx
  have hyb' : y ≠ B := Ne.symm hby
  unfold rotateLeft
  by_cases hb0 : B = 0 <;> rcases hpar with hp0 | ⟨hpx, hpy, hpb0⟩
  · simp [S, ite_get, setRight, setLeft, setParent, Heap.get_set, hxr, hyr, hxy, hyx, hb0, hp0]
    all_goals (try (split <;> simp))
  · have hpx' := Ne.symm hpx; have hpy' := Ne.symm hpy
    by_cases hp0 : pn = 0
    · simp [S, ite_get, setRight, setLeft, setParent, Heap.get_set, hxr, hyr, hxy, hyx, hb0, hp0]
    all_goals (try (split <;> simp))
    · simp [S, ite_get, setRight, setLeft, setParent, Heap.get_set, hxr, hyr, hxy, hyx, hb0, hp0, hpx, hpy, hpx', hpy']
    all_goals (try (split <;> simp))
  · simp [S, ite_get, setRight, setLeft, setParent, Heap.get_set, hxr, hyr, hxy, hyx, hb0, hp0, hbx, hby, hxb', hyb']
    all_goals (try (split <;> simp))
  · have hpx' := Ne.symm hpx; have hpy' := Ne.symm hpy
    have hpb := hpb0 hb0; have hpb' := Ne.symm hpb
    by_cases hp0 : pn = 0
    · simp [S, ite_get, setRight, setLeft, setParent, Heap.get_set, hxr, hyr, hxy, hyx, hb0, hp0, hbx, hby, hxb', hyb']
    all_goals (try (split <;> simp))
    · simp [S, ite_get, setRight, setLeft, setParent, Heap.get_set, hxr, hyr, hxy, hyx, hb0, hp0, hpx, hpy, hpx', hpy', hbx, hby, hxb', hyb', hpb, hpb']
    all_goals (try (split <;> simp))

theorem rotateLeft_get_other (st : PT) (x y pn B al cr kx vx ky vy : Nat) (cx cy : Colour)
    (hxr : st.heap.get x = { key := kx, value := vx, color := cx, left := al, right := y, parent := pn })
    (hyr : st.heap.get y = { key := ky, value := vy, color := cy, left := B, right := cr, parent := x })
    (hxy : x ≠ y) (hbx : B ≠ x) (hby : B ≠ y)
    (hpar : pn = 0 ∨ (pn ≠ x ∧ pn ≠ y ∧ (B ≠ 0 → pn ≠ B))) (i : Nat) (h1 : i ≠ x) (h2 : i ≠ y) (h3' : B ≠ 0 → i ≠ B) (h4' : pn ≠ 0 → i ≠ pn) :
    (rotateLeft st x).heap.get i = st.heap.get i := by
  have hyx : y ≠ x := Ne.symm hxy
  have hxb' : x ≠ B := Ne.symm hbx
  have hyb' : y ≠ B := Ne.symm hby
  unfold rotateLeft
  by_cases hb0 : B = 0 <;> by_cases hp0 : pn = 0
  · simp [S, ite_get, setRight, setLeft, setParent, Heap.get_set, hxr, hyr, hxy, hyx, hb0, hp0, h1, h2]
  · have h4 := h4' hp0
    obtain ⟨hpx, hpy, _⟩ : pn ≠ x ∧ pn ≠ y ∧ (B ≠ 0 → pn ≠ B) := by rcases hpar with h | h; exact absurd h hp0; exact h
    have hpx' := Ne.symm hpx; have hpy' := Ne.symm hpy
    simp [S, ite_get, setRight, setLeft, setParent, Heap.get_set, hxr, hyr, hxy, hyx, hb0, hp0, hpx, hpy, hpx', hpy', h1, h2, h4]
  · have h3 := h3' hb0
    simp [S, ite_get, setRight, setLeft, setParent, Heap.get_set, hxr, hyr, hxy, hyx, hb0, hp0, hbx, hby, hxb', hyb', h1, h2, h3]
  · have h3 := h3' hb0
    have h4 := h4' hp0
    obtain ⟨hpx, hpy, hpb0⟩ : pn ≠ x ∧ pn ≠ y ∧ (B ≠ 0 → pn ≠ B) := by rcases hpar with h | h; exact absurd h hp0; exact h
    have hpx' := Ne.symm hpx; have hpy' := Ne.symm hpy
    have hpb := hpb0 hb0; have hpb' := Ne.symm hpb
    simp [S, ite_get, setRight, setLeft, setParent, Heap.get_set, hxr, hyr, hxy, hyx, hb0, hp0, hpx, hpy, hpx', hpy', hbx, hby, hxb', hyb', hpb, hpb', h1, h2, h3, h4]

theorem rotateLeft_get_b (st : PT) (x y pn B al cr kx vx ky vy : Nat) (cx cy : Colour)
    (hxr : st.heap.get x = { key := kx, value := vx, color := cx, left := al, right := y, parent := pn })
    (hyr : st.heap.get y = { key := ky, value := vy, color := cy, left := B, right := cr, parent := x })
    (hxy : x ≠ y) (hbx : B ≠ x) (hby : B ≠ y)
    (hpar : pn = 0 ∨ (pn ≠ x ∧ pn ≠ y ∧ (B ≠ 0 → pn ≠ B))) (hb0 : B ≠ 0) :
    (rotateLeft st x).heap.get B = { st.heap.get B with parent := x } := by
  have hyx : y ≠ x := Ne.symm hxy
  have hxb' : x ≠ B := Ne.symm hbx
  have hyb' : y ≠ B := Ne.symm hby
  unfold rotateLeft
  by_cases hp0 : pn = 0
  · simp [S, ite_get, setRight, setLeft, setParent, Heap.get_set, hxr, hyr, hxy, hyx, hb0, hp0, hbx, hby, hxb', hyb']
  · obtain ⟨hpx, hpy, hpb0⟩ : pn ≠ x ∧ pn ≠ y ∧ (B ≠ 0 → pn ≠ B) := by rcases hpar with h | h; exact absurd h hp0; exact h
    have hpx' := Ne.symm hpx; have hpy' := Ne.symm hpy
    have hpb := hpb0 hb0; have hpb' := Ne.symm hpb
    simp [S, ite_get, setRight, setLeft, setParent, Heap.get_set, hxr, hyr, hxy, hyx, hb0, hp0, hpx, hpy, hpx', hpy', hbx, hby, hxb', hyb', hpb, hpb']

theorem rotateLeft_get_pn (st : PT) (x y pn B al cr kx vx ky vy : Nat) (cx cy : Colour)
    (hxr : st.heap.get x = { key := kx, value := vx, color := cx, left := al, right := y, parent := pn })
    (hyr : st.heap.get y = { key := ky, value := vy, color := cy, left := B, right := cr, parent := x })
    (hxy : x ≠ y) (hbx : B ≠ x) (hby : B ≠ y)
    (hpar : pn = 0 ∨ (pn ≠ x ∧ pn ≠ y ∧ (B ≠ 0 → pn ≠ B))) (hp0 : pn ≠ 0) :
    (rotateLeft st x).heap.get pn =
      (if (st.heap.get pn).left = x then { st.heap.get pn with left := y } else { st.heap.get pn with right := y }) := by
  have hyx : y ≠ x := Ne.symm hxy
  have hxb' : x ≠ B := Ne.symm hbx
  have hyb' : y ≠ B := Ne.symm hby
  unfold rotateLeft
  obtain ⟨hpx, hpy, hpb0⟩ : pn ≠ x ∧ pn ≠ y ∧ (B ≠ 0 → pn ≠ B) := by rcases hpar with h | h; exact absurd h hp0; exact h
  have hpx' := Ne.symm hpx; have hpy' := Ne.symm hpy
  by_cases hb0 : B = 0
  · simp [S, ite_get, setRight, setLeft, setParent, Heap.get_set, hxr, hyr, hxy, hyx, hb0, hp0, hpx, hpy, hpx', hpy']
    by_cases e : x = (st.heap.get pn).left <;> simp [e, Eq.comm]
  · have hpb := hpb0 hb0; have hpb' := Ne.symm hpb
    simp [S, ite_get, setRight, setLeft, setParent, Heap.get_set, hxr, hyr, hxy, hyx, hb0, hp0, hpx, hpy, hpx', hpy', hbx, hby, hxb', hyb', hpb, hpb']
    by_cases e : x = (st.heap.get pn).left <;> simp [e, Eq.comm]

theorem rotateLeft_root (st : PT) (x y pn B al cr kx vx ky vy : Nat) (cx cy : Colour)
    (hxr : st.heap.get x = { key := kx, value := vx, color := cx, left := al, right := y, parent := pn })
    (hyr : st.heap.get y = { key := ky, value := vy, color := cy, left := B, right := cr, parent := x })
    (hxy : x ≠ y) (hbx : B ≠ x) (hby : B ≠ y)
    (hpar : pn = 0 ∨ (pn ≠ x ∧ pn ≠ y ∧ (B ≠ 0 → pn ≠ B))) :
    (rotateLeft st x).root = (if pn = 0 then y else st.root) ∧ (rotateLeft st x).size = st.size ∧
    (rotateLeft st x).fresh = st.fresh := by
  have hyx : y ≠ x := Ne.symm hxy
  have hxb' : x ≠ B := Ne.symm hbx
  unfold rotateLeft
  by_cases hb0 : B = 0 <;>
    simp [S, ite_get, setRight, setLeft, setParent, Heap.get_set, hxr, hyr, hxy, hyx, hb0, hbx, hxb']

/-- **`rotate_left(table, x)`**: when the node `x` at position `q` has a right child `y`, the pointer surgery
— `x->right`, `y->left->parent`, `y->parent`, the child pointer of `x`'s parent or `table->root`, `y->left`,
`x->parent` — leaves a heap that represents the tree with the subtree at `q` rotated, all parent pointers
included; the sentinel is not written -/
theorem rotateLeft_rep {st : PT} {t : ITree} (hr : Rep st.heap t 0) (hroot : st.root = t.rid)
    (hnd : t.ids.Nodup) (q : Path) {x cx a kx vx y cy b ky vy c}
    (hs : t.subtree q = .node x cx a kx vx (.node y cy b ky vy c)) :
    Rep (rotateLeft st x).heap (t.replace q (.node y cy (.node x cx a kx vx b) ky vy c)) 0 ∧
    (rotateLeft st x).root = (t.replace q (.node y cy (.node x cx a kx vx b) ky vy c)).rid ∧
    (rotateLeft st x).heap.get 0 = st.heap.get 0 ∧
    (rotateLeft st x).size = st.size ∧ (rotateLeft st x).fresh = st.fresh := by
  have hsub := hr.sub q
  rw [hs] at hsub
  obtain ⟨hx0, hxr, ha, hy0, hyr, hb, hc⟩ := hsub
  have hndS := ITree.ids_subtree_nodup t q hnd
  rw [hs] at hndS
  simp only [ITree.ids_node, List.nodup_cons, List.mem_cons, List.mem_append, not_or] at hndS
  obtain ⟨⟨hxa, hxy, hxb, hxc⟩, hnd2⟩ := hndS
  obtain ⟨hndA, hndYBC, hdisjA⟩ := List.nodup_append.1 hnd2
  simp only [List.nodup_cons, List.mem_append, not_or] at hndYBC
  obtain ⟨⟨hyb, hyc⟩, hndBC⟩ := hndYBC
  obtain ⟨hndB, hndC, hdisjBC⟩ := List.nodup_append.1 hndBC
  have hya : y ∉ a.ids := fun hm => hdisjA y hm y (by simp) rfl
  have hdab : ∀ i ∈ a.ids, ∀ j ∈ b.ids, i ≠ j := fun i hi j hj => hdisjA i hi j (by simp [hj])
  have hdbc : ∀ i ∈ b.ids, ∀ j ∈ c.ids, i ≠ j := hdisjBC
  have hbr : b.rid = 0 ∨ (b.rid ∈ b.ids ∧ b.rid ≠ 0) := by
    cases b with
    | nil => left; rfl
    | node bi bc bl bk bv br => right; exact ⟨by simp, hb.1⟩
  have hbrid : b.rid ≠ 0 → b.rid ∈ b.ids := by
    intro h; rcases hbr with h' | ⟨h', _⟩
    · exact absurd h' h
    · exact h'
  have hbx : b.rid ≠ x := by
    rcases hbr with h | ⟨h, _⟩
    · rw [h]; exact fun e => hx0 e.symm
    · exact fun e => hxb (e ▸ h)
  have hby : b.rid ≠ y := by
    rcases hbr with h | ⟨h, _⟩
    · rw [h]; exact fun e => hy0 e.symm
    · exact fun e => hyb (e ▸ h)
  generalize hpn : parentAt t 0 q = pn at hxr
  -- the node above
  have hpar : (q = [] ∧ pn = 0) ∨ (∃ q0 d, q = q0 ++ [d] ∧ pn ≠ 0 ∧ pn ≠ x ∧ pn ≠ y ∧ pn ∉ a.ids ∧ pn ∉ b.ids ∧
      pn ∉ c.ids ∧ ((st.heap.get pn).left = x ↔ d = .L)) := by
    rcases path_cases q with hq | ⟨q0, d, hq⟩
    · left; subst hq; exact ⟨rfl, by simpa [parentAt] using hpn.symm⟩
    · right
      subst hq
      obtain ⟨p1, p2, p3, _⟩ := hr.parent_child hnd q0 d hs
      rw [hpn] at p1 p2 p3
      rw [hs] at p2
      simp only [ITree.ids_node, List.mem_cons, List.mem_append, not_or] at p2
      exact ⟨q0, d, rfl, p1, p2.1, p2.2.2.1, p2.2.1, p2.2.2.2.1, p2.2.2.2.2, p3⟩
  have hpar' : pn = 0 ∨ (pn ≠ x ∧ pn ≠ y ∧ (b.rid ≠ 0 → pn ≠ b.rid)) := by
    rcases hpar with ⟨_, h0⟩ | ⟨_, _, _, _, h1, h2, _, h3, _⟩
    · exact Or.inl h0
    · exact Or.inr ⟨h1, h2, fun hb0 e => h3 (e ▸ hbrid hb0)⟩
  have hxy' : x ≠ y := hxy
  have gx := rotateLeft_get_x st x y pn b.rid a.rid c.rid kx vx ky vy cx cy hxr hyr hxy' hbx hby hpar'
  have gy := rotateLeft_get_y st x y pn b.rid a.rid c.rid kx vx ky vy cx cy hxr hyr hxy' hbx hby hpar'
  have gother := rotateLeft_get_other st x y pn b.rid a.rid c.rid kx vx ky vy cx cy hxr hyr hxy' hbx hby hpar'
  have gb := rotateLeft_get_b st x y pn b.rid a.rid c.rid kx vx ky vy cx cy hxr hyr hxy' hbx hby hpar'
  have gp := rotateLeft_get_pn st x y pn b.rid a.rid c.rid kx vx ky vy cx cy hxr hyr hxy' hbx hby hpar'
  obtain ⟨groot, gsize, gfresh⟩ :=
    rotateLeft_root st x y pn b.rid a.rid c.rid kx vx ky vy cx cy hxr hyr hxy' hbx hby hpar'
  -- assembling
  have hpn_q : pn = 0 ↔ q = [] := by
    rcases hpar with ⟨hq, hp0⟩ | ⟨q0, d, hq, hp0, _⟩
    · simp [hq, hp0]
    · simp [hq, hp0]
  have hbmem : ∀ i ∈ b.ids, i ≠ x ∧ i ≠ y := fun i hi => ⟨fun e => hxb (e ▸ hi), fun e => hyb (e ▸ hi)⟩
  have hne_pn : ∀ i, (i ∈ a.ids ∨ i ∈ b.ids ∨ i ∈ c.ids) → pn ≠ 0 → i ≠ pn := by
    intro i hi hp e
    rcases hpar with ⟨_, h⟩ | ⟨_, _, _, _, _, _, h1, h2, h3, _⟩
    · exact hp h
    · subst e; rcases hi with hi | hi | hi
      · exact h1 hi
      · exact h2 hi
      · exact h3 hi
  refine ⟨?_, ?_, ?_, gsize, gfresh⟩
  · refine hr.replace hnd q _ ?_ ?_ ?_
    · intro i _ hi hip
      rw [hs] at hi
      simp only [ITree.ids_node, List.mem_cons, List.mem_append, not_or] at hi
      rw [hpn] at hip
      exact gother i hi.1 hi.2.2.1 (fun hb0 e => hi.2.2.2.1 (e ▸ hbrid hb0)) (fun _ => hip)
    · rw [hpn]
      refine ⟨hy0, by rw [gy]; rfl, ⟨hx0, by rw [gx], ?_, ?_⟩, ?_⟩
      · exact ha.frame (fun i hi => gother i (fun e => hxa (e ▸ hi)) (fun e => hya (e ▸ hi))
          (fun hb0 e => hdab i hi b.rid (hbrid hb0) e) (hne_pn i (Or.inl hi)))
      · cases b with
        | nil => trivial
        | node bi bc bl bk bv br =>
          obtain ⟨b1, b2, b3, b4⟩ := hb
          simp only [ITree.ids_node, List.nodup_cons, List.mem_append, not_or] at hndB
          obtain ⟨⟨hbl, hbr'⟩, hndB'⟩ := hndB
          have gb' := gb (by simpa using b1)
          simp only [ITree.rid_node] at gb' gother
          refine ⟨b1, by rw [gb', b2], ?_, ?_⟩
          · exact b3.frame (fun i hi => gother i (hbmem i (by simp [hi])).1 (hbmem i (by simp [hi])).2
              (fun _ e => hbl (e ▸ hi)) (hne_pn i (Or.inr (Or.inl (by simp [hi])))))
          · exact b4.frame (fun i hi => gother i (hbmem i (by simp [hi])).1 (hbmem i (by simp [hi])).2
              (fun _ e => hbr' (e ▸ hi)) (hne_pn i (Or.inr (Or.inl (by simp [hi])))))
      · exact hc.frame (fun i hi => gother i (fun e => hxc (e ▸ hi)) (fun e => hyc (e ▸ hi))
          (fun hb0 e => hdbc b.rid (hbrid hb0) i hi e.symm) (hne_pn i (Or.inr (Or.inr hi))))
    · intro q0 d hq
      rw [hpn]
      rcases hpar with ⟨hq', _⟩ | ⟨q0', d', hq', hp0, _, _, _, _, _, hiff⟩
      · rw [hq'] at hq; simp at hq
      · have : q0' = q0 ∧ d' = d := by
          have := hq'.symm.trans hq
          simpa using List.append_inj' this rfl
        obtain ⟨rfl, rfl⟩ := this
        rw [gp hp0]
        cases d' with
        | L => simp [hiff.2 rfl, withChild]
        | R =>
          have : ¬ (st.heap.get pn).left = x := fun e => by have := hiff.1 e; cases this
          simp [this, withChild]
  · rw [groot]
    by_cases hq : q = []
    · subst hq; simp [hpn_q.2 rfl]
    · rcases path_cases q with h | ⟨q0, d, h⟩
      · exact absurd h hq
      · have : pn ≠ 0 := fun e => hq (hpn_q.1 e)
        simp only [this, if_false, hroot]
        subst h
        cases q0 with
        | nil => cases t with
          | nil => simp at hs
          | node => cases d <;> rfl
        | cons e q1 => exact (ITree.rid_replace_cons t e _ _).symm
  · exact gother 0 (Ne.symm hx0) (Ne.symm hy0) (fun h => Ne.symm h) (fun h => Ne.symm h)
end CC.PTree
