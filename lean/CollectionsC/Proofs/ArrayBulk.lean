import CollectionsC.Proofs.ArrayRemove
/-! Whole-array operations of the dynamic-array model: `reverse`, `filter_mut` (the descending
cluster-compaction loop is proved equal to `List.filter`), `filter`, `trim_capacity`, `sort`
(relative to the assumed `qsort` behaviour), `subarray`, the copies, `reduce`, constructor and
destructor. -/
namespace CC.Arr
open CC


/-! ### reverse -/

theorem reverse_loop (n : Nat) (b : Buf Nat) (hn : n ≤ b.length) : ∀ k, k ≤ n / 2 →
    ((List.range k).foldl (reverseStep n) b).length = b.length ∧
    ∀ t, t < n → ((List.range k).foldl (reverseStep n) b).get t =
      if t < k ∨ n - k ≤ t then b.get (n - 1 - t) else b.get t := by
  intro k
  induction k with
  | zero =>
    intro _
    refine ⟨rfl, fun t ht => ?_⟩
    have : ¬ (t < 0 ∨ n - 0 ≤ t) := by omega
    rw [if_neg this]; rfl
  | succ k ih =>
    intro hk
    obtain ⟨il, ig⟩ := ih (by omega)
    rw [List.range_succ, List.foldl_append]
    simp only [List.foldl_cons, List.foldl_nil]
    generalize (List.range k).foldl (reverseStep n) b = B at il ig
    refine ⟨by simp [reverseStep, il], fun t ht => ?_⟩
    simp only [reverseStep]
    rw [Buf.get_put, Buf.get_put]
    simp only [Buf.length_put, il]
    have hk2 : 2 * (k + 1) ≤ n := by omega
    by_cases h1 : n - 1 - k = t
    · have c1 : (n - 1 - k = t ∧ n - 1 - k < b.length) := ⟨h1, by omega⟩
      have c2 : (t < k + 1 ∨ n - (k + 1) ≤ t) := by omega
      rw [if_pos c1, if_pos c2, ig k (by omega)]
      have c3 : ¬ (k < k ∨ n - k ≤ k) := by omega
      rw [if_neg c3]
      congr 1; omega
    · have c1 : ¬ (n - 1 - k = t ∧ n - 1 - k < b.length) := by omega
      rw [if_neg c1]
      by_cases h2 : k = t
      · subst h2
        have c2 : (k = k ∧ k < b.length) := ⟨rfl, by omega⟩
        have c3 : (k < k + 1 ∨ n - (k + 1) ≤ k) := by omega
        rw [if_pos c2, if_pos c3, ig (n - 1 - k) (by omega)]
        have c4 : ¬ (n - 1 - k < k ∨ n - k ≤ n - 1 - k) := by omega
        rw [if_neg c4]
      · have c2 : ¬ (k = t ∧ k < b.length) := by omega
        rw [if_neg c2, ig t ht]
        by_cases h3 : t < k ∨ n - k ≤ t
        · have c3 : (t < k + 1 ∨ n - (k + 1) ≤ t) := by omega
          rw [if_pos h3, if_pos c3]
        · have c3 : ¬ (t < k + 1 ∨ n - (k + 1) ≤ t) := by omega
          rw [if_neg h3, if_neg c3]

/-- `cc_array_reverse` -/
theorem reverse_spec (a : Arr) (m : Mem) (hinv : a.Inv) :
    (a.reverse m).1.abs = Spec.Seq.reverse a.abs ∧ Kept a (a.reverse m).1 ∧
    (a.reverse m).1.size = a.size ∧ (a.reverse m).2 = m := by
  have hl := hinv.size_le_len
  unfold reverse Spec.Seq.reverse
  by_cases h0 : a.size = 0
  · have hnil : a.abs = [] := (abs_eq_nil_iff a).2 h0
    simp [h0, hnil, Kept.refl]
  · have h6 : decide (a.size ≤ a.buf.length) = true := by simpa using hl
    simp only [h0, if_false, h6, Mem.check_true]
    obtain ⟨rl, rg⟩ := reverse_loop a.size a.buf hl (a.size / 2) (Nat.le_refl _)
    refine ⟨?_, ⟨rfl, rl, rfl⟩, by trivial, by trivial⟩
    apply abs_eq_iff
    · simp
    · intro t ht
      simp only [List.length_reverse, abs_length] at ht
      rw [List.getElem_reverse, abs_getElem, rg t ht]
      simp only [abs_length]
      by_cases h3 : t < a.size / 2 ∨ a.size - a.size / 2 ≤ t
      · rw [if_pos h3]
      · have : a.size - 1 - t = t := by omega
        rw [if_neg h3, this]

/-! ### filter_mut -/

/-- loop invariant of the compaction loop, `n` iterations remaining: the slots below `n` are
untouched, `rm` rejected slots follow, then the `keep` survivors of the processed suffix -/
def FMInv (p : Nat → Bool) (orig : List Nat) (L : Nat) (n : Nat) (s : FM) : Prop :=
  n ≤ orig.length ∧ s.buf.length = L ∧ s.size = n + s.rm + s.keep ∧ (s.size ≤ L ∧ s.ok = true) ∧
  (∀ t, t < n → s.buf.get t = orig.getD t 0) ∧
  s.keep = ((orig.drop n).filter p).length ∧
  (∀ t, t < s.keep → s.buf.get (n + s.rm + t) = ((orig.drop n).filter p).getD t 0) ∧
  s.log = (orig.drop n).reverse

theorem filterMutLoop_inv (p : Nat → Bool) (orig : List Nat) (L : Nat) : ∀ n s,
    FMInv p orig L n s → FMInv p orig L 0 (filterMutLoop p n s) := by
  intro n
  induction n with
  | zero => intro s h; simpa [filterMutLoop] using h
  | succ i ih =>
    intro s h
    obtain ⟨h1, h2, h3, ⟨h4, h9⟩, h5, h6, h7, h8⟩ := h
    have hi : i < orig.length := by omega
    have hiL : decide (i < s.buf.length) = true := by simp; omega
    have hdrop : orig.drop i = orig[i] :: orig.drop (i + 1) := List.drop_eq_getElem_cons hi
    have he : s.buf.get i = orig[i] := by
      rw [h5 i (by omega), List.getD_eq_getElem?_getD, List.getElem?_eq_getElem hi]; rfl
    simp only [filterMutLoop]
    by_cases hp : p (s.buf.get i) = true
    · -- element kept
      have hp' : p orig[i] = true := by rw [← he]; exact hp
      simp only [hp, Bool.not_true, Bool.false_eq_true, if_false]
      apply ih
      have hfil : (orig.drop i).filter p = orig[i] :: (orig.drop (i + 1)).filter p := by
        rw [hdrop, List.filter_cons]; simp [hp']
      by_cases hrm : s.rm > 0
      · simp only [hrm, if_true]
        by_cases hk : s.keep > 0
        · simp only [hk, if_true]
          refine ⟨by omega, by simp [h2], by simp only; omega, ⟨by simp only; omega, by simp only [h9, hiL]; simp <;> omega⟩, ?_, ?_, ?_, ?_⟩
          · intro t ht
            simp only
            rw [Buf.get_memmove _ _ _ _ _ (by omega)]
            have : ¬ (i + 1 ≤ t ∧ t < i + 1 + s.keep) := by omega
            simp only [this, if_false]
            exact h5 t (by omega)
          · simp only; rw [hfil]; simp [h6]
          · intro t ht
            simp only at ht ⊢
            rw [hfil]
            rw [Buf.get_memmove _ _ _ _ _ (by omega)]
            cases t with
            | zero =>
              have : ¬ (i + 1 ≤ i + 0 + 0 ∧ i + 0 + 0 < i + 1 + s.keep) := by omega
              simp only [this, if_false, List.getD_cons_zero]
              exact he
            | succ t =>
              have : (i + 1 ≤ i + 0 + (t + 1) ∧ i + 0 + (t + 1) < i + 1 + s.keep) := by omega
              simp only [this, and_self, if_true, List.getD_cons_succ]
              have := h7 t (by omega)
              rw [← this]
              congr 1; omega
          · simp only; rw [hdrop, List.reverse_cons, h8, he]
        · have hk0 : s.keep = 0 := by omega
          simp only [hk, if_false]
          refine ⟨by omega, by simp [h2], by simp only; omega, ⟨by simp only; omega, by simp only [h9, hiL]; simp <;> omega⟩, ?_, ?_, ?_, ?_⟩
          · intro t ht; exact h5 t (by omega)
          · simp only; rw [hfil]; simp [h6]
          · intro t ht
            simp only at ht ⊢
            rw [hfil]
            have : t = 0 := by omega
            subst this
            simp only [Nat.add_zero, List.getD_cons_zero]
            exact he
          · simp only; rw [hdrop, List.reverse_cons, h8, he]
      · have hrm0 : s.rm = 0 := by omega
        simp only [hrm, if_false]
        refine ⟨by omega, h2, by simp only; omega, ⟨h4, by simp only [h9, hiL]; rfl⟩, ?_, ?_, ?_, ?_⟩
        · intro t ht; exact h5 t (by omega)
        · simp only; rw [hfil]; simp [h6]
        · intro t ht
          simp only at ht ⊢
          rw [hfil]
          cases t with
          | zero => simp only [Nat.add_zero, List.getD_cons_zero, hrm0]; exact he
          | succ t =>
            simp only [List.getD_cons_succ]
            have := h7 t (by omega)
            rw [← this]
            congr 1; omega
        · simp only; rw [hdrop, List.reverse_cons, h8, he]
    · -- element rejected
      have hp' : ¬ p orig[i] = true := by rw [← he]; exact hp
      have hpf : p (s.buf.get i) = false := by simpa using hp
      simp only [hpf, Bool.not_false, if_true]
      apply ih
      have hfil : (orig.drop i).filter p = (orig.drop (i + 1)).filter p := by
        rw [hdrop, List.filter_cons]; simp [hp']
      refine ⟨by omega, h2, by simp only; omega, ⟨h4, by simp only [h9, hiL]; rfl⟩, ?_, ?_, ?_, ?_⟩
      · intro t ht; exact h5 t (by omega)
      · simp only; rw [hfil]; exact h6
      · intro t ht
        simp only at ht ⊢
        rw [hfil]
        have := h7 t ht
        rw [← this]
        congr 1; omega
      · simp only; rw [hdrop, List.reverse_cons, h8, he]

theorem abs_getD' (a : Arr) (t : Nat) (h : t < a.size) : a.buf.get t = a.abs.getD t 0 := (abs_getD a t h).symm

/-- `cc_array_filter_mut`: exactly the elements satisfying the predicate survive, in order; the
predicate is called once per element from the last to the first; the empty array is rejected -/
theorem filterMut_spec (p : Nat → Bool) (a : Arr) (m : Mem) (hinv : a.Inv) :
    (a.filterMut p m).1 = (Spec.Seq.filterMut p a.abs).1 ∧
    (a.filterMut p m).2.1.abs = (Spec.Seq.filterMut p a.abs).2 ∧
    Kept a (a.filterMut p m).2.1 ∧ (a.filterMut p m).2.1.size ≤ a.size ∧
    (a.filterMut p m).2.2.2 = m ∧
    ((a.filterMut p m).1 = .ok → (a.filterMut p m).2.2.1 = a.abs.reverse) ∧
    ((a.filterMut p m).1 ≠ .ok → (a.filterMut p m).2.1 = a) ∧
    ((a.filterMut p m).1 = .ok ↔ 0 < a.size) := by
  have hl := hinv.size_le_len
  unfold filterMut Spec.Seq.filterMut
  by_cases h0 : a.size = 0
  · have hnil : a.abs = [] := (abs_eq_nil_iff a).2 h0
    simp [h0, hnil, Kept.refl]
  · have hnil : ¬ a.abs = [] := by rw [abs_eq_nil_iff]; exact h0
    simp only [h0, if_false, hnil]
    have hstart : FMInv p a.abs a.buf.length a.size { buf := a.buf, size := a.size, rm := 0, keep := 0, log := [] } := by
      refine ⟨by simp, rfl, by simp, ⟨by simpa using hl, rfl⟩, fun t ht => abs_getD' a t ht, ?_, ?_, ?_⟩
      · simp only; rw [List.drop_of_length_le (by simp)]; rfl
      · intro t ht; simp at ht
      · simp only; rw [List.drop_of_length_le (by simp)]; rfl
    have hend := filterMutLoop_inv p a.abs a.buf.length a.size _ hstart
    generalize filterMutLoop p a.size { buf := a.buf, size := a.size, rm := 0, keep := 0, log := [] } = s at hend
    obtain ⟨e1, e2, e3, ⟨e4, e9⟩, e5, e6, e7, e8⟩ := hend
    simp only [List.drop_zero, Nat.zero_add] at e3 e6 e7 e8
    have hle : (a.abs.filter p).length ≤ a.size := by
      have := List.length_filter_le p a.abs; simpa using this
    refine ⟨by trivial, ?_, ?_, ?_, ?_, ?_, by simp, by simp; omega⟩
    · -- content
      apply abs_eq_iff
      · by_cases hrm : s.rm > 0 <;> simp only [hrm, if_true, if_false] <;> omega
      · intro t ht
        rw [← e6] at ht
        have hget : (List.filter p a.abs)[t] = (List.filter p a.abs).getD t 0 := by
          rw [List.getD_eq_getElem?_getD, List.getElem?_eq_getElem (by omega)]; rfl
        rw [hget, ← e7 t ht]
        by_cases hrm : s.rm > 0
        · simp only [hrm, if_true]
          rw [Buf.get_memmove _ _ _ _ _ (by omega)]
          have : (0 ≤ t ∧ t < 0 + s.keep) := by omega
          simp only [this, and_self, if_true]
          congr 1; omega
        · simp only [hrm, if_false]
          congr 1; omega
    · by_cases hrm : s.rm > 0 <;> simp [hrm, Kept, e2]
    · by_cases hrm : s.rm > 0 <;> simp only [hrm, if_true, if_false] <;> omega
    · by_cases hrm : s.rm > 0
      · have : decide (s.rm + s.keep ≤ s.buf.length) = true := by simp; omega
        simp only [hrm, if_true, e9, this, Bool.and_self, Mem.check_true]
      · simp only [hrm, if_false, e9, Mem.check_true]
    · intro _
      by_cases hrm : s.rm > 0 <;> simp [hrm, e8]

/-! ### filter (new array) -/

theorem filter_loop (p : Nat → Bool) (src : Buf Nat) (C : Nat) : ∀ k, k ≤ C →
    let s := (List.range k).foldl (filterStep p src) ((Buf.mk C : Buf Nat), 0)
    s.1.length = C ∧ s.2 = (((List.range k).map src.get).filter p).length ∧ s.2 ≤ k ∧
    ∀ t, t < s.2 → s.1.get t = (((List.range k).map src.get).filter p).getD t 0 := by
  intro k
  induction k with
  | zero => intro _; simp
  | succ k ih =>
    intro hk
    obtain ⟨i1, i2, i3, i4⟩ := ih (by omega)
    simp only [List.range_succ, List.foldl_append, List.foldl_cons, List.foldl_nil, List.map_append,
      List.map_cons, List.map_nil, List.filter_append]
    generalize (List.range k).foldl (filterStep p src) ((Buf.mk C : Buf Nat), 0) = s at i1 i2 i3 i4
    simp only [filterStep]
    by_cases hp : p (src.get k) = true
    · simp only [hp, if_true, List.filter_cons, List.filter_nil, List.length_append, List.length_singleton,
        Buf.length_put]
      refine ⟨i1, by omega, by omega, fun t ht => ?_⟩
      rw [Buf.get_put]
      by_cases h1 : s.2 = t
      · have c : (s.2 = t ∧ s.2 < s.1.length) := ⟨h1, by omega⟩
        rw [if_pos c, List.getD_eq_getElem?_getD, List.getElem?_append_right (by omega)]
        have : t - (List.filter p (List.map src.get (List.range k))).length = 0 := by omega
        rw [this]; rfl
      · have c : ¬ (s.2 = t ∧ s.2 < s.1.length) := by omega
        rw [if_neg c, i4 t (by omega), List.getD_eq_getElem?_getD, List.getD_eq_getElem?_getD,
          List.getElem?_append_left (by omega)]
    · simp only [hp, if_false, Bool.false_eq_true, List.filter_cons, List.filter_nil, List.append_nil]
      exact ⟨i1, i2, by omega, i4⟩

/-- the allocation pair of the derived-array builders, through the triple `t`: both blocks or none -/
theorem alloc2_cases (m : Mem) (t : Triple := .conf) :
    ((alloc2 m t).1 = true ∧ own t (alloc2 m t).2 = own t m + 2 ∧ (alloc2 m t).2.fault = m.fault) ∨
    ((alloc2 m t).1 = false ∧ own t (alloc2 m t).2 = own t m ∧ (alloc2 m t).2.fault = m.fault) := by
  unfold alloc2
  rcases allocT_cases m t with ⟨g1, _, g3⟩ | ⟨g1, _, g3⟩
  · have o1 := own_allocT_ok m t g1
    simp only [g1, Bool.not_true, Bool.false_eq_true, if_false]
    rcases allocT_cases (m.allocT t).2 t with ⟨k1, _, k3⟩ | ⟨k1, _, k3⟩
    · left
      have o2 := own_allocT_ok (m.allocT t).2 t k1
      simp only [k1, Bool.not_true, Bool.false_eq_true, if_false]
      exact ⟨trivial, by omega, by rw [k3, g3]⟩
    · right
      have o2 := own_allocT_refused (m.allocT t).2 t k1
      have hf := freeT_live ((m.allocT t).2.allocT t).2 t (by omega)
      simp only [k1, Bool.not_false, if_true]
      exact ⟨trivial, by rw [hf.2.2]; omega, by rw [hf.2.1, k3, g3]⟩
  · right
    have o1 := own_allocT_refused m t g1
    simp only [g1, Bool.not_false, if_true]
    exact ⟨trivial, o1, g3⟩

/-- `cc_array_filter`: a new array with the source's capacity, configuration and allocators holding
exactly the elements that satisfy the predicate; the source is not an argument of the result
(value semantics), a refusal yields no object and a balanced ledger -/
theorem filter_spec (p : Nat → Bool) (a : Arr) (m : Mem) (hinv : a.Inv) :
    ((a.filter p m).1 = .errOutOfRange ∧ a.size = 0 ∧ (a.filter p m).2.1 = none ∧ (a.filter p m).2.2.2 = m) ∨
    ((a.filter p m).1 = .errAlloc ∧ 0 < a.size ∧ (alloc2 m a.triple).1 = false ∧ (a.filter p m).2.1 = none ∧
      own a.triple (a.filter p m).2.2.2 = own a.triple m ∧ (a.filter p m).2.2.2.fault = m.fault) ∨
    ((a.filter p m).1 = .ok ∧ 0 < a.size ∧ (alloc2 m a.triple).1 = true ∧
      ∃ r, (a.filter p m).2.1 = some r ∧ r.abs = a.abs.filter p ∧ r.Inv ∧ r.grow = a.grow ∧
        r.capacity = a.capacity ∧ (a.filter p m).2.2.1 = a.abs ∧
        own a.triple (a.filter p m).2.2.2 = own a.triple m + 2 ∧ (a.filter p m).2.2.2.fault = m.fault) := by
  have hl := hinv.size_le_len
  obtain ⟨h1, h2, h3, h4⟩ := hinv
  unfold filter
  by_cases h0 : a.size = 0
  · left; simp [h0]
  · right
    simp only [h0, if_false]
    rcases alloc2_cases m a.triple with ⟨g1, g2, g3⟩ | ⟨g1, g2, g3⟩
    · right
      have h6 : (decide (a.size ≤ a.buf.length) && decide (a.size ≤ a.capacity)) = true := by simp; omega
      simp only [g1, Bool.not_true, Bool.false_eq_true, if_false, h6, Mem.check_true]
      obtain ⟨f1, f2, f3, f4⟩ := filter_loop p a.buf a.capacity a.size h1
      refine ⟨by trivial, by omega, by trivial, _, rfl, ?_, ⟨by simp only; omega, by simp only; omega, h3, h4⟩, rfl, rfl, rfl, g2, g3⟩
      apply abs_eq_iff
      · simp only; rw [f2]; rfl
      · intro t ht
        simp only
        rw [f4 t (by rw [f2]; exact ht)]
        unfold abs at ht ⊢
        rw [List.getD_eq_getElem?_getD, List.getElem?_eq_getElem ht]; rfl
    · left
      simp [g1, g2, g3]; omega

/-! ### trim_capacity -/

/-- `cc_array_trim_capacity`: content untouched; on success the capacity is `max size 1` (C20);
a refusal leaves the whole state alone; the ledger is balanced -/
theorem trimCapacity_spec (a : Arr) (m : Mem) (hinv : a.Inv) :
    (((a.trimCapacity m).1 = .ok ∧ (a.trimCapacity m).2.1.abs = a.abs ∧ (a.trimCapacity m).2.1.size = a.size ∧
      (a.trimCapacity m).2.1.capacity = max a.size 1 ∧ (a.trimCapacity m).2.1.Inv ∧
      (a.trimCapacity m).2.1.grow = a.grow) ∨
     ((a.trimCapacity m).1 = .errAlloc ∧ (m.allocT a.triple).1 = false ∧ (a.trimCapacity m).2.1 = a)) ∧
    (a.trimCapacity m).2.2.live = m.live ∧ (a.trimCapacity m).2.2.fault = m.fault := by
  have hinv' := hinv
  obtain ⟨h1, h2, h3, h4⟩ := hinv
  unfold trimCapacity
  by_cases he : a.size = a.capacity
  · simp only [he, if_true]
    refine ⟨Or.inl ⟨by triv, by triv, by triv, ?_, hinv', by triv⟩, by triv, by triv⟩
    rw [← he]; omega
  · simp only [he, if_false]
    by_cases he2 : (if a.size < 1 then 1 else a.size) = a.capacity
    · simp only [he2, if_true]
      refine ⟨Or.inl ⟨by triv, by triv, by triv, ?_, hinv', by triv⟩, by triv, by triv⟩
      rw [← he2]; split <;> omega
    · simp only [he2, if_false]
      rcases allocT_cases m a.triple with ⟨g1, g2, g3⟩ | ⟨g1, g2, g3⟩
      · have hc : (decide (a.size ≤ a.buf.length) && decide (a.size ≤ if a.size < 1 then 1 else a.size)) = true := by
          simp; constructor
          · omega
          · split <;> omega
        have hf := freeT_live (m.allocT a.triple).2 a.triple (own_pos_of_allocT m a.triple g1)
        simp only [g1, Bool.not_true, Bool.false_eq_true, if_false, hc, Mem.check_true]
        refine ⟨Or.inl ⟨by triv, ?_, by triv, ?_, ⟨?_, by simp, ?_, ?_⟩, by triv⟩, by rw [hf.1, g2]; omega, by rw [hf.2.1]; exact g3⟩
        · refine abs_congr _ a rfl ?_
          intro i hi
          simp only at hi ⊢
          rw [Buf.get_memcpy _ _ _ _ _ _ (by simp; split <;> omega)]
          simp [hi]
        · first | (simp only; split <;> omega) | (split <;> omega)
        · first | (simp only; split <;> omega) | (split <;> omega)
        · first | (simp only; split <;> omega) | (split <;> omega)
        · first | (simp only; split <;> omega) | (split <;> omega)
      · simp [g1, g2, g3]

/-! ### sort (relative to the assumed behaviour of `qsort`) -/

/-- `cc_array_sort`: if the sorting routine returns a list of the same length (every permutation
does), the array holds exactly what the routine produced from the old content -/
theorem sort_spec (sortFn : List Nat → List Nat) (a : Arr) (m : Mem) (hinv : a.Inv)
    (hlen : (sortFn a.abs).length = a.abs.length) :
    (a.sort sortFn m).1.abs = Spec.Seq.sort sortFn a.abs ∧ Kept a (a.sort sortFn m).1 ∧
    (a.sort sortFn m).1.size = a.size ∧ (a.sort sortFn m).2 = m := by
  have hl := hinv.size_le_len
  have h6 : decide (a.size ≤ a.buf.length) = true := by simpa using hl
  unfold sort Spec.Seq.sort
  simp only [h6, Mem.check_true]
  refine ⟨?_, ⟨rfl, by simp, rfl⟩, by triv, by triv⟩
  apply abs_eq_iff
  · simpa using hlen
  · intro t ht
    have ht' : t < a.size := by rw [hlen] at ht; simpa using ht
    simp only [Buf.get, List.getD_eq_getElem?_getD]
    rw [List.getElem?_map, List.getElem?_range (by omega)]
    simp only [Option.map_some, Option.getD_some, ht', if_true]
    have : (List.map a.buf.get (List.range a.size)) = a.abs := rfl
    rw [this, List.getElem?_eq_getElem ht]; rfl

/-! ### derived arrays -/

/-- `cc_array_subarray`, for every pair of indices: the inclusive range `[b,e]` when
`b ≤ e < size`, rejected otherwise; the result inherits the growth function (A3) and is a sound
array of its own; a refusal yields no object and a balanced ledger -/
theorem subarray_spec (a : Arr) (b e : Nat) (m : Mem) (hinv : a.Inv) :
    ((a.subarray b e m).1 = .errInvalidRange ∧ ¬ (b ≤ e ∧ e < a.size) ∧ (a.subarray b e m).2.1 = none ∧
      (a.subarray b e m).2.2 = m) ∨
    ((a.subarray b e m).1 = .errAlloc ∧ (b ≤ e ∧ e < a.size) ∧ (alloc2 m a.triple).1 = false ∧ (a.subarray b e m).2.1 = none ∧
      own a.triple (a.subarray b e m).2.2 = own a.triple m ∧ (a.subarray b e m).2.2.fault = m.fault) ∨
    ((a.subarray b e m).1 = .ok ∧ (b ≤ e ∧ e < a.size) ∧ (alloc2 m a.triple).1 = true ∧
      ∃ r, (a.subarray b e m).2.1 = some r ∧ some r.abs = (Spec.Seq.subarray a.abs b e).2 ∧ r.Inv ∧
        r.grow = a.grow ∧ r.capacity = r.size ∧
        own a.triple (a.subarray b e m).2.2 = own a.triple m + 2 ∧ (a.subarray b e m).2.2.fault = m.fault) := by
  obtain ⟨h1, h2, h3, h4⟩ := hinv
  unfold subarray
  by_cases hr : b ≤ e ∧ e < a.size
  · right
    have h5 : (decide (b > e) || decide (e ≥ a.size)) = false := by simp; omega
    simp only [h5, Bool.false_eq_true, if_false]
    rcases alloc2_cases m a.triple with ⟨g1, g2, g3⟩ | ⟨g1, g2, g3⟩
    · right
      have h6 : (decide (b + (e - b + 1) ≤ a.buf.length) && decide (e - b + 1 ≤ a.capacity)) = true := by
        simp; omega
      simp only [g1, Bool.not_true, Bool.false_eq_true, if_false, h6, Mem.check_true]
      refine ⟨by trivial, hr, by trivial, _, rfl, ?_, ⟨by simp only; omega, by simp only [Buf.length_memcpy, Buf.length_mk]; omega,
        by simp only; omega, by simp only; omega⟩, rfl, rfl, g2, g3⟩
      unfold Spec.Seq.subarray
      have hr' : b ≤ e ∧ e < a.abs.length := by simpa using hr
      simp only [hr', and_self, if_true, Option.some.injEq]
      apply abs_eq_iff
      · simp; omega
      · intro t ht
        simp only [List.length_take, List.length_drop, abs_length] at ht
        rw [List.getElem_take, List.getElem_drop, abs_getElem]
        simp only
        rw [Buf.get_memcpy _ _ _ _ _ _ (by simp; omega)]
        have : (0 ≤ t ∧ t < 0 + (e - b + 1)) := by omega
        rw [if_pos this]
        congr 1; omega
    · left
      simp [g1, g2, g3, hr]
  · left
    have h5 : (decide (b > e) || decide (e ≥ a.size)) = true := by simp; omega
    simp [h5, hr]

/-- `cc_array_copy_shallow` -/
theorem copyShallow_spec (a : Arr) (m : Mem) (hinv : a.Inv) :
    ((a.copyShallow m).1 = .errAlloc ∧ (alloc2 m a.triple).1 = false ∧ (a.copyShallow m).2.1 = none ∧
      own a.triple (a.copyShallow m).2.2 = own a.triple m ∧ (a.copyShallow m).2.2.fault = m.fault) ∨
    ((a.copyShallow m).1 = .ok ∧ (alloc2 m a.triple).1 = true ∧
      ∃ r, (a.copyShallow m).2.1 = some r ∧ r.abs = Spec.Seq.copyShallow a.abs ∧ r.Inv ∧
        r.grow = a.grow ∧ r.capacity = a.capacity ∧
        own a.triple (a.copyShallow m).2.2 = own a.triple m + 2 ∧ (a.copyShallow m).2.2.fault = m.fault) := by
  obtain ⟨h1, h2, h3, h4⟩ := hinv
  unfold copyShallow
  rcases alloc2_cases m a.triple with ⟨g1, g2, g3⟩ | ⟨g1, g2, g3⟩
  · right
    have h6 : (decide (a.size ≤ a.buf.length) && decide (a.size ≤ a.capacity)) = true := by simp; omega
    simp only [g1, Bool.not_true, Bool.false_eq_true, if_false, h6, Mem.check_true]
    refine ⟨by trivial, by trivial, _, rfl, ?_, ⟨h1, by simp, h3, h4⟩, rfl, rfl, g2, g3⟩
    refine abs_congr _ a rfl ?_
    intro i hi
    simp only at hi ⊢
    rw [Buf.get_memcpy _ _ _ _ _ _ (by simp; omega)]
    simp [hi]
  · left
    simp [g1, g2, g3]

/-- `cc_array_copy_deep`: the images under the copy function, which is called once per element
in index order -/
theorem copyDeep_spec (cp : Nat → Nat) (a : Arr) (m : Mem) (hinv : a.Inv) :
    ((a.copyDeep cp m).1 = .errAlloc ∧ (alloc2 m a.triple).1 = false ∧ (a.copyDeep cp m).2.1 = none ∧
      own a.triple (a.copyDeep cp m).2.2.2 = own a.triple m ∧ (a.copyDeep cp m).2.2.2.fault = m.fault) ∨
    ((a.copyDeep cp m).1 = .ok ∧ (alloc2 m a.triple).1 = true ∧
      ∃ r, (a.copyDeep cp m).2.1 = some r ∧ r.abs = Spec.Seq.copyDeep cp a.abs ∧ r.Inv ∧
        r.grow = a.grow ∧ r.capacity = a.capacity ∧ (a.copyDeep cp m).2.2.1 = a.abs ∧
        own a.triple (a.copyDeep cp m).2.2.2 = own a.triple m + 2 ∧ (a.copyDeep cp m).2.2.2.fault = m.fault) := by
  obtain ⟨h1, h2, h3, h4⟩ := hinv
  unfold copyDeep
  rcases alloc2_cases m a.triple with ⟨g1, g2, g3⟩ | ⟨g1, g2, g3⟩
  · right
    have h6 : (decide (a.size ≤ a.buf.length) && decide (a.size ≤ a.capacity)) = true := by simp; omega
    simp only [g1, Bool.not_true, Bool.false_eq_true, if_false, h6, Mem.check_true]
    refine ⟨by trivial, by trivial, _, rfl, ?_, ⟨h1, by simp, h3, h4⟩, rfl, rfl, rfl, g2, g3⟩
    unfold Spec.Seq.copyDeep
    apply abs_eq_iff
    · simp
    · intro t ht
      simp only [List.length_map, abs_length] at ht
      simp only [List.getElem_map, abs_getElem, Buf.get, List.getD_eq_getElem?_getD]
      rw [List.getElem?_map, List.getElem?_range (by omega)]
      simp [ht]
  · left
    simp [g1, g2, g3]

/-! ### reduce -/

theorem abs_eq_cons_cons (a : Arr) (h : 2 ≤ a.size) :
    a.abs = a.buf.get 0 :: a.buf.get 1 :: (List.range' 2 (a.size - 2)).map a.buf.get := by
  apply List.ext_getElem
  · simp; omega
  · intro t h1 h2
    rw [abs_getElem]
    match t with
    | 0 => rfl
    | 1 => rfl
    | t + 2 =>
      simp only [List.getElem_cons_succ, List.getElem_map, List.getElem_range']
      congr 1; omega

/-- `cc_array_reduce`: the call pattern `fn(e0,e1)`, `fn(acc,ei)…` with the size-0 and size-1
special cases -/
theorem reduce_spec (fn : Nat → Nat → Nat) (a : Arr) (r0 : Nat) (m : Mem) (hinv : a.Inv) :
    (a.reduce fn r0 m).1 = (Spec.Seq.reduce fn a.abs r0).1 ∧
    (a.reduce fn r0 m).2.1 = (Spec.Seq.reduce fn a.abs r0).2 ∧ (a.reduce fn r0 m).2.2 = m := by
  have hl := hinv.size_le_len
  have h6 : decide (a.size ≤ a.buf.length) = true := by simpa using hl
  unfold reduce
  simp only [h6, Mem.check_true]
  by_cases h1 : a.size = 1
  · have : a.abs = [a.buf.get 0] := by
      apply List.ext_getElem
      · simp [h1]
      · intro t ht _
        have : t = 0 := by simp [h1] at ht; omega
        subst this; rw [abs_getElem]; rfl
    simp [h1, this, Spec.Seq.reduce]
  · simp only [h1, if_false]
    by_cases h2 : a.size > 1
    · rw [abs_eq_cons_cons a (by omega)]
      simp only [h2, if_true, Spec.Seq.reduce, List.foldl_map]
      exact ⟨by triv, by triv, by triv⟩
    · have h0 : a.size = 0 := by omega
      have hnil : a.abs = [] := (abs_eq_nil_iff a).2 h0
      simp [h0, hnil, Spec.Seq.reduce]

/-! ### constructor, destructor -/

/-- for a valid capacity the constructor is its allocation pair -/
theorem new_eq (cap : Nat) (grow : Nat → Nat) (exGe : Nat → Bool) (m : Mem) (t : Triple)
    (h0 : ¬ cap = 0) (h1 : ¬ exGe (Gen.CC_MAX_ELEMENTS / cap) = true) (h8 : ¬ cap > Gen.CC_MAX_ELEMENTS / 8) :
    Arr.new cap grow exGe m t =
      if (alloc2 m t).1 then (.ok, some { size := 0, capacity := cap, buf := Buf.mk cap, grow := grow, triple := t }, (alloc2 m t).2)
      else (.errAlloc, none, (alloc2 m t).2) := by
  unfold Arr.new alloc2
  simp only [h0, h1, h8, if_false, Bool.false_eq_true]
  cases (m.allocT t).1 <;> simp
  cases ((m.allocT t).2.allocT t).1 <;> simp

theorem new_invalid_eq (cap : Nat) (grow : Nat → Nat) (exGe : Nat → Bool) (m : Mem) (t : Triple)
    (h : cap = 0 ∨ exGe (Gen.CC_MAX_ELEMENTS / cap) = true ∨ cap > Gen.CC_MAX_ELEMENTS / 8) :
    Arr.new cap grow exGe m t = (.errInvalidCapacity, none, m) := by
  unfold Arr.new
  by_cases h0 : cap = 0
  · simp [h0]
  · by_cases h1 : exGe (Gen.CC_MAX_ELEMENTS / cap) = true
    · simp [h0, h1]
    · have h2 : cap > Gen.CC_MAX_ELEMENTS / 8 := by
        rcases h with h | h | h
        · exact absurd h h0
        · exact absurd h h1
        · exact h
      simp [h0, h1, h2]

/-- `cc_array_new_conf`: invalid capacity (0, a factor too large for it, or a buffer whose byte
size would wrap — A9) → rejected without touching the allocator; refusal → `CC_ERR_ALLOC`, no
object, balanced ledger; otherwise an empty sound array owning two blocks -/
theorem new_spec (cap : Nat) (grow : Nat → Nat) (exGe : Nat → Bool) (m : Mem) (t : Triple := .conf) :
    ((Arr.new cap grow exGe m t).1 = .errInvalidCapacity ∧ (Arr.new cap grow exGe m t).2.1 = none ∧
      (Arr.new cap grow exGe m t).2.2 = m ∧
      (cap = 0 ∨ exGe (Gen.CC_MAX_ELEMENTS / cap) = true ∨ Gen.CC_MAX_ELEMENTS / 8 < cap)) ∨
    ((Arr.new cap grow exGe m t).1 = .errAlloc ∧ (Arr.new cap grow exGe m t).2.1 = none ∧ 1 ≤ cap ∧
      (alloc2 m t).1 = false ∧
      own t (Arr.new cap grow exGe m t).2.2 = own t m ∧ (Arr.new cap grow exGe m t).2.2.fault = m.fault) ∨
    ((Arr.new cap grow exGe m t).1 = .ok ∧ (alloc2 m t).1 = true ∧
      ∃ r, (Arr.new cap grow exGe m t).2.1 = some r ∧ r.abs = [] ∧ r.Inv ∧ r.capacity = cap ∧ r.grow = grow ∧
        own t (Arr.new cap grow exGe m t).2.2 = own t m + 2 ∧ (Arr.new cap grow exGe m t).2.2.fault = m.fault) := by
  have ha := alloc2_cases m t
  -- the constructor's allocation sequence is `alloc2`
  have hnew : ∀ (h0 : ¬ cap = 0) (h1 : ¬ exGe (Gen.CC_MAX_ELEMENTS / cap) = true) (h8 : ¬ cap > Gen.CC_MAX_ELEMENTS / 8),
      Arr.new cap grow exGe m t =
        if (alloc2 m t).1 then (.ok, some { size := 0, capacity := cap, buf := Buf.mk cap, grow := grow, triple := t }, (alloc2 m t).2)
        else (.errAlloc, none, (alloc2 m t).2) := by
    intro h0 h1 h8
    unfold Arr.new alloc2
    simp only [h0, h1, h8, if_false, Bool.false_eq_true]
    cases (m.allocT t).1 <;> simp
    cases ((m.allocT t).2.allocT t).1 <;> simp
  by_cases h0 : cap = 0
  · left; simp [Arr.new, h0]
  · by_cases h1 : exGe (Gen.CC_MAX_ELEMENTS / cap) = true
    · left; simp [Arr.new, h0, h1]
    · by_cases h8 : cap > Gen.CC_MAX_ELEMENTS / 8
      · left; simp [Arr.new, h0, h1, h8]
      · right
        have hcap : cap ≤ Gen.CC_MAX_ELEMENTS / 8 := by omega
        rw [hnew h0 h1 h8]
        rcases ha with ⟨a1, a2, a3⟩ | ⟨a1, a2, a3⟩
        · right
          simp only [a1, if_true]
          exact ⟨trivial, trivial, _, rfl, by simp [abs], ⟨by simp, by simp, by simp only; omega, hcap⟩, rfl, rfl, a2, a3⟩
        · left
          simp only [a1, Bool.false_eq_true, if_false]
          exact ⟨trivial, trivial, by omega, trivial, a2, a3⟩

/-- `cc_array_destroy` releases the two blocks of the array, through the array's own triple -/
theorem destroy_spec (a : Arr) (m : Mem) (hlive : 2 ≤ own a.triple m) :
    own a.triple (a.destroy m) = own a.triple m - 2 ∧ (a.destroy m).fault = m.fault := by
  unfold destroy
  have f1 := freeT_live m a.triple (by omega)
  have f2 := freeT_live (m.freeT a.triple) a.triple (by omega)
  exact ⟨by omega, by rw [f2.2.1, f1.2.1]⟩

theorem destroyCb_spec (a : Arr) (m : Mem) (hinv : a.Inv) (hlive : 2 ≤ own a.triple m) :
    (a.destroyCb m).1 = a.abs ∧ own a.triple (a.destroyCb m).2 = own a.triple m - 2 ∧ (a.destroyCb m).2.fault = m.fault := by
  have h6 : decide (a.size ≤ a.buf.length) = true := by simpa using hinv.size_le_len
  unfold destroyCb
  simp only [h6, Mem.check_true]
  exact ⟨rfl, destroy_spec a m hlive⟩

end CC.Arr
