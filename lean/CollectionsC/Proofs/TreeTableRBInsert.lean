import CollectionsC.Proofs.TreeTableBST
/-! Red-black invariant, part 1: `cc_treetable_add` (descent + `rebalance_after_insert`) preserves
`RB` (root black, no red node with a red child, equal black heights). -/
namespace CC.Tree
open Colour
variable {cmp : Nat → Nat → Int}

/-- state between the recursive call and the fix-up: both subtrees satisfy the rules and have equal
black heights; the root may be red with (at most) one red child -/
def RBinfra : Tree → Prop
  | nil => True
  | node c l _ _ r => RBok l ∧ RBok r ∧ bh l = bh r ∧ (c = red → l.col = black ∨ r.col = black)

@[simp] theorem col_nil : nil.col = black := rfl
@[simp] theorem col_node (c l k v r) : (node c l k v r).col = c := rfl
@[simp] theorem red_ne_black : (red = black) = False := by simp
@[simp] theorem black_ne_red : (black = red) = False := by simp
theorem col_ne_red {t : Tree} : (¬ t.col = red) ↔ t.col = black := by
  cases h : t.col <;> simp

theorem RBok.infra {t : Tree} (h : RBok t) : RBinfra t := by
  cases t with
  | nil => trivial
  | node c l k v r => exact ⟨h.1, h.2.1, h.2.2.1, fun hc => Or.inl (h.2.2.2 hc).1⟩

theorem fixInsLeft_rb (c : Colour) (p : Tree) (k v : Nat) (y : Tree)
    (hp : RBinfra p) (hy : RBok y) (hb : bh p = bh y) (hc : c = red → RBok p ∧ y.col = black) :
    bh (fixInsLeft (node c p k v y)) = bh (node c p k v y) ∧ RBinfra (fixInsLeft (node c p k v y)) ∧
    (c = black → RBok (fixInsLeft (node c p k v y))) := by
  rcases p with _ | ⟨_ | _, pl, pk, pv, pr⟩
  · cases c <;> simp_all [fixInsLeft, RBinfra, RBok, bh]
  · -- p red
    rcases y with _ | ⟨_ | _, yl, yk, yv, yr⟩ <;> cases c <;> cases hpl : pl.col <;>
      rcases pr with _ | ⟨_ | _, zl, zk, zv, zr⟩ <;>
      simp_all [fixInsLeft, RBinfra, RBok, bh] <;> omega
  · cases c <;> simp_all [fixInsLeft, RBinfra, RBok, bh]

theorem fixInsRight_rb (c : Colour) (y : Tree) (k v : Nat) (p : Tree)
    (hp : RBinfra p) (hy : RBok y) (hb : bh y = bh p) (hc : c = red → RBok p ∧ y.col = black) :
    bh (fixInsRight (node c y k v p)) = bh (node c y k v p) ∧ RBinfra (fixInsRight (node c y k v p)) ∧
    (c = black → RBok (fixInsRight (node c y k v p))) := by
  rcases p with _ | ⟨_ | _, pl, pk, pv, pr⟩
  · cases c <;> simp_all [fixInsRight, RBinfra, RBok, bh]
  · -- p red
    rcases y with _ | ⟨_ | _, yl, yk, yv, yr⟩ <;> cases c <;> cases hpr : pr.col <;>
      rcases pl with _ | ⟨_ | _, zl, zk, zv, zr⟩ <;>
      simp_all [fixInsRight, RBinfra, RBok, bh] <;> omega
  · cases c <;> simp_all [fixInsRight, RBinfra, RBok, bh]

/-- the recursive insertion keeps the black height, leaves at most a red-red violation at the
root (none under a black root) and changes neither shape nor colours when the key exists -/
theorem ins_rb (k v : Nat) (t : Tree) (h : RBok t) :
    bh (ins cmp k v t).1 = bh t ∧ RBinfra (ins cmp k v t).1 ∧ (t.col = black → RBok (ins cmp k v t).1) ∧
    ((ins cmp k v t).2.1 = false → RBok (ins cmp k v t).1 ∧ (ins cmp k v t).1.col = t.col) := by
  induction t with
  | nil => simp [ins, RBinfra, RBok, bh]
  | node c l key val r ihl ihr =>
    obtain ⟨hl, hr, hbh, hcc⟩ := h
    obtain ⟨l1, l2, l3, l4⟩ := ihl hl
    obtain ⟨r1, r2, r3, r4⟩ := ihr hr
    unfold ins
    split
    · -- left
      cases hn : (ins cmp k v l).2.1
      · obtain ⟨a, b⟩ := l4 hn
        simp only [hn, Bool.false_eq_true, ↓reduceIte]
        refine ⟨by simp [bh, l1], ⟨a, hr, by omega, fun hc => Or.inr (hcc hc).2⟩, fun _ => ⟨a, hr, by omega, ?_⟩,
          fun _ => ⟨⟨a, hr, by omega, ?_⟩, rfl⟩⟩
        · intro hc; rw [b]; exact hcc hc
        · intro hc; rw [b]; exact hcc hc
      · simp only [hn, ↓reduceIte, col_node]
        have := fixInsLeft_rb c (ins cmp k v l).1 key val r l2 hr (by omega)
          (fun hc => ⟨l3 (hcc hc).1, (hcc hc).2⟩)
        refine ⟨by rw [this.1]; simp [bh, l1], this.2.1, this.2.2, by simp⟩
    · split
      · cases hn : (ins cmp k v r).2.1
        · obtain ⟨a, b⟩ := r4 hn
          simp only [hn, Bool.false_eq_true, ↓reduceIte]
          refine ⟨by simp [bh], ⟨hl, a, by omega, fun hc => Or.inl (hcc hc).1⟩, fun _ => ⟨hl, a, by omega, ?_⟩,
            fun _ => ⟨⟨hl, a, by omega, ?_⟩, rfl⟩⟩
          · intro hc; rw [b]; exact hcc hc
          · intro hc; rw [b]; exact hcc hc
        · simp only [hn, ↓reduceIte, col_node]
          have := fixInsRight_rb c l key val (ins cmp k v r).1 r2 hl (by omega)
            (fun hc => ⟨r3 (hcc hc).2, (hcc hc).1⟩)
          refine ⟨by rw [this.1]; simp [bh], this.2.1, this.2.2, by simp⟩
      · simp only [col_node]
        exact ⟨by simp [bh], ⟨hl, hr, hbh, fun hc => Or.inl (hcc hc).1⟩, fun _ => ⟨hl, hr, hbh, hcc⟩,
          fun _ => ⟨⟨hl, hr, hbh, hcc⟩, trivial⟩⟩

theorem RBok_blacken {t : Tree} (h : RBinfra t) : RB t.blacken := by
  cases t with
  | nil => exact ⟨trivial, rfl⟩
  | node c l k v r => exact ⟨⟨h.1, h.2.1, h.2.2.1, by simp⟩, rfl⟩

/-- **insertion preserves the red-black invariant** (`cc_treetable_add`, new key) -/
theorem RB_insert (k v : Nat) (t : Tree) (h : RB t) : RB (ins cmp k v t).1.blacken :=
  RBok_blacken (ins_rb k v t h.1).2.1

/-- replacing the value of an existing key keeps the invariant (no recolouring happens) -/
theorem RB_replace (k v : Nat) (t : Tree) (h : RB t) (hn : (ins cmp k v t).2.1 = false) :
    RB (ins cmp k v t).1 := by
  obtain ⟨a, b⟩ := (ins_rb k v t h.1).2.2.2 hn
  exact ⟨a, by rw [b]; exact h.2⟩
end CC.Tree
