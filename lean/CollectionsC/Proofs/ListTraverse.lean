import CollectionsC.Proofs.SListStep
/-! Complete traversals: `k` successive `next` calls of the list iterators, and what they yield. -/
namespace CC
open CC Chain
open CC.Spec

namespace LSeqT
/-- `k` successive `next` calls of the ideal ascending cursor -/
def nexts (xs : List Nat) : Nat → LSeq.Cursor → List (Stat × Option Nat) × LSeq.Cursor
  | 0, c => ([], c)
  | k + 1, c => let r := LSeq.itNext xs c; let rs := nexts xs k r.2.2; ((r.1, r.2.1) :: rs.1, rs.2)
def dnexts (xs : List Nat) : Nat → LSeq.Cursor → List (Stat × Option Nat) × LSeq.Cursor
  | 0, c => ([], c)
  | k + 1, c => let r := LSeq.ditNext xs c; let rs := dnexts xs k r.2.2; ((r.1, r.2.1) :: rs.1, rs.2)
def znexts (xs ys : List Nat) : Nat → LSeq.Cursor → List (Stat × Option (Nat × Nat)) × LSeq.Cursor
  | 0, c => ([], c)
  | k + 1, c => let r := LSeq.zitNext xs ys c; let rs := znexts xs ys k r.2.2; ((r.1, r.2.1) :: rs.1, rs.2)

/-- the ideal ascending cursor yields the elements from its position on, in order -/
theorem nexts_spec (xs : List Nat) : ∀ (k : Nat) (c : LSeq.Cursor), c.pos + k ≤ xs.length →
    (nexts xs k c).1 = ((xs.drop c.pos).take k).map (fun v => (Stat.ok, some v)) ∧ (nexts xs k c).2.pos = c.pos + k
  | 0, c, _ => by simp [nexts]
  | k + 1, c, h => by
    have hp : c.pos < xs.length := by omega
    have ih := nexts_spec xs k (LSeq.itNext xs c).2.2 (by simp [LSeq.itNext, hp]; omega)
    simp only [nexts, ih]
    simp only [LSeq.itNext, hp, if_true]
    rw [drop_eq_getD_cons xs c.pos hp]
    exact ⟨by simp, by omega⟩

/-- … and reports the end exactly when nothing is left -/
theorem next_end_iff (xs : List Nat) (c : LSeq.Cursor) (h : c.pos ≤ xs.length) :
    (LSeq.itNext xs c).1 = .iterEnd ↔ c.pos = xs.length := by
  unfold LSeq.itNext
  by_cases hp : c.pos < xs.length
  · simp [hp]; omega
  · simp [hp]; omega

/-- the ideal descending cursor yields the elements in front of its position, last first -/
theorem dnexts_spec (xs : List Nat) : ∀ (k : Nat) (c : LSeq.Cursor), k ≤ c.pos → c.pos ≤ xs.length →
    (dnexts xs k c).1 = ((xs.take c.pos).reverse.take k).map (fun v => (Stat.ok, some v)) ∧ (dnexts xs k c).2.pos = c.pos - k
  | 0, c, _, _ => by simp [dnexts]
  | k + 1, c, h, hl => by
    have hp : 0 < c.pos ∧ c.pos ≤ xs.length := ⟨by omega, hl⟩
    have ih := dnexts_spec xs k (LSeq.ditNext xs c).2.2 (by simp [LSeq.ditNext, hp]; omega) (by simp [LSeq.ditNext, hp]; omega)
    simp only [dnexts, ih]
    simp only [LSeq.ditNext, hp, and_self, if_true]
    have e : (xs.take c.pos).reverse = xs.getD (c.pos - 1) 0 :: (xs.take (c.pos - 1)).reverse := by
      have h1 : c.pos - 1 < xs.length := by omega
      have : xs.take c.pos = xs.take (c.pos - 1) ++ [xs.getD (c.pos - 1) 0] := by
        have h2 : c.pos = (c.pos - 1) + 1 := by omega
        rw [h2, List.take_succ_eq_append_getElem h1]; simp [h1]
      rw [this]; simp
    rw [e]
    exact ⟨by simp, by omega⟩

theorem dnext_end_iff (xs : List Nat) (c : LSeq.Cursor) (h : c.pos ≤ xs.length) :
    (LSeq.ditNext xs c).1 = .iterEnd ↔ c.pos = 0 := by
  unfold LSeq.ditNext
  by_cases hp : 0 < c.pos ∧ c.pos ≤ xs.length
  · simp [hp]; omega
  · simp [hp]; omega

/-- the zip cursor yields the pairs in lock-step and stops at the shorter list -/
theorem znexts_spec (xs ys : List Nat) : ∀ (k : Nat) (c : LSeq.Cursor), c.pos + k ≤ xs.length → c.pos + k ≤ ys.length →
    (znexts xs ys k c).1 = (((xs.drop c.pos).zip (ys.drop c.pos)).take k).map (fun v => (Stat.ok, some v)) ∧
    (znexts xs ys k c).2.pos = c.pos + k
  | 0, c, _, _ => by simp [znexts]
  | k + 1, c, h1, h2 => by
    have hp1 : c.pos < xs.length := by omega
    have hp2 : c.pos < ys.length := by omega
    have ih := znexts_spec xs ys k (LSeq.zitNext xs ys c).2.2 (by simp [LSeq.zitNext, hp1, hp2]; omega)
      (by simp [LSeq.zitNext, hp1, hp2]; omega)
    simp only [znexts, ih]
    simp only [LSeq.zitNext, hp1, hp2, and_self, if_true]
    rw [drop_eq_getD_cons xs c.pos hp1, drop_eq_getD_cons ys c.pos hp2]
    exact ⟨by simp, by omega⟩

theorem znext_end_iff (xs ys : List Nat) (c : LSeq.Cursor) (h1 : c.pos ≤ xs.length) (h2 : c.pos ≤ ys.length) :
    (LSeq.zitNext xs ys c).1 = .iterEnd ↔ c.pos = min xs.length ys.length := by
  unfold LSeq.zitNext
  by_cases hp : c.pos < xs.length ∧ c.pos < ys.length
  · simp [hp]; omega
  · simp [hp]; omega
end LSeqT

namespace DList
/-- `k` successive `cc_list_iter_next` calls -/
def iterNexts (l : Chain) : Nat → Iter → Mem → List (Stat × Option Nat) × Iter × Mem
  | 0, it, m => ([], it, m)
  | k + 1, it, m =>
    let r := iterNext l it m; let rs := iterNexts l k r.2.2.1 r.2.2.2; ((r.1, r.2.1) :: rs.1, rs.2.1, rs.2.2)
def diterNexts (l : Chain) : Nat → Iter → Mem → List (Stat × Option Nat) × Iter × Mem
  | 0, it, m => ([], it, m)
  | k + 1, it, m =>
    let r := diterNext l it m; let rs := diterNexts l k r.2.2.1 r.2.2.2; ((r.1, r.2.1) :: rs.1, rs.2.1, rs.2.2)
def zipNexts (l1 l2 : Chain) : Nat → ZipIter → Mem → List (Stat × Option (Nat × Nat)) × ZipIter × Mem
  | 0, z, m => ([], z, m)
  | k + 1, z, m =>
    let r := zipNext l1 l2 z m; let rs := zipNexts l1 l2 k r.2.2.1 r.2.2.2; ((r.1, r.2.1) :: rs.1, rs.2.1, rs.2.2)

theorem iterNexts_refines (xs : List Nat) : ∀ (k : Nat) (c : LSeq.Cursor) (it : Iter) (m : Mem), ItRel xs c it →
    (iterNexts (ofList t xs) k it m).1 = (LSeqT.nexts xs k c).1 ∧
    ItRel xs (LSeqT.nexts xs k c).2 (iterNexts (ofList t xs) k it m).2.1 ∧ (iterNexts (ofList t xs) k it m).2.2 = m
  | 0, c, it, m, h => ⟨rfl, h, rfl⟩
  | k + 1, c, it, m, h => by
    obtain ⟨it', e, h'⟩ := iterNext_ofList (t := t) xs c it m h
    have ih := iterNexts_refines (t := t) xs k _ it' m h'
    simp only [iterNexts, LSeqT.nexts, e]
    exact ⟨by rw [ih.1], ih.2.1, ih.2.2⟩

theorem diterNexts_refines (xs : List Nat) : ∀ (k : Nat) (c : LSeq.Cursor) (it : Iter) (m : Mem), DitRel xs c it →
    (diterNexts (ofList t xs) k it m).1 = (LSeqT.dnexts xs k c).1 ∧
    DitRel xs (LSeqT.dnexts xs k c).2 (diterNexts (ofList t xs) k it m).2.1 ∧ (diterNexts (ofList t xs) k it m).2.2 = m
  | 0, c, it, m, h => ⟨rfl, h, rfl⟩
  | k + 1, c, it, m, h => by
    obtain ⟨it', e, h'⟩ := diterNext_ofList (t := t) xs c it m h
    have ih := diterNexts_refines (t := t) xs k _ it' m h'
    simp only [diterNexts, LSeqT.dnexts, e]
    exact ⟨by rw [ih.1], ih.2.1, ih.2.2⟩

theorem zipNexts_refines (xs ys : List Nat) : ∀ (k : Nat) (c : LSeq.Cursor) (z : ZipIter) (m : Mem), ZipRel xs ys c z →
    (zipNexts (ofList t xs) (ofList t2 ys) k z m).1 = (LSeqT.znexts xs ys k c).1 ∧
    ZipRel xs ys (LSeqT.znexts xs ys k c).2 (zipNexts (ofList t xs) (ofList t2 ys) k z m).2.1 ∧
    (zipNexts (ofList t xs) (ofList t2 ys) k z m).2.2 = m
  | 0, c, z, m, h => ⟨rfl, h, rfl⟩
  | k + 1, c, z, m, h => by
    obtain ⟨z', e, h'⟩ := zipNext_ofList (t := t) (t2 := t2) xs ys c z m h
    have ih := zipNexts_refines (t := t) (t2 := t2) xs ys k _ z' m h'
    simp only [zipNexts, LSeqT.znexts, e]
    exact ⟨by rw [ih.1], ih.2.1, ih.2.2⟩
end DList

namespace SList
def iterNexts (l : Chain) : Nat → Iter → Mem → List (Stat × Option Nat) × Iter × Mem
  | 0, it, m => ([], it, m)
  | k + 1, it, m =>
    let r := iterNext l it m; let rs := iterNexts l k r.2.2.1 r.2.2.2; ((r.1, r.2.1) :: rs.1, rs.2.1, rs.2.2)
def zipNexts (l1 l2 : Chain) : Nat → ZipIter → Mem → List (Stat × Option (Nat × Nat)) × ZipIter × Mem
  | 0, z, m => ([], z, m)
  | k + 1, z, m =>
    let r := zipNext l1 l2 z m; let rs := zipNexts l1 l2 k r.2.2.1 r.2.2.2; ((r.1, r.2.1) :: rs.1, rs.2.1, rs.2.2)

theorem iterNexts_refines (xs : List Nat) : ∀ (k : Nat) (c : LSeq.Cursor) (it : Iter) (m : Mem), ItRel xs c it →
    (iterNexts (ofList t xs) k it m).1 = (LSeqT.nexts xs k c).1 ∧
    ItRel xs (LSeqT.nexts xs k c).2 (iterNexts (ofList t xs) k it m).2.1 ∧ (iterNexts (ofList t xs) k it m).2.2 = m
  | 0, c, it, m, h => ⟨rfl, h, rfl⟩
  | k + 1, c, it, m, h => by
    obtain ⟨it', e, h'⟩ := iterNext_ofList (t := t) xs c it m h
    have ih := iterNexts_refines (t := t) xs k _ it' m h'
    simp only [iterNexts, LSeqT.nexts, e]
    exact ⟨by rw [ih.1], ih.2.1, ih.2.2⟩

theorem zipNexts_refines (xs ys : List Nat) : ∀ (k : Nat) (c : LSeq.Cursor) (z : ZipIter) (m : Mem), ZipRel xs ys c z →
    (zipNexts (ofList t xs) (ofList t2 ys) k z m).1 = (LSeqT.znexts xs ys k c).1 ∧
    ZipRel xs ys (LSeqT.znexts xs ys k c).2 (zipNexts (ofList t xs) (ofList t2 ys) k z m).2.1 ∧
    (zipNexts (ofList t xs) (ofList t2 ys) k z m).2.2 = m
  | 0, c, z, m, h => ⟨rfl, h, rfl⟩
  | k + 1, c, z, m, h => by
    obtain ⟨z', e, h'⟩ := zipNext_ofList (t := t) (t2 := t2) xs ys c z m h
    have ih := zipNexts_refines (t := t) (t2 := t2) xs ys k _ z' m h'
    simp only [zipNexts, LSeqT.znexts, e]
    exact ⟨by rw [ih.1], ih.2.1, ih.2.2⟩
end SList
end CC
