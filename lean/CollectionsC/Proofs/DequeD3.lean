import CollectionsC.Proofs.DequeAddAt
/-! Finding D3, characterised: what `cc_deque_add_at` *does* in its front-half range
(`1 ≤ index ∧ index + 1 ≤ size / 2`).  The two blocks are wrong but deterministic:
* ring-wrapped block (`p < f || f == 0`): the element lands one position late — `insertIdx (index + 1)`;
* contiguous block: the element at `index` is overwritten and its predecessor duplicated —
  `(abs.set index x).insertIdx index abs[index - 1]`.
So histories that pass through D3 calls are still inside a theorem (`addAt_front_half_behaviour`), they just
do not refine the ideal `insertIdx index`. -/
namespace CC.Deque
open CC

/-- shape of the state after a front-half insertion: `first` retreats by one -/
theorem abs_front_shape (d e : Deque) (g : Nat → Nat) (hi : d.Inv)
    (hs : e.size = d.size + 1) (hc : e.cap = d.cap) (hf : e.first = decMask d.first d.cap)
    (h : ∀ j, j < d.size + 1 → e.buf.get ((decMask d.first d.cap + j) % d.cap) = g j) :
    e.abs = (List.range (d.size + 1)).map g := by
  apply List.ext_getElem
  · simp [hs]
  · intro j h1 h2
    have hj : j < d.size + 1 := by simpa [hs] using h1
    rw [abs_getElem, hf, hc, h j hj]
    simp

set_option maxHeartbeats 1000000 in -- many (layout × branch) leaves, each closed by omega
theorem adFrontWrap_d3 (d : Deque) (x index : Nat) (m : Mem) (hi : d.Inv) (hidx : index + 1 < d.size)
    (h1 : 1 ≤ index) (hroom : d.size < d.cap)
    (hp : (d.first + index) % d.cap < d.first % d.cap ∨ d.first % d.cap = 0) :
    ∀ j, j < d.size + 1 →
      ((d.adFrontWrap index m).1.put ((d.first + index) % d.cap) x).get ((decMask d.first d.cap + j) % d.cap) =
        if j ≤ index then d.buf.get ((d.first + j) % d.cap) else
        if j = index + 1 then x else d.buf.get ((d.first + (j - 1)) % d.cap) := by
  obtain ⟨hpw, hmax, hl, hf, hla, hsz⟩ := hi
  rw [Nat.mod_eq_of_lt hf] at hp
  have hdm := decMask_of_lt hf
  have c5 := mod_cases (x := d.first + index) (c := d.cap) (by omega)
  unfold adFrontWrap
  simp only [Nat.mod_eq_of_lt hf]
  split <;> split <;> simp only [wr_fst, mv_fst, rd_fst]
  all_goals
    (intro j hj
     have c2 := mod_cases (x := decMask d.first d.cap + j) (c := d.cap) (by split at hdm <;> omega)
     have c3 := mod_cases (x := d.first + j) (c := d.cap) (by omega)
     have c4 := mod_cases (x := d.first + (j - 1)) (c := d.cap) (by omega)
     rcases c2 with c2 | c2 <;> rcases c3 with c3 | c3 <;>
       rcases c4 with c4 | c4 <;> rcases c5 with c5 | c5 <;> split at hdm <;> first | omega | slots)

set_option maxHeartbeats 1000000 in -- many (layout × branch) leaves, each closed by omega
theorem adFrontContig_d3 (d : Deque) (x index : Nat) (m : Mem) (hi : d.Inv) (hidx : index + 1 < d.size)
    (h1 : 1 ≤ index) (hroom : d.size < d.cap)
    (hp : ¬ ((d.first + index) % d.cap < d.first % d.cap ∨ d.first % d.cap = 0)) :
    ∀ j, j < d.size + 1 →
      ((d.adFrontContig index m).1.put ((d.first + index) % d.cap) x).get ((decMask d.first d.cap + j) % d.cap) =
        if j < index then d.buf.get ((d.first + j) % d.cap) else
        if j = index then d.buf.get ((d.first + (index - 1)) % d.cap) else
        if j = index + 1 then x else d.buf.get ((d.first + (j - 1)) % d.cap) := by
  obtain ⟨hpw, hmax, hl, hf, hla, hsz⟩ := hi
  rw [Nat.mod_eq_of_lt hf] at hp
  have hdm := decMask_of_lt hf
  have c5 := mod_cases (x := d.first + index) (c := d.cap) (by omega)
  have c6 := mod_cases (x := d.first + (index - 1)) (c := d.cap) (by omega)
  unfold adFrontContig
  simp only [Nat.mod_eq_of_lt hf, mv_fst]
  intro j hj
  have c2 := mod_cases (x := decMask d.first d.cap + j) (c := d.cap) (by split at hdm <;> omega)
  have c3 := mod_cases (x := d.first + j) (c := d.cap) (by omega)
  have c4 := mod_cases (x := d.first + (j - 1)) (c := d.cap) (by omega)
  rcases c2 with c2 | c2 <;> rcases c3 with c3 | c3 <;> rcases c4 with c4 | c4 <;>
    rcases c5 with c5 | c5 <;> rcases c6 with c6 | c6 <;> split at hdm <;> first | omega | slots

end CC.Deque
