import CollectionsC.Model.Deque
import CollectionsC.Proofs.DequeGrowth
/-! Closed forms for the bulk operations of the `scale` histories (`fill n=`, `it_sweep n=`): a run of
`add_last` / `add_first` calls that fits into the free slots, and a run of `iter_next` calls.  The drivers
evaluate the array-backed versions (`…Fast`, linear in the buffer length); the theorems below show that
these are exactly what the element-by-element model functions compute, so nothing is assumed. -/
namespace CC.Deque

/-! ### a run of `add_last` / `add_first` without growth -/

/-- list-level closed form of `add_last x₁ … add_last xₙ` while there is room -/
def fillLast (d : Deque) : List Nat → Deque
  | [] => d
  | x :: xs => fillLast { d with buf := d.buf.put d.last x, last := (d.last + 1) % d.cap, size := d.size + 1 } xs

/-- list-level closed form of `add_first x₁ … add_first xₙ` while there is room -/
def fillFirst (d : Deque) : List Nat → Deque
  | [] => d
  | x :: xs => fillFirst { d with first := decMask d.first d.cap, buf := d.buf.put (decMask d.first d.cap) x,
                                  size := d.size + 1 } xs

theorem pushAll_last_room (d : Deque) (m : Mem) (xs : List Nat) (hb : d.buf.length = d.cap) (hl : d.last < d.cap)
    (hr : d.size + xs.length ≤ d.cap) : pushAll d m (xs.map fun x => (false, x)) = (fillLast d xs, m) := by
  induction xs generalizing d with
  | nil => rfl
  | cons x xs ih =>
    have hne : ¬ d.cap = d.size := by simp only [List.length_cons] at hr; omega
    have hstep : pushEnd d (false, x) m =
        (.ok, { d with buf := d.buf.put d.last x, last := (d.last + 1) % d.cap, size := d.size + 1 }, m) := by
      simp [pushEnd, addLast, hne, addLastCore, wr, hb, hl]
    simp only [List.map_cons, pushAll, hstep, fillLast]
    apply ih
    · simp [hb]
    · exact Nat.mod_lt _ (by omega)
    · simp only [List.length_cons] at hr; simp only; omega

theorem pushAll_first_room (d : Deque) (m : Mem) (xs : List Nat) (hb : d.buf.length = d.cap) (hc : 0 < d.cap)
    (hr : d.size + xs.length ≤ d.cap) : pushAll d m (xs.map fun x => (true, x)) = (fillFirst d xs, m) := by
  induction xs generalizing d with
  | nil => rfl
  | cons x xs ih =>
    have hne : ¬ d.size ≥ d.cap := by simp only [List.length_cons] at hr; omega
    have hdm : decMask d.first d.cap < d.cap := by
      unfold decMask; split
      · omega
      · exact Nat.mod_lt _ hc
    have hstep : pushEnd d (true, x) m =
        (.ok, { d with first := decMask d.first d.cap, buf := d.buf.put (decMask d.first d.cap) x,
                       size := d.size + 1 }, m) := by
      simp [pushEnd, addFirst, hne, addFirstCore, wr, hb, hdm]
    simp only [List.map_cons, pushAll, hstep, fillFirst]
    apply ih
    · simp [hb]
    · exact hc
    · simp only [List.length_cons] at hr; simp only; omega

/-- the buffer writes of `fillLast` on an array -/
def fillLastArr (buf : Array Nat) (last cap : Nat) : List Nat → Array Nat × Nat
  | [] => (buf, last)
  | x :: xs => fillLastArr (buf.setIfInBounds last x) ((last + 1) % cap) cap xs

def fillLastFast (d : Deque) (xs : List Nat) : Deque :=
  let r := fillLastArr d.buf.toArray d.last d.cap xs
  { d with buf := r.1.toList, last := r.2, size := d.size + xs.length }

theorem fillLastFast_eq (d : Deque) (xs : List Nat) : fillLastFast d xs = fillLast d xs := by
  unfold fillLastFast
  induction xs generalizing d with
  | nil => simp [fillLastArr, fillLast]
  | cons x xs ih =>
    simp only [fillLastArr, fillLast]
    rw [← ih]
    simp [Buf.put, Nat.add_assoc, Nat.add_comm 1]

def fillFirstArr (buf : Array Nat) (first cap : Nat) : List Nat → Array Nat × Nat
  | [] => (buf, first)
  | x :: xs => fillFirstArr (buf.setIfInBounds (decMask first cap) x) (decMask first cap) cap xs

def fillFirstFast (d : Deque) (xs : List Nat) : Deque :=
  let r := fillFirstArr d.buf.toArray d.first d.cap xs
  { d with first := r.2, buf := r.1.toList, size := d.size + xs.length }

theorem fillFirstFast_eq (d : Deque) (xs : List Nat) : fillFirstFast d xs = fillFirst d xs := by
  unfold fillFirstFast
  induction xs generalizing d with
  | nil => simp [fillFirstArr, fillFirst]
  | cons x xs ih =>
    simp only [fillFirstArr, fillFirst]
    rw [← ih]
    simp [Buf.put, Nat.add_assoc, Nat.add_comm 1]

/-! ### a run of `iter_next` calls -/

/-- `k` calls of `cc_deque_iter_next`, stopping at the first one that does not yield: the values yielded,
the status of the last call made, the cursor and the ledger afterwards -/
def iterSweep (d : Deque) : Nat → Iter → Mem → List Nat → List Nat × Stat × Iter × Mem
  | 0, it, m, acc => (acc.reverse, .ok, it, m)
  | k + 1, it, m, acc =>
    let r := iterNext it d m
    match r.2.1 with
    | some v => iterSweep d k r.2.2.1 r.2.2.2 (v :: acc)
    | none => (acc.reverse, r.1, it, m)

/-- closed form of `iterSweep` -/
def iterSweepClosed (d : Deque) (k : Nat) (it : Iter) (m : Mem) : List Nat × Stat × Iter × Mem :=
  let cnt := min k (d.size - it.index)
  ((List.range' it.index cnt).map fun j => d.buf.get ((d.first + j) % d.cap),
   if k ≤ d.size - it.index then .ok else .iterEnd,
   if cnt = 0 then it else { index := it.index + cnt, lastRemoved := false },
   m)

theorem iterSweep_closed (d : Deque) (hb : d.buf.length = d.cap) (hc : 0 < d.cap) (k : Nat) (it : Iter) (m : Mem)
    (acc : List Nat) :
    iterSweep d k it m acc =
      (acc.reverse ++ (iterSweepClosed d k it m).1, (iterSweepClosed d k it m).2.1,
       (iterSweepClosed d k it m).2.2.1, m) := by
  induction k generalizing it m acc with
  | zero => simp [iterSweep, iterSweepClosed]
  | succ k ih =>
    unfold iterSweep
    by_cases hend : it.index ≥ d.size
    · have h0 : d.size - it.index = 0 := by omega
      simp [iterNext, hend, iterSweepClosed, h0]
    · have hlt : (d.first + it.index) % d.cap < d.buf.length := by rw [hb]; exact Nat.mod_lt _ hc
      have hn : iterNext it d m =
          (.ok, some (d.buf.get ((d.first + it.index) % d.cap)), { index := it.index + 1, lastRemoved := false }, m) := by
        simp [iterNext, hend, rd, hlt]
      simp only [hn]
      rw [ih]
      have hpos : d.size - it.index = (d.size - (it.index + 1)) + 1 := by omega
      have hmin : min (k + 1) (d.size - it.index) = min k (d.size - (it.index + 1)) + 1 := by omega
      simp only [iterSweepClosed, hmin, List.range'_succ, List.map_cons, List.reverse_cons, List.append_assoc,
        List.singleton_append]
      refine Prod.ext rfl (Prod.ext ?_ (Prod.ext ?_ rfl))
      · simp only; split <;> split <;> first | rfl | omega
      · simp only
        split
        · simp; omega
        · simp; omega

/-- array-backed evaluation of `iterSweepClosed` -/
def iterSweepFast (d : Deque) (k : Nat) (it : Iter) (m : Mem) : List Nat × Stat × Iter × Mem :=
  let a := d.buf.toArray
  let cnt := min k (d.size - it.index)
  ((List.range' it.index cnt).map fun j => a.getD ((d.first + j) % d.cap) 0,
   if k ≤ d.size - it.index then .ok else .iterEnd,
   if cnt = 0 then it else { index := it.index + cnt, lastRemoved := false },
   m)

theorem iterSweepFast_eq (d : Deque) (k : Nat) (it : Iter) (m : Mem) :
    iterSweepFast d k it m = iterSweepClosed d k it m := by
  simp [iterSweepFast, iterSweepClosed, Buf.get]

/-! ### the bulk operations of the protocol -/

/-- the values of `fill n=<n> seed=<sd>` (the shims compute the same numbers) -/
def fillVals (n sd : Nat) : List Nat := (List.range n).map fun i => (i * 7919 + sd * 104729) % 1000003

/-- `fill`: `add_last` (`front = false`) or `add_first` (`front = true`) of every value in turn, stopping at the first
call that fails; returns the status of the last call, the deque, the ledger and the number of values NOT added.
Runs of calls that fit into the free slots are evaluated by `fillLastFast` / `fillFirstFast`
(= `pushAll`, by `pushAll_last_room` / `pushAll_first_room` and `fill…Fast_eq`); a call on a full deque is the
model's `addLast` / `addFirst` itself (growth, possibly refused). -/
def fillRun (front : Bool) : Nat → Deque → Mem → List Nat → Stat × Deque × Mem × Nat
  | 0, d, m, vals => (.ok, d, m, vals.length)
  | fuel + 1, d, m, vals =>
    match vals with
    | [] => (.ok, d, m, 0)
    | v :: rest =>
      let room := d.cap - d.size
      if room > 0 ∧ d.buf.length = d.cap ∧ (if front then 0 < d.cap else d.last < d.cap) then
        let now := vals.take room
        fillRun front fuel (if front then fillFirstFast d now else fillLastFast d now) m (vals.drop room)
      else
        let r := if front then d.addFirst v m else d.addLast v m
        if r.1 != .ok then (r.1, r.2.1, r.2.2, vals.length) else fillRun front fuel r.2.1 r.2.2 rest

/-- `it_sweep n=<k>`: `k` × `iter_next` (`iterSweep`), evaluated through the closed form where it is proved -/
def iterSweepRun (d : Deque) (k : Nat) (it : Iter) (m : Mem) : List Nat × Stat × Iter × Mem :=
  if d.buf.length = d.cap ∧ 0 < d.cap then iterSweepFast d k it m else iterSweep d k it m []

theorem iterSweepRun_eq (d : Deque) (k : Nat) (it : Iter) (m : Mem) : iterSweepRun d k it m = iterSweep d k it m [] := by
  unfold iterSweepRun
  split
  · rename_i h
    rw [iterSweepFast_eq, iterSweep_closed d h.1 h.2]; simp [iterSweepClosed]
  · rfl

/-- checksum of a value sequence as the shims print it (`sum=`): FNV-1a style, one step per value, modulo 2^64 -/
def valSum (xs : List Nat) : Nat :=
  (xs.foldl (fun (h : UInt64) v => (h ^^^ v.toUInt64) * 0x100000001b3) (0xcbf29ce484222325 : UInt64)).toNat

end CC.Deque
