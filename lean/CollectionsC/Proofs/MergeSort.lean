import CollectionsC.Proofs.DListIter
/-! The merge sort of `cc_list_sort_in_place` (`DList.msort`: left run = the first `length / 2`
nodes, `merge` takes the left node while `cmp left right ≤ 0`): for every comparator that is a total
preorder the result is a permutation of the input, ordered, and **stable**; lists of length ≤ 1 are
returned unchanged.  Only `List.merge`'s elementary lemmas from core are used. -/
namespace CC.Spec.LSeq

/-- the comparator contract for sorting: `a ≼ b :⇔ cmp a b ≤ 0` is total and transitive -/
structure CmpPreorder (cmp : Nat → Nat → Int) : Prop where
  total : ∀ a b, cmp a b ≤ 0 ∨ cmp b a ≤ 0
  trans : ∀ a b c, cmp a b ≤ 0 → cmp b c ≤ 0 → cmp a c ≤ 0

/-- the Boolean relation `merge` consults -/
def leOf (cmp : Nat → Nat → Int) (a b : Nat) : Bool := decide (cmp a b ≤ 0)

theorem CmpPreorder.le_total {cmp} (h : CmpPreorder cmp) (a b : Nat) : (leOf cmp a b || leOf cmp b a) = true := by
  rcases h.total a b with t | t <;> simp [leOf, t]
theorem CmpPreorder.le_trans {cmp} (h : CmpPreorder cmp) (a b c : Nat) :
    leOf cmp a b = true → leOf cmp b c = true → leOf cmp a c = true := by
  simp only [leOf, decide_eq_true_eq]; exact h.trans a b c
theorem CmpPreorder.le_refl {cmp} (h : CmpPreorder cmp) (a : Nat) : leOf cmp a a = true := by
  rcases h.total a a with t | t <;> simp [leOf, t]

theorem cmpNum_preorder : CmpPreorder cmpNum :=
  ⟨by intro a b; unfold cmpNum; by_cases h1 : a < b <;> by_cases h2 : b < a <;> simp [h1, h2] <;> omega,
   by
     intro a b c; unfold cmpNum
     by_cases h1 : a < b <;> by_cases h2 : b < a <;> by_cases h3 : b < c <;> by_cases h4 : c < b <;>
       by_cases h5 : a < c <;> by_cases h6 : c < a <;> simp [h1, h2, h3, h4, h5, h6] <;> omega⟩

theorem cmpKey_preorder : CmpPreorder cmpKey :=
  ⟨fun _ _ => cmpNum_preorder.total _ _, fun _ _ _ => cmpNum_preorder.trans _ _ _⟩

end CC.Spec.LSeq

namespace CC.DList
open CC.Spec.LSeq
open List

/-- a sorted-across pair of sublists survives the merge in order -/
theorem sublist_merge {le : Nat → Nat → Bool}
    (trans : ∀ a b c, le a b = true → le b c = true → le a c = true) (refl : ∀ a, le a a = true) :
    ∀ (l r c1 c2 : List Nat), c1 <+ l → c2 <+ r → l.Pairwise (fun a b => le a b = true) →
      (∀ a, a ∈ c1 → ∀ b, b ∈ c2 → le a b = true) → c1 ++ c2 <+ merge l r le
  | [], r, c1, c2, h1, h2, _, _ => by
    have : c1 = [] := by simpa using h1
    subst this; simpa using h2
  | x :: l, [], c1, c2, h1, h2, _, _ => by
    have : c2 = [] := by simpa using h2
    subst this; simpa using h1
  | x :: l, y :: r, c1, c2, h1, h2, hs, hc => by
    rw [List.cons_merge_cons]
    by_cases hxy : le x y = true
    · rw [if_pos hxy]
      cases h1 with
      | cons _ h1' =>
        exact Sublist.cons _ (sublist_merge trans refl l (y :: r) c1 c2 h1' h2 (List.Pairwise.of_cons hs) hc)
      | cons_cons _ h1' =>
        rename_i c1'
        rw [List.cons_append]
        exact Sublist.cons_cons _ (sublist_merge trans refl l (y :: r) c1' c2 h1' h2 (List.Pairwise.of_cons hs)
          (fun a ha b hb => hc a (List.mem_cons_of_mem _ ha) b hb))
    · rw [if_neg hxy]
      cases h2 with
      | cons _ h2' =>
        exact Sublist.cons _ (sublist_merge trans refl (x :: l) r c1 c2 h1 h2' hs hc)
      | cons_cons _ h2' =>
        rename_i c2'
        -- no element of `c1` can be pending: it would force `le x y`
        have hnil : c1 = [] := by
          cases c1 with
          | nil => rfl
          | cons a c1t =>
            exfalso
            have hay := hc a (List.mem_cons_self) y (List.mem_cons_self)
            have ham : a ∈ x :: l := h1.subset (List.mem_cons_self)
            have hxa : le x a = true := by
              rcases List.mem_cons.1 ham with e | hm
              · subst e; exact refl _
              · exact List.rel_of_pairwise_cons hs hm
            exact hxy (trans _ _ _ hxa hay)
        subst hnil
        simp only [List.nil_append]
        exact Sublist.cons_cons _ (by
          have := sublist_merge trans refl (x :: l) r [] c2' (List.nil_sublist _) h2' hs (by intro a ha; cases ha)
          simpa using this)
termination_by l r => l.length + r.length

variable {cmp : Nat → Nat → Int}

theorem msort_short (fuel : Nat) (xs : List Nat) (h : xs.length < 2) : msort cmp fuel xs = xs := by
  cases fuel <;> simp [msort, h]

theorem msort_perm : ∀ (fuel : Nat) (xs : List Nat), (msort cmp fuel xs).Perm xs
  | 0, xs => by simp [msort]
  | fuel + 1, xs => by
    simp only [msort]
    split
    · exact Perm.refl _
    · refine (List.merge_perm_append _).trans ?_
      refine ((msort_perm fuel _).append (msort_perm fuel _)).trans ?_
      rw [List.take_append_drop]

theorem msort_length (fuel : Nat) (xs : List Nat) : (msort cmp fuel xs).length = xs.length :=
  (msort_perm fuel xs).length_eq

theorem msort_sorted (hc : CmpPreorder cmp) : ∀ (fuel : Nat) (xs : List Nat), xs.length ≤ fuel →
    (msort cmp fuel xs).Pairwise (fun a b => leOf cmp a b = true)
  | 0, xs, h => by
    have : xs = [] := by simpa using h
    subst this; simp [msort]
  | fuel + 1, xs, h => by
    simp only [msort]
    split
    · rename_i h2
      match xs, h2 with
      | [], _ => exact List.Pairwise.nil
      | [a], _ => exact List.pairwise_singleton _ _
    · rename_i h2
      have h3 : 2 ≤ xs.length := by omega
      exact List.pairwise_merge (le := leOf cmp) hc.le_trans hc.le_total _ _
        (msort_sorted hc fuel _ (by rw [List.length_take]; omega))
        (msort_sorted hc fuel _ (by rw [List.length_drop]; omega))

/-- **stability**: every sublist of the input that is already ordered appears, in the same order,
in the output -/
theorem msort_stable (hc : CmpPreorder cmp) : ∀ (fuel : Nat) (xs c : List Nat), xs.length ≤ fuel →
    c <+ xs → c.Pairwise (fun a b => leOf cmp a b = true) → c <+ msort cmp fuel xs
  | 0, xs, c, h, hs, _ => by simpa [msort] using hs
  | fuel + 1, xs, c, h, hs, hp => by
    simp only [msort]
    split
    · exact hs
    · rename_i h2
      have h3 : 2 ≤ xs.length := by omega
      rw [← List.take_append_drop (xs.length / 2) xs] at hs
      obtain ⟨c1, c2, rfl, hs1, hs2⟩ := List.sublist_append_iff.1 hs
      have hp' := List.pairwise_append.1 hp
      exact sublist_merge hc.le_trans hc.le_refl _ _ c1 c2
        (msort_stable hc fuel _ c1 (by rw [List.length_take]; omega) hs1 hp'.1)
        (msort_stable hc fuel _ c2 (by rw [List.length_drop]; omega) hs2 hp'.2.1)
        (msort_sorted hc fuel _ (by rw [List.length_take]; omega))
        hp'.2.2


open CC Chain in
/-- `cc_list_sort_in_place` on a canonical state: no allocation, bookkeeping right afterwards -/
theorem sortInPlace_ofList (xs : List Nat) :
    sortInPlace cmp (ofList t xs) = ofList t (msort cmp xs.length xs) := by
  unfold sortInPlace
  by_cases h : xs.length < 2
  · simp only [ofList_size, h, if_true]; rw [msort_short _ _ h]
  · have h0 : xs.length ≠ 0 := by omega
    simp only [ofList_size, h, if_false, ofList_nodes, List.take_length, List.drop_length, List.append_nil]
    simp [ofList, msort_length, h0]

end CC.DList
