import CollectionsC.Proofs.HashSetLedger
import CollectionsC.Proofs.HashTableHistory
/-! The hash set at history level: a set history is the table history of the forwarded calls, and any
iterator program on the set refines an ideal cursor over the set. -/
set_option maxHeartbeats 1600000
namespace CC.HashSet
open CC CC.HT CC.Spec

/-- the table call a set call forwards to -/
def toT : Set.Op → Map.Op
  | .add e => .add e dummy
  | .contains e => .containsKey e
  | .remove e => .remove e
  | .removeAll => .removeAll

theorem step_table (c : HCfg) (s : HashSet) (op : Set.Op) (m : Mem) :
    (s.step c op m).2.1.table = (s.table.step c (toT op) m).2.1 ∧
    (s.step c op m).2.2 = (s.table.step c (toT op) m).2.2 ∧
    failedOf op (s.step c op m).1 = HashTable.failedOf (toT op) (s.table.step c (toT op) m).1 ∧
    (s.step c op m).2.1.triple = s.triple := by
  cases op with
  | add e =>
    refine ⟨rfl, rfl, ?_, rfl⟩
    simp only [step, add, HashTable.step, toT, failedOf, HashTable.failedOf]
    cases (s.table.add c e dummy m).1 <;> rfl
  | contains e => exact ⟨rfl, rfl, rfl, rfl⟩
  | remove e => exact ⟨rfl, rfl, rfl, rfl⟩
  | removeAll => simp only [step, toT, HashTable.step]; rw [removeAll_eq]; exact ⟨rfl, rfl, rfl, rfl⟩

/-- a set history is the table history of the forwarded calls: same failures, same table, same ledger -/
theorem run_table (c : HCfg) (ops : List Set.Op) (s : HashSet) (m : Mem) :
    (s.run c ops m).2.1 = (s.table.run c (ops.map toT) m).2.1 ∧
    (s.run c ops m).2.2.1.table = (s.table.run c (ops.map toT) m).2.2.1 ∧
    (s.run c ops m).2.2.2 = (s.table.run c (ops.map toT) m).2.2.2 ∧
    (s.run c ops m).2.2.1.triple = s.triple := by
  induction ops generalizing s m with
  | nil => exact ⟨rfl, rfl, rfl, rfl⟩
  | cons op ops ih =>
    obtain ⟨s1, s2, s3, s4⟩ := step_table c s op m
    obtain ⟨i1, i2, i3, i4⟩ := ih (s.step c op m).2.1 (s.step c op m).2.2
    simp only [run, HashTable.run, List.map_cons]
    rw [← s1, ← s2]
    exact ⟨by rw [s3, i1], i2, i3, by rw [i4, s4]⟩

/-! ### iterator programs on the set -/

/-- what a set iterator call returns: status and yielded element (the out-value of `iter_remove`, the
table's dummy, is dropped as in `HashSet.step`) -/
abbrev SIterOut := Stat × Option Key

def iterStep (c : HCfg) (s : HashSet) (it : HIter) (op : HashTable.IterOp) (m : Mem) : SIterOut × HashSet × HIter × Mem :=
  match op with
  | .next => (((s.iterNext it m).1, (s.iterNext it m).2.1), s, (s.iterNext it m).2.2.1, (s.iterNext it m).2.2.2)
  | .remove => (((s.iterRemove c it m).1, none), (s.iterRemove c it m).2.2.1, (s.iterRemove c it m).2.2.2.1,
      (s.iterRemove c it m).2.2.2.2)

/-- any sequence of `cc_hashset_iter_next` / `cc_hashset_iter_remove` calls -/
def iterRun (c : HCfg) : List HashTable.IterOp → HashSet → HIter → Mem → List SIterOut × HashSet × HIter × Mem
  | [], s, it, m => ([], s, it, m)
  | op :: ops, s, it, m =>
    let r := iterStep c s it op m
    let rs := iterRun c ops r.2.1 r.2.2.1 r.2.2.2
    (r.1 :: rs.1, rs.2)

/-- the ideal cursor over a set: elements still to yield, element last yielded and not yet removed -/
structure SCursor where
  todo : List Key
  last : Option Key

def SCursor.step (cur : SCursor) (st : Set) : HashTable.IterOp → SIterOut × SCursor × Set
  | .next =>
    match cur.todo with
    | [] => ((.iterEnd, none), cur, st)
    | k :: rest => ((.ok, some k), { todo := rest, last := some k }, st)
  | .remove =>
    match cur.last with
    | none => ((.errKeyNotFound, none), cur, st)
    | some k => ((.ok, none), { cur with last := none }, Set.erase st k)

def SCursor.run (cur : SCursor) (st : Set) : List HashTable.IterOp → List SIterOut × SCursor × Set
  | [] => ([], cur, st)
  | op :: ops =>
    let r := cur.step st op
    let rs := SCursor.run r.2.1 r.2.2 ops
    (r.1 :: rs.1, rs.2)

/-- projection of a table iterator output / cursor to the set level -/
def proj (o : HashTable.IterOut) : SIterOut := (o.1, o.2.1.map (·.key))
def projCur (cur : HashTable.Cursor) : SCursor := ⟨cur.todo.map (·.key), cur.last.map (·.key)⟩

theorem iterRun_table (c : HCfg) (prog : List HashTable.IterOp) (s : HashSet) (it : HIter) (m : Mem) :
    (iterRun c prog s it m).1 = (HashTable.iterRun c prog s.table it m).1.map proj ∧
    (iterRun c prog s it m).2.1 = { s with table := (HashTable.iterRun c prog s.table it m).2.1 } ∧
    (iterRun c prog s it m).2.2 = (HashTable.iterRun c prog s.table it m).2.2 := by
  induction prog generalizing s it m with
  | nil => exact ⟨rfl, rfl, rfl⟩
  | cons op prog ih =>
    cases op with
    | next =>
      obtain ⟨i1, i2, i3⟩ := ih s (s.table.iterNext it m).2.2.1 (s.table.iterNext it m).2.2.2
      simp only [iterRun, HashTable.iterRun, iterStep, HashTable.iterStep, iterNext, List.map_cons]
      exact ⟨by rw [i1]; rfl, i2, i3⟩
    | remove =>
      obtain ⟨i1, i2, i3⟩ := ih { s with table := (s.table.iterRemove c it m).2.2.1 } (s.table.iterRemove c it m).2.2.2.1
        (s.table.iterRemove c it m).2.2.2.2
      simp only [iterRun, HashTable.iterRun, iterStep, HashTable.iterStep, iterRemove, List.map_cons]
      exact ⟨by rw [i1]; rfl, i2, i3⟩

/-- the table cursor projects onto the set cursor -/
theorem cursor_proj (cur : HashTable.Cursor) (mp : Map) (prog : List HashTable.IterOp) :
    (cur.run mp prog).1.map proj = ((projCur cur).run (Map.keys mp) prog).1 ∧
    projCur (cur.run mp prog).2.1 = ((projCur cur).run (Map.keys mp) prog).2.1 ∧
    Map.keys (cur.run mp prog).2.2 = ((projCur cur).run (Map.keys mp) prog).2.2 := by
  induction prog generalizing cur mp with
  | nil => exact ⟨rfl, rfl, rfl⟩
  | cons op prog ih =>
    obtain ⟨todo, last⟩ := cur
    cases op with
    | next =>
      cases todo with
      | nil =>
        obtain ⟨i1, i2, i3⟩ := ih ⟨[], last⟩ mp
        simp only [HashTable.Cursor.run, HashTable.Cursor.step, SCursor.run, SCursor.step, projCur, List.map_nil, List.map_cons]
        exact ⟨by rw [i1]; rfl, i2, i3⟩
      | cons e rest =>
        obtain ⟨i1, i2, i3⟩ := ih ⟨rest, some e⟩ mp
        simp only [HashTable.Cursor.run, HashTable.Cursor.step, SCursor.run, SCursor.step, projCur, List.map_cons, Option.map_some]
        exact ⟨by rw [i1]; rfl, i2, i3⟩
    | remove =>
      cases last with
      | none =>
        obtain ⟨i1, i2, i3⟩ := ih ⟨todo, none⟩ mp
        simp only [HashTable.Cursor.run, HashTable.Cursor.step, SCursor.run, SCursor.step, projCur, Option.map_none, List.map_cons]
        exact ⟨by rw [i1]; rfl, i2, i3⟩
      | some e =>
        obtain ⟨i1, i2, i3⟩ := ih ⟨todo, none⟩ (Map.erase mp e.key)
        simp only [HashTable.Cursor.run, HashTable.Cursor.step, SCursor.run, SCursor.step, projCur, Option.map_some, List.map_cons]
        rw [keys_erase] at i1 i2 i3
        exact ⟨by rw [i1]; rfl, i2, i3⟩

/-- **any iterator program on the set refines the ideal set cursor** -/
theorem iterRun_refines (c : HCfg) (prog : List HashTable.IterOp) (s : HashSet) (m : Mem) (h : s.Inv c)
    (hl : s.size + 3 ≤ liveOf m s.triple) :
    (iterRun c prog s (s.iterInit m).1 m).1 = ((SCursor.mk s.abs none).run s.abs prog).1 ∧
    (iterRun c prog s (s.iterInit m).1 m).2.1.abs = ((SCursor.mk s.abs none).run s.abs prog).2.2 ∧
    (iterRun c prog s (s.iterInit m).1 m).2.1.Inv c ∧
    (iterRun c prog s (s.iterInit m).1 m).2.2.2.fault = m.fault ∧
    liveOf (iterRun c prog s (s.iterInit m).1 m).2.2.2 s.triple + s.size =
      liveOf m s.triple + (iterRun c prog s (s.iterInit m).1 m).2.1.size ∧
    (iterRun c prog s (s.iterInit m).1 m).2.1.triple = s.triple := by
  obtain ⟨hi, hv, htr⟩ := h
  have hl' : s.table.size + 2 ≤ liveOf m s.table.triple := by rw [htr]; unfold size at hl; omega
  obtain ⟨b1, b2, b3, _, b5, b6, b7⟩ := HashTable.iterRun_refines c prog s.table (s.table.iterInit m).1 m _ hi
    (HashTable.iterInit_curRel c s.table m hi) hl'
  obtain ⟨t1, t2, t3⟩ := iterRun_table c prog s (s.table.iterInit m).1 m
  obtain ⟨p1, _, p3⟩ := cursor_proj ⟨s.table.buckets.flatten, none⟩ s.table.abs prog
  have hpc : projCur ⟨s.table.buckets.flatten, none⟩ = SCursor.mk s.abs none := by
    unfold projCur abs Map.keys HashTable.abs; simp only [Option.map_none, List.map_map]; rfl
  rw [hpc] at p1 p3
  have habs : Map.keys s.table.abs = s.abs := rfl
  rw [habs] at p1 p3
  unfold iterInit
  rw [htr] at b6
  refine ⟨by rw [t1, b1, p1], ?_, ⟨?_, ?_, ?_⟩, by rw [t3]; exact b5, ?_, by rw [t2]⟩
  · rw [t2]; unfold abs; simp only; rw [b2]; exact p3
  · rw [t2]; exact b3
  · rw [t2]; simp only
    apply values_of_abs
    intro q hq
    rw [b2] at hq
    -- the cursor's map is a sub-multiset of the original map: removals only
    have hsub : ∀ (cur : HashTable.Cursor) (mp : Map) (pr : List HashTable.IterOp) (q : Key × Nat),
        q ∈ (cur.run mp pr).2.2 → q ∈ mp := by
      intro cur mp pr
      induction pr generalizing cur mp with
      | nil => intro q hq; exact hq
      | cons op pr ih =>
        intro q hq
        obtain ⟨todo, last⟩ := cur
        cases op with
        | next =>
          cases todo with
          | nil => exact ih _ _ q hq
          | cons e rest => exact ih _ _ q hq
        | remove =>
          cases last with
          | none => exact ih _ _ q hq
          | some e =>
            have := ih ⟨todo, none⟩ (Map.erase mp e.key) q hq
            exact (List.mem_filter.mp this).1
    exact abs_of_values s.table hv q (hsub _ _ _ q hq)
  · rw [t2]; simp only; rw [b7]; exact htr
  · rw [t2, t3]; unfold size; simp only; unfold size at hl; omega

end CC.HashSet
