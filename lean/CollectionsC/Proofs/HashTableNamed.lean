import CollectionsC.Proofs.HashTable
import CollectionsC.Proofs.HashTableIter
import CollectionsC.Proofs.HashTableDerived
import CollectionsC.Proofs.HashTableLedger
/-! The per-operation theorems of the hash table under the conventional names
(`op_inv`, `op_refines`, `op_nofault`, `op_inert`, `op_atomic`, `op_ledger`); each is a projection of
the bundled `*_spec` theorems of `Proofs/HashTable.lean`.  Ledger statements speak of `liveOf · t.triple`,
the blocks owned through the table's own allocator triple. -/
namespace CC.HashTable
open CC CC.HT CC.Spec

theorem add_inv (c : HCfg) (t : HashTable) (k : Key) (v : Nat) (m : Mem) (h : t.Inv c) :
    (t.add c k v m).2.1.Inv c := (add_spec c t k v m h).1

theorem add_refines (c : HCfg) (t : HashTable) (k : Key) (v : Nat) (m : Mem) (h : t.Inv c)
    (hok : (t.add c k v m).1 = .ok) : (t.add c k v m).2.1.abs.Perm (Map.insert t.abs k v) :=
  ((add_spec c t k v m h).2.1 hok).1

theorem add_nofault (c : HCfg) (t : HashTable) (k : Key) (v : Nat) (m : Mem) (h : t.Inv c) :
    (t.add c k v m).2.2.fault = m.fault := (add_spec c t k v m h).2.2.2.1

theorem add_atomic (c : HCfg) (t : HashTable) (k : Key) (v : Nat) (m : Mem) (h : t.Inv c)
    (hne : (t.add c k v m).1 ≠ .ok) :
    ((t.add c k v m).1 = .errAlloc ∨ (t.add c k v m).1 = .errMaxCapacity) ∧
    (t.add c k v m).2.1.abs.Perm t.abs ∧ (t.add c k v m).2.1.size = t.size ∧
    liveOf (t.add c k v m).2.2 t.triple = liveOf m t.triple :=
  (add_spec c t k v m h).2.2.1 hne

theorem add_ledger (c : HCfg) (t : HashTable) (k : Key) (v : Nat) (m : Mem) (h : t.Inv c) :
    liveOf (t.add c k v m).2.2 t.triple + t.size = liveOf m t.triple + (t.add c k v m).2.1.size := by
  obtain ⟨_, a2, a3, _⟩ := add_spec c t k v m h
  by_cases hok : (t.add c k v m).1 = .ok
  · exact (a2 hok).2.2
  · obtain ⟨_, _, b3, b4⟩ := a3 hok; omega

theorem get_refines' (c : HCfg) (t : HashTable) (k : Key) (m : Mem) (h : t.Inv c) :
    (t.get c k m).2.1 = Map.lookup t.abs k := (get_refines c t k m h).1

theorem get_nofault (c : HCfg) (t : HashTable) (k : Key) (m : Mem) (h : t.Inv c) :
    (t.get c k m).2.2 = m := (get_refines c t k m h).2.2

theorem remove_inv (c : HCfg) (t : HashTable) (k : Key) (m : Mem) (h : t.Inv c)
    (hl : (Map.lookup t.abs k).isSome = true → 0 < liveOf m t.triple) :
    (t.remove c k m).2.2.1.Inv c := (remove_spec c t k m h hl).1

theorem remove_refines (c : HCfg) (t : HashTable) (k : Key) (m : Mem) (h : t.Inv c)
    (hl : (Map.lookup t.abs k).isSome = true → 0 < liveOf m t.triple) :
    (t.remove c k m).2.2.1.abs = Map.erase t.abs k ∧ (t.remove c k m).2.1 = Map.lookup t.abs k ∧
    (t.remove c k m).1 = (if (Map.lookup t.abs k).isSome then .ok else .errKeyNotFound) :=
  ⟨(remove_spec c t k m h hl).2.1, (remove_spec c t k m h hl).2.2.1, (remove_spec c t k m h hl).2.2.2.1⟩

/-- an absent key: rejected and inert, with no assumption on the ledger -/
theorem remove_inert (c : HCfg) (t : HashTable) (k : Key) (m : Mem) (h : t.Inv c)
    (habs : Map.lookup t.abs k = none) : t.remove c k m = (.errKeyNotFound, none, t, m) := by
  obtain ⟨_, _, p3, p4, p5, _⟩ := remove_spec c t k m h (fun hs => by rw [habs] at hs; cases hs)
  rw [habs] at p3 p4
  simp only [Option.isSome_none, Bool.false_eq_true, if_false] at p4
  obtain ⟨q1, q2⟩ := p5 (by rw [p4]; simp)
  have : t.remove c k m = ((t.remove c k m).1, (t.remove c k m).2.1, (t.remove c k m).2.2.1, (t.remove c k m).2.2.2) := rfl
  rw [this, p3, p4, q1, q2]

theorem remove_nofault (c : HCfg) (t : HashTable) (k : Key) (m : Mem) (h : t.Inv c)
    (hl : (Map.lookup t.abs k).isSome = true → 0 < liveOf m t.triple) :
    (t.remove c k m).2.2.2.fault = m.fault := (remove_spec c t k m h hl).2.2.2.2.2.2.1

theorem remove_ledger (c : HCfg) (t : HashTable) (k : Key) (m : Mem) (h : t.Inv c)
    (hl : (Map.lookup t.abs k).isSome = true → 0 < liveOf m t.triple) (hok : (t.remove c k m).1 = .ok) :
    liveOf (t.remove c k m).2.2.2 t.triple = liveOf m t.triple - 1 ∧ (t.remove c k m).2.2.1.size + 1 = t.size :=
  (remove_spec c t k m h hl).2.2.2.2.2.1 hok

theorem removeAll_inv (c : HCfg) (t : HashTable) (m : Mem) (h : t.Inv c) (hl : t.size ≤ liveOf m t.triple) :
    (t.removeAll m).1.Inv c := (removeAll_spec c t m h hl).1

theorem removeAll_refines (c : HCfg) (t : HashTable) (m : Mem) (h : t.Inv c) (hl : t.size ≤ liveOf m t.triple) :
    (t.removeAll m).1.abs = [] := (removeAll_spec c t m h hl).2.1

theorem removeAll_ledger (c : HCfg) (t : HashTable) (m : Mem) (h : t.Inv c) (hl : t.size ≤ liveOf m t.triple) :
    liveOf (t.removeAll m).2 t.triple = liveOf m t.triple - t.size ∧ (t.removeAll m).2.fault = m.fault :=
  ⟨(removeAll_spec c t m h hl).2.2.2.2.2.1, (removeAll_spec c t m h hl).2.2.2.2.2.2.1⟩

theorem new_inv (c : HCfg) (cap : Nat) (tr : Triple) (m : Mem) (t : HashTable) (h : (HashTable.new c cap tr m).2.1 = some t) :
    t.Inv c ∧ t.abs = [] ∧ t.triple = tr := by
  obtain ⟨_, q2, q3, _, _, _, q7⟩ := (new_spec c cap tr m).2.2.1 t h
  exact ⟨q2, q3, q7⟩

theorem new_atomic (c : HCfg) (cap : Nat) (tr : Triple) (m : Mem) (hne : (HashTable.new c cap tr m).1 ≠ .ok) :
    (HashTable.new c cap tr m).2.1 = none ∧ liveOf (HashTable.new c cap tr m).2.2 tr = liveOf m tr :=
  (new_spec c cap tr m).2.1 hne

theorem destroy_ledger (c : HCfg) (t : HashTable) (m : Mem) (h : t.Inv c) (hl : t.size + 2 ≤ liveOf m t.triple) :
    liveOf (t.destroy m) t.triple = liveOf m t.triple - (t.size + 2) ∧ (t.destroy m).fault = m.fault := destroy_spec c t m h hl

/-- construct, destroy: the ledger returns to where it started -/
theorem new_destroy_balanced (c : HCfg) (cap : Nat) (tr : Triple) (m : Mem) (t : HashTable)
    (h : (HashTable.new c cap tr m).2.1 = some t) :
    liveOf (t.destroy (HashTable.new c cap tr m).2.2) tr = liveOf m tr ∧
    (t.destroy (HashTable.new c cap tr m).2.2).fault = m.fault := by
  obtain ⟨_, q2, _, q4, _, q6, q7⟩ := (new_spec c cap tr m).2.2.1 t h
  obtain ⟨d1, d2⟩ := destroy_spec c t (HashTable.new c cap tr m).2.2 q2 (by rw [q7]; omega)
  rw [q7] at d1
  exact ⟨by omega, by rw [d2]; exact (new_spec c cap tr m).2.2.2.1⟩

end CC.HashTable
