import CollectionsC.Proofs.PTreeWF
import CollectionsC.Proofs.TreeTableRBInsert
/-! The loop invariant of `rebalance_after_insert` on the inductive tree: the tree satisfies the red-black
rules everywhere except that the subtree at one position (the parent of `z`) is only `RBinfra` — its root may
be red with one red child.  One fix-up step at the grandparent moves the exception two levels up or
removes it; the black height never changes. -/
namespace CC.Tree
open Colour Dir

/-- `fixInsLeft` / `fixInsRight`, chosen by the side of the grandparent the parent hangs on -/
def fixAt (d : Dir) (G : Tree) : Tree :=
  match d with
  | .L => fixInsLeft G
  | .R => fixInsRight G

/-- red-black rules everywhere, except that the subtree at the position is only `RBinfra` -/
def Infra : Tree → Path → Prop
  | t, [] => RBinfra t
  | nil, _ :: _ => False
  | node c l _ _ r, .L :: q => Infra l q ∧ RBok r ∧ bh l = bh r ∧ (c = red → l.col = black ∧ r.col = black)
  | node c l _ _ r, .R :: q => Infra r q ∧ RBok l ∧ bh l = bh r ∧ (c = red → l.col = black ∧ r.col = black)

theorem RBinfra_black {t : Tree} (h : RBinfra t) (hc : t.col = black) : RBok t := by
  cases t with
  | nil => trivial
  | node c l k v r => simp only [col_node] at hc; subst hc; exact ⟨h.1, h.2.1, h.2.2.1, by simp⟩

theorem Infra_sub {t : Tree} {q : Path} (h : Infra t q) : RBinfra (subtree t q) := by
  induction q generalizing t with
  | nil => simpa [subtree, Infra] using h
  | cons d q ih =>
    cases t with
    | nil => simp [Infra] at h
    | node c l k v r => cases d <;> simp only [Infra, subtree] at h ⊢ <;> exact ih h.1

/-- a black root at the exceptional position: no exception at all -/
theorem Infra_black {t : Tree} {q : Path} (h : Infra t q) (hc : (subtree t q).col = black) : RBok t := by
  induction q generalizing t with
  | nil => simp only [subtree] at hc; exact RBinfra_black (by simpa [Infra] using h) hc
  | cons d q ih =>
    cases t with
    | nil => simp [Infra] at h
    | node c l k v r =>
      cases d with
      | L => simp only [Infra, subtree] at h hc; exact ⟨ih h.1 hc, h.2.1, h.2.2.1, h.2.2.2⟩
      | R => simp only [Infra, subtree] at h hc; exact ⟨h.2.1, ih h.1 hc, h.2.2.1, h.2.2.2⟩

theorem col_replaceAt_cons (t : Tree) (d : Dir) (q : Path) (s : Tree) : (replaceAt t (d :: q) s).col = t.col := by
  cases t with
  | nil => rfl
  | node c l k v r => cases d <;> rfl

/-- **one fix-up step** at the grandparent position `g`, the (red) parent hanging on side `d1`: the exception
moves to the position above `g` (or disappears), the black height and — below the root — the colour of
the tree are unchanged; if the repaired subtree has a black root the whole tree satisfies the rules -/
theorem fix_step (g : Path) (d1 : Dir) {t : Tree} (h : Infra t (g ++ [d1]))
    (hp : (subtree t (g ++ [d1])).col = red) :
    Infra (replaceAt t g (fixAt d1 (subtree t g))) g.dropLast ∧
    bh (replaceAt t g (fixAt d1 (subtree t g))) = bh t ∧
    (g ≠ [] → (replaceAt t g (fixAt d1 (subtree t g))).col = t.col) ∧
    (g = [] → RBok (replaceAt t g (fixAt d1 (subtree t g)))) ∧
    ((fixAt d1 (subtree t g)).col = black → RBok (replaceAt t g (fixAt d1 (subtree t g)))) := by
  induction g generalizing t with
  | nil =>
    cases t with
    | nil => cases d1 <;> simp [Infra] at h
    | node c A k v B =>
      simp only [List.nil_append, subtree, replaceAt, List.dropLast] at h hp ⊢
      cases d1 with
      | L =>
        simp only [Infra, subtree] at h hp
        obtain ⟨hA, hB, hb, hc⟩ := h
        have hcb : c = black := by
          cases c with
          | black => rfl
          | red => have := (hc rfl).1; rw [hp] at this; cases this
        subst hcb
        obtain ⟨a, b, c'⟩ := fixInsLeft_rb black A k v B hA hB hb (by simp)
        exact ⟨by simpa [Infra, fixAt] using b, by simpa [fixAt] using a, fun x => absurd rfl x,
          fun _ => by simpa [fixAt] using c' rfl, fun _ => by simpa [fixAt] using c' rfl⟩
      | R =>
        simp only [Infra, subtree] at h hp
        obtain ⟨hB, hA, hb, hc⟩ := h
        have hcb : c = black := by
          cases c with
          | black => rfl
          | red => have := (hc rfl).2; rw [hp] at this; cases this
        subst hcb
        obtain ⟨a, b, c'⟩ := fixInsRight_rb black A k v B hB hA hb (by simp)
        exact ⟨by simpa [Infra, fixAt] using b, by simpa [fixAt] using a, fun x => absurd rfl x,
          fun _ => by simpa [fixAt] using c' rfl, fun _ => by simpa [fixAt] using c' rfl⟩
  | cons d g' ih =>
    cases t with
    | nil => simp [Infra] at h
    | node c l k v r =>
      cases d with
      | L =>
        simp only [List.cons_append, Infra, subtree] at h hp
        obtain ⟨hl, hr, hb, hc⟩ := h
        obtain ⟨i1, i2, i3, i4, i5⟩ := ih hl hp
        simp only [subtree, replaceAt]
        refine ⟨?_, by simp [bh, i2], fun _ => rfl, fun x => by simp at x, ?_⟩
        · cases g' with
          | nil =>
            simp only [List.dropLast, Infra] at i1 ⊢
            exact ⟨i4 rfl, hr, by rw [i2]; exact hb, fun hcr => Or.inr (hc hcr).2⟩
          | cons e g'' =>
            simp only [List.dropLast, Infra] at i1 ⊢
            exact ⟨i1, hr, by rw [i2]; exact hb, fun hcr => ⟨by rw [i3 (by simp)]; exact (hc hcr).1, (hc hcr).2⟩⟩
        · intro hbk
          refine ⟨i5 hbk, hr, by rw [i2]; exact hb, fun hcr => ⟨?_, (hc hcr).2⟩⟩
          cases g' with
          | nil => simpa [replaceAt] using hbk
          | cons e g'' => rw [i3 (by simp)]; exact (hc hcr).1
      | R =>
        simp only [List.cons_append, Infra, subtree] at h hp
        obtain ⟨hr, hl, hb, hc⟩ := h
        obtain ⟨i1, i2, i3, i4, i5⟩ := ih hr hp
        simp only [subtree, replaceAt]
        refine ⟨?_, by simp [bh], fun _ => rfl, fun x => by simp at x, ?_⟩
        · cases g' with
          | nil =>
            simp only [List.dropLast, Infra] at i1 ⊢
            exact ⟨hl, i4 rfl, by rw [i2]; exact hb, fun hcr => Or.inl (hc hcr).1⟩
          | cons e g'' =>
            simp only [List.dropLast, Infra] at i1 ⊢
            exact ⟨i1, hl, by rw [i2]; exact hb, fun hcr => ⟨(hc hcr).1, by rw [i3 (by simp)]; exact (hc hcr).2⟩⟩
        · intro hbk
          refine ⟨hl, i5 hbk, by rw [i2]; exact hb, fun hcr => ⟨(hc hcr).1, ?_⟩⟩
          cases g' with
          | nil => simpa [replaceAt] using hbk
          | cons e g'' => rw [i3 (by simp)]; exact (hc hcr).2
end CC.Tree

namespace CC.Tree
open Colour Dir Spec Spec.OrdMap
variable {cmp : Nat → Nat → Int}

/-- the descent of `cc_treetable_add`: the position of the node with the key, or of the sentinel link where the
new node goes -/
def leafPath (cmp : Nat → Nat → Int) (k : Nat) : Tree → Path
  | nil => []
  | node _ l key _ r =>
    if cmp k key < 0 then .L :: leafPath cmp k l
    else if 0 < cmp k key then .R :: leafPath cmp k r
    else []

/-- the descent ends at the sentinel or at a node whose key compares equal -/
theorem leafPath_spec (h : TotalOrder cmp) (k : Nat) (t : Tree) :
    subtree t (leafPath cmp k t) = nil ∨ ∃ c a v b, subtree t (leafPath cmp k t) = node c a k v b := by
  induction t with
  | nil => left; rfl
  | node c l key val r ihl ihr =>
    unfold leafPath
    split
    · simpa [subtree] using ihl
    · split
      · simpa [subtree] using ihr
      · rename_i h1 h2
        have := h.eq_of_not h1 h2
        subst this
        right; exact ⟨c, l, val, r, rfl⟩

/-- the in-order content after linking a new leaf at the descent position is the ordered-map insert -/
theorem toList_link_leaf (h : TotalOrder cmp) (k v : Nat) (c0 : Colour) (t : Tree) (hb : BST cmp t)
    (hn : subtree t (leafPath cmp k t) = nil) :
    (replaceAt t (leafPath cmp k t) (node c0 nil k v nil)).toList = insert cmp t.toList k v := by
  induction t with
  | nil => simp [leafPath, replaceAt, OrdMap.insert, below, above]
  | node c l key val r ihl ihr =>
    have hs : Sorted cmp (l.toList ++ (key, val) :: r.toList) := hb
    unfold leafPath at hn ⊢
    split
    · rename_i hlt
      simp only [hlt, if_true, subtree] at hn
      simp only [replaceAt, toList_node, ihl hb.left hn]
      exact (insert_lt h hs hlt v).symm
    · split
      · rename_i hlt hgt
        simp only [hlt, if_false, hgt, if_true, subtree] at hn
        simp only [replaceAt, toList_node, ihr hb.right hn]
        exact (insert_gt h hs ((h.gt_iff k key).1 hgt) v).symm
      · rename_i h1 h2
        simp only [h1, h2, if_false, subtree] at hn
        cases hn

/-- overwriting the value of the node the descent finds is the ordered-map insert as well -/
theorem toList_set_value (h : TotalOrder cmp) (k v : Nat) (t : Tree) (hb : BST cmp t) {c a v0 b}
    (hn : subtree t (leafPath cmp k t) = node c a k v0 b) :
    (replaceAt t (leafPath cmp k t) (node c a k v b)).toList = insert cmp t.toList k v := by
  induction t with
  | nil => simp [leafPath, subtree] at hn
  | node c' l key val r ihl ihr =>
    have hs : Sorted cmp (l.toList ++ (key, val) :: r.toList) := hb
    unfold leafPath at hn ⊢
    split
    · rename_i hlt
      simp only [hlt, if_true, subtree] at hn
      simp only [replaceAt, toList_node, ihl hb.left hn]
      exact (insert_lt h hs hlt v).symm
    · split
      · rename_i hlt hgt
        simp only [hlt, if_false, hgt, if_true, subtree] at hn
        simp only [replaceAt, toList_node, ihr hb.right hn]
        exact (insert_gt h hs ((h.gt_iff k key).1 hgt) v).symm
      · rename_i h1 h2
        simp only [h1, h2, if_false, subtree] at hn
        simp only [node.injEq] at hn
        obtain ⟨rfl, rfl, rfl, rfl, rfl⟩ := hn
        simp only [replaceAt, toList_node]
        exact (insert_eq h hs v).symm

/-- linking a red leaf below a tree that satisfies the rules leaves one possible exception: at the parent of
the leaf -/
theorem Infra_link (k v : Nat) (t : Tree) (hrb : RBok t) (hne : t ≠ nil)
    (hn : subtree t (leafPath cmp k t) = nil) :
    Infra (replaceAt t (leafPath cmp k t) (node red nil k v nil)) (leafPath cmp k t).dropLast ∧
    bh (replaceAt t (leafPath cmp k t) (node red nil k v nil)) = bh t ∧
    (replaceAt t (leafPath cmp k t) (node red nil k v nil)).col = t.col ∧ leafPath cmp k t ≠ [] := by
  induction t with
  | nil => exact absurd rfl hne
  | node c l key val r ihl ihr =>
    obtain ⟨hl, hr, hbh, hcc⟩ := hrb
    unfold leafPath at hn ⊢
    split
    · rename_i hlt
      simp only [hlt, if_true, subtree] at hn
      cases l with
      | nil =>
        simp only [leafPath, replaceAt, List.dropLast, Infra]
        refine ⟨⟨⟨trivial, trivial, rfl, by simp⟩, hr, by simpa [bh] using hbh, fun hc => Or.inr (hcc hc).2⟩,
          by simp [bh], rfl, by simp⟩
      | node lc ll lk lv lr =>
        obtain ⟨i1, i2, i3, i4⟩ := ihl hl (by simp) hn
        generalize leafPath cmp k (node lc ll lk lv lr) = q at i1 i2 i3 i4 ⊢
        cases q with
        | nil => exact absurd rfl i4
        | cons e q' =>
          simp only [replaceAt, List.dropLast, Infra]
          exact ⟨⟨i1, hr, by rw [i2]; exact hbh, fun hc => ⟨by rw [i3]; exact (hcc hc).1, (hcc hc).2⟩⟩,
            by simp [bh, i2], rfl, by simp⟩
    · split
      · rename_i hlt hgt
        simp only [hlt, if_false, hgt, if_true, subtree] at hn
        cases r with
        | nil =>
          simp only [leafPath, replaceAt, List.dropLast, Infra]
          refine ⟨⟨hl, ⟨trivial, trivial, rfl, by simp⟩, by simpa [bh] using hbh, fun hc => Or.inl (hcc hc).1⟩,
            by simp [bh], rfl, by simp⟩
        | node rc rl rk rv rr =>
          obtain ⟨i1, i2, i3, i4⟩ := ihr hr (by simp) hn
          generalize leafPath cmp k (node rc rl rk rv rr) = q at i1 i2 i3 i4 ⊢
          cases q with
          | nil => exact absurd rfl i4
          | cons e q' =>
            simp only [replaceAt, List.dropLast, Infra]
            exact ⟨⟨i1, hl, by rw [i2]; exact hbh, fun hc => ⟨(hcc hc).1, by rw [i3]; exact (hcc hc).2⟩⟩,
              by simp [bh], rfl, by simp⟩
      · rename_i h1 h2
        simp only [h1, h2, if_false, subtree] at hn
        cases hn
end CC.Tree
