import CollectionsC.Proofs.StaticPool
import CollectionsC.Proofs.DynamicPool
/-! The pool side of "a container on a sufficiently large pool behaves as on malloc": a pool that
is large enough never answers NULL.  Spec-level lemmas; `Properties/C14Pools.lean` transports them
to the concrete models. -/
namespace CC.Spec

/-! ## static pool -/
namespace SPool

/-- allocation requests only -/
def IsAlloc : Op → Prop
  | .malloc _ => True
  | .calloc _ _ => True
  | _ => False

/-- bytes an allocation request asks for -/
def reqSize : Op → Nat
  | .malloc n => n
  | .calloc c k => c * k
  | _ => 0

def reqTotal : List Op → Nat
  | [] => 0
  | op :: ops => reqSize op + reqTotal ops

/-- one request that fits is served at the current end of the used part, `used` grows by its size -/
theorem step_serves (s : SPool) (op : Op) (ha : IsAlloc op) (hfit : reqSize op ≤ s.free) :
    (s.step op).1 = some s.used ∧ (s.step op).2.used = s.used + reqSize op ∧ (s.step op).2.size = s.size ∧
    (s.step op).2.blocks = (s.used, reqSize op) :: s.blocks := by
  cases op with
  | malloc n =>
    simp only [reqSize, free] at hfit
    simp only [step, malloc, hfit, if_true, reqSize]
    exact ⟨(by first | rfl | trivial), by simp only [used, blocksLen]; omega, (by first | rfl | trivial), (by first | rfl | trivial)⟩
  | calloc c k =>
    simp only [reqSize, free] at hfit
    simp only [step, calloc, hfit, if_true, reqSize]
    exact ⟨(by first | rfl | trivial), by simp only [used, blocksLen]; omega, (by first | rfl | trivial), (by first | rfl | trivial)⟩
  | release p => exact ha.elim
  | reset => exact ha.elim
  | write off n v => exact ha.elim

/-- any sequence of requests whose sizes sum to at most the free space is served without a NULL -/
theorem run_serves (ops : List Op) (s : SPool) (ha : ∀ op ∈ ops, IsAlloc op) (hu : s.used ≤ s.size)
    (hfit : reqTotal ops ≤ s.free) :
    (∀ o ∈ (s.run ops).1, o ≠ none) ∧ (s.run ops).1.length = ops.length ∧
    (s.run ops).2.used = s.used + reqTotal ops ∧ (s.run ops).2.blocks.length = s.blocks.length + ops.length := by
  induction ops generalizing s with
  | nil => simp [run, reqTotal]
  | cons op ops ih =>
    simp only [reqTotal] at hfit
    have h1 := step_serves s op (ha op (List.mem_cons_self ..)) (by omega)
    have hfree : (s.step op).2.free = s.free - reqSize op := by
      simp only [free] at *; rw [h1.2.1, h1.2.2.1]; omega
    have := ih (s.step op).2 (fun o ho => ha o (List.mem_cons_of_mem _ ho))
      (by rw [h1.2.1, h1.2.2.1]; simp only [free] at hfit; omega) (by rw [hfree]; omega)
    simp only [run, List.length_cons, reqTotal]
    refine ⟨?_, by rw [this.2.1], by rw [this.2.2.1, h1.2.1]; omega, by rw [this.2.2.2, h1.2.2.2]; simp; omega⟩
    intro o ho
    cases ho with
    | head => rw [h1.1]; simp
    | tail _ ho' => exact this.1 o ho'

/-! ### request streams that also free and reset -/

/-- malloc / calloc / free / reset (no user writes) -/
def IsReq : Op → Prop
  | .write _ _ _ => False
  | _ => True

/-- every allocation request of the history got a non-NULL answer -/
def Served : List Op → List (Option Nat) → Prop
  | [], [] => True
  | op :: ops, o :: os => (IsAlloc op → o ≠ none) ∧ Served ops os
  | _, _ => False

theorem blocksLen_tail_le (bs : List (Nat × Nat)) : blocksLen bs.tail ≤ blocksLen bs := by
  cases bs with
  | nil => exact Nat.le_refl _
  | cons b bs => simp only [List.tail_cons, blocksLen]; omega

/-- `free` and `reset` never increase `used` and never change the size: they can only help -/
theorem nonalloc_step (s : SPool) (op : Op) (hr : IsReq op) (hna : ¬ IsAlloc op) :
    (s.step op).2.used ≤ s.used ∧ (s.step op).2.size = s.size := by
  cases op with
  | malloc n => exact (hna trivial).elim
  | calloc c k => exact (hna trivial).elim
  | release p =>
    simp only [step, release]
    split
    · split
      · rename_i hb _
        simp only [used, hb, blocksLen]; exact ⟨by omega, by first | rfl | trivial⟩
      · exact ⟨Nat.le_refl _, rfl⟩
    · exact ⟨Nat.le_refl _, rfl⟩
  | reset => exact ⟨by simp [step, reset, used, blocksLen], rfl⟩
  | write off n v => exact hr.elim

/-- any stream of malloc/calloc/free/reset whose **allocation** sizes sum to at most the free space
at the start is served without a NULL (frees and resets in between only make room) -/
theorem stream_serves (ops : List Op) (s : SPool) (hr : ∀ op ∈ ops, IsReq op) (hu : s.used ≤ s.size)
    (hfit : reqTotal ops ≤ s.free) : Served ops (s.run ops).1 ∧ (s.run ops).2.used ≤ (s.run ops).2.size := by
  induction ops generalizing s with
  | nil => exact ⟨trivial, hu⟩
  | cons op ops ih =>
    simp only [reqTotal] at hfit
    simp only [run, Served]
    by_cases ha : IsAlloc op
    · have h1 := step_serves s op ha (by omega)
      have hfree : (s.step op).2.free = s.free - reqSize op := by
        simp only [free] at *; rw [h1.2.1, h1.2.2.1]; omega
      have := ih (s.step op).2 (fun o ho => hr o (List.mem_cons_of_mem _ ho))
        (by rw [h1.2.1, h1.2.2.1]; simp only [free] at hfit; omega) (by rw [hfree]; omega)
      exact ⟨⟨fun _ => by rw [h1.1]; simp, this.1⟩, this.2⟩
    · have h1 := nonalloc_step s op (hr op (List.mem_cons_self ..)) ha
      have h0 : reqSize op = 0 := by
        cases op <;> first | rfl | exact (ha trivial).elim
      have := ih (s.step op).2 (fun o ho => hr o (List.mem_cons_of_mem _ ho)) (by rw [h1.2]; omega)
        (by simp only [free] at *; rw [h1.2]; omega)
      exact ⟨⟨fun h => (ha h).elim, this.1⟩, this.2⟩

end SPool

/-! ## dynamic pool -/
namespace DPool

/-- allocation requests -/
def IsAlloc : Op → Prop
  | .malloc _ _ => True
  | .calloc _ _ _ => True
  | _ => False

def reqSize : Op → Nat
  | .malloc n _ => n
  | .calloc c k _ => c * k
  | _ => 0

/-- an admissible request: malloc/calloc that the page allocator is not going to refuse, of a size
below the initial page size `S0` also with its padding; free; reset (no user writes) -/
def ReqOk (S0 : Nat) (packed : Bool) (ab : Nat) : Op → Prop
  | .malloc n r => r = false ∧ n < S0 ∧ n + padOf packed ab n ≤ S0
  | .calloc c k r => r = false ∧ c * k < S0 ∧ c * k + padOf packed ab (c * k) ≤ S0
  | .release _ => True
  | .reset => True
  | .write _ _ _ => False

/-- every allocation request of the history got a non-NULL answer -/
def Served : List Op → List (Option (Nat × Nat)) → Prop
  | [], [] => True
  | op :: ops, o :: os => (IsAlloc op → o ≠ none) ∧ Served ops os
  | _, _ => False

/-- what the induction carries: an expandable pool all of whose pages have at least the initial
payload `S0` and are addressable; the configuration is the initial one -/
def Serving (S0 : Nat) (packed : Bool) (ab : Nat) (s : DPool) : Prop :=
  s.fixed = false ∧ s.packed = packed ∧ s.ab = ab ∧ s.pages ≠ [] ∧ ∀ p ∈ s.pages, S0 ≤ p.size ∧ p.size ≤ pageLimit

theorem serving_top (S0 ab : Nat) (packed : Bool) (s : DPool) (h : Serving S0 packed ab s) :
    S0 ≤ s.top.size ∧ s.top.size ≤ pageLimit := by
  obtain ⟨_, _, _, hne, hall⟩ := h
  cases hp : s.pages with
  | nil => exact (hne hp).elim
  | cons p ps =>
    have : s.top = p := by simp [top, hp]
    rw [this]; exact hall p (by rw [hp]; exact List.mem_cons_self ..)

theorem malloc_serves (grow : Nat → Nat) (fresh S0 ab : Nat) (packed : Bool) (s : DPool) (n : Nat)
    (hg : ∀ c, c ≤ pageLimit → c ≤ grow c ∧ grow c ≤ pageLimit) (hs : Serving S0 packed ab s)
    (hn : n < S0) (hpad : n + padOf packed ab n ≤ S0) :
    (malloc grow fresh s n false).1 ≠ none ∧ Serving S0 packed ab (malloc grow fresh s n false).2 := by
  have htop := serving_top S0 ab packed s hs
  obtain ⟨h1, h2, h3, hne, hall⟩ := hs
  have hgt := hg s.top.size htop.2
  unfold malloc
  have a1 : ¬ n ≥ s.top.size := by omega
  simp only [a1, if_false, h2, h3]
  by_cases hfit : n + padOf packed ab n ≤ s.top.size - s.topUsed
  · simp only [hfit, if_true]
    refine ⟨by simp, ?_⟩
    simp only [pushBlock]
    cases hp : s.pages with
    | nil => exact (hne hp).elim
    | cons p ps =>
      refine ⟨h1, h2, h3, by simp, ?_⟩
      intro q hq
      cases hq with
      | head => exact hall p (by rw [hp]; exact List.mem_cons_self ..)
      | tail _ hq' => exact hall q (by rw [hp]; exact List.mem_cons_of_mem _ hq')
  · have a3 : ¬ n + padOf packed ab n > grow s.top.size := by omega
    have a4 : ¬ grow s.top.size > pageLimit := by omega
    simp only [hfit, if_false, h1, a3, a4, Bool.false_or, decide_false, Bool.false_eq_true]
    refine ⟨by simp, rfl, rfl, rfl, by simp, ?_⟩
    intro q hq
    cases hq with
    | head => exact ⟨by show S0 ≤ grow s.top.size; omega, by show grow s.top.size ≤ pageLimit; omega⟩
    | tail _ hq' => exact hall q hq'

theorem fillTop_serving (S0 ab : Nat) (packed : Bool) (s : DPool) (off n v : Nat) (hs : Serving S0 packed ab s) :
    Serving S0 packed ab (s.fillTop off n v) := by
  obtain ⟨h1, h2, h3, hne, hall⟩ := hs
  simp only [fillTop]
  cases hp : s.pages with
  | nil => exact (hne hp).elim
  | cons p ps =>
    refine ⟨h1, h2, h3, by simp, ?_⟩
    intro q hq
    cases hq with
    | head => exact hall p (by rw [hp]; exact List.mem_cons_self ..)
    | tail _ hq' => exact hall q (by rw [hp]; exact List.mem_cons_of_mem _ hq')

/-- one admissible request: allocations are served (by the current page or a new one), frees and
resets keep the pool serving -/
theorem step_serves (grow : Nat → Nat) (fresh S0 ab : Nat) (packed : Bool) (s : DPool) (op : Op)
    (hg : ∀ c, c ≤ pageLimit → c ≤ grow c ∧ grow c ≤ pageLimit) (hs : Serving S0 packed ab s)
    (ha : ReqOk S0 packed ab op) :
    (IsAlloc op → (step grow fresh s op).1 ≠ none) ∧ Serving S0 packed ab (step grow fresh s op).2 := by
  cases op with
  | malloc n r =>
    obtain ⟨hr, hn, hpad⟩ := ha; subst hr
    have := malloc_serves grow fresh S0 ab packed s n hg hs hn hpad
    exact ⟨fun _ => this.1, this.2⟩
  | calloc c k r =>
    obtain ⟨hr, hn, hpad⟩ := ha; subst hr
    have := malloc_serves grow fresh S0 ab packed s (c * k) hg hs hn hpad
    simp only [step, calloc]
    cases hm : (malloc grow fresh s (c * k) false).1 with
    | none => exact (this.1 hm).elim
    | some a => exact ⟨fun _ => by simp, fillTop_serving S0 ab packed _ _ _ _ this.2⟩
  | release p =>
    refine ⟨fun h => h.elim, ?_⟩
    obtain ⟨h1, h2, h3, hne, hall⟩ := hs
    simp only [step, release]
    split
    · rename_i pg ps a _ hpg
      split
      · split
        · refine ⟨h1, h2, h3, by simp, ?_⟩
          intro q hq
          cases hq with
          | head => exact hall pg (by rw [hpg]; exact List.mem_cons_self ..)
          | tail _ hq' => exact hall q (by rw [hpg]; exact List.mem_cons_of_mem _ hq')
        · exact ⟨h1, h2, h3, hne, hall⟩
      · exact ⟨h1, h2, h3, hne, hall⟩
    · exact ⟨h1, h2, h3, hne, hall⟩
  | reset =>
    refine ⟨fun h => h.elim, ?_⟩
    obtain ⟨h1, h2, h3, hne, hall⟩ := hs
    simp only [step, reset]
    split
    · rename_i q hq
      refine ⟨h1, h2, h3, by simp, ?_⟩
      intro r hr
      simp only [List.mem_singleton] at hr
      subst hr
      exact hall q (List.mem_of_getLast? hq)
    · exact ⟨h1, h2, h3, hne, hall⟩
  | write off n v => exact ha.elim

/-- any stream of admissible requests — allocations interleaved with frees and resets, however long —
is served without a NULL -/
theorem run_serves (grow : Nat → Nat) (fresh S0 ab : Nat) (packed : Bool)
    (hg : ∀ c, c ≤ pageLimit → c ≤ grow c ∧ grow c ≤ pageLimit) (ops : List Op) (s : DPool)
    (hs : Serving S0 packed ab s) (ha : ∀ op ∈ ops, ReqOk S0 packed ab op) :
    Served ops (run grow fresh s ops).1 := by
  induction ops generalizing s with
  | nil => trivial
  | cons op ops ih =>
    have h1 := step_serves grow fresh S0 ab packed s op hg hs (ha op (List.mem_cons_self ..))
    simp only [run, Served]
    exact ⟨h1.1, ih _ h1.2 (fun o ho => ha o (List.mem_cons_of_mem _ ho))⟩

end DPool
end CC.Spec

/-! ## the concrete dynamic pool under an allocator that does not refuse -/
namespace CC.DynamicPool
open Spec (PPage PBlk)
open Spec.DPool (Op)

/-- the page allocator does not refuse: nothing is scheduled to fail, or the pool sits on the C library -/
def NoRefuse (s : DynamicPool) (m : Mem) : Prop := m.sched = [] ∨ s.triple = .libc

theorem noRefuse_alloc (s : DynamicPool) (m : Mem) (h : NoRefuse s m) : (m.allocT s.triple).1 = true := by
  rcases h with h | h
  · exact (Mem.allocT_nil m s.triple h).1
  · rw [h]; rfl

theorem malloc_sched_nil (grow : Nat → Nat) (fresh : Nat) (s : DynamicPool) (n : Nat) (m : Mem) (h : m.sched = []) :
    (malloc grow fresh s n m).2.2.sched = [] := by
  rcases malloc_cases grow fresh s n m _ rfl with ⟨_, e⟩ | ⟨_, _, e⟩ | ⟨_, _, _, e⟩ | ⟨_, _, _, _, _, _, e⟩ | ⟨_, _, _, _, _, _, e⟩ <;> rw [e]
  · exact h
  · exact h
  · exact h
  · exact (Mem.allocT_nil m s.triple h).2
  · exact (Mem.allocT_nil m s.triple h).2

theorem resetLoop_sched (t : Triple) (ps : List PPage) (m : Mem) : (resetLoop t ps m).2.sched = m.sched := by
  induction ps generalizing m with
  | nil => simp [resetLoop]
  | cons p rest ih =>
    cases rest with
    | nil => rfl
    | cons q r => simp only [resetLoop]; rw [ih, Mem.freeT_sched]

/-- admissible requests keep a non-refusing allocator non-refusing, and their annotation is the
request itself -/
theorem req_step_noRefuse (grow : Nat → Nat) (fresh S0 ab : Nat) (packed : Bool) (s : DynamicPool) (op : Op) (m : Mem)
    (h : NoRefuse s m) (ha : Spec.DPool.ReqOk S0 packed ab op) :
    NoRefuse (step grow fresh s op m).2.1 (step grow fresh s op m).2.2 ∧ annotate s op m = op ∧ OpOk s op := by
  have htr := step_triple grow fresh s op m
  have hal := noRefuse_alloc s m h
  cases op with
  | malloc n r =>
    obtain ⟨hr, _, _⟩ := ha; subst hr
    refine ⟨?_, by simp [annotate, hal], trivial⟩
    rcases h with h | h
    · exact Or.inl (malloc_sched_nil grow fresh s n m h)
    · exact Or.inr (by rw [htr, h])
  | calloc c k r =>
    obtain ⟨hr, _, _⟩ := ha; subst hr
    refine ⟨?_, by simp [annotate, hal], trivial⟩
    rcases h with h | h
    · left
      simp only [step, calloc]
      split
      · exact h
      · split
        · simp [malloc_sched_nil grow fresh s _ m h]
        · exact malloc_sched_nil grow fresh s _ m h
    · exact Or.inr (by rw [htr, h])
  | release p =>
    refine ⟨?_, rfl, trivial⟩
    rcases h with h | h
    · exact Or.inl h
    · exact Or.inr (by rw [htr, h])
  | reset =>
    refine ⟨?_, rfl, trivial⟩
    rcases h with h | h
    · left; simp only [step, reset]; split <;> (rw [resetLoop_sched]; exact h)
    · exact Or.inr (by rw [htr, h])
  | write off n v => exact ha.elim

theorem req_run_annot (grow : Nat → Nat) (fresh S0 ab : Nat) (packed : Bool) (ops : List Op) (s : DynamicPool) (m : Mem)
    (h : NoRefuse s m) (ha : ∀ op ∈ ops, Spec.DPool.ReqOk S0 packed ab op) :
    (run grow fresh s ops m).2.1 = ops ∧ RunOk grow fresh s ops m := by
  induction ops generalizing s m with
  | nil => exact ⟨rfl, trivial⟩
  | cons op ops ih =>
    have h1 := req_step_noRefuse grow fresh S0 ab packed s op m h (ha op (List.mem_cons_self ..))
    have := ih _ _ h1.1 (fun o ho => ha o (List.mem_cons_of_mem _ ho))
    simp only [run]
    exact ⟨by rw [h1.2.1, this.1], h1.2.2, this.2⟩

end CC.DynamicPool
