import CollectionsC.Proofs.StaticPool
import CollectionsC.Proofs.DynamicPool
/-! The pool side of "a container on a sufficiently large pool behaves as on malloc": a pool that
is large enough never answers NULL.  Spec-level lemmas; `Properties/C14Pools.lean` transports them
to the concrete models. -/
namespace CC.Spec

/-! ## static pool -/
namespace SPool

/-- allocation requests only -/
def IsAlloc : Op → Prop
  | .malloc _ => True
  | .calloc _ _ => True
  | _ => False

/-- bytes an allocation request asks for -/
def reqSize : Op → Nat
  | .malloc n => n
  | .calloc c k => c * k
  | _ => 0

def reqTotal : List Op → Nat
  | [] => 0
  | op :: ops => reqSize op + reqTotal ops

/-- one request that fits is served at the current end of the used part, `used` grows by its size -/
theorem step_serves (s : SPool) (op : Op) (ha : IsAlloc op) (hfit : reqSize op ≤ s.free) :
    (s.step op).1 = some s.used ∧ (s.step op).2.used = s.used + reqSize op ∧ (s.step op).2.size = s.size ∧
    (s.step op).2.blocks = (s.used, reqSize op) :: s.blocks := by
  cases op with
  | malloc n =>
    simp only [reqSize, free] at hfit
    simp only [step, malloc, hfit, if_true, reqSize]
    exact ⟨(by first | rfl | trivial), by simp only [used, blocksLen]; omega, (by first | rfl | trivial), (by first | rfl | trivial)⟩
  | calloc c k =>
    simp only [reqSize, free] at hfit
    simp only [step, calloc, hfit, if_true, reqSize]
    exact ⟨(by first | rfl | trivial), by simp only [used, blocksLen]; omega, (by first | rfl | trivial), (by first | rfl | trivial)⟩
  | release p => exact ha.elim
  | reset => exact ha.elim
  | write off n v => exact ha.elim

/-- any sequence of requests whose sizes sum to at most the free space is served without a NULL -/
theorem run_serves (ops : List Op) (s : SPool) (ha : ∀ op ∈ ops, IsAlloc op) (hu : s.used ≤ s.size)
    (hfit : reqTotal ops ≤ s.free) :
    (∀ o ∈ (s.run ops).1, o ≠ none) ∧ (s.run ops).1.length = ops.length ∧
    (s.run ops).2.used = s.used + reqTotal ops ∧ (s.run ops).2.blocks.length = s.blocks.length + ops.length := by
  induction ops generalizing s with
  | nil => simp [run, reqTotal]
  | cons op ops ih =>
    simp only [reqTotal] at hfit
    have h1 := step_serves s op (ha op (List.mem_cons_self ..)) (by omega)
    have hfree : (s.step op).2.free = s.free - reqSize op := by
      simp only [free] at *; rw [h1.2.1, h1.2.2.1]; omega
    have := ih (s.step op).2 (fun o ho => ha o (List.mem_cons_of_mem _ ho))
      (by rw [h1.2.1, h1.2.2.1]; simp only [free] at hfit; omega) (by rw [hfree]; omega)
    simp only [run, List.length_cons, reqTotal]
    refine ⟨?_, by rw [this.2.1], by rw [this.2.2.1, h1.2.1]; omega, by rw [this.2.2.2, h1.2.2.2]; simp; omega⟩
    intro o ho
    cases ho with
    | head => rw [h1.1]; simp
    | tail _ ho' => exact this.1 o ho'

end SPool

/-! ## dynamic pool -/
namespace DPool

/-- allocation requests that the allocator is not going to refuse -/
def IsAlloc : Op → Prop
  | .malloc _ r => r = false
  | .calloc _ _ r => r = false
  | _ => False

def reqSize : Op → Nat
  | .malloc n _ => n
  | .calloc c k _ => c * k
  | _ => 0

/-- what the induction carries: an expandable pool whose newest page has at least the initial
payload `S0` and is addressable; the configuration is the initial one -/
def Serving (S0 : Nat) (packed : Bool) (ab : Nat) (s : DPool) : Prop :=
  s.fixed = false ∧ s.packed = packed ∧ s.ab = ab ∧ S0 ≤ s.top.size ∧ s.top.size ≤ pageLimit

theorem malloc_serves (grow : Nat → Nat) (fresh S0 ab : Nat) (packed : Bool) (s : DPool) (n : Nat)
    (hg : ∀ c, c ≤ pageLimit → c ≤ grow c ∧ grow c ≤ pageLimit) (hs : Serving S0 packed ab s)
    (hn : n < S0) (hpad : n + padOf packed ab n ≤ S0) :
    (malloc grow fresh s n false).1 ≠ none ∧ Serving S0 packed ab (malloc grow fresh s n false).2 := by
  obtain ⟨h1, h2, h3, h4, h5⟩ := hs
  have hgt := hg s.top.size h5
  unfold malloc
  have a1 : ¬ n ≥ s.top.size := by omega
  simp only [a1, if_false, h2, h3]
  by_cases hfit : n + padOf packed ab n ≤ s.top.size - s.topUsed
  · simp only [hfit, if_true]
    refine ⟨by simp, ?_⟩
    simp only [pushBlock]
    cases hp : s.pages with
    | nil => exact ⟨h1, h2, h3, h4, h5⟩
    | cons p ps =>
      have : s.top = p := by simp [top, hp]
      rw [this] at h4 h5
      exact ⟨h1, h2, h3, by simpa [top] using h4, by simpa [top] using h5⟩
  · have a3 : ¬ n + padOf packed ab n > grow s.top.size := by omega
    have a4 : ¬ grow s.top.size > pageLimit := by omega
    simp only [hfit, if_false, h1, a3, a4, Bool.false_or, decide_false, Bool.false_eq_true]
    refine ⟨by simp, rfl, rfl, rfl, ?_, ?_⟩
    · show S0 ≤ grow s.top.size; omega
    · show grow s.top.size ≤ pageLimit; omega

theorem fillTop_serving (S0 ab : Nat) (packed : Bool) (s : DPool) (off n v : Nat) (hs : Serving S0 packed ab s) :
    Serving S0 packed ab (s.fillTop off n v) := by
  obtain ⟨h1, h2, h3, h4, h5⟩ := hs
  simp only [fillTop]
  cases hp : s.pages with
  | nil => exact ⟨h1, h2, h3, h4, h5⟩
  | cons p ps =>
    have : s.top = p := by simp [top, hp]
    rw [this] at h4 h5
    exact ⟨h1, h2, h3, by simpa [top] using h4, by simpa [top] using h5⟩

/-- one request smaller than the initial page (with its padding) is served, by the current page or
by a new one -/
theorem step_serves (grow : Nat → Nat) (fresh S0 ab : Nat) (packed : Bool) (s : DPool) (op : Op)
    (hg : ∀ c, c ≤ pageLimit → c ≤ grow c ∧ grow c ≤ pageLimit) (hs : Serving S0 packed ab s)
    (ha : IsAlloc op) (hn : reqSize op < S0) (hpad : reqSize op + padOf packed ab (reqSize op) ≤ S0) :
    (step grow fresh s op).1 ≠ none ∧ Serving S0 packed ab (step grow fresh s op).2 := by
  cases op with
  | malloc n r =>
    simp only [IsAlloc] at ha; subst ha
    exact malloc_serves grow fresh S0 ab packed s n hg hs hn hpad
  | calloc c k r =>
    simp only [IsAlloc] at ha; subst ha
    have := malloc_serves grow fresh S0 ab packed s (c * k) hg hs hn hpad
    simp only [step, calloc]
    cases hm : (malloc grow fresh s (c * k) false).1 with
    | none => exact (this.1 hm).elim
    | some a => exact ⟨by simp, fillTop_serving S0 ab packed _ _ _ _ this.2⟩
  | release p => exact ha.elim
  | reset => exact ha.elim
  | write off n v => exact ha.elim

/-- any sequence of such requests is served without a NULL, however long -/
theorem run_serves (grow : Nat → Nat) (fresh S0 ab : Nat) (packed : Bool)
    (hg : ∀ c, c ≤ pageLimit → c ≤ grow c ∧ grow c ≤ pageLimit) (ops : List Op) (s : DPool)
    (hs : Serving S0 packed ab s)
    (ha : ∀ op ∈ ops, IsAlloc op ∧ reqSize op < S0 ∧ reqSize op + padOf packed ab (reqSize op) ≤ S0) :
    (∀ o ∈ (run grow fresh s ops).1, o ≠ none) ∧ (run grow fresh s ops).1.length = ops.length := by
  induction ops generalizing s with
  | nil => simp [run]
  | cons op ops ih =>
    obtain ⟨a1, a2, a3⟩ := ha op (List.mem_cons_self ..)
    have h1 := step_serves grow fresh S0 ab packed s op hg hs a1 a2 a3
    have := ih (step grow fresh s op).2 h1.2 (fun o ho => ha o (List.mem_cons_of_mem _ ho))
    simp only [run, List.length_cons]
    refine ⟨?_, by rw [this.2]⟩
    intro o ho
    cases ho with
    | head => exact h1.1
    | tail _ ho' => exact this.1 o ho'

end DPool
end CC.Spec

/-! ## the concrete dynamic pool under an allocator that does not refuse -/
namespace CC.DynamicPool
open Spec (PPage PBlk)
open Spec.DPool (Op)

/-- the page allocator does not refuse: nothing is scheduled to fail, or the pool sits on the C library -/
def NoRefuse (s : DynamicPool) (m : Mem) : Prop := m.sched = [] ∨ s.triple = .libc

theorem noRefuse_alloc (s : DynamicPool) (m : Mem) (h : NoRefuse s m) : (m.allocT s.triple).1 = true := by
  rcases h with h | h
  · exact (Mem.allocT_nil m s.triple h).1
  · rw [h]; rfl

theorem malloc_sched_nil (grow : Nat → Nat) (fresh : Nat) (s : DynamicPool) (n : Nat) (m : Mem) (h : m.sched = []) :
    (malloc grow fresh s n m).2.2.sched = [] := by
  rcases malloc_cases grow fresh s n m _ rfl with ⟨_, e⟩ | ⟨_, _, e⟩ | ⟨_, _, _, e⟩ | ⟨_, _, _, _, _, _, e⟩ | ⟨_, _, _, _, _, _, e⟩ <;> rw [e]
  · exact h
  · exact h
  · exact h
  · exact (Mem.allocT_nil m s.triple h).2
  · exact (Mem.allocT_nil m s.triple h).2

/-- allocation requests keep a non-refusing allocator non-refusing, and their annotation is the
request itself with the refusal flag `false` -/
theorem alloc_step_noRefuse (grow : Nat → Nat) (fresh : Nat) (s : DynamicPool) (op : Op) (m : Mem)
    (h : NoRefuse s m) (ha : Spec.DPool.IsAlloc op) :
    NoRefuse (step grow fresh s op m).2.1 (step grow fresh s op m).2.2 ∧ annotate s op m = op := by
  have htr := step_triple grow fresh s op m
  have hal := noRefuse_alloc s m h
  cases op with
  | malloc n r =>
    simp only [Spec.DPool.IsAlloc] at ha; subst ha
    refine ⟨?_, by simp [annotate, hal]⟩
    rcases h with h | h
    · exact Or.inl (malloc_sched_nil grow fresh s n m h)
    · exact Or.inr (by rw [htr, h])
  | calloc c k r =>
    simp only [Spec.DPool.IsAlloc] at ha; subst ha
    refine ⟨?_, by simp [annotate, hal]⟩
    rcases h with h | h
    · left
      simp only [step, calloc]
      split
      · exact h
      · split
        · simp [malloc_sched_nil grow fresh s _ m h]
        · exact malloc_sched_nil grow fresh s _ m h
    · exact Or.inr (by rw [htr, h])
  | release p => exact ha.elim
  | reset => exact ha.elim
  | write off n v => exact ha.elim

theorem alloc_run_annot (grow : Nat → Nat) (fresh : Nat) (ops : List Op) (s : DynamicPool) (m : Mem)
    (h : NoRefuse s m) (ha : ∀ op ∈ ops, Spec.DPool.IsAlloc op) : (run grow fresh s ops m).2.1 = ops := by
  induction ops generalizing s m with
  | nil => rfl
  | cons op ops ih =>
    have h1 := alloc_step_noRefuse grow fresh s op m h (ha op (List.mem_cons_self ..))
    simp only [run]
    rw [h1.2, ih _ _ h1.1 (fun o ho => ha o (List.mem_cons_of_mem _ ho))]

/-- allocation requests meet the preconditions of `RunOk` (which only constrains user writes) -/
theorem alloc_runOk (grow : Nat → Nat) (fresh : Nat) (ops : List Op) (s : DynamicPool) (m : Mem)
    (ha : ∀ op ∈ ops, Spec.DPool.IsAlloc op) : RunOk grow fresh s ops m := by
  induction ops generalizing s m with
  | nil => trivial
  | cons op ops ih =>
    refine ⟨?_, ih _ _ (fun o ho => ha o (List.mem_cons_of_mem _ ho))⟩
    have := ha op (List.mem_cons_self ..)
    cases op <;> first | trivial | exact this.elim

end CC.DynamicPool
