import CollectionsC.Proofs.HashTableLedger
import CollectionsC.Proofs.HashTableIter
/-! History-level helpers for the hash table: an allocator that does not refuse keeps not refusing,
the capacity never shrinks, and a history reports no failure unless a refusal fired or the maximal
capacity was reached. -/
set_option maxHeartbeats 1600000
namespace CC.HashTable
open CC CC.HT CC.Spec
open CC.Spec.Map (Op Out)

theorem resize_sched_nil (c : HCfg) (t : HashTable) (n : Nat) (m : Mem) (h : m.sched = []) :
    (t.resize c n m).2.2.sched = [] := by
  have := allocT_nil m t.triple h
  unfold resize; split
  · exact h
  · simp only; split
    · exact this.2
    · simp [this.2]

theorem growLoop_sched_nil (c : HCfg) (fuel : Nat) (t : HashTable) (m : Mem) (h : m.sched = []) :
    (growLoop c fuel t m).2.2.sched = [] := by
  induction fuel generalizing t m with
  | zero => simp [growLoop, h]
  | succ fuel ih =>
    unfold growLoop; split
    · simp only; split
      · exact resize_sched_nil c t _ m h
      · exact ih _ _ (resize_sched_nil c t _ m h)
    · exact h

theorem add_sched_nil (c : HCfg) (t : HashTable) (k : Key) (v : Nat) (m : Mem) (h : m.sched = []) :
    (t.add c k v m).2.2.sched = [] := by
  have hg := growLoop_sched_nil c 64 t m h
  unfold add; simp only
  split
  · exact hg
  · split
    · simp [hg]
    · have := allocT_nil ((growLoop c 64 t m).2.2.check (decide ((growLoop c 64 t m).2.1.index (keyHash c k) < (growLoop c 64 t m).2.1.buckets.length)))
        (growLoop c 64 t m).2.1.triple (by simp [hg])
      split
      · exact this.2
      · exact this.2

theorem step_sched_nil (c : HCfg) (t : HashTable) (op : Op) (m : Mem) (h : m.sched = []) :
    (t.step c op m).2.2.sched = [] := by
  cases op with
  | add k v => exact add_sched_nil c t k v m h
  | get k => simp only [step]; rw [get_mem]; simp [h]
  | containsKey k => simp only [step, containsKey]; rw [get_mem]; simp [h]
  | remove k => simp only [step, remove]; split <;> simp [h]
  | removeAll => simp only [step]; rw [removeAll_mem]; simp [h]

/-- the capacity never shrinks -/
theorem step_capacity_le (c : HCfg) (t : HashTable) (op : Op) (m : Mem) (h : t.Inv c)
    (hl : t.size + 2 ≤ liveOf m t.triple) : t.capacity ≤ (t.step c op m).2.1.capacity := by
  cases op with
  | add k v =>
    obtain ⟨j, hj⟩ := (add_spec c t k v m h).2.2.2.2.1
    simp only [step]; rw [hj]; exact Nat.le_mul_of_pos_right _ (Nat.two_pow_pos j)
  | get k => exact Nat.le_refl _
  | containsKey k => exact Nat.le_refl _
  | remove k =>
    have := (remove_spec c t k m h (fun _ => by omega)).2.2.2.2.2.2.2.1
    simp only [step]; omega
  | removeAll =>
    have := (removeAll_spec c t m h (by omega)).2.2.2.1
    simp only [step]; omega

/-- one step with an allocator that does not refuse reports no failure unless the table then has
the maximal capacity -/
theorem step_no_failure (c : HCfg) (t : HashTable) (op : Op) (m : Mem) (h : t.Inv c) (hs : m.sched = [])
    (hcap : (t.step c op m).2.1.capacity ≠ Gen.MAX_POW_TWO) : failedOf op (t.step c op m).1 = none := by
  cases op with
  | add k v =>
    rcases add_ok_of_no_refusal c t k v m h hs with hok | ⟨_, hmax⟩
    · simp [step, failedOf, hok]
    · exact absurd hmax hcap
  | get k => rfl
  | containsKey k => rfl
  | remove k => rfl
  | removeAll => rfl

end CC.HashTable

namespace CC.HashTable
open CC CC.HT CC.Spec
open CC.Spec.Map (Op Out)

/-- the status and out-value of `cc_hashtable_remove` do not depend on the ledger -/
theorem remove_status (c : HCfg) (t : HashTable) (k : Key) (m : Mem) (h : t.Inv c) :
    (t.remove c k m).1 = (if (Map.lookup t.abs k).isSome then .ok else .errKeyNotFound) ∧
    (t.remove c k m).2.1 = Map.lookup t.abs k := by
  have hlk : Map.lookup t.abs k = (chainRemove (t.bucket (t.index (keyHash c k))) k).map (·.1) := by
    rw [abs_eq, lookup_map_pair, find_flat c t h.1 h.2.1 h.2.2.2.1 k, chainRemove_find]
  unfold remove; simp only
  rw [hlk]
  cases chainRemove (t.bucket (t.index (keyHash c k))) k with
  | none => simp
  | some r => simp

/-- every failure a history reports is pinned, under every schedule: an entry of the failure list is
`none`, or `CC_ERR_ALLOC`, or `CC_ERR_MAX_CAPACITY` — and the latter only in a history that ends with
the maximal capacity `2^31` (the capacity never shrinks) -/
theorem run_failures_pinned (c : HCfg) (ops : List Op) (t : HashTable) (m : Mem) (h : t.Inv c)
    (hl : t.size + 2 ≤ liveOf m t.triple) :
    (∀ f ∈ (t.run c ops m).2.1, f = none ∨ f = some .errAlloc ∨
        (f = some .errMaxCapacity ∧ (t.run c ops m).2.2.1.capacity = Gen.MAX_POW_TWO)) ∧
    t.capacity ≤ (t.run c ops m).2.2.1.capacity ∧ (t.run c ops m).2.2.1.capacity ≤ Gen.MAX_POW_TWO := by
  induction ops generalizing t m with
  | nil =>
    refine ⟨fun f hf => by simp [run] at hf, Nat.le_refl _, ?_⟩
    obtain ⟨k, hk, hc⟩ := h.1
    simp only [run]; rw [hc]
    have hM : Gen.MAX_POW_TWO = 2 ^ 31 := by decide
    rw [hM]; exact Nat.pow_le_pow_right (by omega) (by omega)
  | cons op ops ih =>
    have hinv' : (t.step c op m).2.1.Inv c ∧
        liveOf (t.step c op m).2.2 t.triple + t.size = liveOf m t.triple + (t.step c op m).2.1.size := by
      cases op with
      | add k v =>
        obtain ⟨a1, a2, a3, _⟩ := add_spec c t k v m h
        refine ⟨a1, ?_⟩
        by_cases hok : (t.add c k v m).1 = .ok
        · exact (a2 hok).2.2
        · have := a3 hok; simp only [step]; omega
      | get k => exact ⟨h, by simp only [step]; rw [(get_refines c t k m h).2.2]⟩
      | containsKey k => exact ⟨h, by simp only [step]; rw [(containsKey_refines c t k m h).2]⟩
      | remove k =>
        obtain ⟨p1, _, _, p4, p5, p6, _⟩ := remove_spec c t k m h (fun _ => by omega)
        refine ⟨p1, ?_⟩
        simp only [step]
        by_cases hok : (t.remove c k m).1 = .ok
        · have := p6 hok; omega
        · have := p5 hok; rw [this.1, this.2]
      | removeAll =>
        obtain ⟨r1, _, r3, _, _, r6, _⟩ := removeAll_spec c t m h (by omega)
        exact ⟨r1, by simp only [step]; omega⟩
    have hT := step_triple c t op m
    obtain ⟨i1, i2, i3⟩ := ih (t.step c op m).2.1 (t.step c op m).2.2 hinv'.1 (by rw [hT]; omega)
    have hle := step_capacity_le c t op m h hl
    simp only [run]
    refine ⟨?_, by omega, i3⟩
    intro f hf
    rcases List.mem_cons.mp hf with rfl | hf
    · cases op with
      | add k v =>
        simp only [step, failedOf]
        by_cases hok : (t.add c k v m).1 = .ok
        · left; rw [hok]
        · rcases ((add_spec c t k v m h).2.2.1 hok).1 with h1 | h1
          · right; left; rw [h1]
          · right; right
            refine ⟨by rw [h1], ?_⟩
            have hm := add_maxcap c t k v m h h1
            have i2' := i2
            have i3' := i3
            simp only [step] at i2' i3'
            omega
      | get k => left; rfl
      | containsKey k => left; rfl
      | remove k => left; rfl
      | removeAll => left; rfl
    · exact i1 f hf

end CC.HashTable
