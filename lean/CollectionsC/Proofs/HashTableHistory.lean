import CollectionsC.Proofs.HashTableLedger
import CollectionsC.Proofs.HashTableIter
/-! History-level helpers for the hash table: an allocator that does not refuse keeps not refusing,
the capacity never shrinks, and a history reports no failure unless a refusal fired or the maximal
capacity was reached. -/
set_option maxHeartbeats 1600000
namespace CC.HashTable
open CC CC.HT CC.Spec
open CC.Spec.Map (Op Out)

theorem resize_sched_nil (c : HCfg) (t : HashTable) (n : Nat) (m : Mem) (h : m.sched = []) :
    (t.resize c n m).2.2.sched = [] := by
  have := allocT_nil m t.triple h
  unfold resize; split
  · exact h
  · simp only; split
    · exact this.2
    · simp [this.2]

theorem growLoop_sched_nil (c : HCfg) (fuel : Nat) (t : HashTable) (m : Mem) (h : m.sched = []) :
    (growLoop c fuel t m).2.2.sched = [] := by
  induction fuel generalizing t m with
  | zero => simp [growLoop, h]
  | succ fuel ih =>
    unfold growLoop; split
    · simp only; split
      · exact resize_sched_nil c t _ m h
      · exact ih _ _ (resize_sched_nil c t _ m h)
    · exact h

theorem add_sched_nil (c : HCfg) (t : HashTable) (k : Key) (v : Nat) (m : Mem) (h : m.sched = []) :
    (t.add c k v m).2.2.sched = [] := by
  have hg := growLoop_sched_nil c 64 t m h
  unfold add; simp only
  split
  · exact hg
  · split
    · simp [hg]
    · have := allocT_nil ((growLoop c 64 t m).2.2.check (decide ((growLoop c 64 t m).2.1.index (keyHash c k) < (growLoop c 64 t m).2.1.buckets.length)))
        (growLoop c 64 t m).2.1.triple (by simp [hg])
      split
      · exact this.2
      · exact this.2

theorem step_sched_nil (c : HCfg) (t : HashTable) (op : Op) (m : Mem) (h : m.sched = []) :
    (t.step c op m).2.2.sched = [] := by
  cases op with
  | add k v => exact add_sched_nil c t k v m h
  | get k => simp only [step]; rw [get_mem]; simp [h]
  | containsKey k => simp only [step, containsKey]; rw [get_mem]; simp [h]
  | remove k => simp only [step, remove]; split <;> simp [h]
  | removeAll => simp only [step]; rw [removeAll_mem]; simp [h]

/-- the capacity never shrinks -/
theorem step_capacity_le (c : HCfg) (t : HashTable) (op : Op) (m : Mem) (h : t.Inv c)
    (hl : t.size + 2 ≤ liveOf m t.triple) : t.capacity ≤ (t.step c op m).2.1.capacity := by
  cases op with
  | add k v =>
    obtain ⟨j, hj⟩ := (add_spec c t k v m h).2.2.2.2.1
    simp only [step]; rw [hj]; exact Nat.le_mul_of_pos_right _ (Nat.two_pow_pos j)
  | get k => exact Nat.le_refl _
  | containsKey k => exact Nat.le_refl _
  | remove k =>
    have := (remove_spec c t k m h (fun _ => by omega)).2.2.2.2.2.2.2.1
    simp only [step]; omega
  | removeAll =>
    have := (removeAll_spec c t m h (by omega)).2.2.2.1
    simp only [step]; omega

/-- one step with an allocator that does not refuse reports no failure unless the table then has
the maximal capacity -/
theorem step_no_failure (c : HCfg) (t : HashTable) (op : Op) (m : Mem) (h : t.Inv c) (hs : m.sched = [])
    (hcap : (t.step c op m).2.1.capacity ≠ Gen.MAX_POW_TWO) : failedOf op (t.step c op m).1 = none := by
  cases op with
  | add k v =>
    rcases add_ok_of_no_refusal c t k v m h hs with hok | ⟨_, hmax⟩
    · simp [step, failedOf, hok]
    · exact absurd hmax hcap
  | get k => rfl
  | containsKey k => rfl
  | remove k => rfl
  | removeAll => rfl

end CC.HashTable
