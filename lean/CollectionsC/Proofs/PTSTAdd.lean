import CollectionsC.Proofs.PTST
/-! Pointer-level TST: `make_mid_subtree` and `cc_tsttable_add` against the annotated trie. -/
set_option linter.unusedSimpArgs false
set_option linter.unusedVariables false
namespace CC.PTST
open CC CC.TST

/-! ### the chain of `make_mid_subtree` -/

/-- the chain below the node `id` (character `c`): the remaining characters get the ids `f, f+1, …`; the last
node carries the entry -/
def chainI (e : Entry) (id c : Nat) : Key → Nat → INode
  | [], _ => .node id c (some e) .nil .nil .nil
  | x :: xs, f => .node id c none .nil (chainI e f x xs (f + 1)) .nil

/-- the annotated form of `mkChain`: ids `b, b+1, …` -/
def mkChainI (e : Entry) (b : Nat) (ks : Key) : INode := chainI e b (ks.headD 0) ks.tail (b + 1)

theorem erase_chainI (e : Entry) (id c : Nat) (xs : Key) (f : Nat) :
    (chainI e id c xs f).erase = mkChain e (c :: xs) := by
  induction xs generalizing id c f with
  | nil => simp [chainI, mkChain]
  | cons x xs ih => simp only [chainI, INode.erase_node, INode.erase_nil, ih, mkChain]

theorem erase_mkChainI (e : Entry) (b : Nat) (ks : Key) : (mkChainI e b ks).erase = mkChain e ks := by
  cases ks with
  | nil => simp [mkChainI, chainI, mkChain]
  | cons x xs => simp only [mkChainI, List.headD_cons, List.tail_cons]; exact erase_chainI e b x xs (b + 1)

theorem rid_chainI (e : Entry) (id c : Nat) (xs : Key) (f : Nat) : (chainI e id c xs f).rid = id := by
  cases xs <;> rfl

theorem mem_ids_chainI (e : Entry) (id c : Nat) (xs : Key) (f : Nat) (j : Nat) :
    j ∈ (chainI e id c xs f).ids ↔ j = id ∨ (f ≤ j ∧ j < f + xs.length) := by
  induction xs generalizing id c f with
  | nil => simp [chainI]; omega
  | cons x xs ih =>
    simp only [chainI, INode.ids_node, INode.ids_nil, List.nil_append, List.append_nil, List.mem_cons, ih,
      List.length_cons]
    omega

theorem nodup_chainI (e : Entry) (id c : Nat) (xs : Key) (f : Nat) (h : id < f) : (chainI e id c xs f).ids.Nodup := by
  induction xs generalizing id c f with
  | nil => simp [chainI]
  | cons x xs ih =>
    simp only [chainI, INode.ids_node, INode.ids_nil, List.nil_append, List.append_nil, List.nodup_cons]
    refine ⟨?_, ih f x (f + 1) (by omega)⟩
    rw [mem_ids_chainI]; omega

theorem length_ids_chainI (e : Entry) (id c : Nat) (xs : Key) (f : Nat) :
    (chainI e id c xs f).ids.length = xs.length + 1 := by
  induction xs generalizing id c f with
  | nil => simp [chainI]
  | cons x xs ih => simp only [chainI, INode.ids_node, INode.ids_nil, List.nil_append, List.append_nil,
      List.length_cons, ih]

/-- **`make_mid_subtree`'s loop followed by `end->data = entry`** builds the chain: representation, frame,
next serial, allocated blocks -/
theorem chainLoop_rep (e : Entry) : ∀ (xs : Key) (h : Heap) (node fresh c0 par0 : Nat),
    node ≠ 0 → node < fresh → h.get node = { c := c0, parent := par0 } →
    Rep (setData (chainLoop h node fresh xs).1 (chainLoop h node fresh xs).2.1 (some e))
      (chainI e node c0 xs fresh) par0 ∧
    (∀ j, j ≠ node → (j < fresh ∨ fresh + xs.length ≤ j) →
      (setData (chainLoop h node fresh xs).1 (chainLoop h node fresh xs).2.1 (some e)).get j = h.get j) ∧
    (chainLoop h node fresh xs).2.2 = fresh + xs.length ∧
    (∀ j, (setData (chainLoop h node fresh xs).1 (chainLoop h node fresh xs).2.1 (some e)).has j = true ↔
      (h.has j = true ∨ j = node ∨ (fresh ≤ j ∧ j < fresh + xs.length))) := by
  intro xs
  induction xs with
  | nil =>
    intro h node fresh c0 par0 hn hlt hg
    simp only [chainLoop, chainI, List.length_nil, Nat.add_zero]
    refine ⟨⟨hn, by rw [get_setData]; simp [hg], trivial, trivial, trivial⟩, ?_, trivial, ?_⟩
    · intro j hj _; rw [get_setData]; simp [hj]
    · intro j; unfold setData; rw [Heap.has_set]
      simp only [Bool.or_eq_true, beq_iff_eq]
      constructor
      · rintro (h1 | h1)
        · exact Or.inr (Or.inl h1)
        · exact Or.inl h1
      · rintro (h1 | h1 | h1)
        · exact Or.inr h1
        · exact Or.inl h1
        · omega
  | cons x xs ih =>
    intro h node fresh c0 par0 hn hlt hg
    simp only [chainLoop, chainI, List.length_cons]
    have hne : fresh ≠ node := by omega
    have hg2 : ((setMid h node fresh).set fresh { c := x, parent := node }).get fresh = { c := x, parent := node } := by
      rw [Heap.get_set]; simp
    obtain ⟨i1, i2, i3, i4⟩ := ih ((setMid h node fresh).set fresh { c := x, parent := node }) fresh (fresh + 1) x node
      (by omega) (by omega) hg2
    refine ⟨⟨hn, ?_, trivial, ?_, trivial⟩, ?_, by rw [i3]; omega, ?_⟩
    · rw [i2 node (by omega) (Or.inl (by omega)), Heap.get_set, get_setMid]
      simp [Ne.symm hne, hg, rid_chainI]
    · exact i1
    · intro j hj hr
      rw [i2 j (by omega) (by omega), Heap.get_set, get_setMid]
      have : j ≠ fresh := by omega
      simp [this, hj]
    · intro j
      rw [i4 j, Heap.has_set]
      unfold setMid; rw [Heap.has_set]
      simp only [Bool.or_eq_true, beq_iff_eq]
      constructor
      · rintro ((h1 | h1 | h1) | h1 | h1)
        · exact Or.inr (Or.inr (by omega))
        · exact Or.inr (Or.inl h1)
        · exact Or.inl h1
        · exact Or.inr (Or.inr (by omega))
        · exact Or.inr (Or.inr (by omega))
      · rintro (h1 | h1 | h1)
        · exact Or.inl (Or.inr (Or.inr h1))
        · exact Or.inl (Or.inr (Or.inl h1))
        · by_cases h2 : j = fresh
          · exact Or.inl (Or.inl h2)
          · exact Or.inr (Or.inr (by omega))

/-- the same represented subtree under another heap that differs only in the `parent` field of its root -/
theorem Rep.reparentRoot {h h' : Heap} {id c : Nat} {d : Option Entry} {l m r : INode} {p p' : Nat}
    (hr : Rep h (.node id c d l m r) p) (hnd : (INode.node id c d l m r).ids.Nodup)
    (hroot : h'.get id = { h.get id with parent := p' }) (hrest : ∀ j, j ≠ id → h'.get j = h.get j) :
    Rep h' (.node id c d l m r) p' := by
  obtain ⟨h1, h2, h3, h4, h5⟩ := hr
  simp only [INode.ids_node, List.nodup_cons, List.mem_append, not_or] at hnd
  obtain ⟨⟨⟨hil, him⟩, hir⟩, _⟩ := hnd
  have fr : ∀ s : INode, id ∉ s.ids → ∀ j ∈ s.ids, h'.get j = h.get j :=
    fun s hs j hj => hrest j (fun e => hs (e ▸ hj))
  exact ⟨h1, by rw [hroot, h2], h3.frame (fr l hil), h4.frame (fr m him), h5.frame (fr r hir)⟩

/-- the heap after `make_mid_subtree`, `begin->parent = last_parent`, `end->data = entry` -/
def chainHeap (h : Heap) (b par : Nat) (e : Entry) (sfx : Key) : Heap × Nat :=
  let ch := chainLoop (h.set b { c := sfx.headD 0 }) b (b + 1) sfx.tail
  (setData (setParent ch.1 b par) ch.2.1 (some e), ch.2.2)

theorem chainHeap_rep (h : Heap) (b par : Nat) (e : Entry) (sfx : Key) (hb : b ≠ 0) :
    Rep (chainHeap h b par e sfx).1 (mkChainI e b sfx) par ∧
    (∀ j, (j < b ∨ b + chainLen sfx ≤ j) → (chainHeap h b par e sfx).1.get j = h.get j) ∧
    (chainHeap h b par e sfx).2 = b + chainLen sfx ∧
    (∀ j, (chainHeap h b par e sfx).1.has j = true ↔ (h.has j = true ∨ (b ≤ j ∧ j < b + chainLen sfx))) := by
  have hlen : chainLen sfx = sfx.tail.length + 1 := by
    cases sfx <;> simp [chainLen]
  have hg0 : (h.set b { c := sfx.headD 0 }).get b = { c := sfx.headD 0, parent := 0 } := by
    rw [Heap.get_set]; simp
  obtain ⟨c1, c2, c3, c4⟩ := chainLoop_rep e sfx.tail (h.set b { c := sfx.headD 0 }) b (b + 1) (sfx.headD 0) 0 hb
    (by omega) hg0
  unfold chainHeap
  simp only []
  generalize chainLoop (h.set b { c := sfx.headD 0 }) b (b + 1) sfx.tail = ch at c1 c2 c3 c4 ⊢
  obtain ⟨H, en, fr⟩ := ch
  simp only at c1 c2 c3 c4 ⊢
  -- the heap in the C order differs from the one of `chainLoop_rep` only in the parent field of `b`
  have hget : ∀ j, (setData (setParent H b par) en (some e)).get j =
      if j = b then { (setData H en (some e)).get b with parent := par } else (setData H en (some e)).get j := by
    intro j
    simp only [get_setData, get_setParent]
    by_cases h1 : j = b <;> by_cases h2 : j = en <;> by_cases h3 : b = en <;> simp_all
  have hhas : ∀ j, (setData (setParent H b par) en (some e)).has j = true ↔ (setData H en (some e)).has j = true := by
    intro j
    have hb' := (c4 b).mpr (Or.inr (Or.inl rfl))
    simp only [setData, setParent, Heap.has_set, Bool.or_eq_true, beq_iff_eq] at hb' ⊢
    constructor
    · rintro (h1 | h1 | h1)
      · exact Or.inl h1
      · subst h1; exact hb'
      · exact Or.inr h1
    · rintro (h1 | h1)
      · exact Or.inl h1
      · exact Or.inr (Or.inr h1)
  refine ⟨?_, ?_, by rw [c3, hlen]; omega, ?_⟩
  · unfold mkChainI
    have hnd := nodup_chainI e b (sfx.headD 0) sfx.tail (b + 1) (by omega)
    cases hx : sfx.tail with
    | nil =>
      rw [hx] at c1 hnd
      exact Rep.reparentRoot c1 hnd (by rw [hget]; simp) (fun j hj => by rw [hget]; simp [hj])
    | cons x xs =>
      rw [hx] at c1 hnd
      exact Rep.reparentRoot c1 hnd (by rw [hget]; simp) (fun j hj => by rw [hget]; simp [hj])
  · intro j hj
    have hjb : j ≠ b := by omega
    rw [hget]; simp only [hjb, if_false]
    rw [c2 j hjb (by omega), Heap.get_set]; simp [hjb]
  · intro j
    rw [hhas, c4, Heap.has_set]
    simp only [Bool.or_eq_true, beq_iff_eq]
    constructor
    · rintro ((h1 | h1) | h1 | h1)
      · exact Or.inr (by omega)
      · exact Or.inl h1
      · exact Or.inr (by omega)
      · exact Or.inr (by omega)
    · rintro (h1 | h1)
      · exact Or.inl (Or.inr h1)
      · by_cases h2 : j = b
        · exact Or.inr (Or.inl h2)
        · exact Or.inr (Or.inr (by omega))

/-! ### insertion on the annotated trie -/

/-- `insPure` with node ids: new nodes get the serials `fresh, fresh+1, …` (top-down along `mid`); `i` is
the number of characters of `key` already matched -/
def insI (cmp : Cmp) (key : Key) (e : Entry) (fresh : Nat) : INode → Nat → INode
  | .nil, i => mkChainI e fresh (key.drop i)
  | .node id c d l m r, i =>
    if ¬ i < key.length then .node id c (some e) l m r
    else
      match cmp (key.getD i 0) c with
      | .lt => .node id c d (insI cmp key e fresh l i) m r
      | .gt => .node id c d l m (insI cmp key e fresh r i)
      | .eq =>
        if i + 1 = key.length then .node id c (some e) l m r
        else .node id c d l (insI cmp key e fresh m (i + 1)) r

/-- number of nodes `insI` allocates -/
def newCnt (cmp : Cmp) (key : Key) : INode → Nat → Nat
  | .nil, i => chainLen (key.drop i)
  | .node _ c _ l m r, i =>
    if ¬ i < key.length then 0
    else
      match cmp (key.getD i 0) c with
      | .lt => newCnt cmp key l i
      | .gt => newCnt cmp key r i
      | .eq => if i + 1 = key.length then 0 else newCnt cmp key m (i + 1)

theorem drop_cons_getD (key : Key) (i : Nat) (h : i < key.length) :
    key.drop i = key.getD i 0 :: key.drop (i + 1) := by
  rw [List.drop_eq_getElem_cons h]; simp [List.getD_eq_getElem?_getD, List.getElem?_eq_getElem h]

/-- **`insI` is `insPure` on the underlying trie** -/
theorem erase_insI (cmp : Cmp) (key : Key) (e : Entry) (fresh : Nat) : ∀ (s : INode) (i : Nat), i ≤ key.length →
    (insI cmp key e fresh s i).erase = s.erase.insPure cmp e (key.drop i) := by
  intro s
  induction s with
  | nil => intro i _; simp only [insI, INode.erase_nil, Node.insPure]; exact erase_mkChainI e fresh _
  | node id c d l m r ihl ihm ihr =>
    intro i hi
    simp only [insI]
    by_cases hm : i < key.length
    · simp only [hm, not_true_eq_false, if_false]
      rw [drop_cons_getD key i hm]
      simp only [INode.erase_node, Node.insPure]
      cases hc : cmp (key.getD i 0) c <;> simp only []
      · rw [INode.erase_node, ihl i hi, drop_cons_getD key i hm]
      · by_cases he : i + 1 = key.length
        · have : key.drop (i + 1) = [] := by rw [he]; simp
          simp [he, this]
        · have hne : key.drop (i + 1) ≠ [] := by
            intro h; have := List.drop_eq_nil_iff.mp h; omega
          simp only [he, if_false, INode.erase_node]
          cases hk : key.drop (i + 1) with
          | nil => exact absurd hk hne
          | cons y ys => simp only []; rw [← hk, ihm (i + 1) (by omega)]
      · rw [INode.erase_node, ihr i hi, drop_cons_getD key i hm]
    · have he : i = key.length := by omega
      simp only [hm, not_false_eq_true, if_true, INode.erase_node]
      rw [he]; simp [Node.insPure]

theorem rid_mkChainI (e : Entry) (b : Nat) (ks : Key) : (mkChainI e b ks).rid = b := rid_chainI _ _ _ _ _

theorem rid_insI (cmp : Cmp) (key : Key) (e : Entry) (fresh : Nat) (s : INode) (i : Nat) :
    (insI cmp key e fresh s i).rid = if s = .nil then fresh else s.rid := by
  cases s with
  | nil => simp [insI, rid_mkChainI]
  | node id c d l m r =>
    simp only [insI, reduceCtorEq, if_false, INode.rid_node]
    split
    · rfl
    · cases cmp (key.getD i 0) c <;> simp only [] <;> first | rfl | (split <;> rfl)

theorem mem_ids_mkChainI (e : Entry) (b : Nat) (ks : Key) (j : Nat) :
    j ∈ (mkChainI e b ks).ids ↔ (b ≤ j ∧ j < b + chainLen ks) := by
  unfold mkChainI
  rw [mem_ids_chainI]
  have : chainLen ks = ks.tail.length + 1 := by cases ks <;> simp [chainLen]
  omega

theorem mem_ids_insI (cmp : Cmp) (key : Key) (e : Entry) (fresh : Nat) : ∀ (s : INode) (i j : Nat),
    j ∈ (insI cmp key e fresh s i).ids ↔ (j ∈ s.ids ∨ (fresh ≤ j ∧ j < fresh + newCnt cmp key s i)) := by
  intro s
  induction s with
  | nil => intro i j; simp [insI, newCnt, mem_ids_mkChainI]
  | node id c d l m r ihl ihm ihr =>
    intro i j
    simp only [insI, newCnt]
    by_cases hm : i < key.length
    · simp only [hm, not_true_eq_false, if_false]
      cases hc : cmp (key.getD i 0) c <;> simp only []
      · simp only [INode.ids_node, List.mem_cons, List.mem_append, ihl]; grind
      · by_cases he : i + 1 = key.length
        · simp [he]; omega
        · simp only [he, if_false, INode.ids_node, List.mem_cons, List.mem_append, ihm]; grind
      · simp only [INode.ids_node, List.mem_cons, List.mem_append, ihr]; grind
    · simp [hm]; omega

theorem nodup_insI (cmp : Cmp) (key : Key) (e : Entry) (fresh : Nat) : ∀ (s : INode) (i : Nat),
    s.ids.Nodup → (∀ j ∈ s.ids, j < fresh) → (insI cmp key e fresh s i).ids.Nodup := by
  intro s
  induction s with
  | nil => intro i _ _; exact nodup_chainI _ _ _ _ _ (by omega)
  | node id c d l m r ihl ihm ihr =>
    intro i hnd hlt
    have hnd0 := hnd
    simp only [INode.ids_node, List.nodup_cons, List.mem_append, not_or, List.nodup_append] at hnd
    obtain ⟨⟨⟨hil, him⟩, hir⟩, ⟨⟨ndl, ndm, dlm⟩, ndr, dlr⟩⟩ := hnd
    have hl' : ∀ j ∈ l.ids, j < fresh := fun j hj => hlt j (by simp [hj])
    have hm' : ∀ j ∈ m.ids, j < fresh := fun j hj => hlt j (by simp [hj])
    have hr' : ∀ j ∈ r.ids, j < fresh := fun j hj => hlt j (by simp [hj])
    have hid : id < fresh := hlt id (by simp)
    simp only [insI]
    by_cases hmm : i < key.length
    · simp only [hmm, not_true_eq_false, if_false]
      cases hc : cmp (key.getD i 0) c <;> simp only []
      · have := ihl i ndl hl'
        simp only [INode.ids_node, List.nodup_cons, List.mem_append, not_or, List.nodup_append, mem_ids_insI]
        grind
      · by_cases he : i + 1 = key.length
        · simp only [he, if_true]; exact hnd0
        · have := ihm (i + 1) ndm hm'
          simp only [he, if_false, INode.ids_node, List.nodup_cons, List.mem_append, not_or, List.nodup_append,
            mem_ids_insI]
          grind
      · have := ihr i ndr hr'
        simp only [INode.ids_node, List.nodup_cons, List.mem_append, not_or, List.nodup_append, mem_ids_insI]
        grind
    · simp only [hmm, not_false_eq_true, if_true]; exact hnd0

/-! ### the heap surgery of `cc_tsttable_add` -/

/-- `*slot = v` on the heap (the root field lives in the table header) -/
def storeH (h : Heap) : Slot → Nat → Heap
  | .root, _ => h
  | .left n, v => setLeft h n v
  | .mid n, v => setMid h n v
  | .right n, v => setRight h n v

/-- the heap after the part of `cc_tsttable_add` that follows `get_last_node` -/
def finishH (h : Heap) (root fresh : Nat) (key : Key) (v : Nat) (r : Last) : Heap :=
  if deref h root r.slot ≠ 0 then setData h (deref h root r.slot) (some (key, v))
  else storeH (chainHeap h fresh r.parent (key, v) (key.drop r.matched)).1 r.slot fresh

/-- the slot is the table's root field (`p = 0`) or a child field of the node `p` -/
def SlotOf (s : Slot) (p : Nat) : Prop :=
  (s = .root ∧ p = 0) ∨ s = .left p ∨ s = .mid p ∨ s = .right p

theorem get_storeH (h : Heap) (s : Slot) (p v j : Nat) (hs : SlotOf s p) (hj : j ≠ p) :
    (storeH h s v).get j = h.get j := by
  rcases hs with ⟨hs, _⟩ | hs | hs | hs <;> rw [hs]
  · rfl
  · simp [storeH, get_setLeft, hj]
  · simp [storeH, get_setMid, hj]
  · simp [storeH, get_setRight, hj]

/-- **the descent followed by the final assignments builds `insI`** below any represented subtree -/
theorem add_sub (cmp : Cmp) (key : Key) (v : Nat) (h : Heap) (root fresh : Nat) (hf : fresh ≠ 0) :
    ∀ (s : INode) (p : Nat) (r : Last), Rep h s p → s.ids.Nodup → (∀ i ∈ s.ids, i < fresh) → p < fresh →
      deref h root r.slot = s.rid → SlotOf r.slot p → r.parent = p →
      Rep (finishH h root fresh key v (descI cmp key s r).1) (insI cmp key (key, v) fresh s r.matched) p ∧
      (∀ j, j ∉ s.ids → (j < fresh ∨ fresh + newCnt cmp key s r.matched ≤ j) →
        (finishH h root fresh key v (descI cmp key s r).1).get j =
          (if s = .nil then storeH h r.slot fresh else h).get j) := by
  intro s
  induction s with
  | nil =>
    intro p r _ _ _ hp hd hs hpar
    have hz : deref h root r.slot = 0 := hd
    simp only [descI, finishH, hz, ne_eq, not_true_eq_false, if_false, insI, newCnt, if_true]
    obtain ⟨c1, c2, c3, c4⟩ := chainHeap_rep h fresh r.parent (key, v) (key.drop r.matched) hf
    rw [hpar] at c1 c2 ⊢
    refine ⟨?_, ?_⟩
    · apply c1.frame
      intro i hi
      rw [mem_ids_mkChainI] at hi
      exact get_storeH _ _ p _ _ hs (by omega)
    · intro j _ hj
      by_cases hjp : j = p
      · subst hjp
        rcases hs with ⟨hs, _⟩ | hs | hs | hs <;> rw [hs]
        · simp only [storeH]; exact c2 j hj
        · simp only [storeH, get_setLeft, if_true]; rw [c2 j hj]
        · simp only [storeH, get_setMid, if_true]; rw [c2 j hj]
        · simp only [storeH, get_setRight, if_true]; rw [c2 j hj]
      · rw [get_storeH _ _ p _ _ hs hjp, get_storeH _ _ p _ _ hs hjp]; exact c2 j hj
  | node id c d l m r' ihl ihm ihr =>
    intro p r hr hnd hlt hp hd hs hpar
    have hr0 := hr
    obtain ⟨h1, h2, h3, h4, h5⟩ := hr
    have hnd0 := hnd
    simp only [INode.ids_node, List.nodup_cons, List.mem_append, not_or, List.nodup_append] at hnd
    obtain ⟨⟨⟨hil, him⟩, hir⟩, ⟨⟨ndl, ndm, dlm⟩, ndr, dlr⟩⟩ := hnd
    have hl' : ∀ j ∈ l.ids, j < fresh := fun j hj => hlt j (by simp [hj])
    have hm' : ∀ j ∈ m.ids, j < fresh := fun j hj => hlt j (by simp [hj])
    have hr' : ∀ j ∈ r'.ids, j < fresh := fun j hj => hlt j (by simp [hj])
    have hid : id < fresh := hlt id (by simp)
    simp only [INode.rid_node] at hd
    -- the two ways the descent can end at this node
    have hhere : ∀ r0 : Last, deref h root r0.slot = id →
        Rep (finishH h root fresh key v r0) (.node id c (some (key, v)) l m r') p ∧
        (∀ j, j ∉ (INode.node id c d l m r').ids → (finishH h root fresh key v r0).get j = h.get j) := by
      intro r0 hd0
      simp only [finishH, hd0, ne_eq, h1, not_false_eq_true, if_true]
      have fr : ∀ s : INode, id ∉ s.ids → ∀ j ∈ s.ids, (setData h id (some (key, v))).get j = h.get j := by
        intro s hs j hj
        rw [get_setData]; have : j ≠ id := fun e => hs (e ▸ hj); simp [this]
      refine ⟨⟨h1, by rw [get_setData]; simp [h2], h3.frame (fr l hil), h4.frame (fr m him), h5.frame (fr r' hir)⟩, ?_⟩
      intro j hj
      simp only [INode.ids_node, List.mem_cons, not_or] at hj
      rw [get_setData]; simp [hj.1]
    simp only [descI, insI, newCnt, reduceCtorEq, if_false]
    by_cases hm : r.matched < key.length
    · simp only [hm, not_true_eq_false, if_false]
      cases hc : cmp (key.getD r.matched 0) c <;> simp only []
      · -- left
        obtain ⟨i1, i2⟩ := ihl id { r with parent := id, slot := .left id } h3 ndl hl' hid
          (by simp [deref, h2]) (Or.inr (Or.inl rfl)) rfl
        have hrec : (finishH h root fresh key v (descI cmp key l { r with parent := id, slot := .left id }).1).get id =
            { c := c, data := d, parent := p, left := (insI cmp key (key, v) fresh l r.matched).rid,
              mid := m.rid, right := r'.rid } := by
          rw [i2 id hil (Or.inl hid), rid_insI]
          by_cases hln : l = .nil
          · subst hln; simp [storeH, get_setLeft, h2]
          · simp [hln, h2]
        have fr : ∀ s : INode, (∀ j ∈ s.ids, j ∉ l.ids) → id ∉ s.ids → (∀ j ∈ s.ids, j < fresh) → ∀ j ∈ s.ids,
            (finishH h root fresh key v (descI cmp key l { r with parent := id, slot := .left id }).1).get j = h.get j := by
          intro s hs hids hlts j hj
          rw [i2 j (hs j hj) (Or.inl (hlts j hj))]
          have hji : j ≠ id := fun e => hids (e ▸ hj)
          by_cases hln : l = .nil
          · simp [hln, storeH, get_setLeft, hji]
          · simp [hln]
        refine ⟨⟨h1, hrec, i1, h4.frame (fr m (fun j hj hjl => dlm j hjl j hj rfl) him hm'),
          h5.frame (fr r' (fun j hj hjl => dlr j (Or.inl hjl) j hj rfl) hir hr')⟩, ?_⟩
        intro j hj hrange
        simp only [INode.ids_node, List.mem_cons, List.mem_append, not_or] at hj
        rw [i2 j hj.2.1.1 hrange]
        by_cases hln : l = .nil
        · simp [hln, storeH, get_setLeft, hj.1]
        · simp [hln]
      · -- equal
        by_cases he : r.matched + 1 = key.length
        · simp only [he, if_true]
          obtain ⟨g1, g2⟩ := hhere { r with matched := key.length } hd
          exact ⟨g1, fun j hj _ => g2 j hj⟩
        · simp only [he, if_false]
          obtain ⟨i1, i2⟩ := ihm id { parent := id, slot := .mid id, matched := r.matched + 1 } h4 ndm hm' hid
            (by simp [deref, h2]) (Or.inr (Or.inr (Or.inl rfl))) rfl
          have hrec : (finishH h root fresh key v (descI cmp key m { parent := id, slot := .mid id, matched := r.matched + 1 }).1).get id =
              { c := c, data := d, parent := p, left := l.rid,
                mid := (insI cmp key (key, v) fresh m (r.matched + 1)).rid, right := r'.rid } := by
            rw [i2 id him (Or.inl hid), rid_insI]
            by_cases hln : m = .nil
            · subst hln; simp [storeH, get_setMid, h2]
            · simp [hln, h2]
          have fr : ∀ s : INode, (∀ j ∈ s.ids, j ∉ m.ids) → id ∉ s.ids → (∀ j ∈ s.ids, j < fresh) → ∀ j ∈ s.ids,
              (finishH h root fresh key v (descI cmp key m { parent := id, slot := .mid id, matched := r.matched + 1 }).1).get j = h.get j := by
            intro s hs hids hlts j hj
            rw [i2 j (hs j hj) (Or.inl (hlts j hj))]
            have hji : j ≠ id := fun e => hids (e ▸ hj)
            by_cases hln : m = .nil
            · simp [hln, storeH, get_setMid, hji]
            · simp [hln]
          refine ⟨⟨h1, hrec, h3.frame (fr l (fun j hj hjm => dlm j hj j hjm rfl) hil hl'), i1,
            h5.frame (fr r' (fun j hj hjm => dlr j (Or.inr hjm) j hj rfl) hir hr')⟩, ?_⟩
          intro j hj hrange
          simp only [INode.ids_node, List.mem_cons, List.mem_append, not_or] at hj
          rw [i2 j hj.2.1.2 hrange]
          by_cases hln : m = .nil
          · simp [hln, storeH, get_setMid, hj.1]
          · simp [hln]
      · -- right
        obtain ⟨i1, i2⟩ := ihr id { r with parent := id, slot := .right id } h5 ndr hr' hid
          (by simp [deref, h2]) (Or.inr (Or.inr (Or.inr rfl))) rfl
        have hrec : (finishH h root fresh key v (descI cmp key r' { r with parent := id, slot := .right id }).1).get id =
            { c := c, data := d, parent := p, left := l.rid, mid := m.rid,
              right := (insI cmp key (key, v) fresh r' r.matched).rid } := by
          rw [i2 id hir (Or.inl hid), rid_insI]
          by_cases hln : r' = .nil
          · subst hln; simp [storeH, get_setRight, h2]
          · simp [hln, h2]
        have fr : ∀ s : INode, (∀ j ∈ s.ids, j ∉ r'.ids) → id ∉ s.ids → (∀ j ∈ s.ids, j < fresh) → ∀ j ∈ s.ids,
            (finishH h root fresh key v (descI cmp key r' { r with parent := id, slot := .right id }).1).get j = h.get j := by
          intro s hs hids hlts j hj
          rw [i2 j (hs j hj) (Or.inl (hlts j hj))]
          have hji : j ≠ id := fun e => hids (e ▸ hj)
          by_cases hln : r' = .nil
          · simp [hln, storeH, get_setRight, hji]
          · simp [hln]
        refine ⟨⟨h1, hrec, h3.frame (fr l (fun j hj hjr => dlr j (Or.inl hj) j hjr rfl) hil hl'),
          h4.frame (fr m (fun j hj hjr => dlr j (Or.inr hj) j hjr rfl) him hm'), i1⟩, ?_⟩
        intro j hj hrange
        simp only [INode.ids_node, List.mem_cons, List.mem_append, not_or] at hj
        rw [i2 j hj.2.2 hrange]
        by_cases hln : r' = .nil
        · simp [hln, storeH, get_setRight, hj.1]
        · simp [hln]
    · simp only [hm, not_false_eq_true, if_true]
      obtain ⟨g1, g2⟩ := hhere r hd
      exact ⟨g1, fun j hj _ => g2 j hj⟩

/-! ### facts about where the descent ends -/

theorem descI_facts (cmp : Cmp) (key : Key) : ∀ (s : INode) (p : Nat) (r : Last), SlotOf r.slot p → r.parent = p →
    -- the final slot belongs to the final parent, which is the initial one or a node of `s`
    SlotOf (descI cmp key s r).1.slot (descI cmp key s r).1.parent ∧
    ((descI cmp key s r).1.parent = p ∨ (descI cmp key s r).1.parent ∈ s.ids) ∧
    -- the subtree it ends at is part of `s`
    (∀ j ∈ (descI cmp key s r).2.ids, j ∈ s.ids) ∧
    -- it ends at the table's root field only if it never left it
    ((descI cmp key s r).1.slot = .root → (descI cmp key s r).2 = s) ∧
    -- what `insI` allocates and whether it adds an entry
    newCnt cmp key s r.matched =
      (if (descI cmp key s r).2 = .nil then chainLen (key.drop (descI cmp key s r).1.matched) else 0) ∧
    (insI cmp key (key, v) fresh s r.matched).erase.marked =
      s.erase.marked + (if (descI cmp key s r).2.data?.isSome then 0 else 1) ∧
    (insI cmp key (key, v) fresh s r.matched).ids.length = s.ids.length + newCnt cmp key s r.matched := by
  intro s
  induction s with
  | nil =>
    intro p r hs hp
    simp only [descI, INode.ids_nil, newCnt, if_true, insI, INode.data?, INode.erase_nil, Node.marked]
    refine ⟨by rw [hp]; exact hs, Or.inl hp, fun j hj => hj, fun _ => trivial, trivial, ?_, ?_⟩
    · rw [erase_mkChainI, marked_mkChain]; simp
    · unfold mkChainI; rw [length_ids_chainI]
      cases key.drop r.matched <;> simp [chainLen]
  | node id c d l m r' ihl ihm ihr =>
    intro p r hs hp
    have hhere : ∀ r0 : Last, SlotOf r0.slot p → r0.parent = p → r0.slot = r.slot →
        SlotOf r0.slot r0.parent ∧ (r0.parent = p ∨ r0.parent ∈ (INode.node id c d l m r').ids) ∧
        (∀ j ∈ (INode.node id c d l m r').ids, j ∈ (INode.node id c d l m r').ids) ∧
        (r0.slot = .root → INode.node id c d l m r' = INode.node id c d l m r') ∧
        0 = (if INode.node id c d l m r' = .nil then chainLen (key.drop r0.matched) else 0) ∧
        (INode.node id c (some (key, v)) l m r').erase.marked =
          (INode.node id c d l m r').erase.marked + (if (INode.node id c d l m r').data?.isSome then 0 else 1) ∧
        (INode.node id c (some (key, v)) l m r').ids.length = (INode.node id c d l m r').ids.length + 0 := by
      intro r0 h0 h0' _
      refine ⟨by rw [h0']; exact h0, Or.inl h0', fun j hj => hj, fun _ => rfl, by simp, ?_, by simp⟩
      cases d <;> simp [Node.marked, INode.data?] <;> omega
    simp only [descI, newCnt, insI]
    by_cases hm : r.matched < key.length
    · simp only [hm, not_true_eq_false, if_false]
      cases hc : cmp (key.getD r.matched 0) c <;> simp only []
      · obtain ⟨a1, a2, a3, a4, a5, a6, a7⟩ := ihl id { r with parent := id, slot := .left id } (Or.inr (Or.inl rfl)) rfl
        refine ⟨a1, ?_, fun j hj => by simp [a3 j hj], fun h => ?_, a5, ?_, ?_⟩
        · rcases a2 with a2 | a2
          · exact Or.inr (by rw [a2]; simp)
          · exact Or.inr (by simp [a2])
        · have := a4 h
          exfalso
          -- the slot `.left id` is not the root field
          have hs2 : (descI cmp key l { r with parent := id, slot := .left id }).1.slot = .root := h
          clear this
          have key' : ∀ (s : INode) (r : Last), r.slot ≠ .root → (descI cmp key s r).1.slot ≠ .root := by
            intro s
            induction s with
            | nil => intro r hr; simpa [descI] using hr
            | node id c d l m r' ihl ihm ihr =>
              intro r hr
              simp only [descI]
              split
              · exact hr
              · cases cmp (key.getD r.matched 0) c <;> simp only []
                · exact ihl _ (by simp)
                · split
                  · exact hr
                  · exact ihm _ (by simp)
                · exact ihr _ (by simp)
          exact key' l _ (by simp) hs2
        · simp only [INode.erase_node, Node.marked] at a6 ⊢; omega
        · simp only [INode.ids_node, List.length_cons, List.length_append] at a7 ⊢; omega
      · by_cases he : r.matched + 1 = key.length
        · simp only [he, if_true]
          simpa using hhere { r with matched := key.length } hs hp rfl
        · simp only [he, if_false]
          obtain ⟨a1, a2, a3, a4, a5, a6, a7⟩ := ihm id { parent := id, slot := .mid id, matched := r.matched + 1 }
            (Or.inr (Or.inr (Or.inl rfl))) rfl
          refine ⟨a1, ?_, fun j hj => by simp [a3 j hj], fun h => ?_, a5, ?_, ?_⟩
          · rcases a2 with a2 | a2
            · exact Or.inr (by rw [a2]; simp)
            · exact Or.inr (by simp [a2])
          · exfalso
            have key' : ∀ (s : INode) (r : Last), r.slot ≠ .root → (descI cmp key s r).1.slot ≠ .root := by
              intro s
              induction s with
              | nil => intro r hr; simpa [descI] using hr
              | node id c d l m r' ihl ihm ihr =>
                intro r hr
                simp only [descI]
                split
                · exact hr
                · cases cmp (key.getD r.matched 0) c <;> simp only []
                  · exact ihl _ (by simp)
                  · split
                    · exact hr
                    · exact ihm _ (by simp)
                  · exact ihr _ (by simp)
            exact key' m _ (by simp) h
          · simp only [INode.erase_node, Node.marked] at a6 ⊢; omega
          · simp only [INode.ids_node, List.length_cons, List.length_append] at a7 ⊢; omega
      · obtain ⟨a1, a2, a3, a4, a5, a6, a7⟩ := ihr id { r with parent := id, slot := .right id }
          (Or.inr (Or.inr (Or.inr rfl))) rfl
        refine ⟨a1, ?_, fun j hj => by simp [a3 j hj], fun h => ?_, a5, ?_, ?_⟩
        · rcases a2 with a2 | a2
          · exact Or.inr (by rw [a2]; simp)
          · exact Or.inr (by simp [a2])
        · exfalso
          have key' : ∀ (s : INode) (r : Last), r.slot ≠ .root → (descI cmp key s r).1.slot ≠ .root := by
            intro s
            induction s with
            | nil => intro r hr; simpa [descI] using hr
            | node id c d l m r' ihl ihm ihr =>
              intro r hr
              simp only [descI]
              split
              · exact hr
              · cases cmp (key.getD r.matched 0) c <;> simp only []
                · exact ihl _ (by simp)
                · split
                  · exact hr
                  · exact ihm _ (by simp)
                · exact ihr _ (by simp)
          exact key' r' _ (by simp) h
        · simp only [INode.erase_node, Node.marked] at a6 ⊢; omega
        · simp only [INode.ids_node, List.length_cons, List.length_append] at a7 ⊢; omega
    · simp only [hm, not_false_eq_true, if_true]
      simpa using hhere r hs hp rfl

/-! ### `cc_tsttable_add` on a represented trie -/

theorem add_refused (cmp : Cmp) (st : PT) (key : Key) (v : Nat) :
    add cmp st key v false = { st with freed := [] } := rfl

/-- the descent that left the root field ends at a child field of a real node -/
theorem descI_owner (cmp : Cmp) (key : Key) : ∀ (s : INode) (r : Last), (∀ j ∈ s.ids, j ≠ 0) →
    r.parent ≠ 0 ∨ r.slot = .root →
    ((descI cmp key s r).1.parent ≠ 0 ∨ (descI cmp key s r).1.slot = .root) := by
  intro s
  induction s with
  | nil => intro r _ hr; simpa [descI] using hr
  | node id c d l m r' ihl ihm ihr =>
    intro r hne hr
    simp only [descI]
    have hid : id ≠ 0 := hne id (by simp)
    split
    · exact hr
    · cases cmp (key.getD r.matched 0) c <;> simp only []
      · exact ihl _ (fun j hj => hne j (by simp [hj])) (Or.inl hid)
      · split
        · exact hr
        · exact ihm _ (fun j hj => hne j (by simp [hj])) (Or.inl hid)
      · exact ihr _ (fun j hj => hne j (by simp [hj])) (Or.inl hid)

/-- a node is reached only with all characters matched -/
theorem descI_matched (cmp : Cmp) (key : Key) : ∀ (s : INode) (r : Last), r.matched ≤ key.length →
    (descI cmp key s r).2 ≠ .nil → (descI cmp key s r).1.matched = key.length := by
  intro s
  induction s with
  | nil => intro r _ hn; simp [descI] at hn
  | node id c d l m r' ihl ihm ihr =>
    intro r hle hn
    simp only [descI] at hn ⊢
    split
    · simp only; omega
    · rename_i hm
      simp only [hm, if_false] at hn
      cases hc : cmp (key.getD r.matched 0) c <;> simp only [hc] at hn ⊢
      · exact ihl _ hle hn
      · split
        · rename_i he; simp only; exact he
        · rename_i he; simp only [he, if_false] at hn; exact ihm _ (by simp; omega) hn
      · exact ihr _ hle hn

/-- **`add` preserves the representation and commutes with the inductive insertion**: the new heap holds
`insI`, whose underlying trie is `insPure`; exactly the chain nodes are allocated (ids `fresh …`), `size`
grows iff a new entry appeared, nothing is freed -/
theorem add_represents (cmp : Cmp) {st : PT} {t : INode} (h : Represents st t) (key : Key) (v : Nat) :
    Represents (add cmp st key v true) (insI cmp key (key, v) st.fresh t 0) ∧
    (add cmp st key v true).size = st.size + (if (t.erase.lookup cmp key).isSome then 0 else 1) ∧
    (add cmp st key v true).fresh = st.fresh + newCnt cmp key t 0 ∧
    (add cmp st key v true).freed = [] := by
  have hfresh : st.fresh ≠ 0 := by have := h.count; omega
  have h' : Represents { st with freed := [] } t := ⟨h.root, h.rep, h.nodup, h.fresh, h.count, h.dom⟩
  obtain ⟨g1, g2⟩ := getLast_rep cmp h' key
  obtain ⟨s1, s2⟩ := add_sub cmp key v st.heap st.root st.fresh hfresh t 0 {} h.rep h.nodup h.fresh (by omega)
    (by simp [deref, h.root]) (Or.inl ⟨rfl, rfl⟩) rfl
  obtain ⟨f1, f2, f3, f4, f5, f6, f7⟩ := descI_facts (v := v) (fresh := st.fresh) cmp key t 0 {} (Or.inl ⟨rfl, rfl⟩) rfl
  have hl := descI_lookup cmp key t {} (by simp)
  have hown := descI_owner cmp key t {} h.rep.ids_ne (Or.inr rfl)
  have hmat := descI_matched cmp key t {} (by simp)
  simp only [List.drop_zero] at hl
  obtain ⟨p', hrep⟩ := descI_rep cmp key t 0 {} h.rep
  have hnd' := nodup_insI cmp key (key, v) st.fresh t 0 h.nodup h.fresh
  have hmem := mem_ids_insI cmp key (key, v) st.fresh t 0
  have hrid := rid_insI cmp key (key, v) st.fresh t 0
  unfold add
  simp only [Bool.not_true, Bool.false_eq_true, if_false, g1]
  simp only at g2
  rw [g2]
  simp only [finishH, g2] at s1
  generalize descI cmp key t {} = D at *
  obtain ⟨L, T⟩ := D
  simp only at *
  cases T with
  | nil =>
    -- the slot is empty: a new chain
    simp only [INode.rid_nil, ne_eq, not_true_eq_false, if_false, INode.data?, Option.isSome_none] at *
    obtain ⟨c1, c2, c3, c4⟩ := chainHeap_rep st.heap st.fresh L.parent (key, v) (key.drop L.matched) hfresh
    have hcnt : newCnt cmp key t 0 = chainLen (key.drop L.matched) := by rw [f5]; simp
    have hsize : (t.erase.lookup cmp key).isSome = false := by rw [hl]; simp
    simp only [hsize, Bool.false_eq_true, if_false]
    have hch : chainHeap st.heap st.fresh L.parent (key, v) (key.drop L.matched) =
        (setData (setParent (chainLoop (st.heap.set st.fresh { c := (key.drop L.matched).headD 0 }) st.fresh
            (st.fresh + 1) (key.drop L.matched).tail).1 st.fresh L.parent)
          (chainLoop (st.heap.set st.fresh { c := (key.drop L.matched).headD 0 }) st.fresh
            (st.fresh + 1) (key.drop L.matched).tail).2.1 (some (key, v)),
         (chainLoop (st.heap.set st.fresh { c := (key.drop L.matched).headD 0 }) st.fresh
            (st.fresh + 1) (key.drop L.matched).tail).2.2) := rfl
    rw [hch] at c1 c2 c3 c4 s1
    simp only at c1 c2 c3 c4 s1
    have hfrE : (chainLoop (st.heap.set st.fresh { c := (key.drop L.matched).headD 0 }) st.fresh
        (st.fresh + 1) (key.drop L.matched).tail).2.2 = st.fresh + newCnt cmp key t 0 := by rw [hcnt]; exact c3
    have hfreshI : ∀ i ∈ (insI cmp key (key, v) st.fresh t 0).ids, i < st.fresh + newCnt cmp key t 0 := by
      intro i hi
      rw [hmem] at hi
      rcases hi with hi | hi
      · have := h.fresh i hi; omega
      · omega
    have hcountI : (insI cmp key (key, v) st.fresh t 0).ids.length < st.fresh + newCnt cmp key t 0 := by
      rw [f7]; have := h.count; omega
    have hbase : ∀ i, (setData (setParent (chainLoop (st.heap.set st.fresh { c := (key.drop L.matched).headD 0 }) st.fresh
            (st.fresh + 1) (key.drop L.matched).tail).1 st.fresh L.parent)
          (chainLoop (st.heap.set st.fresh { c := (key.drop L.matched).headD 0 }) st.fresh
            (st.fresh + 1) (key.drop L.matched).tail).2.1 (some (key, v))).has i = true ↔
        i ∈ (insI cmp key (key, v) st.fresh t 0).ids := by
      intro i; rw [c4, h.dom, hmem, hcnt]
    have hownT : L.slot ≠ .root → L.parent ∈ t.ids := by
      intro hs
      rcases f2 with f2 | f2
      · rcases hown with hown | hown
        · exact absurd f2 hown
        · exact absurd hown hs
      · exact f2
    cases hslot : L.slot with
    | root =>
      rw [hslot] at s1
      have htn : t = .nil := (f4 hslot).symm
      refine ⟨⟨?_, s1, hnd', ?_, ?_, ?_⟩, rfl, hfrE, rfl⟩
      · simp only [store]; rw [hrid]; simp [htn]
      · simp only [store]; rw [hfrE]; exact hfreshI
      · simp only [store]; rw [hfrE]; exact hcountI
      · intro i; simp only [store]; exact hbase i
    | left n =>
      rw [hslot] at s1 f1
      have hn : n = L.parent := by
        rcases f1 with ⟨f, _⟩ | f | f | f <;> simp_all
      have hnt : n ∈ t.ids := hn ▸ hownT (by rw [hslot]; simp)
      have htn : t ≠ .nil := by intro e; rw [e] at hnt; simp at hnt
      refine ⟨⟨?_, s1, hnd', ?_, ?_, ?_⟩, rfl, hfrE, rfl⟩
      · simp only [store]; rw [hrid]; simp [htn, h.root]
      · simp only [store]; rw [hfrE]; exact hfreshI
      · simp only [store]; rw [hfrE]; exact hcountI
      · intro i
        simp only [store, storeH, setLeft, Heap.has_set, Bool.or_eq_true, beq_iff_eq]
        rw [hbase]
        constructor
        · rintro (h1 | h1)
          · rw [h1, hmem]; exact Or.inl hnt
          · exact h1
        · intro h1; exact Or.inr h1
    | mid n =>
      rw [hslot] at s1 f1
      have hn : n = L.parent := by
        rcases f1 with ⟨f, _⟩ | f | f | f <;> simp_all
      have hnt : n ∈ t.ids := hn ▸ hownT (by rw [hslot]; simp)
      have htn : t ≠ .nil := by intro e; rw [e] at hnt; simp at hnt
      refine ⟨⟨?_, s1, hnd', ?_, ?_, ?_⟩, rfl, hfrE, rfl⟩
      · simp only [store]; rw [hrid]; simp [htn, h.root]
      · simp only [store]; rw [hfrE]; exact hfreshI
      · simp only [store]; rw [hfrE]; exact hcountI
      · intro i
        simp only [store, storeH, setMid, Heap.has_set, Bool.or_eq_true, beq_iff_eq]
        rw [hbase]
        constructor
        · rintro (h1 | h1)
          · rw [h1, hmem]; exact Or.inl hnt
          · exact h1
        · intro h1; exact Or.inr h1
    | right n =>
      rw [hslot] at s1 f1
      have hn : n = L.parent := by
        rcases f1 with ⟨f, _⟩ | f | f | f <;> simp_all
      have hnt : n ∈ t.ids := hn ▸ hownT (by rw [hslot]; simp)
      have htn : t ≠ .nil := by intro e; rw [e] at hnt; simp at hnt
      refine ⟨⟨?_, s1, hnd', ?_, ?_, ?_⟩, rfl, hfrE, rfl⟩
      · simp only [store]; rw [hrid]; simp [htn, h.root]
      · simp only [store]; rw [hfrE]; exact hfreshI
      · simp only [store]; rw [hfrE]; exact hcountI
      · intro i
        simp only [store, storeH, setRight, Heap.has_set, Bool.or_eq_true, beq_iff_eq]
        rw [hbase]
        constructor
        · rintro (h1 | h1)
          · rw [h1, hmem]; exact Or.inl hnt
          · exact h1
        · intro h1; exact Or.inr h1
  | node id c d l m r =>
    -- the slot holds a node: it gets the entry
    obtain ⟨r1, r2, _⟩ := hrep
    simp only [INode.rid_node, ne_eq, r1, not_false_eq_true, if_true, reduceCtorEq, if_false, INode.data?] at *
    have hidt : id ∈ t.ids := f3 id (by simp)
    have hcnt : newCnt cmp key t 0 = 0 := f5
    have hm := hmat (by simp)
    have htn : t ≠ .nil := by intro e; rw [e] at hidt; simp at hidt
    refine ⟨⟨?_, s1, hnd', ?_, ?_, ?_⟩, ?_, by rw [hcnt]; rfl, trivial⟩
    · simp only; rw [hrid]; simp [htn, h.root]
    · intro i hi
      rw [hmem, hcnt] at hi
      rcases hi with hi | hi
      · exact h.fresh i hi
      · omega
    · rw [f7, hcnt]; exact h.count
    · intro i
      rw [hmem, hcnt]
      simp only [setData, Heap.has_set, Bool.or_eq_true, beq_iff_eq]
      rw [h.dom]
      constructor
      · rintro (h1 | h1)
        · rw [h1]; exact Or.inl hidt
        · exact Or.inl h1
      · rintro (h1 | h1)
        · exact Or.inr h1
        · omega
    · rw [hl, hm]; simp only [if_true, r2]
      cases d <;> simp

/-- entries after an insertion from the root -/
theorem marked_insI_top (cmp : Cmp) (key : Key) (v fresh : Nat) (t : INode) :
    (insI cmp key (key, v) fresh t 0).erase.marked =
      t.erase.marked + (if (t.erase.lookup cmp key).isSome then 0 else 1) := by
  obtain ⟨_, _, _, _, _, f6, _⟩ := descI_facts (v := v) (fresh := fresh) cmp key t 0 {} (Or.inl ⟨rfl, rfl⟩) rfl
  have hl := descI_lookup cmp key t {} (by simp)
  have hm := descI_matched cmp key t {} (by simp)
  simp only [List.drop_zero] at hl
  rw [f6, hl]
  cases hT : (descI cmp key t {}).2 with
  | nil => simp [INode.data?]
  | node id c d l m r => rw [hT] at hm; simp [hm (by simp)]

end CC.PTST
