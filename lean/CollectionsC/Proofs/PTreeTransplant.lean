import CollectionsC.Proofs.PTreeWalk
set_option linter.unusedSimpArgs false
set_option linter.unusedVariables false
namespace CC.PTree
open CC
open CC.Tree (Path Dir)

theorem transplant_gets (st : PT) (u v pn : Nat) (hup : (st.heap.get u).parent = pn) (hvp : pn = 0 ∨ v ≠ pn) :
    (transplant st u v).heap.get v = { st.heap.get v with parent := pn } ∧
    (pn ≠ 0 → (transplant st u v).heap.get pn =
      (if u = (st.heap.get pn).left then { st.heap.get pn with left := v } else { st.heap.get pn with right := v })) ∧
    (∀ i, i ≠ v → (pn ≠ 0 → i ≠ pn) → (transplant st u v).heap.get i = st.heap.get i) ∧
    (transplant st u v).root = (if pn = 0 then v else st.root) ∧
    (transplant st u v).size = st.size ∧ (transplant st u v).fresh = st.fresh := by
  unfold transplant
  by_cases hp0 : pn = 0
  · simp [S, ite_get, setLeft, setRight, setParent, Heap.get_set, hup, hp0]
    intro i h1; simp [h1]
  · have hvp' : v ≠ pn := by rcases hvp with h | h; exact absurd h hp0; exact h
    have hpv := Ne.symm hvp'
    simp [S, ite_get, setLeft, setRight, setParent, Heap.get_set, hup, hp0, hvp', hpv]
    intro i h1 h2
    simp [h1, h2]

/-- **`transplant(table, u, v)`**: the subtree rooted at `v` (a part of `u`'s subtree, or the sentinel)
takes the place of the subtree rooted at `u`: `u`'s parent (or `table->root`) points to `v`, and
`v->parent` is `u`'s parent — also when `v` is the sentinel, whose `parent` field thereby becomes the
scratch value `rebalance_after_delete` reads -/
theorem transplant_rep {st : PT} {t : ITree} (hr : Rep st.heap t 0) (hroot : st.root = t.rid)
    (hnd : t.ids.Nodup) (q : Path) {u cu l ku vu r} (hs : t.subtree q = .node u cu l ku vu r)
    (s' : ITree) (p' : Nat) (hs' : Rep st.heap s' p') (hnd' : s'.ids.Nodup)
    (hin : ∀ i ∈ s'.ids, i ∈ l.ids ∨ i ∈ r.ids) :
    Rep (transplant st u s'.rid).heap (t.replace q s') 0 ∧
    (transplant st u s'.rid).root = (t.replace q s').rid ∧
    (transplant st u s'.rid).heap.get 0 =
      (if s'.rid = 0 then { st.heap.get 0 with parent := parentAt t 0 q } else st.heap.get 0) ∧
    (transplant st u s'.rid).heap.get u = st.heap.get u ∧
    (transplant st u s'.rid).size = st.size ∧ (transplant st u s'.rid).fresh = st.fresh := by
  have hsub := hr.sub q
  rw [hs] at hsub
  obtain ⟨hu0, hur, hl, hrr⟩ := hsub
  have hndS := ITree.ids_subtree_nodup t q hnd
  rw [hs] at hndS
  simp only [ITree.ids_node, List.nodup_cons, List.mem_append, not_or] at hndS
  obtain ⟨⟨hul, hurr⟩, _⟩ := hndS
  generalize hpn : parentAt t 0 q = pn at hur
  have hup : (st.heap.get u).parent = pn := by rw [hur]
  have hpar : (q = [] ∧ pn = 0) ∨ (∃ q0 d, q = q0 ++ [d] ∧ pn ≠ 0 ∧ pn ≠ u ∧ pn ∉ l.ids ∧ pn ∉ r.ids ∧
      ((st.heap.get pn).left = u ↔ d = .L)) := by
    rcases path_cases q with hq | ⟨q0, d, hq⟩
    · left; subst hq; exact ⟨rfl, by simpa [parentAt] using hpn.symm⟩
    · right
      subst hq
      obtain ⟨p1, p2, p3, _⟩ := hr.parent_child hnd q0 d hs
      rw [hpn] at p1 p2 p3
      rw [hs] at p2
      simp only [ITree.ids_node, List.mem_cons, List.mem_append, not_or] at p2
      exact ⟨q0, d, rfl, p1, p2.1, p2.2.1, p2.2.2, p3⟩
  -- the root of the transplanted subtree
  have hv : s'.rid = 0 ∨ (s'.rid ∈ s'.ids ∧ s'.rid ≠ 0) := by
    cases s' with
    | nil => left; rfl
    | node vi vc vl vk vv vr => right; exact ⟨by simp, hs'.1⟩
  have hvmem : ∀ i ∈ s'.ids, i ≠ u ∧ (pn ≠ 0 → i ≠ pn) := by
    intro i hi
    refine ⟨fun e => ?_, fun hp e => ?_⟩
    · subst e; rcases hin i hi with h | h
      · exact hul h
      · exact hurr h
    · rcases hpar with ⟨_, h0⟩ | ⟨_, _, _, _, _, h1, h2, _⟩
      · exact hp h0
      · subst e; rcases hin i hi with h | h
        · exact h1 h
        · exact h2 h
  have hvp : pn = 0 ∨ s'.rid ≠ pn := by
    by_cases hp0 : pn = 0
    · exact Or.inl hp0
    · right
      rcases hv with h | ⟨h, _⟩
      · rw [h]; exact Ne.symm hp0
      · exact (hvmem _ h).2 hp0
  obtain ⟨gv, gp, gother, groot, gsize, gfresh⟩ := transplant_gets st u s'.rid pn hup hvp
  have hvu : s'.rid ≠ u := by
    rcases hv with h | ⟨h, _⟩
    · rw [h]; exact Ne.symm hu0
    · exact (hvmem _ h).1
  refine ⟨?_, ?_, ?_, ?_, gsize, gfresh⟩
  · refine hr.replace hnd q s' ?_ ?_ ?_
    · intro i him hi hip
      have hi0 : i ≠ 0 := hr.ids_ne i him
      rw [hpn] at hip
      refine gother i (fun e => ?_) (fun _ => hip)
      rcases hv with h | ⟨h, _⟩
      · exact hi0 (e.trans h)
      · apply hi; rw [hs]; subst e
        rcases hin _ h with h' | h' <;> simp [h']
    · rw [hpn]
      cases s' with
      | nil => trivial
      | node vi vc vl vk vv vr =>
        obtain ⟨v1, v2, v3, v4⟩ := hs'
        simp only [ITree.rid_node] at gv gother
        simp only [ITree.ids_node, List.nodup_cons, List.mem_append, not_or] at hnd'
        show Rep (transplant st u vi).heap _ pn
        refine ⟨v1, by rw [gv, v2], ?_, ?_⟩
        · exact v3.frame (fun i hi => gother i (fun e => hnd'.1.1 (e ▸ hi)) (hvmem i (by simp [hi])).2)
        · exact v4.frame (fun i hi => gother i (fun e => hnd'.1.2 (e ▸ hi)) (hvmem i (by simp [hi])).2)
    · intro q0 d hq
      rw [hpn]
      rcases hpar with ⟨hq', _⟩ | ⟨q0', d', hq', hp0, _, _, _, hiff⟩
      · rw [hq'] at hq; simp at hq
      · have : q0' = q0 ∧ d' = d := by
          have := hq'.symm.trans hq
          simpa using List.append_inj' this rfl
        obtain ⟨rfl, rfl⟩ := this
        rw [gp hp0]
        cases d' with
        | L => simp [(hiff.2 rfl).symm, withChild]
        | R =>
          have : ¬ u = (st.heap.get pn).left := fun e => by have := hiff.1 e.symm; cases this
          simp [this, withChild]
  · rw [groot]
    rcases hpar with ⟨hq, hp0⟩ | ⟨q0, d, hq, hp0, _⟩
    · subst hq; simp [hp0]
    · simp only [hp0, if_false, hroot]
      subst hq
      cases q0 with
      | nil => cases t with
        | nil => simp at hs
        | node => cases d <;> rfl
      | cons e q1 => exact (ITree.rid_replace_cons t e _ _).symm
  · rcases hv with h | ⟨_, h⟩
    · rw [h] at gv ⊢; simp only [if_true]; rw [gv]
    · simp only [h, if_false]
      exact gother 0 (Ne.symm h) (fun hp => Ne.symm hp)
  · exact gother u (Ne.symm hvu) (fun hp e => by
      rcases hpar with ⟨_, h0⟩ | ⟨_, _, _, _, h1, _⟩
      · exact hp h0
      · exact h1 e.symm)
end CC.PTree
