import CollectionsC.Proofs.ArrayStep
/-! Zip-iterator programs over two arrays (C07): every call of `cc_array_zip_iter_*` refines one step
of the ideal lock-step cursor, keeps both invariants, the ledger balance and the fault flag. -/
namespace CC.Arr
open CC
open CC.Spec.Seq (ZipCursor ZipOp ZOut)

theorem zblocked_mk (st : Stat) :
    ({ st := some st } : ZOut).blocked = if st = .errAlloc ∨ st = .errMaxCapacity then some st else none := by
  simp [ZOut.blocked]

theorem ensureRoom_inv (a : Arr) (m : Mem) (hinv : a.Inv) : (ensureRoom a m).2.1.Inv := by
  rcases (ensureRoom_spec a m hinv).1 with ⟨_, _, h2, h3, h4, _, h6⟩ | ⟨_, hsame⟩
  · obtain ⟨i1, i2, i3, i4⟩ := hinv
    refine ⟨by omega, h4, ?_, ?_⟩ <;> rcases h6 with h6 | ⟨_, h6, h7, h8⟩ <;> omega
  · rw [hsame]; exact hinv

theorem zipAdd_fail_fst (a1 a2 : Arr) (it : ArrIter) (x y : Nat) (m : Mem)
    (h : (zipAdd a1 a2 it x y m).1 ≠ .ok) : (zipAdd a1 a2 it x y m).2.1 = (ensureRoom a1 m).2.1 := by
  rw [zipAdd_eq] at h ⊢
  split
  · rfl
  · split
    · rfl
    · rename_i h1 h2; simp only [h1, h2] at h; exact absurd rfl h

/-- one zip-iterator call refines one step of the ideal lock-step cursor -/
theorem zipStep_sim (a1 a2 : Arr) (it : ArrIter) (z : ZipCursor) (op : ZipOp) (m : Mem)
    (h1 : a1.Inv) (h2 : a2.Inv) (hs : ZSim a1 a2 it z) :
    (zipStep a1 a2 it op m).1 = (z.step op (zipStep a1 a2 it op m).1.blocked).1 ∧
    ZSim (zipStep a1 a2 it op m).2.1 (zipStep a1 a2 it op m).2.2.1 (zipStep a1 a2 it op m).2.2.2.1
      (z.step op (zipStep a1 a2 it op m).1.blocked).2 ∧
    (zipStep a1 a2 it op m).2.1.Inv ∧ (zipStep a1 a2 it op m).2.2.1.Inv ∧
    (zipStep a1 a2 it op m).2.1.grow = a1.grow ∧ (zipStep a1 a2 it op m).2.2.1.grow = a2.grow ∧
    (zipStep a1 a2 it op m).2.2.2.2.live = m.live ∧ (zipStep a1 a2 it op m).2.2.2.2.fault = m.fault ∧
    (∀ st, (zipStep a1 a2 it op m).1.st = some st → st ≠ .ok →
      (zipStep a1 a2 it op m).2.1.abs = a1.abs ∧ (zipStep a1 a2 it op m).2.2.1 = a2 ∧
      (zipStep a1 a2 it op m).2.2.2.1 = it) := by
  cases op with
  | next =>
    obtain ⟨r1, r2, r3, r4⟩ := zipNext_sim a1 a2 it z m h1 h2 hs
    simp only [zipStep, ZipCursor.step]
    refine ⟨by rw [r1, r2], r3, h1, h2, by triv, by triv, by rw [r4], by rw [r4], fun st e1 e2 => ⟨by triv, by triv, ?_⟩⟩
    simp only [Option.some.injEq] at e1
    have hne : (zipNext a1 a2 it m).1 ≠ .ok := by rw [e1]; exact e2
    unfold zipNext at hne ⊢
    split
    · rfl
    · rename_i hh; simp [hh] at hne
  | remove =>
    obtain ⟨r1, r2, r3, k1, k2, z1, z2, r8, r9⟩ := zipRemove_sim a1 a2 it z m h1 h2 hs
    simp only [zipStep, ZipCursor.step]
    refine ⟨by rw [r1, r2], r3, k1.inv h1 z1, k2.inv h2 z2, k1.2.2, k2.2.2, by rw [r8], by rw [r8], fun st e1 e2 => ?_⟩
    simp only [Option.some.injEq] at e1
    obtain ⟨q1, q2, q3⟩ := r9 (by rw [e1]; exact e2)
    exact ⟨by rw [q1], q2, q3⟩
  | add x y =>
    obtain ⟨sp, sl, sf⟩ := zipAdd_sim a1 a2 it z x y m h1 h2 hs
    simp only [zipStep, ZipCursor.step, zblocked_mk]
    rcases sp with ⟨ok, hsim, g1, g2⟩ | ⟨e, b1, b2, b3, b4, b5, b6, b7, b8, _⟩
    · simp only [ok]
      refine ⟨by simp [ZipCursor.add], by simpa using hsim, g1.inv h1, g2.inv h2, g1.2.2.2.2, g2.2.2.2.2, sl, sf,
        fun st e1 e2 => ?_⟩
      simp at e1; exact absurd e1.symm e2
    · have hf := zipAdd_fail_fst a1 a2 it x y m (by rw [e]; simp)
      have hi := ensureRoom_inv a1 m h1
      rw [← hf] at hi
      simp only [e, b7, b8]
      refine ⟨by simp, ?_, hi, h2, b5, by triv, sl, sf, fun _ _ _ => ⟨b1, by triv, by triv⟩⟩
      obtain ⟨s1, s2, s3, s4, s5⟩ := hs
      exact ⟨by simpa [b1] using s1, by simpa using s2, by simpa using s3, by simpa using s4, by simpa using s5⟩
  | replace x y =>
    obtain ⟨r1, r2, r3, k1, k2, z1, z2, r8, r9⟩ := zipReplace_sim a1 a2 it z x y m h1 h2 hs
    simp only [zipStep, ZipCursor.step]
    refine ⟨by rw [r1, r2], r3, k1.inv h1 (by omega), k2.inv h2 (by omega), k1.2.2, k2.2.2, by rw [r8], by rw [r8],
      fun st e1 e2 => ?_⟩
    simp only [Option.some.injEq] at e1
    obtain ⟨q1, q2⟩ := r9 (by rw [e1]; exact e2)
    exact ⟨by rw [q1], q2, by triv⟩
  | index =>
    simp only [zipStep, ZipCursor.step]
    exact ⟨by rw [zipIndex_sim a1 a2 it z hs], hs, h1, h2, by triv, by triv, by triv, by triv,
      fun _ _ _ => ⟨by triv, by triv, by triv⟩⟩

end CC.Arr
