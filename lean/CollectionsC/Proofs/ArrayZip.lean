import CollectionsC.Proofs.ArrayStep
/-! Zip-iterator programs over two arrays (C07): every call of `cc_array_zip_iter_*` refines one step
of the ideal lock-step cursor, keeps both invariants, the ledger balance and the fault flag. -/
namespace CC.Arr
open CC
open CC.Spec.Seq (ZipCursor ZipOp ZOut)

theorem zblocked_mk (st : Stat) :
    ({ st := some st } : ZOut).blocked = if st = .errAlloc ∨ st = .errMaxCapacity then some st else none := by
  simp [ZOut.blocked]

theorem zipAdd_fail_fst (a1 a2 : Arr) (it : ArrIter) (x y : Nat) (m : Mem) (h1 : a1.Inv) (h2 : a2.Inv)
    (hi1 : it.index ≤ a1.size) (hi2 : it.index ≤ a2.size)
    (h : (zipAdd a1 a2 it x y m).1 ≠ .ok) : (zipAdd a1 a2 it x y m).2.1 = (ensureRoom a1 m).2.1 := by
  rw [zipAdd_eq a1 a2 it x y m h1 h2 hi1 hi2] at h ⊢
  split
  · rfl
  · split
    · rfl
    · rename_i h1 h2; simp only [h1, h2] at h; exact absurd rfl h

/-- **both or none, for every cursor value** (A11): `cc_array_zip_iter_add` on two arrays either
succeeds — one element more in each, cursor advanced — or reports an error with both contents and the
cursor as they were (a buffer may have been re-allocated: capacity grown, content and size kept);
both invariants hold afterwards, the ledger is balanced and nothing faults.  No relation between the
cursor and the arrays is assumed. -/
theorem zipAdd_all_or_nothing (a1 a2 : Arr) (it : ArrIter) (x y : Nat) (m : Mem) (h1 : a1.Inv) (h2 : a2.Inv) :
    (((zipAdd a1 a2 it x y m).1 = .ok ∧ (zipAdd a1 a2 it x y m).2.1.size = a1.size + 1 ∧
        (zipAdd a1 a2 it x y m).2.2.1.size = a2.size + 1 ∧
        (zipAdd a1 a2 it x y m).2.2.2.1 = { it with index := it.index + 1 }) ∨
     ((zipAdd a1 a2 it x y m).1 ≠ .ok ∧ (zipAdd a1 a2 it x y m).2.1.abs = a1.abs ∧
        (zipAdd a1 a2 it x y m).2.2.1.abs = a2.abs ∧ (zipAdd a1 a2 it x y m).2.2.2.1 = it)) ∧
    (zipAdd a1 a2 it x y m).2.1.Inv ∧ (zipAdd a1 a2 it x y m).2.2.1.Inv ∧
    (zipAdd a1 a2 it x y m).2.2.2.2.live = m.live ∧ (zipAdd a1 a2 it x y m).2.2.2.2.fault = m.fault := by
  obtain ⟨r1, rl1, rf1⟩ := ensureRoom_spec a1 m h1
  obtain ⟨r2, rl2, rf2⟩ := ensureRoom_spec a2 (ensureRoom a1 m).2.2 h2
  have i1 := ensureRoom_inv a1 m h1
  have i2 := ensureRoom_inv a2 (ensureRoom a1 m).2.2 h2
  rw [zipAdd_unfold]
  rcases r1 with ⟨o1, b1, c1, d1, e1, _⟩ | ⟨n1, same1⟩
  · simp only [o1, bne_self_eq_false, Bool.false_eq_true, if_false]
    rcases r2 with ⟨o2, b2, c2, d2, e2, _⟩ | ⟨n2, same2⟩
    · simp only [o2, bne_self_eq_false, Bool.false_eq_true, if_false]
      obtain ⟨hm, hc⟩ := zipAddCore_room (ensureRoom a1 m).2.1 (ensureRoom a2 (ensureRoom a1 m).2.2).2.1 it x y
        (ensureRoom a2 (ensureRoom a1 m).2.2).2.2 i1 i2 d1 d2
      rw [hm]
      rcases hc with ⟨hi1, hi2, e⟩ | ⟨_, e, k1, k2, k3, k4, k5⟩
      · obtain ⟨_, _, p3, p4, _⟩ := addAt_room (ensureRoom a1 m).2.1 x it.index (ensureRoom a2 (ensureRoom a1 m).2.2).2.2 d1 e1 hi1
        obtain ⟨_, _, q3, q4, _⟩ := addAt_room (ensureRoom a2 (ensureRoom a1 m).2.2).2.1 y it.index
          (ensureRoom a2 (ensureRoom a1 m).2.2).2.2 d2 e2 hi2
        rw [e]
        obtain ⟨j1, j2, j3, j4⟩ := i1
        obtain ⟨j5, j6, j7, j8⟩ := i2
        refine ⟨Or.inl ⟨rfl, by rw [p3, c1], by rw [q3, c2], rfl⟩, ?_, ?_, by rw [rl2, rl1], by rw [rf2, rf1]⟩
        · exact ⟨by rw [p3, p4.1]; omega, by rw [p4.1, p4.2.1]; exact j2, by rw [p4.1]; exact j3, by rw [p4.1]; exact j4⟩
        · exact ⟨by rw [q3, q4.1]; omega, by rw [q4.1, q4.2.1]; exact j6, by rw [q4.1]; exact j7, by rw [q4.1]; exact j8⟩
      · refine ⟨Or.inr ⟨by rw [e]; simp, by rw [k1, b1], by rw [k4, b2], k5⟩, k3.inv i1 (by omega), by rw [k4]; exact i2,
          by rw [rl2, rl1], by rw [rf2, rf1]⟩
    · have hne : ((ensureRoom a2 (ensureRoom a1 m).2.2).1 != .ok) = true := by simpa using n2
      simp only [hne, if_true]
      exact ⟨Or.inr ⟨by simp, b1, by rw [same2], by triv⟩, i1, i2, by rw [rl2, rl1], by rw [rf2, rf1]⟩
  · have hne : ((ensureRoom a1 m).1 != .ok) = true := by simpa using n1
    simp only [hne, if_true]
    exact ⟨Or.inr ⟨by simp, by rw [same1], by triv, by triv⟩, i1, h2, rl1, rf1⟩

/-! ### the same array on both sides (`ar1 == ar2`) -/

theorem spec_removeAt_insertIdx (xs : List Nat) (i x : Nat) (h : i ≤ xs.length) :
    Spec.Seq.removeAt (xs.insertIdx i x) i = (.ok, some x, xs) := by
  have hl : i < (xs.insertIdx i x).length := by rw [List.length_insertIdx]; split <;> omega
  unfold Spec.Seq.removeAt
  simp only [hl, if_true, List.eraseIdx_insertIdx_self]
  congr 2
  rw [List.getD_eq_getElem?_getD, List.getElem?_insertIdx_self, if_pos h]
  rfl

/-- the two insertions of the aliased `zip_iter_add` after the room checks -/
def zipAdd1Core (b : Arr) (it : ArrIter) (x y : Nat) (m : Mem) : Stat × Arr × ArrIter × Mem :=
  let r1 := b.addAt x it.index m
  if r1.1 != .ok then (r1.1, r1.2.1, it, r1.2.2) else
  let r2 := r1.2.1.addAt y it.index r1.2.2
  if r2.1 != .ok then
    let u := r2.2.1.removeAt it.index r2.2.2
    (r2.1, u.2.2.1, it, u.2.2.2) else
  (.ok, r2.2.1, { it with index := it.index + 1 }, r2.2.2)

theorem zipAdd1_unfold (a : Arr) (it : ArrIter) (x y : Nat) (m : Mem) :
    zipAdd1 a it x y m =
      if (ensureRoom a m).1 != .ok then (.errAlloc, (ensureRoom a m).2.1, it, (ensureRoom a m).2.2) else
      if (ensureRoom (ensureRoom a m).2.1 (ensureRoom a m).2.2).1 != .ok then
        (.errAlloc, (ensureRoom (ensureRoom a m).2.1 (ensureRoom a m).2.2).2.1, it,
          (ensureRoom (ensureRoom a m).2.1 (ensureRoom a m).2.2).2.2) else
      zipAdd1Core (ensureRoom (ensureRoom a m).2.1 (ensureRoom a m).2.2).2.1 it x y
        (ensureRoom (ensureRoom a m).2.1 (ensureRoom a m).2.2).2.2 := by
  unfold zipAdd1 zipAdd1Core ensureRoom
  rfl

theorem zipAdd1Core_spec (b : Arr) (it : ArrIter) (x y : Nat) (m : Mem) (hinv : b.Inv) :
    (((zipAdd1Core b it x y m).1 = .ok ∧
        (zipAdd1Core b it x y m).2.1.abs = (b.abs.insertIdx it.index x).insertIdx it.index y ∧
        (zipAdd1Core b it x y m).2.1.size = b.size + 2 ∧
        (zipAdd1Core b it x y m).2.2.1 = { it with index := it.index + 1 }) ∨
     ((zipAdd1Core b it x y m).1 ≠ .ok ∧ (zipAdd1Core b it x y m).2.1.abs = b.abs ∧
        (zipAdd1Core b it x y m).2.1.size = b.size ∧ (zipAdd1Core b it x y m).2.2.1 = it)) ∧
    (zipAdd1Core b it x y m).2.1.Inv ∧
    (zipAdd1Core b it x y m).2.2.2.live = m.live ∧ (zipAdd1Core b it x y m).2.2.2.fault = m.fault := by
  obtain ⟨sp, sl, sf⟩ := addAt_spec b x it.index m hinv
  rcases sp with ⟨hi, ⟨ok, habs, g⟩ | ⟨hb, hsame⟩⟩ | ⟨hgt, e⟩
  · have hinv' := g.inv hinv
    obtain ⟨sp2, sl2, sf2⟩ := addAt_spec (b.addAt x it.index m).2.1 y it.index (b.addAt x it.index m).2.2 hinv'
    have hsz : (b.addAt x it.index m).2.1.size = b.size + 1 := g.1
    rcases sp2 with ⟨_, ⟨ok2, habs2, g2⟩ | ⟨hb2, hsame2⟩⟩ | ⟨hgt2, _⟩
    · have e : zipAdd1Core b it x y m = (.ok, ((b.addAt x it.index m).2.1.addAt y it.index (b.addAt x it.index m).2.2).2.1,
          { it with index := it.index + 1 }, ((b.addAt x it.index m).2.1.addAt y it.index (b.addAt x it.index m).2.2).2.2) := by
        unfold zipAdd1Core
        simp only [ok, ok2, bne_self_eq_false, Bool.false_eq_true, if_false]
      rw [e]
      refine ⟨Or.inl ⟨rfl, by rw [habs2, habs], ?_, rfl⟩, g2.inv hinv', by rw [sl2, sl], by rw [sf2, sf]⟩
      have := g2.1
      show ((b.addAt x it.index m).2.1.addAt y it.index (b.addAt x it.index m).2.2).2.1.size = b.size + 2
      omega
    · have hne2 : (((b.addAt x it.index m).2.1.addAt y it.index (b.addAt x it.index m).2.2).1 != .ok) = true := by
        rcases hb2.1 with ⟨h, _⟩ | ⟨h, _⟩ <;> rw [h] <;> rfl
      obtain ⟨u1, _, u3, u4, u5, u6, _, _, u9⟩ := removeAt_spec (b.addAt x it.index m).2.1 it.index
        ((b.addAt x it.index m).2.1.addAt y it.index (b.addAt x it.index m).2.2).2.2 hinv'
      rw [habs, spec_removeAt_insertIdx b.abs it.index x (by rw [abs_length]; exact hi)] at u1 u3
      have e : zipAdd1Core b it x y m = (((b.addAt x it.index m).2.1.addAt y it.index (b.addAt x it.index m).2.2).1,
          ((b.addAt x it.index m).2.1.removeAt it.index
            ((b.addAt x it.index m).2.1.addAt y it.index (b.addAt x it.index m).2.2).2.2).2.2.1, it,
          ((b.addAt x it.index m).2.1.removeAt it.index
            ((b.addAt x it.index m).2.1.addAt y it.index (b.addAt x it.index m).2.2).2.2).2.2.2) := by
        unfold zipAdd1Core
        simp only [ok, hne2, hsame2, bne_self_eq_false, Bool.false_eq_true, if_false, if_true]
      rw [e]
      have hsize := u9 u1
      refine ⟨Or.inr ⟨by simpa using hne2, u3, ?_, rfl⟩, u4.inv hinv' u5, by rw [u6, sl2, sl], by rw [u6, sf2, sf]⟩
      show ((b.addAt x it.index m).2.1.removeAt it.index
            ((b.addAt x it.index m).2.1.addAt y it.index (b.addAt x it.index m).2.2).2.2).2.2.1.size = b.size
      omega
    · omega
  · have hne : ((b.addAt x it.index m).1 != .ok) = true := by
      rcases hb.1 with ⟨h, _⟩ | ⟨h, _⟩ <;> rw [h] <;> rfl
    have e : zipAdd1Core b it x y m = ((b.addAt x it.index m).1, b, it, (b.addAt x it.index m).2.2) := by
      unfold zipAdd1Core
      simp only [hne, hsame, if_true]
    rw [e]
    exact ⟨Or.inr ⟨by simpa using hne, rfl, rfl, rfl⟩, hinv, sl, sf⟩
  · have e' : zipAdd1Core b it x y m = (.errOutOfRange, b, it, m) := by
      unfold zipAdd1Core
      simp only [e]
      rfl
    rw [e']
    exact ⟨Or.inr ⟨by simp, rfl, rfl, rfl⟩, hinv, rfl, rfl⟩

/-- **`zip_iter_add` with the same array on both sides: both elements or none** (A11), for every
cursor value, every growth function and every refusal schedule.  On success the array holds two more
elements (`y` before `x` at the cursor); on any failure — also when only the *second* insertion's
growth step is refused or hits the capacity limit — content and size are what they were.  In both
cases the invariant (`size ≤ capacity ≤ allocated slots`) holds afterwards, the ledger is balanced
and nothing faults. -/
theorem zipAdd1_all_or_nothing (a : Arr) (it : ArrIter) (x y : Nat) (m : Mem) (hinv : a.Inv) :
    (((zipAdd1 a it x y m).1 = .ok ∧
        (zipAdd1 a it x y m).2.1.abs = (a.abs.insertIdx it.index x).insertIdx it.index y ∧
        (zipAdd1 a it x y m).2.1.size = a.size + 2 ∧
        (zipAdd1 a it x y m).2.2.1 = { it with index := it.index + 1 }) ∨
     ((zipAdd1 a it x y m).1 ≠ .ok ∧ (zipAdd1 a it x y m).2.1.abs = a.abs ∧
        (zipAdd1 a it x y m).2.1.size = a.size ∧ (zipAdd1 a it x y m).2.2.1 = it)) ∧
    (zipAdd1 a it x y m).2.1.Inv ∧
    (zipAdd1 a it x y m).2.2.2.live = m.live ∧ (zipAdd1 a it x y m).2.2.2.fault = m.fault := by
  obtain ⟨r1, rl1, rf1⟩ := ensureRoom_spec a m hinv
  have i1 := ensureRoom_inv a m hinv
  obtain ⟨r2, rl2, rf2⟩ := ensureRoom_spec (ensureRoom a m).2.1 (ensureRoom a m).2.2 i1
  have i2 := ensureRoom_inv (ensureRoom a m).2.1 (ensureRoom a m).2.2 i1
  have habs1 : (ensureRoom a m).2.1.abs = a.abs ∧ (ensureRoom a m).2.1.size = a.size := by
    rcases r1 with ⟨_, b1, c1, _⟩ | ⟨_, same1⟩
    · exact ⟨b1, c1⟩
    · rw [same1]; exact ⟨rfl, rfl⟩
  have habs2 : (ensureRoom (ensureRoom a m).2.1 (ensureRoom a m).2.2).2.1.abs = a.abs ∧
      (ensureRoom (ensureRoom a m).2.1 (ensureRoom a m).2.2).2.1.size = a.size := by
    rcases r2 with ⟨_, b2, c2, _⟩ | ⟨_, same2⟩
    · exact ⟨by rw [b2, habs1.1], by rw [c2, habs1.2]⟩
    · rw [same2]; exact habs1
  rw [zipAdd1_unfold]
  by_cases o1 : ((ensureRoom a m).1 != .ok) = true
  · simp only [o1, if_true]
    exact ⟨Or.inr ⟨by simp, habs1.1, habs1.2, by triv⟩, i1, rl1, rf1⟩
  · simp only [o1, Bool.false_eq_true, if_false]
    by_cases o2 : ((ensureRoom (ensureRoom a m).2.1 (ensureRoom a m).2.2).1 != .ok) = true
    · simp only [o2, if_true]
      exact ⟨Or.inr ⟨by simp, habs2.1, habs2.2, by triv⟩, i2, by rw [rl2, rl1], by rw [rf2, rf1]⟩
    · simp only [o2, Bool.false_eq_true, if_false]
      obtain ⟨hc, hi, hl, hf⟩ := zipAdd1Core_spec (ensureRoom (ensureRoom a m).2.1 (ensureRoom a m).2.2).2.1 it x y
        (ensureRoom (ensureRoom a m).2.1 (ensureRoom a m).2.2).2.2 i2
      rw [habs2.1, habs2.2] at hc
      exact ⟨hc, hi, by rw [hl, rl2, rl1], by rw [hf, rf2, rf1]⟩

/-- one zip-iterator call refines one step of the ideal lock-step cursor -/
theorem zipStep_sim (a1 a2 : Arr) (it : ArrIter) (z : ZipCursor) (op : ZipOp) (m : Mem)
    (h1 : a1.Inv) (h2 : a2.Inv) (hs : ZSim a1 a2 it z) :
    (zipStep a1 a2 it op m).1 = (z.step op (zipStep a1 a2 it op m).1.blocked).1 ∧
    ZSim (zipStep a1 a2 it op m).2.1 (zipStep a1 a2 it op m).2.2.1 (zipStep a1 a2 it op m).2.2.2.1
      (z.step op (zipStep a1 a2 it op m).1.blocked).2 ∧
    (zipStep a1 a2 it op m).2.1.Inv ∧ (zipStep a1 a2 it op m).2.2.1.Inv ∧
    (zipStep a1 a2 it op m).2.1.grow = a1.grow ∧ (zipStep a1 a2 it op m).2.2.1.grow = a2.grow ∧
    (zipStep a1 a2 it op m).2.2.2.2.live = m.live ∧ (zipStep a1 a2 it op m).2.2.2.2.fault = m.fault ∧
    (∀ st, (zipStep a1 a2 it op m).1.st = some st → st ≠ .ok →
      (zipStep a1 a2 it op m).2.1.abs = a1.abs ∧ (zipStep a1 a2 it op m).2.2.1 = a2 ∧
      (zipStep a1 a2 it op m).2.2.2.1 = it) := by
  cases op with
  | next =>
    obtain ⟨r1, r2, r3, r4⟩ := zipNext_sim a1 a2 it z m h1 h2 hs
    simp only [zipStep, ZipCursor.step]
    refine ⟨by rw [r1, r2], r3, h1, h2, by triv, by triv, by rw [r4], by rw [r4], fun st e1 e2 => ⟨by triv, by triv, ?_⟩⟩
    simp only [Option.some.injEq] at e1
    have hne : (zipNext a1 a2 it m).1 ≠ .ok := by rw [e1]; exact e2
    unfold zipNext at hne ⊢
    split
    · rfl
    · rename_i hh; simp [hh] at hne
  | remove =>
    obtain ⟨r1, r2, r3, k1, k2, z1, z2, r8, r9⟩ := zipRemove_sim a1 a2 it z m h1 h2 hs
    simp only [zipStep, ZipCursor.step]
    refine ⟨by rw [r1, r2], r3, k1.inv h1 z1, k2.inv h2 z2, k1.2.2, k2.2.2, by rw [r8], by rw [r8], fun st e1 e2 => ?_⟩
    simp only [Option.some.injEq] at e1
    obtain ⟨q1, q2, q3⟩ := r9 (by rw [e1]; exact e2)
    exact ⟨by rw [q1], q2, q3⟩
  | add x y =>
    obtain ⟨sp, sl, sf⟩ := zipAdd_sim a1 a2 it z x y m h1 h2 hs
    simp only [zipStep, ZipCursor.step, zblocked_mk]
    rcases sp with ⟨ok, hsim, g1, g2⟩ | ⟨e, b1, b2, b3, b4, b5, b6, b7, b8, _⟩
    · simp only [ok]
      refine ⟨by simp [ZipCursor.add], by simpa using hsim, g1.inv h1, g2.inv h2, g1.2.2.2.2, g2.2.2.2.2, sl, sf,
        fun st e1 e2 => ?_⟩
      simp at e1; exact absurd e1.symm e2
    · have hf := zipAdd_fail_fst a1 a2 it x y m h1 h2 hs.index_le.1 hs.index_le.2 (by rw [e]; simp)
      have hi := ensureRoom_inv a1 m h1
      rw [← hf] at hi
      simp only [e, b7, b8]
      refine ⟨by simp, ?_, hi, h2, b5, by triv, sl, sf, fun _ _ _ => ⟨b1, by triv, by triv⟩⟩
      obtain ⟨s1, s2, s3, s4, s5⟩ := hs
      exact ⟨by simpa [b1] using s1, by simpa using s2, by simpa using s3, by simpa using s4, by simpa using s5⟩
  | replace x y =>
    obtain ⟨r1, r2, r3, k1, k2, z1, z2, r8, r9⟩ := zipReplace_sim a1 a2 it z x y m h1 h2 hs
    simp only [zipStep, ZipCursor.step]
    refine ⟨by rw [r1, r2], r3, k1.inv h1 (by omega), k2.inv h2 (by omega), k1.2.2, k2.2.2, by rw [r8], by rw [r8],
      fun st e1 e2 => ?_⟩
    simp only [Option.some.injEq] at e1
    obtain ⟨q1, q2⟩ := r9 (by rw [e1]; exact e2)
    exact ⟨by rw [q1], q2, by triv⟩
  | index =>
    simp only [zipStep, ZipCursor.step]
    exact ⟨by rw [zipIndex_sim a1 a2 it z hs], hs, h1, h2, by triv, by triv, by triv, by triv,
      fun _ _ _ => ⟨by triv, by triv, by triv⟩⟩

end CC.Arr
