import CollectionsC.Proofs.DequeAddAt
import CollectionsC.Proofs.DequeMore
/-! Deque iterators (C07): the C cursor `(index, last_removed)` simulates the ideal cursor
`(pos, removed)` of `Spec/DequeSpec.lean` with `pos = index`, `removed = last_removed`.
`iter_add`/`zip_iter_add` call `add_at` with the cursor position, so their refinement theorems are
`_partial`: they carry finding D3's exclusion. -/
namespace CC.Deque
open CC CC.Spec

/-- `rfl`, or `trivial` when `simp only` already reduced the conjunct to `True` -/
local macro "tr" : term => `(by first | rfl | trivial)

/-- the ideal cursor that corresponds to a C iterator -/
def Iter.cur (it : Iter) : DequeSpec.Cur := { pos := it.index, removed := it.lastRemoved }

theorem size_lt_two_pow_64 (d : Deque) (hi : d.Inv) : d.size < 2 ^ 64 - 1 := by
  have h1 := hi.2.2.2.2.2
  have h2 := hi.2.1
  have : Gen.MAX_POW_TWO = 2 ^ 31 := by decide
  have : (2:Nat) ^ 31 < 2 ^ 64 - 1 := by decide
  omega

/-- **`cc_deque_iter_next`**: yields the element at the cursor and advances, or reports the end exactly
when every element has been passed (an exactly full deque included — any layout) -/
theorem iterNext_spec (it : Iter) (d : Deque) (m : Mem) (hi : d.Inv) :
    (iterNext it d m).1 = (DequeSpec.curNext d.abs it.cur).1 ∧
    (iterNext it d m).2.1 = (DequeSpec.curNext d.abs it.cur).2.1 ∧
    (iterNext it d m).2.2.1.cur = (DequeSpec.curNext d.abs it.cur).2.2 ∧
    (iterNext it d m).2.2.2 = m := by
  have hpos := Inv.cap_pos hi
  unfold iterNext DequeSpec.curNext Iter.cur
  by_cases h : it.index ≥ d.size
  · rw [if_pos h]
    simp only
    rw [List.getElem?_eq_none (by simpa using h)]
    exact ⟨tr, tr, tr, tr⟩
  · rw [if_neg h]
    simp only
    rw [abs_getElem? d it.index (by omega)]
    exact ⟨tr, tr, tr, rd_snd _ _ _ (Nat.lt_of_lt_of_le (Nat.mod_lt _ hpos) (Nat.le_of_eq hi.2.2.1.symm))⟩

/-- a fresh iterator yields every element exactly once, in order: at cursor position `k < size` the
call returns the `k`-th element of the content and moves to `k + 1` (whatever `first`, `size`, `capacity`
are — exactly full and wrapped layouts included) … -/
theorem iterNext_yield (it : Iter) (d : Deque) (m : Mem) (hi : d.Inv) (h : it.index < d.size) :
    iterNext it d m = (.ok, d.abs[it.index]?, { index := it.index + 1, lastRemoved := false }, m) := by
  have hpos := Inv.cap_pos hi
  unfold iterNext
  rw [if_neg (by omega), abs_getElem? d it.index h]
  dsimp only
  rw [rd_snd _ _ _ (Nat.lt_of_lt_of_le (Nat.mod_lt _ hpos) (Nat.le_of_eq hi.2.2.1.symm))]
  rfl

/-- … and reports the end, changing nothing, exactly when every element has been passed -/
theorem iterNext_end (it : Iter) (d : Deque) (m : Mem) (h : d.size ≤ it.index) :
    iterNext it d m = (.iterEnd, none, it, m) := by
  unfold iterNext; rw [if_pos h]

/-- **`cc_deque_iter_remove`**: removes exactly the element yielded last, steps the cursor back so the
traversal continues with the next original element; a second removal, or a removal before the first
`next`, is rejected and changes nothing -/
theorem iterRemove_spec (it : Iter) (d : Deque) (m : Mem) (hi : d.Inv) :
    (iterRemove it d m).1 = (DequeSpec.curRemove d.abs it.cur).1 ∧
    (iterRemove it d m).2.1 = (DequeSpec.curRemove d.abs it.cur).2.1 ∧
    (iterRemove it d m).2.2.2.1.abs = (DequeSpec.curRemove d.abs it.cur).2.2.1 ∧
    (iterRemove it d m).2.2.1.cur = (DequeSpec.curRemove d.abs it.cur).2.2.2 ∧
    (iterRemove it d m).2.2.2.1.Inv ∧ (iterRemove it d m).2.2.2.2 = m ∧
    ((iterRemove it d m).1 ≠ .ok → (iterRemove it d m).2.2.2.1 = d ∧ (iterRemove it d m).2.2.1 = it) := by
  have hbig := size_lt_two_pow_64 d hi
  unfold iterRemove DequeSpec.curRemove Iter.cur
  by_cases hr : it.lastRemoved = true
  · simp only [hr, if_true]
    exact ⟨tr, tr, tr, tr, hi, tr, fun _ => ⟨tr, tr⟩⟩
  · have hr' : it.lastRemoved = false := by simpa using hr
    simp only [hr, Bool.false_eq_true, if_false]
    obtain ⟨r1, r2, r3, r4, r5, r6⟩ := removeAt_spec d (decIdx it.index) m hi
    by_cases h0 : it.index = 0
    · have hoor : decIdx it.index ≥ d.size := by unfold decIdx; rw [if_pos h0]; omega
      have : d.removeAt (decIdx it.index) m = (.errOutOfRange, none, d, m) := by
        unfold removeAt; rw [if_pos hoor]
      rw [this]
      simp only [h0, if_true]
      exact ⟨tr, tr, tr, by simp [h0, hr'], hi, tr, fun _ => ⟨tr, tr⟩⟩
    · have hdec : decIdx it.index = it.index - 1 := by unfold decIdx; rw [if_neg h0]
      rw [hdec] at r1 r2 r3 r4 r5 r6 ⊢
      simp only [h0, if_false]
      unfold DequeSpec.removeAt at r1 r2 r3
      by_cases hlt : it.index - 1 < d.abs.length
      · rw [dif_pos hlt] at r1 r2 r3
        simp only at r1 r2 r3
        rw [List.getElem?_eq_getElem hlt]
        simp only [r1, if_true]
        exact ⟨tr, r2, r3, tr, r4, r5, fun h => absurd tr h⟩
      · rw [dif_neg hlt] at r1 r2 r3
        simp only at r1 r2 r3
        rw [List.getElem?_eq_none (by omega)]
        have hne : ¬ (d.removeAt (it.index - 1) m).1 = Stat.ok := by rw [r1]; decide
        simp only [hne, if_false]
        have hsame : (d.removeAt (it.index - 1) m).2.2.1 = d := by
          unfold removeAt; rw [if_pos (by simpa using hlt)]
        exact ⟨r1, tr, r3, by first | rfl | simp [hr'], r4, r5, fun _ => ⟨hsame, tr⟩⟩

/-- **`cc_deque_iter_replace`**: replaces exactly the element yielded last -/
theorem iterReplace_spec (it : Iter) (d : Deque) (x : Nat) (m : Mem) (hi : d.Inv) :
    (iterReplace it d x m).1 = (DequeSpec.curReplace d.abs it.cur x).1 ∧
    (iterReplace it d x m).2.1 = (DequeSpec.curReplace d.abs it.cur x).2.1 ∧
    (iterReplace it d x m).2.2.1.abs = (DequeSpec.curReplace d.abs it.cur x).2.2 ∧
    (iterReplace it d x m).2.2.1.Inv ∧ (iterReplace it d x m).2.2.2 = m := by
  have hbig := size_lt_two_pow_64 d hi
  unfold iterReplace DequeSpec.curReplace Iter.cur
  by_cases h0 : it.index = 0
  · have hoor : decIdx it.index ≥ d.size := by unfold decIdx; rw [if_pos h0]; omega
    have : d.replaceAt x (decIdx it.index) m = (.errOutOfRange, none, d, m) := by
      unfold replaceAt; rw [if_pos hoor]
    rw [this]
    simp only [h0, if_true]
    exact ⟨tr, tr, tr, hi, tr⟩
  · have hdec : decIdx it.index = it.index - 1 := by unfold decIdx; rw [if_neg h0]
    simp only [h0, if_false]
    rw [hdec]
    obtain ⟨r1, r2, r3, r4, r5, _⟩ := replaceAt_spec d x (it.index - 1) m hi
    exact ⟨r1, r2, r3, r4, r5⟩

/-- **`cc_deque_iter_add`, partial (finding D3)**: inserts directly behind the element yielded last
(at the end when everything has been passed) and steps over the new element; refused growth leaves
everything, the cursor included, unchanged.  Hypothesis: the cursor position is outside the front-half
range of `add_at`. -/
theorem iterAdd_refines_partial (it : Iter) (d : Deque) (x : Nat) (m : Mem) (hi : d.Inv)
    (hD3 : ¬ (1 ≤ it.index ∧ it.index + 1 ≤ d.size / 2)) :
    ((iterAdd it d x m).1 = (DequeSpec.curAdd d.abs it.cur x).1 ∧
      (iterAdd it d x m).2.2.1.abs = (DequeSpec.curAdd d.abs it.cur x).2.1 ∧
      (iterAdd it d x m).2.1.cur = (DequeSpec.curAdd d.abs it.cur x).2.2 ∧
      (iterAdd it d x m).2.2.1.Inv ∧ memSame d.triple (iterAdd it d x m).2.2.2 m) ∨
    ((iterAdd it d x m).1 = .errAlloc ∧ (iterAdd it d x m).2.2.1 = d ∧ (iterAdd it d x m).2.1 = it ∧
      memSame d.triple (iterAdd it d x m).2.2.2 m ∧ d.size = d.cap ∧ ((m.allocT d.triple).1 = false ∨ d.cap = Gen.MAX_POW_TWO)) := by
  unfold iterAdd DequeSpec.curAdd Iter.cur
  by_cases hend : it.index = d.size
  · simp only [hend, if_true, abs_length, Nat.le_refl]
    rcases addLast_spec d x m hi with ⟨a1, a2, a3, a4, _⟩ | ⟨a1, a2, a3, a4, a5⟩
    · left
      simp only [a1, if_true]
      refine ⟨tr, ?_, tr, a2, a4⟩
      rw [a3]
      have : d.size = d.abs.length := by simp
      rw [this, List.insertIdx_length_self]
    · right
      have hne : ¬ (d.addLast x m).1 = Stat.ok := by rw [a1]; decide
      simp only [hne, if_false]
      exact ⟨a1, a2, by first | trivial | rw [← hend], a3, a4, a5⟩
  · simp only [hend, if_false, abs_length]
    rcases addAt_refines_partial d x it.index m hi hD3 with ⟨a1, a2, a3, a4, _⟩ | ⟨a1, a2, a3, a4, a5, a6⟩
    · left
      unfold DequeSpec.addAt at a1 a2
      by_cases hlt : it.index < d.size
      · rw [if_pos (by simpa using hlt)] at a1 a2
        simp only at a1 a2
        simp only [a1, if_true]
        rw [if_pos (by omega)]
        exact ⟨tr, a2, tr, a3, a4⟩
      · rw [if_neg (by simpa using hlt)] at a1 a2
        simp only at a1 a2
        have hne : ¬ (d.addAt x it.index m).1 = Stat.ok := by rw [a1]; decide
        simp only [hne, if_false]
        rw [if_neg (by omega)]
        exact ⟨a1, a2, tr, a3, a4⟩
    · right
      have hne : ¬ (d.addAt x it.index m).1 = Stat.ok := by rw [a1]; decide
      simp only [hne, if_false]
      exact ⟨a1, a2, tr, a3, a5, a6⟩

/-- `cc_deque_iter_index` reports the position of the element yielded last -/
theorem iterIndex_spec (it : Iter) (h : 1 ≤ it.index) : iterIndex it = it.cur.pos - 1 := by
  unfold iterIndex decIdx Iter.cur; rw [if_neg (by omega)]

/-! ## zip iterator -/

/-- **`cc_deque_zip_iter_next`**: lock-step over two deques, ends at the shorter one -/
theorem zipNext_spec (it : Iter) (d1 d2 : Deque) (m : Mem) (h1 : d1.Inv) (h2 : d2.Inv) :
    (zipNext it d1 d2 m).1 = (DequeSpec.zipNext d1.abs d2.abs it.cur).1 ∧
    (zipNext it d1 d2 m).2.1 = (DequeSpec.zipNext d1.abs d2.abs it.cur).2.1 ∧
    (zipNext it d1 d2 m).2.2.1.cur = (DequeSpec.zipNext d1.abs d2.abs it.cur).2.2 ∧
    (zipNext it d1 d2 m).2.2.2 = m := by
  have hp1 := Inv.cap_pos h1
  have hp2 := Inv.cap_pos h2
  unfold zipNext DequeSpec.zipNext Iter.cur
  by_cases ha : it.index ≥ d1.size
  · rw [if_pos ha]
    simp only
    rw [List.getElem?_eq_none (by simpa using ha)]
    exact ⟨tr, tr, tr, tr⟩
  · rw [if_neg ha]
    by_cases hb : it.index ≥ d2.size
    · rw [if_pos hb]
      simp only
      rw [List.getElem?_eq_none (l := d2.abs) (by simpa using hb)]
      cases d1.abs[it.index]? <;> exact ⟨tr, tr, tr, tr⟩
    · rw [if_neg hb]
      simp only
      rw [abs_getElem? d1 it.index (by omega), abs_getElem? d2 it.index (by omega)]
      refine ⟨tr, tr, tr, ?_⟩
      rw [rd_snd _ _ _ (Nat.lt_of_lt_of_le (Nat.mod_lt _ hp2) (Nat.le_of_eq h2.2.2.1.symm)),
        rd_snd _ _ _ (Nat.lt_of_lt_of_le (Nat.mod_lt _ hp1) (Nat.le_of_eq h1.2.2.1.symm))]

/-- **`cc_deque_zip_iter_replace`** -/
theorem zipReplace_spec (it : Iter) (d1 d2 : Deque) (x y : Nat) (m : Mem) (h1 : d1.Inv) (h2 : d2.Inv) :
    (zipReplace it d1 d2 x y m).1 = (DequeSpec.zipReplace d1.abs d2.abs it.cur x y).1 ∧
    (zipReplace it d1 d2 x y m).2.1 = (DequeSpec.zipReplace d1.abs d2.abs it.cur x y).2.1 ∧
    (zipReplace it d1 d2 x y m).2.2.1.abs = (DequeSpec.zipReplace d1.abs d2.abs it.cur x y).2.2.1 ∧
    (zipReplace it d1 d2 x y m).2.2.2.1.abs = (DequeSpec.zipReplace d1.abs d2.abs it.cur x y).2.2.2 ∧
    (zipReplace it d1 d2 x y m).2.2.1.Inv ∧ (zipReplace it d1 d2 x y m).2.2.2.1.Inv ∧
    (zipReplace it d1 d2 x y m).2.2.2.2 = m := by
  have hb1 := size_lt_two_pow_64 d1 h1
  have hb2 := size_lt_two_pow_64 d2 h2
  unfold zipReplace DequeSpec.zipReplace Iter.cur
  by_cases h0 : it.index = 0
  · have hoor : decIdx it.index ≥ d1.size := by unfold decIdx; rw [if_pos h0]; omega
    rw [if_pos (Or.inl hoor)]
    simp only [h0, if_true]
    exact ⟨tr, tr, tr, tr, h1, h2, tr⟩
  · have hdec : decIdx it.index = it.index - 1 := by unfold decIdx; rw [if_neg h0]
    rw [hdec]
    simp only [h0, if_false]
    by_cases hr : it.index - 1 ≥ d1.size ∨ it.index - 1 ≥ d2.size
    · rw [if_pos hr]
      rcases hr with hr | hr
      · rw [List.getElem?_eq_none (l := d1.abs) (by simpa using hr)]
        exact ⟨tr, tr, tr, tr, h1, h2, tr⟩
      · rw [List.getElem?_eq_none (l := d2.abs) (by simpa using hr)]
        cases d1.abs[it.index - 1]? <;> exact ⟨tr, tr, tr, tr, h1, h2, tr⟩
    · rw [if_neg hr]
      have hl1 : it.index - 1 < d1.abs.length := by simp; omega
      have hl2 : it.index - 1 < d2.abs.length := by simp; omega
      obtain ⟨r1, r2, r3, r4, r5, _⟩ := replaceAt_spec d1 x (it.index - 1) m h1
      obtain ⟨s1, s2, s3, s4, s5, _⟩ := replaceAt_spec d2 y (it.index - 1) (d1.replaceAt x (it.index - 1) m).2.2.2 h2
      unfold DequeSpec.replaceAt at r1 r2 r3 s1 s2 s3
      rw [dif_pos hl1] at r1 r2 r3
      rw [dif_pos hl2] at s1 s2 s3
      simp only at r2 r3 s2 s3
      rw [List.getElem?_eq_getElem hl1, List.getElem?_eq_getElem hl2]
      simp only
      refine ⟨tr, by rw [r2, s2]; rfl, r3, s3, r4, s4, by rw [s5, r5]⟩

/-- **`cc_deque_zip_iter_remove`** -/
theorem zipRemove_spec (it : Iter) (d1 d2 : Deque) (m : Mem) (h1 : d1.Inv) (h2 : d2.Inv) :
    (zipRemove it d1 d2 m).1 = (DequeSpec.zipRemove d1.abs d2.abs it.cur).1 ∧
    (zipRemove it d1 d2 m).2.1 = (DequeSpec.zipRemove d1.abs d2.abs it.cur).2.1 ∧
    (zipRemove it d1 d2 m).2.2.2.1.abs = (DequeSpec.zipRemove d1.abs d2.abs it.cur).2.2.1 ∧
    (zipRemove it d1 d2 m).2.2.2.2.1.abs = (DequeSpec.zipRemove d1.abs d2.abs it.cur).2.2.2.1 ∧
    (zipRemove it d1 d2 m).2.2.1.cur = (DequeSpec.zipRemove d1.abs d2.abs it.cur).2.2.2.2 ∧
    (zipRemove it d1 d2 m).2.2.2.1.Inv ∧ (zipRemove it d1 d2 m).2.2.2.2.1.Inv ∧
    (zipRemove it d1 d2 m).2.2.2.2.2 = m := by
  have hb1 := size_lt_two_pow_64 d1 h1
  have hb2 := size_lt_two_pow_64 d2 h2
  unfold zipRemove DequeSpec.zipRemove Iter.cur
  by_cases hr : it.lastRemoved = true
  · simp only [hr, if_true]
    exact ⟨tr, tr, tr, tr, tr, h1, h2, tr⟩
  have hr' : it.lastRemoved = false := by simpa using hr
  simp only [hr, Bool.false_eq_true, if_false]
  by_cases h0 : it.index = 0
  · have hoor : decIdx it.index ≥ d1.size := by unfold decIdx; rw [if_pos h0]; omega
    rw [if_pos (Or.inl hoor)]
    simp only [h0, if_true]
    exact ⟨tr, tr, tr, tr, by simp [hr'], h1, h2, tr⟩
  · have hdec : decIdx it.index = it.index - 1 := by unfold decIdx; rw [if_neg h0]
    rw [hdec]
    simp only [h0, if_false]
    by_cases hrng : it.index - 1 ≥ d1.size ∨ it.index - 1 ≥ d2.size
    · rw [if_pos hrng]
      rcases hrng with hrng | hrng
      · rw [List.getElem?_eq_none (l := d1.abs) (by simpa using hrng)]
        exact ⟨tr, tr, tr, tr, by first | rfl | simp [hr'], h1, h2, tr⟩
      · rw [List.getElem?_eq_none (l := d2.abs) (by simpa using hrng)]
        cases d1.abs[it.index - 1]? <;> exact ⟨tr, tr, tr, tr, by first | rfl | simp [hr'], h1, h2, tr⟩
    · rw [if_neg hrng]
      have hl1 : it.index - 1 < d1.abs.length := by simp; omega
      have hl2 : it.index - 1 < d2.abs.length := by simp; omega
      obtain ⟨r1, r2, r3, r4, r5, _⟩ := removeAt_spec d1 (it.index - 1) m h1
      obtain ⟨s1, s2, s3, s4, s5, _⟩ := removeAt_spec d2 (it.index - 1) (d1.removeAt (it.index - 1) m).2.2.2 h2
      unfold DequeSpec.removeAt at r1 r2 r3 s1 s2 s3
      rw [dif_pos hl1] at r1 r2 r3
      rw [dif_pos hl2] at s1 s2 s3
      simp only at r2 r3 s2 s3
      rw [List.getElem?_eq_getElem hl1, List.getElem?_eq_getElem hl2]
      simp only
      refine ⟨tr, by rw [r2, s2]; rfl, r3, s3, tr, r4, s4, by rw [s5, r5]⟩

/-- with room and an index in range `add_at` cannot fail (whatever it inserts where: D3 included) -/
theorem addAt_ok_of_room (d : Deque) (x i : Nat) (m : Mem) (hi : d.Inv) (hidx : i < d.size) (hroom : d.size < d.cap) :
    (d.addAt x i m).1 = .ok := by
  by_cases h : (d.addAt x i m).1 = .ok
  · exact h
  · rcases ((addAt_inv d x i m hi).2.2.2 h).2 with ⟨_, h1⟩ | ⟨_, _, h1⟩ <;> omega

/-- growth step used by `zip_iter_add`: expand when full -/
def growIfFull (d : Deque) (m : Mem) : Stat × Deque × Mem :=
  if d.cap = d.size then d.expandCapacity m else (Stat.ok, d, m)

theorem growIfFull_spec (d : Deque) (m : Mem) (hi : d.Inv) :
    ((growIfFull d m).1 = .ok ∧ (growIfFull d m).2.1.Inv ∧ (growIfFull d m).2.1.abs = d.abs ∧
      (growIfFull d m).2.1.size = d.size ∧ (growIfFull d m).2.1.size < (growIfFull d m).2.1.cap ∧
      memSame d.triple (growIfFull d m).2.2 m) ∨
    ((growIfFull d m).1 ≠ .ok ∧ (growIfFull d m).2.1 = d ∧ memSame d.triple (growIfFull d m).2.2 m ∧ d.size = d.cap) := by
  have hpos := Inv.cap_pos hi
  have hsz := hi.2.2.2.2.2
  unfold growIfFull
  by_cases hfull : d.cap = d.size
  · rw [if_pos hfull]
    by_cases he : (d.expandCapacity m).1 = .ok
    · obtain ⟨e1, e2, e3, e4, e5, _⟩ := expandCapacity_ok d m hi he
      exact Or.inl ⟨he, e1, e2, e3, by rw [e3, e4]; omega, e5⟩
    · obtain ⟨f1, f2, _⟩ := expandCapacity_fail d m he
      exact Or.inr ⟨he, f1, f2, hfull.symm⟩
  · rw [if_neg hfull]
    exact Or.inl ⟨rfl, hi, rfl, rfl, by simp only; omega, memSame_refl _ m⟩

theorem growIfFull_triple (d : Deque) (m : Mem) : (growIfFull d m).2.1.triple = d.triple := by
  unfold growIfFull; split
  · exact expandCapacity_triple d m
  · rfl

/-- **`cc_deque_zip_iter_add`, partial (finding D3)**: a pair is inserted at the cursor position of both
deques, or — when one of the deques is full and its growth is refused — `CC_ERR_ALLOC` is reported and
the *content* of both deques and the cursor are unchanged (the first deque may already have been given
a larger buffer: atomicity holds for the abstraction, not for the physical state).  Hypothesis: the
cursor position is outside the front-half range of `add_at` for both sizes. -/
theorem zipAdd_refines_partial (it : Iter) (d1 d2 : Deque) (x y : Nat) (m : Mem) (h1 : d1.Inv) (h2 : d2.Inv)
    (hD31 : ¬ (1 ≤ it.index ∧ it.index + 1 ≤ d1.size / 2))
    (hD32 : ¬ (1 ≤ it.index ∧ it.index + 1 ≤ d2.size / 2)) :
    ((zipAdd it d1 d2 x y m).1 = (DequeSpec.zipAdd d1.abs d2.abs it.cur x y).1 ∧
      (zipAdd it d1 d2 x y m).2.2.1.abs = (DequeSpec.zipAdd d1.abs d2.abs it.cur x y).2.1 ∧
      (zipAdd it d1 d2 x y m).2.2.2.1.abs = (DequeSpec.zipAdd d1.abs d2.abs it.cur x y).2.2.1 ∧
      (zipAdd it d1 d2 x y m).2.1.cur = (DequeSpec.zipAdd d1.abs d2.abs it.cur x y).2.2.2 ∧
      (zipAdd it d1 d2 x y m).2.2.1.Inv ∧ (zipAdd it d1 d2 x y m).2.2.2.1.Inv ∧
      memSame2 d1.triple d2.triple (zipAdd it d1 d2 x y m).2.2.2.2 m) ∨
    ((zipAdd it d1 d2 x y m).1 = .errAlloc ∧ (zipAdd it d1 d2 x y m).2.2.1.abs = d1.abs ∧
      (zipAdd it d1 d2 x y m).2.2.2.1.abs = d2.abs ∧ (zipAdd it d1 d2 x y m).2.1 = it ∧
      (zipAdd it d1 d2 x y m).2.2.1.Inv ∧ (zipAdd it d1 d2 x y m).2.2.2.1.Inv ∧
      memSame2 d1.triple d2.triple (zipAdd it d1 d2 x y m).2.2.2.2 m ∧ (d1.size = d1.cap ∨ d2.size = d2.cap)) := by
  unfold zipAdd DequeSpec.zipAdd Iter.cur
  by_cases hr : it.index ≥ d1.size ∨ it.index ≥ d2.size
  · left
    rw [if_pos hr, if_neg (by simp only [abs_length]; omega)]
    exact ⟨tr, tr, tr, tr, h1, h2, memSame2_refl _ _ m⟩
  have hi1 : it.index < d1.size := by omega
  have hi2 : it.index < d2.size := by omega
  have hc : it.index < d1.abs.length ∧ it.index < d2.abs.length := by simp only [abs_length]; omega
  rw [if_neg hr, if_pos hc]
  dsimp only
  have fold1 : (if d1.cap = d1.size then d1.expandCapacity m else (Stat.ok, d1, m)) = growIfFull d1 m := rfl
  rw [fold1]
  have fold2 : ∀ m', (if d2.cap = d2.size then d2.expandCapacity m' else (Stat.ok, d2, m')) = growIfFull d2 m' :=
    fun _ => rfl
  simp only [fold2]
  rcases growIfFull_spec d1 m h1 with ⟨a1, a2, a3, a4, a5, a6⟩ | ⟨a1, a2, a3, a4⟩
  · have hne1 : ((growIfFull d1 m).1 != Stat.ok) = false := by simp [a1]
    simp only [hne1, Bool.false_eq_true, if_false]
    rcases growIfFull_spec d2 (growIfFull d1 m).2.2 h2 with ⟨b1, b2, b3, b4, b5, b6⟩ | ⟨b1, b2, b3, b4⟩
    · have hne2 : ((growIfFull d2 (growIfFull d1 m).2.2).1 != Stat.ok) = false := by simp [b1]
      simp only [hne2, Bool.false_eq_true, if_false]
      left
      have hok1 := addAt_ok_of_room (growIfFull d1 m).2.1 x it.index (growIfFull d2 (growIfFull d1 m).2.2).2.2 a2
        (by rw [a4]; exact hi1) a5
      have hok2 := addAt_ok_of_room (growIfFull d2 (growIfFull d1 m).2.2).2.1 y it.index
        ((growIfFull d1 m).2.1.addAt x it.index (growIfFull d2 (growIfFull d1 m).2.2).2.2).2.2 b2
        (by rw [b4]; exact hi2) b5
      have hb1 : (((growIfFull d1 m).2.1.addAt x it.index (growIfFull d2 (growIfFull d1 m).2.2).2.2).1 != Stat.ok) = false := by
        simp [hok1]
      have hb2 : (((growIfFull d2 (growIfFull d1 m).2.2).2.1.addAt y it.index
        ((growIfFull d1 m).2.1.addAt x it.index (growIfFull d2 (growIfFull d1 m).2.2).2.2).2.2).1 != Stat.ok) = false := by
        simp [hok2]
      simp only [hb1, hb2, Bool.false_eq_true, if_false]
      rcases addAt_refines_partial _ x it.index _ a2 (by rw [a4]; exact hD31) with
        ⟨p1, p2, p3, p4, _⟩ | ⟨_, _, _, _, p5, _⟩
      · rcases addAt_refines_partial _ y it.index _ b2 (by rw [b4]; exact hD32) with
          ⟨q1, q2, q3, q4, _⟩ | ⟨_, _, _, _, q5, _⟩
        · unfold DequeSpec.addAt at p2 q2
          rw [a3, if_pos (by simpa using hi1)] at p2
          rw [b3, if_pos (by simpa using hi2)] at q2
          refine ⟨tr, p2, q2, tr, p3, q3, ?_⟩
          rw [growIfFull_triple] at p4 q4
          exact memSame2_trans (memSame2_right _ q4) (memSame2_trans (memSame2_left _ p4)
            (memSame2_trans (memSame2_right _ b6) (memSame2_left _ a6)))
        · omega
      · omega
    · right
      have hne2 : ((growIfFull d2 (growIfFull d1 m).2.2).1 != Stat.ok) = true := by simp [b1]
      simp only [hne2, if_true]
      refine ⟨tr, a3, by rw [b2], tr, a2, by rw [b2]; exact h2,
        memSame2_trans (memSame2_right _ b3) (memSame2_left _ a6), Or.inr b4⟩
  · right
    have hne1 : ((growIfFull d1 m).1 != Stat.ok) = true := by simp [a1]
    simp only [hne1, if_true]
    refine ⟨tr, by rw [a2], tr, tr, by rw [a2]; exact h1, h2, memSame2_left _ a3, Or.inl a4⟩

/-! ## iterator operations never change a deque's allocator triple -/

theorem iterRemove_triple (it : Iter) (d : Deque) (m : Mem) : (iterRemove it d m).2.2.2.1.triple = d.triple := by
  unfold iterRemove
  split; · rfl
  dsimp only
  split <;> exact removeAt_triple d _ m

theorem iterAdd_triple (it : Iter) (d : Deque) (x : Nat) (m : Mem) : (iterAdd it d x m).2.2.1.triple = d.triple := by
  unfold iterAdd
  dsimp only
  split
  · split <;> exact addLast_triple d x m
  · split <;> exact addAt_triple d x _ m

theorem iterReplace_triple (it : Iter) (d : Deque) (x : Nat) (m : Mem) :
    (iterReplace it d x m).2.2.1.triple = d.triple := replaceAt_triple d x _ m

theorem zipRemove_triple (it : Iter) (d1 d2 : Deque) (m : Mem) :
    (zipRemove it d1 d2 m).2.2.2.1.triple = d1.triple ∧ (zipRemove it d1 d2 m).2.2.2.2.1.triple = d2.triple := by
  unfold zipRemove
  split; · exact ⟨rfl, rfl⟩
  split; · exact ⟨rfl, rfl⟩
  exact ⟨removeAt_triple d1 _ _, removeAt_triple d2 _ _⟩

theorem zipReplace_triple (it : Iter) (d1 d2 : Deque) (x y : Nat) (m : Mem) :
    (zipReplace it d1 d2 x y m).2.2.1.triple = d1.triple ∧ (zipReplace it d1 d2 x y m).2.2.2.1.triple = d2.triple := by
  unfold zipReplace
  split; · exact ⟨rfl, rfl⟩
  exact ⟨replaceAt_triple d1 _ _ _, replaceAt_triple d2 _ _ _⟩

theorem zipAdd_triple (it : Iter) (d1 d2 : Deque) (x y : Nat) (m : Mem) :
    (zipAdd it d1 d2 x y m).2.2.1.triple = d1.triple ∧ (zipAdd it d1 d2 x y m).2.2.2.1.triple = d2.triple := by
  unfold zipAdd
  split; · exact ⟨rfl, rfl⟩
  dsimp only
  have fold1 : ∀ n, (if d1.cap = d1.size then d1.expandCapacity n else (Stat.ok, d1, n)) = growIfFull d1 n :=
    fun _ => rfl
  have fold2 : ∀ n, (if d2.cap = d2.size then d2.expandCapacity n else (Stat.ok, d2, n)) = growIfFull d2 n :=
    fun _ => rfl
  simp only [fold1, fold2]
  split; · exact ⟨growIfFull_triple d1 m, rfl⟩
  split; · exact ⟨growIfFull_triple d1 m, growIfFull_triple d2 _⟩
  split; · exact ⟨(addAt_triple _ _ _ _).trans (growIfFull_triple d1 m), growIfFull_triple d2 _⟩
  split
  · exact ⟨(removeAt_triple _ _ _).trans ((addAt_triple _ _ _ _).trans (growIfFull_triple d1 m)),
      (addAt_triple _ _ _ _).trans (growIfFull_triple d2 _)⟩
  · exact ⟨(addAt_triple _ _ _ _).trans (growIfFull_triple d1 m), (addAt_triple _ _ _ _).trans (growIfFull_triple d2 _)⟩

end CC.Deque
