import CollectionsC.Proofs.PList
/-! Pointer-level model of `cc_list.c`, part 2: every helper and every public function preserves the
representation predicate; the resulting cell sequence is given explicitly (it is the `Spec.LSeq`
result on the contents, with the surviving nodes keeping their identity). -/
namespace CC.PList
open CC

theorem nodup_append_cons {pre post : List Cell} {a : Cell} (h : (idsOf (pre ++ a :: post)).Nodup) :
    (idsOf pre).Nodup ∧ (idsOf post).Nodup ∧ a.1 ∉ idsOf pre ∧ a.1 ∉ idsOf post ∧ (∀ x, x ∈ idsOf pre → x ∉ idsOf post) ∧
    (idsOf (pre ++ post)).Nodup := by
  simp only [idsOf_append, idsOf_cons] at h ⊢
  rw [List.nodup_append] at h
  obtain ⟨h1, h2, h3⟩ := h
  rw [List.nodup_cons] at h2
  refine ⟨h1, h2.2, fun hm => h3 _ hm _ List.mem_cons_self rfl, h2.1, fun x hx hp => h3 x hx x (List.mem_cons_of_mem _ hp) rfl, ?_⟩
  rw [List.nodup_append]
  exact ⟨h1, h2.2, fun x hx y hy => h3 x hx y (List.mem_cons_of_mem _ hy)⟩

theorem eq_nil_or_snoc (xs : List Cell) : xs = [] ∨ ∃ ys b, xs = ys ++ [b] := by
  rcases List.eq_nil_or_concat xs with e | ⟨ys, b, e⟩
  · exact Or.inl e
  · exact Or.inr ⟨ys, b, by rw [e, List.concat_eq_append]⟩

theorem lastOr_mem {xs : List Cell} {q : Nat} (h : lastOr xs none = some q) : q ∈ idsOf xs := by
  rcases eq_nil_or_snoc xs with e | ⟨ys, b, e⟩
  · subst e; cases h
  · subst e; rw [lastOr_concat] at h; cases h; simp
theorem nxt_mem {xs : List Cell} {q : Nat} (h : nxt xs none = some q) : q ∈ idsOf xs := by
  cases xs with
  | nil => cases h
  | cons b r => rw [nxt_cons] at h; cases h; simp

/-- re-point the `next` of the last node of a prefix -/
theorem Seg_setNext_lastOr {h : Heap} {pre : List Cell} {n : Option Nat} (v : Option Nat) (hs : Seg h none pre n)
    (hn : (idsOf pre).Nodup) :
    Seg (match lastOr pre none with | some q => setNext h q v | none => h) none pre v := by
  rcases eq_nil_or_snoc pre with e | ⟨ys, b, e⟩
  · subst e; trivial
  · subst e
    simp only [lastOr_concat]
    refine Seg_setNext_last v hs ?_
    simp only [idsOf_append, idsOf_cons, idsOf_nil] at hn
    rw [List.nodup_append] at hn
    exact fun hm => hn.2.2 _ hm _ List.mem_cons_self rfl

/-- re-point the `prev` of the first node of a suffix -/
theorem Seg_setPrev_nxt {h : Heap} {post : List Cell} {p : Option Nat} (v : Option Nat) (hs : Seg h p post none)
    (hn : (idsOf post).Nodup) :
    Seg (match nxt post none with | some x => setPrev h x v | none => h) v post none := by
  cases post with
  | nil => trivial
  | cons c r =>
    simp only [nxt_cons]
    refine Seg_setPrev_first v hs ?_
    simp only [idsOf_cons, List.nodup_cons] at hn
    exact hn.1

theorem free_ne (s : St) (id a : Nat) (h : a ≠ id) : (s.free id).heap a = s.heap a := by
  show (if a = id then none else s.heap a) = _; rw [if_neg h]
theorem alloc_ne (s : St) (a : Nat) (h : a ≠ s.fresh) : s.alloc.2.heap a = s.heap a := by
  show (if a = s.fresh then _ else s.heap a) = _; rw [if_neg h]
theorem alloc_eq (s : St) : s.alloc.2.heap s.fresh = some {} := by
  show (if s.fresh = s.fresh then _ else _) = _; rw [if_pos rfl]

/-- what a single-list operation guarantees besides the representation of its result -/
structure Keeps (s s' : St) (l l' : Hdr) (cs cs' : List Cell) : Prop where
  repr : Repr s'.heap l' cs'
  triple : l'.triple = l.triple
  mono : s.fresh ≤ s'.fresh
  bound : ∀ a, a ∈ idsOf cs' → a < s'.fresh
  frame : ∀ b, b ∉ idsOf cs → b < s.fresh → s'.heap b = s.heap b
  dead : ∀ a, a ∈ idsOf cs → a ∉ idsOf cs' → s'.heap a = none

/-- a node that left the list is released: absent from the heap (a later read or write of it is a fault, see `St.live`) -/
theorem free_eq (s : St) (id : Nat) : (s.free id).heap id = none := by
  show (if id = id then none else s.heap id) = _; rw [if_pos rfl]

/-- **`unlinkn`** of the node in the middle of `pre ++ a :: post` -/
theorem unlinkn_spec (s : St) (l : Hdr) (pre post : List Cell) (a : Cell) (m : Mem)
    (r : Repr s.heap l (pre ++ a :: post)) (hb : ∀ x, x ∈ idsOf (pre ++ a :: post) → x < s.fresh) :
    (unlinkn s l a.1 m).1 = a.2 ∧ (unlinkn s l a.1 m).2.2.2 = m.freeT l.triple ∧
    Keeps s (unlinkn s l a.1 m).2.1 l (unlinkn s l a.1 m).2.2.1 (pre ++ a :: post) (pre ++ post) := by
  obtain ⟨n1, n2, na1, na2, nd12, n12⟩ := nodup_append_cons r.nodup
  obtain ⟨s1, ha, s2⟩ := Seg_split r.seg
  have hn := nd_of ha
  unfold unlinkn
  simp only [hn, live_some, ha, Option.isSome_some, Mem.check_true]
  refine ⟨by first | trivial | rfl, ?_, ?_⟩
  · -- the triple of the header is not touched by the `if`s
    split <;> split <;> rfl
  · have e1 := Seg_setNext_lastOr (nxt post none) s1 n1
    have e2 := Seg_setPrev_nxt (lastOr pre none) s2 n2
    -- the heap after the two writes and the release
    have hseg : Seg (St.free { s with heap :=
        (match nxt post none with
         | some x => setPrev (match lastOr pre none with | some p => setNext s.heap p (nxt post none) | none => s.heap) x (lastOr pre none)
         | none => (match lastOr pre none with | some p => setNext s.heap p (nxt post none) | none => s.heap)) } a.1).heap
        none (pre ++ post) none := by
      rw [Seg_append]
      constructor
      · refine Seg_frame (fun b hb' => ?_) e1
        rw [free_ne _ _ _ (fun e => na1 (by rw [← e]; exact hb'))]
        cases hx : nxt post none with
        | none => rfl
        | some x => simp only []; exact upd_ne _ _ _ _ (fun e => nd12 b hb' (by rw [e]; exact nxt_mem hx))
      · refine Seg_frame (fun b hb' => ?_) e2
        rw [free_ne _ _ _ (fun e => na2 (by rw [← e]; exact hb'))]
        cases hx : nxt post none with
        | none =>
          simp only []
          cases hq : lastOr pre none with
          | none => rfl
          | some q => simp only []; exact upd_ne _ _ _ _ (fun e => nd12 q (lastOr_mem hq) (by rw [← e]; exact hb'))
        | some x =>
          simp only []
          by_cases ex : b = x
          · subst ex
            rw [setPrev, upd_eq, setPrev, upd_eq]
            cases hq : lastOr pre none with
            | none => rfl
            | some q => simp only []; rw [setNext, upd_ne _ _ _ _ (fun e => nd12 q (lastOr_mem hq) (by rw [← e]; exact hb'))]
          · rw [setPrev, upd_ne _ _ _ _ ex, setPrev, upd_ne _ _ _ _ ex]
            cases hq : lastOr pre none with
            | none => rfl
            | some q => simp only []; exact upd_ne _ _ _ _ (fun e => nd12 q (lastOr_mem hq) (by rw [← e]; exact hb'))
    have hsz := r.size
    have hhd := r.head
    have htl := r.tail
    refine ⟨⟨n12, hseg, ?_, ?_, ?_⟩, ?_, Nat.le_refl _, ?_, ?_, ?_⟩
    · rcases eq_nil_or_snoc pre with e | ⟨ys, b, e⟩ <;> subst e <;> cases post <;>
        simp [nxt_append, lastOr_append] at hsz hhd htl ⊢ <;> omega
    · rcases eq_nil_or_snoc pre with e | ⟨ys, b, e⟩ <;> subst e <;> cases post <;>
        simp [nxt_append, lastOr_append] at hsz hhd htl ⊢ <;> first | exact hhd | skip
    · rcases eq_nil_or_snoc pre with e | ⟨ys, b, e⟩ <;> subst e <;> cases post <;>
        simp [nxt_append, lastOr_append] at hsz hhd htl ⊢ <;> first | exact htl | skip
    · split <;> split <;> rfl
    · intro x hx
      refine hb x ?_
      simp only [idsOf_append, idsOf_cons, List.mem_append, List.mem_cons] at hx ⊢
      rcases hx with hx | hx
      · exact Or.inl hx
      · exact Or.inr (Or.inr hx)
    · intro b hnb _
      have hba : b ≠ a.1 := fun e => hnb (by simp [e])
      rw [free_ne _ _ _ hba]
      have hpre : ∀ q, lastOr pre none = some q → b ≠ q := fun q hq e => hnb (by
        have := lastOr_mem hq; simp [e, this])
      have hpost : ∀ x, nxt post none = some x → b ≠ x := fun x hx e => hnb (by
        have := nxt_mem hx; simp [e, this])
      cases hx : nxt post none with
      | none =>
        simp only []
        cases hq : lastOr pre none with
        | none => rfl
        | some q => simp only []; exact upd_ne _ _ _ _ (hpre q hq)
      | some x =>
        simp only []
        rw [setPrev, upd_ne _ _ _ _ (hpost x hx)]
        cases hq : lastOr pre none with
        | none => rfl
        | some q => simp only []; exact upd_ne _ _ _ _ (hpre q hq)
    · intro a' ha' hna'
      have e : a' = a.1 := by
        simp only [idsOf_append, idsOf_cons, List.mem_append, List.mem_cons, not_or] at ha' hna'
        rcases ha' with h | h | h
        · exact absurd h hna'.1
        · exact h
        · exact absurd h hna'.2
      subst e
      exact free_eq _ _

theorem ok_bne : (Stat.ok != Stat.ok) = false := by decide
theorem oor_bne : (Stat.errOutOfRange != Stat.ok) = true := by decide

/-! ### positions -/
theorem split_at (cs : List Cell) (i : Nat) (hi : i < cs.length) :
    ∃ pre a post, cs = pre ++ a :: post ∧ pre.length = i ∧ (idsOf cs)[i]? = some a.1 ∧ (dataOf cs).getD i 0 = a.2 := by
  refine ⟨cs.take i, cs[i], cs.drop (i + 1), ?_, by simp; omega, ?_, ?_⟩
  · rw [← List.drop_eq_getElem_cons hi, List.take_append_drop]
  · simp [idsOf, hi]
  · simp [dataOf, hi]

theorem lastOr_of_ne' {xs : List Cell} (h : xs ≠ []) (p : Option Nat := none) : lastOr xs p = lastOr xs none := by
  rcases eq_nil_or_snoc xs with e | ⟨ys, b, e⟩
  · exact absurd e h
  · subst e; simp
theorem nxt_none_iff (xs : List Cell) : nxt xs none = none ↔ xs = [] := by cases xs <;> simp
theorem lastOr_none_iff (xs : List Cell) : lastOr xs none = none ↔ xs = [] := by
  rcases eq_nil_or_snoc xs with e | ⟨ys, b, e⟩ <;> subst e <;> simp

/-- **`cc_list_remove_at`** -/
theorem removeAt_spec (s : St) (l : Hdr) (cs : List Cell) (i : Nat) (m : Mem)
    (r : Repr s.heap l cs) (hb : ∀ x, x ∈ idsOf cs → x < s.fresh) :
    (¬ i < cs.length → removeAt s l i m = (.errOutOfRange, none, s, l, m)) ∧
    (∀ pre a post, cs = pre ++ a :: post → pre.length = i →
      (removeAt s l i m).1 = .ok ∧ (removeAt s l i m).2.1 = some a.2 ∧ (removeAt s l i m).2.2.2.2 = m.freeT l.triple ∧
      Keeps s (removeAt s l i m).2.2.1 l (removeAt s l i m).2.2.2.1 cs (pre ++ post)) := by
  unfold removeAt
  rw [getNodeAt_repr r]
  refine ⟨fun hi => by simp [hi], fun pre a post e hl => ?_⟩
  have hi : i < cs.length := by rw [e]; simp; omega
  obtain ⟨pre', a', post', e', hl', hid, _⟩ := split_at cs i hi
  have : pre' = pre ∧ a' = a ∧ post' = post := by
    have h1 := e.symm.trans e'
    have := List.append_inj h1 (by omega)
    exact ⟨this.1.symm, (List.cons.inj this.2).1.symm, (List.cons.inj this.2).2.symm⟩
  obtain ⟨rfl, rfl, rfl⟩ := this
  subst e
  simp only [hi, if_true, hid, ok_bne, Bool.false_eq_true, if_false]
  have u := unlinkn_spec s l pre' post' a' m r hb
  exact ⟨by first | trivial | rfl, by (first | rw [u.1] | (show _ = _; rw [u.1])), u.2.1, u.2.2⟩

/-- **`cc_list_remove_first`** -/
theorem removeFirst_spec (s : St) (l : Hdr) (cs : List Cell) (m : Mem)
    (r : Repr s.heap l cs) (hb : ∀ x, x ∈ idsOf cs → x < s.fresh) :
    (cs = [] → removeFirst s l m = (.errValueNotFound, none, s, l, m)) ∧
    (∀ a post, cs = a :: post →
      (removeFirst s l m).1 = .ok ∧ (removeFirst s l m).2.1 = some a.2 ∧ (removeFirst s l m).2.2.2.2 = m.freeT l.triple ∧
      Keeps s (removeFirst s l m).2.2.1 l (removeFirst s l m).2.2.2.1 cs post) := by
  unfold removeFirst
  refine ⟨fun e => by subst e; simp [r.size], fun a post e => ?_⟩
  subst e
  have hs : l.size ≠ 0 := by rw [r.size]; simp
  have hh : l.head = some a.1 := r.head
  simp only [hs, if_false, hh]
  have u := unlinkn_spec s l [] post a m r hb
  exact ⟨by first | trivial | rfl, by (first | rw [u.1] | (show _ = _; rw [u.1])), u.2.1, u.2.2⟩

/-- **`cc_list_remove_last`** -/
theorem removeLast_spec (s : St) (l : Hdr) (cs : List Cell) (m : Mem)
    (r : Repr s.heap l cs) (hb : ∀ x, x ∈ idsOf cs → x < s.fresh) :
    (cs = [] → removeLast s l m = (.errValueNotFound, none, s, l, m)) ∧
    (∀ pre a, cs = pre ++ [a] →
      (removeLast s l m).1 = .ok ∧ (removeLast s l m).2.1 = some a.2 ∧ (removeLast s l m).2.2.2.2 = m.freeT l.triple ∧
      Keeps s (removeLast s l m).2.2.1 l (removeLast s l m).2.2.2.1 cs pre) := by
  unfold removeLast
  refine ⟨fun e => by subst e; simp [r.size], fun pre a e => ?_⟩
  subst e
  have hs : l.size ≠ 0 := by rw [r.size]; simp
  have hh : l.tail = some a.1 := by rw [r.tail]; simp
  simp only [hs, if_false, hh]
  have u := unlinkn_spec s l pre [] a m r hb
  rw [List.append_nil] at u
  exact ⟨by first | trivial | rfl, by (first | rw [u.1] | (show _ = _; rw [u.1])), u.2.1, u.2.2⟩

/-- `get_node`: the first node whose content is `x` -/
theorem getNodeLoop_seg {h : Heap} (x : Nat) : ∀ {cs : List Cell} {p : Option Nat} (k : Nat), Seg h p cs none → cs.length ≤ k →
    getNodeLoop h x k (nxt cs none) = ((cs.find? fun c => c.2 == x).map (·.1))
  | [], _, k, _, _ => by cases k <;> rfl
  | a :: rest, p, k, hs, hk => by
    rw [Seg_cons] at hs
    cases k with
    | zero => simp at hk
    | succ k =>
      simp only [nxt_cons, getNodeLoop, nd_of hs.1, List.find?_cons]
      by_cases e : a.2 = x
      · simp [e]
      · have : (a.2 == x) = false := by simpa using e
        simp only [e, if_false, this]
        exact getNodeLoop_seg x k hs.2 (by simpa using hk)

theorem find_split (cs : List Cell) (x : Nat) (hx : x ∈ dataOf cs) :
    ∃ pre a post, cs = pre ++ a :: post ∧ a.2 = x ∧ x ∉ dataOf pre ∧ (cs.find? fun c => c.2 == x) = some a := by
  induction cs with
  | nil => simp at hx
  | cons c r ih =>
    by_cases e : c.2 = x
    · exact ⟨[], c, r, rfl, e, by simp, by simp [e]⟩
    · have : x ∈ dataOf r := by
        simp only [dataOf_cons, List.mem_cons] at hx
        rcases hx with hx | hx
        · exact absurd hx.symm e
        · exact hx
      obtain ⟨pre, a, post, e1, e2, e3, e4⟩ := ih this
      refine ⟨c :: pre, a, post, by rw [e1]; rfl, e2, ?_, ?_⟩
      · simp only [dataOf_cons, List.mem_cons, not_or]; exact ⟨fun h => e h.symm, e3⟩
      · have : (c.2 == x) = false := by simpa using e
        simp [List.find?_cons, this, e4]

/-- **`cc_list_remove`** (first node whose content is `x`) -/
theorem remove_spec (s : St) (l : Hdr) (cs : List Cell) (x : Nat) (m : Mem)
    (r : Repr s.heap l cs) (hb : ∀ y, y ∈ idsOf cs → y < s.fresh) :
    (x ∉ dataOf cs → remove s l x m = (.errValueNotFound, none, s, l, m)) ∧
    (∀ pre a post, cs = pre ++ a :: post → a.2 = x → x ∉ dataOf pre →
      (remove s l x m).1 = .ok ∧ (remove s l x m).2.1 = some x ∧ (remove s l x m).2.2.2.2 = m.freeT l.triple ∧
      Keeps s (remove s l x m).2.2.1 l (remove s l x m).2.2.2.1 cs (pre ++ post)) := by
  unfold remove getNode
  rw [r.size, r.head, getNodeLoop_seg x cs.length r.seg (Nat.le_refl _)]
  refine ⟨fun hx => ?_, fun pre a post e ea hpre => ?_⟩
  · have : (cs.find? fun c => c.2 == x) = none := by
      rw [List.find?_eq_none]; intro c hc; simp only [beq_iff_eq]; intro e; exact hx (by simp [dataOf]; exact ⟨c.1, by rw [← e]; exact hc⟩)
    simp [this]
  · have hx : x ∈ dataOf cs := by rw [e]; simp [ea]
    obtain ⟨pre', a', post', e', ea', hpre', hf⟩ := find_split cs x hx
    have : pre' = pre ∧ a' = a ∧ post' = post := by
      have h1 := e.symm.trans e'
      -- both prefixes are the longest x-free prefix
      have hlen : pre.length = pre'.length := by
        rcases Nat.lt_trichotomy pre.length pre'.length with hlt | heq | hgt
        · exfalso
          have : (pre ++ a :: post)[pre.length]? = (pre' ++ a' :: post')[pre.length]? := by rw [h1]
          rw [List.getElem?_append_right (Nat.le_refl _), List.getElem?_append_left hlt] at this
          simp at this
          have hm : a ∈ pre' := by
            have := this.symm; exact List.mem_of_getElem? this
          exact hpre' (by simp only [dataOf, List.mem_map]; exact ⟨a, hm, ea⟩)
        · exact heq
        · exfalso
          have : (pre ++ a :: post)[pre'.length]? = (pre' ++ a' :: post')[pre'.length]? := by rw [h1]
          rw [List.getElem?_append_right (Nat.le_refl _), List.getElem?_append_left hgt] at this
          simp at this
          have hm : a' ∈ pre := List.mem_of_getElem? this
          exact hpre (by simp only [dataOf, List.mem_map]; exact ⟨a', hm, ea'⟩)
      have := List.append_inj h1 hlen
      exact ⟨this.1.symm, (List.cons.inj this.2).1.symm, (List.cons.inj this.2).2.symm⟩
    obtain ⟨rfl, rfl, rfl⟩ := this
    subst e
    rw [hf]
    simp only [Option.map_some]
    have u := unlinkn_spec s l pre' post' a' m r hb
    exact ⟨by first | trivial | rfl, by (first | rw [u.1, ea] | (show _ = _; rw [u.1, ea])), u.2.1, u.2.2⟩

/-- **`cc_list_replace_at`** -/
theorem replaceAt_spec (s : St) (l : Hdr) (cs : List Cell) (x i : Nat) (m : Mem) (r : Repr s.heap l cs) :
    (¬ i < cs.length → replaceAt s l x i m = (.errOutOfRange, none, s, l, m)) ∧
    (∀ pre a post, cs = pre ++ a :: post → pre.length = i →
      replaceAt s l x i m = (.ok, some a.2, { s with heap := setData s.heap a.1 x }, l, m) ∧
      Repr (setData s.heap a.1 x) l (pre ++ (a.1, x) :: post) ∧
      (∀ b, b ∉ idsOf cs → (setData s.heap a.1 x) b = s.heap b)) := by
  unfold replaceAt
  rw [getNodeAt_repr r]
  refine ⟨fun hi => by simp [hi], fun pre a post e hl => ?_⟩
  have hi : i < cs.length := by rw [e]; simp; omega
  have hid : (idsOf cs)[i]? = some a.1 := by
    subst e; subst hl; simp [idsOf]
  obtain ⟨n1, n2, na1, na2, nd12, n12⟩ := nodup_append_cons (e ▸ r.nodup)
  subst e
  obtain ⟨s1, ha, s2⟩ := Seg_split r.seg
  simp only [hi, if_true, hid, nd_of ha, ok_bne, Bool.false_eq_true, if_false]
  refine ⟨by first | trivial | rfl, ⟨?_, ?_, ?_, ?_, ?_⟩, ?_⟩
  · have := r.nodup; simpa [idsOf] using this
  · rw [Seg_append, Seg_cons]
    refine ⟨Seg_upd_notin _ _ na1 s1, ?_, Seg_upd_notin _ _ na2 s2⟩
    rw [setData, upd_eq, ha]; rfl
  · rw [r.size]; simp
  · rw [r.head]; simp [nxt_append]
  · rw [r.tail]; simp [lastOr_append]
  · intro b hb
    exact upd_ne _ _ _ _ (fun e => hb (by simp [e]))


/-! ### insertion -/
theorem setData_alloc (s : St) (x : Nat) : (setData s.alloc.2.heap s.fresh x) s.fresh = some ⟨x, none, none⟩ := by
  rw [setData, upd_eq, alloc_eq]; rfl

/-- heap lookups away from the freshly allocated node are not affected by its allocation and initialisation -/
theorem setData_alloc_ne (s : St) (x b : Nat) (h : b ≠ s.fresh) : (setData s.alloc.2.heap s.fresh x) b = s.heap b := by
  rw [setData, upd_ne _ _ _ _ h, alloc_ne _ _ h]

theorem fresh_notin {s : St} {cs : List Cell} (hb : ∀ x, x ∈ idsOf cs → x < s.fresh) : s.fresh ∉ idsOf cs :=
  fun h => Nat.lt_irrefl _ (hb _ h)

/-- **`cc_list_add_first`** -/
theorem addFirst_spec (s : St) (l : Hdr) (cs : List Cell) (x : Nat) (m : Mem)
    (r : Repr s.heap l cs) (hb : ∀ y, y ∈ idsOf cs → y < s.fresh) :
    ((m.allocT l.triple).1 = false → addFirst s l x m = (.errAlloc, s, l, (m.allocT l.triple).2)) ∧
    ((m.allocT l.triple).1 = true →
      (addFirst s l x m).1 = .ok ∧ (addFirst s l x m).2.2.2 = (m.allocT l.triple).2 ∧
      Keeps s (addFirst s l x m).2.1 l (addFirst s l x m).2.2.1 cs ((s.fresh, x) :: cs)) := by
  unfold addFirst
  refine ⟨fun ha => by simp [ha], fun ha => ?_⟩
  have hf := fresh_notin hb
  simp only [ha, Bool.not_true, Bool.false_eq_true, if_false, show s.alloc.1 = s.fresh from rfl]
  cases cs with
  | nil =>
    have hs : l.size = 0 := r.size
    simp only [hs, if_true]
    refine ⟨by first | trivial | rfl, by first | trivial | rfl, ⟨by simp [idsOf], ?_, by simp, rfl, rfl⟩, rfl, Nat.le_succ _, by simp [St.alloc], ?_, (by intro _ h; simp [idsOf] at h)⟩
    · rw [Seg_cons]; exact ⟨setData_alloc s x, trivial⟩
    · intro b _ hlt; exact setData_alloc_ne s x b (Nat.ne_of_lt hlt)
  | cons c rest =>
    have hs : l.size ≠ 0 := by rw [r.size]; simp
    have hh : l.head = some c.1 := r.head
    have hc : c.1 ≠ s.fresh := fun e => hf (by simp [e])
    simp only [hs, if_false, hh]
    refine ⟨by first | trivial | rfl, by first | trivial | rfl, ⟨?_, ?_, by simp [r.size], rfl, ?_⟩, rfl, Nat.le_succ _, ?_, ?_, (by intro a' ha' hna'; exact absurd (by simp only [idsOf_append, idsOf_cons, idsOf_nil, List.mem_append, List.mem_cons, List.not_mem_nil, or_false, false_or] at ha' ⊢; first | exact Or.inl ha' | exact Or.inr ha' | (rcases ha' with h | h | h <;> simp [h]) | (rcases ha' with h | h <;> simp [h]) | simp [ha']) hna')⟩
    · have := r.nodup
      simp only [idsOf_cons, List.nodup_cons] at this ⊢
      exact ⟨by simpa [idsOf] using hf, this⟩
    · rw [Seg_cons]
      constructor
      · rw [setPrev, upd_ne _ _ _ _ (Ne.symm hc), setNext, upd_eq, setData_alloc]; rfl
      · have r0 := r.seg
        rw [Seg_cons] at r0
        have hrest : c.1 ∉ idsOf rest := by have := r.nodup; simp only [idsOf_cons, List.nodup_cons] at this; exact this.1
        refine Seg_setPrev_first (some s.fresh) (p := none) ?_ hrest
        refine Seg_frame (fun b hbm => ?_) r.seg
        rw [setNext, upd_ne _ _ _ _ (fun e => hf (by rw [← e]; exact hbm))]
        exact setData_alloc_ne s x b (fun e => hf (by rw [← e]; exact hbm))
    · have := r.tail; simp only [lastOr_cons] at this ⊢; exact this
    · intro a ha'
      simp only [idsOf_cons, List.mem_cons] at ha'
      rcases ha' with e | e | e
      · subst e; exact Nat.lt_succ_self _
      · subst e; exact Nat.lt_succ_of_lt (hb _ (by simp))
      · exact Nat.lt_succ_of_lt (hb _ (by simp [e]))
    · intro b hnb hlt
      have hbc : b ≠ c.1 := fun e => hnb (by simp [e])
      rw [setPrev, upd_ne _ _ _ _ hbc, setNext, upd_ne _ _ _ _ (Nat.ne_of_lt hlt)]
      exact setData_alloc_ne s x b (Nat.ne_of_lt hlt)

/-- **`cc_list_add_last`** (= `cc_list_add`) -/
theorem addLast_spec (s : St) (l : Hdr) (cs : List Cell) (x : Nat) (m : Mem)
    (r : Repr s.heap l cs) (hb : ∀ y, y ∈ idsOf cs → y < s.fresh) :
    ((m.allocT l.triple).1 = false → addLast s l x m = (.errAlloc, s, l, (m.allocT l.triple).2)) ∧
    ((m.allocT l.triple).1 = true →
      (addLast s l x m).1 = .ok ∧ (addLast s l x m).2.2.2 = (m.allocT l.triple).2 ∧
      Keeps s (addLast s l x m).2.1 l (addLast s l x m).2.2.1 cs (cs ++ [(s.fresh, x)])) := by
  unfold addLast
  refine ⟨fun ha => by simp [ha], fun ha => ?_⟩
  have hf := fresh_notin hb
  simp only [ha, Bool.not_true, Bool.false_eq_true, if_false, show s.alloc.1 = s.fresh from rfl]
  rcases eq_nil_or_snoc cs with e | ⟨pre, c, e⟩
  · subst e
    have hs : l.size = 0 := r.size
    simp only [hs, if_true]
    refine ⟨by first | trivial | rfl, by first | trivial | rfl, ⟨by simp [idsOf], ?_, by simp, rfl, rfl⟩, rfl, Nat.le_succ _, by simp [St.alloc], ?_, (by intro _ h; simp [idsOf] at h)⟩
    · rw [List.nil_append, Seg_cons]; exact ⟨setData_alloc s x, trivial⟩
    · intro b _ hlt; exact setData_alloc_ne s x b (Nat.ne_of_lt hlt)
  · subst e
    have hs : l.size ≠ 0 := by rw [r.size]; simp
    have hh : l.tail = some c.1 := by rw [r.tail]; simp
    have hc : c.1 ≠ s.fresh := fun e => hf (by simp [e])
    have hnd := r.nodup
    simp only [idsOf_append, idsOf_cons, idsOf_nil] at hnd
    rw [List.nodup_append] at hnd
    have hcp : c.1 ∉ idsOf pre := fun hm => hnd.2.2 _ hm _ List.mem_cons_self rfl
    simp only [hs, if_false, hh]
    refine ⟨by first | trivial | rfl, by first | trivial | rfl, ⟨?_, ?_, by simp [r.size], ?_, by rw [lastOr_append, lastOr_append]; rfl⟩, rfl, Nat.le_succ _, ?_, ?_, (by intro a' ha' hna'; exact absurd (by simp only [idsOf_append, idsOf_cons, idsOf_nil, List.mem_append, List.mem_cons, List.not_mem_nil, or_false, false_or] at ha' ⊢; first | exact Or.inl ha' | exact Or.inr ha' | (rcases ha' with h | h | h <;> simp [h]) | (rcases ha' with h | h <;> simp [h]) | simp [ha']) hna')⟩
    · have := r.nodup
      simp only [idsOf_append, idsOf_cons, idsOf_nil] at this ⊢
      rw [List.nodup_append]
      refine ⟨this, by simp, ?_⟩
      intro a ha' b hb' e
      simp only [List.mem_singleton] at hb'
      subst hb'; subst e
      exact hf (by simpa [idsOf] using ha')
    · rw [Seg_append]
      constructor
      · simp only [nxt_cons]
        refine Seg_setNext_last (some s.fresh) (n := none) ?_ hcp
        refine Seg_frame (fun b hbm => ?_) r.seg
        rw [setPrev, upd_ne _ _ _ _ (fun e => hf (by rw [← e]; exact hbm))]
        exact setData_alloc_ne s x b (fun e => hf (by rw [← e]; exact hbm))
      · simp only [lastOr_concat, Seg_cons, nxt_nil, Seg_nil, and_true]
        rw [setNext, upd_ne _ _ _ _ (Ne.symm hc), setPrev, upd_eq, setData_alloc]; rfl
    · have := r.head; rw [nxt_append] at this ⊢; rw [nxt_append]; exact this
    · intro a ha'
      simp only [idsOf_append, idsOf_cons, idsOf_nil, List.mem_append, List.mem_singleton] at ha'
      rcases ha' with (e | e) | e
      · exact Nat.lt_succ_of_lt (hb _ (by simp [e]))
      · subst e; exact Nat.lt_succ_of_lt (hb _ (by simp))
      · subst e; exact Nat.lt_succ_self _
    · intro b hnb hlt
      have hbc : b ≠ c.1 := fun e => hnb (by simp [e])
      rw [setNext, upd_ne _ _ _ _ hbc, setPrev, upd_ne _ _ _ _ (Nat.ne_of_lt hlt)]
      exact setData_alloc_ne s x b (Nat.ne_of_lt hlt)


/-- the second half of `link_behind(base, ins)` for a node `ins` outside the chain (whatever its own link fields hold): it is
linked in directly in front of `base` -/
theorem linkBehindCore_spec {h : Heap} {pre post : List Cell} {a : Cell} (new x : Nat) (nx pv : Option Nat)
    (hs : Seg h none (pre ++ a :: post) none) (hn : (idsOf (pre ++ a :: post)).Nodup)
    (hnew : new ∉ idsOf (pre ++ a :: post)) (hx : h new = some ⟨x, nx, pv⟩) :
    Seg (linkBehindCore h a.1 new) none (pre ++ (new, x) :: a :: post) none ∧
    (∀ b, b ∉ idsOf (pre ++ a :: post) → b ≠ new → (linkBehindCore h a.1 new) b = h b) := by
  obtain ⟨n1, n2, na1, na2, nd12, _⟩ := nodup_append_cons hn
  obtain ⟨s1, ha, s2⟩ := Seg_split hs
  have hnp : new ∉ idsOf pre := fun hm => hnew (by simp [hm])
  have hnq : new ∉ idsOf post := fun hm => hnew (by simp [hm])
  have hna : new ≠ a.1 := fun e => hnew (by simp [e])
  unfold linkBehindCore
  simp only [nd_of ha]
  rcases eq_nil_or_snoc pre with e | ⟨ys, b, e⟩
  · subst e
    simp only [lastOr_nil, List.nil_append]
    refine ⟨?_, fun c hc hcn => ?_⟩
    · rw [Seg_cons, Seg_cons]
      refine ⟨?_, ?_, ?_⟩
      · rw [setPrev, upd_ne _ _ _ _ hna, setNext, upd_eq, setPrev, upd_eq, hx]; rfl
      · rw [setPrev, upd_eq, setNext, upd_ne _ _ _ _ (Ne.symm hna), setPrev, upd_ne _ _ _ _ (Ne.symm hna), ha]; rfl
      · refine Seg_upd_notin _ _ na2 (Seg_upd_notin _ _ hnq (Seg_upd_notin _ _ hnq s2))
    · have hca : c ≠ a.1 := fun e => hc (by simp [e])
      rw [setPrev, upd_ne _ _ _ _ hca, setNext, upd_ne _ _ _ _ hcn, setPrev, upd_ne _ _ _ _ hcn]
  · subst e
    have hba : b.1 ≠ a.1 := fun e => na1 (by simp [e])
    have hbn : b.1 ≠ new := fun e => hnp (by simp [← e])
    have hnb : (idsOf ys).Nodup ∧ b.1 ∉ idsOf ys := by
      simp only [idsOf_append, idsOf_cons, idsOf_nil] at n1
      rw [List.nodup_append] at n1
      exact ⟨n1.1, fun hm => n1.2.2 _ hm _ List.mem_cons_self rfl⟩
    simp only [lastOr_concat]
    refine ⟨?_, fun c hc hcn => ?_⟩
    · rw [Seg_append]
      constructor
      · simp only [nxt_cons]
        -- the prefix: only `b->next` changes
        have e1 : Seg (setNext (setPrev h new (some b.1)) b.1 (some new)) none (ys ++ [b]) (some new) :=
          Seg_setNext_last (some new) (Seg_upd_notin _ _ hnp s1) hnb.2
        exact Seg_upd_notin _ _ na1 (Seg_upd_notin _ _ hnp e1)
      · simp only [lastOr_concat]
        rw [Seg_cons, Seg_cons]
        refine ⟨?_, ?_, ?_⟩
        · rw [setPrev, upd_ne _ _ _ _ hna, setNext, upd_eq, setNext, upd_ne _ _ _ _ (Ne.symm hbn), setPrev, upd_eq, hx]; rfl
        · rw [setPrev, upd_eq, setNext, upd_ne _ _ _ _ (Ne.symm hna), setNext, upd_ne _ _ _ _ (Ne.symm hba), setPrev,
            upd_ne _ _ _ _ (Ne.symm hna), ha]; rfl
        · have hbq : b.1 ∉ idsOf post := nd12 b.1 (by simp)
          exact Seg_upd_notin _ _ na2 (Seg_upd_notin _ _ hnq (Seg_upd_notin _ _ hbq (Seg_upd_notin _ _ hnq s2)))
    · have hca : c ≠ a.1 := fun e => hc (by simp [e])
      have hcb : c ≠ b.1 := fun e => hc (by simp [e])
      rw [setPrev, upd_ne _ _ _ _ hca, setNext, upd_ne _ _ _ _ hcn, setNext, upd_ne _ _ _ _ hcb, setPrev, upd_ne _ _ _ _ hcn]

/-- **`link_behind(base, ins)`** for a node `ins` that is not linked anywhere: it is linked in directly in front of `base` -/
theorem linkBehind_fresh {h : Heap} {pre post : List Cell} {a : Cell} (new x : Nat)
    (hs : Seg h none (pre ++ a :: post) none) (hn : (idsOf (pre ++ a :: post)).Nodup)
    (hnew : new ∉ idsOf (pre ++ a :: post)) (hx : h new = some ⟨x, none, none⟩) :
    Seg (linkBehind h a.1 new) none (pre ++ (new, x) :: a :: post) none ∧
    (∀ b, b ∉ idsOf (pre ++ a :: post) → b ≠ new → (linkBehind h a.1 new) b = h b) := by
  have hg : linkGap h new = h := by unfold linkGap; simp only [nd_of hx]
  unfold linkBehind
  rw [hg]
  exact linkBehindCore_spec new x none none hs hn hnew hx

/-- **`link_after(base, ins)`** for a node `ins` that is not linked anywhere: it is linked in directly behind `base` -/
theorem linkAfter_fresh {h : Heap} {pre post : List Cell} {a : Cell} (new x : Nat)
    (hs : Seg h none (pre ++ a :: post) none) (hn : (idsOf (pre ++ a :: post)).Nodup)
    (hnew : new ∉ idsOf (pre ++ a :: post)) (hx : h new = some ⟨x, none, none⟩) :
    Seg (linkAfter h a.1 new) none (pre ++ a :: (new, x) :: post) none ∧
    (∀ b, b ∉ idsOf (pre ++ a :: post) → b ≠ new → (linkAfter h a.1 new) b = h b) := by
  obtain ⟨n1, n2, na1, na2, nd12, _⟩ := nodup_append_cons hn
  obtain ⟨s1, ha, s2⟩ := Seg_split hs
  have hnp : new ∉ idsOf pre := fun hm => hnew (by simp [hm])
  have hnq : new ∉ idsOf post := fun hm => hnew (by simp [hm])
  have hna : new ≠ a.1 := fun e => hnew (by simp [e])
  unfold linkAfter
  simp only [nd_of hx, nd_of ha]
  cases post with
  | nil =>
    simp only [nxt_nil]
    refine ⟨?_, fun c hc hcn => ?_⟩
    · rw [Seg_append, Seg_cons, Seg_cons]
      refine ⟨?_, ?_, ?_, trivial⟩
      · exact Seg_upd_notin _ _ hnp (Seg_upd_notin _ _ na1 (Seg_upd_notin _ _ hnp s1))
      · rw [setNext, upd_ne _ _ _ _ (Ne.symm hna), setNext, upd_eq, setPrev, upd_ne _ _ _ _ (Ne.symm hna), ha]; rfl
      · rw [setNext, upd_eq, setNext, upd_ne _ _ _ _ hna, setPrev, upd_eq, hx]; rfl
    · have hca : c ≠ a.1 := fun e => hc (by simp [e])
      rw [setNext, upd_ne _ _ _ _ hcn, setNext, upd_ne _ _ _ _ hca, setPrev, upd_ne _ _ _ _ hcn]
  | cons c post' =>
    have hca : c.1 ≠ a.1 := fun e => na2 (by simp [e])
    have hcn : c.1 ≠ new := fun e => hnq (by simp [← e])
    have hcq : c.1 ∉ idsOf post' := by simp only [idsOf_cons, List.nodup_cons] at n2; exact n2.1
    simp only [nxt_cons]
    refine ⟨?_, fun d hd hdn => ?_⟩
    · rw [Seg_append, Seg_cons, Seg_cons]
      refine ⟨?_, ?_, ?_, ?_⟩
      · have hcp : c.1 ∉ idsOf pre := fun hm => nd12 c.1 hm (by simp)
        exact Seg_upd_notin _ _ na1 (Seg_upd_notin _ _ hnp (Seg_upd_notin _ _ hcp (Seg_upd_notin _ _ hnp s1)))
      · rw [setNext, upd_eq, setPrev, upd_ne _ _ _ _ (Ne.symm hna), setPrev, upd_ne _ _ _ _ (Ne.symm hca), setNext,
          upd_ne _ _ _ _ (Ne.symm hna), ha]; rfl
      · rw [setNext, upd_ne _ _ _ _ hna, setPrev, upd_eq, setPrev, upd_ne _ _ _ _ (Ne.symm hcn), setNext, upd_eq, hx]; rfl
      · have s2' : Seg (setNext h new (some c.1)) (some a.1) (c :: post') none := Seg_upd_notin _ _ hnq s2
        have s3 := Seg_setPrev_first (some new) s2' hcq
        exact Seg_upd_notin _ _ na2 (Seg_upd_notin _ _ hnq s3)
    · have hda : d ≠ a.1 := fun e => hd (by simp [e])
      have hdc : d ≠ c.1 := fun e => hd (by simp [e])
      rw [setNext, upd_ne _ _ _ _ hda, setPrev, upd_ne _ _ _ _ hdn, setPrev, upd_ne _ _ _ _ hdc, setNext, upd_ne _ _ _ _ hdn]

/-- **`cc_list_add_at`** -/
theorem addAt_spec (s : St) (l : Hdr) (cs : List Cell) (x i : Nat) (m : Mem)
    (r : Repr s.heap l cs) (hb : ∀ y, y ∈ idsOf cs → y < s.fresh) :
    (¬ i < cs.length → addAt s l x i m = (.errOutOfRange, s, l, m)) ∧
    (i < cs.length → (m.allocT l.triple).1 = false → addAt s l x i m = (.errAlloc, s, l, (m.allocT l.triple).2)) ∧
    (∀ pre a post, cs = pre ++ a :: post → pre.length = i → (m.allocT l.triple).1 = true →
      (addAt s l x i m).1 = .ok ∧ (addAt s l x i m).2.2.2 = (m.allocT l.triple).2 ∧
      Keeps s (addAt s l x i m).2.1 l (addAt s l x i m).2.2.1 cs (pre ++ (s.fresh, x) :: a :: post)) := by
  unfold addAt
  rw [getNodeAt_repr r]
  refine ⟨fun hi => by simp [hi, oor_bne], fun hi ha => by simp [hi, ha, ok_bne], fun pre a post e hl ha => ?_⟩
  have hi : i < cs.length := by rw [e]; simp; omega
  have hid : (idsOf cs)[i]? = some a.1 := by subst e; subst hl; simp [idsOf]
  subst e
  have hf := fresh_notin hb
  simp only [hi, if_true, hid, ok_bne, ha, Bool.not_true, Bool.false_eq_true, if_false, show s.alloc.1 = s.fresh from rfl]
  have hseg0 : Seg (setData s.alloc.2.heap s.fresh x) none (pre ++ a :: post) none :=
    Seg_frame (fun b hbm => setData_alloc_ne s x b (fun e => hf (by rw [← e]; exact hbm))) r.seg
  obtain ⟨lb, lf⟩ := linkBehind_fresh s.fresh x hseg0 r.nodup hf (setData_alloc s x)
  refine ⟨by first | trivial | rfl, by first | trivial | rfl, ⟨?_, lb, ?_, ?_, ?_⟩, ?_, Nat.le_succ _, ?_, ?_, (by intro a' ha' hna'; exact absurd (by simp only [idsOf_append, idsOf_cons, idsOf_nil, List.mem_append, List.mem_cons, List.not_mem_nil, or_false, false_or] at ha' ⊢; first | exact Or.inl ha' | exact Or.inr ha' | (rcases ha' with h | h | h <;> simp [h]) | (rcases ha' with h | h <;> simp [h]) | simp [ha']) hna')⟩
  · have := r.nodup
    simp only [idsOf_append, idsOf_cons] at this hf ⊢
    rw [List.nodup_append] at this ⊢
    refine ⟨this.1, ?_, ?_⟩
    · rw [List.nodup_cons]
      exact ⟨fun hm => hf (List.mem_append_right _ hm), this.2.1⟩
    · intro u hu v hv
      rcases List.mem_cons.1 hv with e | e
      · subst e; intro e2; subst e2; exact hf (List.mem_append_left _ hu)
      · exact this.2.2 u hu v e
  · split <;> simp [r.size] <;> omega
  · have := r.head
    by_cases h0 : i = 0
    · have : pre = [] := List.eq_nil_of_length_eq_zero (hl.trans h0)
      subst this; simp [h0]
    · have hp : pre ≠ [] := fun e => h0 (by rw [← hl, e]; rfl)
      simp only [h0, if_false]
      rw [this]
      cases pre with
      | nil => exact absurd rfl hp
      | cons c rest => rfl
  · have := r.tail
    have e2 : lastOr (pre ++ (s.fresh, x) :: a :: post) none = lastOr (pre ++ a :: post) none := by
      rw [lastOr_append, lastOr_append]; rfl
    rw [e2]; split <;> exact this
  · split <;> rfl
  · intro u hu
    simp only [idsOf_append, idsOf_cons, List.mem_append, List.mem_cons] at hu
    rcases hu with hu | hu | hu | hu
    · exact Nat.lt_succ_of_lt (hb _ (by simp [hu]))
    · subst hu; exact Nat.lt_succ_self _
    · subst hu; exact Nat.lt_succ_of_lt (hb _ (by simp))
    · exact Nat.lt_succ_of_lt (hb _ (by simp [hu]))
  · intro u hu hlt
    rw [lf u hu (Nat.ne_of_lt hlt)]
    exact setData_alloc_ne s x u (Nat.ne_of_lt hlt)


/-! ### `unlinkn_all`, `remove_all`, `destroy` -/
theorem unlinkAllLoop_spec : ∀ (cs : List Cell) (k : Nat) (s : St) (l : Hdr) (log : List Nat) (m : Mem),
    Repr s.heap l cs → (∀ x, x ∈ idsOf cs → x < s.fresh) → cs.length ≤ k →
    Repr (unlinkAllLoop k s l (nxt cs none) log m).1.heap (unlinkAllLoop k s l (nxt cs none) log m).2.1 [] ∧
    (unlinkAllLoop k s l (nxt cs none) log m).2.1.triple = l.triple ∧
    (unlinkAllLoop k s l (nxt cs none) log m).2.2.1 = log ++ dataOf cs ∧
    (unlinkAllLoop k s l (nxt cs none) log m).2.2.2 = Mem.freeN l.triple cs.length m ∧
    (unlinkAllLoop k s l (nxt cs none) log m).1.fresh = s.fresh ∧
    (∀ b, b ∉ idsOf cs → b < s.fresh → (unlinkAllLoop k s l (nxt cs none) log m).1.heap b = s.heap b) ∧
    (∀ a, a ∈ idsOf cs → (unlinkAllLoop k s l (nxt cs none) log m).1.heap a = none)
  | [], k, s, l, log, m, r, _, _ => by
    have : unlinkAllLoop k s l (nxt [] none) log m = (s, l, log, m) := by cases k <;> rfl
    rw [this]
    exact ⟨r, rfl, by simp, rfl, rfl, fun _ _ _ => rfl, fun _ h => by simp [idsOf] at h⟩
  | a :: rest, 0, _, _, _, _, _, _, hk => by simp at hk
  | a :: rest, k + 1, s, l, log, m, r, hb, hk => by
    have u := unlinkn_spec s l [] rest a m r hb
    simp only [List.nil_append] at u
    obtain ⟨u1, u2, uk⟩ := u
    have hn : (nd s.heap a.1).next = nxt rest none := by
      have := r.seg; rw [Seg_cons] at this; rw [nd_of this.1]
    simp only [nxt_cons, unlinkAllLoop, hn]
    have ih := unlinkAllLoop_spec rest k (unlinkn s l a.1 m).2.1 (unlinkn s l a.1 m).2.2.1 (log ++ [(unlinkn s l a.1 m).1])
      (unlinkn s l a.1 m).2.2.2 uk.repr uk.bound (by simpa using hk)
    obtain ⟨i1, i2, i3, i4, i5, i6, i7⟩ := ih
    have hfr : (unlinkn s l a.1 m).2.1.fresh = s.fresh := by unfold unlinkn; rfl
    have hna : a.1 ∉ idsOf rest := by
      have := r.nodup; simp only [idsOf_cons, List.nodup_cons] at this; exact this.1
    refine ⟨i1, i2.trans uk.triple, ?_, ?_, i5.trans hfr, ?_, fun a' ha' => ?_⟩
    rotate_right
    · simp only [idsOf_cons, List.mem_cons] at ha'
      by_cases hr : a' ∈ idsOf rest
      · exact i7 a' hr
      · have e : a' = a.1 := by rcases ha' with h | h; exact h; exact absurd h hr
        subst e
        rw [i6 a.1 hna (by rw [hfr]; exact hb a.1 (by simp))]
        exact uk.dead a.1 (by simp) hna
    · rw [i3, u1]; simp
    · rw [i4, u2, uk.triple]; rfl
    · intro b hnb hlt
      have hbr : b ∉ idsOf rest := fun hm => hnb (by simp [hm])
      rw [i6 b hbr (by rw [hfr]; exact hlt)]
      exact uk.frame b hnb hlt

/-- **`cc_list_remove_all`** / **`cc_list_remove_all_cb`** -/
theorem removeAll_spec (s : St) (l : Hdr) (cs : List Cell) (m : Mem)
    (r : Repr s.heap l cs) (hb : ∀ x, x ∈ idsOf cs → x < s.fresh) :
    (cs = [] → removeAll s l m = (.errValueNotFound, [], s, l, m)) ∧
    (cs ≠ [] →
      (removeAll s l m).1 = .ok ∧ (removeAll s l m).2.1 = dataOf cs ∧ (removeAll s l m).2.2.2.2 = Mem.freeN l.triple cs.length m ∧
      Keeps s (removeAll s l m).2.2.1 l (removeAll s l m).2.2.2.1 cs []) := by
  unfold removeAll unlinknAll
  refine ⟨fun e => by subst e; simp [r.size], fun hne => ?_⟩
  have hs : l.size ≠ 0 := by rw [r.size]; exact fun e => hne (List.eq_nil_of_length_eq_zero e)
  simp only [hs, if_false, if_true]
  rw [r.head, r.size]
  obtain ⟨i1, i2, i3, i4, i5, i6, i7⟩ := unlinkAllLoop_spec cs cs.length s l [] m r hb (Nat.le_refl _)
  refine ⟨by first | trivial | rfl, by rw [i3]; simp, i4, ⟨⟨by simp [idsOf], trivial, ?_, rfl, rfl⟩, ?_, ?_, by simp [idsOf], i6, fun a ha _ => i7 a ha⟩⟩
  · exact i1.size
  · exact i2
  · rw [i5]; exact Nat.le_refl _

/-- **`cc_list_destroy`** / **`cc_list_destroy_cb`**: every node block and the header go back through the list's own
triple; the callback log is the content -/
theorem destroy_spec (s : St) (l : Hdr) (cs : List Cell) (m : Mem)
    (r : Repr s.heap l cs) (hb : ∀ x, x ∈ idsOf cs → x < s.fresh) :
    (destroy s l m).1 = dataOf cs ∧ (destroy s l m).2.2 = Mem.freeN l.triple (cs.length + 1) m ∧
    (destroy s l m).2.1.fresh = s.fresh ∧ (∀ b, b ∉ idsOf cs → b < s.fresh → (destroy s l m).2.1.heap b = s.heap b) ∧
    (∀ a, a ∈ idsOf cs → (destroy s l m).2.1.heap a = none) := by
  unfold destroy unlinknAll
  cases cs with
  | nil =>
    have hs : l.size = 0 := r.size
    simp [hs, Mem.freeN, idsOf]
  | cons a rest =>
    have hs : l.size ≠ 0 := by rw [r.size]; simp
    simp only [hs, if_false]
    rw [r.head, r.size]
    obtain ⟨i1, i2, i3, i4, i5, i6, i7⟩ := unlinkAllLoop_spec (a :: rest) (a :: rest).length s l [] m r hb (Nat.le_refl _)
    refine ⟨by rw [i3]; simp, ?_, i5, i6, i7⟩
    rw [i4]
    exact (Mem.freeN_succ l.triple _ m).symm


/-! ### iterator mutators (the node `iter->last` and `iter->index` are given) -/

/-- **`cc_list_iter_add`**: the new node goes directly behind `iter->last`; `index` is the number of nodes up to and
including `last` -/
theorem iterAddAt_spec (s : St) (l : Hdr) (pre post : List Cell) (a : Cell) (x : Nat) (m : Mem)
    (r : Repr s.heap l (pre ++ a :: post)) (hb : ∀ y, y ∈ idsOf (pre ++ a :: post) → y < s.fresh) :
    ((m.allocT l.triple).1 = false → iterAddAt s l a.1 x m = (.errAlloc, s, l, (m.allocT l.triple).2)) ∧
    ((m.allocT l.triple).1 = true →
      (iterAddAt s l a.1 x m).1 = .ok ∧ (iterAddAt s l a.1 x m).2.2.2 = (m.allocT l.triple).2 ∧
      Keeps s (iterAddAt s l a.1 x m).2.1 l (iterAddAt s l a.1 x m).2.2.1
        (pre ++ a :: post) (pre ++ a :: (s.fresh, x) :: post)) := by
  unfold iterAddAt
  refine ⟨fun ha => by simp [ha], fun ha => ?_⟩
  have hf := fresh_notin hb
  have hlive : (s.heap a.1).isSome = true := Seg_live r.seg a.1 (by simp)
  simp only [ha, Bool.not_true, Bool.false_eq_true, if_false, show s.alloc.1 = s.fresh from rfl, live_some, hlive, Mem.check_true]
  have hseg0 : Seg (setData s.alloc.2.heap s.fresh x) none (pre ++ a :: post) none :=
    Seg_frame (fun b hbm => setData_alloc_ne s x b (fun e => hf (by rw [← e]; exact hbm))) r.seg
  obtain ⟨lb, lf⟩ := linkAfter_fresh s.fresh x hseg0 r.nodup hf (setData_alloc s x)
  have hnew : (nd (linkAfter (setData s.alloc.2.heap s.fresh x) a.1 s.fresh) s.fresh).next = nxt post none := by
    have lb' : Seg (linkAfter (setData s.alloc.2.heap s.fresh x) a.1 s.fresh) none ((pre ++ [a]) ++ (s.fresh, x) :: post) none := by
      simpa using lb
    rw [nd_of (Seg_split lb').2.1]
  rw [hnew]
  refine ⟨by first | trivial | rfl, by first | trivial | rfl, ⟨?_, lb, ?_, ?_, ?_⟩, ?_, Nat.le_succ _, ?_, ?_, (by intro a' ha' hna'; exact absurd (by simp only [idsOf_append, idsOf_cons, idsOf_nil, List.mem_append, List.mem_cons, List.not_mem_nil, or_false, false_or] at ha' ⊢; first | exact Or.inl ha' | exact Or.inr ha' | (rcases ha' with h | h | h <;> simp [h]) | (rcases ha' with h | h <;> simp [h]) | simp [ha']) hna')⟩
  · have := r.nodup
    simp only [idsOf_append, idsOf_cons] at this hf ⊢
    rw [List.nodup_append] at this ⊢
    refine ⟨this.1, ?_, ?_⟩
    · rw [List.nodup_cons, List.nodup_cons]
      have h2 := this.2.1
      rw [List.nodup_cons] at h2
      refine ⟨?_, ⟨fun hm => hf (List.mem_append_right _ (List.mem_cons_of_mem _ hm)), h2.2⟩⟩
      intro hm
      rcases List.mem_cons.1 hm with e | e
      · exact hf (by rw [← e]; exact List.mem_append_right _ List.mem_cons_self)
      · exact h2.1 e
    · intro u hu v hv
      rcases List.mem_cons.1 hv with e | e
      · rw [e]; exact this.2.2 u hu _ List.mem_cons_self
      · rcases List.mem_cons.1 e with e | e
        · rw [e]; intro e2; exact hf (List.mem_append_left _ (e2 ▸ hu))
        · exact this.2.2 u hu v (List.mem_cons_of_mem _ e)
  · split <;> simp [r.size] <;> omega
  · have := r.head
    have e2 : nxt (pre ++ a :: (s.fresh, x) :: post) none = nxt (pre ++ a :: post) none := by
      rw [nxt_append, nxt_append]; rfl
    rw [e2]; split <;> exact this
  · have ht := r.tail
    by_cases hp : post = []
    · subst hp
      simp only [nxt, if_true]
      rw [lastOr_append]; rfl
    · have hq : nxt post none ≠ none := by
        cases post with
        | nil => exact absurd rfl hp
        | cons c r => simp [nxt]
      simp only [hq, if_false]
      rw [ht, lastOr_append, lastOr_append]
      simp only [lastOr_cons]
      rw [lastOr_of_ne' hp (some a.1), lastOr_of_ne' hp (some s.fresh)]
  · split <;> rfl
  · intro u hu
    simp only [idsOf_append, idsOf_cons, List.mem_append, List.mem_cons] at hu
    rcases hu with hu | hu | hu | hu
    · exact Nat.lt_succ_of_lt (hb _ (by simp [hu]))
    · subst hu; exact Nat.lt_succ_of_lt (hb _ (by simp))
    · subst hu; exact Nat.lt_succ_self _
    · exact Nat.lt_succ_of_lt (hb _ (by simp [hu]))
  · intro u hu hlt
    rw [lf u hu (Nat.ne_of_lt hlt)]
    exact setData_alloc_ne s x u (Nat.ne_of_lt hlt)

/-- **`cc_list_diter_add`**: the new node goes directly in front of `iter->last`; `index` is the position of `last` -/
theorem diterAddAt_spec (s : St) (l : Hdr) (pre post : List Cell) (a : Cell) (x : Nat) (m : Mem)
    (r : Repr s.heap l (pre ++ a :: post)) (hb : ∀ y, y ∈ idsOf (pre ++ a :: post) → y < s.fresh) :
    ((m.allocT l.triple).1 = false → diterAddAt s l a.1 pre.length x m = (.errAlloc, s, l, (m.allocT l.triple).2)) ∧
    ((m.allocT l.triple).1 = true →
      (diterAddAt s l a.1 pre.length x m).1 = .ok ∧ (diterAddAt s l a.1 pre.length x m).2.2.2 = (m.allocT l.triple).2 ∧
      Keeps s (diterAddAt s l a.1 pre.length x m).2.1 l (diterAddAt s l a.1 pre.length x m).2.2.1
        (pre ++ a :: post) (pre ++ (s.fresh, x) :: a :: post)) := by
  -- the same pointer surgery as `cc_list_add_at` at position `pre.length`
  have hat := (addAt_spec s l (pre ++ a :: post) x pre.length m r hb).2.2 pre a post rfl rfl
  have hi : pre.length < (pre ++ a :: post).length := by simp
  have hid : (idsOf (pre ++ a :: post))[pre.length]? = some a.1 := by simp [idsOf]
  have e : diterAddAt s l a.1 pre.length x m = addAt s l x pre.length m := by
    have hlive : (s.heap a.1).isSome = true := Seg_live r.seg a.1 (by simp)
    unfold diterAddAt addAt
    rw [getNodeAt_repr r]
    simp only [hi, if_true, hid, ok_bne, Bool.false_eq_true, if_false, live_some, hlive, Mem.check_true]
  rw [e]
  refine ⟨fun ha => ?_, hat⟩
  exact (addAt_spec s l (pre ++ a :: post) x pre.length m r hb).2.1 hi ha

/-! ### `cc_list_filter_mut` -/

theorem filterMutLoop_none (pr : Nat → Bool) (k : Nat) (s : St) (l : Hdr) (m : Mem) :
    filterMutLoop pr k s l none m = (s, l, m) := by cases k <;> rfl

theorem filter_length_le (pr : Nat → Bool) (cs : List Cell) : (cs.filter (fun c => pr c.2)).length ≤ cs.length :=
  List.length_filter_le _ _

/-- the loop, standing at the first node of `rest` with `kept` already decided: exactly the nodes of `rest` that fail the
predicate leave the chain (one `mem_free` each), every other node keeps its identity and its place -/
theorem filterMutLoop_spec (pr : Nat → Bool) : ∀ (rest kept : List Cell) (k : Nat) (s : St) (l : Hdr) (m : Mem),
    Repr s.heap l (kept ++ rest) → (∀ x, x ∈ idsOf (kept ++ rest) → x < s.fresh) → rest.length ≤ k →
    (filterMutLoop pr k s l (nxt rest none) m).2.2 =
      Mem.freeN l.triple (rest.length - (rest.filter (fun c => pr c.2)).length) m ∧
    Keeps s (filterMutLoop pr k s l (nxt rest none) m).1 l (filterMutLoop pr k s l (nxt rest none) m).2.1
      (kept ++ rest) (kept ++ rest.filter (fun c => pr c.2))
  | [], kept, k, s, l, m, r, hb, _ => by
    simp only [show nxt ([] : List Cell) none = none from rfl, filterMutLoop_none, List.filter_nil, List.length_nil,
      Nat.sub_self, Mem.freeN]
    exact ⟨by first | trivial | rfl, r, rfl, Nat.le_refl _, hb, fun _ _ _ => rfl, fun a ha hna => absurd (by simpa using ha) hna⟩
  | a :: rest, kept, 0, s, l, m, _, _, hk => by simp at hk
  | a :: rest, kept, k + 1, s, l, m, r, hb, hk => by
    obtain ⟨_, ha, _⟩ := Seg_split r.seg
    have hk' : rest.length ≤ k := by simpa using hk
    have hfl := filter_length_le pr rest
    simp only [nxt_cons, filterMutLoop, nd_of ha]
    by_cases hp : pr a.2 = true
    · have r' : Repr s.heap l ((kept ++ [a]) ++ rest) := by simpa using r
      have hb' : ∀ x, x ∈ idsOf ((kept ++ [a]) ++ rest) → x < s.fresh := by simpa using hb
      obtain ⟨i1, i2⟩ := filterMutLoop_spec pr rest (kept ++ [a]) k s l m r' hb' hk'
      simp only [hp, Bool.not_true, Bool.false_eq_true, if_false, List.filter_cons, if_true, List.length_cons]
      refine ⟨by rw [i1]; congr 1; omega, ?_⟩
      have e1 : kept ++ a :: rest = (kept ++ [a]) ++ rest := by simp
      have e2 : kept ++ a :: rest.filter (fun c => pr c.2) = (kept ++ [a]) ++ rest.filter (fun c => pr c.2) := by simp
      rw [e1, e2]; exact i2
    · have hp' : pr a.2 = false := by simpa using hp
      obtain ⟨_, u2, uk⟩ := unlinkn_spec s l kept rest a m r hb
      obtain ⟨i1, i2⟩ := filterMutLoop_spec pr rest kept k (unlinkn s l a.1 m).2.1 (unlinkn s l a.1 m).2.2.1
        (unlinkn s l a.1 m).2.2.2 uk.repr uk.bound hk'
      simp only [hp', Bool.not_false, if_true, List.filter_cons, Bool.false_eq_true, if_false, List.length_cons]
      refine ⟨?_, i2.repr, i2.triple.trans uk.triple, Nat.le_trans uk.mono i2.mono, i2.bound, fun b hb1 hb2 => ?_, fun a' ha' hna' => ?_⟩
      rotate_right
      · by_cases hm : a' ∈ idsOf (kept ++ rest)
        · exact i2.dead a' hm hna'
        · rw [i2.frame a' hm (Nat.lt_of_lt_of_le (hb a' ha') uk.mono)]
          exact uk.dead a' ha' hm
      · rw [i1, u2, uk.triple]
        have : rest.length + 1 - (rest.filter (fun c => pr c.2)).length =
            (rest.length - (rest.filter (fun c => pr c.2)).length) + 1 := by omega
        rw [this]; rfl
      · have hb3 : b ∉ idsOf (kept ++ rest) := by
          intro hm; apply hb1
          simp only [idsOf_append, idsOf_cons, List.mem_append, List.mem_cons] at hm ⊢
          rcases hm with hm | hm
          · exact Or.inl hm
          · exact Or.inr (Or.inr hm)
        rw [i2.frame b hb3 (Nat.lt_of_lt_of_le hb2 uk.mono)]
        exact uk.frame b hb1 hb2

/-- **`cc_list_filter_mut`** -/
theorem filterMut_spec (pr : Nat → Bool) (s : St) (l : Hdr) (cs : List Cell) (m : Mem) (r : Repr s.heap l cs)
    (hb : ∀ x, x ∈ idsOf cs → x < s.fresh) :
    (cs = [] → filterMut pr s l m = (.errOutOfRange, s, l, m)) ∧
    (cs ≠ [] → (filterMut pr s l m).1 = .ok ∧
      (filterMut pr s l m).2.2.2 = Mem.freeN l.triple (cs.length - (cs.filter (fun c => pr c.2)).length) m ∧
      Keeps s (filterMut pr s l m).2.1 l (filterMut pr s l m).2.2.1 cs (cs.filter (fun c => pr c.2))) := by
  unfold filterMut
  refine ⟨fun e => by subst e; simp [r.size], fun hne => ?_⟩
  have hsz : l.size ≠ 0 := by rw [r.size]; exact fun e => hne (List.eq_nil_of_length_eq_zero e)
  rw [if_neg hsz, r.size, r.head]
  obtain ⟨i1, i2⟩ := filterMutLoop_spec pr cs [] cs.length s l m (by simpa using r) (by simpa using hb) (Nat.le_refl _)
  exact ⟨rfl, i1, by simpa using i2⟩

end CC.PList
