import CollectionsC.Proofs.ArrayMem
import CollectionsC.Proofs.ArrayZip
/-! Round-7 additions for the dynamic array.

* both allocators' live-block counters are balanced by every non-building call (`Led.balanced`), so the
  iterator and zip theorems can speak of `live` *and* `liveLibc` whatever the triples of the arrays are;
* rejected iterator / zip calls are inert for **every** cursor value — no simulation relation between
  cursor and array is needed, the guards are pure index comparisons. -/
namespace CC.Arr
open CC
open CC.Spec.Seq (IterOp ZipOp Out ZOut Cursor ZipCursor)

theorem balanced_of_own_foreign {t : Triple} {m m' : Mem} (h1 : own t m' = own t m) (h2 : Foreign t m m') :
    m'.live = m.live ∧ m'.liveLibc = m.liveLibc := by
  cases t with
  | conf => exact ⟨by simpa [own] using h1, h2.1⟩
  | libc => exact ⟨h2.1, by simpa [own] using h1⟩

theorem Led.balanced {t : Triple} {m m' : Mem} {r : Bool} (h : Led t m m' 0 r) :
    m'.live = m.live ∧ m'.liveLibc = m.liveLibc :=
  balanced_of_own_foreign (by simpa using h.1) h.2.1

/-! ### rejected calls, any cursor -/

theorem removeAt_fail (a : Arr) (i : Nat) (m : Mem) (h : (a.removeAt i m).1 ≠ .ok) :
    a.removeAt i m = (.errOutOfRange, none, a, m) := by
  unfold removeAt at h ⊢
  split
  · rfl
  · rename_i hh; simp [hh] at h

theorem replaceAt_fail (a : Arr) (x i : Nat) (m : Mem) (h : (a.replaceAt x i m).1 ≠ .ok) :
    a.replaceAt x i m = (.errOutOfRange, none, a, m) := by
  unfold replaceAt at h ⊢
  split
  · rfl
  · rename_i hh; simp [hh] at h

/-- `cc_array_iter_next` at the end: nothing changes -/
theorem iterNext_inert_any (a : Arr) (it : ArrIter) (m : Mem) (h : (a.iterNext it m).1 ≠ .ok) :
    a.iterNext it m = (.iterEnd, none, it, m) := by
  unfold iterNext at h ⊢
  split
  · rfl
  · rename_i hh; simp [hh] at h

/-- `cc_array_iter_remove` rejected (nothing yielded yet: `index - 1` wraps; cursor beyond a shortened
array; element already removed): array, cursor and ledger are what they were — for every cursor -/
theorem iterRemove_inert_any (a : Arr) (it : ArrIter) (m : Mem) (h : (a.iterRemove it m).1 ≠ .ok) :
    (a.iterRemove it m).2.1 = none ∧ (a.iterRemove it m).2.2.1 = a ∧ (a.iterRemove it m).2.2.2.1 = it ∧
    (a.iterRemove it m).2.2.2.2 = m := by
  unfold iterRemove at h ⊢
  by_cases hl : (!it.lastRemoved) = true
  · simp only [hl, if_true] at h ⊢
    by_cases hok : (a.removeAt (Spec.Seq.wdec it.index) m).1 = .ok
    · simp only [hok, if_true] at h; exact absurd rfl h
    · simp only [hok, if_false]
      rw [removeAt_fail a _ m hok]
      exact ⟨by triv, by triv, by triv, by triv⟩
  · simp only [hl]
    exact ⟨by triv, by triv, by triv, by triv⟩

/-- `cc_array_iter_replace` rejected: nothing changes, for every cursor -/
theorem iterReplace_inert_any (a : Arr) (it : ArrIter) (x : Nat) (m : Mem) (h : (a.iterReplace it x m).1 ≠ .ok) :
    a.iterReplace it x m = (.errOutOfRange, none, a, m) :=
  replaceAt_fail a x _ m h

/-- `cc_array_zip_iter_remove` rejected: both arrays, the cursor and the ledger are what they were,
for every cursor and every pair of arrays -/
theorem zipRemove_inert_any (a1 a2 : Arr) (it : ArrIter) (m : Mem) (h : (zipRemove a1 a2 it m).1 ≠ .ok) :
    (zipRemove a1 a2 it m).2.1 = none ∧ (zipRemove a1 a2 it m).2.2.1 = a1 ∧ (zipRemove a1 a2 it m).2.2.2.1 = a2 ∧
    (zipRemove a1 a2 it m).2.2.2.2.1 = it ∧ (zipRemove a1 a2 it m).2.2.2.2.2 = m := by
  unfold zipRemove at h ⊢
  split
  · exact ⟨rfl, rfl, rfl, rfl, rfl⟩
  · split
    · rename_i h1 h2; simp [h1, h2] at h
    · exact ⟨rfl, rfl, rfl, rfl, rfl⟩

theorem zipReplace_inert_any (a1 a2 : Arr) (it : ArrIter) (x y : Nat) (m : Mem)
    (h : (zipReplace a1 a2 it x y m).1 ≠ .ok) :
    zipReplace a1 a2 it x y m = (.errOutOfRange, none, a1, a2, m) := by
  unfold zipReplace at h ⊢
  split
  · rfl
  · rename_i h1; simp [h1] at h

theorem zipNext_inert_any (a1 a2 : Arr) (it : ArrIter) (m : Mem) (h : (zipNext a1 a2 it m).1 ≠ .ok) :
    zipNext a1 a2 it m = (.iterEnd, none, it, m) := by
  unfold zipNext at h ⊢
  split
  · rfl
  · rename_i h1; simp [h1] at h

/-! ### the ledger of iterator and zip programs, for either allocator triple -/

theorem removeAt_triple (a : Arr) (i : Nat) (m : Mem) : (a.removeAt i m).2.2.1.triple = a.triple := by
  unfold removeAt; split <;> rfl

theorem replaceAt_triple (a : Arr) (x i : Nat) (m : Mem) : (a.replaceAt x i m).2.2.1.triple = a.triple := by
  unfold replaceAt; split <;> rfl

theorem iterStep_triple (a : Arr) (it : ArrIter) (op : IterOp) (m : Mem) :
    (a.iterStep it op m).2.1.triple = a.triple := by
  cases op with
  | next => rfl
  | remove =>
    simp only [iterStep]
    unfold iterRemove
    split
    · simp only; split <;> exact removeAt_triple a _ m
    · rfl
  | add x =>
    simp only [iterStep]
    unfold iterAdd
    simp only
    split <;> exact addAt_triple a x it.index m
  | replace x => exact replaceAt_triple a x _ m
  | index => rfl

/-- an iterator program charges and releases only through the array's own triple, leaves that triple's
live-block count where it was, and never touches the other allocator -/
theorem iterRun_led (ops : List IterOp) : ∀ (a : Arr) (it : ArrIter) (c : Cursor) (m : Mem), a.Inv → Sim a it c →
    own a.triple (a.iterRun it ops m).2.2.2 = own a.triple m ∧ Foreign a.triple m (a.iterRun it ops m).2.2.2 ∧
    (a.iterRun it ops m).2.1.triple = a.triple := by
  induction ops with
  | nil => intro a it c m _ _; exact ⟨rfl, Foreign.rfl' _ m, rfl⟩
  | cons op ops ih =>
    intro a it c m hinv hs
    obtain ⟨_, s2, _, s4, _⟩ := iterStep_sim a it c op m hinv hs
    obtain ⟨l1, l2, _, _⟩ := iterStep_led a it op m hinv c hs
    have ht := iterStep_triple a it op m
    obtain ⟨i1, i2, i3⟩ := ih (a.iterStep it op m).2.1 (a.iterStep it op m).2.2.1 _ (a.iterStep it op m).2.2.2 s4 s2
    rw [ht] at i1 i2 i3
    simp only [iterRun]
    exact ⟨by rw [i1, l1]; omega, l2.trans i2, i3⟩

theorem iterRun_balanced (ops : List IterOp) (a : Arr) (it : ArrIter) (c : Cursor) (m : Mem) (hinv : a.Inv)
    (hs : Sim a it c) :
    (a.iterRun it ops m).2.2.2.live = m.live ∧ (a.iterRun it ops m).2.2.2.liveLibc = m.liveLibc := by
  obtain ⟨l1, l2, _⟩ := iterRun_led ops a it c m hinv hs
  exact balanced_of_own_foreign l1 l2

/-- `cc_array_zip_iter_add` on two arrays of **any** triples (equal or mixed) and any cursor: both
allocators' live-block counts are where they were — each growth step allocates and frees through its
own array's triple -/
theorem zipAdd_balanced (a1 a2 : Arr) (it : ArrIter) (x y : Nat) (m : Mem) (h1 : a1.Inv) (h2 : a2.Inv) :
    (zipAdd a1 a2 it x y m).2.2.2.2.live = m.live ∧ (zipAdd a1 a2 it x y m).2.2.2.2.liveLibc = m.liveLibc := by
  have b1 := Led.balanced (ensureRoom_led a1 m)
  have b2 := Led.balanced (ensureRoom_led a2 (ensureRoom a1 m).2.2)
  obtain ⟨r1, _, _⟩ := ensureRoom_spec a1 m h1
  obtain ⟨r2, _, _⟩ := ensureRoom_spec a2 (ensureRoom a1 m).2.2 h2
  rw [zipAdd_unfold]
  split
  · exact b1
  · split
    · exact ⟨by rw [b2.1, b1.1], by rw [b2.2, b1.2]⟩
    · rename_i n1 n2
      rcases r1 with ⟨_, _, _, d1, _⟩ | ⟨n, _⟩
      · rcases r2 with ⟨_, _, _, d2, _⟩ | ⟨n', _⟩
        · rw [(zipAddCore_room _ _ it x y _ (ensureRoom_inv a1 m h1) (ensureRoom_inv a2 _ h2) d1 d2).1]
          exact ⟨by rw [b2.1, b1.1], by rw [b2.2, b1.2]⟩
        · exact absurd (by simpa using n2) n'
      · exact absurd (by simpa using n1) n

theorem zipStep_liveLibc (a1 a2 : Arr) (it : ArrIter) (z : ZipCursor) (op : ZipOp) (m : Mem)
    (h1 : a1.Inv) (h2 : a2.Inv) (hs : ZSim a1 a2 it z) :
    (zipStep a1 a2 it op m).2.2.2.2.liveLibc = m.liveLibc := by
  cases op with
  | next => simp only [zipStep]; rw [(zipNext_sim a1 a2 it z m h1 h2 hs).2.2.2]
  | remove =>
    obtain ⟨_, _, _, _, _, _, _, r8, _⟩ := zipRemove_sim a1 a2 it z m h1 h2 hs
    simp only [zipStep]; rw [r8]
  | add x y => exact (zipAdd_balanced a1 a2 it x y m h1 h2).2
  | replace x y =>
    obtain ⟨_, _, _, _, _, _, _, r8, _⟩ := zipReplace_sim a1 a2 it z x y m h1 h2 hs
    simp only [zipStep]; rw [r8]
  | index => rfl

/-- a zip program over two arrays of any triples leaves the C-library live-block count where it was
(the configured one: `zip_program_refines`) -/
theorem zipRun_liveLibc (ops : List ZipOp) : ∀ (a1 a2 : Arr) (it : ArrIter) (z : ZipCursor) (m : Mem),
    a1.Inv → a2.Inv → ZSim a1 a2 it z → (zipRun a1 a2 it ops m).2.2.2.2.liveLibc = m.liveLibc := by
  induction ops with
  | nil => intro a1 a2 it z m _ _ _; rfl
  | cons op ops ih =>
    intro a1 a2 it z m h1 h2 hs
    obtain ⟨_, s2, s3, s4, _⟩ := zipStep_sim a1 a2 it z op m h1 h2 hs
    have := ih _ _ _ _ (zipStep a1 a2 it op m).2.2.2.2 s3 s4 s2
    simp only [zipRun]
    rw [this, zipStep_liveLibc a1 a2 it z op m h1 h2 hs]

/-- a failing room check is either a refusal or the capacity limit -/
theorem ensureRoom_fail (a : Arr) (m : Mem) (hne : (ensureRoom a m).1 ≠ .ok) :
    (ensureRoom a m).1 = .errAlloc ∨ a.AtLimit := by
  unfold ensureRoom at hne ⊢
  split at hne
  · rename_i hf
    simp only [hf, if_true]
    by_cases hmax : a.AtLimit
    · exact Or.inr hmax
    · left
      cases hal : (m.allocT a.triple).1
      · rw [expandCapacity_refused a m hmax hal]
      · rw [expandCapacity_success a m hmax hal] at hne; simp at hne
  · exact absurd rfl hne

/-- the refusal counter and `cc_array_zip_iter_add`, for arrays of any triples (equal or mixed): a
refusal makes the call report `CC_ERR_ALLOC`; conversely — unless one of the arrays sits at the capacity
limit, which this function also reports as `CC_ERR_ALLOC` — `CC_ERR_ALLOC` means exactly one refusal -/
theorem zipAdd_nrefused (a1 a2 : Arr) (it : ArrIter) (x y : Nat) (m : Mem) (h1 : a1.Inv) (h2 : a2.Inv) :
    (m.nrefused < (zipAdd a1 a2 it x y m).2.2.2.2.nrefused → (zipAdd a1 a2 it x y m).1 = .errAlloc) ∧
    ((zipAdd a1 a2 it x y m).1 = .errAlloc → ¬ a1.AtLimit → ¬ a2.AtLimit →
      (zipAdd a1 a2 it x y m).2.2.2.2.nrefused = m.nrefused + 1) ∧
    ((zipAdd a1 a2 it x y m).1 ≠ .errAlloc → (zipAdd a1 a2 it x y m).2.2.2.2.nrefused = m.nrefused) := by
  have l1 := (ensureRoom_led a1 m).2.2.1
  have l2 := (ensureRoom_led a2 (ensureRoom a1 m).2.2).2.2.1
  obtain ⟨r1, _, _⟩ := ensureRoom_spec a1 m h1
  obtain ⟨r2, _, _⟩ := ensureRoom_spec a2 (ensureRoom a1 m).2.2 h2
  rw [zipAdd_unfold]
  by_cases o1 : (ensureRoom a1 m).1 = .ok
  · simp only [o1, bne_self_eq_false, Bool.false_eq_true, if_false]
    rw [o1] at l1
    simp at l1
    by_cases o2 : (ensureRoom a2 (ensureRoom a1 m).2.2).1 = .ok
    · simp only [o2, bne_self_eq_false, Bool.false_eq_true, if_false]
      rw [o2] at l2
      simp at l2
      rcases r1 with ⟨_, _, _, d1, _⟩ | ⟨n1, _⟩
      · rcases r2 with ⟨_, _, _, d2, _⟩ | ⟨n2, _⟩
        · obtain ⟨hm, hc⟩ := zipAddCore_room (ensureRoom a1 m).2.1 (ensureRoom a2 (ensureRoom a1 m).2.2).2.1 it x y
            (ensureRoom a2 (ensureRoom a1 m).2.2).2.2 (ensureRoom_inv a1 m h1) (ensureRoom_inv a2 _ h2) d1 d2
          have hst : (zipAddCore (ensureRoom a1 m).2.1 (ensureRoom a2 (ensureRoom a1 m).2.2).2.1 it x y
              (ensureRoom a2 (ensureRoom a1 m).2.2).2.2).1 ≠ .errAlloc := by
            rcases hc with ⟨_, _, e⟩ | ⟨_, e, _⟩ <;> rw [e] <;> simp
          rw [hm]
          exact ⟨fun h => by omega, fun h => absurd h hst, fun _ => by omega⟩
        · exact absurd o2 n2
      · exact absurd o1 n1
    · have hne : ((ensureRoom a2 (ensureRoom a1 m).2.2).1 != .ok) = true := by simpa using o2
      simp only [hne, if_true]
      refine ⟨fun _ => by triv, fun _ _ hm2 => ?_, fun h => absurd rfl h⟩
      rcases ensureRoom_fail a2 _ o2 with e | e
      · rw [e] at l2; simp at l2; omega
      · exact absurd e hm2
  · have hne : ((ensureRoom a1 m).1 != .ok) = true := by simpa using o1
    simp only [hne, if_true]
    refine ⟨fun _ => by triv, fun _ hm1 _ => ?_, fun h => absurd rfl h⟩
    rcases ensureRoom_fail a1 _ o1 with e | e
    · rw [e] at l1; simpa using l1
    · exact absurd e hm1

/-- per-array charging of `cc_array_zip_iter_add`: the ledger goes through two stages, the first moved
only by the first array's triple, the second only by the second array's (whatever the two triples are) -/
theorem zipAdd_charges_each (a1 a2 : Arr) (it : ArrIter) (x y : Nat) (m : Mem) (h1 : a1.Inv) (h2 : a2.Inv) :
    ∃ (m1 : Mem) (r1 r2 : Bool), Led a1.triple m m1 0 r1 ∧ Led a2.triple m1 (zipAdd a1 a2 it x y m).2.2.2.2 0 r2 := by
  have l1 := ensureRoom_led a1 m
  have l2 := ensureRoom_led a2 (ensureRoom a1 m).2.2
  obtain ⟨r1, _, _⟩ := ensureRoom_spec a1 m h1
  obtain ⟨r2, _, _⟩ := ensureRoom_spec a2 (ensureRoom a1 m).2.2 h2
  refine ⟨(ensureRoom a1 m).2.2, _, ?_, l1, ?_⟩
  · exact if (ensureRoom a1 m).1 != .ok then false else decide ((ensureRoom a2 (ensureRoom a1 m).2.2).1 = .errAlloc)
  · rw [zipAdd_unfold]
    split
    · exact Led.rfl' _ _
    · split
      · exact l2
      · rename_i n1 n2
        rcases r1 with ⟨_, _, _, d1, _⟩ | ⟨n, _⟩
        · rcases r2 with ⟨_, _, _, d2, _⟩ | ⟨n', _⟩
          · rw [(zipAddCore_room _ _ it x y _ (ensureRoom_inv a1 m h1) (ensureRoom_inv a2 _ h2) d1 d2).1]
            exact l2
          · exact absurd (by simpa using n2) n'
        · exact absurd (by simpa using n1) n

end CC.Arr
