-- tree_min / tree_max / get_successor_node on the pointer-level heap agree with the path-based walks
import CollectionsC.Proofs.PTreeRotR
set_option linter.unusedSimpArgs false
namespace CC.PTree
open CC
open CC.Tree (Path Dir)

namespace ITree
theorem erase_subtree (t : ITree) (q : Path) : (t.subtree q).erase = Tree.subtree t.erase q := by
  induction q generalizing t with
  | nil => simp [Tree.subtree]
  | cons d q ih =>
    cases t with
    | nil => simp [erase, Tree.subtree]
    | node id c l k v r => cases d <;> simp [erase, Tree.subtree, ih]

theorem erase_eq_nil {t : ITree} : t.erase = .nil ↔ t = .nil := by cases t <;> simp [erase]

theorem height_erase (t : ITree) : t.erase.height = t.height := by
  induction t with
  | nil => rfl
  | node id c l k v r ihl ihr => simp [erase, Tree.height, height, ihl, ihr]

/-- every position above a node is a node -/
theorem subtree_prefix_node (t : ITree) (q0 : Path) (d : Dir) {x c a k v b}
    (h : t.subtree (q0 ++ [d]) = .node x c a k v b) : ∃ y c' l k' v' r, t.subtree q0 = .node y c' l k' v' r := by
  rw [subtree_append] at h
  cases hq : t.subtree q0 with
  | nil => rw [hq] at h; simp at h
  | node y c' l k' v' r => exact ⟨y, c', l, k', v', r, rfl⟩
end ITree

/-- **`tree_min`**: the loop `while (n->left != s) n = n->left` ends at the node the path-based walk names -/
theorem treeMinLoop_rep {h : Heap} {t : ITree} {p : Nat} (hr : Rep h t p) (hne : t ≠ .nil) (f : Nat)
    (hf : t.height ≤ f + 1) :
    treeMinLoop h f t.rid = (t.subtree (Tree.treeMinPath t.erase)).rid := by
  induction t generalizing p f with
  | nil => exact absurd rfl hne
  | node id c l k v r ihl _ =>
    obtain ⟨h1, h2, h3, _⟩ := hr
    cases l with
    | nil =>
      cases f <;> simp [treeMinLoop, ITree.erase, Tree.treeMinPath, h2]
    | node li lc ll lk lv lr =>
      cases f with
      | zero => simp [ITree.height] at hf
      | succ f =>
        have hl0 : li ≠ 0 := h3.1
        simp only [ITree.height] at hf
        have := ihl h3 (by simp) f (by simp only [ITree.height]; omega)
        simp only [ITree.rid_node] at this
        simp only [treeMinLoop, ITree.rid_node, h2, S, ne_eq, hl0, not_false_eq_true, if_true, this,
          ITree.erase, Tree.treeMinPath, ITree.subtree_L]

theorem treeMaxLoop_rep {h : Heap} {t : ITree} {p : Nat} (hr : Rep h t p) (hne : t ≠ .nil) (f : Nat)
    (hf : t.height ≤ f + 1) :
    treeMaxLoop h f t.rid = (t.subtree (Tree.treeMaxPath t.erase)).rid := by
  induction t generalizing p f with
  | nil => exact absurd rfl hne
  | node id c l k v r _ ihr =>
    obtain ⟨h1, h2, _, h4⟩ := hr
    cases r with
    | nil =>
      cases f <;> simp [treeMaxLoop, ITree.erase, Tree.treeMaxPath, h2]
    | node ri rc rl rk rv rr =>
      cases f with
      | zero => simp [ITree.height] at hf
      | succ f =>
        have hr0 : ri ≠ 0 := h4.1
        simp only [ITree.height] at hf
        have := ihr h4 (by simp) f (by simp only [ITree.height]; omega)
        simp only [ITree.rid_node] at this
        simp only [treeMaxLoop, ITree.rid_node, h2, S, ne_eq, hr0, not_false_eq_true, if_true, this,
          ITree.erase, Tree.treeMaxPath, ITree.subtree_R]

/-- the climbing loop of `get_successor_node` follows the parent pointers exactly as the path-based
`climbFromRight` drops trailing `R` steps -/
theorem climbRightLoop_rep {h : Heap} {t : ITree} (hr : Rep h t 0) (hnd : t.ids.Nodup) (q : Path)
    {x c a k v b} (hs : t.subtree q = .node x c a k v b) (f : Nat) (hf : q.length ≤ f) :
    climbRightLoop h f x (parentAt t 0 q) =
      match Tree.climbFromRight q.reverse with
      | some r => (t.subtree r.reverse).rid
      | none => 0 := by
  induction f generalizing q x c a k v b with
  | zero =>
    have : q = [] := List.length_eq_zero_iff.1 (Nat.le_zero.1 hf)
    subst this
    simp [climbRightLoop, parentAt, Tree.climbFromRight]
  | succ f ih =>
    rcases path_cases q with hq | ⟨q0, d, hq⟩
    · subst hq; simp [climbRightLoop, parentAt, Tree.climbFromRight]
    · subst hq
      obtain ⟨p1, _, _, p4⟩ := hr.parent_child hnd q0 d hs
      obtain ⟨y, c', l, k', v', r, hq0⟩ := ITree.subtree_prefix_node t q0 d hs
      have hpa : parentAt t 0 (q0 ++ [d]) = y := by simp [parentAt, hq0]
      rw [hpa] at p1 p4 ⊢
      have hyrec := (hr.sub q0)
      rw [hq0] at hyrec
      have hyp : (h.get y).parent = parentAt t 0 q0 := by rw [hyrec.2.1]
      simp only [List.length_append, List.length_cons, List.length_nil] at hf
      cases d with
      | R =>
        have e : x = (h.get y).right := (p4.2 rfl).symm
        simp only [climbRightLoop, S, ne_eq, p1, not_false_eq_true, e, and_self, if_true, hyp]
        rw [← e] at *
        have := ih q0 hq0 (by omega)
        rw [this]
        simp [Tree.climbFromRight]
      | L =>
        have e : ¬ x = (h.get y).right := fun e => by have := p4.1 e.symm; cases this
        simp only [climbRightLoop, S, ne_eq, p1, not_false_eq_true, e, and_false, if_false]
        simp [Tree.climbFromRight, hq0]

/-- **`get_successor_node`** on the heap arrives at the node the path-based walk `succPath` names (the
sentinel when there is none) — so, by `Tree.succPath_spec`, at the in-order successor -/
theorem successor_rep {h : Heap} {t : ITree} (hr : Rep h t 0) (hnd : t.ids.Nodup) (q : Path)
    {x c a k v b} (hs : t.subtree q = .node x c a k v b) (f : Nat) (hf : t.height ≤ f) :
    successor h f x =
      match Tree.succPath t.erase q with
      | some s => (t.subtree s).rid
      | none => 0 := by
  have hsub := hr.sub q
  rw [hs] at hsub
  obtain ⟨hx0, hxr, _, hb⟩ := hsub
  have hlen : q.length + (t.subtree q).height ≤ t.height := by
    have := Tree.length_add_height_le t.erase q (by rw [← ITree.erase_subtree, hs]; simp [ITree.erase])
    rw [← ITree.erase_subtree, ITree.height_erase, ITree.height_erase] at this; exact this
  rw [hs] at hlen
  simp only [ITree.height] at hlen
  unfold successor Tree.succPath
  rw [← ITree.erase_subtree, hs]
  simp only [ITree.erase, hxr]
  by_cases hbn : b = .nil
  · subst hbn
    simp only [ITree.rid_nil, S, ne_eq, not_true_eq_false, if_false, ITree.erase]
    have := climbRightLoop_rep hr hnd q hs f (by omega)
    rw [this]
    cases Tree.climbFromRight q.reverse <;> simp
  · have hb0 : b.rid ≠ 0 := by
      cases b with
      | nil => exact absurd rfl hbn
      | node bi bc bl bk bv br => exact hb.1
    have hbe : b.erase ≠ .nil := fun e => hbn (ITree.erase_eq_nil.1 e)
    simp only [S, ne_eq, hb0, not_false_eq_true, if_true, hbe, treeMin]
    cases f with
    | zero => omega
    | succ f =>
      have := treeMinLoop_rep hb hbn (f + 1) (by omega)
      rw [this, ITree.subtree_append, hs]
      simp
/-- the climbing loop of `get_successor_node` follows the parent pointers exactly as the path-based
`climbFromLeft` drops trailing `L` steps -/
theorem climbLeftLoop_rep {h : Heap} {t : ITree} (hr : Rep h t 0) (hnd : t.ids.Nodup) (q : Path)
    {x c a k v b} (hs : t.subtree q = .node x c a k v b) (f : Nat) (hf : q.length ≤ f) :
    climbLeftLoop h f x (parentAt t 0 q) =
      match Tree.climbFromLeft q.reverse with
      | some r => (t.subtree r.reverse).rid
      | none => 0 := by
  induction f generalizing q x c a k v b with
  | zero =>
    have : q = [] := List.length_eq_zero_iff.1 (Nat.le_zero.1 hf)
    subst this
    simp [climbLeftLoop, parentAt, Tree.climbFromLeft]
  | succ f ih =>
    rcases path_cases q with hq | ⟨q0, d, hq⟩
    · subst hq; simp [climbLeftLoop, parentAt, Tree.climbFromLeft]
    · subst hq
      obtain ⟨p1, _, p3, _⟩ := hr.parent_child hnd q0 d hs
      obtain ⟨y, c', l, k', v', r, hq0⟩ := ITree.subtree_prefix_node t q0 d hs
      have hpa : parentAt t 0 (q0 ++ [d]) = y := by simp [parentAt, hq0]
      rw [hpa] at p1 p3 ⊢
      have hyrec := (hr.sub q0)
      rw [hq0] at hyrec
      have hyp : (h.get y).parent = parentAt t 0 q0 := by rw [hyrec.2.1]
      simp only [List.length_append, List.length_cons, List.length_nil] at hf
      cases d with
      | L =>
        have e : x = (h.get y).left := (p3.2 rfl).symm
        simp only [climbLeftLoop, S, ne_eq, p1, not_false_eq_true, e, and_self, if_true, hyp]
        rw [← e] at *
        have := ih q0 hq0 (by omega)
        rw [this]
        simp [Tree.climbFromLeft]
      | R =>
        have e : ¬ x = (h.get y).left := fun e => by have := p3.1 e.symm; cases this
        simp only [climbLeftLoop, S, ne_eq, p1, not_false_eq_true, e, and_false, if_false]
        simp [Tree.climbFromLeft, hq0]

/-- **`get_successor_node`** on the heap arrives at the node the path-based walk `predPath` names (the
sentinel when there is none) — so, by `Tree.predPath_spec`, at the in-order predecessor -/
theorem predecessor_rep {h : Heap} {t : ITree} (hr : Rep h t 0) (hnd : t.ids.Nodup) (q : Path)
    {x c a k v b} (hs : t.subtree q = .node x c a k v b) (f : Nat) (hf : t.height ≤ f) :
    predecessor h f x =
      match Tree.predPath t.erase q with
      | some s => (t.subtree s).rid
      | none => 0 := by
  have hsub := hr.sub q
  rw [hs] at hsub
  obtain ⟨hx0, hxr, hb, _⟩ := hsub
  have hlen : q.length + (t.subtree q).height ≤ t.height := by
    have := Tree.length_add_height_le t.erase q (by rw [← ITree.erase_subtree, hs]; simp [ITree.erase])
    rw [← ITree.erase_subtree, ITree.height_erase, ITree.height_erase] at this; exact this
  rw [hs] at hlen
  simp only [ITree.height] at hlen
  unfold predecessor Tree.predPath
  rw [← ITree.erase_subtree, hs]
  simp only [ITree.erase, hxr]
  by_cases hbn : a = .nil
  · subst hbn
    simp only [ITree.rid_nil, S, ne_eq, not_true_eq_false, if_false, ITree.erase]
    have := climbLeftLoop_rep hr hnd q hs f (by omega)
    rw [this]
    cases Tree.climbFromLeft q.reverse <;> simp
  · have hb0 : a.rid ≠ 0 := by
      cases a with
      | nil => exact absurd rfl hbn
      | node bi bc bl bk bv br => exact hb.1
    have hbe : a.erase ≠ .nil := fun e => hbn (ITree.erase_eq_nil.1 e)
    simp only [S, ne_eq, hb0, not_false_eq_true, if_true, hbe, treeMax]
    cases f with
    | zero => omega
    | succ f =>
      have := treeMaxLoop_rep hb hbn (f + 1) (by omega)
      rw [this, ITree.subtree_append, hs]
      simp
end CC.PTree
