import CollectionsC.Proofs.TreeTableSpec
import CollectionsC.Model.TreeSet
/-! `cc_treeset`: every function is the `cc_treetable` function it wraps, on a table whose values are
all the dummy pointer; the ideal ordered set is the ideal ordered map with dummy values. -/
namespace CC.TreeSet
open CC.Spec CC.Spec.OrdMap CC.Spec.OrdSet
variable {cmp : Nat → Nat → Int}

theorem mem_insert {m : OrdMap} {k v : Nat} {e : Nat × Nat} (h : e ∈ OrdMap.insert cmp m k v) :
    e ∈ m ∨ e = (k, v) := by
  simp only [OrdMap.insert, below, above, List.mem_append, List.mem_cons, List.mem_filter] at h
  rcases h with h | h | h
  · exact Or.inl h.1
  · exact Or.inr h
  · exact Or.inl h.1

/-- every step of the ideal set keeps all values equal to the dummy -/
theorem spec_values (m : OrdMap) (hv : ∀ e ∈ m, e.2 = dummy) (op : OrdSet.Op) (r : Bool) :
    ∀ e ∈ (OrdSet.step cmp m op r).2, e.2 = dummy := by
  cases op <;> simp only [OrdSet.step, toMapOp, OrdMap.step] <;> try exact hv
  · split
    · exact hv
    · intro e he; rcases mem_insert he with h | h
      · exact hv e h
      · rw [h]
  · simp only [opRemove]; split
    · intro e he; exact hv e (List.mem_filter.1 he).1
    · exact hv
  · intro e he; simp at he

theorem add_stat (t : TreeTable) (k v : Nat) (m : Mem) :
    mapStat (t.add cmp k v m).1 = (t.add cmp k v m).1 := by
  unfold TreeTable.add; dsimp only
  split
  · rfl
  · split <;> rfl

/-- every function of `cc_treeset` is the table function it wraps, with `CC_ERR_KEY_NOT_FOUND`
reported as `CC_ERR_VALUE_NOT_FOUND` -/
theorem step_eq_table (s : TreeSet) (op : OrdSet.Op) (m : Mem) :
    s.step cmp op m =
      ({ st := (s.t.step cmp (toMapOp op) m).1.st.map mapStat, val := (s.t.step cmp (toMapOp op) m).1.val,
         log := (s.t.step cmp (toMapOp op) m).1.log },
       { s with t := (s.t.step cmp (toMapOp op) m).2.1 }, (s.t.step cmp (toMapOp op) m).2.2.1,
       (s.t.step cmp (toMapOp op) m).2.2.2) := by
  cases op <;> try rfl
  simp only [step, add, TreeTable.step, toMapOp, Option.map_some, add_stat]

/-- what one call of the set API guarantees -/
structure StepOK (cmp : Nat → Nat → Int) (s : TreeSet) (op : OrdSet.Op) (m : Mem) : Prop where
  /-- same status, out-value and callback sequence as the ideal ordered set (`apiOut`: the out-value
  of `cc_treeset_remove` is the dummy stored in the table instead of the removed element) -/
  out    : (s.step cmp op m).1 = apiOut op (OrdSet.step cmp s.t.abs op (!(m.allocT s.triple).1)).1
  abs    : (s.step cmp op m).2.1.t.abs = (OrdSet.step cmp s.t.abs op (!(m.allocT s.triple).1)).2
  inv    : (s.step cmp op m).2.1.Inv cmp
  nofault : (s.step cmp op m).2.2.1.fault = m.fault
  ledger : TreeTable.liveOf (s.step cmp op m).2.2.1 s.triple + s.t.size =
             TreeTable.liveOf m s.triple + (s.step cmp op m).2.1.t.size
  /-- the set and its table keep their allocator triple -/
  triple : (s.step cmp op m).2.1.triple = s.triple
  /-- ledger consistency of the wrapped table is preserved -/
  owns   : TreeTable.Owns (s.step cmp op m).2.1.t (s.step cmp op m).2.2.1
  cmps   : (s.step cmp op m).2.2.2 ≤ 2 * Nat.log2 (s.t.size + 1) + 2

theorem step_ok (ho : TotalOrder cmp) {s : TreeSet} (h : s.Inv cmp) (op : OrdSet.Op) (m : Mem)
    (hm : TreeTable.Owns s.t m) : StepOK cmp s op m := by
  obtain ⟨ko, ka, ki, kt, _, kf, kl, kw, kc⟩ := TreeTable.step_ok ho h.1 (toMapOp op) m hm
  obtain ⟨h1, h2, h3⟩ := h
  rw [h3] at ko ka kl
  have hv := spec_values (cmp := cmp) s.t.abs h2 op (!(m.allocT s.triple).1)
  have he := step_eq_table (cmp := cmp) s op m
  refine ⟨?_, ?_, ?_, ?_, ?_, ?_, ?_, ?_⟩ <;> rw [he]
  rotate_left 1
  · exact ka
  · refine ⟨ki, ?_, by show (s.t.step cmp (toMapOp op) m).2.1.triple = s.triple; rw [kt, h3]⟩
    show ∀ e ∈ (s.t.step cmp (toMapOp op) m).2.1.abs, e.2 = dummy
    rw [ka]; exact hv
  · exact kf
  · exact kl
  · exact kw
  · exact kc
  · -- the result record
    simp only [OrdSet.step, ko, apiOut]
    cases op <;> try rfl
    rename_i e
    -- remove: the table's out-value is the stored value of the entry, i.e. the dummy
    simp only [toMapOp, OrdMap.step, opRemove, isRemove, if_true]
    split
    · rename_i v hl
      simp only [OrdMap.lookup, Option.map_eq_some_iff] at hl
      obtain ⟨x, hx, hx2⟩ := hl
      have := h2 x (List.mem_of_find?_eq_some hx)
      simp [← hx2, this]
    · rfl
end CC.TreeSet
