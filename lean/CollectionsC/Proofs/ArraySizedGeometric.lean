import CollectionsC.Proofs.ArraySized8
/-! Sized array: counting re-allocations for **every expansion factor > 1** (C20), the
`capacity + 1` fallback included (the arithmetic is the one of `Proofs/ArrayGeometric.lean`, restated
here so that the sized development stays self-contained).  A growth function with
`c + c / k ≤ grow c` (factor `≥ 1 + 1/k`, rounded down: `k = 2` for 1.5, `k = 4` for 1.25, `k = 10`
for 1.1) causes at most `2k · (log2 (size + n) + 2)` re-allocations on `n` appends, under every refusal
schedule and on either allocator triple. -/
namespace CC.ArraySized
open CC CC.Gen

/-- the capacity requested by `expand_capacity` below half the element limit: the float product if it
makes progress, else one more slot -/
def capStep (grow : Nat → Nat) (c : Nat) : Nat := if grow c ≤ c then c + 1 else grow c

/-- `j` successive growth steps -/
def capIter (f : Nat → Nat) : Nat → Nat → Nat
  | 0, c => c
  | j + 1, c => capIter f j (f c)

theorem capIter_add (f : Nat → Nat) : ∀ a b c, capIter f (a + b) c = capIter f b (capIter f a c) := by
  intro a
  induction a with
  | zero => intro b c; simp [capIter]
  | succ a ih => intro b c; rw [Nat.succ_add]; simp only [capIter]; exact ih b (f c)

theorem nextCapacity_eq_capStep (a : ArraySized) (h : a.capacity < CC_MAX_ELEMENTS / 2) :
    a.nextCapacity = capStep a.grow a.capacity := by
  unfold nextCapacity capStep
  simp only [h, if_true]

/-- the buffers of `n` appends: the number `r` of successful allocations (on the array's own triple),
the final capacity as the `r`-th iterate of `capStep`, and every growth step taken at a capacity below
`size + n` — for every growth function and every refusal schedule -/
theorem addAll_chain : ∀ (xs : List (Buf Nat)) (a : ArraySized) (m : Mem), a.Inv →
    (∀ x ∈ xs, x.length = a.dataLen) → a.size + xs.length ≤ CC_MAX_ELEMENTS / 2 →
    ∃ r, cnt (a.addAll xs m).2 a.triple = cnt m a.triple + r ∧
      (a.addAll xs m).1.capacity = capIter (capStep a.grow) r a.capacity ∧
      (∀ j, j < r → capIter (capStep a.grow) j a.capacity < a.size + xs.length) ∧
      (a.addAll xs m).1.Inv := by
  intro xs
  induction xs with
  | nil => intro a m h _ _; exact ⟨0, rfl, rfl, fun j hj => by omega, h⟩
  | cons x xs ih =>
    intro a m h hx hl
    simp only [List.length_cons] at hl
    obtain ⟨i1, g1, d1, hc⟩ := add_cases a x m h (hx x (List.mem_cons_self ..))
    have gg : (a.add x m).2.1.grow = a.grow := congrArg Prod.fst g1
    have gt : (a.add x m).2.1.triple = a.triple := congrArg Prod.snd g1
    have hsz : (a.add x m).2.1.size ≤ a.size + 1 := by
      rcases hc with ⟨_, _, n3⟩ | ⟨_, _, _, n4⟩ <;> omega
    obtain ⟨r, j1, j2, j3, j4⟩ := ih (a.add x m).2.1 (a.add x m).2.2 i1
      (by intro y hy; rw [d1]; exact hx y (List.mem_cons_of_mem _ hy)) (by omega)
    rw [gt] at j1
    rw [gg] at j2 j3
    simp only [addAll, List.length_cons]
    rcases hc with ⟨n1, n2, n3⟩ | ⟨n1, n2, n3, n4⟩
    · rw [n2] at j2 j3
      exact ⟨r, by rw [j1, n1], j2, fun j hj => by have := j3 j hj; omega, j4⟩
    · rw [n3, nextCapacity_eq_capStep a (by omega)] at j2 j3
      refine ⟨r + 1, by rw [j1, n1]; omega, j2, fun j hj => ?_, j4⟩
      cases j with
      | zero => simp only [capIter]; omega
      | succ j => simp only [capIter]; have := j3 j (by omega); omega

/-! ### the arithmetic -/
theorem capIter_lower (f : Nat → Nat) (B k : Nat) (hf : ∀ c, c < B → c + max 1 (c / k) ≤ f c) :
    ∀ j c, (∀ i, i < j → capIter f i c < B) → c + j * max 1 (c / k) ≤ capIter f j c := by
  intro j
  induction j with
  | zero => intro c _; simp [capIter]
  | succ j ih =>
    intro c hb
    simp only [capIter]
    have h0 : c < B := hb 0 (by omega)
    have h1 := hf c h0
    have h2 := ih (f c) (fun i hi => hb (i + 1) (by omega))
    have h3 : max 1 (c / k) ≤ max 1 (f c / k) := by
      have : c / k ≤ f c / k := Nat.div_le_div_right (by omega)
      omega
    have h4 : j * max 1 (c / k) ≤ j * max 1 (f c / k) := Nat.mul_le_mul_left _ h3
    rw [Nat.succ_mul]
    omega

theorem capIter_doubles (f : Nat → Nat) (B k : Nat) (hk : 1 ≤ k) (hf : ∀ c, c < B → c + max 1 (c / k) ≤ f c)
    (c : Nat) (hc : 2 * k ≤ c) (hb : ∀ i, i < 2 * k → capIter f i c < B) : 2 * c ≤ capIter f (2 * k) c := by
  have h := capIter_lower f B k hf (2 * k) c hb
  have h1 : 2 * k * (c / k) ≤ 2 * k * max 1 (c / k) := Nat.mul_le_mul_left _ (by omega)
  have h2 : c = k * (c / k) + c % k := (Nat.div_add_mod c k).symm
  have h3 : c % k < k := Nat.mod_lt _ (by omega)
  have h4 : 2 * k * (c / k) = 2 * (k * (c / k)) := Nat.mul_assoc _ _ _
  generalize k * (c / k) = p at h2 h4
  generalize 2 * k * (c / k) = q at h1 h4
  generalize 2 * k * max 1 (c / k) = q' at h h1
  omega

theorem capIter_count_big (f : Nat → Nat) (B k : Nat) (hk : 1 ≤ k) (hf : ∀ c, c < B → c + max 1 (c / k) ≤ f c) :
    ∀ e c r, 2 * k ≤ c → B ≤ c * 2 ^ e → (∀ j, j < r → capIter f j c < B) → r ≤ 2 * k * e := by
  intro e
  induction e with
  | zero =>
    intro c r _ hB hb
    cases r with
    | zero => omega
    | succ r => have := hb 0 (by omega); simp only [capIter] at this; omega
  | succ e ih =>
    intro c r hc hB hb
    rw [Nat.mul_succ]
    by_cases hr : r ≤ 2 * k
    · omega
    · have hd := capIter_doubles f B k hk hf c hc (fun i hi => hb i (by omega))
      have hB' : B ≤ capIter f (2 * k) c * 2 ^ e := by
        have : c * 2 ^ (e + 1) = 2 * c * 2 ^ e := by rw [Nat.pow_succ]; ac_rfl
        have : 2 * c * 2 ^ e ≤ capIter f (2 * k) c * 2 ^ e := Nat.mul_le_mul_right _ hd
        omega
      have := ih (capIter f (2 * k) c) (r - 2 * k) (by omega) hB' (fun j hj => by
        rw [← capIter_add]; exact hb _ (by omega))
      omega

theorem capIter_count (f : Nat → Nat) (B k : Nat) (hk : 1 ≤ k) (hf : ∀ c, c < B → c + max 1 (c / k) ≤ f c)
    (c r : Nat) (hc : 1 ≤ c) (hb : ∀ j, j < r → capIter f j c < B) : r ≤ 2 * k * (Nat.log2 B + 2) := by
  have e : 2 * k * (Nat.log2 B + 2) = 2 * k * (Nat.log2 B + 1) + 2 * k := by rw [← Nat.mul_succ]
  rw [e]
  by_cases hr : r ≤ 2 * k
  · omega
  · have hl := capIter_lower f B k hf (2 * k) c (fun i hi => hb i (by omega))
    have h1 : 2 * k * 1 ≤ 2 * k * max 1 (c / k) := Nat.mul_le_mul_left _ (by omega)
    have hB' : B ≤ capIter f (2 * k) c * 2 ^ (Nat.log2 B + 1) := by
      have h2 : B < 2 ^ (Nat.log2 B + 1) := Nat.lt_log2_self
      have h3 : 1 * 2 ^ (Nat.log2 B + 1) ≤ capIter f (2 * k) c * 2 ^ (Nat.log2 B + 1) :=
        Nat.mul_le_mul_right _ (by omega)
      omega
    have := capIter_count_big f B k hk hf (Nat.log2 B + 1) (capIter f (2 * k) c) (r - 2 * k) (by omega) hB'
      (fun j hj => by rw [← capIter_add]; exact hb _ (by omega))
    omega

theorem capStep_ge (grow : Nat → Nat) (k c : Nat) (h : c + c / k ≤ grow c) : c + max 1 (c / k) ≤ capStep grow c := by
  unfold capStep
  split <;> omega

/-- **re-allocation bound for every expansion factor > 1**: if the growth function multiplies every
capacity below `size + n` by at least `1 + 1/k` (`c + c / k ≤ grow c`; nothing is assumed where the
product makes no progress — the library then falls back to `capacity + 1`), then appending any `n`
records performs at most `2k · (log2 (size + n) + 2)` successful buffer allocations, for every
refusal schedule and either allocator triple.  (`size + n ≤ CC_MAX_ELEMENTS / 2`: below 2^63 records
the fallback is `capacity + 1`, not the jump to `CC_MAX_ELEMENTS`.) -/
theorem addAll_realloc_geometric (k : Nat) (hk : 1 ≤ k) (a : ArraySized) (xs : List (Buf Nat)) (m : Mem)
    (h : a.Inv) (hx : ∀ x ∈ xs, x.length = a.dataLen) (hl : a.size + xs.length ≤ CC_MAX_ELEMENTS / 2)
    (hd : ∀ c, c < a.size + xs.length → c + c / k ≤ a.grow c) :
    cnt (a.addAll xs m).2 a.triple - cnt m a.triple ≤ 2 * k * (Nat.log2 (a.size + xs.length) + 2) := by
  obtain ⟨r, h1, _, h3, _⟩ := addAll_chain xs a m h hx hl
  have := capIter_count (capStep a.grow) (a.size + xs.length) k hk
    (fun c hc => capStep_ge a.grow k c (hd c hc)) a.capacity r h.2.1 h3
  omega

end CC.ArraySized
