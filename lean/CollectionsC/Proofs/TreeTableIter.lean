import CollectionsC.Proofs.TreeTableOps
/-! Iterator of `cc_treetable` (C07, tree part): the C iterator keeps two node pointers
(`current`, `next`); `iter_remove` unlinks `current` with CLRS's deletion, which moves the successor
node instead of freeing it, so the pre-computed `next` survives.  In the model the pointers are keys;
the simulation below relates them to the ideal cursor `(last, todo)`. -/
namespace CC.TreeTable
open CC.Spec CC.Spec.OrdMap CC.Tree
variable {cmp : Nat → Nat → Int}

local macro "triv" : tactic => `(tactic| first | trivial | rfl)

theorem keys_nodup (ho : TotalOrder cmp) {l : OrdMap} (hs : Sorted cmp l) : (keys l).Nodup := by
  unfold keys List.Nodup
  rw [List.pairwise_map]
  exact List.Pairwise.imp (fun h => ho.ne_of_lt h) hs

theorem nextAfter_keys (l : OrdMap) (done : List Nat) (k : Nat) (rest : List Nat)
    (h : keys l = done ++ k :: rest) (hk : k ∉ done) : (nextAfter l k).map (·.1) = rest.head? := by
  induction l generalizing done with
  | nil => simp [keys] at h
  | cons e l ih =>
    cases done with
    | nil =>
      simp only [keys, List.map_cons, List.nil_append, List.cons.injEq] at h
      simp only [nextAfter, h.1, if_true]
      rw [← h.2]; cases l <;> rfl
    | cons d done =>
      simp only [keys, List.map_cons, List.cons_append, List.cons.injEq] at h
      have hne : e.1 ≠ k := by rw [h.1]; intro x; exact hk (by simp [x])
      simp only [nextAfter, hne, if_false]
      exact ih done h.2 (fun x => hk (by simp [x]))

theorem keys_erase (l : OrdMap) (k : Nat) : keys (erase l k) = (keys l).filter (· != k) := by
  simp [keys, erase, List.filter_map]; rfl

theorem contains_iff_mem (l : OrdMap) (k : Nat) : contains l k = true ↔ k ∈ keys l := by
  simp [contains, keys]

/-- dereferencing the node pointer of key `k` gives the value the map holds for `k` -/
theorem valueAt_eq (ho : TotalOrder cmp) {t : TreeTable} (h : t.Inv cmp) (k : Nat) :
    t.valueAt k = (OrdMap.lookup t.abs k).getD 0 := by
  unfold valueAt abs
  rw [Tree.entry_posOf_eq_lookup (Tree.bst_nodup ho h.1) k]

/-- simulation relation between the C iterator (node pointers, here keys) and the ideal cursor -/
structure IterRel (t : TreeTable) (it : TreeIter) (cu : Cursor) : Prop where
  split : ∃ done, keys t.abs = done ++ cu.todo
  next  : it.next = cu.todo.head?
  cur   : match it.cur with
          | .at k => cu.last = some k ∧ k ∈ keys t.abs ∧ k ∉ cu.todo
          | _ => cu.last = none

theorem iterInit_rel (t : TreeTable) : IterRel t t.iterInit (Cursor.init t.abs) := by
  refine ⟨⟨[], rfl⟩, ?_, rfl⟩
  simp only [iterInit, Cursor.init, minEntry_eq, keys, abs]
  cases t.root.toList <;> rfl

theorem iterStep_sim (ho : TotalOrder cmp) {t : TreeTable} (h : t.Inv cmp) {it : TreeIter} {cu : Cursor}
    (hr : IterRel t it cu) (op : IterOp) (m : Mem) (hm : Owns t m) :
    (t.iterStep cmp it op m).1 = (cu.step t.abs op).1 ∧
    (t.iterStep cmp it op m).2.1.abs = (cu.step t.abs op).2.2 ∧
    (t.iterStep cmp it op m).2.1.Inv cmp ∧
    IterRel (t.iterStep cmp it op m).2.1 (t.iterStep cmp it op m).2.2.1 (cu.step t.abs op).2.1 ∧
    ((t.iterStep cmp it op m).2.2.1.cur = .sentinel → it.cur = .sentinel) ∧
    ((op = .remove → it.cur ≠ .sentinel) → (t.iterStep cmp it op m).2.2.2.fault = m.fault) ∧
    liveOf (t.iterStep cmp it op m).2.2.2 t.triple + t.size = liveOf m t.triple + (t.iterStep cmp it op m).2.1.size ∧
    (t.iterStep cmp it op m).2.1.triple = t.triple := by
  unfold Owns at hm
  obtain ⟨⟨done, hsplit⟩, hnext, hcur⟩ := hr
  have hnd := keys_nodup ho h.sorted
  cases op with
  | next =>
    cases htodo : cu.todo with
    | nil =>
      rw [htodo] at hnext
      simp only [List.head?_nil] at hnext
      simp only [iterStep, iterNext, hnext, Cursor.step, Cursor.next, htodo]
      refine ⟨by triv, by triv, h, ⟨⟨done, by rw [hsplit, htodo]⟩, by rw [hnext, htodo]; rfl, hcur⟩,
        fun x => x, fun _ => by triv, by triv, by triv⟩
    | cons k rest =>
      rw [htodo] at hnext hsplit
      simp only [List.head?_cons] at hnext
      rw [hsplit] at hnd
      have hk1 : k ∉ done := fun x => (List.nodup_append.1 hnd).2.2 k x k (by simp) rfl
      have hk2 : k ∉ rest := (List.nodup_cons.1 (List.nodup_append.1 hnd).2.1).1
      have hna := nextAfter_keys t.abs done k rest hsplit hk1
      have hkm : k ∈ t.root.toList.map (·.1) := by
        show k ∈ keys t.abs; rw [hsplit]; simp
      -- the pointer walk from the node just yielded arrives at the in-order neighbour
      rw [show nextAfter t.abs k = Tree.succOfNode t.root k from
        (Tree.succOfNode_eq (Tree.bst_nodup ho h.1) k hkm).symm] at hna
      simp only [iterStep, iterNext, hnext, Cursor.step, Cursor.next, htodo, valueAt_eq ho h]
      refine ⟨by triv, by triv, h, ⟨⟨done ++ [k], by rw [hsplit]; simp⟩, hna, ?_⟩,
        fun x => by simp at x, fun _ => by triv, by triv, by triv⟩
      exact ⟨rfl, by rw [hsplit]; simp, hk2⟩
  | remove =>
    cases hc : it.cur with
    | sentinel =>
      rw [hc] at hcur
      simp only at hcur
      simp only [iterStep, iterRemove, hc, Cursor.step, Cursor.remove, hcur]
      refine ⟨by triv, by triv, h, ⟨⟨done, hsplit⟩, hnext, by rw [hc]; exact hcur⟩,
        fun _ => by triv, fun x => absurd rfl (x trivial), by cases t.triple <;> simp [liveOf, Mem.check], by triv⟩
    | null =>
      rw [hc] at hcur
      simp only at hcur
      simp only [iterStep, iterRemove, hc, Cursor.step, Cursor.remove, hcur]
      refine ⟨by triv, by triv, h, ⟨⟨done, hsplit⟩, hnext, by rw [hc]; exact hcur⟩,
        fun x => x, fun _ => by triv, by triv, by triv⟩
    | «at» k =>
      rw [hc] at hcur
      simp only at hcur
      obtain ⟨hlast, hmem, hnot⟩ := hcur
      have hcon : contains t.abs k = true := (contains_iff_mem _ _).2 hmem
      obtain ⟨a, b, c, d⟩ := removeNode_spec ho h k m hcon (by omega)
      have hlk : OrdMap.lookup t.abs k = some (t.valueAt k) := by
        have := contains_iff_lookup t.abs k
        rw [hcon] at this
        rw [valueAt_eq ho h]
        cases hl : OrdMap.lookup t.abs k with
        | none => rw [hl] at this; simp at this
        | some v => rfl
      simp only [iterStep, iterRemove, hc, Cursor.step, Cursor.remove, hlast]
      refine ⟨by rw [hlk], a, b, ⟨⟨done.filter (· != k), ?_⟩, hnext, by triv⟩,
        fun x => by simp at x, fun _ => c, d⟩
      rw [a, keys_erase, hsplit, List.filter_append]
      congr 1
      exact List.filter_eq_self.2 (fun x hx => by simp; intro e; exact hnot (e ▸ hx))

/-- **iterator programs** (C07, tree part): every program of `next`/`remove` calls on the C iterator
behaves like the ideal cursor: same statuses, keys, values, same final content -/
theorem iterRun_sim (ho : TotalOrder cmp) (prog : List IterOp) {t : TreeTable} (h : t.Inv cmp)
    {it : TreeIter} {cu : Cursor} (hr : IterRel t it cu) (m : Mem) (hm : Owns t m) :
    (t.iterRun cmp it prog m).1 = (cu.run t.abs prog).1 ∧
    (t.iterRun cmp it prog m).2.1.abs = (cu.run t.abs prog).2.2 ∧
    (t.iterRun cmp it prog m).2.1.Inv cmp ∧
    IterRel (t.iterRun cmp it prog m).2.1 (t.iterRun cmp it prog m).2.2.1 (cu.run t.abs prog).2.1 ∧
    (IterValid cmp t it prog m → (t.iterRun cmp it prog m).2.2.2.fault = m.fault) ∧
    liveOf (t.iterRun cmp it prog m).2.2.2 t.triple + t.size = liveOf m t.triple + (t.iterRun cmp it prog m).2.1.size ∧
    (t.iterRun cmp it prog m).2.1.triple = t.triple := by
  induction prog generalizing t it cu m with
  | nil => exact ⟨rfl, rfl, h, hr, fun _ => rfl, rfl, rfl⟩
  | cons op rest ih =>
    obtain ⟨a, b, c, d, _, f, g, i⟩ := iterStep_sim ho h hr op m hm
    have hm' : Owns (t.iterStep cmp it op m).2.1 (t.iterStep cmp it op m).2.2.2 := by
      unfold Owns at hm ⊢; rw [i]; omega
    have ih' := ih c d (t.iterStep cmp it op m).2.2.2 hm'
    rw [b, i] at ih'
    obtain ⟨a', b', c', d', f', g', i'⟩ := ih'
    simp only [iterRun, Cursor.run]
    refine ⟨by rw [a, a'], b', c', d', ?_, by omega, i'⟩
    intro hv
    rw [f' hv.2, f hv.1]

/-- ledger consistency after an iterator program -/
theorem iterRun_owns (ho : TotalOrder cmp) (prog : List IterOp) {t : TreeTable} (h : t.Inv cmp)
    {it : TreeIter} {cu : Cursor} (hr : IterRel t it cu) (m : Mem) (hm : Owns t m) :
    Owns (t.iterRun cmp it prog m).2.1 (t.iterRun cmp it prog m).2.2.2 := by
  obtain ⟨_, _, _, _, _, g, i⟩ := iterRun_sim ho prog h hr m hm
  unfold Owns at hm ⊢; rw [i]; omega
end CC.TreeTable

/-! ### the saved `next` pointer and `remove_node` -/
namespace CC.TreeTable
open CC.Spec CC.Spec.OrdMap CC.Tree
variable {cmp : Nat → Nat → Int}

/-- **the iterator's saved `next` pointer survives `remove_node(current)`** (C07).  Let `n` be the key of
the node `next` points to and `c ≠ n` the key of the node being removed.  After the removal (CLRS
deletion with all its re-linking, the two-child rule and the rebalancing rotations) the node holding `n`
is still in the tree — at the position `posOf n` of the new tree —, it holds the same key and value, and
its in-order context is the old one with `c` erased: everything the walk visits from `next` on is exactly
what it would have visited before, minus the removed entry. -/
theorem next_survives_remove (ho : TotalOrder cmp) {t : TreeTable} (h : t.Inv cmp) (c n : Nat) (m : Mem)
    (hc : contains t.abs c = true) (hm : Owns t m) (hne : n ≠ c) {p : Path}
    (hp : posOf n t.root = some p) :
    ∃ p', posOf n (t.removeNode cmp c m).1.root = some p' ∧
      entryAt (t.removeNode cmp c m).1.root p' = entryAt t.root p ∧
      ctxBefore (t.removeNode cmp c m).1.root p' = erase (ctxBefore t.root p) c ∧
      ctxAfter (t.removeNode cmp c m).1.root p' = erase (ctxAfter t.root p) c := by
  obtain ⟨ha, hi, _⟩ := removeNode_spec ho h c m hc (by unfold Owns at hm; omega)
  generalize (t.removeNode cmp c m).1 = t' at ha hi
  obtain ⟨cc, a, v, b, hs⟩ := posOf_spec n t.root hp
  have hsp := toList_split t.root p hs
  have hnd' := bst_nodup ho hi.1
  have hl : t'.root.toList = erase (ctxBefore t.root p) c ++ (n, v) :: erase (ctxAfter t.root p) c := by
    show t'.abs = _
    rw [ha]; show erase t.root.toList c = _
    rw [hsp, erase_append, erase_cons, if_neg hne]
  cases hp' : posOf n t'.root with
  | none =>
    exfalso
    have := posOf_none n t'.root hp' (n, v) (by rw [hl]; simp)
    exact this rfl
  | some p' =>
    obtain ⟨cc', a', v', b', hs'⟩ := posOf_spec n t'.root hp'
    have hsp' := toList_split t'.root p' hs'
    rw [hsp'] at hnd'
    obtain ⟨x, y, z⟩ := split_unique hnd' (hsp'.symm.trans hl)
    exact ⟨p', rfl, by rw [entryAt_of_subtree hs', entryAt_of_subtree hs, y], x, z⟩

/-- consequently the successor walk from the saved pointer continues over the not-yet-visited entries:
when the removed node lies before `next` (it is the node yielded last), nothing after `next` changed -/
theorem walk_after_remove_unchanged (ho : TotalOrder cmp) {t : TreeTable} (h : t.Inv cmp) (c n : Nat) (m : Mem)
    (hc : contains t.abs c = true) (hm : Owns t m) (hlt : cmp c n < 0) {p : Path}
    (hp : posOf n t.root = some p) :
    ∃ p', posOf n (t.removeNode cmp c m).1.root = some p' ∧
      ctxAfter (t.removeNode cmp c m).1.root p' = ctxAfter t.root p := by
  obtain ⟨p', h1, _, _, h4⟩ := next_survives_remove ho h c n m hc hm (fun e => ho.ne_of_lt hlt e.symm) hp
  refine ⟨p', h1, ?_⟩
  rw [h4]
  obtain ⟨cc, a, v, b, hs⟩ := posOf_spec n t.root hp
  have hsorted : Sorted cmp (ctxBefore t.root p ++ (n, v) :: ctxAfter t.root p) := by
    rw [← toList_split t.root p hs]; exact h.1
  obtain ⟨_, _, _, h4', _⟩ := sorted_append_cons.1 hsorted
  exact erase_self_of_ne (fun e he => ho.ne_of_lt (ho.trans _ _ _ hlt (h4' e he)) |>.symm)

end CC.TreeTable

namespace CC.Tree
/-- CLRS's two-child rule as the model has it: the successor of `z` — the node `get_successor_node(z)`
arrives at, i.e. the iterator's saved `next` when `z` is `current` — is unlinked from the right subtree
and its key and value take `z`'s position and `z`'s colour; then the right subtree's deficit, if any, is
repaired from that position.  (In the C code it is the successor *node* that is re-linked into `z`'s
place and `z` that is freed: the pointer stays valid.) -/
theorem removeHere_moves_successor (c : Colour) (l : Tree) (k v : Nat) (r : Tree) (hl : l ≠ nil) (hr : r ≠ nil) :
    ∃ e, succEntryAt (node c l k v r) [] = some e ∧
      removeHere (node c l k v r) =
        (if (delMin r).2 then fixDelRight (node c l e.1 e.2 (delMin r).1)
         else (node c l e.1 e.2 (delMin r).1, false)) := by
  obtain ⟨c', k', v', b', h1, h2⟩ := treeMin_spec r hr
  have hmin : minEntry r = some (k', v') := by
    rw [minEntry_eq, toList_split r _ h1, h2]; rfl
  refine ⟨(k', v'), ?_, ?_⟩
  · simp only [succEntryAt, succPath, subtree, ne_eq, hr, not_false_eq_true, if_true, List.nil_append,
      Option.bind_some]
    exact entryAt_of_subtree (t := node c l k v r) (p := Dir.R :: treeMinPath r) h1
  · cases l with
    | nil => exact absurd rfl hl
    | node lc ll lk lv lr =>
      cases r with
      | nil => exact absurd rfl hr
      | node rc rl rk rv rr => simp only [removeHere, hmin]
end CC.Tree
