import CollectionsC.Proofs.TreeTableSession
/-! Balance without any assumption on the comparator: "red-black rules ∧ size field = node count" is
preserved by every call, along every history, for an arbitrary function `cmp`. -/
namespace CC.Tree
open Colour
variable {cmp : Nat → Nat → Int}

theorem ins_size (k v : Nat) (t : Tree) :
    (ins cmp k v t).1.size = t.size + (if (ins cmp k v t).2.1 then 1 else 0) := by
  induction t with
  | nil => simp [ins, size]
  | node c l key val r ihl ihr =>
    unfold ins
    split
    · have e : (if (ins cmp k v l).2.1 then fixInsLeft (node c (ins cmp k v l).1 key val r)
          else node c (ins cmp k v l).1 key val r).size = (ins cmp k v l).1.size + 1 + r.size := by
        split <;> simp [size_eq_length, toList_fixInsLeft] <;> omega
      simp only [e, ihl, size]; omega
    · split
      · have e : (if (ins cmp k v r).2.1 then fixInsRight (node c l key val (ins cmp k v r).1)
            else node c l key val (ins cmp k v r).1).size = l.size + 1 + (ins cmp k v r).1.size := by
          split <;> simp [size_eq_length, toList_fixInsRight] <;> omega
        simp only [e, ihr, size]; omega
      · simp [size]

theorem removeHere_size (c l k v r) : (removeHere (node c l k v r)).1.size + 1 = (node c l k v r).size := by
  simp only [size_eq_length, toList_removeHere, toList_node, List.length_append, List.length_cons]; omega

/-- a deletion that follows the descent of a successful lookup removes exactly one node — for any
comparator function -/
theorem del_size (k : Nat) (t : Tree) (h : (find cmp k t).1.isSome) : (del cmp k t).1.size + 1 = t.size := by
  induction t with
  | nil => simp [find] at h
  | node c l key val r ihl ihr =>
    unfold find at h
    unfold del
    split
    · rename_i hlt
      simp only [hlt, if_true] at h
      have := ihl h
      simp only [size_eq_length] at this
      dsimp only
      split <;> simp only [size_eq_length, toList_fixDelLeft, toList_node, List.length_append, List.length_cons] <;> omega
    · rename_i hlt
      split
      · rename_i hgt
        simp only [hlt, if_false, hgt, if_true] at h
        have := ihr h
        simp only [size_eq_length] at this
        dsimp only
        split <;> simp only [size_eq_length, toList_fixDelRight, toList_node, List.length_append, List.length_cons] <;> omega
      · exact removeHere_size c l key val r

theorem delMin_size (t : Tree) (h : t ≠ nil) : (delMin t).1.size + 1 = t.size := by
  have : t.toList ≠ [] := by cases t with | nil => exact absurd rfl h | node c l k v r => simp
  simp only [size_eq_length, toList_delMin, List.length_tail]
  have := List.length_pos_iff.2 this; omega
theorem delMax_size (t : Tree) (h : t ≠ nil) : (delMax t).1.size + 1 = t.size := by
  have : t.toList ≠ [] := by cases t with | nil => exact absurd rfl h | node c l k v r => simp
  simp only [size_eq_length, toList_delMax, List.length_dropLast]
  have := List.length_pos_iff.2 this; omega
theorem size_blacken (t : Tree) : t.blacken.size = t.size := by cases t <;> rfl
end CC.Tree

namespace CC.TreeTable
open CC.Spec CC.Spec.OrdMap
variable {cmp : Nat → Nat → Int}

/-- the part of the invariant that does not mention the order -/
def Balanced (t : TreeTable) : Prop := t.root.RB ∧ t.size = t.root.size

/-- **balance needs no assumption on the comparator**: for *any* function `cmp` (not even an order) every
call preserves "red-black rules ∧ size field = node count", and stays within the comparator budget -/
theorem step_balanced {t : TreeTable} (hb : t.Balanced) (op : Op) (m : Mem) :
    (t.step cmp op m).2.1.Balanced ∧ (t.step cmp op m).2.2.2 ≤ 2 * Nat.log2 (t.size + 1) + 2 := by
  obtain ⟨hrb, hs⟩ := hb
  have hlook : ∀ k, (t.lookup cmp k).2 ≤ 2 * Nat.log2 (t.size + 1) := by
    intro k
    unfold TreeTable.lookup
    split
    · exact Nat.zero_le _
    · rw [hs]; exact Nat.le_trans (Tree.find_cnt_le_height k t.root) (Tree.height_le_log _ hrb)
  have hfind : ∀ k v n, t.lookup cmp k = (some v, n) → (Tree.find cmp k t.root).1.isSome := by
    intro k v n hl
    unfold TreeTable.lookup at hl
    split at hl
    · simp at hl
    · rw [hl]; rfl
  have hroot : t.size ≠ 0 → t.root ≠ .nil := by
    intro h0 hn; rw [hs, hn] at h0; exact h0 rfl
  cases op with
  | add k v =>
    have hc : (Tree.ins cmp k v t.root).2.2 ≤ 2 * Nat.log2 (t.size + 1) := by
      rw [hs]; exact Nat.le_trans (Tree.ins_cnt_le_height k v t.root) (Tree.height_le_log _ hrb)
    have hsz := Tree.ins_size (cmp := cmp) k v t.root
    simp only [TreeTable.step]; unfold TreeTable.add; dsimp only
    split
    · rename_i hn
      simp only [Bool.not_eq_true'] at hn
      rw [hn] at hsz
      exact ⟨⟨Tree.RB_replace k v t.root hrb hn, by show t.size = _; rw [hsz, hs]; rfl⟩,
        by show (Tree.ins cmp k v t.root).2.2 ≤ _; omega⟩
    · rename_i hn
      simp only [Bool.not_eq_true', Bool.not_eq_false] at hn
      rw [hn] at hsz
      split
      · exact ⟨⟨hrb, hs⟩, by show (Tree.ins cmp k v t.root).2.2 ≤ _; omega⟩
      · refine ⟨⟨Tree.RB_insert k v t.root hrb, by show t.size + 1 = _; rw [Tree.size_blacken, hsz, hs]; rfl⟩, ?_⟩
        show (if t.root = .nil then _ else _) ≤ _
        split <;> omega
  | remove k =>
    have := hlook k
    have hf := hfind k
    simp only [TreeTable.step]; unfold TreeTable.remove
    generalize t.lookup cmp k = r at this hf ⊢
    rcases r with ⟨_ | v, n⟩
    · exact ⟨⟨hrb, hs⟩, by simp only at this ⊢; omega⟩
    · have hd := Tree.del_size k t.root (hf v n rfl)
      exact ⟨⟨Tree.RB_delete k t.root hrb, by show t.size - 1 = (Tree.del cmp k t.root).1.blacken.size; rw [Tree.size_blacken, hs]; omega⟩,
        by simp only at this ⊢; omega⟩
  | removeFirst =>
    simp only [TreeTable.step]; unfold TreeTable.removeFirst
    split
    · exact ⟨⟨hrb, hs⟩, Nat.zero_le _⟩
    · rename_i h0
      cases t.root.minEntry with
      | none => exact ⟨⟨hrb, hs⟩, Nat.zero_le _⟩
      | some e =>
        have hd := Tree.delMin_size t.root (hroot h0)
        exact ⟨⟨Tree.RB_delMin t.root hrb, by show t.size - 1 = t.root.delMin.1.blacken.size; rw [Tree.size_blacken, hs]; omega⟩, Nat.zero_le _⟩
  | removeLast =>
    simp only [TreeTable.step]; unfold TreeTable.removeLast
    split
    · exact ⟨⟨hrb, hs⟩, Nat.zero_le _⟩
    · rename_i h0
      cases t.root.maxEntry with
      | none => exact ⟨⟨hrb, hs⟩, Nat.zero_le _⟩
      | some e =>
        have hd := Tree.delMax_size t.root (hroot h0)
        exact ⟨⟨Tree.RB_delMax t.root hrb, by show t.size - 1 = t.root.delMax.1.blacken.size; rw [Tree.size_blacken, hs]; omega⟩, Nat.zero_le _⟩
  | removeAll => exact ⟨⟨⟨trivial, rfl⟩, rfl⟩, Nat.zero_le _⟩
  | get k =>
    refine ⟨⟨hrb, hs⟩, ?_⟩
    have := hlook k
    simp only [TreeTable.step]; unfold TreeTable.get
    generalize t.lookup cmp k = r at this ⊢
    rcases r with ⟨_ | v, n⟩ <;> (simp only at this ⊢; omega)
  | containsKey k =>
    exact ⟨⟨hrb, hs⟩, by have := hlook k; simp only [TreeTable.step, TreeTable.containsKey]; omega⟩
  | greaterThan k =>
    refine ⟨⟨hrb, hs⟩, ?_⟩
    have := hlook k
    simp only [TreeTable.step]; unfold TreeTable.greaterThan
    generalize t.lookup cmp k = r at this ⊢
    rcases r with ⟨_ | v, n⟩
    · simp only at this ⊢; omega
    · cases Tree.succOfKey cmp t.root k <;> (simp only at this ⊢; omega)
  | lesserThan k =>
    refine ⟨⟨hrb, hs⟩, ?_⟩
    have := hlook k
    simp only [TreeTable.step]; unfold TreeTable.lesserThan
    generalize t.lookup cmp k = r at this ⊢
    rcases r with ⟨_ | v, n⟩
    · simp only at this ⊢; omega
    · cases Tree.predOfKey cmp t.root k <;> (simp only at this ⊢; omega)
  | _ => exact ⟨⟨hrb, hs⟩, Nat.zero_le _⟩

/-- … along every history, for any comparator function and any allocator schedule -/
theorem run_balanced (ops : List (Op × List Bool)) {t : TreeTable} (hb : t.Balanced) (m : Mem) :
    (t.run cmp ops m).2.2.1.Balanced ∧ ∀ p ∈ (t.run cmp ops m).2.1, p.2 ≤ 2 * Nat.log2 (p.1 + 1) + 2 := by
  induction ops generalizing t m with
  | nil => exact ⟨hb, fun p hp => by simp [run] at hp⟩
  | cons x ops ih =>
    obtain ⟨op, sched⟩ := x
    obtain ⟨h1, h2⟩ := step_balanced (cmp := cmp) hb op (m.begin sched)
    obtain ⟨h3, h4⟩ := ih h1 (t.step cmp op (m.begin sched)).2.2.1
    simp only [run]
    refine ⟨h3, fun p hp => ?_⟩
    rcases List.mem_cons.1 hp with rfl | hp
    · exact h2
    · exact h4 p hp
end CC.TreeTable
