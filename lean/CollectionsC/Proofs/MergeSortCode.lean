import CollectionsC.Proofs.StableSortUnique
/-! The code-level merge sort of `cc_list_sort_in_place` (`DList.mergeLoop`, `DList.splitC`,
`DList.sortInPlaceC`: the C loop with its counters, cursors, `link_behind` relinking and four
`break`s) computes the specification-level `DList.sortInPlace`. -/
namespace CC.DList
open CC Chain
open CC.Spec.LSeq
open List

theorem insertIdx_append_length (A B : List Nat) (y : Nat) : (A ++ B).insertIdx A.length y = A ++ y :: B := by
  induction A with
  | nil => simp
  | cons a A ih => simp [ih]

theorem getD_append_length (A B : List Nat) (y : Nat) : (A ++ y :: B).getD A.length 0 = y := by simp

/-- relinking the head of the right run in front of the left run -/
theorem moveBefore_nodes (ch : Chain) (A L R post : List Nat) (y : Nat)
    (h : ch.nodes = A ++ L ++ (y :: R) ++ post) :
    (ch.moveBefore (A.length + L.length) A.length).nodes = A ++ [y] ++ L ++ R ++ post ∧
    (ch.moveBefore (A.length + L.length) A.length).size = ch.size := by
  refine ⟨?_, rfl⟩
  simp only [Chain.moveBefore, h]
  have e1 : A ++ L ++ y :: R ++ post = (A ++ L) ++ y :: (R ++ post) := by simp
  have hl : (A ++ L).length = A.length + L.length := by simp
  rw [e1, ← hl, getD_append_length, eraseIdx_append_cons]
  have e2 : A ++ L ++ (R ++ post) = A ++ (L ++ (R ++ post)) := by simp
  rw [e2, insertIdx_append_length]; simp

variable {cmp : Nat → Nat → Int}

/-- the fast-forward loops of `merge` dereference only nodes of the chain -/
theorem walk_check (n p k : Nat) (h : p + k < n) :
    (decide (k = 0) || (Chain.walkNext n (some p) (k - 1)).valid n) = true := by
  by_cases hk : k = 0
  · simp [hk]
  · rw [walkNext_some _ _ _ (by omega)]; simp [Ptr.valid, hk]; omega

theorem mergeLoop_spec (hc : CmpPreorder cmp) (lSize rSize s : Nat) (hle : lSize ≤ rSize) (hl0 : 0 < lSize) :
    ∀ (fuel : Nat) (A Lr Rr post : List Nat) (ch : Chain) (left right : Ptr) (lc rc : Nat) (m : Mem),
      ch.nodes = A ++ Lr ++ Rr ++ post → s ≤ A.length → Rr ≠ [] →
      lc + Lr.length = lSize → rc + Rr.length = rSize → A.length - s = lc + rc →
      left = some s → (A.length = s → right = some (s + lSize)) → Lr.length + Rr.length ≤ fuel →
      ∃ ch', mergeLoop cmp lSize rSize fuel (A.length - s) lc rc (some A.length) (some (A.length + Lr.length)) ch left right m
          = (ch', some s, some (s + lSize + rSize - 1), m) ∧
        ch'.nodes = A ++ merge Lr Rr (leOf cmp) ++ post ∧ ch'.size = ch.size ∧ ch'.triple = ch.triple
  | 0, A, Lr, Rr, post, ch, left, right, lc, rc, m, _, _, hR, _, _, _, _, _, hf => by
    cases Rr with
    | nil => exact absurd rfl hR
    | cons y R => simp at hf
  | fuel + 1, A, Lr, Rr, post, ch, left, right, lc, rc, m, hn, hs, hR, hlc, hrc, hi, hleft, hright, hf => by
    obtain ⟨y, R, rfl⟩ : ∃ y R, Rr = y :: R := by
      cases Rr with
      | nil => exact absurd rfl hR
      | cons y R => exact ⟨y, R, rfl⟩
    have hlen : ch.nodes.length = A.length + Lr.length + (R.length + 1) + post.length := by
      rw [hn]; simp; omega
    have hvA : Ptr.valid ch.nodes.length (some A.length) = true := by simp [Ptr.valid]; omega
    have hvB : Ptr.valid ch.nodes.length (some (A.length + Lr.length)) = true := by simp [Ptr.valid]; omega
    have hry : ch.data (some (A.length + Lr.length)) = y := by
      simp only [Chain.data, Ptr.pos, Option.getD_some, hn]
      have e1 : A ++ Lr ++ y :: R ++ post = (A ++ Lr) ++ y :: (R ++ post) := by simp
      rw [e1, ← List.length_append, getD_append_length]
    cases Lr with
    | nil =>
      -- the left run is used up: both cursors stand on the same node
      have hc0 : cmp y y ≤ 0 := by have := hc.le_refl y; simpa [leOf] using this
      have hly : ch.data (some A.length) = y := by simpa using hry
      have hlc' : lc = lSize := by simpa using hlc
      simp only [List.length_cons, List.length_nil, Nat.add_zero] at hrc hlen hvB
      have hi0 : ¬ (A.length - s = 0 ∧ rSize + lSize = 2) := by
        intro hh; omega
      simp only [mergeLoop, List.length_nil, Nat.add_zero, hly, hc0, if_true, hi0, if_false, hlc', hvA,
        Bool.and_self, Mem.check_true]
      refine ⟨ch, ?_, by rw [hn]; simp, rfl, rfl⟩
      rw [walk_check _ _ _ (by rw [hlen]; omega), Mem.check_true, walkNext_some _ _ _ (by rw [hlen]; omega)]
      simp only [List.length_nil] at hi hlc
      simp only [Prod.mk.injEq, Option.some.injEq, true_and, and_true]; first | omega | (constructor <;> omega)
    | cons x L =>
      have hlx : ch.data (some A.length) = x := by
        simp only [Chain.data, Ptr.pos, Option.getD_some, hn]
        have e1 : A ++ x :: L ++ y :: R ++ post = A ++ x :: (L ++ y :: R ++ post) := by simp
        rw [e1, getD_append_length]
      simp only [List.length_cons] at hlc hrc hf hlen hry hvB
      rw [List.cons_merge_cons]
      by_cases hxy : cmp x y ≤ 0
      · -- the left node stays
        have hle' : leOf cmp x y = true := by simp [leOf, hxy]
        simp only [mergeLoop, hlx, List.length_cons, hry, hxy, if_true, hle', hvA, hvB, Bool.and_self, Mem.check_true]
        by_cases h2 : A.length - s = 0 ∧ rSize + lSize = 2
        · -- first `break`: two nodes already in order
          rw [if_pos h2]
          have hL : L = [] := by cases L with | nil => rfl | cons _ _ => simp at hlc; omega
          have hRn : R = [] := by cases R with | nil => rfl | cons _ _ => simp at hrc; omega
          subst hL hRn
          refine ⟨ch, ?_, by rw [hn]; simp, rfl, rfl⟩
          have hA : A.length = s := by omega
          rw [hleft, hright hA]
          simp at hlc hrc
          simp only [Prod.mk.injEq, Option.some.injEq, true_and, and_true]; first | omega | (constructor <;> omega)
        · rw [if_neg h2, if_neg (by omega)]
          have hnx : Ptr.next ch.nodes.length (some A.length) = some ((A ++ [x]).length) := by
            simp only [Ptr.next, List.length_append, List.length_cons, List.length_nil]
            rw [if_pos (by omega)]
          have hrp : (some (A.length + (L.length + 1)) : Ptr) = some ((A ++ [x]).length + L.length) := by
            simp; omega
          have hidx : A.length - s + 1 = (A ++ [x]).length - s := by simp; omega
          rw [hnx, hrp, hidx]
          obtain ⟨ch', e, h1, h2'⟩ := mergeLoop_spec hc lSize rSize s hle hl0 fuel (A ++ [x]) L (y :: R) post ch left right
            (lc + 1) rc m (by rw [hn]; simp) (by simp; omega) (by simp) (by omega) (by simpa using hrc)
            (by simp; omega) hleft (by intro hh; simp at hh; omega) (by simp; omega)
          exact ⟨ch', e, by rw [h1]; simp, h2'⟩
      · -- the right node is relinked in front of the left cursor
        have hle' : ¬ leOf cmp x y = true := by simp [leOf, hxy]
        have hmv := moveBefore_nodes ch A (x :: L) R post y (by rw [hn])
        simp only [List.length_cons] at hmv
        simp only [mergeLoop, hlx, List.length_cons, hry, hxy, if_false, hle', Ptr.pos, Option.getD_some, hvA, hvB,
          Bool.and_self, Mem.check_true]
        have hlp' : Ptr.movePtr (A.length + (L.length + 1)) A.length (some A.length) = some (A.length + 1) := by
          simp only [Ptr.movePtr]; rw [if_neg (by omega), if_pos (by omega)]
        have hrp' : Ptr.movePtr (A.length + (L.length + 1)) A.length (some (A.length + (L.length + 1))) = some A.length := by
          simp [Ptr.movePtr]
        rw [hlp', hrp']
        by_cases h2 : A.length - s = 0 ∧ rSize + lSize = 2
        · -- second `break`: two nodes exchanged
          rw [if_pos h2]
          have hL : L = [] := by cases L with | nil => rfl | cons _ _ => simp at hlc; omega
          have hRn : R = [] := by cases R with | nil => rfl | cons _ _ => simp at hrc; omega
          subst hL hRn
          have hA : A.length = s := by omega
          simp only [List.length_nil] at hmv hlc hrc ⊢
          refine ⟨ch.moveBefore (A.length + (0 + 1)) A.length, ?_, by rw [hmv.1]; simp [hle'], hmv.2, rfl⟩
          rw [hA]
          simp only [Prod.mk.injEq, Option.some.injEq, true_and, and_true]; first | omega | (constructor <;> omega)
        · rw [if_neg h2]
          by_cases hr : rc + 1 = rSize
          · -- third `break`: the right run is used up
            rw [if_pos hr]
            have hRn : R = [] := by cases R with | nil => rfl | cons _ _ => simp at hrc; omega
            subst hRn
            have hipos : A.length ≠ s := by
              intro hA; apply h2; refine ⟨by omega, ?_⟩
              simp only [List.length_nil] at hrc; omega
            refine ⟨ch.moveBefore (A.length + (L.length + 1)) A.length, ?_, by rw [hmv.1]; simp, hmv.2, rfl⟩
            rw [walk_check _ _ _ (by rw [hlen]; simp; omega), Mem.check_true, walkNext_some _ _ _ (by rw [hlen]; simp; omega)]
            rw [hleft]
            have hl : Ptr.movePtr (A.length + (L.length + 1)) A.length (some s) = some s := by
              simp only [Ptr.movePtr]; rw [if_neg (by omega), if_neg (by omega)]
            rw [hl]
            simp only [List.length_nil] at hrc
            simp only [Prod.mk.injEq, Option.some.injEq, true_and, and_true]; first | omega | (constructor <;> omega)
          · rw [if_neg hr]
            have hRne : R ≠ [] := by intro e; subst e; simp at hrc; omega
            have htmp : Ptr.movePtr (A.length + (L.length + 1)) A.length
                (Ptr.next ch.nodes.length (some (A.length + (L.length + 1)))) = some ((A ++ [y]).length + (L.length + 1)) := by
              have hRl : 0 < R.length := List.length_pos_iff.2 hRne
              simp only [Ptr.next]
              rw [if_pos (by omega)]
              simp only [Ptr.movePtr]
              rw [if_neg (by omega), if_neg (by omega)]
              simp; omega
            have hlpn : (some (A.length + 1) : Ptr) = some ((A ++ [y]).length) := by simp
            have hidx : A.length - s + 1 = (A ++ [y]).length - s := by simp; omega
            have hleft' : (if A.length - s = 0 then (some A.length : Ptr)
                else Ptr.movePtr (A.length + (L.length + 1)) A.length left) = some s := by
              by_cases h0 : A.length - s = 0
              · rw [if_pos h0]; congr 1; omega
              · rw [if_neg h0, hleft]
                simp only [Ptr.movePtr]; rw [if_neg (by omega), if_neg (by omega)]
            rw [htmp, hlpn, hidx, hleft']
            have e3 : ((A ++ [y]).length + (L.length + 1)) = (A ++ [y]).length + (x :: L).length := by simp
            rw [e3]
            obtain ⟨ch', e, h1, h2'⟩ := mergeLoop_spec hc lSize rSize s hle hl0 fuel (A ++ [y]) (x :: L) R post
              (ch.moveBefore (A.length + (L.length + 1)) A.length) (some s)
              (Ptr.movePtr (A.length + (L.length + 1)) A.length right) lc (rc + 1) m
              (by rw [hmv.1]) (by simp only [List.length_append, List.length_cons, List.length_nil]; omega) hRne (by simpa using hlc) (by omega)
              (by simp only [List.length_append, List.length_cons, List.length_nil]; omega) rfl
              (by intro hh; simp at hh; omega) (by simp; omega)
            exact ⟨ch', e, by rw [h1]; simp, by rw [h2'.1, hmv.2], by rw [h2'.2]; rfl⟩

theorem splitC_spec (hc : CmpPreorder cmp) : ∀ (fuel : Nat) (ch : Chain) (pre seg post : List Nat) (s size : Nat) (m : Mem),
    ch.nodes = pre ++ seg ++ post → pre.length = s → seg.length = size → 1 ≤ size → size ≤ fuel →
    ∃ ch', splitC cmp fuel ch (some s) size m = (ch', some s, m) ∧ ch'.nodes = pre ++ msort cmp fuel seg ++ post ∧
      ch'.size = ch.size ∧ ch'.triple = ch.triple ∧ (2 ≤ size → ch'.head = some s ∧ ch'.tail = some (s + size - 1))
  | 0, ch, pre, seg, post, s, size, m, _, _, _, h1, hf => by omega
  | fuel + 1, ch, pre, seg, post, s, size, m, hn, hp, hsz, h1, hf => by
    by_cases h2 : size < 2
    · refine ⟨ch, by simp [splitC, h2], ?_, rfl, rfl, by omega⟩
      rw [msort_short _ _ (by omega), hn]
    · have hl1 : 1 ≤ size / 2 := by omega
      have hr1 : 1 ≤ size / 2 + size % 2 := by omega
      have hsum : size / 2 + (size / 2 + size % 2) = size := by omega
      have hlenn : ch.nodes.length = s + size + post.length := by rw [hn]; simp [hp, hsz]; omega
      have hck : (Chain.walkNext ch.nodes.length (some s) (size / 2 - 1)).valid ch.nodes.length = true := by
        rw [walkNext_some _ _ _ (by rw [hlenn]; omega)]; simp [Ptr.valid]; omega
      simp only [splitC, h2, if_false, hck, Mem.check_true]
      -- the left run
      obtain ⟨ch1, e1, n1, s1, t1, _⟩ := splitC_spec hc fuel ch pre (seg.take (size / 2)) (seg.drop (size / 2) ++ post) s (size / 2) m
        (by rw [hn]; simp only [List.append_assoc]; rw [← List.append_assoc (take _ seg), List.take_append_drop]) hp (by rw [List.length_take]; omega) hl1 (by omega)
      -- `center`
      rw [walkNext_some _ _ _ (by rw [hlenn]; omega), e1]
      -- the right run
      have hL : (msort cmp fuel (seg.take (size / 2))).length = size / 2 := by
        rw [msort_length, List.length_take]; omega
      have hR : (msort cmp fuel (seg.drop (size / 2))).length = size / 2 + size % 2 := by
        rw [msort_length, List.length_drop]; omega
      obtain ⟨ch2, e2, n2, s2, t2, _⟩ := splitC_spec hc fuel ch1 (pre ++ msort cmp fuel (seg.take (size / 2))) (seg.drop (size / 2)) post
        (s + size / 2) (size / 2 + size % 2) m
        (by rw [n1]; simp) (by simp [hp, hL]) (by rw [List.length_drop]; omega) hr1 (by omega)
      simp only [e2]
      -- the merge
      have hRne : msort cmp fuel (seg.drop (size / 2)) ≠ [] := by
        intro e; rw [e] at hR; simp at hR; omega
      obtain ⟨ch3, e3, n3, s3, t3⟩ := mergeLoop_spec hc (size / 2) (size / 2 + size % 2) s (by omega) hl1
        (size / 2 + size % 2 + size / 2) pre (msort cmp fuel (seg.take (size / 2))) (msort cmp fuel (seg.drop (size / 2))) post
        ch2 (some s) (some (s + size / 2)) 0 0 m
        (by rw [n2]) (by omega) hRne (by omega) (by omega) (by omega) rfl (fun _ => rfl) (by omega)
      rw [hp, Nat.sub_self, hL] at e3
      rw [e3]
      refine ⟨_, rfl, ?_, by simp only []; rw [s3, s2, s1], by simp only []; rw [t3, t2, t1], ?_⟩
      · simp only []
        rw [n3]
        simp only [msort, hsz, h2, if_false]
        rfl
      · intro _; exact ⟨rfl, by simp only []; congr 1; omega⟩

/-- **the code-level sort is the specification-level sort and dereferences no invalid pointer**, for
every total-preorder comparator and every list state satisfying the invariant; the ledger comes back
untouched (no allocator call, no fault) -/
theorem sortInPlaceC_eq (hc : CmpPreorder cmp) (l : Chain) (h : l.Inv) (m : Mem) :
    sortInPlaceC cmp l m = (sortInPlace cmp l, m) := by
  rw [h.eq, sortInPlace_ofList]
  unfold sortInPlaceC
  simp only [ofList_size]
  by_cases h2 : l.abs.length < 2
  · rw [msort_short _ _ h2]
    match hl : l.abs.length with
    | 0 => simp [splitC]
    | 1 => simp [splitC]
    | n + 2 => omega
  · have h0 : l.abs.length ≠ 0 := by omega
    have hh : (ofList l.triple l.abs).head = some 0 := by simp [ofList, h0]
    obtain ⟨ch', e, n1, s1, t1, ht⟩ := splitC_spec hc l.abs.length (ofList l.triple l.abs) [] l.abs [] 0 l.abs.length m
      (by simp) rfl rfl (by omega) (Nat.le_refl _)
    rw [hh, e]
    obtain ⟨hhd, htl⟩ := ht (by omega)
    cases ch'
    simp only [ofList, msort_length, h0, if_false] at *
    simp [n1, s1, t1, hhd, htl]

end CC.DList
