import CollectionsC.Proofs.PTreeInsertStep
import CollectionsC.Proofs.PTreeRotL
import CollectionsC.Proofs.PTreeRotR
set_option linter.unusedSimpArgs false
set_option linter.unusedVariables false
namespace CC.PTree
open CC
open CC.Tree (Path Dir)

/-! The body of one iteration of `rebalance_after_delete` for `x` a left child, cut into the pieces of the
C text: case 1 (red sibling: recolour, rotate, re-read the sibling), the test for case 2, case 3 (sibling's
far child black: recolour, rotate at the sibling, re-read it), case 4 (recolour, rotate at the parent). -/

def delCase1L (st : PT) (x : Nat) : PT × Nat :=
  let h := st.heap
  let xp := (h.get x).parent
  let w := (h.get xp).right
  if (h.get w).color = .red then
    let h := setColor h w .black
    let h := setColor h xp .red
    let st := rotateLeft { st with heap := h } xp
    (st, (st.heap.get (st.heap.get x).parent).right)
  else (st, w)

def delCase3L (st : PT) (x w : Nat) : PT × Nat :=
  let h := st.heap
  if (h.get (h.get w).right).color = .black then
    let h := setColor h (h.get w).left .black
    let h := setColor h w .red
    let st := rotateRight { st with heap := h } w
    (st, (st.heap.get (st.heap.get x).parent).right)
  else (st, w)

def delCase4L (st : PT) (x w : Nat) : PT :=
  let h := st.heap
  let h := setColor h w (h.get (h.get x).parent).color
  let h := setColor h (h.get x).parent .black
  let h := setColor h (h.get w).right .black
  rotateLeft { st with heap := h } (h.get x).parent

/-- one iteration of the loop for a black non-root `x` that is a left child -/
theorem rebalDeleteLoop_left (f : Nat) (st : PT) (x : Nat) (h1 : x ≠ st.root) (h2 : (st.heap.get x).color = .black)
    (h3 : x = (st.heap.get (st.heap.get x).parent).left) :
    rebalDeleteLoop (f + 1) st x =
      (let r1 := delCase1L st x
       if (r1.1.heap.get (r1.1.heap.get r1.2).left).color = .black ∧
          (r1.1.heap.get (r1.1.heap.get r1.2).right).color = .black then
         rebalDeleteLoop f { r1.1 with heap := setColor r1.1.heap r1.2 .red }
           ((setColor r1.1.heap r1.2 .red).get x).parent
       else
         let r3 := delCase3L r1.1 x r1.2
         let st4 := delCase4L r3.1 x r3.2
         (st4, st4.root)) := by
  rw [rebalDeleteLoop]
  simp only [h1, h2, ne_eq, not_true_eq_false, or_self, if_false, ← h3, if_true]
  rfl
end CC.PTree

namespace CC.PTree
open CC
open CC.Tree (Path Dir)

theorem At.rotL_get0 {st : PT} {T : ITree} {g : Path} {G : ITree} (h : At st T g G) (q2 : Path)
    {x cx a kx vx y cy b ky vy c} (hs : G.subtree q2 = .node x cx a kx vx (.node y cy b ky vy c)) :
    (rotateLeft st x).heap.get 0 = st.heap.get 0 := by
  have hs' : (T.replace g G).subtree (g ++ q2) = .node x cx a kx vx (.node y cy b ky vy c) := by rw [h.sub, hs]
  exact (rotateLeft_rep h.rep.rep h.rep.root h.rep.nodup (g ++ q2) hs').2.2.1
theorem At.rotR_get0 {st : PT} {T : ITree} {g : Path} {G : ITree} (h : At st T g G) (q2 : Path)
    {x cx a kx vx y cy b ky vy c} (hs : G.subtree q2 = .node x cx (.node y cy a ky vy b) kx vx c) :
    (rotateRight st x).heap.get 0 = st.heap.get 0 := by
  have hs' : (T.replace g G).subtree (g ++ q2) = .node x cx (.node y cy a ky vy b) kx vx c := by rw [h.sub, hs]
  exact (rotateRight_rep h.rep.rep h.rep.root h.rep.nodup (g ++ q2) hs').2.2.1
theorem setColor_get0 (h : Heap) (i : Nat) (c : Colour) (hi : i ≠ 0) : (setColor h i c).get 0 = h.get 0 := by
  simp [setColor, Heap.get_set, Ne.symm hi]

/-- `x->parent` for the (possibly empty) left subtree `X` of the node at the top of `G`: a real node has it
by representation, the sentinel keeps the scratch value as long as nobody writes it -/
theorem At.left_parent {st : PT} {T : ITree} {g : Path} {p : Nat} {c : Colour} {X : ITree} {k v : Nat} {R : ITree}
    (h : At st T g (.node p c X k v R)) (hX : X ≠ .nil) : (st.heap.get X.rid).parent = p := by
  cases X with
  | nil => exact absurd rfl hX
  | node xi xc xa xk xv xb =>
    have := (h.get [.L] rfl).1
    simp [this]

/-- **case 1** (`w` red), `x` a left child: `w` black, parent red, rotate left at the parent; the new sibling
is `w`'s former left child, `x->parent` is unchanged -/
theorem delete_step_L_case1 {st : PT} {T : ITree} {g : Path} {xp : Nat} {cp : Colour} {X : ITree} {kp vp w : Nat}
    {wl : ITree} {kw vw : Nat} {wr : ITree}
    (h : At st T g (.node xp cp X kp vp (.node w .red wl kw vw wr)))
    {x : Nat} (hx : x = X.rid) (hxp : (st.heap.get x).parent = xp) :
    ∃ st', delCase1L st x = (st', wl.rid) ∧
      At st' T g (.node w .black (.node xp .red X kp vp wl) kw vw wr) ∧
      (st'.heap.get x).parent = xp := by
  obtain ⟨rp, p0⟩ := h.get [] rfl
  obtain ⟨rw, w0⟩ := h.get [.R] rfl
  have h1 := h.setColor [.R] rfl .black
  have h2 := h1.setColor [] rfl .red
  simp only [ITree.replace, ITree.replace_root] at h1 h2
  have h3 := h2.rotL [] rfl
  simp only [ITree.replace_root] at h3
  have hxp' : ((rotateLeft { st with heap := setColor (setColor st.heap w .black) xp .red } xp).heap.get x).parent = xp := by
    by_cases hX : X = .nil
    · subst hX; subst hx
      rw [ITree.rid_nil, h2.rotL_get0 [] rfl]
      show ((setColor (setColor st.heap w .black) xp .red).get 0).parent = xp
      rw [setColor_get0 _ _ _ p0, setColor_get0 _ _ _ w0]; exact hxp
    · subst hx
      have := (h3.get [.L] rfl).1
      -- `X` is the left child of `xp`, which is the left child of `w`
      have hA : At (rotateLeft { st with heap := setColor (setColor st.heap w .black) xp .red } xp) T g
          (.node w .black (.node xp .red X kp vp wl) kw vw wr) := h3
      cases X with
      | nil => exact absurd rfl hX
      | node xi xc xa xk xv xb =>
        have := (hA.get [.L, .L] rfl).1
        simp [this]
  refine ⟨_, ?_, h3, hxp'⟩
  unfold delCase1L
  simp only [hxp, rp, ITree.rid_node, rw, if_true]
  rw [hxp', (h3.get [.L] rfl).1]
end CC.PTree

namespace CC.PTree
open CC
open CC.Tree (Path Dir)

theorem setColor_parent (h : Heap) (i j : Nat) (c : Colour) : ((setColor h i c).get j).parent = (h.get j).parent := by
  simp only [setColor, Heap.get_set]; split <;> simp_all
theorem setColor_left (h : Heap) (i j : Nat) (c : Colour) : ((setColor h i c).get j).left = (h.get j).left := by
  simp only [setColor, Heap.get_set]; split <;> simp_all
theorem setColor_right (h : Heap) (i j : Nat) (c : Colour) : ((setColor h i c).get j).right = (h.get j).right := by
  simp only [setColor, Heap.get_set]; split <;> simp_all
theorem setColor_color (h : Heap) (i j : Nat) (c : Colour) :
    ((setColor h i c).get j).color = if j = i then c else (h.get j).color := by
  simp only [setColor, Heap.get_set]; split <;> simp_all

/-- `w` black: case 1 does nothing -/
theorem delete_step_L_case1_skip {st : PT} {T : ITree} {g : Path} {xp : Nat} {cp : Colour} {X : ITree} {kp vp w : Nat}
    {wl : ITree} {kw vw : Nat} {wr : ITree}
    (h : At st T g (.node xp cp X kp vp (.node w .black wl kw vw wr)))
    {x : Nat} (hxp : (st.heap.get x).parent = xp) : delCase1L st x = (st, w) := by
  obtain ⟨rp, p0⟩ := h.get [] rfl
  obtain ⟨rw, w0⟩ := h.get [.R] rfl
  unfold delCase1L
  simp [hxp, rp, rw]

/-- **case 2** (`w` black with two black children), `x` a left child: the test of the C code succeeds, `w`
becomes red, the loop continues at the parent -/
theorem delete_step_L_case2 {st : PT} {T : ITree} {g : Path} {xp : Nat} {cp : Colour} {X : ITree} {kp vp w : Nat}
    {cw : Colour} {wl : ITree} {kw vw : Nat} {wr : ITree}
    (h : At st T g (.node xp cp X kp vp (.node w cw wl kw vw wr))) (hwl : wl.col = .black) (hwr : wr.col = .black)
    {x : Nat} (hxp : (st.heap.get x).parent = xp) :
    ((st.heap.get (st.heap.get w).left).color = .black ∧ (st.heap.get (st.heap.get w).right).color = .black) ∧
    At { st with heap := setColor st.heap w .red } T g (.node xp cp X kp vp (.node w .red wl kw vw wr)) ∧
    ((setColor st.heap w .red).get x).parent = xp := by
  obtain ⟨rw, w0⟩ := h.get [.R] rfl
  have cl := h.col_read [.R, .L]
  have cr := h.col_read [.R, .R]
  simp only [ITree.subtree_R, ITree.subtree_L, ITree.subtree_root] at cl cr
  refine ⟨⟨by rw [rw]; simpa [hwl] using cl, by rw [rw]; simpa [hwr] using cr⟩, ?_, by rw [setColor_parent]; exact hxp⟩
  have := h.setColor [.R] rfl .red
  simpa only [ITree.replace, ITree.replace_root] using this

/-- `w`'s far child red: case 3 does nothing -/
theorem delete_step_L_case3_skip {st : PT} {T : ITree} {g : Path} {xp : Nat} {cp : Colour} {X : ITree} {kp vp w : Nat}
    {cw : Colour} {wl : ITree} {kw vw : Nat} {wr : ITree}
    (h : At st T g (.node xp cp X kp vp (.node w cw wl kw vw wr))) (hwr : wr.col = .red) (x : Nat) :
    delCase3L st x w = (st, w) := by
  obtain ⟨rw, w0⟩ := h.get [.R] rfl
  have cr := h.col_read [.R, .R]
  simp only [ITree.subtree_R, ITree.subtree_root] at cr
  unfold delCase3L
  simp [rw, cr, hwr]

/-- **case 3** (`w` black, its far child black, its near child `l` a node — red in a red-black tree), `x` a left
child: `l` black, `w` red, rotate right at `w`; the new sibling is `l`, `x->parent` is unchanged -/
theorem delete_step_L_case3 {st : PT} {T : ITree} {g : Path} {xp : Nat} {cp : Colour} {X : ITree} {kp vp w : Nat}
    {cw : Colour} {l : Nat} {cl : Colour} {la : ITree} {kl vl : Nat} {lb : ITree} {kw vw : Nat} {wr : ITree}
    (h : At st T g (.node xp cp X kp vp (.node w cw (.node l cl la kl vl lb) kw vw wr))) (hwr : wr.col = .black)
    {x : Nat} (hx : x = X.rid) (hxp : (st.heap.get x).parent = xp) :
    ∃ st', delCase3L st x w = (st', l) ∧
      At st' T g (.node xp cp X kp vp (.node l .black la kl vl (.node w .red lb kw vw wr))) ∧
      (st'.heap.get x).parent = xp := by
  obtain ⟨rw, w0⟩ := h.get [.R] rfl
  obtain ⟨rl, l0⟩ := h.get [.R, .L] rfl
  obtain ⟨rp, p0⟩ := h.get [] rfl
  have cr := h.col_read [.R, .R]
  simp only [ITree.subtree_R, ITree.subtree_root] at cr
  have h1 := h.setColor [.R, .L] rfl .black
  have h2 := h1.setColor [.R] rfl .red
  simp only [ITree.replace, ITree.replace_root] at h1 h2
  have h3 := h2.rotR [.R] rfl
  simp only [ITree.replace, ITree.replace_root] at h3
  have hxp' : ((rotateRight { st with heap := setColor (setColor st.heap l .black) w .red } w).heap.get x).parent = xp := by
    by_cases hX : X = .nil
    · subst hX; subst hx
      rw [ITree.rid_nil, h2.rotR_get0 [.R] rfl]
      show ((setColor (setColor st.heap l .black) w .red).get 0).parent = xp
      rw [setColor_parent, setColor_parent]; exact hxp
    · subst hx; exact h3.left_parent hX
  refine ⟨_, ?_, h3, hxp'⟩
  unfold delCase3L
  simp only [rw, ITree.rid_node, cr, hwr, if_true]
  rw [hxp', (h3.get [] rfl).1]
  rfl
end CC.PTree

namespace CC.PTree
open CC
open CC.Tree (Path Dir)

/-- **case 4** (`w`'s far child `r` a node — red in a red-black tree), `x` a left child: `w` takes the parent's
colour, parent and `r` black, rotate left at the parent (then `x = root` ends the loop) -/
theorem delete_step_L_case4 {st : PT} {T : ITree} {g : Path} {xp : Nat} {cp : Colour} {X : ITree} {kp vp w : Nat}
    {cw : Colour} {wl : ITree} {kw vw r : Nat} {cr : Colour} {ra : ITree} {kr vr : Nat} {rb : ITree}
    (h : At st T g (.node xp cp X kp vp (.node w cw wl kw vw (.node r cr ra kr vr rb))))
    {x : Nat} (hxp : (st.heap.get x).parent = xp) :
    ∃ st', delCase4L st x w = st' ∧
      At st' T g (.node w cp (.node xp .black X kp vp wl) kw vw (.node r .black ra kr vr rb)) := by
  obtain ⟨rw, w0⟩ := h.get [.R] rfl
  obtain ⟨rp, p0⟩ := h.get [] rfl
  have h1 := h.setColor [.R] rfl cp
  have h2 := h1.setColor [] rfl .black
  simp only [ITree.replace, ITree.replace_root] at h1 h2
  have h3 := h2.setColor [.R, .R] rfl .black
  simp only [ITree.replace, ITree.replace_root] at h3
  have h4 := h3.rotL [] rfl
  simp only [ITree.replace_root] at h4
  refine ⟨_, ?_, h4⟩
  unfold delCase4L
  simp only [setColor_parent, setColor_right, hxp, rp, rw, ITree.rid_node]
end CC.PTree
