import CollectionsC.Proofs.TST
/-! The iterator of the TST table: the C pointer automaton (`iterLoop`, `iterStep` over node paths)
yields exactly the first-arrival pre-order enumeration `entriesP` (self, left, mid, right), never
runs out of fuel, and `iter_remove` continues over the entries that were not yet yielded. -/
set_option linter.unusedSimpArgs false
set_option linter.unusedVariables false
namespace CC.TST
open CC

/-! ### pointers -/

theorem sub_append (t : Node) (p q : Path) : t.sub (p ++ q) = (t.sub p).sub q := by
  induction p generalizing t with
  | nil => rfl
  | cons d p ih =>
    cases t with
    | nil => cases q <;> simp [Node.sub]
    | node c dd l m r => cases d <;> simp [Node.sub, ih]

theorem sub_snoc (t : Node) (p : Path) (d : Dir) : t.sub (p ++ [d]) = (t.sub p).child d := by
  rw [sub_append]
  cases t.sub p with
  | nil => simp [Node.sub, Node.child]
  | node c dd l m r => cases d <;> simp [Node.sub, Node.child]

@[simp] theorem parentPtr_nil : parentPtr [] = none := rfl
@[simp] theorem parentPtr_snoc (p : Path) (d : Dir) : parentPtr (p ++ [d]) = some p := by
  simp [parentPtr]

theorem snoc_ne_parentPtr (p : Path) (d : Dir) : some (p ++ [d]) ≠ parentPtr p := by
  unfold parentPtr
  split
  · simp
  · intro h
    have := congrArg (fun o => o.map List.length) h
    simp at this
    omega

theorem some_ne_parentPtr_self (p : Path) : some p ≠ parentPtr p := by
  unfold parentPtr
  split
  · simp
  · intro h
    have := congrArg (fun o => o.map List.length) h
    simp at this
    cases p with
    | nil => contradiction
    | cons a p => simp at this

def later : Dir → List Dir
  | .L => [.M, .R]
  | .M => [.R]
  | .R => []

/-- the cascade of `iterStep` as a list of candidate directions followed by the parent -/
def kids (n : Node) (p : Path) (ds : List Dir) : List (Option Path) := ds.map (childPtr n p)

theorem childPtr_of_nil (n : Node) (p : Path) (d : Dir) (h : n.child d = .nil) : childPtr n p d = none := by
  simp [childPtr, h, Node.isNil]
theorem childPtr_of_ne_nil (n : Node) (p : Path) (d : Dir) (h : n.child d ≠ .nil) :
    childPtr n p d = some (p ++ [d]) := by
  unfold childPtr
  have : (n.child d).isNil = false := by
    cases hh : (n.child d).isNil
    · rfl
    · exact absurd ((Node.isNil_iff _).mp hh) h
  simp [this]

theorem childPtr_ne_of_ne (n : Node) (p : Path) (d d' : Dir) (h : d ≠ d') : some (p ++ [d]) ≠ childPtr n p d' := by
  unfold childPtr
  split
  · simp
  · simp; exact h

/-- arriving from the parent: the candidates are left, mid, right -/
theorem iterStep_down (n : Node) (p : Path) :
    iterStep n p (parentPtr p) = firstPtr (kids n p [.L, .M, .R] ++ [parentPtr p]) := by
  simp [iterStep, kids]

/-- arriving from the (existing) child `d`: the candidates are the later children -/
theorem iterStep_up (n : Node) (p : Path) (d : Dir) (h : n.child d ≠ .nil) :
    iterStep n p (some (p ++ [d])) = firstPtr (kids n p (later d) ++ [parentPtr p]) := by
  have h0 := snoc_ne_parentPtr p d
  have hd := childPtr_of_ne_nil n p d h
  cases d
  · simp only [iterStep, h0, if_false, hd, if_true, later, kids, List.map, List.cons_append, List.nil_append]
  · have h1 := childPtr_ne_of_ne n p .M .L (by decide)
    simp only [iterStep, h0, if_false, h1, hd, if_true, later, kids, List.map, List.cons_append, List.nil_append]
  · have h1 := childPtr_ne_of_ne n p .R .L (by decide)
    have h2 := childPtr_ne_of_ne n p .R .M (by decide)
    simp only [iterStep, h0, if_false, h1, h2, hd, if_true, later, kids, List.map, List.cons_append, List.nil_append]

theorem firstPtr_err (xs : List (Option Path)) : (firstPtr xs).2 = true → (firstPtr xs).1 = none := by
  induction xs with
  | nil => simp [firstPtr]
  | cons a xs ih => cases a <;> simp [firstPtr]; exact ih

theorem iterStep_err (n : Node) (p : Path) (prev : Option Path) :
    (iterStep n p prev).2 = true → (iterStep n p prev).1 = none := by
  unfold iterStep
  simp only []
  split; · exact firstPtr_err _
  split; · exact firstPtr_err _
  split; · exact firstPtr_err _
  split; · exact firstPtr_err _
  simp

/-! ### the loop -/

/-- `next_node` stored when the node at `q` is yielded -/
def nxt (root : Node) (q : Path) : Option Path :=
  if (iterStep (root.sub q) q (parentPtr q)).2 then none else (iterStep (root.sub q) q (parentPtr q)).1

def endRes (it : Iter) (mem : Mem) : NextRes := ⟨.iterEnd, none, { it with next := none, cur := none }, mem⟩
def yieldRes (root : Node) (it : Iter) (mem : Mem) (q : Path) (e : Entry) : NextRes :=
  ⟨.ok, some e, { it with cur := some q, next := nxt root q }, mem⟩

/-- yield the first entry of the list, or continue with `k` -/
def resOf (root : Node) (it : Iter) (mem : Mem) (xs : List (Path × Entry)) (k : NextRes) : NextRes :=
  match xs with
  | [] => k
  | x :: _ => yieldRes root it mem x.1 x.2

theorem resOf_append (root : Node) (it : Iter) (mem : Mem) (xs ys : List (Path × Entry)) (k : NextRes) :
    resOf root it mem xs (resOf root it mem ys k) = resOf root it mem (xs ++ ys) k := by
  cases xs <;> simp [resOf]

/-- entries of the subtree at `p` with absolute addresses -/
def entriesAt (root : Node) (p : Path) : List (Path × Entry) :=
  (root.sub p).entriesP.map fun x => (p ++ x.1, x.2)

def sibsNodes (n : Node) (ds : List Dir) : Nat := (ds.map fun d => 2 * (n.child d).nodes).sum
def sibsEntries (root : Node) (p : Path) (ds : List Dir) : List (Path × Entry) :=
  ds.flatMap fun d => entriesAt root (p ++ [d])

theorem iterLoop_none (root : Node) (it : Iter) (fuel : Nat) (prev : Option Path) (mem : Mem) :
    iterLoop root it fuel none prev mem = endRes it mem := by
  cases fuel <;> simp [iterLoop, endRes]

/-- one turn of the loop at an existing node that does not yield -/
theorem iterLoop_pass (root : Node) (it : Iter) (fuel : Nat) (p : Path) (prev : Option Path) (mem : Mem)
    (c : Nat) (dd : Option Entry) (l m r : Node) (hn : root.sub p = .node c dd l m r)
    (hy : ¬ (dd.isSome = true ∧ prev = parentPtr p)) :
    iterLoop root it (fuel + 1) (some p) prev mem =
      iterLoop root it fuel (iterStep (.node c dd l m r) p prev).1 (some p) mem := by
  simp only [iterLoop, hn]
  have : (dd.isSome && prev == parentPtr p) = false := by
    cases h1 : dd.isSome
    · simp
    · have : prev ≠ parentPtr p := fun h => hy ⟨h1, h⟩
      simp [this]
  simp only [this, Bool.false_eq_true, if_false]
  split
  · rename_i he
    rw [iterStep_err _ _ _ he, iterLoop_none]; rfl
  · rfl

/-- arrival from the parent at a marked node yields it -/
theorem iterLoop_yield (root : Node) (it : Iter) (fuel : Nat) (p : Path) (mem : Mem)
    (c : Nat) (e : Entry) (l m r : Node) (hn : root.sub p = .node c (some e) l m r) :
    iterLoop root it (fuel + 1) (some p) (parentPtr p) mem = yieldRes root it mem p e := by
  simp only [iterLoop, hn, yieldRes, nxt]
  simp

theorem firstPtr_cons_none (xs : List (Option Path)) : firstPtr (none :: xs) = firstPtr xs := rfl
theorem firstPtr_cons_some (q : Path) (xs : List (Option Path)) : firstPtr (some q :: xs) = (some q, false) := rfl

theorem later_closed (d : Dir) : later d = [] ∨ ∃ d', later d = d' :: later d' := by
  cases d
  · exact Or.inr ⟨.M, rfl⟩
  · exact Or.inr ⟨.R, rfl⟩
  · exact Or.inl rfl

/-- what the traversal of one subtree does: yield its first entry, or pass through it completely and
arrive back at its parent -/
def DownOK (root : Node) (it : Iter) (mem : Mem) (p : Path) : Prop :=
  ∀ fuel, iterLoop root it (fuel + (2 * (root.sub p).nodes - 1)) (some p) (parentPtr p) mem =
    resOf root it mem (entriesAt root p) (iterLoop root it fuel (parentPtr p) (some p) mem)

/-- after the choice among the candidate children `ds` of the node `p` was made: the chosen child's
subtree is traversed, then the later ones, then the automaton arrives at the parent -/
theorem sibs' (root : Node) (it : Iter) (mem : Mem) (p : Path) (c : Nat) (dd : Option Entry) (l m r : Node)
    (hn : root.sub p = .node c dd l m r)
    (Hsub : ∀ d, (Node.node c dd l m r).child d ≠ .nil → DownOK root it mem (p ++ [d]))
    (ds : List Dir) (hds : ds = [] ∨ ∃ d, ds = d :: later d) :
    ∀ fuel,
      iterLoop root it (fuel + sibsNodes (.node c dd l m r) ds)
          (firstPtr (kids (.node c dd l m r) p ds ++ [parentPtr p])).1 (some p) mem =
        resOf root it mem (sibsEntries root p ds) (iterLoop root it fuel (parentPtr p) (some p) mem) := by
  induction ds with
  | nil =>
    intro fuel
    simp only [sibsNodes, List.map_nil, List.sum_nil, Nat.add_zero, sibsEntries, List.flatMap_nil, resOf,
      kids, List.nil_append]
    cases parentPtr p <;> rfl
  | cons d ds' ih =>
    intro fuel
    have hds' : ds' = later d := by
      rcases hds with h | ⟨d0, h⟩
      · cases h
      · simp at h; rw [h.1, h.2]
    subst hds'
    have ih' := ih (later_closed d)
    by_cases hc : (Node.node c dd l m r).child d = .nil
    · -- no such child: the cascade moves on to the next candidate
      have h1 : kids (.node c dd l m r) p (d :: later d) = none :: kids (.node c dd l m r) p (later d) := by
        simp [kids, childPtr_of_nil _ p d hc]
      have h2 : sibsNodes (.node c dd l m r) (d :: later d) = sibsNodes (.node c dd l m r) (later d) := by
        simp [sibsNodes, hc, Node.nodes]
      have h3 : sibsEntries root p (d :: later d) = sibsEntries root p (later d) := by
        simp [sibsEntries, entriesAt, sub_snoc, hn, hc, Node.entriesP]
      rw [h1, List.cons_append, firstPtr_cons_none, h2, h3]
      exact ih' fuel
    · -- descend into the child, then come back and go on with the later candidates
      have h1 : kids (.node c dd l m r) p (d :: later d) =
          some (p ++ [d]) :: kids (.node c dd l m r) p (later d) := by
        simp [kids, childPtr_of_ne_nil _ p d hc]
      rw [h1, List.cons_append, firstPtr_cons_some]
      have hpos : 0 < ((Node.node c dd l m r).child d).nodes := by
        cases hcc : (Node.node c dd l m r).child d with
        | nil => exact absurd hcc hc
        | node _ _ _ _ _ => simp [Node.nodes]; omega
      have h2 : fuel + sibsNodes (.node c dd l m r) (d :: later d) =
          ((fuel + sibsNodes (.node c dd l m r) (later d)) + 1) + (2 * ((Node.node c dd l m r).child d).nodes - 1) := by
        simp only [sibsNodes, List.map_cons, List.sum_cons]; omega
      have hd := Hsub d hc ((fuel + sibsNodes (.node c dd l m r) (later d)) + 1)
      rw [sub_snoc, hn, parentPtr_snoc] at hd
      simp only []
      rw [h2, hd]
      rw [iterLoop_pass root it _ p (some (p ++ [d])) mem c dd l m r hn (fun h => snoc_ne_parentPtr p d h.2)]
      rw [iterStep_up _ p d hc, ih' fuel, resOf_append]
      simp [sibsEntries]

/-- at the node `p` (not yielding), with the candidate children `ds` still to visit -/
theorem sibs (root : Node) (it : Iter) (mem : Mem) (p : Path) (c : Nat) (dd : Option Entry) (l m r : Node)
    (hn : root.sub p = .node c dd l m r)
    (Hsub : ∀ d, (Node.node c dd l m r).child d ≠ .nil → DownOK root it mem (p ++ [d]))
    (ds : List Dir) (hds : ds = [] ∨ ∃ d, ds = d :: later d) :
    ∀ fuel prev, iterStep (.node c dd l m r) p prev = firstPtr (kids (.node c dd l m r) p ds ++ [parentPtr p]) →
      ¬ (dd.isSome = true ∧ prev = parentPtr p) →
      iterLoop root it (fuel + 1 + sibsNodes (.node c dd l m r) ds) (some p) prev mem =
        resOf root it mem (sibsEntries root p ds) (iterLoop root it fuel (parentPtr p) (some p) mem) := by
  intro fuel prev hs hy
  rw [show fuel + 1 + sibsNodes (.node c dd l m r) ds = (fuel + sibsNodes (.node c dd l m r) ds) + 1 by omega]
  rw [iterLoop_pass root it _ p prev mem c dd l m r hn hy, hs]
  exact sibs' root it mem p c dd l m r hn Hsub ds hds fuel

theorem entriesAt_node (root : Node) (p : Path) (c : Nat) (dd : Option Entry) (l m r : Node)
    (hn : root.sub p = .node c dd l m r) :
    entriesAt root p = (match dd with | some e => [(p, e)] | none => []) ++ sibsEntries root p [.L, .M, .R] := by
  simp only [entriesAt, hn, Node.entriesP, sibsEntries, List.flatMap_cons, List.flatMap_nil, sub_snoc,
    Node.child, List.map_append, List.map_map, List.append_nil, List.append_assoc]
  cases dd <;> simp [Function.comp_def]

/-- **subtree traversal**: entering a subtree from its parent, the automaton yields the subtree's
first entry in pre-order, or (no entry) walks through all of it in exactly `2·nodes − 1` turns and
arrives back at the parent -/
theorem loop_down (root : Node) (it : Iter) (mem : Mem) :
    ∀ (s : Node) (p : Path), root.sub p = s → s ≠ .nil → DownOK root it mem p := by
  intro s
  induction s with
  | nil => intro p _ h; exact absurd rfl h
  | node c dd l m r ihl ihm ihr =>
    intro p hn _ fuel
    rw [hn]
    have Hsub : ∀ d, (Node.node c dd l m r).child d ≠ .nil → DownOK root it mem (p ++ [d]) := by
      intro d hd
      cases d
      · exact ihl (p ++ [.L]) (by rw [sub_snoc, hn]; rfl) hd
      · exact ihm (p ++ [.M]) (by rw [sub_snoc, hn]; rfl) hd
      · exact ihr (p ++ [.R]) (by rw [sub_snoc, hn]; rfl) hd
    rw [entriesAt_node root p c dd l m r hn]
    cases dd with
    | some e =>
      have : fuel + (2 * (Node.node c (some e) l m r).nodes - 1) =
          (fuel + 2 * l.nodes + 2 * m.nodes + 2 * r.nodes) + 1 := by simp only [Node.nodes]; omega
      rw [this, iterLoop_yield root it _ p mem c e l m r hn]
      simp [resOf]
    | none =>
      have : fuel + (2 * (Node.node c none l m r).nodes - 1) =
          fuel + 1 + sibsNodes (.node c none l m r) [.L, .M, .R] := by
        simp only [Node.nodes, sibsNodes, List.map_cons, List.map_nil, List.sum_cons, List.sum_nil, Node.child]; omega
      rw [this]
      simp only [List.nil_append]
      exact sibs root it mem p c none l m r hn Hsub [.L, .M, .R] (Or.inr ⟨.L, rfl⟩) fuel (parentPtr p)
        (iterStep_down _ p) (by simp)

/-! ### what is still to come above a node -/

/-- the entries that follow the subtree at `p` in pre-order: later siblings at every level, innermost first -/
def above (root : Node) : (rp : List Dir) → List (Path × Entry)   -- `rp` is the path reversed
  | [] => []
  | d :: rq => sibsEntries root rq.reverse (later d) ++ above root rq

/-- turns of the loop from the arrival at the parent of `p` (coming from `p`) to the end -/
def aboveMu (root : Node) : (rp : List Dir) → Nat
  | [] => 0
  | d :: rq => 1 + sibsNodes (root.sub rq.reverse) (later d) + aboveMu root rq

/-- **returning upward**: arrived at `q` from its child `d`, the automaton yields the first entry of the
later siblings' subtrees or of what follows above `q`, else reports the end -/
theorem loop_up (root : Node) (it : Iter) (mem : Mem) :
    ∀ (rq : List Dir) (d : Dir), root.sub (rq.reverse ++ [d]) ≠ .nil → ∀ fuel,
      iterLoop root it (fuel + aboveMu root (d :: rq)) (some rq.reverse) (some (rq.reverse ++ [d])) mem =
        resOf root it mem (above root (d :: rq)) (endRes it mem) := by
  intro rq
  induction rq with
  | nil =>
    intro d hd fuel
    simp only [List.reverse_nil, List.nil_append] at hd ⊢
    cases hn : root.sub [] with
    | nil => rw [show ([d] : Path) = [] ++ [d] from rfl, sub_snoc, hn] at hd; simp [Node.child] at hd
    | node c dd l m r =>
      have hc : (Node.node c dd l m r).child d ≠ .nil := by
        rw [show ([d] : Path) = [] ++ [d] from rfl, sub_snoc, hn] at hd; exact hd
      have Hsub : ∀ d', (Node.node c dd l m r).child d' ≠ .nil → DownOK root it mem ([] ++ [d']) :=
        fun d' hd' => loop_down root it mem _ _ rfl (by rw [sub_snoc, hn]; exact hd')
      have := sibs root it mem [] c dd l m r hn Hsub (later d) (later_closed d) fuel (some ([] ++ [d]))
        (iterStep_up _ [] d hc) (fun h => snoc_ne_parentPtr [] d h.2)
      simp only [aboveMu, above, List.reverse_nil, hn, List.nil_append, List.append_nil] at this ⊢
      rw [show fuel + (1 + sibsNodes (.node c dd l m r) (later d) + 0) = fuel + 1 + sibsNodes (.node c dd l m r) (later d) by omega]
      rw [this, parentPtr_nil, iterLoop_none]
  | cons d0 rq ih =>
    intro d hd fuel
    have hpath : (d0 :: rq).reverse = rq.reverse ++ [d0] := by simp
    cases hn : root.sub (d0 :: rq).reverse with
    | nil => rw [sub_snoc, hn] at hd; simp [Node.child] at hd
    | node c dd l m r =>
      have hc : (Node.node c dd l m r).child d ≠ .nil := by rw [sub_snoc, hn] at hd; exact hd
      have Hsub : ∀ d', (Node.node c dd l m r).child d' ≠ .nil → DownOK root it mem ((d0 :: rq).reverse ++ [d']) :=
        fun d' hd' => loop_down root it mem _ _ rfl (by rw [sub_snoc, hn]; exact hd')
      have := sibs root it mem (d0 :: rq).reverse c dd l m r hn Hsub (later d) (later_closed d)
        (fuel + aboveMu root (d0 :: rq)) (some ((d0 :: rq).reverse ++ [d]))
        (iterStep_up _ _ d hc) (fun h => snoc_ne_parentPtr _ d h.2)
      have hne : root.sub (rq.reverse ++ [d0]) ≠ .nil := by rw [← hpath, hn]; simp
      have ihh := ih d0 hne fuel
      rw [show aboveMu root (d :: d0 :: rq) = 1 + sibsNodes (.node c dd l m r) (later d) + aboveMu root (d0 :: rq) by
        simp only [aboveMu, hn]]
      rw [show fuel + (1 + sibsNodes (.node c dd l m r) (later d) + aboveMu root (d0 :: rq)) =
        fuel + aboveMu root (d0 :: rq) + 1 + sibsNodes (.node c dd l m r) (later d) by omega]
      rw [this]
      rw [show parentPtr (d0 :: rq).reverse = some rq.reverse by rw [hpath, parentPtr_snoc]]
      rw [show (some (d0 :: rq).reverse : Option Path) = some (rq.reverse ++ [d0]) by rw [hpath]]
      rw [ihh, resOf_append]
      simp only [above, hpath]

/-- what follows the node at `rq.reverse` in pre-order: its children's subtrees, then what is above it -/
def rest (root : Node) (rq : List Dir) : List (Path × Entry) :=
  sibsEntries root rq.reverse [.L, .M, .R] ++ above root rq

def resumeMu (root : Node) (rq : List Dir) : Nat :=
  sibsNodes (root.sub rq.reverse) [.L, .M, .R] + aboveMu root rq

theorem nxt_eq (root : Node) (q : Path) (c : Nat) (dd : Option Entry) (l m r : Node)
    (hn : root.sub q = .node c dd l m r) :
    nxt root q = (firstPtr (kids (.node c dd l m r) q [.L, .M, .R] ++ [parentPtr q])).1 := by
  unfold nxt
  rw [hn, iterStep_down]
  split
  · rename_i h; rw [firstPtr_err _ h]
  · rfl

/-- **resuming after a yield**: the next call continues with the children of the yielded node, then upward -/
theorem loop_resume (root : Node) (it : Iter) (mem : Mem) (rq : List Dir) (c : Nat) (dd : Option Entry)
    (l m r : Node) (hn : root.sub rq.reverse = .node c dd l m r) (fuel : Nat) :
    iterLoop root it (fuel + resumeMu root rq) (nxt root rq.reverse) (some rq.reverse) mem =
      resOf root it mem (rest root rq) (endRes it mem) := by
  have Hsub : ∀ d', (Node.node c dd l m r).child d' ≠ .nil → DownOK root it mem (rq.reverse ++ [d']) :=
    fun d' hd' => loop_down root it mem _ _ rfl (by rw [sub_snoc, hn]; exact hd')
  rw [nxt_eq root _ c dd l m r hn]
  have := sibs' root it mem rq.reverse c dd l m r hn Hsub [.L, .M, .R] (Or.inr ⟨.L, rfl⟩) (fuel + aboveMu root rq)
  rw [show fuel + resumeMu root rq = fuel + aboveMu root rq + sibsNodes (.node c dd l m r) [.L, .M, .R] by
    simp only [resumeMu, hn]; omega]
  rw [this]
  simp only [rest]
  rw [← resOf_append]
  congr 1
  cases rq with
  | nil => simp [above, iterLoop_none, resOf]
  | cons d0 rq' =>
    have hpath : (d0 :: rq').reverse = rq'.reverse ++ [d0] := by simp
    rw [hpath, parentPtr_snoc]
    exact loop_up root it mem rq' d0 (by rw [← hpath, hn]; simp) fuel

theorem aboveMu_bound (root : Node) : ∀ rq : List Dir, root.sub rq.reverse ≠ .nil →
    aboveMu root rq + 2 * (root.sub rq.reverse).nodes ≤ 2 * root.nodes := by
  intro rq
  induction rq with
  | nil => intro _; simp [aboveMu, Node.sub]
  | cons d rq ih =>
    intro h
    have hpath : (d :: rq).reverse = rq.reverse ++ [d] := by simp
    rw [hpath, sub_snoc] at h ⊢
    cases hn : root.sub rq.reverse with
    | nil => rw [hn] at h; simp [Node.child] at h
    | node c dd l m r =>
      have := ih (by rw [hn]; simp)
      rw [hn] at this
      simp only [aboveMu, hn]
      cases d <;> simp only [later, sibsNodes, List.map_cons, List.map_nil, List.sum_cons, List.sum_nil,
        Node.child, Node.nodes] at this ⊢ <;> omega

theorem resumeMu_bound (root : Node) (rq : List Dir) (h : root.sub rq.reverse ≠ .nil) :
    resumeMu root rq + 2 ≤ 2 * root.nodes := by
  have := aboveMu_bound root rq h
  unfold resumeMu
  cases hn : root.sub rq.reverse with
  | nil => exact absurd hn h
  | node c dd l m r =>
    rw [hn] at this
    simp only [sibsNodes, List.map_cons, List.map_nil, List.sum_cons, List.sum_nil, Node.child, Node.nodes] at this ⊢
    omega

/-! ### the pre-order list splits at every yield -/

theorem sibs_split (root : Node) (p : Path) (c : Nat) (dd : Option Entry) (l m r : Node)
    (hn : root.sub p = .node c dd l m r)
    (Hsub : ∀ d, ∀ q e tl, entriesAt root (p ++ [d]) = (q, e) :: tl →
      (root.sub q).data? = some e ∧ tl ++ above root (d :: p.reverse) = rest root q.reverse)
    (ds : List Dir) (hds : ds = [] ∨ ∃ d, ds = d :: later d) :
    ∀ q e tl, sibsEntries root p ds = (q, e) :: tl →
      (root.sub q).data? = some e ∧ tl ++ above root p.reverse = rest root q.reverse := by
  induction ds with
  | nil => intro q e tl h; simp [sibsEntries] at h
  | cons d ds' ih =>
    intro q e tl h
    have hds' : ds' = later d := by
      rcases hds with h | ⟨d0, h⟩
      · cases h
      · simp at h; rw [h.1, h.2]
    subst hds'
    have hs : sibsEntries root p (d :: later d) = entriesAt root (p ++ [d]) ++ sibsEntries root p (later d) := by
      simp [sibsEntries]
    rw [hs] at h
    cases he : entriesAt root (p ++ [d]) with
    | nil => rw [he] at h; exact ih (later_closed d) q e tl h
    | cons x tl1 =>
      rw [he] at h
      simp only [List.cons_append, List.cons.injEq] at h
      obtain ⟨h1, h2⟩ := h
      subst h1 h2
      have := Hsub d q e tl1 he
      refine ⟨this.1, ?_⟩
      rw [← this.2]
      simp [above, List.append_assoc]

theorem down_split (root : Node) : ∀ (s : Node) (p : Path), root.sub p = s →
    ∀ q e tl, entriesAt root p = (q, e) :: tl →
      (root.sub q).data? = some e ∧ tl ++ above root p.reverse = rest root q.reverse := by
  intro s
  induction s with
  | nil => intro p hn q e tl h; simp [entriesAt, hn, Node.entriesP] at h
  | node c dd l m r ihl ihm ihr =>
    intro p hn q e tl h
    have Hsub : ∀ d, ∀ q e tl, entriesAt root (p ++ [d]) = (q, e) :: tl →
        (root.sub q).data? = some e ∧ tl ++ above root (d :: p.reverse) = rest root q.reverse := by
      intro d q e tl h
      have hr : (p ++ [d]).reverse = d :: p.reverse := by simp
      cases d
      · have := ihl (p ++ [.L]) (by rw [sub_snoc, hn]; rfl) q e tl h; rwa [hr] at this
      · have := ihm (p ++ [.M]) (by rw [sub_snoc, hn]; rfl) q e tl h; rwa [hr] at this
      · have := ihr (p ++ [.R]) (by rw [sub_snoc, hn]; rfl) q e tl h; rwa [hr] at this
    rw [entriesAt_node root p c dd l m r hn] at h
    cases dd with
    | some e0 =>
      simp only [List.cons_append, List.nil_append, List.cons.injEq, Prod.mk.injEq] at h
      obtain ⟨⟨h1, h2⟩, h3⟩ := h
      subst h1 h2 h3
      refine ⟨by rw [hn]; rfl, ?_⟩
      simp [rest]
    | none =>
      simp only [List.nil_append] at h
      exact sibs_split root p c none l m r hn Hsub [.L, .M, .R] (Or.inr ⟨.L, rfl⟩) q e tl h

theorem above_split (root : Node) : ∀ rq : List Dir, root.sub rq.reverse ≠ .nil →
    ∀ q e tl, above root rq = (q, e) :: tl → (root.sub q).data? = some e ∧ tl = rest root q.reverse := by
  intro rq
  induction rq with
  | nil => intro _ q e tl h; simp [above] at h
  | cons d rq ih =>
    intro hne q e tl h
    have hpath : (d :: rq).reverse = rq.reverse ++ [d] := by simp
    rw [hpath, sub_snoc] at hne
    cases hn : root.sub rq.reverse with
    | nil => rw [hn] at hne; simp [Node.child] at hne
    | node c dd l m r =>
      simp only [above] at h
      cases hs : sibsEntries root rq.reverse (later d) with
      | nil => rw [hs] at h; exact ih (by rw [hn]; simp) q e tl h
      | cons x tl1 =>
        rw [hs] at h
        simp only [List.cons_append, List.cons.injEq] at h
        obtain ⟨h1, h2⟩ := h
        subst h1 h2
        have Hsub : ∀ d, ∀ q e tl, entriesAt root (rq.reverse ++ [d]) = (q, e) :: tl →
            (root.sub q).data? = some e ∧ tl ++ above root (d :: rq.reverse.reverse) = rest root q.reverse := by
          intro d q e tl h
          have := down_split root _ (rq.reverse ++ [d]) rfl q e tl h
          simpa using this
        have := sibs_split root rq.reverse c dd l m r hn Hsub (later d) (later_closed d) q e tl1 hs
        simpa using this

/-! ### the iterator as a position in the pre-order -/

/-- the iterator state `it` (not in the `advanced_on_remove` mode) stands at a position of the
pre-order enumeration of `root`; `todo` is what is still to be yielded -/
inductive IterAt (root : Node) : Iter → List (Path × Entry) → Prop
  | init (it : Iter) (h1 : it.cur = none) (h2 : it.next = if root.isNil then none else some []) :
      IterAt root it root.entriesP
  | at (it : Iter) (rq : List Dir) (h0 : root.sub rq.reverse ≠ .nil) (h1 : it.cur = some rq.reverse)
      (h2 : it.next = nxt root rq.reverse) : IterAt root it (rest root rq)
  | done (it : Iter) (h : it.next = none) : IterAt root it []

theorem entriesAt_root (root : Node) : entriesAt root [] = root.entriesP := by
  simp [entriesAt, Node.sub]

theorem entriesP_length (t : Node) : t.entriesP.length = t.marked := by
  induction t with
  | nil => simp [Node.entriesP, Node.marked]
  | node c d l m r ihl ihm ihr =>
    simp only [Node.entriesP, Node.marked, List.length_append, List.length_map, ihl, ihm, ihr]
    cases d <;> simp

theorem marked_le_nodes (t : Node) : t.marked ≤ t.nodes := by
  induction t with
  | nil => simp [Node.marked, Node.nodes]
  | node c d l m r ihl ihm ihr => simp only [Node.marked, Node.nodes]; split <;> omega

/-- the loop started from an iterator position yields the head of `todo` or reports the end; it never
runs out of fuel and never follows a dangling pointer -/
theorem iterLoop_at (root : Node) (it : Iter) (mem : Mem) (todo : List (Path × Entry)) (h : IterAt root it todo) :
    iterLoop root it (iterFuel root) it.next it.cur mem = resOf root it mem todo (endRes it mem) := by
  cases h with
  | init h1 h2 =>
    rw [h1, h2]
    cases hr : root with
    | nil => simp [Node.isNil, iterLoop_none, Node.entriesP, resOf]
    | node c dd l m r =>
      rw [← hr]
      have hnn : root ≠ .nil := by rw [hr]; simp
      have hnil : root.isNil = false := by rw [hr]; rfl
      have := loop_down root it mem root [] rfl hnn 3
      simp only [hnil, Bool.false_eq_true, if_false]
      rw [show iterFuel root = 3 + (2 * (root.sub []).nodes - 1) by
        simp only [iterFuel, Node.sub]; rw [hr]; simp only [Node.nodes]; omega]
      rw [show (none : Option Path) = parentPtr [] from rfl, this, entriesAt_root, parentPtr_nil, iterLoop_none]
  | «at» rq h0 h1 h2 =>
    rw [h1, h2]
    cases hn : root.sub rq.reverse with
    | nil => exact absurd hn h0
    | node c dd l m r =>
      have hb := resumeMu_bound root rq h0
      have := loop_resume root it mem rq c dd l m r hn (iterFuel root - resumeMu root rq)
      rw [show iterFuel root - resumeMu root rq + resumeMu root rq = iterFuel root by
        unfold iterFuel; omega] at this
      exact this
  | done h => rw [h, iterLoop_none]; rfl

/-- after a yield the iterator stands at the yielded node, and what is still to come is the tail -/
theorem iterAt_tail (root : Node) (it : Iter) (mem : Mem) (q : Path) (e : Entry) (tl : List (Path × Entry))
    (h : IterAt root it ((q, e) :: tl)) :
    (root.sub q).data? = some e ∧ IterAt root (yieldRes root it mem q e).it tl := by
  have key : (root.sub q).data? = some e ∧ tl = rest root q.reverse := by
    generalize hx : (q, e) :: tl = todo at h
    cases h with
    | init h1 h2 =>
      have := down_split root root [] rfl q e tl (by rw [entriesAt_root]; exact hx.symm)
      simpa [above] using this
    | «at» rq h0 h1 h2 =>
      cases hn : root.sub rq.reverse with
      | nil => exact absurd hn h0
      | node c dd l m r =>
        simp only [rest] at hx
        cases hs : sibsEntries root rq.reverse [.L, .M, .R] with
        | nil => rw [hs] at hx; exact above_split root rq h0 q e tl hx.symm
        | cons x tl1 =>
          rw [hs] at hx
          simp only [List.cons_append, List.cons.injEq] at hx
          obtain ⟨hx1, hx2⟩ := hx
          subst hx1 hx2
          have Hsub : ∀ d, ∀ q e tl, entriesAt root (rq.reverse ++ [d]) = (q, e) :: tl →
              (root.sub q).data? = some e ∧ tl ++ above root (d :: rq.reverse.reverse) = rest root q.reverse := by
            intro d q e tl h
            have := down_split root _ (rq.reverse ++ [d]) rfl q e tl h
            simpa using this
          have := sibs_split root rq.reverse c dd l m r hn Hsub [.L, .M, .R] (Or.inr ⟨.L, rfl⟩) q e tl1 hs
          simpa using this
    | done h => cases hx
  refine ⟨key.1, ?_⟩
  rw [key.2]
  apply IterAt.at
  · intro hnil; rw [List.reverse_reverse] at hnil; rw [hnil] at key; simp [Node.data?] at key
  · simp [yieldRes]
  · simp [yieldRes]

theorem iterAt_end (root : Node) (it : Iter) (mem : Mem) : IterAt root (endRes it mem).it [] :=
  IterAt.done _ rfl

theorem iterNext_at (t : Table) (it : Iter) (mem : Mem) (todo : List (Path × Entry))
    (h : IterAt t.root it todo) (hadv : it.adv = false) :
    iterNext t it mem = resOf t.root it mem todo (endRes it mem) := by
  simp only [iterNext, hadv, Bool.false_eq_true, if_false]
  exact iterLoop_at t.root it mem todo h

theorem iterAllLoop_at (t : Table) : ∀ (n : Nat) (it : Iter) (mem : Mem) (todo : List (Path × Entry)),
    IterAt t.root it todo → it.adv = false → todo.length < n →
    iterAllLoop t n it mem = (todo.map (·.2), mem) := by
  intro n
  induction n with
  | zero => intro it mem todo _ _ h; omega
  | succ n ih =>
    intro it mem todo h hadv hlen
    simp only [iterAllLoop, iterNext_at t it mem todo h hadv]
    cases todo with
    | nil => simp [resOf, endRes]
    | cons x tl =>
      obtain ⟨q, e⟩ := x
      have ht := iterAt_tail t.root it mem q e tl h
      have := ih (yieldRes t.root it mem q e).it mem tl ht.2 (by simp [yieldRes, hadv]) (by simp at hlen; omega)
      simp only [resOf, yieldRes] at this ⊢
      simp [this]

theorem entriesP_map_snd (t : Node) : t.entriesP.map (·.2) = t.entries.map (·.2) := by
  induction t with
  | nil => rfl
  | node c d l m r ihl ihm ihr =>
    simp only [Node.entriesP, Node.entries, List.map_append, List.map_map, Function.comp_def]
    rw [← ihl, ← ihr]
    have : List.map (fun x : Key × Entry => x.2) m.entries = List.map (fun x : Path × Entry => x.2) m.entriesP := ihm.symm
    cases d <;> simp [this]

theorem iterInit_at (t : Table) : IterAt t.root (iterInit t) t.root.entriesP :=
  IterAt.init _ rfl rfl

/-- **enumeration**: a complete pass of the iterator (`foreach_key`, `foreach_value`) yields the entries
in first-arrival pre-order, each exactly once, without fault -/
theorem iterAll_eq (t : Table) (mem : Mem) : iterAll t mem = (t.root.entries.map (·.2), mem) := by
  unfold iterAll
  rw [iterAllLoop_at t _ _ mem _ (iterInit_at t) rfl (by rw [entriesP_length]; have := marked_le_nodes t.root; omega)]
  rw [entriesP_map_snd]
end CC.TST
