import CollectionsC.Proofs.TST
/-! The iterator of the TST table: the C pointer automaton (`iterLoop`, `iterStep` over node paths)
yields exactly the first-arrival pre-order enumeration `entriesP` (self, left, mid, right), never
runs out of fuel, and `iter_remove` continues over the entries that were not yet yielded. -/
set_option linter.unusedSimpArgs false
set_option linter.unusedVariables false
namespace CC.TST
open CC

variable {tr : Triple}

/-! ### pointers -/

theorem sub_append (t : Node) (p q : Path) : t.sub (p ++ q) = (t.sub p).sub q := by
  induction p generalizing t with
  | nil => rfl
  | cons d p ih =>
    cases t with
    | nil => cases q <;> simp [Node.sub]
    | node c dd l m r => cases d <;> simp [Node.sub, ih]

theorem sub_snoc (t : Node) (p : Path) (d : Dir) : t.sub (p ++ [d]) = (t.sub p).child d := by
  rw [sub_append]
  cases t.sub p with
  | nil => simp [Node.sub, Node.child]
  | node c dd l m r => cases d <;> simp [Node.sub, Node.child]

@[simp] theorem parentPtr_nil : parentPtr [] = none := rfl
@[simp] theorem parentPtr_snoc (p : Path) (d : Dir) : parentPtr (p ++ [d]) = some p := by
  simp [parentPtr]

theorem snoc_ne_parentPtr (p : Path) (d : Dir) : some (p ++ [d]) ≠ parentPtr p := by
  unfold parentPtr
  split
  · simp
  · intro h
    have := congrArg (fun o => o.map List.length) h
    simp at this
    omega

theorem some_ne_parentPtr_self (p : Path) : some p ≠ parentPtr p := by
  unfold parentPtr
  split
  · simp
  · intro h
    have := congrArg (fun o => o.map List.length) h
    simp at this
    cases p with
    | nil => contradiction
    | cons a p => simp at this

def later : Dir → List Dir
  | .L => [.M, .R]
  | .M => [.R]
  | .R => []

/-- the cascade of `iterStep` as a list of candidate directions followed by the parent -/
def kids (n : Node) (p : Path) (ds : List Dir) : List (Option Path) := ds.map (childPtr n p)

theorem childPtr_of_nil (n : Node) (p : Path) (d : Dir) (h : n.child d = .nil) : childPtr n p d = none := by
  simp [childPtr, h, Node.isNil]
theorem childPtr_of_ne_nil (n : Node) (p : Path) (d : Dir) (h : n.child d ≠ .nil) :
    childPtr n p d = some (p ++ [d]) := by
  unfold childPtr
  have : (n.child d).isNil = false := by
    cases hh : (n.child d).isNil
    · rfl
    · exact absurd ((Node.isNil_iff _).mp hh) h
  simp [this]

theorem childPtr_ne_of_ne (n : Node) (p : Path) (d d' : Dir) (h : d ≠ d') : some (p ++ [d]) ≠ childPtr n p d' := by
  unfold childPtr
  split
  · simp
  · simp; exact h

/-- arriving from the parent: the candidates are left, mid, right -/
theorem iterStep_down (n : Node) (p : Path) :
    iterStep n p (parentPtr p) = firstPtr (kids n p [.L, .M, .R] ++ [parentPtr p]) := by
  simp [iterStep, kids]

/-- arriving from the (existing) child `d`: the candidates are the later children -/
theorem iterStep_up (n : Node) (p : Path) (d : Dir) (h : n.child d ≠ .nil) :
    iterStep n p (some (p ++ [d])) = firstPtr (kids n p (later d) ++ [parentPtr p]) := by
  have h0 := snoc_ne_parentPtr p d
  have hd := childPtr_of_ne_nil n p d h
  cases d
  · simp only [iterStep, h0, if_false, hd, if_true, later, kids, List.map, List.cons_append, List.nil_append]
  · have h1 := childPtr_ne_of_ne n p .M .L (by decide)
    simp only [iterStep, h0, if_false, h1, hd, if_true, later, kids, List.map, List.cons_append, List.nil_append]
  · have h1 := childPtr_ne_of_ne n p .R .L (by decide)
    have h2 := childPtr_ne_of_ne n p .R .M (by decide)
    simp only [iterStep, h0, if_false, h1, h2, hd, if_true, later, kids, List.map, List.cons_append, List.nil_append]

theorem firstPtr_err (xs : List (Option Path)) : (firstPtr xs).2 = true → (firstPtr xs).1 = none := by
  induction xs with
  | nil => simp [firstPtr]
  | cons a xs ih => cases a <;> simp [firstPtr]; exact ih

theorem iterStep_err (n : Node) (p : Path) (prev : Option Path) :
    (iterStep n p prev).2 = true → (iterStep n p prev).1 = none := by
  unfold iterStep
  simp only []
  split; · exact firstPtr_err _
  split; · exact firstPtr_err _
  split; · exact firstPtr_err _
  split; · exact firstPtr_err _
  simp

/-! ### the loop -/

/-- `next_node` stored when the node at `q` is yielded -/
def nxt (root : Node) (q : Path) : Option Path :=
  if (iterStep (root.sub q) q (parentPtr q)).2 then none else (iterStep (root.sub q) q (parentPtr q)).1

def endRes (it : Iter) (mem : Mem) : NextRes := ⟨.iterEnd, none, { it with next := none, cur := none }, mem⟩
def yieldRes (root : Node) (it : Iter) (mem : Mem) (q : Path) (e : Entry) : NextRes :=
  ⟨.ok, some e, { it with cur := some q, next := nxt root q }, mem⟩

/-- yield the first entry of the list, or continue with `k` -/
def resOf (root : Node) (it : Iter) (mem : Mem) (xs : List (Path × Entry)) (k : NextRes) : NextRes :=
  match xs with
  | [] => k
  | x :: _ => yieldRes root it mem x.1 x.2

theorem resOf_append (root : Node) (it : Iter) (mem : Mem) (xs ys : List (Path × Entry)) (k : NextRes) :
    resOf root it mem xs (resOf root it mem ys k) = resOf root it mem (xs ++ ys) k := by
  cases xs <;> simp [resOf]

/-- entries of the subtree at `p` with absolute addresses -/
def entriesAt (root : Node) (p : Path) : List (Path × Entry) :=
  (root.sub p).entriesP.map fun x => (p ++ x.1, x.2)

def sibsNodes (n : Node) (ds : List Dir) : Nat := (ds.map fun d => 2 * (n.child d).nodes).sum
def sibsEntries (root : Node) (p : Path) (ds : List Dir) : List (Path × Entry) :=
  ds.flatMap fun d => entriesAt root (p ++ [d])

theorem iterLoop_none (root : Node) (it : Iter) (fuel : Nat) (prev : Option Path) (mem : Mem) :
    iterLoop root it fuel none prev mem = endRes it mem := by
  cases fuel <;> simp [iterLoop, endRes]

/-- one turn of the loop at an existing node that does not yield -/
theorem iterLoop_pass (root : Node) (it : Iter) (fuel : Nat) (p : Path) (prev : Option Path) (mem : Mem)
    (c : Nat) (dd : Option Entry) (l m r : Node) (hn : root.sub p = .node c dd l m r)
    (hy : ¬ (dd.isSome = true ∧ prev = parentPtr p)) :
    iterLoop root it (fuel + 1) (some p) prev mem =
      iterLoop root it fuel (iterStep (.node c dd l m r) p prev).1 (some p) mem := by
  simp only [iterLoop, hn]
  have : (dd.isSome && prev == parentPtr p) = false := by
    cases h1 : dd.isSome
    · simp
    · have : prev ≠ parentPtr p := fun h => hy ⟨h1, h⟩
      simp [this]
  simp only [this, Bool.false_eq_true, if_false]
  split
  · rename_i he
    rw [iterStep_err _ _ _ he, iterLoop_none]; rfl
  · rfl

/-- arrival from the parent at a marked node yields it -/
theorem iterLoop_yield (root : Node) (it : Iter) (fuel : Nat) (p : Path) (mem : Mem)
    (c : Nat) (e : Entry) (l m r : Node) (hn : root.sub p = .node c (some e) l m r) :
    iterLoop root it (fuel + 1) (some p) (parentPtr p) mem = yieldRes root it mem p e := by
  simp only [iterLoop, hn, yieldRes, nxt]
  simp

theorem firstPtr_cons_none (xs : List (Option Path)) : firstPtr (none :: xs) = firstPtr xs := rfl
theorem firstPtr_cons_some (q : Path) (xs : List (Option Path)) : firstPtr (some q :: xs) = (some q, false) := rfl

theorem later_closed (d : Dir) : later d = [] ∨ ∃ d', later d = d' :: later d' := by
  cases d
  · exact Or.inr ⟨.M, rfl⟩
  · exact Or.inr ⟨.R, rfl⟩
  · exact Or.inl rfl

/-- what the traversal of one subtree does: yield its first entry, or pass through it completely and
arrive back at its parent -/
def DownOK (root : Node) (it : Iter) (mem : Mem) (p : Path) : Prop :=
  ∀ fuel, iterLoop root it (fuel + (2 * (root.sub p).nodes - 1)) (some p) (parentPtr p) mem =
    resOf root it mem (entriesAt root p) (iterLoop root it fuel (parentPtr p) (some p) mem)

/-- after the choice among the candidate children `ds` of the node `p` was made: the chosen child's
subtree is traversed, then the later ones, then the automaton arrives at the parent -/
theorem sibs' (root : Node) (it : Iter) (mem : Mem) (p : Path) (c : Nat) (dd : Option Entry) (l m r : Node)
    (hn : root.sub p = .node c dd l m r)
    (Hsub : ∀ d, (Node.node c dd l m r).child d ≠ .nil → DownOK root it mem (p ++ [d]))
    (ds : List Dir) (hds : ds = [] ∨ ∃ d, ds = d :: later d) :
    ∀ fuel,
      iterLoop root it (fuel + sibsNodes (.node c dd l m r) ds)
          (firstPtr (kids (.node c dd l m r) p ds ++ [parentPtr p])).1 (some p) mem =
        resOf root it mem (sibsEntries root p ds) (iterLoop root it fuel (parentPtr p) (some p) mem) := by
  induction ds with
  | nil =>
    intro fuel
    simp only [sibsNodes, List.map_nil, List.sum_nil, Nat.add_zero, sibsEntries, List.flatMap_nil, resOf,
      kids, List.nil_append]
    cases parentPtr p <;> rfl
  | cons d ds' ih =>
    intro fuel
    have hds' : ds' = later d := by
      rcases hds with h | ⟨d0, h⟩
      · cases h
      · simp at h; rw [h.1, h.2]
    subst hds'
    have ih' := ih (later_closed d)
    by_cases hc : (Node.node c dd l m r).child d = .nil
    · -- no such child: the cascade moves on to the next candidate
      have h1 : kids (.node c dd l m r) p (d :: later d) = none :: kids (.node c dd l m r) p (later d) := by
        simp [kids, childPtr_of_nil _ p d hc]
      have h2 : sibsNodes (.node c dd l m r) (d :: later d) = sibsNodes (.node c dd l m r) (later d) := by
        simp [sibsNodes, hc, Node.nodes]
      have h3 : sibsEntries root p (d :: later d) = sibsEntries root p (later d) := by
        simp [sibsEntries, entriesAt, sub_snoc, hn, hc, Node.entriesP]
      rw [h1, List.cons_append, firstPtr_cons_none, h2, h3]
      exact ih' fuel
    · -- descend into the child, then come back and go on with the later candidates
      have h1 : kids (.node c dd l m r) p (d :: later d) =
          some (p ++ [d]) :: kids (.node c dd l m r) p (later d) := by
        simp [kids, childPtr_of_ne_nil _ p d hc]
      rw [h1, List.cons_append, firstPtr_cons_some]
      have hpos : 0 < ((Node.node c dd l m r).child d).nodes := by
        cases hcc : (Node.node c dd l m r).child d with
        | nil => exact absurd hcc hc
        | node _ _ _ _ _ => simp [Node.nodes]; omega
      have h2 : fuel + sibsNodes (.node c dd l m r) (d :: later d) =
          ((fuel + sibsNodes (.node c dd l m r) (later d)) + 1) + (2 * ((Node.node c dd l m r).child d).nodes - 1) := by
        simp only [sibsNodes, List.map_cons, List.sum_cons]; omega
      have hd := Hsub d hc ((fuel + sibsNodes (.node c dd l m r) (later d)) + 1)
      rw [sub_snoc, hn, parentPtr_snoc] at hd
      simp only []
      rw [h2, hd]
      rw [iterLoop_pass root it _ p (some (p ++ [d])) mem c dd l m r hn (fun h => snoc_ne_parentPtr p d h.2)]
      rw [iterStep_up _ p d hc, ih' fuel, resOf_append]
      simp [sibsEntries]

/-- at the node `p` (not yielding), with the candidate children `ds` still to visit -/
theorem sibs (root : Node) (it : Iter) (mem : Mem) (p : Path) (c : Nat) (dd : Option Entry) (l m r : Node)
    (hn : root.sub p = .node c dd l m r)
    (Hsub : ∀ d, (Node.node c dd l m r).child d ≠ .nil → DownOK root it mem (p ++ [d]))
    (ds : List Dir) (hds : ds = [] ∨ ∃ d, ds = d :: later d) :
    ∀ fuel prev, iterStep (.node c dd l m r) p prev = firstPtr (kids (.node c dd l m r) p ds ++ [parentPtr p]) →
      ¬ (dd.isSome = true ∧ prev = parentPtr p) →
      iterLoop root it (fuel + 1 + sibsNodes (.node c dd l m r) ds) (some p) prev mem =
        resOf root it mem (sibsEntries root p ds) (iterLoop root it fuel (parentPtr p) (some p) mem) := by
  intro fuel prev hs hy
  rw [show fuel + 1 + sibsNodes (.node c dd l m r) ds = (fuel + sibsNodes (.node c dd l m r) ds) + 1 by omega]
  rw [iterLoop_pass root it _ p prev mem c dd l m r hn hy, hs]
  exact sibs' root it mem p c dd l m r hn Hsub ds hds fuel

theorem entriesAt_node (root : Node) (p : Path) (c : Nat) (dd : Option Entry) (l m r : Node)
    (hn : root.sub p = .node c dd l m r) :
    entriesAt root p = (match dd with | some e => [(p, e)] | none => []) ++ sibsEntries root p [.L, .M, .R] := by
  simp only [entriesAt, hn, Node.entriesP, sibsEntries, List.flatMap_cons, List.flatMap_nil, sub_snoc,
    Node.child, List.map_append, List.map_map, List.append_nil, List.append_assoc]
  cases dd <;> simp [Function.comp_def]

/-- **subtree traversal**: entering a subtree from its parent, the automaton yields the subtree's
first entry in pre-order, or (no entry) walks through all of it in exactly `2·nodes − 1` turns and
arrives back at the parent -/
theorem loop_down (root : Node) (it : Iter) (mem : Mem) :
    ∀ (s : Node) (p : Path), root.sub p = s → s ≠ .nil → DownOK root it mem p := by
  intro s
  induction s with
  | nil => intro p _ h; exact absurd rfl h
  | node c dd l m r ihl ihm ihr =>
    intro p hn _ fuel
    rw [hn]
    have Hsub : ∀ d, (Node.node c dd l m r).child d ≠ .nil → DownOK root it mem (p ++ [d]) := by
      intro d hd
      cases d
      · exact ihl (p ++ [.L]) (by rw [sub_snoc, hn]; rfl) hd
      · exact ihm (p ++ [.M]) (by rw [sub_snoc, hn]; rfl) hd
      · exact ihr (p ++ [.R]) (by rw [sub_snoc, hn]; rfl) hd
    rw [entriesAt_node root p c dd l m r hn]
    cases dd with
    | some e =>
      have : fuel + (2 * (Node.node c (some e) l m r).nodes - 1) =
          (fuel + 2 * l.nodes + 2 * m.nodes + 2 * r.nodes) + 1 := by simp only [Node.nodes]; omega
      rw [this, iterLoop_yield root it _ p mem c e l m r hn]
      simp [resOf]
    | none =>
      have : fuel + (2 * (Node.node c none l m r).nodes - 1) =
          fuel + 1 + sibsNodes (.node c none l m r) [.L, .M, .R] := by
        simp only [Node.nodes, sibsNodes, List.map_cons, List.map_nil, List.sum_cons, List.sum_nil, Node.child]; omega
      rw [this]
      simp only [List.nil_append]
      exact sibs root it mem p c none l m r hn Hsub [.L, .M, .R] (Or.inr ⟨.L, rfl⟩) fuel (parentPtr p)
        (iterStep_down _ p) (by simp)

/-! ### what is still to come above a node -/

/-- the entries that follow the subtree at `p` in pre-order: later siblings at every level, innermost first -/
def above (root : Node) : (rp : List Dir) → List (Path × Entry)   -- `rp` is the path reversed
  | [] => []
  | d :: rq => sibsEntries root rq.reverse (later d) ++ above root rq

/-- turns of the loop from the arrival at the parent of `p` (coming from `p`) to the end -/
def aboveMu (root : Node) : (rp : List Dir) → Nat
  | [] => 0
  | d :: rq => 1 + sibsNodes (root.sub rq.reverse) (later d) + aboveMu root rq

/-- **returning upward**: arrived at `q` from its child `d`, the automaton yields the first entry of the
later siblings' subtrees or of what follows above `q`, else reports the end -/
theorem loop_up (root : Node) (it : Iter) (mem : Mem) :
    ∀ (rq : List Dir) (d : Dir), root.sub (rq.reverse ++ [d]) ≠ .nil → ∀ fuel,
      iterLoop root it (fuel + aboveMu root (d :: rq)) (some rq.reverse) (some (rq.reverse ++ [d])) mem =
        resOf root it mem (above root (d :: rq)) (endRes it mem) := by
  intro rq
  induction rq with
  | nil =>
    intro d hd fuel
    simp only [List.reverse_nil, List.nil_append] at hd ⊢
    cases hn : root.sub [] with
    | nil => rw [show ([d] : Path) = [] ++ [d] from rfl, sub_snoc, hn] at hd; simp [Node.child] at hd
    | node c dd l m r =>
      have hc : (Node.node c dd l m r).child d ≠ .nil := by
        rw [show ([d] : Path) = [] ++ [d] from rfl, sub_snoc, hn] at hd; exact hd
      have Hsub : ∀ d', (Node.node c dd l m r).child d' ≠ .nil → DownOK root it mem ([] ++ [d']) :=
        fun d' hd' => loop_down root it mem _ _ rfl (by rw [sub_snoc, hn]; exact hd')
      have := sibs root it mem [] c dd l m r hn Hsub (later d) (later_closed d) fuel (some ([] ++ [d]))
        (iterStep_up _ [] d hc) (fun h => snoc_ne_parentPtr [] d h.2)
      simp only [aboveMu, above, List.reverse_nil, hn, List.nil_append, List.append_nil] at this ⊢
      rw [show fuel + (1 + sibsNodes (.node c dd l m r) (later d) + 0) = fuel + 1 + sibsNodes (.node c dd l m r) (later d) by omega]
      rw [this, parentPtr_nil, iterLoop_none]
  | cons d0 rq ih =>
    intro d hd fuel
    have hpath : (d0 :: rq).reverse = rq.reverse ++ [d0] := by simp
    cases hn : root.sub (d0 :: rq).reverse with
    | nil => rw [sub_snoc, hn] at hd; simp [Node.child] at hd
    | node c dd l m r =>
      have hc : (Node.node c dd l m r).child d ≠ .nil := by rw [sub_snoc, hn] at hd; exact hd
      have Hsub : ∀ d', (Node.node c dd l m r).child d' ≠ .nil → DownOK root it mem ((d0 :: rq).reverse ++ [d']) :=
        fun d' hd' => loop_down root it mem _ _ rfl (by rw [sub_snoc, hn]; exact hd')
      have := sibs root it mem (d0 :: rq).reverse c dd l m r hn Hsub (later d) (later_closed d)
        (fuel + aboveMu root (d0 :: rq)) (some ((d0 :: rq).reverse ++ [d]))
        (iterStep_up _ _ d hc) (fun h => snoc_ne_parentPtr _ d h.2)
      have hne : root.sub (rq.reverse ++ [d0]) ≠ .nil := by rw [← hpath, hn]; simp
      have ihh := ih d0 hne fuel
      rw [show aboveMu root (d :: d0 :: rq) = 1 + sibsNodes (.node c dd l m r) (later d) + aboveMu root (d0 :: rq) by
        simp only [aboveMu, hn]]
      rw [show fuel + (1 + sibsNodes (.node c dd l m r) (later d) + aboveMu root (d0 :: rq)) =
        fuel + aboveMu root (d0 :: rq) + 1 + sibsNodes (.node c dd l m r) (later d) by omega]
      rw [this]
      rw [show parentPtr (d0 :: rq).reverse = some rq.reverse by rw [hpath, parentPtr_snoc]]
      rw [show (some (d0 :: rq).reverse : Option Path) = some (rq.reverse ++ [d0]) by rw [hpath]]
      rw [ihh, resOf_append]
      simp only [above, hpath]

/-- what follows the node at `rq.reverse` in pre-order: its children's subtrees, then what is above it -/
def rest (root : Node) (rq : List Dir) : List (Path × Entry) :=
  sibsEntries root rq.reverse [.L, .M, .R] ++ above root rq

def resumeMu (root : Node) (rq : List Dir) : Nat :=
  sibsNodes (root.sub rq.reverse) [.L, .M, .R] + aboveMu root rq

theorem nxt_eq (root : Node) (q : Path) (c : Nat) (dd : Option Entry) (l m r : Node)
    (hn : root.sub q = .node c dd l m r) :
    nxt root q = (firstPtr (kids (.node c dd l m r) q [.L, .M, .R] ++ [parentPtr q])).1 := by
  unfold nxt
  rw [hn, iterStep_down]
  split
  · rename_i h; rw [firstPtr_err _ h]
  · rfl

/-- **resuming after a yield**: the next call continues with the children of the yielded node, then upward -/
theorem loop_resume (root : Node) (it : Iter) (mem : Mem) (rq : List Dir) (c : Nat) (dd : Option Entry)
    (l m r : Node) (hn : root.sub rq.reverse = .node c dd l m r) (fuel : Nat) :
    iterLoop root it (fuel + resumeMu root rq) (nxt root rq.reverse) (some rq.reverse) mem =
      resOf root it mem (rest root rq) (endRes it mem) := by
  have Hsub : ∀ d', (Node.node c dd l m r).child d' ≠ .nil → DownOK root it mem (rq.reverse ++ [d']) :=
    fun d' hd' => loop_down root it mem _ _ rfl (by rw [sub_snoc, hn]; exact hd')
  rw [nxt_eq root _ c dd l m r hn]
  have := sibs' root it mem rq.reverse c dd l m r hn Hsub [.L, .M, .R] (Or.inr ⟨.L, rfl⟩) (fuel + aboveMu root rq)
  rw [show fuel + resumeMu root rq = fuel + aboveMu root rq + sibsNodes (.node c dd l m r) [.L, .M, .R] by
    simp only [resumeMu, hn]; omega]
  rw [this]
  simp only [rest]
  rw [← resOf_append]
  congr 1
  cases rq with
  | nil => simp [above, iterLoop_none, resOf]
  | cons d0 rq' =>
    have hpath : (d0 :: rq').reverse = rq'.reverse ++ [d0] := by simp
    rw [hpath, parentPtr_snoc]
    exact loop_up root it mem rq' d0 (by rw [← hpath, hn]; simp) fuel

theorem aboveMu_bound (root : Node) : ∀ rq : List Dir, root.sub rq.reverse ≠ .nil →
    aboveMu root rq + 2 * (root.sub rq.reverse).nodes ≤ 2 * root.nodes := by
  intro rq
  induction rq with
  | nil => intro _; simp [aboveMu, Node.sub]
  | cons d rq ih =>
    intro h
    have hpath : (d :: rq).reverse = rq.reverse ++ [d] := by simp
    rw [hpath, sub_snoc] at h ⊢
    cases hn : root.sub rq.reverse with
    | nil => rw [hn] at h; simp [Node.child] at h
    | node c dd l m r =>
      have := ih (by rw [hn]; simp)
      rw [hn] at this
      simp only [aboveMu, hn]
      cases d <;> simp only [later, sibsNodes, List.map_cons, List.map_nil, List.sum_cons, List.sum_nil,
        Node.child, Node.nodes] at this ⊢ <;> omega

theorem resumeMu_bound (root : Node) (rq : List Dir) (h : root.sub rq.reverse ≠ .nil) :
    resumeMu root rq + 2 ≤ 2 * root.nodes := by
  have := aboveMu_bound root rq h
  unfold resumeMu
  cases hn : root.sub rq.reverse with
  | nil => exact absurd hn h
  | node c dd l m r =>
    rw [hn] at this
    simp only [sibsNodes, List.map_cons, List.map_nil, List.sum_cons, List.sum_nil, Node.child, Node.nodes] at this ⊢
    omega

/-! ### the pre-order list splits at every yield -/

theorem sibs_split (root : Node) (p : Path) (c : Nat) (dd : Option Entry) (l m r : Node)
    (hn : root.sub p = .node c dd l m r)
    (Hsub : ∀ d, ∀ q e tl, entriesAt root (p ++ [d]) = (q, e) :: tl →
      (root.sub q).data? = some e ∧ tl ++ above root (d :: p.reverse) = rest root q.reverse)
    (ds : List Dir) (hds : ds = [] ∨ ∃ d, ds = d :: later d) :
    ∀ q e tl, sibsEntries root p ds = (q, e) :: tl →
      (root.sub q).data? = some e ∧ tl ++ above root p.reverse = rest root q.reverse := by
  induction ds with
  | nil => intro q e tl h; simp [sibsEntries] at h
  | cons d ds' ih =>
    intro q e tl h
    have hds' : ds' = later d := by
      rcases hds with h | ⟨d0, h⟩
      · cases h
      · simp at h; rw [h.1, h.2]
    subst hds'
    have hs : sibsEntries root p (d :: later d) = entriesAt root (p ++ [d]) ++ sibsEntries root p (later d) := by
      simp [sibsEntries]
    rw [hs] at h
    cases he : entriesAt root (p ++ [d]) with
    | nil => rw [he] at h; exact ih (later_closed d) q e tl h
    | cons x tl1 =>
      rw [he] at h
      simp only [List.cons_append, List.cons.injEq] at h
      obtain ⟨h1, h2⟩ := h
      subst h1 h2
      have := Hsub d q e tl1 he
      refine ⟨this.1, ?_⟩
      rw [← this.2]
      simp [above, List.append_assoc]

theorem down_split (root : Node) : ∀ (s : Node) (p : Path), root.sub p = s →
    ∀ q e tl, entriesAt root p = (q, e) :: tl →
      (root.sub q).data? = some e ∧ tl ++ above root p.reverse = rest root q.reverse := by
  intro s
  induction s with
  | nil => intro p hn q e tl h; simp [entriesAt, hn, Node.entriesP] at h
  | node c dd l m r ihl ihm ihr =>
    intro p hn q e tl h
    have Hsub : ∀ d, ∀ q e tl, entriesAt root (p ++ [d]) = (q, e) :: tl →
        (root.sub q).data? = some e ∧ tl ++ above root (d :: p.reverse) = rest root q.reverse := by
      intro d q e tl h
      have hr : (p ++ [d]).reverse = d :: p.reverse := by simp
      cases d
      · have := ihl (p ++ [.L]) (by rw [sub_snoc, hn]; rfl) q e tl h; rwa [hr] at this
      · have := ihm (p ++ [.M]) (by rw [sub_snoc, hn]; rfl) q e tl h; rwa [hr] at this
      · have := ihr (p ++ [.R]) (by rw [sub_snoc, hn]; rfl) q e tl h; rwa [hr] at this
    rw [entriesAt_node root p c dd l m r hn] at h
    cases dd with
    | some e0 =>
      simp only [List.cons_append, List.nil_append, List.cons.injEq, Prod.mk.injEq] at h
      obtain ⟨⟨h1, h2⟩, h3⟩ := h
      subst h1 h2 h3
      refine ⟨by rw [hn]; rfl, ?_⟩
      simp [rest]
    | none =>
      simp only [List.nil_append] at h
      exact sibs_split root p c none l m r hn Hsub [.L, .M, .R] (Or.inr ⟨.L, rfl⟩) q e tl h

theorem above_split (root : Node) : ∀ rq : List Dir, root.sub rq.reverse ≠ .nil →
    ∀ q e tl, above root rq = (q, e) :: tl → (root.sub q).data? = some e ∧ tl = rest root q.reverse := by
  intro rq
  induction rq with
  | nil => intro _ q e tl h; simp [above] at h
  | cons d rq ih =>
    intro hne q e tl h
    have hpath : (d :: rq).reverse = rq.reverse ++ [d] := by simp
    rw [hpath, sub_snoc] at hne
    cases hn : root.sub rq.reverse with
    | nil => rw [hn] at hne; simp [Node.child] at hne
    | node c dd l m r =>
      simp only [above] at h
      cases hs : sibsEntries root rq.reverse (later d) with
      | nil => rw [hs] at h; exact ih (by rw [hn]; simp) q e tl h
      | cons x tl1 =>
        rw [hs] at h
        simp only [List.cons_append, List.cons.injEq] at h
        obtain ⟨h1, h2⟩ := h
        subst h1 h2
        have Hsub : ∀ d, ∀ q e tl, entriesAt root (rq.reverse ++ [d]) = (q, e) :: tl →
            (root.sub q).data? = some e ∧ tl ++ above root (d :: rq.reverse.reverse) = rest root q.reverse := by
          intro d q e tl h
          have := down_split root _ (rq.reverse ++ [d]) rfl q e tl h
          simpa using this
        have := sibs_split root rq.reverse c dd l m r hn Hsub (later d) (later_closed d) q e tl1 hs
        simpa using this

/-! ### the iterator as a position in the pre-order -/

/-- the iterator state `it` (not in the `advanced_on_remove` mode) stands at a position of the
pre-order enumeration of `root`; `todo` is what is still to be yielded -/
inductive IterAt (root : Node) : Iter → List (Path × Entry) → Prop
  | init (it : Iter) (h1 : it.cur = none) (h2 : it.next = if root.isNil then none else some []) :
      IterAt root it root.entriesP
  | at (it : Iter) (rq : List Dir) (h0 : root.sub rq.reverse ≠ .nil) (h1 : it.cur = some rq.reverse)
      (h2 : it.next = nxt root rq.reverse) : IterAt root it (rest root rq)
  | done (it : Iter) (h0 : it.cur = none) (h : it.next = none) : IterAt root it []

theorem entriesAt_root (root : Node) : entriesAt root [] = root.entriesP := by
  simp [entriesAt, Node.sub]

theorem entriesP_length (t : Node) : t.entriesP.length = t.marked := by
  induction t with
  | nil => simp [Node.entriesP, Node.marked]
  | node c d l m r ihl ihm ihr =>
    simp only [Node.entriesP, Node.marked, List.length_append, List.length_map, ihl, ihm, ihr]
    cases d <;> simp

theorem marked_le_nodes (t : Node) : t.marked ≤ t.nodes := by
  induction t with
  | nil => simp [Node.marked, Node.nodes]
  | node c d l m r ihl ihm ihr => simp only [Node.marked, Node.nodes]; split <;> omega

/-- the loop started from an iterator position yields the head of `todo` or reports the end; it never
runs out of fuel and never follows a dangling pointer -/
theorem iterLoop_at (root : Node) (it : Iter) (mem : Mem) (todo : List (Path × Entry)) (h : IterAt root it todo) :
    iterLoop root it (iterFuel root) it.next it.cur mem = resOf root it mem todo (endRes it mem) := by
  cases h with
  | init h1 h2 =>
    rw [h1, h2]
    cases hr : root with
    | nil => simp [Node.isNil, iterLoop_none, Node.entriesP, resOf]
    | node c dd l m r =>
      rw [← hr]
      have hnn : root ≠ .nil := by rw [hr]; simp
      have hnil : root.isNil = false := by rw [hr]; rfl
      have := loop_down root it mem root [] rfl hnn 3
      simp only [hnil, Bool.false_eq_true, if_false]
      rw [show iterFuel root = 3 + (2 * (root.sub []).nodes - 1) by
        simp only [iterFuel, Node.sub]; rw [hr]; simp only [Node.nodes]; omega]
      rw [show (none : Option Path) = parentPtr [] from rfl, this, entriesAt_root, parentPtr_nil, iterLoop_none]
  | «at» rq h0 h1 h2 =>
    rw [h1, h2]
    cases hn : root.sub rq.reverse with
    | nil => exact absurd hn h0
    | node c dd l m r =>
      have hb := resumeMu_bound root rq h0
      have := loop_resume root it mem rq c dd l m r hn (iterFuel root - resumeMu root rq)
      rw [show iterFuel root - resumeMu root rq + resumeMu root rq = iterFuel root by
        unfold iterFuel; omega] at this
      exact this
  | done h0 h => rw [h, iterLoop_none]; rfl

/-- after a yield the iterator stands at the yielded node, and what is still to come is the tail -/
theorem iterAt_tail (root : Node) (it : Iter) (mem : Mem) (q : Path) (e : Entry) (tl : List (Path × Entry))
    (h : IterAt root it ((q, e) :: tl)) :
    (root.sub q).data? = some e ∧ IterAt root (yieldRes root it mem q e).it tl := by
  have key : (root.sub q).data? = some e ∧ tl = rest root q.reverse := by
    generalize hx : (q, e) :: tl = todo at h
    cases h with
    | init h1 h2 =>
      have := down_split root root [] rfl q e tl (by rw [entriesAt_root]; exact hx.symm)
      simpa [above] using this
    | «at» rq h0 h1 h2 =>
      cases hn : root.sub rq.reverse with
      | nil => exact absurd hn h0
      | node c dd l m r =>
        simp only [rest] at hx
        cases hs : sibsEntries root rq.reverse [.L, .M, .R] with
        | nil => rw [hs] at hx; exact above_split root rq h0 q e tl hx.symm
        | cons x tl1 =>
          rw [hs] at hx
          simp only [List.cons_append, List.cons.injEq] at hx
          obtain ⟨hx1, hx2⟩ := hx
          subst hx1 hx2
          have Hsub : ∀ d, ∀ q e tl, entriesAt root (rq.reverse ++ [d]) = (q, e) :: tl →
              (root.sub q).data? = some e ∧ tl ++ above root (d :: rq.reverse.reverse) = rest root q.reverse := by
            intro d q e tl h
            have := down_split root _ (rq.reverse ++ [d]) rfl q e tl h
            simpa using this
          have := sibs_split root rq.reverse c dd l m r hn Hsub [.L, .M, .R] (Or.inr ⟨.L, rfl⟩) q e tl1 hs
          simpa using this
    | done h0 h => cases hx
  refine ⟨key.1, ?_⟩
  rw [key.2]
  apply IterAt.at
  · intro hnil; rw [List.reverse_reverse] at hnil; rw [hnil] at key; simp [Node.data?] at key
  · simp [yieldRes]
  · simp [yieldRes]

theorem iterAt_end (root : Node) (it : Iter) (mem : Mem) : IterAt root (endRes it mem).it [] :=
  IterAt.done _ rfl rfl

theorem iterNext_at (t : Table) (it : Iter) (mem : Mem) (todo : List (Path × Entry))
    (h : IterAt t.root it todo) (hadv : it.adv = false) :
    iterNext t it mem = resOf t.root it mem todo (endRes it mem) := by
  simp only [iterNext, hadv, Bool.false_eq_true, if_false]
  exact iterLoop_at t.root it mem todo h

theorem iterAllLoop_at (t : Table) : ∀ (n : Nat) (it : Iter) (mem : Mem) (todo : List (Path × Entry)),
    IterAt t.root it todo → it.adv = false → todo.length < n →
    iterAllLoop t n it mem = (todo.map (·.2), mem) := by
  intro n
  induction n with
  | zero => intro it mem todo _ _ h; omega
  | succ n ih =>
    intro it mem todo h hadv hlen
    simp only [iterAllLoop, iterNext_at t it mem todo h hadv]
    cases todo with
    | nil => simp [resOf, endRes]
    | cons x tl =>
      obtain ⟨q, e⟩ := x
      have ht := iterAt_tail t.root it mem q e tl h
      have := ih (yieldRes t.root it mem q e).it mem tl ht.2 (by simp [yieldRes, hadv]) (by simp at hlen; omega)
      simp only [resOf, yieldRes] at this ⊢
      simp [this]

theorem entriesP_map_snd (t : Node) : t.entriesP.map (·.2) = t.entries.map (·.2) := by
  induction t with
  | nil => rfl
  | node c d l m r ihl ihm ihr =>
    simp only [Node.entriesP, Node.entries, List.map_append, List.map_map, Function.comp_def]
    rw [← ihl, ← ihr]
    have : List.map (fun x : Key × Entry => x.2) m.entries = List.map (fun x : Path × Entry => x.2) m.entriesP := ihm.symm
    cases d <;> simp [this]

theorem iterInit_at (t : Table) : IterAt t.root (iterInit t) t.root.entriesP :=
  IterAt.init _ rfl rfl

/-- **enumeration**: a complete pass of the iterator (`foreach_key`, `foreach_value`) yields the entries
in first-arrival pre-order, each exactly once, without fault -/
theorem iterAll_eq (t : Table) (mem : Mem) : iterAll t mem = (t.root.entries.map (·.2), mem) := by
  unfold iterAll
  rw [iterAllLoop_at t _ _ mem _ (iterInit_at t) rfl (by rw [entriesP_length]; have := marked_le_nodes t.root; omega)]
  rw [entriesP_map_snd]

/-! ### removal through the iterator -/

/-- `remove_eow_node` never creates a node -/
theorem sub_remAt_nil (t : Node) (p q : Path) (mem : Mem) (h : t.sub q = .nil) :
    (t.remAt tr p mem).node.sub q = .nil := by
  induction t generalizing p q with
  | nil => simp only [Node.remAt]; exact h
  | node c d l m r ihl ihm ihr =>
    cases q with
    | nil => simp [Node.sub] at h
    | cons dq q =>
      have hnil : ∀ x : Path, Node.nil.sub x = .nil := by intro x; cases x <;> rfl
      cases p with
      | nil =>
        simp only [Node.remAt]
        cases d with
        | none => exact h
        | some e => simp only []; split; · exact hnil _
                    · exact h
      | cons dp p =>
        cases dp <;> simp only [Node.remAt]
        · rcases rebuild_cases tr c d (l.remAt tr p mem).node m r (l.remAt tr p mem) with g | g <;> rw [g.1]
          · exact hnil _
          · cases dq <;> simp only [Node.sub] at h ⊢
            · exact ihl p q h
            · exact h
            · exact h
        · rcases rebuild_cases tr c d l (m.remAt tr p mem).node r (m.remAt tr p mem) with g | g <;> rw [g.1]
          · exact hnil _
          · cases dq <;> simp only [Node.sub] at h ⊢
            · exact h
            · exact ihm p q h
            · exact h
        · rcases rebuild_cases tr c d l m (r.remAt tr p mem).node (r.remAt tr p mem) with g | g <;> rw [g.1]
          · exact hnil _
          · cases dq <;> simp only [Node.sub] at h ⊢
            · exact h
            · exact h
            · exact ihr p q h

/-- pruning only touches the removed node and its ancestors: every existing node whose address is not
a prefix of `p` keeps its whole subtree -/
theorem sub_remAt_other (t : Node) (p q : Path) (mem : Mem) (hq : t.sub q ≠ .nil) (hpre : ¬ q <+: p) :
    (t.remAt tr p mem).node.sub q = t.sub q := by
  induction t generalizing p q with
  | nil => cases q <;> simp [Node.sub] at hq
  | node c d l m r ihl ihm ihr =>
    cases q with
    | nil => exact absurd List.nil_prefix hpre
    | cons dq q =>
      have hnil : ∀ x : Path, Node.nil.sub x = .nil := by intro x; cases x <;> rfl
      cases p with
      | nil =>
        simp only [Node.remAt]
        cases d with
        | none => rfl
        | some e =>
          simp only []; split
          · rename_i hn
            simp only [Bool.and_eq_true, Node.isNil_iff] at hn
            obtain ⟨⟨h1, h2⟩, h3⟩ := hn; subst h1 h2 h3
            cases dq <;> simp only [Node.sub] at hq <;> exact absurd (hnil q) hq
          · cases dq <;> rfl
      | cons dp p =>
        have key : ∀ (child : Node) (ih : ∀ (p q : Path), child.sub q ≠ .nil → ¬ q <+: p →
              (child.remAt tr p mem).node.sub q = child.sub q) (same : dq = dp) (hc : child.sub q ≠ .nil),
              (child.remAt tr p mem).node.sub q = child.sub q ∧ (child.remAt tr p mem).node ≠ .nil := by
          intro child ih same hc
          have hpre' : ¬ q <+: p := by
            intro hp; apply hpre; subst same
            exact (List.cons_prefix_cons).mpr ⟨rfl, hp⟩
          have := ih p q hc hpre'
          refine ⟨this, ?_⟩
          intro hn; rw [hn, hnil] at this; exact hc this.symm
        cases dp <;> simp only [Node.remAt]
        · rcases rebuild_cases tr c d (l.remAt tr p mem).node m r (l.remAt tr p mem) with g | g <;> rw [g.1]
          · obtain ⟨_, _, _, _, g2, g3, g4, _⟩ := g
            subst g3 g4
            cases dq <;> simp only [Node.sub] at hq ⊢
            · have := key l ihl rfl hq; exact absurd g2 this.2
            · exact absurd (hnil q) hq
            · exact absurd (hnil q) hq
          · cases dq <;> simp only [Node.sub] at hq ⊢
            exact (key l ihl rfl hq).1
        · rcases rebuild_cases tr c d l (m.remAt tr p mem).node r (m.remAt tr p mem) with g | g <;> rw [g.1]
          · obtain ⟨_, _, _, _, g2, g3, g4, _⟩ := g
            subst g2 g4
            cases dq <;> simp only [Node.sub] at hq ⊢
            · exact absurd (hnil q) hq
            · have := key m ihm rfl hq; exact absurd g3 this.2
            · exact absurd (hnil q) hq
          · cases dq <;> simp only [Node.sub] at hq ⊢
            exact (key m ihm rfl hq).1
        · rcases rebuild_cases tr c d l m (r.remAt tr p mem).node (r.remAt tr p mem) with g | g <;> rw [g.1]
          · obtain ⟨_, _, _, _, g2, g3, g4, _⟩ := g
            subst g2 g3
            cases dq <;> simp only [Node.sub] at hq ⊢
            · exact absurd (hnil q) hq
            · exact absurd (hnil q) hq
            · have := key r ihr rfl hq; exact absurd g4 this.2
          · cases dq <;> simp only [Node.sub] at hq ⊢
            exact (key r ihr rfl hq).1

theorem sibs_all_split (root : Node) (p : Path) (d : Dir) :
    ∃ pre, sibsEntries root p [.L, .M, .R] = pre ++ entriesAt root (p ++ [d]) ++ sibsEntries root p (later d) := by
  cases d
  · exact ⟨[], by simp [sibsEntries, later]⟩
  · exact ⟨entriesAt root (p ++ [.L]), by simp [sibsEntries, later]⟩
  · exact ⟨entriesAt root (p ++ [.L]) ++ entriesAt root (p ++ [.M]), by simp [sibsEntries, later]⟩

/-- every marked node splits the enumeration below `p`: something before it, the node, then `rest` -/
theorem entriesAt_split (root : Node) (x : Path) : ∀ (p : Path) (e : Entry),
    (root.sub (p ++ x)).data? = some e →
    ∃ pre, entriesAt root p ++ above root p.reverse = pre ++ (p ++ x, e) :: rest root (p ++ x).reverse := by
  induction x with
  | nil =>
    intro p e h
    rw [List.append_nil] at h ⊢
    cases hn : root.sub p with
    | nil => rw [hn] at h; simp [Node.data?] at h
    | node c dd l m r =>
      rw [hn] at h; simp only [Node.data?] at h; subst h
      refine ⟨[], ?_⟩
      rw [entriesAt_node root p c _ l m r hn]
      simp [rest]
  | cons d x ih =>
    intro p e h
    have hp : p ++ d :: x = (p ++ [d]) ++ x := by simp
    rw [hp] at h ⊢
    obtain ⟨pre, hpre⟩ := ih (p ++ [d]) e h
    cases hn : root.sub p with
    | nil =>
      rw [sub_append, sub_append, hn] at h
      have hnil : ∀ y : Path, Node.nil.sub y = .nil := by intro y; cases y <;> rfl
      rw [hnil, hnil] at h; simp [Node.data?] at h
    | node c dd l m r =>
      obtain ⟨pre2, hpre2⟩ := sibs_all_split root p d
      rw [entriesAt_node root p c dd l m r hn, hpre2]
      have hab : above root (p ++ [d]).reverse = sibsEntries root p (later d) ++ above root p.reverse := by
        simp [above]
      rw [hab] at hpre
      refine ⟨(match dd with | some e => [(p, e)] | none => []) ++ pre2 ++ pre, ?_⟩
      simp only [List.append_assoc] at hpre ⊢
      rw [hpre]

theorem entriesP_split (root : Node) (q : Path) (e : Entry) (h : (root.sub q).data? = some e) :
    ∃ pre, root.entriesP = pre ++ (q, e) :: rest root q.reverse := by
  have := entriesAt_split root q [] e (by simpa using h)
  simpa [entriesAt_root, above] using this

/-- node addresses in the enumeration are pairwise distinct -/
theorem entriesP_distinct (t : Node) : t.entriesP.Pairwise (fun a b => a.1 ≠ b.1) := by
  induction t with
  | nil => simp [Node.entriesP]
  | node c d l m r ihl ihm ihr =>
    simp only [Node.entriesP, List.pairwise_append, List.mem_append, List.mem_map]
    refine ⟨⟨⟨?_, ?_, ?_⟩, ?_, ?_⟩, ?_, ?_⟩
    · cases d <;> simp
    · exact List.pairwise_map.mpr (ihl.imp (by intro a b h; simpa using h))
    · intro a ha b ⟨y, _, hb⟩; subst hb; cases d <;> simp at ha; subst ha; simp
    · exact List.pairwise_map.mpr (ihm.imp (by intro a b h; simpa using h))
    · intro a ha b ⟨y, _, hb⟩; subst hb
      rcases ha with ha | ⟨z, _, ha⟩
      · cases d <;> simp at ha; subst ha; simp
      · subst ha; simp
    · exact List.pairwise_map.mpr (ihr.imp (by intro a b h; simpa using h))
    · intro a ha b ⟨y, _, hb⟩; subst hb
      rcases ha with (ha | ⟨z, _, ha⟩) | ⟨z, _, ha⟩
      · cases d <;> simp at ha; subst ha; simp
      · subst ha; simp
      · subst ha; simp

/-- in a list with pairwise distinct keys the split at a key is unique -/
theorem split_unique {α β : Type} (l : List (α × β)) (h : l.Pairwise (fun a b => a.1 ≠ b.1)) :
    ∀ (A A' B B' : List (α × β)) (x x' : α × β), l = A ++ x :: B → l = A' ++ x' :: B' → x.1 = x'.1 →
      A = A' ∧ x = x' ∧ B = B' := by
  intro A
  induction A generalizing l with
  | nil =>
    intro A' B B' x x' h1 h2 hx
    cases A' with
    | nil => rw [h1] at h2; simp at h2; exact ⟨rfl, h2.1, h2.2⟩
    | cons a A' =>
      rw [h1] at h2; simp at h2
      obtain ⟨h3, h4⟩ := h2
      subst h3
      rw [h1, h4] at h
      have := (List.pairwise_cons.mp h).1 x' (by simp)
      exact absurd hx this
  | cons a A ih =>
    intro A' B B' x x' h1 h2 hx
    cases A' with
    | nil =>
      rw [h1] at h2; simp at h2
      obtain ⟨h3, h4⟩ := h2
      subst h3
      rw [h1] at h
      have := (List.pairwise_cons.mp h).1 x (by simp)
      exact absurd hx.symm this
    | cons a' A' =>
      rw [h1] at h2; simp at h2
      obtain ⟨h3, h4⟩ := h2
      subst h3
      rw [h1] at h
      have := ih (A ++ x :: B) (List.pairwise_cons.mp h).2 A' B B' x x' rfl h4 hx
      exact ⟨by rw [this.1], this.2.1, this.2.2⟩

theorem filter_selfEntry (d : Option Entry) (q : Path) (hq : q ≠ []) :
    ((match d with | some e => [(([] : Path), e)] | none => []) : List (Path × Entry)).filter
      (fun x => x.1 != q) = (match d with | some e => [([], e)] | none => []) := by
  cases d with
  | none => simp
  | some e => simp; exact fun h => hq h

/-- **`remove_eow_node` removes exactly one entry from the enumeration**; no other node moves -/
theorem entriesP_remAt (t : Node) (p : Path) (mem : Mem) (e : Entry) (hd : (t.sub p).data? = some e) :
    (t.remAt tr p mem).node.entriesP = t.entriesP.filter (fun x => x.1 != p) := by
  induction t generalizing p with
  | nil => cases p <;> simp [Node.sub, Node.data?] at hd
  | node c d l m r ihl ihm ihr =>
    have fl : ∀ (dir : Dir) (xs : List (Path × Entry)) (p : Path),
        (xs.map fun x => (dir :: x.1, x.2)).filter (fun x => x.1 != dir :: p) =
          (xs.filter (fun x => x.1 != p)).map fun x => (dir :: x.1, x.2) := by
      intro dir xs p
      rw [List.filter_map]
      congr 1
      apply List.filter_congr
      intro x _
      rw [Bool.eq_iff_iff]; simp
    have fo : ∀ (dir dir' : Dir) (xs : List (Path × Entry)) (p : Path), dir ≠ dir' →
        (xs.map fun x => (dir :: x.1, x.2)).filter (fun x => x.1 != dir' :: p) =
          xs.map fun x => (dir :: x.1, x.2) := by
      intro dir dir' xs p hne
      apply List.filter_eq_self.mpr
      intro a ha
      obtain ⟨y, _, hy⟩ := List.mem_map.mp ha
      subst hy; simp [hne]
    cases p with
    | nil =>
      simp only [Node.sub, Node.data?] at hd; subst hd
      simp only [Node.remAt]
      have hrest : ∀ (dir : Dir) (xs : List (Path × Entry)),
          (xs.map fun x => (dir :: x.1, x.2)).filter (fun x => x.1 != []) = xs.map fun x => (dir :: x.1, x.2) := by
        intro dir xs
        apply List.filter_eq_self.mpr
        intro a ha
        obtain ⟨y, _, hy⟩ := List.mem_map.mp ha
        subst hy; simp
      split
      · rename_i hn
        simp only [Bool.and_eq_true, Node.isNil_iff] at hn
        obtain ⟨⟨h1, h2⟩, h3⟩ := hn; subst h1 h2 h3
        simp [Node.entriesP]
      · simp [Node.entriesP, List.filter_append, hrest]
    | cons dir p =>
      cases dir <;> simp only [Node.sub] at hd <;> simp only [Node.remAt]
      · have ih := ihl p hd
        rcases rebuild_cases tr c d (l.remAt tr p mem).node m r (l.remAt tr p mem) with g | g <;> rw [g.1]
        · obtain ⟨_, _, _, _, g2, g3, g4, g5⟩ := g
          subst g3 g4 g5
          rw [g2] at ih
          simp only [Node.entriesP, List.filter_append, fl, ← ih]
          simp
        · simp only [Node.entriesP, List.filter_append, fl, ← ih,
            fo .M .L _ p (by decide), fo .R .L _ p (by decide)]
          cases d <;> simp
      · have ih := ihm p hd
        rcases rebuild_cases tr c d l (m.remAt tr p mem).node r (m.remAt tr p mem) with g | g <;> rw [g.1]
        · obtain ⟨_, _, _, _, g2, g3, g4, g5⟩ := g
          subst g2 g4 g5
          rw [g3] at ih
          simp only [Node.entriesP, List.filter_append, fl, ← ih]
          simp
        · simp only [Node.entriesP, List.filter_append, fl, ← ih,
            fo .L .M _ p (by decide), fo .R .M _ p (by decide)]
          cases d <;> simp
      · have ih := ihr p hd
        rcases rebuild_cases tr c d l m (r.remAt tr p mem).node (r.remAt tr p mem) with g | g <;> rw [g.1]
        · obtain ⟨_, _, _, _, g2, g3, g4, g5⟩ := g
          subst g2 g3 g5
          rw [g4] at ih
          simp only [Node.entriesP, List.filter_append, fl, ← ih]
          simp
        · simp only [Node.entriesP, List.filter_append, fl, ← ih,
            fo .L .R _ p (by decide), fo .M .R _ p (by decide)]
          cases d <;> simp

theorem mem_sibsEntries (root : Node) (p : Path) (ds : List Dir) (x : Path × Entry)
    (h : x ∈ sibsEntries root p ds) : ∃ d ∈ ds, ∃ y, x.1 = p ++ d :: y := by
  simp only [sibsEntries, List.mem_flatMap, entriesAt, List.mem_map] at h
  obtain ⟨d, hd, y, _, hy⟩ := h
  exact ⟨d, hd, y.1, by rw [← hy]; simp⟩

theorem later_ne (d d' : Dir) (h : d' ∈ later d) : d' ≠ d := by
  cases d <;> cases d' <;> simp [later] at h ⊢

theorem above_not_prefix (root : Node) : ∀ (rq : List Dir) (x : Path × Entry), x ∈ above root rq →
    ∀ sfx, ¬ x.1 <+: rq.reverse ++ sfx := by
  intro rq
  induction rq with
  | nil => intro x hx; simp [above] at hx
  | cons d rq ih =>
    intro x hx sfx hp
    simp only [above, List.mem_append] at hx
    rcases hx with hx | hx
    · obtain ⟨d', hd', y, hy⟩ := mem_sibsEntries root _ _ x hx
      rw [hy, List.reverse_cons, List.append_assoc] at hp
      have := (List.prefix_append_right_inj _).mp hp
      simp only [List.singleton_append, List.cons_prefix_cons] at this
      exact later_ne d d' hd' this.1
    · apply ih x hx ([d] ++ sfx)
      simpa [List.append_assoc] using hp

theorem rest_not_prefix (root : Node) (rp : List Dir) (x : Path × Entry) (hx : x ∈ rest root rp) :
    ¬ x.1 <+: rp.reverse := by
  simp only [rest, List.mem_append] at hx
  rcases hx with hx | hx
  · obtain ⟨d, _, y, hy⟩ := mem_sibsEntries root _ _ x hx
    intro hp
    have := hp.length_le
    rw [hy] at this; simp at this; omega
  · have := above_not_prefix root rp x hx []
    simpa using this

theorem nxt_congr (root root' : Node) (q : Path) (h : root'.sub q = root.sub q) : nxt root' q = nxt root q := by
  simp [nxt, h]

/-- removing the element of a distinct-key list: everything else stays, in order -/
theorem filter_split {α β : Type} [BEq α] [LawfulBEq α] (pre post : List (α × β)) (x : α × β)
    (h : (pre ++ x :: post).Pairwise (fun a b => a.1 ≠ b.1)) :
    (pre ++ x :: post).filter (fun y => y.1 != x.1) = pre ++ post := by
  rw [List.pairwise_append] at h
  obtain ⟨_, h2, h3⟩ := h
  rw [List.filter_append]
  have e1 : pre.filter (fun y => y.1 != x.1) = pre := by
    apply List.filter_eq_self.mpr
    intro a ha; simpa using h3 a ha x (by simp)
  have e2 : (x :: post).filter (fun y => y.1 != x.1) = post := by
    simp only [List.filter_cons, bne_self_eq_false, Bool.false_eq_true, if_false]
    apply List.filter_eq_self.mpr
    intro a ha
    have := (List.pairwise_cons.mp h2).1 a ha
    simpa using fun h => this h.symm
  rw [e1, e2]

/-- the iterator state including the `advanced_on_remove` mode; `todo` is what the following calls of
`iter_next` will yield, in order -/
def IterOk (root : Node) (it : Iter) (todo : List (Path × Entry)) : Prop :=
  (it.adv = false ∧ IterAt root it todo) ∨
  (it.adv = true ∧
    match todo with
    | [] => it.nextStat = .iterEnd ∧ it.cur = none ∧ it.next = none
    | x :: tl => it.nextStat = .ok ∧ (root.sub x.1).data? = some x.2 ∧ it.cur = some x.1 ∧
        IterAt root { it with adv := false } tl)

/-- what was yielded last and may be removed now -/
def Iter.lastYield (it : Iter) : Option Path := if it.adv then none else it.cur

/-- **`iter_next`** (in either mode) yields the head of `todo`, or reports the end when nothing is left;
it neither allocates nor faults -/
theorem iterNext_ok (t : Table) (it : Iter) (mem : Mem) (todo : List (Path × Entry)) (h : IterOk t.root it todo) :
    (iterNext t it mem).mem = mem ∧ (iterNext t it mem).it.adv = false ∧
    match todo with
    | [] => (iterNext t it mem).st = .iterEnd ∧ (iterNext t it mem).out = none ∧
        IterOk t.root (iterNext t it mem).it [] ∧ (iterNext t it mem).it.cur = none
    | x :: tl => (iterNext t it mem).st = .ok ∧ (iterNext t it mem).out = some x.2 ∧
        IterOk t.root (iterNext t it mem).it tl ∧ (iterNext t it mem).it.cur = some x.1 := by
  rcases h with ⟨hadv, hat⟩ | ⟨hadv, hm⟩
  · rw [iterNext_at t it mem todo hat hadv]
    cases todo with
    | nil => exact ⟨rfl, hadv, rfl, rfl, Or.inl ⟨hadv, IterAt.done _ rfl rfl⟩, rfl⟩
    | cons x tl =>
      obtain ⟨q, e⟩ := x
      have ht := iterAt_tail t.root it mem q e tl hat
      exact ⟨rfl, hadv, rfl, rfl, Or.inl ⟨hadv, ht.2⟩, rfl⟩
  · cases todo with
    | nil =>
      obtain ⟨h1, h2, h3⟩ := hm
      have e : iterNext t it mem = ⟨.iterEnd, none, { it with adv := false }, mem⟩ := by
        simp [iterNext, hadv, h1]
      rw [e]
      exact ⟨rfl, rfl, rfl, rfl, Or.inl ⟨rfl, IterAt.done _ h2 h3⟩, h2⟩
    | cons x tl =>
      obtain ⟨h1, h2, h3, h4⟩ := hm
      have hnn : (t.root.sub x.1).isNil = false := by
        cases hs : t.root.sub x.1 with
        | nil => rw [hs] at h2; simp [Node.data?] at h2
        | node _ _ _ _ _ => rfl
      have e : iterNext t it mem = ⟨.ok, some x.2, { it with adv := false }, mem⟩ := by
        simp [iterNext, hadv, h1, h3, hnn, h2]
      rw [e]
      exact ⟨rfl, rfl, rfl, rfl, Or.inl ⟨rfl, h4⟩, h3⟩

/-- **`iter_remove`** removes exactly the entry yielded last, releases its blocks, and the following
`iter_next` calls go on with exactly the entries that were still to come: nothing is skipped,
nothing is yielded twice, although the removed node and its empty ancestors are gone. -/
theorem iterRemove_ok (t : Table) (it : Iter) (wantOut : Bool) (mem : Mem) (todo : List (Path × Entry))
    (p : Path) (e : Entry) (hat : IterAt t.root it todo) (hadv : it.adv = false) (hcur : it.cur = some p)
    (hd : (t.root.sub p).data? = some e) :
    (iterRemove t it wantOut mem).1 = .ok ∧ (iterRemove t it wantOut mem).2.1 = some e.2 ∧
    (iterRemove t it wantOut mem).2.2.1 = { t with size := decSize t.size, root := (t.root.remAt t.triple p mem).node } ∧
    (iterRemove t it wantOut mem).2.2.2.2 = (t.root.remAt t.triple p mem).mem ∧
    (t.root.remAt t.triple p mem).node.entriesP = t.root.entriesP.filter (fun x => x.1 != p) ∧
    IterOk (t.root.remAt t.triple p mem).node (iterRemove t it wantOut mem).2.2.2.1 todo := by
  -- where the iterator stands
  have htodo : todo = rest t.root p.reverse := by
    cases hat with
    | init h1 h2 => rw [h1] at hcur; cases hcur
    | «at» rq h0 h1 h2 => rw [h1] at hcur; simp at hcur; rw [← hcur]; simp
    | done h0 h => rw [h0] at hcur; cases hcur
  have hfil := entriesP_remAt (tr := t.triple) t.root p mem e hd
  have hnext := iterNext_at t it mem todo hat hadv
  have hnm : (resOf t.root it mem todo (endRes it mem)).mem = mem := by cases todo <;> rfl
  have hrem : iterRemove t it wantOut mem = (.ok, some e.2, { t with size := decSize t.size, root := (t.root.remAt t.triple p mem).node },
      { (resOf t.root it mem todo (endRes it mem)).it with
          adv := true, nextStat := (resOf t.root it mem todo (endRes it mem)).st },
      (t.root.remAt t.triple p mem).mem) := by
    unfold iterRemove
    simp only [hcur, hd, hadv, Bool.false_eq_true, if_false]
    have : (if wantOut = true then mem.check (some e).isSome else mem) = mem := by cases wantOut <;> simp
    rw [this, hnext, hnm]; rfl
  rw [hrem]
  refine ⟨rfl, rfl, rfl, rfl, hfil, ?_⟩
  · simp only []
    cases todo with
    | nil =>
      right
      exact ⟨rfl, rfl, rfl, rfl⟩
    | cons x tl =>
      obtain ⟨q, eq⟩ := x
      right
      have ht := iterAt_tail t.root it mem q eq tl hat
      have htl : tl = rest t.root q.reverse := by
        have := ht.2
        simp only [yieldRes] at this
        cases this with
        | init h1 h2 => simp at h1
        | «at» rq h0 h1 h2 => simp at h1; rw [h1]; simp
        | done h0 h => simp at h0
      have hnp : ¬ q <+: p := by
        have := rest_not_prefix t.root p.reverse (q, eq) (by rw [← htodo]; simp)
        simpa using this
      have hqn : t.root.sub q ≠ .nil := by
        intro hn; have := ht.1; rw [hn] at this; simp [Node.data?] at this
      have hsub := sub_remAt_other (tr := t.triple) t.root p q mem hqn hnp
      -- the enumeration of the pruned tree
      obtain ⟨pre, hpre⟩ := entriesP_split t.root p e hd
      rw [← htodo] at hpre
      have hdist := entriesP_distinct t.root
      have hE' : (t.root.remAt t.triple p mem).node.entriesP = pre ++ (q, eq) :: tl := by
        rw [hfil, hpre]
        have := filter_split pre ((q, eq) :: tl) (p, e) (by rw [← hpre]; exact hdist)
        simpa using this
      obtain ⟨pre', hpre'⟩ := entriesP_split (t.root.remAt t.triple p mem).node q eq (by rw [hsub]; exact ht.1)
      have huniq := split_unique _ (entriesP_distinct (t.root.remAt t.triple p mem).node) pre pre' tl _ (q, eq) (q, eq)
        hE' hpre' rfl
      refine ⟨rfl, rfl, by rw [hsub]; exact ht.1, rfl, ?_⟩
      rw [huniq.2.2]
      apply IterAt.at
      · rw [List.reverse_reverse, hsub]; exact hqn
      · simp [resOf, yieldRes]
      · simp only [List.reverse_reverse, resOf, yieldRes]; exact (nxt_congr _ _ q hsub).symm

/-- `iter_remove` before the first `iter_next`, after the end of the iteration: `CC_ERR_KEY_NOT_FOUND`,
nothing changes (C16) -/
theorem iterRemove_inert (t : Table) (it : Iter) (wantOut : Bool) (mem : Mem) (h : it.cur = none ∨ it.adv = true) :
    iterRemove t it wantOut mem = (.errKeyNotFound, none, t, it, mem) := by
  unfold iterRemove
  cases hc : it.cur with
  | none => rfl
  | some p =>
    rcases h with h | h
    · rw [hc] at h; cases h
    · simp [h]

/-! ### tying node addresses to keys -/

variable {cmp : Cmp}

theorem findPath_of_mem_entriesP (hc : CmpLaw cmp) (t : Node) (ho : t.Ordered cmp) :
    ∀ p e, (p, e) ∈ t.entriesP → ∃ k, (k, e) ∈ t.entries ∧ t.findPath cmp k = some p := by
  induction t with
  | nil => intro p e h; simp [Node.entriesP] at h
  | node c d l m r ihl ihm ihr =>
    obtain ⟨hl, hr, ol, om, or⟩ := ho
    intro p e h
    simp only [Node.entriesP, List.mem_append, List.mem_map] at h
    rcases h with ((h | ⟨y, hy, h⟩) | ⟨y, hy, h⟩) | ⟨y, hy, h⟩
    · cases d with
      | none => simp at h
      | some e0 =>
        simp at h; obtain ⟨h1, h2⟩ := h; subst h1 h2
        exact ⟨[c], by simp [Node.entries], by simp [Node.findPath, hc.refl]⟩
    · simp only [Prod.mk.injEq] at h; obtain ⟨h1, h2⟩ := h; subst h1 h2
      obtain ⟨k, hk, hf⟩ := ihl ol y.1 y.2 hy
      obtain ⟨a, as, h1, h2⟩ := entries_head l _ hk
      simp only at h1; subst h1
      refine ⟨a :: as, by simp [Node.entries, hk], ?_⟩
      simp [Node.findPath, hl a h2, hf]
    · simp only [Prod.mk.injEq] at h; obtain ⟨h1, h2⟩ := h; subst h1 h2
      obtain ⟨k, hk, hf⟩ := ihm om y.1 y.2 hy
      obtain ⟨a, as, h1, h2⟩ := entries_head m _ hk
      simp only at h1; subst h1
      refine ⟨c :: a :: as, ?_, ?_⟩
      · simp only [Node.entries, List.mem_append, List.mem_map]
        exact Or.inl (Or.inr ⟨(a :: as, y.2), hk, rfl⟩)
      · simp [Node.findPath, hc.refl, hf]
    · simp only [Prod.mk.injEq] at h; obtain ⟨h1, h2⟩ := h; subst h1 h2
      obtain ⟨k, hk, hf⟩ := ihr or y.1 y.2 hy
      obtain ⟨a, as, h1, h2⟩ := entries_head r _ hk
      simp only at h1; subst h1
      refine ⟨a :: as, by simp [Node.entries, hk], ?_⟩
      simp [Node.findPath, hr a h2, hf]

theorem mem_entriesP_of_data (t : Node) (p : Path) (e : Entry) (h : (t.sub p).data? = some e) :
    (p, e) ∈ t.entriesP := by
  obtain ⟨pre, hpre⟩ := entriesP_split t p e h
  rw [hpre]; simp

/-- the entry stored at a node is found by descending with its own key -/
theorem findPath_of_data (hc : CmpLaw cmp) (t : Node) (ho : t.Ordered cmp) (hko : t.KeysOk)
    (p : Path) (e : Entry) (h : (t.sub p).data? = some e) : e.1 ≠ [] ∧ t.findPath cmp e.1 = some p := by
  obtain ⟨k, hk, hf⟩ := findPath_of_mem_entriesP hc t ho p e (mem_entriesP_of_data t p e h)
  have := hko _ hk
  simp only at this
  rw [this]
  exact ⟨entries_key_ne_nil t _ hk, hf⟩

theorem IterAt.suffix {root : Node} {it : Iter} {todo : List (Path × Entry)} (h : IterAt root it todo)
    (hm : ∀ p, it.cur = some p → ∃ e, (root.sub p).data? = some e) :
    ∃ pre, root.entriesP = pre ++ todo := by
  cases h with
  | init h1 h2 => exact ⟨[], rfl⟩
  | «at» rq h0 h1 h2 =>
    obtain ⟨e, he⟩ := hm _ h1
    obtain ⟨pre, hpre⟩ := entriesP_split root rq.reverse e he
    exact ⟨pre ++ [(rq.reverse, e)], by rw [hpre]; simp⟩
  | done h0 h => exact ⟨root.entriesP, by simp⟩

/-- the iterator stands at a *marked* node or nowhere -/
def Iter.curMarked (root : Node) (it : Iter) : Prop := ∀ p, it.cur = some p → ∃ e, (root.sub p).data? = some e

theorem IterOk.suffix {root : Node} {it : Iter} {todo : List (Path × Entry)} (h : IterOk root it todo)
    (hm : it.curMarked root) : ∃ pre, root.entriesP = pre ++ todo := by
  rcases h with ⟨_, hat⟩ | ⟨_, hmm⟩
  · exact hat.suffix hm
  · cases todo with
    | nil => exact ⟨root.entriesP, by simp⟩
    | cons x tl =>
      obtain ⟨h1, h2, h3, h4⟩ := hmm
      have h5 : tl = rest root x.1.reverse := by
        cases h4 with
        | init g1 g2 => simp [h3] at g1
        | «at» rq g0 g1 g2 => simp [h3] at g1; rw [g1]; simp
        | done g0 g => simp [h3] at g0
      obtain ⟨pre, hpre⟩ := entriesP_split root x.1 x.2 h2
      exact ⟨pre, by rw [hpre, h5]⟩

theorem IterOk.head_data {root : Node} {it : Iter} {x : Path × Entry} {tl : List (Path × Entry)} (mem : Mem)
    (h : IterOk root it (x :: tl)) : (root.sub x.1).data? = some x.2 := by
  rcases h with ⟨_, hat⟩ | ⟨_, hmm⟩
  · exact (iterAt_tail root it mem x.1 x.2 tl hat).1
  · exact hmm.2.1

/-- **`iter_remove` at the level of the map**: the key yielded last is removed, nothing else; the
invariant, the ledger and the iterator position survive -/
theorem Table.iterRemove_spec (hc : CmpLaw cmp) (t : Table) (it : Iter) (wantOut : Bool) (mem : Mem)
    (todo : List (Path × Entry)) (p : Path) (e : Entry) (hg : t.Good cmp) (hl : t.Owns mem)
    (hat : IterAt t.root it todo) (hadv : it.adv = false) (hcur : it.cur = some p)
    (hd : (t.root.sub p).data? = some e) :
    (iterRemove t it wantOut mem).1 = .ok ∧ (iterRemove t it wantOut mem).2.1 = some e.2 ∧
    (iterRemove t it wantOut mem).2.2.1.Good cmp ∧
    (∀ k, (iterRemove t it wantOut mem).2.2.1.abs.get k = (t.abs.remove e.1).get k) ∧
    (iterRemove t it wantOut mem).2.2.1.Owns (iterRemove t it wantOut mem).2.2.2.2 ∧
    (iterRemove t it wantOut mem).2.2.2.2.liveT t.triple + t.root.owned =
      mem.liveT t.triple + (iterRemove t it wantOut mem).2.2.1.root.owned ∧
    (iterRemove t it wantOut mem).2.2.2.2.fault = mem.fault ∧
    IterOk (iterRemove t it wantOut mem).2.2.1.root (iterRemove t it wantOut mem).2.2.2.1 todo ∧
    (iterRemove t it wantOut mem).2.2.2.1.adv = true ∧
    (iterRemove t it wantOut mem).2.2.1.triple = t.triple := by
  obtain ⟨⟨hs, hp, ho⟩, hko⟩ := hg
  obtain ⟨h1, h2, h3, h4, h5, h6⟩ := iterRemove_ok t it wantOut mem todo p e hat hadv hcur hd
  obtain ⟨hk, hf⟩ := findPath_of_data hc t.root ho hko p e hd
  have q := remAt_spec t.triple t.root p mem e hd (by unfold Table.Owns at hl; omega)
  obtain ⟨q1, q2, q3, q4, q6⟩ := q
  have ho' := ordered_remAt (tr := t.triple) (cmp := cmp) t.root p mem ho
  have hko' := keysOk_remAt (tr := t.triple) hc t.root e.1 p mem e hk hf hd ho hko
  have hadv' : (iterRemove t it wantOut mem).2.2.2.1.adv = true := by
    simp [iterRemove, hcur, hadv]
  rw [h3, h4] at *
  refine ⟨h1, h2, ⟨⟨?_, pruned_remAt _ _ _ hp, ho'⟩, hko'⟩, ?_, ?_, q3, q4, h6, hadv', rfl⟩
  · simp only [decSize]; rw [hs]; split <;> omega
  · intro k
    rw [abs_get hc _ ho' hko', SpecLemmas.get_remove, abs_get hc t ho hko]
    by_cases hk0 : k = []
    · subst hk0; simp
    · simp only [hk0, if_false]
      rw [lookup_remAt hc t.root e.1 k p mem e hk hk0 hf hd]
      split <;> simp
  · unfold Table.Owns at hl ⊢; simp only; omega
end CC.TST
