import CollectionsC.Proofs.PTSTRemoveAll
import CollectionsC.Proofs.TSTIter
/-! Pointer-level TST: the iterator's pointer comparisons against the path automaton of `Model/TST.lean`
(node ids ↔ node paths). -/
set_option linter.unusedSimpArgs false
set_option linter.unusedVariables false
namespace CC.PTST
open CC CC.TST
local macro "triv" : tactic => `(tactic| first | rfl | trivial | simp)

/-! ### paths and ids -/

/-- the node id a path pointer stands for (`NULL` ↦ 0) -/
def idAt (t : INode) : Option Path → Nat
  | none => 0
  | some p => (t.sub p).rid

/-- a path pointer is NULL or addresses an existing node -/
def ValidP (t : INode) : Option Path → Prop
  | none => True
  | some p => t.sub p ≠ .nil

theorem INode.sub_append (t : INode) (p q : Path) : t.sub (p ++ q) = (t.sub p).sub q := by
  induction p generalizing t with
  | nil => cases t <;> rfl
  | cons d p ih =>
    cases t with
    | nil => simp [INode.sub, INode.sub_nil_path]
    | node id c dd l m r => cases d <;> simp [INode.sub, ih]

theorem INode.sub_snoc (t : INode) (p : Path) (d : Dir) : t.sub (p ++ [d]) = (t.sub p).child d := by
  rw [INode.sub_append]
  cases t.sub p with
  | nil => simp [INode.sub, INode.child]
  | node id c dd l m r => cases d <;> simp [INode.sub, INode.child]

theorem INode.sub_prefix_ne_nil (t : INode) (p q : Path) (h : t.sub (p ++ q) ≠ .nil) : t.sub p ≠ .nil := by
  intro e; rw [INode.sub_append, e, INode.sub_nil_path] at h; exact h rfl

/-- different existing nodes have different ids -/
theorem INode.rid_sub_inj : ∀ (t : INode) (p q : Path), t.ids.Nodup → t.sub p ≠ .nil → t.sub q ≠ .nil →
    (t.sub p).rid = (t.sub q).rid → p = q := by
  intro t
  induction t with
  | nil => intro p q _ hp; exact absurd (INode.sub_nil_path p) hp
  | node id c d l m r ihl ihm ihr =>
    intro p q hnd hp hq he
    simp only [INode.ids_node, List.nodup_cons, List.mem_append, not_or, List.nodup_append] at hnd
    obtain ⟨⟨⟨hil, him⟩, hir⟩, ⟨⟨ndl, ndm, dlm⟩, ndr, dlr⟩⟩ := hnd
    have hch : ∀ (dir : Dir) (x : Path), (INode.node id c d l m r).sub (dir :: x) ≠ .nil →
        ((INode.node id c d l m r).sub (dir :: x)).rid ∈ ((INode.node id c d l m r).child dir).ids := by
      intro dir x hx
      rw [INode.sub_cons] at hx ⊢
      exact INode.rid_sub_mem _ x hx
    cases p with
    | nil =>
      cases q with
      | nil => rfl
      | cons dq q =>
        exfalso
        have := hch dq q hq
        rw [← he] at this
        simp only [INode.sub, INode.rid_node] at this
        cases dq <;> simp only [INode.child] at this
        · exact hil this
        · exact him this
        · exact hir this
    | cons dp p =>
      cases q with
      | nil =>
        exfalso
        have := hch dp p hp
        rw [he] at this
        simp only [INode.sub, INode.rid_node] at this
        cases dp <;> simp only [INode.child] at this
        · exact hil this
        · exact him this
        · exact hir this
      | cons dq q =>
        have h1 := hch dp p hp
        have h2 := hch dq q hq
        rw [he] at h1
        cases dp <;> cases dq <;> simp only [INode.child] at h1 h2
        · simp only [INode.sub] at hp hq he; rw [ihl p q ndl hp hq he]
        · exact absurd rfl (dlm _ h1 _ h2)
        · exact absurd rfl (dlr _ (Or.inl h1) _ h2)
        · exact absurd rfl (dlm _ h2 _ h1)
        · simp only [INode.sub] at hp hq he; rw [ihm p q ndm hp hq he]
        · exact absurd rfl (dlr _ (Or.inr h1) _ h2)
        · exact absurd rfl (dlr _ (Or.inl h2) _ h1)
        · exact absurd rfl (dlr _ (Or.inr h2) _ h1)
        · simp only [INode.sub] at hp hq he; rw [ihr p q ndr hp hq he]

/-- on path pointers: equal ids ↔ equal pointers -/
theorem idAt_inj (t : INode) (hnd : t.ids.Nodup) (hz : ∀ i ∈ t.ids, i ≠ 0) (a b : Option Path)
    (ha : ValidP t a) (hb : ValidP t b) : idAt t a = idAt t b ↔ a = b := by
  constructor
  · intro he
    cases a with
    | none =>
      cases b with
      | none => rfl
      | some q =>
        exfalso
        simp only [idAt] at he
        exact hz _ (INode.rid_sub_mem t q hb) he.symm
    | some p =>
      cases b with
      | none =>
        exfalso
        simp only [idAt] at he
        exact hz _ (INode.rid_sub_mem t p ha) he
      | some q => simp only [idAt] at he; rw [INode.rid_sub_inj t p q hnd ha hb he]
  · intro e; rw [e]

/-- the record of the node at a path: its `parent` field is the node one step up -/
theorem Rep.record_at {h : Heap} : ∀ (p : Path) (t : INode) (p0 : Nat) (id c : Nat) (d : Option Entry) (l m r : INode),
    Rep h t p0 → t.sub p = .node id c d l m r →
    h.get id = { c := c, data := d, parent := (if p = [] then p0 else (t.sub p.dropLast).rid),
                 left := l.rid, mid := m.rid, right := r.rid } := by
  intro p
  induction p with
  | nil =>
    intro t p0 id c d l m r hr hs
    cases t with
    | nil => cases hs
    | node id' c' d' l' m' r' =>
      simp only [INode.sub] at hs; cases hs
      simp only [if_true]; exact hr.2.1
  | cons dir p ih =>
    intro t p0 id c d l m r hr hs
    cases t with
    | nil => simp [INode.sub] at hs
    | node id' c' d' l' m' r' =>
      obtain ⟨_, _, h3, h4, h5⟩ := hr
      have hdl : (dir :: p).dropLast = if p = [] then [] else dir :: p.dropLast := by
        cases p <;> simp [List.dropLast]
      have key : ∀ ch : INode, Rep h ch id' → ch.sub p = .node id c d l m r →
          (INode.node id' c' d' l' m' r').sub (dir :: p) = ch.sub p →
          (∀ x, (INode.node id' c' d' l' m' r').sub (dir :: x) = ch.sub x) →
          h.get id = { c := c, data := d, parent := (INode.node id' c' d' l' m' r').sub ((dir :: p).dropLast) |>.rid,
                       left := l.rid, mid := m.rid, right := r.rid } := by
        intro ch hch hsub _ hx
        rw [ih ch id' id c d l m r hch hsub, hdl]
        by_cases hp : p = []
        · simp [hp, INode.sub]
        · simp only [hp, if_false]; rw [hx]
      simp only [reduceCtorEq, if_false]
      cases dir <;> simp only [INode.sub] at hs
      · exact key l' h3 hs rfl (fun _ => rfl)
      · exact key m' h4 hs rfl (fun _ => rfl)
      · exact key r' h5 hs rfl (fun _ => rfl)

/-! ### the direction cascade -/

theorem firstNZ_map (t : INode) (hz : ∀ i ∈ t.ids, i ≠ 0) : ∀ (xs : List (Option Path)), (∀ x ∈ xs, ValidP t x) →
    firstNZ (xs.map (idAt t)) = (idAt t (firstPtr xs).1, (firstPtr xs).2) ∧ ValidP t (firstPtr xs).1 := by
  intro xs
  induction xs with
  | nil => intro _; exact ⟨rfl, trivial⟩
  | cons x xs ih =>
    intro hv
    cases x with
    | none =>
      simp only [List.map_cons, firstNZ, idAt, ne_eq, not_true_eq_false, if_false, firstPtr]
      exact ih (fun y hy => hv y (List.mem_cons_of_mem _ hy))
    | some p =>
      have hp : ValidP t (some p) := hv _ (List.mem_cons_self ..)
      have : (t.sub p).rid ≠ 0 := hz _ (INode.rid_sub_mem t p hp)
      simp only [List.map_cons, firstNZ, idAt, ne_eq, this, not_false_eq_true, if_true, firstPtr]
      exact ⟨trivial, hp⟩

/-- the cascade on ids is the cascade on paths -/
theorem cascade_corr (t : INode) (hnd : t.ids.Nodup) (hz : ∀ i ∈ t.ids, i ≠ 0)
    (prev par lp mp rp : Option Path) (hprev : ValidP t prev) (hpar : ValidP t par) (hl : ValidP t lp)
    (hm : ValidP t mp) (hr : ValidP t rp) (c : Nat) (d : Option Entry) :
    let X := (if prev = par then firstPtr [lp, mp, rp, par]
      else if prev = lp then firstPtr [mp, rp, par]
      else if prev = mp then firstPtr [rp, par]
      else if prev = rp then firstPtr [par]
      else (none, true))
    iterStep (PNode.mk c d (idAt t par) (idAt t lp) (idAt t mp) (idAt t rp)) (idAt t prev) = (idAt t X.1, X.2) ∧
      ValidP t X.1 := by
  intro X
  have ipar := idAt_inj t hnd hz prev par hprev hpar
  have il := idAt_inj t hnd hz prev lp hprev hl
  have im := idAt_inj t hnd hz prev mp hprev hm
  have ir := idAt_inj t hnd hz prev rp hprev hr
  have fz := firstNZ_map t hz
  simp only [iterStep]
  by_cases h1 : prev = par
  · have e : X = firstPtr [lp, mp, rp, par] := by show (if prev = par then _ else _) = _; rw [if_pos h1]
    rw [if_pos (ipar.2 h1), e]
    exact fz [lp, mp, rp, par] (by intro x hx; simp at hx; rcases hx with rfl | rfl | rfl | rfl <;> assumption)
  · rw [if_neg (fun e => h1 (ipar.1 e))]
    by_cases h2 : prev = lp
    · have e : X = firstPtr [mp, rp, par] := by show (if prev = par then _ else _) = _; rw [if_neg h1, if_pos h2]
      rw [if_pos (il.2 h2), e]
      exact fz [mp, rp, par] (by intro x hx; simp at hx; rcases hx with rfl | rfl | rfl <;> assumption)
    · rw [if_neg (fun e => h2 (il.1 e))]
      by_cases h3 : prev = mp
      · have e : X = firstPtr [rp, par] := by show (if prev = par then _ else _) = _; rw [if_neg h1, if_neg h2, if_pos h3]
        rw [if_pos (im.2 h3), e]
        exact fz [rp, par] (by intro x hx; simp at hx; rcases hx with rfl | rfl <;> assumption)
      · rw [if_neg (fun e => h3 (im.1 e))]
        by_cases h4 : prev = rp
        · have e : X = firstPtr [par] := by show (if prev = par then _ else _) = _; rw [if_neg h1, if_neg h2, if_neg h3, if_pos h4]
          rw [if_pos (ir.2 h4), e]
          exact fz [par] (by intro x hx; simp at hx; rcases hx with rfl; assumption)
        · rw [if_neg (fun e => h4 (ir.1 e))]
          have e : X = (none, true) := by show (if prev = par then _ else _) = _; rw [if_neg h1, if_neg h2, if_neg h3, if_neg h4]
          rw [e]; exact ⟨rfl, trivial⟩

theorem INode.erase_child (t : INode) (d : Dir) : t.erase.child d = (t.child d).erase := by
  cases t with
  | nil => cases d <;> rfl
  | node id c dd l m r => cases d <;> rfl

theorem validP_parent (t : INode) (p : Path) (h : t.sub p ≠ .nil) : ValidP t (parentPtr p) := by
  unfold parentPtr
  by_cases hp : p = []
  · simp only [hp, if_true]; trivial
  · simp only [hp, if_false, ValidP]
    have := List.dropLast_concat_getLast hp
    rw [← this] at h
    exact INode.sub_prefix_ne_nil t _ _ h

theorem idAt_child (t : INode) (p : Path) (d : Dir) :
    idAt t (childPtr (t.sub p).erase p d) = ((t.sub p).child d).rid ∧ ValidP t (childPtr (t.sub p).erase p d) := by
  unfold childPtr
  rw [INode.erase_child]
  by_cases hc : (t.sub p).child d = .nil
  · rw [if_pos ((INode.erase_isNil _).2 hc), hc]; exact ⟨rfl, trivial⟩
  · have : ¬ ((t.sub p).child d).erase.isNil = true := fun e => hc ((INode.erase_isNil _).1 e)
    rw [if_neg this]
    simp only [idAt, ValidP, INode.sub_snoc]
    exact ⟨by triv, hc⟩

theorem idAt_parent {h : Heap} (t : INode) (hr : Rep h t 0) (p : Path) (id c : Nat) (d : Option Entry) (l m r : INode)
    (hs : t.sub p = .node id c d l m r) :
    h.get id = PNode.mk c d (idAt t (parentPtr p)) l.rid m.rid r.rid := by
  rw [Rep.record_at p t 0 id c d l m r hr hs]
  unfold parentPtr
  by_cases hp : p = [] <;> simp [hp, idAt]

/-- one turn of the `while (node)` loop: the id cascade at the record of the node at path `p` is the path
cascade -/
theorem iterStep_corr {h : Heap} (t : INode) (hr : Rep h t 0) (hnd : t.ids.Nodup) (p : Path) (prev : Option Path)
    (hprev : ValidP t prev) (hp : t.sub p ≠ .nil) :
    iterStep (h.get (t.sub p).rid) (idAt t prev) =
      (idAt t (TST.iterStep (t.sub p).erase p prev).1, (TST.iterStep (t.sub p).erase p prev).2) ∧
    ValidP t (TST.iterStep (t.sub p).erase p prev).1 ∧
    (h.get (t.sub p).rid).parent = idAt t (parentPtr p) ∧ (h.get (t.sub p).rid).data = (t.sub p).data? := by
  have hz := hr.ids_ne
  cases hs : t.sub p with
  | nil => exact absurd hs hp
  | node id c d l m r =>
    have hrec := idAt_parent t hr p id c d l m r hs
    have cl := idAt_child t p .L
    have cm := idAt_child t p .M
    have cr := idAt_child t p .R
    rw [hs] at cl cm cr
    simp only [INode.child] at cl cm cr
    have := cascade_corr t hnd hz prev (parentPtr p) _ _ _ hprev (validP_parent t p hp) cl.2 cm.2 cr.2 c d
    rw [cl.1, cm.1, cr.1] at this
    simp only [INode.rid_node, hrec]
    exact ⟨this.1, this.2, by triv, by triv⟩

/-! ### the `while (node)` loop, `iter_next`, `iter_init` -/

@[simp] theorem idAt_some (t : INode) (p : Path) : idAt t (some p) = (t.sub p).rid := rfl
@[simp] theorem idAt_none (t : INode) : idAt t none = 0 := rfl

/-- the pointer iterator an iterator over paths stands for -/
def absIt (t : INode) (it : Iter) : PIter :=
  { cur := idAt t it.cur, next := idAt t it.next, adv := it.adv, nextStat := it.nextStat }

/-- both iterator pointers are NULL or address existing nodes -/
def ValidIt (t : INode) (it : Iter) : Prop := ValidP t it.cur ∧ ValidP t it.next

/-- the loop over ids is the loop over paths, turn by turn (same fuel) -/
theorem iterLoop_corr {h : Heap} (t : INode) (hr : Rep h t 0) (hnd : t.ids.Nodup) (it : Iter) :
    ∀ (f : Nat) (node prev : Option Path) (mem : Mem), ValidP t node → ValidP t prev →
      iterLoop h (absIt t it) f (idAt t node) (idAt t prev) =
        ((TST.iterLoop t.erase it f node prev mem).st,
         (if (TST.iterLoop t.erase it f node prev mem).st = .ok then idAt t (TST.iterLoop t.erase it f node prev mem).it.cur else 0),
         absIt t (TST.iterLoop t.erase it f node prev mem).it) ∧
      ValidIt t (TST.iterLoop t.erase it f node prev mem).it ∧
      ((TST.iterLoop t.erase it f node prev mem).st = .ok →
        (TST.iterLoop t.erase it f node prev mem).out =
          (h.get (idAt t (TST.iterLoop t.erase it f node prev mem).it.cur)).data) := by
  have hz := hr.ids_ne
  intro f
  induction f with
  | zero =>
    intro node prev mem _ _
    cases node <;> simp only [TST.iterLoop, iterLoop] <;>
      exact ⟨by triv, ⟨trivial, trivial⟩, by intro e; cases e⟩
  | succ f ih =>
    intro node prev mem hnode hprev
    cases node with
    | none =>
      simp only [TST.iterLoop, iterLoop, idAt_none, if_true]
      exact ⟨by triv, ⟨trivial, trivial⟩, by intro e; cases e⟩
    | some p =>
      have hp : t.sub p ≠ .nil := hnode
      have hid : (t.sub p).rid ≠ 0 := hz _ (INode.rid_sub_mem t p hp)
      obtain ⟨hstep, hval, hpar, hdat⟩ := iterStep_corr t hr hnd p prev hprev hp
      have hinj := idAt_inj t hnd hz prev (parentPtr p) hprev (validP_parent t p hp)
      cases hs : t.sub p with
      | nil => exact absurd hs hp
      | node id c d l m r =>
        have hes : t.erase.sub p = .node c d l.erase m.erase r.erase := by rw [← INode.erase_sub, hs]; rfl
        rw [hs] at hstep hval hpar hdat hid
        simp only [INode.erase_node, INode.rid_node, INode.data?] at hstep hval hpar hdat hid
        simp only [TST.iterLoop, iterLoop, idAt_some, hs, INode.rid_node, hid, if_false, hes, hstep, hdat, hpar]
        by_cases hy : d.isSome = true ∧ prev = parentPtr p
        · have hy' : d.isSome = true ∧ idAt t prev = idAt t (parentPtr p) := ⟨hy.1, hinj.2 hy.2⟩
          have hb : (d.isSome && prev == parentPtr p) = true := by simp [hy.1, hy.2]
          rw [if_pos hy', hb]
          simp only [if_true]
          refine ⟨?_, ⟨hp, ?_⟩, ?_⟩
          · simp only [absIt, idAt_some, hs, INode.rid_node]
            by_cases he : (TST.iterStep (Node.node c d l.erase m.erase r.erase) p prev).2 = true
            · simp [he]
            · simp [he]
          · by_cases he : (TST.iterStep (Node.node c d l.erase m.erase r.erase) p prev).2 = true
            · simp only [he, if_true]; trivial
            · simp only [he]; exact hval
          · intro _; simp only [idAt_some, hs, INode.rid_node, hdat]
        · have hy' : ¬ (d.isSome = true ∧ idAt t prev = idAt t (parentPtr p)) := fun e => hy ⟨e.1, hinj.1 e.2⟩
          have hb : (d.isSome && prev == parentPtr p) = false := by
            rcases Bool.eq_false_or_eq_true (d.isSome && prev == parentPtr p) with e | e
            · exfalso; simp only [Bool.and_eq_true, beq_iff_eq] at e; exact hy e
            · exact e
          rw [if_neg hy', hb]
          simp only [Bool.false_eq_true, if_false]
          by_cases he : (TST.iterStep (Node.node c d l.erase m.erase r.erase) p prev).2 = true
          · simp only [he, if_true]
            exact ⟨by triv, ⟨trivial, trivial⟩, by intro e; cases e⟩
          · simp only [he, if_false]
            have := ih (TST.iterStep (Node.node c d l.erase m.erase r.erase) p prev).1 (some p) mem hval hp
            simp only [idAt_some, hs, INode.rid_node] at this
            exact this

/-- `iterLoop_at` of `Proofs/TSTIter.lean` for any fuel above the bound: the C loop has no fuel, the
pointer model runs it with `2·fresh + 2` -/
theorem iterLoop_at_fuel (root : Node) (it : Iter) (mem : Mem) (todo : List (Path × Entry)) (h : IterAt root it todo)
    (F : Nat) (hF : iterFuel root ≤ F) :
    TST.iterLoop root it F it.next it.cur mem = resOf root it mem todo (endRes it mem) := by
  cases h with
  | init h1 h2 =>
    rw [h1, h2]
    cases hr : root with
    | nil => simp [Node.isNil, iterLoop_none, Node.entriesP, resOf]
    | node c dd l m r =>
      rw [← hr]
      have hnn : root ≠ .nil := by rw [hr]; simp
      have hnil : root.isNil = false := by rw [hr]; rfl
      have hF' : 2 * root.nodes + 2 ≤ F := hF
      have := loop_down root it mem root [] rfl hnn (F - (2 * root.nodes - 1))
      simp only [hnil, Bool.false_eq_true, if_false]
      rw [show F = (F - (2 * root.nodes - 1)) + (2 * (root.sub []).nodes - 1) by
        simp only [Node.sub]; omega]
      rw [show (none : Option Path) = parentPtr [] from rfl, this, entriesAt_root, parentPtr_nil, iterLoop_none]
  | «at» rq h0 h1 h2 =>
    rw [h1, h2]
    cases hn : root.sub rq.reverse with
    | nil => exact absurd hn h0
    | node c dd l m r =>
      have hb := resumeMu_bound root rq h0
      have := loop_resume root it mem rq c dd l m r hn (F - resumeMu root rq)
      rw [show F - resumeMu root rq + resumeMu root rq = F by
        unfold iterFuel at hF; omega] at this
      exact this
  | done h0 h => rw [h, iterLoop_none]; rfl

theorem INode.sub_ne_nil_of_erase (t : INode) (p : Path) (h : t.erase.sub p ≠ .nil) : t.sub p ≠ .nil := by
  intro e; rw [← INode.erase_sub, e] at h; exact h rfl

/-- **`iter_init`**: the pointer iterator starts where the path iterator starts -/
theorem iterInit_corr {st : PT} {t : INode} (hR : Represents st t) (sz : Nat) (tr : Triple) :
    iterInit st = absIt t (TST.iterInit ⟨sz, t.erase, tr⟩) ∧ ValidIt t (TST.iterInit ⟨sz, t.erase, tr⟩) := by
  simp only [iterInit, TST.iterInit, absIt, hR.root]
  cases t with
  | nil => exact ⟨by triv, trivial, trivial⟩
  | node id c d l m r =>
    refine ⟨by triv, trivial, ?_⟩
    simp only [INode.erase_node, Node.isNil, Bool.false_eq_true, if_false, ValidP]
    intro e; cases e

/-- **`iter_next`** on pointers is `iter_next` on paths: same status, the node handed out is the node at the
yielded path (and its record carries the yielded entry), the new `current_node` / `next_node` pointers
are the ids of the new paths -/
theorem iterNext_corr {st : PT} {t : INode} (hR : Represents st t) (sz : Nat) (tr : Triple) (it : Iter)
    (todo : List (Path × Entry)) (hok : IterOk t.erase it todo) (hv : ValidIt t it) (mem : Mem) :
    iterNext st (absIt t it) =
      ((TST.iterNext ⟨sz, t.erase, tr⟩ it mem).st,
       (if (TST.iterNext ⟨sz, t.erase, tr⟩ it mem).st = .ok then idAt t (TST.iterNext ⟨sz, t.erase, tr⟩ it mem).it.cur else 0),
       absIt t (TST.iterNext ⟨sz, t.erase, tr⟩ it mem).it) ∧
    ValidIt t (TST.iterNext ⟨sz, t.erase, tr⟩ it mem).it ∧
    ((TST.iterNext ⟨sz, t.erase, tr⟩ it mem).st = .ok →
      (TST.iterNext ⟨sz, t.erase, tr⟩ it mem).out =
        (st.heap.get (idAt t (TST.iterNext ⟨sz, t.erase, tr⟩ it mem).it.cur)).data) := by
  rcases hok with ⟨hadv, hat⟩ | ⟨hadv, hm⟩
  · have hF : iterFuel t.erase ≤ 2 * st.fresh + 2 := by
      have := hR.count; rw [← INode.erase_nodes] at this; unfold iterFuel; omega
    have e1 : TST.iterNext ⟨sz, t.erase, tr⟩ it mem =
        TST.iterLoop t.erase it (2 * st.fresh + 2) it.next it.cur mem := by
      rw [iterNext_at _ it mem todo hat hadv, iterLoop_at_fuel t.erase it mem todo hat _ hF]
    rw [e1]
    have := iterLoop_corr t hR.rep hR.nodup it (2 * st.fresh + 2) it.next it.cur mem hv.2 hv.1
    unfold iterNext
    rw [if_neg (by simp [absIt, hadv])]
    exact this
  · cases todo with
    | nil =>
      obtain ⟨h1, h2, h3⟩ := hm
      have e : TST.iterNext ⟨sz, t.erase, tr⟩ it mem = ⟨.iterEnd, none, { it with adv := false }, mem⟩ := by
        simp [TST.iterNext, hadv, h1]
      rw [e]
      simp only [iterNext, absIt, hadv, if_true, h1]
      exact ⟨by triv, hv, by intro e; cases e⟩
    | cons x tl =>
      obtain ⟨h1, h2, h3, h4⟩ := hm
      have hnn : (t.erase.sub x.1).isNil = false := by
        cases hs : t.erase.sub x.1 with
        | nil => rw [hs] at h2; simp [Node.data?] at h2
        | node _ _ _ _ _ => rfl
      have e : TST.iterNext ⟨sz, t.erase, tr⟩ it mem = ⟨.ok, some x.2, { it with adv := false }, mem⟩ := by
        simp [TST.iterNext, hadv, h1, h3, hnn, h2]
      rw [e]
      simp only [iterNext, absIt, hadv, if_true, h1, h3, idAt_some]
      refine ⟨by triv, ⟨by show ValidP t (some x.1); rw [← h3]; exact hv.1, hv.2⟩, ?_⟩
      intro _
      have hp : t.sub x.1 ≠ .nil := by
        apply INode.sub_ne_nil_of_erase; intro e'; rw [e'] at hnn; simp [Node.isNil] at hnn
      have := (iterStep_corr t hR.rep hR.nodup x.1 none trivial hp).2.2.2
      rw [this, ← INode.erase_data, INode.erase_sub, h2]

/-! ### surviving nodes keep their address and their id -/

theorem INode.sub_setDataI_rid (t : INode) (i : Nat) (e : Option Entry) : ∀ (q : Path),
    ((t.setDataI i e).sub q).rid = (t.sub q).rid ∧ ((t.setDataI i e).sub q = .nil ↔ t.sub q = .nil) := by
  induction t with
  | nil => intro q; simp [INode.setDataI]
  | node id c d l m r ihl ihm ihr =>
    intro q
    simp only [INode.setDataI]
    by_cases hi : id = i
    · simp only [hi, if_true]
      cases q with
      | nil => simp [INode.sub]
      | cons dir q => cases dir <;> simp [INode.sub]
    · simp only [hi, if_false]
      cases q with
      | nil => simp [INode.sub]
      | cons dir q =>
        cases dir <;> simp only [INode.sub]
        · exact ihl q
        · exact ihm q
        · exact ihr q

/-- a node that is still there after the pruning loop has the id it had before -/
theorem pruneI_sub_rid : ∀ (s : INode) (p q : Path), (pruneI s p).1.sub q ≠ .nil →
    ((pruneI s p).1.sub q).rid = (s.sub q).rid := by
  intro s
  induction s with
  | nil => intro p q h; simp [pruneI, INode.sub_nil_path] at h
  | node id c d l m r ihl ihm ihr =>
    intro p q h
    cases p with
    | nil =>
      simp only [pruneI] at h ⊢
      split
      · rename_i hc; rw [if_pos hc] at h; simp [INode.sub_nil_path] at h
      · rfl
    | cons dir p =>
      cases dir <;> simp only [pruneI] at h ⊢ <;> split
      · rename_i hc; rw [if_pos hc] at h; simp [INode.sub_nil_path] at h
      · rename_i hc; rw [if_neg hc] at h
        cases q with
        | nil => rfl
        | cons dq q => cases dq <;> simp only [INode.sub] at h ⊢; exact ihl p q h
      · rename_i hc; rw [if_pos hc] at h; simp [INode.sub_nil_path] at h
      · rename_i hc; rw [if_neg hc] at h
        cases q with
        | nil => rfl
        | cons dq q => cases dq <;> simp only [INode.sub] at h ⊢; exact ihm p q h
      · rename_i hc; rw [if_pos hc] at h; simp [INode.sub_nil_path] at h
      · rename_i hc; rw [if_neg hc] at h
        cases q with
        | nil => rfl
        | cons dq q => cases dq <;> simp only [INode.sub] at h ⊢; exact ihr p q h

theorem idAt_after_remove (t : INode) (x : Nat) (p : Path) (a : Option Path)
    (hv : ValidP (pruneI (t.setDataI x none) p).1 a) :
    idAt (pruneI (t.setDataI x none) p).1 a = idAt t a := by
  cases a with
  | none => rfl
  | some q =>
    simp only [idAt_some]
    rw [pruneI_sub_rid _ p q hv, (INode.sub_setDataI_rid t x none q).1]

/-! ### the iterator invariant of `Proofs/TSTIter.lean` implies that the pointers are not dangling -/

theorem nxt_valid {h : Heap} (t : INode) (hr : Rep h t 0) (hnd : t.ids.Nodup) (q : Path) (hq : t.sub q ≠ .nil) :
    ValidP t (nxt t.erase q) := by
  unfold nxt
  rw [← INode.erase_sub]
  split
  · trivial
  · exact (iterStep_corr t hr hnd q (parentPtr q) (validP_parent t q hq) hq).2.1

theorem iterAt_valid {h : Heap} (t : INode) (hr : Rep h t 0) (hnd : t.ids.Nodup) (it : Iter)
    (todo : List (Path × Entry)) (hat : IterAt t.erase it todo) : ValidIt t it := by
  cases hat with
  | init h1 h2 =>
    refine ⟨by rw [h1]; trivial, ?_⟩
    rw [h2]; split
    · trivial
    · rename_i hn; intro e; apply hn; rw [INode.erase_isNil]; exact e
  | «at» rq h0 h1 h2 =>
    have hq := INode.sub_ne_nil_of_erase t _ h0
    refine ⟨by rw [h1]; exact hq, ?_⟩
    rw [h2]; exact nxt_valid t hr hnd _ hq
  | done h0 h1 => exact ⟨by rw [h0]; trivial, by rw [h1]; trivial⟩

theorem iterOk_valid {h : Heap} (t : INode) (hr : Rep h t 0) (hnd : t.ids.Nodup) (it : Iter)
    (todo : List (Path × Entry)) (hok : IterOk t.erase it todo) : ValidIt t it := by
  rcases hok with ⟨_, hat⟩ | ⟨_, hm⟩
  · exact iterAt_valid t hr hnd it todo hat
  · cases todo with
    | nil => obtain ⟨_, h2, h3⟩ := hm; exact ⟨by rw [h2]; trivial, by rw [h3]; trivial⟩
    | cons x tl =>
      obtain ⟨_, h2, h3, h4⟩ := hm
      have := iterAt_valid t hr hnd _ tl h4
      refine ⟨?_, this.2⟩
      rw [h3]
      apply INode.sub_ne_nil_of_erase
      intro e; rw [e] at h2; simp [Node.data?] at h2

/-! ### `iter_remove` -/

/-- **`iter_remove`** on pointers is `iter_remove` on paths: the heap afterwards holds the pruned trie (the
target node's empty ancestors freed through `parent`), and the saved `current_node` / `next_node` pointers
— computed by `iter_next` *before* the unlinking — address exactly the nodes the path iterator stands at in
the pruned trie; they are not dangling -/
theorem iterRemove_corr {st : PT} {t : INode} (hR : Represents st t) (sz : Nat) (tr : Triple) (it : Iter)
    (w : Bool) (mem : Mem) (todo : List (Path × Entry)) (p : Path) (e : Entry)
    (hat : IterAt t.erase it todo) (hadv : it.adv = false) (hcur : it.cur = some p)
    (hd : (t.erase.sub p).data? = some e) :
    Represents (iterRemove st (absIt t it)).1 (pruneI (t.setDataI (t.sub p).rid none) p).1 ∧
      (TST.iterRemove ⟨sz, t.erase, tr⟩ it w mem).2.2.1 =
        ⟨decSize sz, (pruneI (t.setDataI (t.sub p).rid none) p).1.erase, tr⟩ ∧
      (iterRemove st (absIt t it)).2 =
        absIt (pruneI (t.setDataI (t.sub p).rid none) p).1 (TST.iterRemove ⟨sz, t.erase, tr⟩ it w mem).2.2.2.1 ∧
      IterOk (pruneI (t.setDataI (t.sub p).rid none) p).1.erase (TST.iterRemove ⟨sz, t.erase, tr⟩ it w mem).2.2.2.1 todo ∧
      ValidIt (pruneI (t.setDataI (t.sub p).rid none) p).1 (TST.iterRemove ⟨sz, t.erase, tr⟩ it w mem).2.2.2.1 ∧
      (iterRemove st (absIt t it)).1.size = decSize st.size ∧
      (iterRemove st (absIt t it)).1.freed = (pruneI (t.setDataI (t.sub p).rid none) p).2.2 := by
  have hdI : (t.sub p).data? = some e := by rw [← INode.erase_data, INode.erase_sub]; exact hd
  obtain ⟨x, c, l, m, r, hsub⟩ : ∃ x c l m r, t.sub p = .node x c (some e) l m r := by
    cases hh : t.sub p with
    | nil => rw [hh] at hdI; simp [INode.data?] at hdI
    | node id c d l m r =>
      rw [hh] at hdI; simp only [INode.data?] at hdI
      subst hdI; exact ⟨id, c, l, m, r, rfl⟩
  have hx0 : x ≠ 0 := by
    have := hR.rep.ids_ne x (by have := INode.rid_sub_mem t p (by rw [hsub]; simp); rwa [hsub] at this)
    exact this
  -- the table with the `freed` log cleared
  have hR0 : Represents { st with freed := [] } t := ⟨hR.root, hR.rep, hR.nodup, hR.fresh, hR.count, hR.dom⟩
  obtain ⟨r1, r2, r3, r4⟩ := removeEow_represents hR0 p x c e l m r hsub
  obtain ⟨e1, _⟩ := erase_pruneI tr t p mem e hR.nodup hdI
  rw [hsub, INode.rid_node] at e1
  -- the path level
  obtain ⟨_, _, k3, _, _, k6⟩ := iterRemove_ok ⟨sz, t.erase, tr⟩ it w mem todo p e hat hadv hcur hd
  simp only [] at k3 k6
  rw [← e1] at k6
  have hval' := iterOk_valid _ r1.rep r1.nodup _ todo k6
  -- `iter_next` inside
  have hv := iterAt_valid t hR.rep hR.nodup it todo hat
  have hnx := (iterNext_corr hR0 sz tr it todo (Or.inl ⟨hadv, hat⟩) hv
    (if w = true then mem.check ((t.erase.sub p).data?).isSome else mem)).1
  -- unfold the pointer version
  have hcurI : (absIt t it).cur = x := by simp [absIt, hcur, hsub]
  have hitR : (TST.iterRemove ⟨sz, t.erase, tr⟩ it w mem).2.2.2.1 =
      { (TST.iterNext ⟨sz, t.erase, tr⟩ it (if w = true then mem.check ((t.erase.sub p).data?).isSome else mem)).it with
        adv := true,
        nextStat := (TST.iterNext ⟨sz, t.erase, tr⟩ it (if w = true then mem.check ((t.erase.sub p).data?).isSome else mem)).st } := by
    unfold TST.iterRemove
    simp only [hcur, hadv, Bool.false_eq_true, if_false]
  have hP : iterRemove st (absIt t it) =
      ({ removeEow { st with freed := [] } x with size := decSize (removeEow { st with freed := [] } x).size },
       { (iterNext { st with freed := [] } (absIt t it)).2.2 with
           adv := true, nextStat := (iterNext { st with freed := [] } (absIt t it)).1 }) := by
    unfold iterRemove
    have : ¬ ((absIt t it).cur = 0 ∨ (absIt t it).adv = true) := by
      rw [hcurI]; simp [absIt, hadv, hx0]
    have this' : ¬ (x = 0 ∨ (absIt t it).adv = true) := by rw [← hcurI]; exact this
    simp only [hcurI, this', if_false]
  rw [hP, hsub, INode.rid_node]
  refine ⟨⟨r1.root, r1.rep, r1.nodup, r1.fresh, r1.count, r1.dom⟩, ?_, ?_, k6, hval', ?_, ?_⟩
  · rw [k3, e1]
  · rw [hitR] at hval' ⊢
    rw [hnx]
    simp only [absIt]
    obtain ⟨v1, v2⟩ := hval'
    rw [idAt_after_remove t x p _ v1, idAt_after_remove t x p _ v2]
  · show decSize (removeEow { st with freed := [] } x).size = decSize st.size
    rw [r3]
  · show (removeEow { st with freed := [] } x).freed = _
    rw [r2]; rfl

end CC.PTST
