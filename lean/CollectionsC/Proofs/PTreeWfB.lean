import CollectionsC.Proofs.PTreeWF
set_option linter.unusedSimpArgs false
set_option linter.unusedVariables false
namespace CC.PTree
open CC
open CC.Tree (Path Dir)

/-- the id-annotated tree read off the heap (the witness of `wfB_sound`) -/
def toITreeF (h : Heap) : Nat → Nat → ITree
  | 0, _ => .nil
  | f + 1, n =>
    if n = S then .nil
    else .node n (h.get n).color (toITreeF h f (h.get n).left) (h.get n).key (h.get n).value
      (toITreeF h f (h.get n).right)

theorem walkB_sound (h : Heap) (f i p : Nat) (ids : List Nat) (hw : walkB h f i p = some ids) :
    Rep h (toITreeF h f i) p ∧ (toITreeF h f i).rid = i ∧ (toITreeF h f i).ids = ids := by
  induction f generalizing i p ids with
  | zero =>
    simp only [walkB] at hw
    split at hw
    · rename_i e; cases hw; subst e; exact ⟨trivial, rfl, rfl⟩
    · cases hw
  | succ f ih =>
    simp only [walkB] at hw
    by_cases e : i = S
    · subst e; simp at hw; subst hw; simp [toITreeF, Rep]
    · simp only [e, if_false] at hw
      by_cases hp : (h.get i).parent = p
      · simp only [hp, ne_eq, not_true_eq_false, if_false] at hw
        cases hl : walkB h f (h.get i).left i with
        | none => rw [hl] at hw; simp at hw
        | some l =>
          cases hr : walkB h f (h.get i).right i with
          | none => rw [hl, hr] at hw; simp at hw
          | some r =>
            rw [hl, hr] at hw
            simp only [Option.some.injEq] at hw
            obtain ⟨l1, l2, l3⟩ := ih _ _ _ hl
            obtain ⟨r1, r2, r3⟩ := ih _ _ _ hr
            simp only [toITreeF, e, if_false]
            refine ⟨⟨e, ?_, l1, r1⟩, rfl, by simp [l3, r3, hw]⟩
            rw [l2, r2, ← hp]
      · simp [hp] at hw

theorem strictAsc_pairwise : ∀ (l : List Nat), strictAsc l = true → l.Pairwise (· < ·)
  | [], _ => List.Pairwise.nil
  | [a], _ => List.pairwise_singleton _ _
  | a :: b :: l, h => by
    simp only [strictAsc, Bool.and_eq_true, decide_eq_true_eq] at h
    have ih := strictAsc_pairwise (b :: l) h.2
    refine List.pairwise_cons.2 ⟨?_, ih⟩
    intro x hx
    rcases List.mem_cons.1 hx with e | e
    · rw [e]; exact h.1
    · exact Nat.lt_trans h.1 ((List.pairwise_cons.1 ih).1 x e)

theorem nodupB_sound (l : List Nat) (h : nodupB l = true) : l.Nodup := by
  have hp := strictAsc_pairwise _ h
  have hn : (l.mergeSort (fun a b => decide (a ≤ b))).Nodup := hp.imp (fun hlt => Nat.ne_of_lt hlt)
  exact (List.Perm.nodup_iff (List.mergeSort_perm l _)).1 hn

/-- **the driver's check is sound**: a state that passes `wfB` is well-formed — its heap represents the
tree read off it, parent pointers, sentinel fields, `size` and allocation serial included -/
theorem wfB_sound (st : PT) (hw : wfB st = true) :
    Represents st (toITreeF st.heap (st.size + 1) st.root) := by
  unfold wfB at hw
  cases hwk : walkB st.heap (st.size + 1) st.root S with
  | none => rw [hwk] at hw; simp at hw
  | some ids =>
    rw [hwk] at hw
    simp only [Bool.and_eq_true, decide_eq_true_eq, beq_iff_eq, List.all_eq_true] at hw
    obtain ⟨⟨⟨⟨⟨⟨⟨⟨⟨⟨h1, h2⟩, h3⟩, h4⟩, h5⟩, h6⟩, h7⟩, h8⟩, h9⟩, _⟩, _⟩ := hw
    obtain ⟨r1, r2, r3⟩ := walkB_sound _ _ _ _ _ hwk
    exact ⟨r2.symm, r1, by rw [r3]; exact nodupB_sound _ h1, h5, ⟨h6, h7, h8, h9⟩, by rw [r3, h2],
      fun i hi => h3 i (by rw [← r3]; exact hi), h4⟩
end CC.PTree
