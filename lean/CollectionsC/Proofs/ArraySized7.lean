import CollectionsC.Proofs.ArraySized6
/-! Sized array, part 7: exactly when a call reports `CC_ERR_ALLOC` (C08 `refused_iff`), histories
continue after a refused call as if it had not happened, whole-life ledger (C06), the number of
re-allocations of `n` appends (C20), iterator programs (C07), sort on ≤ 1 element (C18). -/
namespace CC.ArraySized
open CC CC.Gen

/-! ### exactly when the status is CC_ERR_ALLOC -/
/-- `add` reports `CC_ERR_ALLOC` exactly when it had to ask the allocator (array full, not at the
size limit) and the allocator refused -/
theorem add_refused_iff (a : ArraySized) (e : Buf Nat) (m : Mem) (h : a.Inv) (he : e.length = a.dataLen) :
    (a.add e m).1 = .errAlloc ↔ (a.size = a.capacity ∧ ¬ a.AtLimit ∧ (m.allocT a.triple).1 = false) := by
  rcases add_spec a e m h he with ⟨h1, _, _, _, _, _, _, h8⟩ | ⟨h1, _, _, h4, h5, h6, h7⟩
  · constructor
    · intro hh; rw [h1] at hh; cases hh
    · rintro ⟨q1, _, q3⟩; have := (h8 q1).1; rw [q3] at this; cases this
  · constructor
    · intro hh; exact ⟨h4, h7 hh, h5 hh⟩
    · rintro ⟨_, q2, _⟩
      rcases h1 with h1 | h1
      · exact h1
      · exact absurd (h6 h1) q2

theorem addAt_refused_iff (a : ArraySized) (e : Buf Nat) (i : Nat) (m : Mem) (h : a.Inv) (he : e.length = a.dataLen) :
    (a.addAt e i m).1 = .errAlloc ↔ (i ≤ a.size ∧ a.size = a.capacity ∧ ¬ a.AtLimit ∧ (m.allocT a.triple).1 = false) := by
  by_cases hi : i ≤ a.size
  · rcases addAt_spec a e i m h he hi with ⟨h1, _, _, _, _, _, _, h8⟩ | ⟨h1, _, _, h4, h5, h6, h7⟩
    · constructor
      · intro hh; rw [h1] at hh; cases hh
      · rintro ⟨_, q1, _, q3⟩; have := (h8 q1).1; rw [q3] at this; cases this
    · constructor
      · intro hh; exact ⟨hi, h4, h7 hh, h5 hh⟩
      · rintro ⟨_, _, q2, _⟩
        rcases h1 with h1 | h1
        · exact h1
        · exact absurd (h6 h1) q2
  · rw [addAt_inert a e i m (by omega)]
    constructor
    · intro hh; cases hh
    · rintro ⟨q, _⟩; exact absurd q hi

theorem trim_refused_iff (a : ArraySized) (m : Mem) :
    (a.trimCapacity m).1 = .errAlloc ↔ (a.size ≠ a.capacity ∧ max a.size 1 ≠ a.capacity ∧ (m.allocT a.triple).1 = false) := by
  unfold trimCapacity
  by_cases h1 : a.size = a.capacity
  · rw [if_pos h1]; constructor
    · intro hh; cases hh
    · rintro ⟨q, _⟩; exact absurd h1 q
  · rw [if_neg h1]
    dsimp only
    have hmax : (if a.size < 1 then 1 else a.size) = max a.size 1 := by split <;> omega
    rw [hmax]
    by_cases h2 : max a.size 1 = a.capacity
    · rw [if_pos h2]; constructor
      · intro hh; cases hh
      · rintro ⟨_, q, _⟩; exact absurd h2 q
    · rw [if_neg h2]
      cases hal : (m.allocT a.triple).1
      · simp [h1, h2]
      · simp

/-- both allocator calls of a builder or constructor on triple `t` are granted -/
def alloc2ok (m : Mem) (t : Triple) : Bool := (m.allocT t).1 && ((m.allocT t).2.allocT t).1

theorem copy_refused_iff (a : ArraySized) (m : Mem) : (a.copy m).1 = .errAlloc ↔ alloc2ok m a.triple = false := by
  unfold copy alloc2ok
  dsimp only
  cases h1 : (m.allocT a.triple).1
  · simp
  · cases h2 : ((m.allocT a.triple).2.allocT a.triple).1 <;> simp

theorem subarray_refused_iff (a : ArraySized) (b e : Nat) (m : Mem) :
    (a.subarray b e m).1 = .errAlloc ↔ (b ≤ e ∧ e < a.size ∧ alloc2ok m a.triple = false) := by
  unfold subarray alloc2ok
  by_cases hr : b ≤ e ∧ e < a.size
  · have : (decide (b > e) || decide (e ≥ a.size)) = false := by simp; omega
    rw [this]
    simp only [Bool.false_eq_true, if_false]
    cases h1 : (m.allocT a.triple).1
    · simp [hr]
    · cases h2 : ((m.allocT a.triple).2.allocT a.triple).1 <;> simp [hr]
  · have : (decide (b > e) || decide (e ≥ a.size)) = true := by simp; omega
    rw [this]
    simp only [if_true]
    constructor
    · intro hh; cases hh
    · rintro ⟨q1, q2, _⟩; exact absurd ⟨q1, q2⟩ hr

theorem filter_refused_iff (a : ArraySized) (p : List Nat → Bool) (m : Mem) :
    (a.filter p m).1 = .errAlloc ↔ (0 < a.size ∧ alloc2ok m a.triple = false) := by
  unfold filter alloc2ok
  by_cases h0 : a.size = 0
  · rw [if_pos h0]; constructor
    · intro hh; cases hh
    · rintro ⟨q, _⟩; omega
  · rw [if_neg h0]
    dsimp only
    have hp : 0 < a.size := by omega
    cases h1 : (m.allocT a.triple).1
    · simp [hp]
    · cases h2 : ((m.allocT a.triple).2.allocT a.triple).1 <;> simp [hp]

theorem new_refused_iff (dl cap : Nat) (grow : Nat → Nat) (exGe : Nat → Bool) (m : Mem) (t : Triple) :
    (ArraySized.new dl cap grow exGe m t).1 = .errAlloc ↔
      ((ArraySized.new dl cap grow exGe m t).1 ≠ .errInvalidCapacity ∧ alloc2ok m t = false) := by
  by_cases hne : (ArraySized.new dl cap grow exGe m t).1 = .errInvalidCapacity
  · rw [hne]; simp
  · rw [new_eq dl cap grow exGe m t hne]
    unfold alloc2ok
    cases h1 : (m.allocT t).1
    · simp
    · cases h2 : ((m.allocT t).2.allocT t).1 <;> simp

/-- a container on the C library allocator is never refused -/
theorem alloc2ok_libc (m : Mem) : alloc2ok m .libc = true := rfl

/-! ### a history continues after a refused call as if it had not happened -/
theorem run_append (xs ys : List (Spec.SSeq.Op Elem)) : ∀ (a : ArraySized) (m : Mem),
    a.run (xs ++ ys) m =
      ((a.run xs m).1 ++ ((a.run xs m).2.1.run ys (a.run xs m).2.2).1,
       ((a.run xs m).2.1.run ys (a.run xs m).2.2).2.1, ((a.run xs m).2.1.run ys (a.run xs m).2.2).2.2) := by
  induction xs with
  | nil => intro a m; simp [run]
  | cons x xs ih => intro a m; simp only [List.cons_append, run]; rw [ih]

/-- `ops₁ ++ [refused op] ++ ops₂` behaves like `ops₁ ++ ops₂`: after the prefix, a call that is
refused (allocator or size limit) returns its error and leaves the physical state as it was, and the
rest of the history yields the same outputs and the same final state as it does without the
refused call on any ledger with the same remaining schedule -/
theorem run_continue (ops1 ops2 : List (Spec.SSeq.Op Elem)) (op : Spec.SSeq.Op Elem) (a : ArraySized) (m m2 : Mem)
    (h : a.Inv) (hw : ∀ o ∈ ops1 ++ op :: ops2, OpWF a.dataLen o)
    (href : (a.run ops1 m).2.1.refusal op (a.run ops1 m).2.2 ≠ none)
    (hs : m2.sched = ((a.run ops1 m).2.1.step op (a.run ops1 m).2.2).2.2.sched) :
    (a.run (ops1 ++ op :: ops2) m).1 =
      (a.run ops1 m).1 ++ ((a.run ops1 m).2.1.step op (a.run ops1 m).2.2).1 :: ((a.run ops1 m).2.1.run ops2 m2).1 ∧
    (a.run (ops1 ++ op :: ops2) m).2.1 = ((a.run ops1 m).2.1.run ops2 m2).2.1 := by
  obtain ⟨_, _, i1, _, d1, _⟩ := run_refines ops1 a m h (fun o ho => hw o (List.mem_append_left _ ho))
  rw [run_append]
  dsimp only
  simp only [run]
  generalize a.run ops1 m = r1 at *
  obtain ⟨o1, a1, m1⟩ := r1
  dsimp only at *
  have hwop : OpWF a1.dataLen op := by rw [d1]; exact hw op (by simp)
  have hw2 : ∀ o ∈ ops2, OpWF a1.dataLen o := by intro o ho; rw [d1]; exact hw o (by simp [ho])
  obtain ⟨_, _, _, _, _, _, s7, _⟩ := step_refines a1 op m1 i1 hwop
  have hsame := s7 href
  obtain ⟨q1, q2, _⟩ := run_indep ops2 a1 (a1.step op m1).2.2 m2 i1 hw2 hs.symm
  rw [hsame, q1, q2]
  exact ⟨rfl, rfl⟩

/-! ### whole life: new … any history … destroy -/
/-- every block the array allocated is released exactly once: construction (on either triple), any
history of well-formed calls under any refusal schedule, `destroy` — the live-block counter of the
array's triple is back where it started, nothing faulted, nothing touched the other allocator -/
theorem destroy_releases_all (dl cap : Nat) (grow : Nat → Nat) (exGe : Nat → Bool) (m0 m1 : Mem) (t : Triple)
    (a : ArraySized) (hnew : ArraySized.new dl cap grow exGe m0 t = (.ok, some a, m1))
    (ops : List (Spec.SSeq.Op Elem)) (hw : ∀ op ∈ ops, OpWF dl op) :
    own ((a.run ops m1).2.1.destroy (a.run ops m1).2.2) t = own m0 t ∧
    ((a.run ops m1).2.1.destroy (a.run ops m1).2.2).fault = m0.fault ∧
    Other t m0 ((a.run ops m1).2.1.destroy (a.run ops m1).2.2) := by
  obtain ⟨hinv, _, hd, _, _, hl, hf, _, _, hc, ht⟩ := new_ok dl cap grow exGe m0 m1 t a hnew
  obtain ⟨_, _, _, hcfg, _, hm⟩ := run_refines ops a m1 hinv (by rw [hd]; exact hw)
  have ht2 : (a.run ops m1).2.1.triple = t := by rw [← ht]; exact congrArg Prod.snd hcfg
  rw [ht] at hm
  have hd2 := destroy_ledger (a.run ops m1).2.1 (a.run ops m1).2.2 (by rw [ht2, hm.1, hl]; omega)
  rw [ht2] at hd2
  exact ⟨by rw [hd2.1, hm.1, hl]; omega, by rw [hd2.2.1, hm.2.1, hf], Other.trans hc (Other.trans hm.2.2 hd2.2.2)⟩

/-! ### sort on at most one element -/
theorem sort_le_one (a : ArraySized) (sortFn : List Elem → List Elem) (h : a.Inv)
    (hperm : ∀ l, (sortFn l).Perm l) (h1 : a.size ≤ 1) (m : Mem) : (a.sort sortFn m).1.abs = a.abs := by
  rw [(sort_spec a sortFn m h (hperm a.abs)).2.1]
  have hl := abs_length a
  have hp := hperm a.abs
  match hab : a.abs with
  | [] => rw [hab] at hp; exact List.Perm.eq_nil hp
  | [x] => rw [hab] at hp; exact List.perm_singleton.1 hp
  | x :: y :: t => rw [hab] at hl; simp at hl; omega

/-! ### re-allocations of n appends -/
theorem alloc_nalloc (m : Mem) (t : Triple) :
    cnt (m.allocT t).2 t = if (m.allocT t).1 then cnt m t + 1 else cnt m t := by
  cases t
  · simp only [Mem.allocT_conf, cnt]
    rcases hs : m.sched with _ | ⟨b, r⟩
    · simp [Mem.alloc, hs]
    · cases b <;> simp [Mem.alloc, hs]
  · rfl
theorem free_nalloc (m : Mem) (t : Triple) : cnt (m.freeT t) t = cnt m t := by
  cases t
  · simp only [Mem.freeT_conf, cnt]; unfold Mem.free; split <;> rfl
  · unfold Mem.freeT cnt; dsimp only; split <;> rfl
theorem check_nalloc (m : Mem) (b : Bool) (t : Triple) : cnt (m.check b) t = cnt m t := by cases b <;> rfl

/-- `expand_capacity` performs exactly one successful allocator call when it succeeds, none otherwise -/
theorem expandCapacity_nalloc (a : ArraySized) (m : Mem) :
    cnt (a.expandCapacity m).2.2 a.triple = if (a.expandCapacity m).1 = .ok then cnt m a.triple + 1 else cnt m a.triple := by
  unfold expandCapacity
  by_cases hc : a.capacity = CC_MAX_ELEMENTS
  · rw [if_pos hc]; simp
  · rw [if_neg hc]
    dsimp only
    by_cases hl : a.nextCapacity > CC_MAX_ELEMENTS / a.dataLen
    · rw [if_pos hl]; simp [check_nalloc]
    · rw [if_neg hl]
      have hq := alloc_nalloc (m.check (a.dataLen != 0)) a.triple
      cases hal : ((m.check (a.dataLen != 0)).allocT a.triple).1
      · rw [hal] at hq; simp [hq, check_nalloc]
      · rw [hal] at hq; simp [hq, check_nalloc, free_nalloc]

/-- what one `add` does to capacity, size and the allocation counter -/
theorem add_cases (a : ArraySized) (e : Buf Nat) (m : Mem) (h : a.Inv) (he : e.length = a.dataLen) :
    (a.add e m).2.1.Inv ∧ (a.add e m).2.1.cfg = a.cfg ∧ (a.add e m).2.1.dataLen = a.dataLen ∧
    ((cnt (a.add e m).2.2 a.triple = cnt m a.triple ∧ (a.add e m).2.1.capacity = a.capacity ∧ (a.add e m).2.1.size ≤ a.size + 1) ∨
     (cnt (a.add e m).2.2 a.triple = cnt m a.triple + 1 ∧ a.size = a.capacity ∧ (a.add e m).2.1.capacity = a.nextCapacity ∧
       (a.add e m).2.1.size = a.size + 1)) := by
  have hsz := h.2.2.1
  have hbase : (a.add e m).2.1.Inv ∧ (a.add e m).2.1.cfg = a.cfg ∧ (a.add e m).2.1.dataLen = a.dataLen ∧
      ((a.add e m).1 = .ok → (a.add e m).2.1.size = a.size + 1) ∧ ((a.add e m).1 ≠ .ok → (a.add e m).2.1 = a) := by
    rcases add_spec a e m h he with ⟨h1, h2, h3, h4, h5, _⟩ | ⟨h1, h2, _⟩
    · refine ⟨h2, h5, h4, fun _ => ?_, fun hh => absurd h1 hh⟩
      have := abs_length (a.add e m).2.1
      rw [h3] at this; simp [abs_length] at this; omega
    · refine ⟨by rw [h2]; exact h, by rw [h2], by rw [h2], fun hh => ?_, fun _ => h2⟩
      rcases h1 with h1 | h1 <;> rw [h1] at hh <;> cases hh
  obtain ⟨b1, b2, b3, b4, b5⟩ := hbase
  refine ⟨b1, b2, b3, ?_⟩
  have hcap : (a.add e m).2.1.capacity = (a.ensureRoom m).2.1.capacity ∧
      cnt (a.add e m).2.2 a.triple = cnt (a.ensureRoom m).2.2 a.triple ∧ ((a.add e m).1 = .ok ↔ (a.ensureRoom m).1 = .ok) := by
    rw [add_eq]
    split
    · rename_i hne; exact ⟨rfl, rfl, ⟨fun hh => hh, fun hh => hh⟩⟩
    · rename_i hne
      refine ⟨rfl, by simp [check_nalloc], ⟨fun _ => by simpa using hne, fun _ => rfl⟩⟩
  obtain ⟨c1, c2, c3⟩ := hcap
  by_cases hfull : a.size ≥ a.capacity
  · have er : a.ensureRoom m = a.expandCapacity m := by unfold ensureRoom; rw [if_pos hfull]
    rw [er] at c1 c2 c3
    have hn := expandCapacity_nalloc a m
    by_cases hok : (a.expandCapacity m).1 = .ok
    · right
      rw [if_pos hok] at hn
      rcases expandCapacity_spec a m h with ⟨_, _, _, _, _, _, _, _, _, _, hnext⟩ | ⟨q, _⟩ | ⟨q, _⟩
      · exact ⟨by rw [c2, hn], by omega, by rw [c1, hnext], b4 (c3.2 hok)⟩
      · rw [q] at hok; cases hok
      · rw [q] at hok; cases hok
    · left
      rw [if_neg hok] at hn
      have hne : (a.add e m).1 ≠ .ok := fun hh => hok (c3.1 hh)
      rw [b5 hne] at *
      exact ⟨by rw [c2, hn], rfl, by omega⟩
  · left
    have er : a.ensureRoom m = (.ok, a, m) := by unfold ensureRoom; rw [if_neg hfull]
    rw [er] at c1 c2 c3
    exact ⟨c2, c1, by rw [b4 (c3.2 rfl)]; omega⟩

theorem nextCapacity_doubling (a : ArraySized) (h : a.Inv) (hd : ∀ c, 2 * c ≤ a.grow c) :
    2 * a.capacity ≤ a.nextCapacity := by
  have := hd a.capacity
  have := h.2.1
  unfold nextCapacity
  dsimp only
  rw [if_neg (by omega)]
  omega

theorem addAll_doubling (xs : List (Buf Nat)) : ∀ (a : ArraySized) (m : Mem), a.Inv →
    (∀ x ∈ xs, x.length = a.dataLen) → (∀ c, 2 * c ≤ a.grow c) →
    (a.addAll xs m).1.Inv ∧ cnt m a.triple ≤ cnt (a.addAll xs m).2 a.triple ∧
    (1 ≤ cnt (a.addAll xs m).2 a.triple - cnt m a.triple →
      2 ^ (cnt (a.addAll xs m).2 a.triple - cnt m a.triple - 1) * a.capacity ≤ a.size + xs.length - 1) := by
  induction xs with
  | nil => intro a m h _ _; exact ⟨h, Nat.le_refl _, fun hh => by simp [addAll] at hh⟩
  | cons x xs ih =>
    intro a m h hx hd
    obtain ⟨i1, g1, d1, hc⟩ := add_cases a x m h (hx x (List.mem_cons_self ..))
    have gg : (a.add x m).2.1.grow = a.grow := congrArg Prod.fst g1
    have gt : (a.add x m).2.1.triple = a.triple := congrArg Prod.snd g1
    have ih' := ih (a.add x m).2.1 (a.add x m).2.2 i1
      (by intro y hy; rw [d1]; exact hx y (List.mem_cons_of_mem _ hy)) (by intro c; rw [gg]; exact hd c)
    rw [gt] at ih'
    obtain ⟨j1, j2, j3⟩ := ih'
    simp only [addAll, List.length_cons]
    generalize (addAll (a.add x m).2.1 xs (a.add x m).2.2) = r at *
    rcases hc with ⟨n1, n2, n3⟩ | ⟨n1, n2, n3, n4⟩
    · rw [n1] at j2 j3
      refine ⟨j1, j2, fun hk => ?_⟩
      have := j3 hk
      rw [n2] at this
      omega
    · rw [n1] at j2 j3
      refine ⟨j1, by omega, fun _ => ?_⟩
      have hdbl := nextCapacity_doubling a h hd
      by_cases hk : 1 ≤ cnt r.2 a.triple - (cnt m a.triple + 1)
      · have h3 := j3 hk
        rw [n3, n4] at h3
        have e1 : cnt r.2 a.triple - cnt m a.triple - 1 = (cnt r.2 a.triple - (cnt m a.triple + 1) - 1) + 1 := by omega
        rw [e1, Nat.pow_succ, Nat.mul_assoc]
        have h4 : 2 ^ (cnt r.2 a.triple - (cnt m a.triple + 1) - 1) * (2 * a.capacity) ≤
            2 ^ (cnt r.2 a.triple - (cnt m a.triple + 1) - 1) * a.nextCapacity := Nat.mul_le_mul_left _ hdbl
        omega
      · have e1 : cnt r.2 a.triple - cnt m a.triple - 1 = 0 := by omega
        rw [e1]; simp; omega

/-- **logarithmic number of re-allocations**: with a growth function that at least doubles,
appending any `n` elements (under any refusal schedule) performs at most `log2 (size + n) + 1`
successful allocator calls -/
theorem addAll_realloc_log (a : ArraySized) (xs : List (Buf Nat)) (m : Mem) (h : a.Inv)
    (hx : ∀ x ∈ xs, x.length = a.dataLen) (hd : ∀ c, 2 * c ≤ a.grow c) :
    cnt (a.addAll xs m).2 a.triple - cnt m a.triple ≤ Nat.log2 (a.size + xs.length) + 1 := by
  obtain ⟨_, _, d⟩ := addAll_doubling xs a m h hx hd
  by_cases hk : 1 ≤ cnt (a.addAll xs m).2 a.triple - cnt m a.triple
  · have h3 := d hk
    have hc := h.2.1
    have h4 : 2 ^ (cnt (a.addAll xs m).2 a.triple - cnt m a.triple - 1) ≤ a.size + xs.length := by
      have : 2 ^ (cnt (a.addAll xs m).2 a.triple - cnt m a.triple - 1) * 1 ≤
          2 ^ (cnt (a.addAll xs m).2 a.triple - cnt m a.triple - 1) * a.capacity := Nat.mul_le_mul_left _ hc
      omega
    have hne : a.size + xs.length ≠ 0 := by
      have : 0 < 2 ^ (cnt (a.addAll xs m).2 a.triple - cnt m a.triple - 1) := Nat.pow_pos (by omega)
      omega
    have := (Nat.le_log2 hne).mpr h4
    omega
  · omega

/-! ### iterator programs -/
/-- documented precondition of an iterator call: element arguments have `data_length` bytes -/
def IterCmdWF (dl : Nat) : Spec.SSeq.IterCmd Elem → Prop
  | .add x | .replace x => x.length = dl
  | _ => True

theorem iterRefusal_none (it : Iter) (a : ArraySized) (cmd : Spec.SSeq.IterCmd Elem) (m : Mem)
    (h1 : (iterStep it a cmd m).1.st ≠ some .errAlloc) (h2 : (iterStep it a cmd m).1.st ≠ some .errMaxCapacity) :
    iterRefusal it a cmd m = none := by
  unfold iterRefusal
  split
  · rename_i hh; exact absurd hh h1
  · rename_i hh; exact absurd hh h2
  · rfl

theorem cursor_next_st (c : Spec.SSeq.Cursor Elem) : c.next.1 ≠ .errAlloc ∧ c.next.1 ≠ .errMaxCapacity := by
  unfold Spec.SSeq.Cursor.next; split <;> simp
theorem cursor_remove_st (c : Spec.SSeq.Cursor Elem) : c.remove.1 ≠ .errAlloc ∧ c.remove.1 ≠ .errMaxCapacity := by
  unfold Spec.SSeq.Cursor.remove; split
  · simp
  · split <;> simp
theorem cursor_replace_st (c : Spec.SSeq.Cursor Elem) (x : Elem) :
    (c.replace x).1 ≠ .errAlloc ∧ (c.replace x).1 ≠ .errMaxCapacity := by
  unfold Spec.SSeq.Cursor.replace; split <;> simp

/-- one iterator call refines one step of the ideal cursor -/
theorem iterStep_refines (it : Iter) (a : ArraySized) (c : Spec.SSeq.Cursor Elem) (cmd : Spec.SSeq.IterCmd Elem)
    (m : Mem) (h : a.Inv) (hw : IterCmdWF a.dataLen cmd) (hrel : IterRel it a c) :
    (iterStep it a cmd m).1 = (c.step cmd (iterRefusal it a cmd m)).1 ∧
    IterRel (iterStep it a cmd m).2.1 (iterStep it a cmd m).2.2.1 (c.step cmd (iterRefusal it a cmd m)).2 ∧
    (iterStep it a cmd m).2.2.1.Inv ∧ (iterStep it a cmd m).2.2.1.dataLen = a.dataLen ∧
    MemSame a.triple m (iterStep it a cmd m).2.2.2 ∧ (iterStep it a cmd m).2.2.1.cfg = a.cfg := by
  cases cmd with
  | next =>
    obtain ⟨n1, n2, n3, n4⟩ := iterNext_refines it a c m h hrel
    have hr : iterRefusal it a .next m = none := by
      apply iterRefusal_none <;> simp only [iterStep, n1, ne_eq, Option.some.injEq]
      · exact (cursor_next_st c).1
      · exact (cursor_next_st c).2
    rw [hr]
    simp only [iterStep, Spec.SSeq.Cursor.step, n1, n2]
    exact ⟨trivial, n3, h, trivial, by rw [n4]; exact MemSame.refl _ m, trivial⟩
  | remove =>
    obtain ⟨r1, r2, r3, r4, r5, r6, r7, _⟩ := iterRemove_refines it a c m h hrel
    have hr : iterRefusal it a .remove m = none := by
      apply iterRefusal_none <;> simp only [iterStep, r1, ne_eq, Option.some.injEq]
      · exact (cursor_remove_st c).1
      · exact (cursor_remove_st c).2
    rw [hr]
    simp only [iterStep, Spec.SSeq.Cursor.step, r1, r2]
    exact ⟨trivial, r3, r4, r6, by rw [r5]; exact MemSame.refl _ m, r7⟩
  | add x =>
    rcases iterAdd_refines it a c x m h hw hrel with ⟨a1, a2, a3, a4, a5, a6⟩ | ⟨a1, a2, a3, a4⟩
    · have hr : iterRefusal it a (.add x) m = none := by
        unfold iterRefusal; simp only [iterStep]; rw [a1]
      rw [hr]
      simp only [iterStep, Spec.SSeq.Cursor.step, a1]
      exact ⟨trivial, a2, a3, a4, a6, a5⟩
    · rcases a1 with a1 | a1
      · have hr : iterRefusal it a (.add x) m = some .errAlloc := by
          unfold iterRefusal; simp only [iterStep]; rw [a1]
        rw [hr]
        simp only [iterStep, Spec.SSeq.Cursor.step, a1, a2, a3]
        exact ⟨trivial, hrel, h, trivial, a4, trivial⟩
      · have hr : iterRefusal it a (.add x) m = some .errMaxCapacity := by
          unfold iterRefusal; simp only [iterStep]; rw [a1]
        rw [hr]
        simp only [iterStep, Spec.SSeq.Cursor.step, a1, a2, a3]
        exact ⟨trivial, hrel, h, trivial, a4, trivial⟩
  | replace x =>
    obtain ⟨p1, p2, p3, p4, p5, p6, p7⟩ := iterReplace_refines it a c x m h hw hrel
    have hr : iterRefusal it a (.replace x) m = none := by
      apply iterRefusal_none <;> simp only [iterStep, p1, ne_eq, Option.some.injEq]
      · exact (cursor_replace_st c x).1
      · exact (cursor_replace_st c x).2
    rw [hr]
    simp only [iterStep, Spec.SSeq.Cursor.step, p1, p2]
    exact ⟨trivial, p3, p4, p6, by rw [p5]; exact MemSame.refl _ m, p7⟩
  | index =>
    have hr : iterRefusal it a .index m = none := rfl
    rw [hr]
    simp only [iterStep, Spec.SSeq.Cursor.step, iterIndex_refines it a c hrel]
    exact ⟨trivial, hrel, h, trivial, MemSame.refl _ m, trivial⟩

/-- **iterator programs**: any program of `next`/`remove`/`add`/`replace`/`index` calls on the model
yields the statuses, out-values and indices of the same program on the ideal cursor (given the
same refusals of `add`), and ends representing the ideal cursor's final state -/
theorem iterRun_refines (cmds : List (Spec.SSeq.IterCmd Elem)) :
    ∀ (it : Iter) (a : ArraySized) (c : Spec.SSeq.Cursor Elem) (m : Mem), a.Inv →
      (∀ cmd ∈ cmds, IterCmdWF a.dataLen cmd) → IterRel it a c →
      (iterRun it a cmds m).1 = (c.run cmds (iterRefusals it a cmds m)).1 ∧
      IterRel (iterRun it a cmds m).2.1 (iterRun it a cmds m).2.2.1 (c.run cmds (iterRefusals it a cmds m)).2 ∧
      (iterRun it a cmds m).2.2.1.Inv ∧ MemSame a.triple m (iterRun it a cmds m).2.2.2 := by
  induction cmds with
  | nil => intro it a c m h _ hrel; exact ⟨rfl, hrel, h, MemSame.refl _ m⟩
  | cons cmd cmds ih =>
    intro it a c m h hw hrel
    obtain ⟨s1, s2, s3, s4, s5, s6⟩ := iterStep_refines it a c cmd m h (hw cmd (List.mem_cons_self ..)) hrel
    have ih' := ih (iterStep it a cmd m).2.1 (iterStep it a cmd m).2.2.1 _ (iterStep it a cmd m).2.2.2 s3
      (by intro o ho; rw [s4]; exact hw o (List.mem_cons_of_mem _ ho)) s2
    have ht : (iterStep it a cmd m).2.2.1.triple = a.triple := congrArg Prod.snd s6
    rw [ht] at ih'
    simp only [iterRun, iterRefusals, Spec.SSeq.Cursor.run, List.headD_cons, List.tail_cons]
    exact ⟨by rw [s1, ih'.1], ih'.2.1, ih'.2.2.1, MemSame.trans s5 ih'.2.2.2⟩

end CC.ArraySized
