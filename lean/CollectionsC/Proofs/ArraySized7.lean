import CollectionsC.Proofs.ArraySized6
/-! Sized array, part 7: exactly when a call reports `CC_ERR_ALLOC` (C08 `refused_iff`), histories
continue after a refused call as if it had not happened, whole-life ledger (C06), the number of
re-allocations of `n` appends (C20), iterator programs (C07), sort on ≤ 1 element (C18). -/
namespace CC.ArraySized
open CC CC.Gen

/-! ### exactly when the status is CC_ERR_ALLOC -/
/-- `add` reports `CC_ERR_ALLOC` exactly when it had to ask the allocator (array full, not at the
size limit) and the allocator refused -/
theorem add_refused_iff (a : ArraySized) (e : Buf Nat) (m : Mem) (h : a.Inv) (he : e.length = a.dataLen) :
    (a.add e m).1 = .errAlloc ↔ (a.size = a.capacity ∧ ¬ a.AtLimit ∧ m.alloc.1 = false) := by
  rcases add_spec a e m h he with ⟨h1, _, _, _, _, _, _, h8⟩ | ⟨h1, _, _, h4, h5, h6, h7⟩
  · constructor
    · intro hh; rw [h1] at hh; cases hh
    · rintro ⟨q1, _, q3⟩; have := (h8 q1).1; rw [q3] at this; cases this
  · constructor
    · intro hh; exact ⟨h4, h7 hh, h5 hh⟩
    · rintro ⟨_, q2, _⟩
      rcases h1 with h1 | h1
      · exact h1
      · exact absurd (h6 h1) q2

theorem addAt_refused_iff (a : ArraySized) (e : Buf Nat) (i : Nat) (m : Mem) (h : a.Inv) (he : e.length = a.dataLen) :
    (a.addAt e i m).1 = .errAlloc ↔ (i ≤ a.size ∧ a.size = a.capacity ∧ ¬ a.AtLimit ∧ m.alloc.1 = false) := by
  by_cases hi : i ≤ a.size
  · rcases addAt_spec a e i m h he hi with ⟨h1, _, _, _, _, _, _, h8⟩ | ⟨h1, _, _, h4, h5, h6, h7⟩
    · constructor
      · intro hh; rw [h1] at hh; cases hh
      · rintro ⟨_, q1, _, q3⟩; have := (h8 q1).1; rw [q3] at this; cases this
    · constructor
      · intro hh; exact ⟨hi, h4, h7 hh, h5 hh⟩
      · rintro ⟨_, _, q2, _⟩
        rcases h1 with h1 | h1
        · exact h1
        · exact absurd (h6 h1) q2
  · rw [addAt_inert a e i m (by omega)]
    constructor
    · intro hh; cases hh
    · rintro ⟨q, _⟩; exact absurd q hi

theorem trim_refused_iff (a : ArraySized) (m : Mem) :
    (a.trimCapacity m).1 = .errAlloc ↔ (a.size ≠ a.capacity ∧ max a.size 1 ≠ a.capacity ∧ m.alloc.1 = false) := by
  unfold trimCapacity
  by_cases h1 : a.size = a.capacity
  · rw [if_pos h1]; constructor
    · intro hh; cases hh
    · rintro ⟨q, _⟩; exact absurd h1 q
  · rw [if_neg h1]
    dsimp only
    have hmax : (if a.size < 1 then 1 else a.size) = max a.size 1 := by split <;> omega
    rw [hmax]
    by_cases h2 : max a.size 1 = a.capacity
    · rw [if_pos h2]; constructor
      · intro hh; cases hh
      · rintro ⟨_, q, _⟩; exact absurd h2 q
    · rw [if_neg h2]
      cases hal : m.alloc.1
      · simp [h1, h2]
      · simp

/-- both allocator calls of a builder or constructor are granted -/
def alloc2ok (m : Mem) : Bool := m.alloc.1 && m.alloc.2.alloc.1

theorem copy_refused_iff (a : ArraySized) (m : Mem) : (a.copy m).1 = .errAlloc ↔ alloc2ok m = false := by
  unfold copy alloc2ok
  dsimp only
  cases h1 : m.alloc.1
  · simp
  · cases h2 : m.alloc.2.alloc.1 <;> simp

theorem subarray_refused_iff (a : ArraySized) (b e : Nat) (m : Mem) :
    (a.subarray b e m).1 = .errAlloc ↔ (b ≤ e ∧ e < a.size ∧ alloc2ok m = false) := by
  unfold subarray alloc2ok
  by_cases hr : b ≤ e ∧ e < a.size
  · have : (decide (b > e) || decide (e ≥ a.size)) = false := by simp; omega
    rw [this]
    simp only [Bool.false_eq_true, if_false]
    cases h1 : m.alloc.1
    · simp [hr]
    · cases h2 : m.alloc.2.alloc.1 <;> simp [hr]
  · have : (decide (b > e) || decide (e ≥ a.size)) = true := by simp; omega
    rw [this]
    simp only [if_true]
    constructor
    · intro hh; cases hh
    · rintro ⟨q1, q2, _⟩; exact absurd ⟨q1, q2⟩ hr

theorem filter_refused_iff (a : ArraySized) (p : List Nat → Bool) (m : Mem) :
    (a.filter p m).1 = .errAlloc ↔ (0 < a.size ∧ alloc2ok m = false) := by
  unfold filter alloc2ok
  by_cases h0 : a.size = 0
  · rw [if_pos h0]; constructor
    · intro hh; cases hh
    · rintro ⟨q, _⟩; omega
  · rw [if_neg h0]
    dsimp only
    cases h1 : m.alloc.1
    · simp; omega
    · cases h2 : m.alloc.2.alloc.1 <;> simp <;> omega

theorem new_refused_iff (dl cap : Nat) (grow : Nat → Nat) (exGe : Nat → Bool) (m : Mem) :
    (ArraySized.new dl cap grow exGe m).1 = .errAlloc ↔
      ((ArraySized.new dl cap grow exGe m).1 ≠ .errInvalidCapacity ∧ alloc2ok m = false) := by
  unfold ArraySized.new alloc2ok
  split
  · simp
  · split
    · simp
    · dsimp only
      cases h1 : m.alloc.1
      · simp
      · cases h2 : m.alloc.2.alloc.1 <;> simp

/-! ### a history continues after a refused call as if it had not happened -/
theorem run_append (xs ys : List (Spec.SSeq.Op Elem)) : ∀ (a : ArraySized) (m : Mem),
    a.run (xs ++ ys) m =
      ((a.run xs m).1 ++ ((a.run xs m).2.1.run ys (a.run xs m).2.2).1,
       ((a.run xs m).2.1.run ys (a.run xs m).2.2).2.1, ((a.run xs m).2.1.run ys (a.run xs m).2.2).2.2) := by
  induction xs with
  | nil => intro a m; simp [run]
  | cons x xs ih => intro a m; simp only [List.cons_append, run]; rw [ih]; simp

/-- `ops₁ ++ [refused op] ++ ops₂` behaves like `ops₁ ++ ops₂`: after the prefix, a call that is
refused (allocator or size limit) returns its error and leaves the physical state as it was, and the
rest of the history yields the same outputs and the same final state as it does without the
refused call on any ledger with the same remaining schedule -/
theorem run_continue (ops1 ops2 : List (Spec.SSeq.Op Elem)) (op : Spec.SSeq.Op Elem) (a : ArraySized) (m m2 : Mem)
    (h : a.Inv) (hw : ∀ o ∈ ops1 ++ op :: ops2, OpWF a.dataLen o)
    (href : (a.run ops1 m).2.1.refusal op (a.run ops1 m).2.2 ≠ none)
    (hs : m2.sched = ((a.run ops1 m).2.1.step op (a.run ops1 m).2.2).2.2.sched) :
    (a.run (ops1 ++ op :: ops2) m).1 =
      (a.run ops1 m).1 ++ ((a.run ops1 m).2.1.step op (a.run ops1 m).2.2).1 :: ((a.run ops1 m).2.1.run ops2 m2).1 ∧
    (a.run (ops1 ++ op :: ops2) m).2.1 = ((a.run ops1 m).2.1.run ops2 m2).2.1 := by
  obtain ⟨_, _, i1, _, d1, _⟩ := run_refines ops1 a m h (fun o ho => hw o (List.mem_append_left _ ho))
  generalize a.run ops1 m = r1 at *
  obtain ⟨o1, a1, m1⟩ := r1
  dsimp only at *
  have hwop : OpWF a1.dataLen op := by rw [d1]; exact hw op (by simp)
  have hw2 : ∀ o ∈ ops2, OpWF a1.dataLen o := by intro o ho; rw [d1]; exact hw o (by simp [ho])
  obtain ⟨_, _, _, _, _, _, s7, _⟩ := step_refines a1 op m1 i1 hwop
  have hsame := s7 href
  rw [run_append]
  dsimp only
  simp only [run]
  obtain ⟨q1, q2, _⟩ := run_indep ops2 a1 (a1.step op m1).2.2 m2 i1 hw2 hs.symm
  rw [hsame, q1, q2]
  exact ⟨rfl, rfl⟩

/-! ### whole life: new … any history … destroy -/
/-- every block the array allocated is released exactly once: construction, any history of
well-formed calls under any refusal schedule, `destroy` — `live` is back where it started, nothing
faulted, nothing went through the C library allocator -/
theorem destroy_releases_all (dl cap : Nat) (grow : Nat → Nat) (exGe : Nat → Bool) (m0 m1 : Mem) (a : ArraySized)
    (hnew : ArraySized.new dl cap grow exGe m0 = (.ok, some a, m1))
    (ops : List (Spec.SSeq.Op Elem)) (hw : ∀ op ∈ ops, OpWF dl op) :
    ((a.run ops m1).2.1.destroy (a.run ops m1).2.2).live = m0.live ∧
    ((a.run ops m1).2.1.destroy (a.run ops m1).2.2).fault = m0.fault ∧
    ((a.run ops m1).2.1.destroy (a.run ops m1).2.2).libc = m0.libc := by
  obtain ⟨hinv, _, hd, _, _, hl, hf, _, _, hc⟩ := new_ok dl cap grow exGe m0 m1 a hnew
  obtain ⟨_, _, _, _, _, hm⟩ := run_refines ops a m1 hinv (by rw [hd]; exact hw)
  have hd2 := destroy_ledger (a.run ops m1).2.1 (a.run ops m1).2.2 (by rw [hm.1, hl]; omega)
  exact ⟨by rw [hd2.1, hm.1, hl]; omega, by rw [hd2.2.1, hm.2.1, hf], by rw [hd2.2.2, hm.2.2, hc]⟩

/-! ### sort on at most one element -/
theorem sort_le_one (a : ArraySized) (sortFn : List Elem → List Elem) (h : a.Inv)
    (hperm : ∀ l, (sortFn l).Perm l) (h1 : a.size ≤ 1) : (a.sort sortFn).abs = a.abs := by
  rw [(sort_spec a sortFn h (hperm a.abs)).2.1]
  have hl := abs_length a
  have hp := hperm a.abs
  match hab : a.abs with
  | [] => rw [hab] at hp; exact List.Perm.eq_nil hp
  | [x] => rw [hab] at hp; exact List.perm_singleton.1 hp
  | x :: y :: t => rw [hab] at hl; simp at hl; omega

end CC.ArraySized
