import CollectionsC.Proofs.ArrayStep
/-! The per-operation theorems under the conventional names (`K.op_inv`, `K.op_refines`,
`K.op_nofault`, `K.op_inert`, `K.op_atomic`, `K.op_ledger`), as projections of the `_spec` bundles
of `Proofs/Array*.lean`.  No theorem constrains the growth function. -/
namespace CC.Arr
open CC

/-! ### add -/
theorem add_refines (a : Arr) (x : Nat) (m : Mem) (h : a.Inv) (hok : (a.add x m).1 = .ok) :
    (a.add x m).1 = (Spec.Seq.add a.abs x).1 ∧ (a.add x m).2.1.abs = (Spec.Seq.add a.abs x).2 := by
  rcases (add_spec a x m h).1 with ⟨ok, habs, _⟩ | ⟨hb, _⟩
  · exact ⟨ok, habs⟩
  · rcases hb.1 with ⟨e, _⟩ | ⟨e, _⟩ <;> rw [e] at hok <;> simp at hok
theorem add_inv (a : Arr) (x : Nat) (m : Mem) (h : a.Inv) : (a.add x m).2.1.Inv := by
  rcases (add_spec a x m h).1 with ⟨_, _, g⟩ | ⟨_, hs⟩
  · exact g.inv h
  · rw [hs]; exact h
theorem add_nofault (a : Arr) (x : Nat) (m : Mem) (h : a.Inv) :
    (a.add x m).2.2.fault = m.fault := (add_spec a x m h).2.2
theorem add_ledger (a : Arr) (x : Nat) (m : Mem) (h : a.Inv) :
    (a.add x m).2.2.live = m.live := (add_spec a x m h).2.1
theorem add_inert (a : Arr) (x : Nat) (m : Mem) (h : a.Inv) (hne : (a.add x m).1 ≠ .ok) :
    (a.add x m).2.1 = a := by
  rcases (add_spec a x m h).1 with ⟨ok, _⟩ | ⟨_, hs⟩
  · exact absurd ok hne
  · exact hs
theorem add_atomic (a : Arr) (x : Nat) (m : Mem) (hfull : a.size = a.capacity)
    (hmax : ¬ a.AtLimit) (hr : (m.allocT a.triple).1 = false) :
    (a.add x m).1 = .errAlloc ∧ (a.add x m).2.1 = a ∧ (a.add x m).2.2.live = m.live := by
  have hf : a.capacity ≤ a.size := by omega
  have hl : (m.allocT a.triple).2.live = m.live := by
    rcases allocT_cases m a.triple with ⟨g, _⟩ | ⟨_, g, _⟩
    · rw [hr] at g; simp at g
    · exact g
  rw [add_full a x m hf, expandCapacity_refused a m hmax hr]
  exact ⟨rfl, rfl, hl⟩

/-! ### add_at -/
theorem addAt_refines (a : Arr) (x i : Nat) (m : Mem) (h : a.Inv)
    (hnb : (a.addAt x i m).1 ≠ .errAlloc ∧ (a.addAt x i m).1 ≠ .errMaxCapacity) :
    (a.addAt x i m).1 = (Spec.Seq.addAt a.abs x i).1 ∧ (a.addAt x i m).2.1.abs = (Spec.Seq.addAt a.abs x i).2 := by
  unfold Spec.Seq.addAt
  rcases (addAt_spec a x i m h).1 with ⟨hi, sp⟩ | ⟨hgt, heq⟩
  · have hi' : i ≤ a.abs.length := by simpa using hi
    rcases sp with ⟨ok, habs, _⟩ | ⟨hb, _⟩
    · simp only [hi', if_true]; exact ⟨ok, habs⟩
    · rcases hb.1 with ⟨e, _⟩ | ⟨e, _⟩
      · exact absurd e hnb.1
      · exact absurd e hnb.2
  · have hi' : ¬ i ≤ a.abs.length := by simp; omega
    simp only [hi', if_false]; rw [heq]; exact ⟨rfl, rfl⟩
theorem addAt_inv (a : Arr) (x i : Nat) (m : Mem) (h : a.Inv) : (a.addAt x i m).2.1.Inv := by
  rcases (addAt_spec a x i m h).1 with ⟨_, ⟨_, _, g⟩ | ⟨_, hs⟩⟩ | ⟨_, heq⟩
  · exact g.inv h
  · rw [hs]; exact h
  · rw [heq]; exact h
theorem addAt_nofault (a : Arr) (x i : Nat) (m : Mem) (h : a.Inv) :
    (a.addAt x i m).2.2.fault = m.fault := (addAt_spec a x i m h).2.2
theorem addAt_ledger (a : Arr) (x i : Nat) (m : Mem) (h : a.Inv) :
    (a.addAt x i m).2.2.live = m.live := (addAt_spec a x i m h).2.1
theorem addAt_inert (a : Arr) (x i : Nat) (m : Mem) (h : a.Inv)
    (hne : (a.addAt x i m).1 ≠ .ok) : (a.addAt x i m).2.1 = a := by
  rcases (addAt_spec a x i m h).1 with ⟨_, ⟨ok, _⟩ | ⟨_, hs⟩⟩ | ⟨_, heq⟩
  · exact absurd ok hne
  · exact hs
  · rw [heq]

/-! ### the non-allocating mutators: `_refines` (status, out-value, content), `_inv`, `_nofault`
(together with `_ledger`: the `Mem` is returned untouched), `_inert` -/
theorem replaceAt_refines (a : Arr) (x i : Nat) (m : Mem) (h : a.Inv) :
    (a.replaceAt x i m).1 = (Spec.Seq.replaceAt a.abs x i).1 ∧ (a.replaceAt x i m).2.1 = (Spec.Seq.replaceAt a.abs x i).2.1 ∧
    (a.replaceAt x i m).2.2.1.abs = (Spec.Seq.replaceAt a.abs x i).2.2 := by
  obtain ⟨r1, r2, r3, _⟩ := replaceAt_spec a x i m h; exact ⟨r1, r2, r3⟩
theorem replaceAt_inv (a : Arr) (x i : Nat) (m : Mem) (h : a.Inv) : (a.replaceAt x i m).2.2.1.Inv := by
  obtain ⟨_, _, _, r4, r5, _⟩ := replaceAt_spec a x i m h; exact r5.inv h (by omega)
theorem replaceAt_nofault (a : Arr) (x i : Nat) (m : Mem) (h : a.Inv) : (a.replaceAt x i m).2.2.2 = m :=
  (replaceAt_spec a x i m h).2.2.2.2.2.1
theorem replaceAt_inert (a : Arr) (x i : Nat) (m : Mem) (h : a.Inv) (hne : (a.replaceAt x i m).1 ≠ .ok) :
    (a.replaceAt x i m).2.2.1 = a := (replaceAt_spec a x i m h).2.2.2.2.2.2.1 hne

theorem swapAt_refines (a : Arr) (i j : Nat) (m : Mem) (h : a.Inv) :
    (a.swapAt i j m).1 = (Spec.Seq.swapAt a.abs i j).1 ∧ (a.swapAt i j m).2.1.abs = (Spec.Seq.swapAt a.abs i j).2 := by
  obtain ⟨r1, r2, _⟩ := swapAt_spec a i j m h; exact ⟨r1, r2⟩
theorem swapAt_inv (a : Arr) (i j : Nat) (m : Mem) (h : a.Inv) : (a.swapAt i j m).2.1.Inv := by
  obtain ⟨_, _, r3, r4, _⟩ := swapAt_spec a i j m h; exact r4.inv h (by omega)
theorem swapAt_nofault (a : Arr) (i j : Nat) (m : Mem) (h : a.Inv) : (a.swapAt i j m).2.2 = m :=
  (swapAt_spec a i j m h).2.2.2.2.1
theorem swapAt_inert (a : Arr) (i j : Nat) (m : Mem) (h : a.Inv) (hne : (a.swapAt i j m).1 ≠ .ok) :
    (a.swapAt i j m).2.1 = a := (swapAt_spec a i j m h).2.2.2.2.2.1 hne

theorem removeAt_refines (a : Arr) (i : Nat) (m : Mem) (h : a.Inv) :
    (a.removeAt i m).1 = (Spec.Seq.removeAt a.abs i).1 ∧ (a.removeAt i m).2.1 = (Spec.Seq.removeAt a.abs i).2.1 ∧
    (a.removeAt i m).2.2.1.abs = (Spec.Seq.removeAt a.abs i).2.2 := by
  obtain ⟨r1, r2, r3, _⟩ := removeAt_spec a i m h; exact ⟨r1, r2, r3⟩
theorem removeAt_inv (a : Arr) (i : Nat) (m : Mem) (h : a.Inv) : (a.removeAt i m).2.2.1.Inv := by
  obtain ⟨_, _, _, r4, r5, _⟩ := removeAt_spec a i m h; exact r4.inv h r5
theorem removeAt_nofault (a : Arr) (i : Nat) (m : Mem) (h : a.Inv) : (a.removeAt i m).2.2.2 = m :=
  (removeAt_spec a i m h).2.2.2.2.2.1
theorem removeAt_inert (a : Arr) (i : Nat) (m : Mem) (h : a.Inv) (hne : (a.removeAt i m).1 ≠ .ok) :
    (a.removeAt i m).2.2.1 = a := (removeAt_spec a i m h).2.2.2.2.2.2.1 hne

theorem removeLast_refines (a : Arr) (m : Mem) (h : a.Inv) :
    (a.removeLast m).1 = (Spec.Seq.removeLast a.abs).1 ∧ (a.removeLast m).2.1 = (Spec.Seq.removeLast a.abs).2.1 ∧
    (a.removeLast m).2.2.1.abs = (Spec.Seq.removeLast a.abs).2.2 := by
  obtain ⟨r1, r2, r3, _⟩ := removeLast_spec a m h; exact ⟨r1, r2, r3⟩
theorem removeLast_inv (a : Arr) (m : Mem) (h : a.Inv) : (a.removeLast m).2.2.1.Inv := by
  obtain ⟨_, _, _, r4, r5, _⟩ := removeLast_spec a m h; exact r4.inv h r5
theorem removeLast_nofault (a : Arr) (m : Mem) (h : a.Inv) : (a.removeLast m).2.2.2 = m :=
  (removeLast_spec a m h).2.2.2.2.2.1
theorem removeLast_inert (a : Arr) (m : Mem) (h : a.Inv) (hne : (a.removeLast m).1 ≠ .ok) :
    (a.removeLast m).2.2.1 = a := (removeLast_spec a m h).2.2.2.2.2.2.1 hne

theorem remove_refines (a : Arr) (x : Nat) (m : Mem) (h : a.Inv) :
    (a.remove x m).1 = (Spec.Seq.remove a.abs x).1 ∧ (a.remove x m).2.1 = (Spec.Seq.remove a.abs x).2.1 ∧
    (a.remove x m).2.2.1.abs = (Spec.Seq.remove a.abs x).2.2 := by
  obtain ⟨r1, r2, r3, _⟩ := remove_spec a x m h; exact ⟨r1, r2, r3⟩
theorem remove_inv (a : Arr) (x : Nat) (m : Mem) (h : a.Inv) : (a.remove x m).2.2.1.Inv := by
  obtain ⟨_, _, _, r4, r5, _⟩ := remove_spec a x m h; exact r4.inv h r5
theorem remove_nofault (a : Arr) (x : Nat) (m : Mem) (h : a.Inv) : (a.remove x m).2.2.2 = m :=
  (remove_spec a x m h).2.2.2.2.2.1
theorem remove_inert (a : Arr) (x : Nat) (m : Mem) (h : a.Inv) (hne : (a.remove x m).1 ≠ .ok) :
    (a.remove x m).2.2.1 = a := (remove_spec a x m h).2.2.2.2.2.2.1 hne

theorem filterMut_refines (p : Nat → Bool) (a : Arr) (m : Mem) (h : a.Inv) :
    (a.filterMut p m).1 = (Spec.Seq.filterMut p a.abs).1 ∧ (a.filterMut p m).2.1.abs = (Spec.Seq.filterMut p a.abs).2 := by
  obtain ⟨r1, r2, _⟩ := filterMut_spec p a m h; exact ⟨r1, r2⟩
theorem filterMut_inv (p : Nat → Bool) (a : Arr) (m : Mem) (h : a.Inv) : (a.filterMut p m).2.1.Inv := by
  obtain ⟨_, _, r3, r4, _⟩ := filterMut_spec p a m h; exact r3.inv h r4
theorem filterMut_nofault (p : Nat → Bool) (a : Arr) (m : Mem) (h : a.Inv) : (a.filterMut p m).2.2.2 = m :=
  (filterMut_spec p a m h).2.2.2.2.1
theorem filterMut_inert (p : Nat → Bool) (a : Arr) (m : Mem) (h : a.Inv) (hne : (a.filterMut p m).1 ≠ .ok) :
    (a.filterMut p m).2.1 = a := (filterMut_spec p a m h).2.2.2.2.2.2.1 hne

theorem reverse_refines (a : Arr) (m : Mem) (h : a.Inv) : (a.reverse m).1.abs = Spec.Seq.reverse a.abs :=
  (reverse_spec a m h).1
theorem reverse_inv (a : Arr) (m : Mem) (h : a.Inv) : (a.reverse m).1.Inv := by
  obtain ⟨_, r2, r3, _⟩ := reverse_spec a m h; exact r2.inv h (by omega)
theorem reverse_nofault (a : Arr) (m : Mem) (h : a.Inv) : (a.reverse m).2 = m := (reverse_spec a m h).2.2.2

/-! ### trim_capacity -/
theorem trimCapacity_refines (a : Arr) (m : Mem) (h : a.Inv) :
    (a.trimCapacity m).2.1.abs = a.abs := by
  rcases (trimCapacity_spec a m h).1 with ⟨_, h1, _⟩ | ⟨_, _, hs⟩
  · exact h1
  · rw [hs]
theorem trimCapacity_inv (a : Arr) (m : Mem) (h : a.Inv) : (a.trimCapacity m).2.1.Inv := by
  rcases (trimCapacity_spec a m h).1 with ⟨_, _, _, _, hi, _⟩ | ⟨_, _, hs⟩
  · exact hi
  · rw [hs]; exact h
theorem trimCapacity_nofault (a : Arr) (m : Mem) (h : a.Inv) :
    (a.trimCapacity m).2.2.fault = m.fault := (trimCapacity_spec a m h).2.2
theorem trimCapacity_ledger (a : Arr) (m : Mem) (h : a.Inv) :
    (a.trimCapacity m).2.2.live = m.live := (trimCapacity_spec a m h).2.1
theorem trimCapacity_atomic (a : Arr) (m : Mem) (h : a.Inv) (hne : (a.trimCapacity m).1 ≠ .ok) :
    (a.trimCapacity m).1 = .errAlloc ∧ (a.trimCapacity m).2.1 = a := by
  rcases (trimCapacity_spec a m h).1 with ⟨ok, _⟩ | ⟨e, _, hs⟩
  · exact absurd ok hne
  · exact ⟨e, hs⟩

end CC.Arr
