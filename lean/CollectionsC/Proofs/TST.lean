import CollectionsC.Model.TST
/-! Helper lemmas for the TST model: comparators, insertion, lookup, removal with pruning,
counting (nodes / marked nodes), ledger. -/
set_option linter.unusedSimpArgs false
set_option linter.unusedVariables false
namespace CC.TST
open CC

/-! ### comparators -/

theorem toSigned_inj (a b : Nat) (h : toSigned a = toSigned b) : a = b := by
  unfold toSigned at h
  split at h <;> split at h <;> omega

theorem cmpSigned_law : CmpLaw cmpSigned := by
  intro a b
  unfold cmpSigned
  constructor
  · intro h
    split at h; · simp at h
    split at h; · simp at h
    apply toSigned_inj; omega
  · intro h; subst h; simp

theorem cmpUnsigned_law : CmpLaw cmpUnsigned := by
  intro a b
  unfold cmpUnsigned
  constructor
  · intro h
    split at h; · simp at h
    split at h; · simp at h
    omega
  · intro h; subst h; simp

theorem cmpReverse_law : CmpLaw cmpReverse := by
  intro a b
  unfold cmpReverse
  rw [cmpSigned_law b a]
  exact eq_comm

variable {cmp : Cmp}

theorem CmpLaw.refl (hc : CmpLaw cmp) (a : Nat) : cmp a a = .eq := (hc a a).mpr rfl
theorem CmpLaw.ne_of_lt (hc : CmpLaw cmp) {a b : Nat} (h : cmp a b = .lt) : a ≠ b := by
  intro e; rw [(hc a b).mpr e] at h; cases h
theorem CmpLaw.ne_of_gt (hc : CmpLaw cmp) {a b : Nat} (h : cmp a b = .gt) : a ≠ b := by
  intro e; rw [(hc a b).mpr e] at h; cases h

/-! ### pure insertion -/

/-- what `cc_tsttable_add` builds when no allocation is refused -/
def Node.insPure (cmp : Cmp) (e : Entry) : Node → Key → Node
  | .nil, ks => mkChain e ks
  | .node c _ l m r, [] => .node c (some e) l m r
  | .node c d l m r, x :: xs =>
    match cmp x c with
    | .lt => .node c d (l.insPure cmp e (x :: xs)) m r
    | .gt => .node c d l m (r.insPure cmp e (x :: xs))
    | .eq => match xs with
      | [] => .node c (some e) l m r
      | y :: ys => .node c d l (m.insPure cmp e (y :: ys)) r

theorem lookup_mkChain (hc : CmpLaw cmp) (e : Entry) (ks k' : Key) (hks : ks ≠ []) (hk' : k' ≠ []) :
    (mkChain e ks).lookup cmp k' = if k' = ks then some e else none := by
  induction ks generalizing k' with
  | nil => exact absurd rfl hks
  | cons x xs ih =>
    cases k' with
    | nil => exact absurd rfl hk'
    | cons x' xs' =>
      cases xs with
      | nil =>
        simp only [mkChain, Node.lookup]
        cases h : cmp x' x
        · have := hc.ne_of_lt h; simp [Node.lookup, this]
        · have := (hc x' x).mp h; subst this
          cases xs' <;> simp [Node.lookup]
        · have := hc.ne_of_gt h; simp [Node.lookup, this]
      | cons y ys =>
        simp only [mkChain, Node.lookup]
        cases h : cmp x' x
        · have := hc.ne_of_lt h; simp [Node.lookup, this]
        · have := (hc x' x).mp h; subst this
          cases xs' with
          | nil => simp
          | cons y' ys' =>
            simp only [ih (y' :: ys') (by simp) (by simp)]
            simp
        · have := hc.ne_of_gt h; simp [Node.lookup, this]

/-- **insert / lookup**: after inserting `ks`, looking up `k'` finds the new entry when `k' = ks`
and what it found before otherwise (non-empty keys) -/
theorem lookup_insPure (hc : CmpLaw cmp) (e : Entry) (t : Node) (ks k' : Key) (hks : ks ≠ []) (hk' : k' ≠ []) :
    (t.insPure cmp e ks).lookup cmp k' = if k' = ks then some e else t.lookup cmp k' := by
  induction t generalizing ks k' with
  | nil => simp only [Node.insPure, Node.lookup]; exact lookup_mkChain hc e ks k' hks hk'
  | node c d l m r ihl ihm ihr =>
    cases ks with
    | nil => exact absurd rfl hks
    | cons x xs =>
    cases k' with
    | nil => exact absurd rfl hk'
    | cons x' xs' =>
    simp only [Node.insPure]
    cases h : cmp x c <;> simp only []
    · -- lt
      cases h' : cmp x' c
      · simp only [Node.lookup, h']; exact ihl (x :: xs) (x' :: xs') (by simp) (by simp)
      · have : x' ≠ x := by intro e; subst e; rw [h] at h'; cases h'
        simp [Node.lookup, h', this]
      · have : x' ≠ x := by intro e; subst e; rw [h] at h'; cases h'
        simp [Node.lookup, h', this]
    · -- eq
      have hx := (hc x c).mp h; subst hx
      cases xs with
      | nil =>
        simp only []
        cases h' : cmp x' x
        · have := hc.ne_of_lt h'; simp [Node.lookup, h', this]
        · have := (hc x' x).mp h'; subst this
          cases xs' <;> simp [Node.lookup, h']
        · have := hc.ne_of_gt h'; simp [Node.lookup, h', this]
      | cons y ys =>
        simp only []
        cases h' : cmp x' x
        · have := hc.ne_of_lt h'; simp [Node.lookup, h', this]
        · have := (hc x' x).mp h'; subst this
          cases xs' with
          | nil => simp [Node.lookup, h']
          | cons y' ys' =>
            simp only [Node.lookup, h', ihm (y :: ys) (y' :: ys') (by simp) (by simp)]
            simp
        · have := hc.ne_of_gt h'; simp [Node.lookup, h', this]
    · -- gt
      cases h' : cmp x' c
      · have : x' ≠ x := by intro e; subst e; rw [h] at h'; cases h'
        simp [Node.lookup, h', this]
      · have : x' ≠ x := by intro e; subst e; rw [h] at h'; cases h'
        simp [Node.lookup, h', this]
      · simp only [Node.lookup, h']; exact ihr (x :: xs) (x' :: xs') (by simp) (by simp)

/-! ### allocation bookkeeping of `add` -/

/-- blocks the table owns below its header: one per node, one per entry -/
def Node.owned (t : Node) : Nat := t.nodes + t.marked

theorem free_spec (m : Mem) (h : 0 < m.live) :
    m.free.live = m.live - 1 ∧ m.free.fault = m.fault ∧ m.free.libc = m.libc ∧ m.free.sched = m.sched := by
  unfold Mem.free; have : m.live ≠ 0 := by omega
  simp [this]

theorem freeN_spec (n : Nat) (m : Mem) (h : n ≤ m.live) :
    (freeN n m).live = m.live - n ∧ (freeN n m).fault = m.fault ∧ (freeN n m).libc = m.libc := by
  induction n generalizing m with
  | zero => simp [freeN]
  | succ n ih =>
    have f := free_spec m (by omega)
    have := ih m.free (by omega)
    simp only [freeN]
    refine ⟨by omega, by rw [this.2.1, f.2.1], by rw [this.2.2, f.2.2.1]⟩

theorem allocChain_spec (todo made : Nat) (m : Mem) (h : made ≤ m.live) :
    ((allocChain todo made m).1 = true → (allocChain todo made m).2.live = m.live + todo) ∧
    ((allocChain todo made m).1 = false → (allocChain todo made m).2.live = m.live - made) ∧
    (allocChain todo made m).2.fault = m.fault ∧ (allocChain todo made m).2.libc = m.libc := by
  induction todo generalizing made m with
  | zero => simp [allocChain]
  | succ n ih =>
    simp only [allocChain]
    cases ha : m.alloc.1
    · have a := Mem.alloc_fst_false m ha
      have f := freeN_spec made m.alloc.2 (by omega)
      simp only [Bool.not_false, if_true]
      refine ⟨by simp, fun _ => by omega, by rw [f.2.1, a.2.1], by rw [f.2.2, a.2.2]⟩
    · have a := Mem.alloc_fst_true m ha
      have := ih (made + 1) m.alloc.2 (by omega)
      simp only [Bool.not_true, Bool.false_eq_true, if_false]
      refine ⟨fun h1 => by have := this.1 h1; omega, fun h1 => by have := this.2.1 h1; omega,
        by rw [this.2.2.1, a.2.1], by rw [this.2.2.2, a.2.2]⟩

theorem allocChain_nil (todo made : Nat) (m : Mem) (h : m.sched = []) :
    (allocChain todo made m).1 = true ∧ (allocChain todo made m).2.sched = [] := by
  induction todo generalizing made m with
  | zero => simp [allocChain, h]
  | succ n ih =>
    have a := Mem.alloc_nil m h
    simp only [allocChain, a.1, Bool.not_true, Bool.false_eq_true, if_false]
    exact ih (made + 1) m.alloc.2 a.2

theorem nodes_mkChain (e : Entry) (ks : Key) : (mkChain e ks).nodes = chainLen ks := by
  induction ks with
  | nil => simp [mkChain, Node.nodes, chainLen]
  | cons x xs ih =>
    cases xs with
    | nil => simp [mkChain, Node.nodes, chainLen]
    | cons y ys => simp only [mkChain, Node.nodes, ih, chainLen, List.length_cons]; omega

theorem marked_mkChain (e : Entry) (ks : Key) : (mkChain e ks).marked = 1 := by
  induction ks with
  | nil => simp [mkChain, Node.marked]
  | cons x xs ih =>
    cases xs with
    | nil => simp [mkChain, Node.marked]
    | cons y ys => simp only [mkChain, Node.marked, ih]; simp

/-- what one call of `setData` / `ins` guarantees, as a predicate on its result -/
def InsSpec (old new : Node) (mem : Mem) (q : InsRes) : Prop :=
  (q.st = .ok → q.node = new ∧ q.mem.live + old.owned = mem.live + q.node.owned ∧
      q.node.marked = old.marked + (if q.inc then 1 else 0)) ∧
  (q.st ≠ .ok → q.st = .errAlloc ∧ q.node = old ∧ q.inc = false ∧ q.mem.live = mem.live) ∧
  q.mem.fault = mem.fault ∧ q.mem.libc = mem.libc

theorem setData_spec (key : Key) (v c : Nat) (d : Option Entry) (l m r : Node) (mem : Mem) :
    InsSpec (.node c d l m r) (.node c (some (key, v)) l m r) mem (setData key v c d l m r mem) := by
  unfold InsSpec
  cases d with
  | some e0 => simp [setData, Node.owned, Node.nodes, Node.marked]
  | none =>
    simp only [setData]
    rcases Bool.eq_false_or_eq_true mem.alloc.1 with ha | ha
    · have a := Mem.alloc_fst_true mem ha
      simp [ha, a, Node.owned, Node.nodes, Node.marked]; omega
    · have a := Mem.alloc_fst_false mem ha
      simp [ha, a]

theorem InsSpec.lift {old new : Node} {mem : Mem} {q : InsRes} (h : InsSpec old new mem q)
    (f : Node → Node) (hn : ∀ t, (f t).nodes = t.nodes + (f .nil).nodes)
    (hm : ∀ t, (f t).marked = t.marked + (f .nil).marked) :
    InsSpec (f old) (f new) mem ⟨q.st, f q.node, q.inc, q.mem⟩ := by
  unfold InsSpec at *
  refine ⟨fun h1 => ?_, fun h1 => ?_, h.2.2.1, h.2.2.2⟩
  · have := h.1 h1
    refine ⟨by rw [this.1], ?_, ?_⟩
    · simp only [Node.owned] at this ⊢
      rw [hn old, hn q.node, hm old, hm q.node]; omega
    · simp only at this ⊢; rw [hm old, hm q.node]; omega
  · have := h.2.1 h1
    exact ⟨this.1, by rw [this.2.1], this.2.2.1, this.2.2.2⟩

/-- **`add` below the header**: either everything succeeded and the tree is the pure insertion, or the
status is `CC_ERR_ALLOC`, the tree is unchanged and every block allocated on the way was released -/
theorem ins_spec (key : Key) (v : Nat) (t : Node) (ks : Key) (mem : Mem) :
    InsSpec t (t.insPure cmp (key, v) ks) mem (t.ins cmp key v ks mem) := by
  induction t generalizing ks with
  | nil =>
    unfold InsSpec
    simp only [Node.ins, Node.insPure]
    have a := allocChain_spec (chainLen ks) 0 mem (by omega)
    rcases Bool.eq_false_or_eq_true (allocChain (chainLen ks) 0 mem).1 with ha | ha
    · have h1 := a.1 ha
      rcases Bool.eq_false_or_eq_true (allocChain (chainLen ks) 0 mem).2.alloc.1 with hb | hb
      · have b := Mem.alloc_fst_true _ hb
        simp only [ha, hb, Bool.not_true, Bool.false_eq_true, if_false]
        refine ⟨fun _ => ⟨trivial, ?_, ?_⟩, by simp, by rw [b.2.1, a.2.2.1], by rw [b.2.2, a.2.2.2]⟩
        · simp only [Node.owned, nodes_mkChain, marked_mkChain, Node.nodes, Node.marked]; omega
        · simp [marked_mkChain, Node.marked]
      · have b := Mem.alloc_fst_false _ hb
        have f := freeN_spec (chainLen ks) (allocChain (chainLen ks) 0 mem).2.alloc.2 (by omega)
        simp only [ha, hb, Bool.not_true, Bool.not_false, Bool.false_eq_true, if_false, if_true]
        refine ⟨by simp, fun _ => ⟨trivial, trivial, trivial, by omega⟩, by rw [f.2.1, b.2.1, a.2.2.1], by rw [f.2.2, b.2.2, a.2.2.2]⟩
    · have := a.2.1 ha
      simp only [ha, Bool.not_false, if_true]
      refine ⟨by simp, fun _ => ⟨trivial, trivial, trivial, by omega⟩, a.2.2.1, a.2.2.2⟩
  | node c d l m r ihl ihm ihr =>
    cases ks with
    | nil => simp only [Node.ins, Node.insPure]; exact setData_spec key v c d l m r mem
    | cons x xs =>
      simp only [Node.ins, Node.insPure]
      cases h : cmp x c <;> simp only []
      · exact (ihl (x :: xs)).lift (fun t => .node c d t m r) (by intro t; simp [Node.nodes]; omega) (by intro t; simp [Node.marked]; omega)
      · cases xs with
        | nil => exact setData_spec key v c d l m r mem
        | cons y ys =>
          exact (ihm (y :: ys)).lift (fun t => .node c d l t r) (by intro t; simp [Node.nodes]; omega) (by intro t; simp [Node.marked]; omega)
      · exact (ihr (x :: xs)).lift (fun t => .node c d l m t) (by intro t; simp [Node.nodes]; omega) (by intro t; simp [Node.marked]; omega)

/-! ### entries, ordering and lookup -/

theorem entries_head (t : Node) : ∀ x ∈ t.entries, ∃ a as, x.1 = a :: as ∧ a ∈ t.heads := by
  induction t with
  | nil => simp [Node.entries]
  | node c d l m r ihl ihm ihr =>
    intro x hx
    simp only [Node.entries, List.mem_append, List.mem_map] at hx
    simp only [Node.heads, List.mem_cons, List.mem_append]
    rcases hx with ((hx | hx) | ⟨y, hy, rfl⟩) | hx
    · cases d with
      | none => simp at hx
      | some e => simp at hx; subst hx; exact ⟨c, [], rfl, Or.inl rfl⟩
    · obtain ⟨a, as, h1, h2⟩ := ihl x hx; exact ⟨a, as, h1, Or.inr (Or.inl h2)⟩
    · exact ⟨c, y.1, rfl, Or.inl rfl⟩
    · obtain ⟨a, as, h1, h2⟩ := ihr x hx; exact ⟨a, as, h1, Or.inr (Or.inr h2)⟩

theorem entries_key_ne_nil (t : Node) (x : Key × Entry) (hx : x ∈ t.entries) : x.1 ≠ [] := by
  obtain ⟨a, as, h, _⟩ := entries_head t x hx; rw [h]; simp

/-- under the ordering invariant an entry is found by looking up the key its path spells -/
theorem lookup_of_mem_entries (hc : CmpLaw cmp) (t : Node) (ho : t.Ordered cmp) :
    ∀ x ∈ t.entries, t.lookup cmp x.1 = some x.2 := by
  induction t with
  | nil => simp [Node.entries]
  | node c d l m r ihl ihm ihr =>
    obtain ⟨hl, hr, ol, om, or⟩ := ho
    intro x hx
    simp only [Node.entries, List.mem_append, List.mem_map] at hx
    rcases hx with ((hx | hx) | ⟨y, hy, rfl⟩) | hx
    · cases d with
      | none => simp at hx
      | some e => simp at hx; subst hx; simp [Node.lookup, hc.refl]
    · obtain ⟨a, as, h1, h2⟩ := entries_head l x hx
      have := ihl ol x hx
      rw [h1] at this ⊢
      simp [Node.lookup, hl a h2, this]
    · obtain ⟨a, as, h1, h2⟩ := entries_head m y hy
      have := ihm om y hy
      rw [h1] at this
      simp only [h1, Node.lookup, hc.refl, this]
    · obtain ⟨a, as, h1, h2⟩ := entries_head r x hx
      have := ihr or x hx
      rw [h1] at this ⊢
      simp [Node.lookup, hr a h2, this]

/-- whatever a lookup finds is an entry whose path spells the key -/
theorem mem_entries_of_lookup (hc : CmpLaw cmp) (t : Node) (k : Key) (e : Entry) (hk : k ≠ [])
    (h : t.lookup cmp k = some e) : (k, e) ∈ t.entries := by
  induction t generalizing k with
  | nil => simp [Node.lookup] at h
  | node c d l m r ihl ihm ihr =>
    cases k with
    | nil => exact absurd rfl hk
    | cons x xs =>
      simp only [Node.lookup] at h
      simp only [Node.entries, List.mem_append, List.mem_map]
      cases hx : cmp x c <;> simp only [hx] at h
      · exact Or.inl (Or.inl (Or.inr (ihl (x :: xs) (by simp) h)))
      · have := (hc x c).mp hx; subst this
        cases xs with
        | nil => simp only at h; subst h; simp
        | cons y ys =>
          simp only at h
          exact Or.inl (Or.inr ⟨(y :: ys, e), ihm (y :: ys) (by simp) h, rfl⟩)
      · exact Or.inr (ihr (x :: xs) (by simp) h)

theorem mem_entries_iff (hc : CmpLaw cmp) (t : Node) (ho : t.Ordered cmp) (k : Key) (e : Entry) :
    (k, e) ∈ t.entries ↔ k ≠ [] ∧ t.lookup cmp k = some e :=
  ⟨fun h => ⟨entries_key_ne_nil t _ h, lookup_of_mem_entries hc t ho _ h⟩,
   fun h => mem_entries_of_lookup hc t k e h.1 h.2⟩

/-- the keys spelled by the entries are pairwise distinct: enumeration yields each key once -/
theorem entries_distinct (hc : CmpLaw cmp) (t : Node) (ho : t.Ordered cmp) :
    t.entries.Pairwise (fun a b => a.1 ≠ b.1) := by
  induction t with
  | nil => simp [Node.entries]
  | node c d l m r ihl ihm ihr =>
    obtain ⟨hl, hr, ol, om, or⟩ := ho
    simp only [Node.entries, List.pairwise_append, List.mem_append, List.mem_map]
    refine ⟨⟨⟨?_, ihl ol, ?_⟩, ?_, ?_⟩, ihr or, ?_⟩
    · cases d <;> simp
    · intro a ha b hb
      cases d with
      | none => simp at ha
      | some e =>
        simp at ha; subst ha
        obtain ⟨x, xs, h1, h2⟩ := entries_head l b hb
        have := hc.ne_of_lt (hl x h2)
        simp only [h1]; intro h; simp at h; exact this h.1.symm
    · exact (List.pairwise_map).mpr ((ihm om).imp (by intro a b h; simpa using h))
    · intro a ha b ⟨y, hy, hb⟩
      subst hb
      rcases ha with ha | ha
      · cases d with
        | none => simp at ha
        | some e =>
          simp at ha; subst ha
          have := entries_key_ne_nil m y hy
          simp only; intro h; simp at h; exact this h
      · obtain ⟨x, xs, h1, h2⟩ := entries_head l a ha
        have := hc.ne_of_lt (hl x h2)
        simp only [h1]; intro h; simp at h; exact this h.1
    · intro a ha b hb
      obtain ⟨x', xs', g1, g2⟩ := entries_head r b hb
      have hg := hc.ne_of_gt (hr x' g2)
      rcases ha with (ha | ha) | ⟨y, hy, ha⟩
      · cases d with
        | none => simp at ha
        | some e =>
          simp at ha; subst ha
          simp only [g1]; intro h; simp at h; exact hg h.1.symm
      · obtain ⟨x, xs, h1, h2⟩ := entries_head l a ha
        have h3 := hl x h2
        have h4 := hr x' g2
        simp only [h1, g1]; intro h; simp at h
        rw [h.1, h4] at h3; cases h3
      · subst ha
        simp only [g1]; intro h; simp at h; exact hg h.1.symm

theorem marked_eq_length (t : Node) : t.marked = t.entries.length := by
  induction t with
  | nil => simp [Node.marked, Node.entries]
  | node c d l m r ihl ihm ihr =>
    simp only [Node.marked, Node.entries, List.length_append, List.length_map, ihl, ihm, ihr]
    cases d <;> simp <;> omega
end CC.TST
