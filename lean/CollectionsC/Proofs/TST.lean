import CollectionsC.Model.TST
/-! Helper lemmas for the TST model: comparators, insertion, lookup, removal with pruning,
counting (nodes / marked nodes), ledger. -/
set_option linter.unusedSimpArgs false
set_option linter.unusedVariables false
namespace CC.TST
open CC

/-! ### comparators -/

theorem toSigned_inj (a b : Nat) (h : toSigned a = toSigned b) : a = b := by
  unfold toSigned at h
  split at h <;> split at h <;> omega

theorem cmpSigned_law : CmpLaw cmpSigned := by
  intro a b
  unfold cmpSigned
  constructor
  · intro h
    split at h; · simp at h
    split at h; · simp at h
    apply toSigned_inj; omega
  · intro h; subst h; simp

theorem cmpUnsigned_law : CmpLaw cmpUnsigned := by
  intro a b
  unfold cmpUnsigned
  constructor
  · intro h
    split at h; · simp at h
    split at h; · simp at h
    omega
  · intro h; subst h; simp

theorem cmpReverse_law : CmpLaw cmpReverse := by
  intro a b
  unfold cmpReverse
  rw [cmpSigned_law b a]
  exact eq_comm

variable {cmp : Cmp} {tr : Triple}

theorem CmpLaw.refl (hc : CmpLaw cmp) (a : Nat) : cmp a a = .eq := (hc a a).mpr rfl
theorem CmpLaw.ne_of_lt (hc : CmpLaw cmp) {a b : Nat} (h : cmp a b = .lt) : a ≠ b := by
  intro e; rw [(hc a b).mpr e] at h; cases h
theorem CmpLaw.ne_of_gt (hc : CmpLaw cmp) {a b : Nat} (h : cmp a b = .gt) : a ≠ b := by
  intro e; rw [(hc a b).mpr e] at h; cases h

/-! ### pure insertion -/

/-- what `cc_tsttable_add` builds when no allocation is refused -/
def Node.insPure (cmp : Cmp) (e : Entry) : Node → Key → Node
  | .nil, ks => mkChain e ks
  | .node c _ l m r, [] => .node c (some e) l m r
  | .node c d l m r, x :: xs =>
    match cmp x c with
    | .lt => .node c d (l.insPure cmp e (x :: xs)) m r
    | .gt => .node c d l m (r.insPure cmp e (x :: xs))
    | .eq => match xs with
      | [] => .node c (some e) l m r
      | y :: ys => .node c d l (m.insPure cmp e (y :: ys)) r

theorem lookup_mkChain (hc : CmpLaw cmp) (e : Entry) (ks k' : Key) (hks : ks ≠ []) (hk' : k' ≠ []) :
    (mkChain e ks).lookup cmp k' = if k' = ks then some e else none := by
  induction ks generalizing k' with
  | nil => exact absurd rfl hks
  | cons x xs ih =>
    cases k' with
    | nil => exact absurd rfl hk'
    | cons x' xs' =>
      cases xs with
      | nil =>
        simp only [mkChain, Node.lookup]
        cases h : cmp x' x
        · have := hc.ne_of_lt h; simp [Node.lookup, this]
        · have := (hc x' x).mp h; subst this
          cases xs' <;> simp [Node.lookup]
        · have := hc.ne_of_gt h; simp [Node.lookup, this]
      | cons y ys =>
        simp only [mkChain, Node.lookup]
        cases h : cmp x' x
        · have := hc.ne_of_lt h; simp [Node.lookup, this]
        · have := (hc x' x).mp h; subst this
          cases xs' with
          | nil => simp
          | cons y' ys' =>
            simp only [ih (y' :: ys') (by simp) (by simp)]
            simp
        · have := hc.ne_of_gt h; simp [Node.lookup, this]

/-- **insert / lookup**: after inserting `ks`, looking up `k'` finds the new entry when `k' = ks`
and what it found before otherwise (non-empty keys) -/
theorem lookup_insPure (hc : CmpLaw cmp) (e : Entry) (t : Node) (ks k' : Key) (hks : ks ≠ []) (hk' : k' ≠ []) :
    (t.insPure cmp e ks).lookup cmp k' = if k' = ks then some e else t.lookup cmp k' := by
  induction t generalizing ks k' with
  | nil => simp only [Node.insPure, Node.lookup]; exact lookup_mkChain hc e ks k' hks hk'
  | node c d l m r ihl ihm ihr =>
    cases ks with
    | nil => exact absurd rfl hks
    | cons x xs =>
    cases k' with
    | nil => exact absurd rfl hk'
    | cons x' xs' =>
    simp only [Node.insPure]
    cases h : cmp x c <;> simp only []
    · -- lt
      cases h' : cmp x' c
      · simp only [Node.lookup, h']; exact ihl (x :: xs) (x' :: xs') (by simp) (by simp)
      · have : x' ≠ x := by intro e; subst e; rw [h] at h'; cases h'
        simp [Node.lookup, h', this]
      · have : x' ≠ x := by intro e; subst e; rw [h] at h'; cases h'
        simp [Node.lookup, h', this]
    · -- eq
      have hx := (hc x c).mp h; subst hx
      cases xs with
      | nil =>
        simp only []
        cases h' : cmp x' x
        · have := hc.ne_of_lt h'; simp [Node.lookup, h', this]
        · have := (hc x' x).mp h'; subst this
          cases xs' <;> simp [Node.lookup, h']
        · have := hc.ne_of_gt h'; simp [Node.lookup, h', this]
      | cons y ys =>
        simp only []
        cases h' : cmp x' x
        · have := hc.ne_of_lt h'; simp [Node.lookup, h', this]
        · have := (hc x' x).mp h'; subst this
          cases xs' with
          | nil => simp [Node.lookup, h']
          | cons y' ys' =>
            simp only [Node.lookup, h', ihm (y :: ys) (y' :: ys') (by simp) (by simp)]
            simp
        · have := hc.ne_of_gt h'; simp [Node.lookup, h', this]
    · -- gt
      cases h' : cmp x' c
      · have : x' ≠ x := by intro e; subst e; rw [h] at h'; cases h'
        simp [Node.lookup, h', this]
      · have : x' ≠ x := by intro e; subst e; rw [h] at h'; cases h'
        simp [Node.lookup, h', this]
      · simp only [Node.lookup, h']; exact ihr (x :: xs) (x' :: xs') (by simp) (by simp)

/-! ### allocation bookkeeping of `add` -/

theorem allocT_fst_true (m : Mem) (tr : Triple) (h : (m.allocT tr).1 = true) :
    (m.allocT tr).2.liveT tr = m.liveT tr + 1 ∧ (m.allocT tr).2.fault = m.fault := by
  cases tr
  · have := Mem.alloc_fst_true m h; exact ⟨this.1, this.2.1⟩
  · exact ⟨rfl, rfl⟩

theorem allocT_fst_false (m : Mem) (tr : Triple) (h : (m.allocT tr).1 = false) :
    (m.allocT tr).2.liveT tr = m.liveT tr ∧ (m.allocT tr).2.fault = m.fault := by
  cases tr
  · have := Mem.alloc_fst_false m h; exact ⟨this.1, this.2.1⟩
  · cases h

theorem allocT_nil (m : Mem) (tr : Triple) (h : m.sched = []) :
    (m.allocT tr).1 = true ∧ (m.allocT tr).2.sched = [] := by
  cases tr
  · exact Mem.alloc_nil m h
  · exact ⟨rfl, h⟩

theorem begin_liveT (m : Mem) (sched : List Bool) (tr : Triple) : (m.begin sched).liveT tr = m.liveT tr := by
  cases tr <;> rfl

theorem free_spec (m : Mem) (tr : Triple) (h : 0 < m.liveT tr) :
    (m.freeT tr).liveT tr = m.liveT tr - 1 ∧ (m.freeT tr).fault = m.fault := by
  cases tr
  · simp only [Mem.freeT, Mem.liveT, Mem.free] at h ⊢
    have : m.live ≠ 0 := by omega
    simp [this]
  · simp only [Mem.freeT, Mem.liveT] at h ⊢
    have : m.liveLibc ≠ 0 := by omega
    simp [this]


/-- blocks the table owns below its header: one per node, one per entry -/
def Node.owned (t : Node) : Nat := t.nodes + t.marked

theorem freeN_spec (n : Nat) (m : Mem) (h : n ≤ m.liveT tr) :
    (freeN tr n m).liveT tr = m.liveT tr - n ∧ (freeN tr n m).fault = m.fault := by
  induction n generalizing m with
  | zero => simp [freeN]
  | succ n ih =>
    have f := free_spec m tr (by omega)
    have := ih (m.freeT tr) (by omega)
    simp only [freeN]
    refine ⟨by omega, by rw [this.2, f.2]⟩

theorem allocChain_spec (todo made : Nat) (m : Mem) (h : made ≤ m.liveT tr) :
    ((allocChain tr todo made m).1 = true → (allocChain tr todo made m).2.liveT tr = m.liveT tr + todo) ∧
    ((allocChain tr todo made m).1 = false → (allocChain tr todo made m).2.liveT tr = m.liveT tr - made) ∧
    (allocChain tr todo made m).2.fault = m.fault := by
  induction todo generalizing made m with
  | zero => simp [allocChain]
  | succ n ih =>
    simp only [allocChain]
    rcases Bool.eq_false_or_eq_true (m.allocT tr).1 with ha | ha
    · have a := allocT_fst_true m tr ha
      have := ih (made + 1) (m.allocT tr).2 (by omega)
      simp only [ha, Bool.not_true, Bool.false_eq_true, if_false]
      refine ⟨fun h1 => by have := this.1 h1; omega, fun h1 => by have := this.2.1 h1; omega,
        by rw [this.2.2, a.2]⟩
    · have a := allocT_fst_false m tr ha
      have f := freeN_spec (tr := tr) made (m.allocT tr).2 (by omega)
      simp only [ha, Bool.not_false, if_true]
      refine ⟨by simp, fun _ => by omega, by rw [f.2, a.2]⟩

theorem allocChain_nil (todo made : Nat) (m : Mem) (h : m.sched = []) :
    (allocChain tr todo made m).1 = true ∧ (allocChain tr todo made m).2.sched = [] := by
  induction todo generalizing made m with
  | zero => simp [allocChain, h]
  | succ n ih =>
    have a := allocT_nil m tr h
    simp only [allocChain, a.1, Bool.not_true, Bool.false_eq_true, if_false]
    exact ih (made + 1) (m.allocT tr).2 a.2

theorem nodes_mkChain (e : Entry) (ks : Key) : (mkChain e ks).nodes = chainLen ks := by
  induction ks with
  | nil => simp [mkChain, Node.nodes, chainLen]
  | cons x xs ih =>
    cases xs with
    | nil => simp [mkChain, Node.nodes, chainLen]
    | cons y ys => simp only [mkChain, Node.nodes, ih, chainLen, List.length_cons]; omega

theorem marked_mkChain (e : Entry) (ks : Key) : (mkChain e ks).marked = 1 := by
  induction ks with
  | nil => simp [mkChain, Node.marked]
  | cons x xs ih =>
    cases xs with
    | nil => simp [mkChain, Node.marked]
    | cons y ys => simp only [mkChain, Node.marked, ih]; simp

/-- what one call of `setData` / `ins` guarantees, as a predicate on its result -/
def InsSpec (tr : Triple) (old new : Node) (mem : Mem) (q : InsRes) : Prop :=
  (q.st = .ok → q.node = new ∧ q.mem.liveT tr + old.owned = mem.liveT tr + q.node.owned ∧
      q.node.marked = old.marked + (if q.inc then 1 else 0)) ∧
  (q.st ≠ .ok → q.st = .errAlloc ∧ q.node = old ∧ q.inc = false ∧ q.mem.liveT tr = mem.liveT tr) ∧
  q.mem.fault = mem.fault

theorem setData_spec (key : Key) (v c : Nat) (d : Option Entry) (l m r : Node) (mem : Mem) :
    InsSpec tr (.node c d l m r) (.node c (some (key, v)) l m r) mem (setData tr key v c d l m r mem) := by
  unfold InsSpec
  cases d with
  | some e0 => simp [setData, Node.owned, Node.nodes, Node.marked]
  | none =>
    simp only [setData]
    rcases Bool.eq_false_or_eq_true (mem.allocT tr).1 with ha | ha
    · have a := allocT_fst_true mem tr ha
      simp [ha, a, Node.owned, Node.nodes, Node.marked]; omega
    · have a := allocT_fst_false mem tr ha
      simp [ha, a]

theorem InsSpec.lift {old new : Node} {mem : Mem} {q : InsRes} (h : InsSpec tr old new mem q)
    (f : Node → Node) (hn : ∀ t, (f t).nodes = t.nodes + (f .nil).nodes)
    (hm : ∀ t, (f t).marked = t.marked + (f .nil).marked) :
    InsSpec tr (f old) (f new) mem ⟨q.st, f q.node, q.inc, q.mem⟩ := by
  unfold InsSpec at *
  refine ⟨fun h1 => ?_, fun h1 => ?_, h.2.2⟩
  · have := h.1 h1
    refine ⟨by rw [this.1], ?_, ?_⟩
    · simp only [Node.owned] at this ⊢
      rw [hn old, hn q.node, hm old, hm q.node]; omega
    · simp only at this ⊢; rw [hm old, hm q.node]; omega
  · have := h.2.1 h1
    exact ⟨this.1, by rw [this.2.1], this.2.2.1, this.2.2.2⟩

/-- **`add` below the header**: either everything succeeded and the tree is the pure insertion, or the
status is `CC_ERR_ALLOC`, the tree is unchanged and every block allocated on the way was released -/
theorem ins_spec (key : Key) (v : Nat) (t : Node) (ks : Key) (mem : Mem) :
    InsSpec tr t (t.insPure cmp (key, v) ks) mem (t.ins tr cmp key v ks mem) := by
  induction t generalizing ks with
  | nil =>
    unfold InsSpec
    simp only [Node.ins, Node.insPure]
    have a := allocChain_spec (tr := tr) (chainLen ks) 0 mem (by omega)
    rcases Bool.eq_false_or_eq_true (allocChain tr (chainLen ks) 0 mem).1 with ha | ha
    · have h1 := a.1 ha
      rcases Bool.eq_false_or_eq_true ((allocChain tr (chainLen ks) 0 mem).2.allocT tr).1 with hb | hb
      · have b := allocT_fst_true _ tr hb
        simp only [ha, hb, Bool.not_true, Bool.false_eq_true, if_false]
        refine ⟨fun _ => ⟨trivial, ?_, ?_⟩, by simp, by rw [b.2, a.2.2]⟩
        · simp only [Node.owned, nodes_mkChain, marked_mkChain, Node.nodes, Node.marked]; omega
        · simp [marked_mkChain, Node.marked]
      · have b := allocT_fst_false _ tr hb
        have f := freeN_spec (tr := tr) (chainLen ks) ((allocChain tr (chainLen ks) 0 mem).2.allocT tr).2 (by omega)
        simp only [ha, hb, Bool.not_true, Bool.not_false, Bool.false_eq_true, if_false, if_true]
        refine ⟨by simp, fun _ => ⟨trivial, trivial, trivial, by omega⟩, by rw [f.2, b.2, a.2.2]⟩
    · have := a.2.1 ha
      simp only [ha, Bool.not_false, if_true]
      refine ⟨by simp, fun _ => ⟨trivial, trivial, trivial, by omega⟩, a.2.2⟩
  | node c d l m r ihl ihm ihr =>
    cases ks with
    | nil => simp only [Node.ins, Node.insPure]; exact setData_spec key v c d l m r mem
    | cons x xs =>
      simp only [Node.ins, Node.insPure]
      cases h : cmp x c <;> simp only []
      · exact (ihl (x :: xs)).lift (fun t => .node c d t m r) (by intro t; simp [Node.nodes]; omega) (by intro t; simp [Node.marked]; omega)
      · cases xs with
        | nil => exact setData_spec key v c d l m r mem
        | cons y ys =>
          exact (ihm (y :: ys)).lift (fun t => .node c d l t r) (by intro t; simp [Node.nodes]; omega) (by intro t; simp [Node.marked]; omega)
      · exact (ihr (x :: xs)).lift (fun t => .node c d l m t) (by intro t; simp [Node.nodes]; omega) (by intro t; simp [Node.marked]; omega)

/-! ### entries, ordering and lookup -/

theorem entries_head (t : Node) : ∀ x ∈ t.entries, ∃ a as, x.1 = a :: as ∧ a ∈ t.heads := by
  induction t with
  | nil => simp [Node.entries]
  | node c d l m r ihl ihm ihr =>
    intro x hx
    simp only [Node.entries, List.mem_append, List.mem_map] at hx
    simp only [Node.heads, List.mem_cons, List.mem_append]
    rcases hx with ((hx | hx) | ⟨y, hy, rfl⟩) | hx
    · cases d with
      | none => simp at hx
      | some e => simp at hx; subst hx; exact ⟨c, [], rfl, Or.inl rfl⟩
    · obtain ⟨a, as, h1, h2⟩ := ihl x hx; exact ⟨a, as, h1, Or.inr (Or.inl h2)⟩
    · exact ⟨c, y.1, rfl, Or.inl rfl⟩
    · obtain ⟨a, as, h1, h2⟩ := ihr x hx; exact ⟨a, as, h1, Or.inr (Or.inr h2)⟩

theorem entries_key_ne_nil (t : Node) (x : Key × Entry) (hx : x ∈ t.entries) : x.1 ≠ [] := by
  obtain ⟨a, as, h, _⟩ := entries_head t x hx; rw [h]; simp

/-- under the ordering invariant an entry is found by looking up the key its path spells -/
theorem lookup_of_mem_entries (hc : CmpLaw cmp) (t : Node) (ho : t.Ordered cmp) :
    ∀ x ∈ t.entries, t.lookup cmp x.1 = some x.2 := by
  induction t with
  | nil => simp [Node.entries]
  | node c d l m r ihl ihm ihr =>
    obtain ⟨hl, hr, ol, om, or⟩ := ho
    intro x hx
    simp only [Node.entries, List.mem_append, List.mem_map] at hx
    rcases hx with ((hx | hx) | ⟨y, hy, rfl⟩) | hx
    · cases d with
      | none => simp at hx
      | some e => simp at hx; subst hx; simp [Node.lookup, hc.refl]
    · obtain ⟨a, as, h1, h2⟩ := entries_head l x hx
      have := ihl ol x hx
      rw [h1] at this ⊢
      simp [Node.lookup, hl a h2, this]
    · obtain ⟨a, as, h1, h2⟩ := entries_head m y hy
      have := ihm om y hy
      rw [h1] at this
      simp only [h1, Node.lookup, hc.refl, this]
    · obtain ⟨a, as, h1, h2⟩ := entries_head r x hx
      have := ihr or x hx
      rw [h1] at this ⊢
      simp [Node.lookup, hr a h2, this]

/-- whatever a lookup finds is an entry whose path spells the key -/
theorem mem_entries_of_lookup (hc : CmpLaw cmp) (t : Node) (k : Key) (e : Entry) (hk : k ≠ [])
    (h : t.lookup cmp k = some e) : (k, e) ∈ t.entries := by
  induction t generalizing k with
  | nil => simp [Node.lookup] at h
  | node c d l m r ihl ihm ihr =>
    cases k with
    | nil => exact absurd rfl hk
    | cons x xs =>
      simp only [Node.lookup] at h
      simp only [Node.entries, List.mem_append, List.mem_map]
      cases hx : cmp x c <;> simp only [hx] at h
      · exact Or.inl (Or.inl (Or.inr (ihl (x :: xs) (by simp) h)))
      · have := (hc x c).mp hx; subst this
        cases xs with
        | nil => simp only at h; subst h; simp
        | cons y ys =>
          simp only at h
          exact Or.inl (Or.inr ⟨(y :: ys, e), ihm (y :: ys) (by simp) h, rfl⟩)
      · exact Or.inr (ihr (x :: xs) (by simp) h)

theorem mem_entries_iff (hc : CmpLaw cmp) (t : Node) (ho : t.Ordered cmp) (k : Key) (e : Entry) :
    (k, e) ∈ t.entries ↔ k ≠ [] ∧ t.lookup cmp k = some e :=
  ⟨fun h => ⟨entries_key_ne_nil t _ h, lookup_of_mem_entries hc t ho _ h⟩,
   fun h => mem_entries_of_lookup hc t k e h.1 h.2⟩

/-- the keys spelled by the entries are pairwise distinct: enumeration yields each key once -/
theorem entries_distinct (hc : CmpLaw cmp) (t : Node) (ho : t.Ordered cmp) :
    t.entries.Pairwise (fun a b => a.1 ≠ b.1) := by
  induction t with
  | nil => simp [Node.entries]
  | node c d l m r ihl ihm ihr =>
    obtain ⟨hl, hr, ol, om, or⟩ := ho
    simp only [Node.entries, List.pairwise_append, List.mem_append, List.mem_map]
    refine ⟨⟨⟨?_, ihl ol, ?_⟩, ?_, ?_⟩, ihr or, ?_⟩
    · cases d <;> simp
    · intro a ha b hb
      cases d with
      | none => simp at ha
      | some e =>
        simp at ha; subst ha
        obtain ⟨x, xs, h1, h2⟩ := entries_head l b hb
        have := hc.ne_of_lt (hl x h2)
        simp only [h1]; intro h; simp at h; exact this h.1.symm
    · exact (List.pairwise_map).mpr ((ihm om).imp (by intro a b h; simpa using h))
    · intro a ha b ⟨y, hy, hb⟩
      subst hb
      rcases ha with ha | ha
      · cases d with
        | none => simp at ha
        | some e =>
          simp at ha; subst ha
          have := entries_key_ne_nil m y hy
          simp only; intro h; simp at h; exact this h
      · obtain ⟨x, xs, h1, h2⟩ := entries_head l a ha
        have := hc.ne_of_lt (hl x h2)
        simp only [h1]; intro h; simp at h; exact this h.1
    · intro a ha b hb
      obtain ⟨x', xs', g1, g2⟩ := entries_head r b hb
      have hg := hc.ne_of_gt (hr x' g2)
      rcases ha with (ha | ha) | ⟨y, hy, ha⟩
      · cases d with
        | none => simp at ha
        | some e =>
          simp at ha; subst ha
          simp only [g1]; intro h; simp at h; exact hg h.1.symm
      · obtain ⟨x, xs, h1, h2⟩ := entries_head l a ha
        have h3 := hl x h2
        have h4 := hr x' g2
        simp only [h1, g1]; intro h; simp at h
        rw [h.1, h4] at h3; cases h3
      · subst ha
        simp only [g1]; intro h; simp at h; exact hg h.1.symm

theorem marked_eq_length (t : Node) : t.marked = t.entries.length := by
  induction t with
  | nil => simp [Node.marked, Node.entries]
  | node c d l m r ihl ihm ihr =>
    simp only [Node.marked, Node.entries, List.length_append, List.length_map, ihl, ihm, ihr]
    cases d <;> simp <;> omega

/-! ### invariants under pure insertion -/

@[simp] theorem Node.isNil_iff (t : Node) : t.isNil = true ↔ t = .nil := by cases t <;> simp [Node.isNil]

theorem mkChain_ne_nil (e : Entry) (ks : Key) : mkChain e ks ≠ .nil := by
  cases ks with
  | nil => simp [mkChain]
  | cons x xs => cases xs <;> simp [mkChain]

theorem insPure_ne_nil (e : Entry) (t : Node) (ks : Key) : t.insPure cmp e ks ≠ .nil := by
  cases t with
  | nil => simp only [Node.insPure]; exact mkChain_ne_nil e ks
  | node c d l m r =>
    cases ks with
    | nil => simp [Node.insPure]
    | cons x xs =>
      simp only [Node.insPure]
      cases cmp x c <;> simp only []
      · simp
      · cases xs <;> simp
      · simp

theorem heads_mkChain (e : Entry) (x : Nat) (xs : Key) : (mkChain e (x :: xs)).heads = [x] := by
  cases xs <;> simp [mkChain, Node.heads]

theorem heads_insPure (e : Entry) (t : Node) (x : Nat) (xs : Key) :
    ∀ a ∈ (t.insPure cmp e (x :: xs)).heads, a = x ∨ a ∈ t.heads := by
  induction t with
  | nil => simp [Node.insPure, heads_mkChain]
  | node c d l m r ihl ihm ihr =>
    simp only [Node.insPure]
    cases cmp x c <;> simp only []
    · intro a ha
      simp only [Node.heads, List.mem_cons, List.mem_append] at ha ⊢
      rcases ha with ha | ha | ha
      · exact Or.inr (Or.inl ha)
      · rcases ihl a ha with h | h
        · exact Or.inl h
        · exact Or.inr (Or.inr (Or.inl h))
      · exact Or.inr (Or.inr (Or.inr ha))
    · cases xs <;> simp only [] <;> intro a ha <;> exact Or.inr (by simpa [Node.heads] using ha)
    · intro a ha
      simp only [Node.heads, List.mem_cons, List.mem_append] at ha ⊢
      rcases ha with ha | ha | ha
      · exact Or.inr (Or.inl ha)
      · exact Or.inr (Or.inr (Or.inl ha))
      · rcases ihr a ha with h | h
        · exact Or.inl h
        · exact Or.inr (Or.inr (Or.inr h))

theorem ordered_mkChain (e : Entry) (ks : Key) : (mkChain e ks).Ordered cmp := by
  induction ks with
  | nil => simp [mkChain, Node.Ordered, Node.heads]
  | cons x xs ih =>
    cases xs with
    | nil => simp [mkChain, Node.Ordered, Node.heads]
    | cons y ys => simp only [mkChain, Node.Ordered, Node.heads]; simp [ih]

theorem ordered_insPure (e : Entry) (t : Node) (ks : Key) (ho : t.Ordered cmp) :
    (t.insPure cmp e ks).Ordered cmp := by
  induction t generalizing ks with
  | nil => simp only [Node.insPure]; exact ordered_mkChain e ks
  | node c d l m r ihl ihm ihr =>
    obtain ⟨hl, hr, ol, om, or⟩ := ho
    cases ks with
    | nil => simp only [Node.insPure]; exact ⟨hl, hr, ol, om, or⟩
    | cons x xs =>
      simp only [Node.insPure]
      cases hx : cmp x c <;> simp only []
      · refine ⟨?_, hr, ihl (x :: xs) ol, om, or⟩
        intro a ha
        rcases heads_insPure e l x xs a ha with h | h
        · rw [h]; exact hx
        · exact hl a h
      · cases xs with
        | nil => exact ⟨hl, hr, ol, om, or⟩
        | cons y ys => exact ⟨hl, hr, ol, ihm (y :: ys) om, or⟩
      · refine ⟨hl, ?_, ol, om, ihr (x :: xs) or⟩
        intro a ha
        rcases heads_insPure e r x xs a ha with h | h
        · rw [h]; exact hx
        · exact hr a h

theorem pruned_mkChain (e : Entry) (ks : Key) : (mkChain e ks).Pruned := by
  induction ks with
  | nil => simp [mkChain, Node.Pruned]
  | cons x xs ih =>
    cases xs with
    | nil => simp [mkChain, Node.Pruned]
    | cons y ys =>
      simp only [mkChain, Node.Pruned]
      refine ⟨?_, trivial, ih, trivial⟩
      intro h; exact absurd ((Node.isNil_iff _).mp h.2.1) (mkChain_ne_nil e (y :: ys))

theorem pruned_insPure (e : Entry) (t : Node) (ks : Key) (hp : t.Pruned) : (t.insPure cmp e ks).Pruned := by
  induction t generalizing ks with
  | nil => simp only [Node.insPure]; exact pruned_mkChain e ks
  | node c d l m r ihl ihm ihr =>
    obtain ⟨h0, pl, pm, pr⟩ := hp
    cases ks with
    | nil => simp only [Node.insPure, Node.Pruned]; exact ⟨by simp, pl, pm, pr⟩
    | cons x xs =>
      simp only [Node.insPure]
      cases hx : cmp x c <;> simp only []
      · refine ⟨?_, ihl (x :: xs) pl, pm, pr⟩
        intro h; exact absurd ((Node.isNil_iff _).mp h.1) (insPure_ne_nil e l _)
      · cases xs with
        | nil => exact ⟨by simp, pl, pm, pr⟩
        | cons y ys =>
          refine ⟨?_, pl, ihm (y :: ys) pm, pr⟩
          intro h; exact absurd ((Node.isNil_iff _).mp h.2.1) (insPure_ne_nil e m _)
      · refine ⟨?_, pl, pm, ihr (x :: xs) pr⟩
        intro h; exact absurd ((Node.isNil_iff _).mp h.2.2) (insPure_ne_nil e r _)

/-- stored key = spelled key is kept when the key that is inserted is the one that is stored -/
theorem keysOk_insPure (hc : CmpLaw cmp) (key : Key) (v : Nat) (t : Node) (hk : key ≠ [])
    (ho : t.Ordered cmp) (hko : t.KeysOk) : (t.insPure cmp (key, v) key).KeysOk := by
  intro x hx
  have ho' := ordered_insPure (cmp := cmp) (key, v) t key ho
  have h := lookup_of_mem_entries hc _ ho' x hx
  rw [lookup_insPure hc _ _ _ _ hk (entries_key_ne_nil _ x hx)] at h
  split at h
  · rename_i heq; simp at h; rw [← h, heq]
  · exact hko x (mem_entries_of_lookup hc t x.1 x.2 (entries_key_ne_nil _ x hx) h)

/-! ### removal with upward pruning -/

theorem lookup_eq_findPath (t : Node) (k : Key) :
    t.lookup cmp k = (t.findPath cmp k).bind fun p => (t.sub p).data? := by
  induction t generalizing k with
  | nil => simp [Node.lookup, Node.findPath]
  | node c d l m r ihl ihm ihr =>
    cases k with
    | nil => simp [Node.lookup, Node.findPath, Node.sub, Node.data?]
    | cons x xs =>
      simp only [Node.lookup, Node.findPath]
      cases cmp x c <;> simp only []
      · rw [ihl]; cases l.findPath cmp (x :: xs) <;> simp [Node.sub]
      · cases xs with
        | nil => simp [Node.sub, Node.data?]
        | cons y ys => simp only []; rw [ihm]; cases m.findPath cmp (y :: ys) <;> simp [Node.sub]
      · rw [ihr]; cases r.findPath cmp (x :: xs) <;> simp [Node.sub]

theorem rebuild_cases (tr : Triple) (c : Nat) (d : Option Entry) (l m r : Node) (q : RemRes) :
    ((rebuild tr c d l m r q).node = .nil ∧ (rebuild tr c d l m r q).pruned = true ∧
        (rebuild tr c d l m r q).mem = q.mem.freeT tr ∧
        q.pruned = true ∧ l = .nil ∧ m = .nil ∧ r = .nil ∧ d = none) ∨
    ((rebuild tr c d l m r q).node = .node c d l m r ∧ (rebuild tr c d l m r q).pruned = false ∧
        (rebuild tr c d l m r q).mem = q.mem ∧
        ¬ (q.pruned = true ∧ l = .nil ∧ m = .nil ∧ r = .nil ∧ d = none)) := by
  unfold rebuild
  split
  · rename_i h
    simp only [Bool.and_eq_true, Node.isNil_iff, Option.isNone_iff_eq_none] at h
    exact Or.inl ⟨rfl, rfl, rfl, h.1.1.1.1, h.1.1.1.2, h.1.1.2, h.1.2, h.2⟩
  · rename_i h
    simp only [Bool.and_eq_true, Node.isNil_iff, Option.isNone_iff_eq_none] at h
    refine Or.inr ⟨rfl, rfl, rfl, ?_⟩
    intro g; exact h ⟨⟨⟨⟨g.1, g.2.1⟩, g.2.2.1⟩, g.2.2.2.1⟩, g.2.2.2.2⟩

@[simp] theorem rebuild_hit (tr : Triple) (c : Nat) (d : Option Entry) (l m r : Node) (q : RemRes) :
    (rebuild tr c d l m r q).hit = q.hit := by unfold rebuild; split <;> rfl

/-- a slot is emptied only by pruning -/
theorem remAt_nil_pruned (t : Node) (p : Path) (mem : Mem) (h : (t.remAt tr p mem).node = .nil) :
    (t.remAt tr p mem).pruned = true ∨ t = .nil := by
  cases t with
  | nil => exact Or.inr rfl
  | node c d l m r =>
    left
    cases p with
    | nil =>
      simp only [Node.remAt] at h ⊢
      cases d with
      | none => simp at h
      | some e => simp only at h ⊢; split at h <;> simp_all
    | cons dir p =>
      cases dir <;> simp only [Node.remAt] at h ⊢
      · rcases rebuild_cases tr c d (l.remAt tr p mem).node m r (l.remAt tr p mem) with g | g
        · exact g.2.1
        · rw [g.1] at h; cases h
      · rcases rebuild_cases tr c d l (m.remAt tr p mem).node r (m.remAt tr p mem) with g | g
        · exact g.2.1
        · rw [g.1] at h; cases h
      · rcases rebuild_cases tr c d l m (r.remAt tr p mem).node (r.remAt tr p mem) with g | g
        · exact g.2.1
        · rw [g.1] at h; cases h

theorem lookup_nil (k : Key) : Node.nil.lookup cmp k = none := by simp [Node.lookup]

/-- **remove / lookup**: removing the key found at `p` makes exactly that key absent; pruning never
detaches another key's path -/
theorem lookup_remAt (hc : CmpLaw cmp) (t : Node) (k k' : Key) (p : Path) (mem : Mem) (e : Entry)
    (hk : k ≠ []) (hk' : k' ≠ []) (hp : t.findPath cmp k = some p) (hd : (t.sub p).data? = some e) :
    (t.remAt tr p mem).node.lookup cmp k' = if k' = k then none else t.lookup cmp k' := by
  induction t generalizing k k' p with
  | nil => simp [Node.findPath] at hp
  | node c d l m r ihl ihm ihr =>
    cases k with
    | nil => exact absurd rfl hk
    | cons x xs =>
    cases k' with
    | nil => exact absurd rfl hk'
    | cons x' xs' =>
    simp only [Node.findPath] at hp
    cases hx : cmp x c <;> simp only [hx] at hp
    · -- the key continues in the left subtree
      cases hf : l.findPath cmp (x :: xs) with
      | none => simp [hf] at hp
      | some p' =>
        simp [hf] at hp; subst hp
        simp only [Node.sub] at hd
        have ih := fun k'' hk'' => ihl (x :: xs) k'' p' (by simp) hk'' hf hd
        simp only [Node.remAt]
        rcases rebuild_cases tr c d (l.remAt tr p' mem).node m r (l.remAt tr p' mem) with g | g
        · obtain ⟨g1, _, _, _, g2, g3, g4, g5⟩ := g
          rw [g1, lookup_nil]
          subst g3 g4 g5
          simp only [Node.lookup]
          cases hx' : cmp x' c <;> simp only []
          · have := ih (x' :: xs') (by simp); rw [g2, lookup_nil] at this; exact this
          · cases xs' <;> simp [Node.lookup]
          · simp [Node.lookup]
        · rw [g.1]
          simp only [Node.lookup]
          cases hx' : cmp x' c <;> simp only []
          · exact ih (x' :: xs') (by simp)
          · have : x' ≠ x := by intro e; subst e; rw [hx] at hx'; cases hx'
            simp [this]
          · have : x' ≠ x := by intro e; subst e; rw [hx] at hx'; cases hx'
            simp [this]
    · have hxc := (hc x c).mp hx; subst hxc
      cases xs with
      | nil =>
        simp at hp; subst hp
        simp only [Node.sub, Node.data?] at hd; subst hd
        simp only [Node.remAt]
        split
        · rename_i hnil
          simp only [Bool.and_eq_true, Node.isNil_iff] at hnil
          obtain ⟨⟨h1, h2⟩, h3⟩ := hnil; subst h1 h2 h3
          simp only [lookup_nil, Node.lookup]
          cases hx' : cmp x' x <;> simp only []
          · simp
          · have := (hc x' x).mp hx'; subst this
            cases xs' <;> simp [Node.lookup]
          · simp
        · simp only [Node.lookup]
          cases hx' : cmp x' x <;> simp only []
          · have := hc.ne_of_lt hx'; simp [this]
          · have := (hc x' x).mp hx'; subst this
            cases xs' <;> simp
          · have := hc.ne_of_gt hx'; simp [this]
      | cons y ys =>
        simp only [] at hp
        cases hf : m.findPath cmp (y :: ys) with
        | none => simp [hf] at hp
        | some p' =>
          simp [hf] at hp; subst hp
          simp only [Node.sub] at hd
          have ih := fun k'' hk'' => ihm (y :: ys) k'' p' (by simp) hk'' hf hd
          simp only [Node.remAt]
          rcases rebuild_cases tr x d l (m.remAt tr p' mem).node r (m.remAt tr p' mem) with g | g
          · obtain ⟨g1, _, _, _, g2, g3, g4, g5⟩ := g
            rw [g1, lookup_nil]
            subst g2 g4 g5
            simp only [Node.lookup]
            cases hx' : cmp x' x <;> simp only []
            · simp [Node.lookup]
            · have := (hc x' x).mp hx'; subst this
              cases xs' with
              | nil => simp
              | cons y' ys' =>
                have := ih (y' :: ys') (by simp); rw [g3, lookup_nil] at this
                simp only []; simpa using this
            · simp [Node.lookup]
          · rw [g.1]
            simp only [Node.lookup]
            cases hx' : cmp x' x <;> simp only []
            · have := hc.ne_of_lt hx'; simp [this]
            · have := (hc x' x).mp hx'; subst this
              cases xs' with
              | nil => simp
              | cons y' ys' => simp only []; rw [ih (y' :: ys') (by simp)]; simp
            · have := hc.ne_of_gt hx'; simp [this]
    · cases hf : r.findPath cmp (x :: xs) with
      | none => simp [hf] at hp
      | some p' =>
        simp [hf] at hp; subst hp
        simp only [Node.sub] at hd
        have ih := fun k'' hk'' => ihr (x :: xs) k'' p' (by simp) hk'' hf hd
        simp only [Node.remAt]
        rcases rebuild_cases tr c d l m (r.remAt tr p' mem).node (r.remAt tr p' mem) with g | g
        · obtain ⟨g1, _, _, _, g2, g3, g4, g5⟩ := g
          rw [g1, lookup_nil]
          subst g2 g3 g5
          simp only [Node.lookup]
          cases hx' : cmp x' c <;> simp only []
          · simp [Node.lookup]
          · cases xs' <;> simp [Node.lookup]
          · have := ih (x' :: xs') (by simp); rw [g4, lookup_nil] at this; exact this
        · rw [g.1]
          simp only [Node.lookup]
          cases hx' : cmp x' c <;> simp only []
          · have : x' ≠ x := by intro e; subst e; rw [hx] at hx'; cases hx'
            simp [this]
          · have : x' ≠ x := by intro e; subst e; rw [hx] at hx'; cases hx'
            simp [this]
          · exact ih (x' :: xs') (by simp)

theorem owned_node (c : Nat) (d : Option Entry) (l m r : Node) :
    (Node.node c d l m r).owned = 1 + (if d.isSome then 1 else 0) + l.owned + m.owned + r.owned := by
  simp only [Node.owned, Node.nodes, Node.marked]; omega

@[simp] theorem owned_nil : Node.nil.owned = 0 := rfl

/-- what `remove_eow_node` guarantees for a marked node: one entry less, every released block was
owned by the tree, no fault -/
def RemSpec (tr : Triple) (t : Node) (mem : Mem) (q : RemRes) : Prop :=
  q.hit = true ∧ q.node.marked + 1 = t.marked ∧ q.mem.liveT tr + t.owned = mem.liveT tr + q.node.owned ∧
  q.mem.fault = mem.fault ∧ q.node.owned < t.owned

theorem RemSpec.rebuild {c : Nat} {d : Option Entry} {l m r t' : Node} {mem : Mem} {q : RemRes}
    (old : Node) (hq : RemSpec tr t' mem q) (hl : old.owned ≤ mem.liveT tr)
    (hm : old.marked + q.node.marked = (Node.node c d l m r).marked + t'.marked)
    (hn : old.owned + q.node.owned = (Node.node c d l m r).owned + t'.owned) :
    RemSpec tr old mem (CC.TST.rebuild tr c d l m r q) := by
  obtain ⟨h1, h2, h3, h4, h6⟩ := hq
  rcases rebuild_cases tr c d l m r q with g | g
  · obtain ⟨g1, g2, g3, g4, g5, g6, g7, g8⟩ := g
    subst g5 g6 g7 g8
    simp only [owned_node, owned_nil, Node.marked] at hm hn
    have f := free_spec q.mem tr (by simp at *; omega)
    refine ⟨by simp [h1], ?_, ?_, ?_, ?_⟩
    · rw [g1]; simp [Node.marked] at *; omega
    · rw [g1, g3, f.1]; simp at *; omega
    · rw [g3, f.2, h4]
    · rw [g1]; simp at *; omega
  · obtain ⟨g1, g2, g3, g4⟩ := g
    refine ⟨by simp [h1], ?_, ?_, ?_, ?_⟩
    · rw [g1]; omega
    · rw [g1, g3]; omega
    · rw [g3, h4]
    · rw [g1]; omega

theorem remAt_spec (tr : Triple) (t : Node) (p : Path) (mem : Mem) (e : Entry)
    (hd : (t.sub p).data? = some e) (hl : t.owned ≤ mem.liveT tr) : RemSpec tr t mem (t.remAt tr p mem) := by
  induction t generalizing p with
  | nil => cases p <;> simp [Node.sub, Node.data?] at hd
  | node c d l m r ihl ihm ihr =>
    have hown := owned_node c d l m r
    cases p with
    | nil =>
      simp only [Node.sub, Node.data?] at hd; subst hd
      simp only [Node.remAt]
      simp only [Option.isSome_some, if_true] at hown
      have f1 := free_spec mem tr (by omega)
      split
      · rename_i hnil
        simp only [Bool.and_eq_true, Node.isNil_iff] at hnil
        obtain ⟨⟨h1, h2⟩, h3⟩ := hnil; subst h1 h2 h3
        have f2 := free_spec (mem.freeT tr) tr (by simp at hown; omega)
        simp only [RemSpec, Node.marked, owned_nil]
        simp at hown
        refine ⟨trivial, by simp, by rw [f2.1, f1.1]; omega, by rw [f2.2, f1.2], by omega⟩
      · simp only [RemSpec, Node.marked]
        have := owned_node c none l m r
        simp at this
        refine ⟨trivial, by simp; omega, by rw [f1.1]; omega, f1.2, by omega⟩
    | cons dir p =>
      cases dir <;> simp only [Node.sub] at hd <;> simp only [Node.remAt]
      · have ih := ihl p hd (by omega)
        exact ih.rebuild _ hl (by simp only [Node.marked]; have := ih.2.1; omega)
          (by rw [hown, owned_node]; have := ih.2.2.2.2; omega)
      · have ih := ihm p hd (by omega)
        exact ih.rebuild _ hl (by simp only [Node.marked]; have := ih.2.1; omega)
          (by rw [hown, owned_node]; have := ih.2.2.2.2; omega)
      · have ih := ihr p hd (by omega)
        exact ih.rebuild _ hl (by simp only [Node.marked]; have := ih.2.1; omega)
          (by rw [hown, owned_node]; have := ih.2.2.2.2; omega)

theorem heads_remAt (t : Node) (p : Path) (mem : Mem) : ∀ a ∈ (t.remAt tr p mem).node.heads, a ∈ t.heads := by
  induction t generalizing p with
  | nil => simp [Node.remAt, Node.heads]
  | node c d l m r ihl ihm ihr =>
    cases p with
    | nil =>
      simp only [Node.remAt]
      cases d with
      | none => simp
      | some e => simp only []; split <;> simp [Node.heads]
    | cons dir p =>
      cases dir <;> simp only [Node.remAt]
      · rcases rebuild_cases tr c d (l.remAt tr p mem).node m r (l.remAt tr p mem) with g | g <;> rw [g.1]
        · simp [Node.heads]
        · intro a ha
          simp only [Node.heads, List.mem_cons, List.mem_append] at ha ⊢
          rcases ha with ha | ha | ha
          · exact Or.inl ha
          · exact Or.inr (Or.inl (ihl p a ha))
          · exact Or.inr (Or.inr ha)
      · rcases rebuild_cases tr c d l (m.remAt tr p mem).node r (m.remAt tr p mem) with g | g <;> rw [g.1]
        · simp [Node.heads]
        · simp [Node.heads]
      · rcases rebuild_cases tr c d l m (r.remAt tr p mem).node (r.remAt tr p mem) with g | g <;> rw [g.1]
        · simp [Node.heads]
        · intro a ha
          simp only [Node.heads, List.mem_cons, List.mem_append] at ha ⊢
          rcases ha with ha | ha | ha
          · exact Or.inl ha
          · exact Or.inr (Or.inl ha)
          · exact Or.inr (Or.inr (ihr p a ha))

theorem ordered_remAt (t : Node) (p : Path) (mem : Mem) (ho : t.Ordered cmp) :
    (t.remAt tr p mem).node.Ordered cmp := by
  induction t generalizing p with
  | nil => simp [Node.remAt, Node.Ordered]
  | node c d l m r ihl ihm ihr =>
    obtain ⟨hl, hr, ol, om, or⟩ := ho
    cases p with
    | nil =>
      simp only [Node.remAt]
      cases d with
      | none => exact ⟨hl, hr, ol, om, or⟩
      | some e =>
        simp only []; split
        · trivial
        · exact ⟨hl, hr, ol, om, or⟩
    | cons dir p =>
      cases dir <;> simp only [Node.remAt]
      · rcases rebuild_cases tr c d (l.remAt tr p mem).node m r (l.remAt tr p mem) with g | g <;> rw [g.1]
        · trivial
        · exact ⟨fun a ha => hl a (heads_remAt l p mem a ha), hr, ihl p ol, om, or⟩
      · rcases rebuild_cases tr c d l (m.remAt tr p mem).node r (m.remAt tr p mem) with g | g <;> rw [g.1]
        · trivial
        · exact ⟨hl, hr, ol, ihm p om, or⟩
      · rcases rebuild_cases tr c d l m (r.remAt tr p mem).node (r.remAt tr p mem) with g | g <;> rw [g.1]
        · trivial
        · exact ⟨hl, fun a ha => hr a (heads_remAt r p mem a ha), ol, om, ihr p or⟩

/-- the pruning loop leaves no unmarked leaf behind -/
theorem pruned_remAt (t : Node) (p : Path) (mem : Mem) (hp : t.Pruned) : (t.remAt tr p mem).node.Pruned := by
  induction t generalizing p with
  | nil => simp [Node.remAt, Node.Pruned]
  | node c d l m r ihl ihm ihr =>
    obtain ⟨h0, pl, pm, pr⟩ := hp
    cases p with
    | nil =>
      simp only [Node.remAt]
      cases d with
      | none => exact ⟨h0, pl, pm, pr⟩
      | some e =>
        simp only []; split
        · trivial
        · rename_i h
          refine ⟨fun g => ?_, pl, pm, pr⟩
          simp only [Bool.and_eq_true] at h
          exact absurd ⟨⟨g.1, g.2.1⟩, g.2.2⟩ h
    | cons dir p =>
      cases dir <;> simp only [Node.remAt]
      · rcases rebuild_cases tr c d (l.remAt tr p mem).node m r (l.remAt tr p mem) with g | g <;> rw [g.1]
        · trivial
        · refine ⟨fun h => ?_, ihl p pl, pm, pr⟩
          simp only [Node.isNil_iff] at h h0
          rcases remAt_nil_pruned l p mem h.1 with h1 | h1
          · cases hd : d with
            | none => exact absurd ⟨h1, h.1, h.2.1, h.2.2, hd⟩ g.2.2.2
            | some e => rfl
          · exact h0 ⟨h1, h.2.1, h.2.2⟩
      · rcases rebuild_cases tr c d l (m.remAt tr p mem).node r (m.remAt tr p mem) with g | g <;> rw [g.1]
        · trivial
        · refine ⟨fun h => ?_, pl, ihm p pm, pr⟩
          simp only [Node.isNil_iff] at h h0
          rcases remAt_nil_pruned m p mem h.2.1 with h1 | h1
          · cases hd : d with
            | none => exact absurd ⟨h1, h.1, h.2.1, h.2.2, hd⟩ g.2.2.2
            | some e => rfl
          · exact h0 ⟨h.1, h1, h.2.2⟩
      · rcases rebuild_cases tr c d l m (r.remAt tr p mem).node (r.remAt tr p mem) with g | g <;> rw [g.1]
        · trivial
        · refine ⟨fun h => ?_, pl, pm, ihr p pr⟩
          simp only [Node.isNil_iff] at h h0
          rcases remAt_nil_pruned r p mem h.2.2 with h1 | h1
          · cases hd : d with
            | none => exact absurd ⟨h1, h.1, h.2.1, h.2.2, hd⟩ g.2.2.2
            | some e => rfl
          · exact h0 ⟨h.1, h.2.1, h1⟩

theorem keysOk_remAt (hc : CmpLaw cmp) (t : Node) (k : Key) (p : Path) (mem : Mem) (e : Entry)
    (hk : k ≠ []) (hp : t.findPath cmp k = some p) (hd : (t.sub p).data? = some e)
    (ho : t.Ordered cmp) (hko : t.KeysOk) : (t.remAt tr p mem).node.KeysOk := by
  intro x hx
  have h := lookup_of_mem_entries hc _ (ordered_remAt t p mem ho) x hx
  rw [lookup_remAt hc t k x.1 p mem e hk (entries_key_ne_nil _ x hx) hp hd] at h
  split at h
  · cases h
  · exact hko x (mem_entries_of_lookup hc t x.1 x.2 (entries_key_ne_nil _ x hx) h)

/-! ### remove_all -/

theorem freeAll_spec (tr : Triple) (t : Node) (s : Nat) (mem : Mem) (hs : t.marked ≤ s) (hl : t.owned ≤ mem.liveT tr) :
    (t.freeAll tr s mem).1 = s - t.marked ∧ (t.freeAll tr s mem).2.liveT tr = mem.liveT tr - t.owned ∧
    (t.freeAll tr s mem).2.fault = mem.fault := by
  induction t generalizing s mem with
  | nil => simp [Node.freeAll, Node.marked]
  | node c d l m r ihl ihm ihr =>
    have hown := owned_node c d l m r
    simp only [Node.marked] at hs
    have a := ihl s mem (by omega) (by omega)
    have b := ihm (l.freeAll tr s mem).1 (l.freeAll tr s mem).2 (by omega) (by omega)
    have c' := ihr (m.freeAll tr (l.freeAll tr s mem).1 (l.freeAll tr s mem).2).1 (m.freeAll tr (l.freeAll tr s mem).1 (l.freeAll tr s mem).2).2
      (by omega) (by omega)
    simp only [Node.freeAll, Node.marked]
    cases d with
    | none =>
      simp at hown hs
      have f := free_spec (r.freeAll tr (m.freeAll tr (l.freeAll tr s mem).1 (l.freeAll tr s mem).2).1 (m.freeAll tr (l.freeAll tr s mem).1 (l.freeAll tr s mem).2).2).2 tr (by omega)
      simp only []
      refine ⟨by simp; omega, by rw [f.1]; omega, ?_⟩
      rw [f.2, c'.2.2, b.2.2, a.2.2]
    | some e =>
      simp at hown hs
      have f := free_spec (r.freeAll tr (m.freeAll tr (l.freeAll tr s mem).1 (l.freeAll tr s mem).2).1 (m.freeAll tr (l.freeAll tr s mem).1 (l.freeAll tr s mem).2).2).2 tr (by omega)
      have f2 := free_spec ((r.freeAll tr (m.freeAll tr (l.freeAll tr s mem).1 (l.freeAll tr s mem).2).1 (m.freeAll tr (l.freeAll tr s mem).1 (l.freeAll tr s mem).2).2).2.freeT tr) tr (by omega)
      simp only []
      refine ⟨?_, by rw [f2.1, f.1]; omega, ?_⟩
      · simp only [decSize]; split <;> simp <;> omega
      · rw [f2.2, f.2, c'.2.2, b.2.2, a.2.2]

/-! ### the ideal map -/
namespace SpecLemmas
open CC.Spec

theorem lookup_filter_ne (k k' : SKey) (l : List (SKey × Nat)) (h : k' ≠ k) :
    List.lookup k' (l.filter fun e => e.1 != k) = List.lookup k' l := by
  induction l with
  | nil => rfl
  | cons a l ih =>
    obtain ⟨ak, av⟩ := a
    by_cases hak : ak = k
    · subst hak
      have : (k' == ak) = false := by simpa using h
      simp [List.filter, List.lookup, this, ih]
    · have : (ak != k) = true := by simpa using hak
      simp only [List.filter, this, List.lookup]
      cases k' == ak <;> simp [ih]

theorem lookup_filter_eq (k : SKey) (l : List (SKey × Nat)) :
    List.lookup k (l.filter fun e => e.1 != k) = none := by
  induction l with
  | nil => rfl
  | cons a l ih =>
    obtain ⟨ak, av⟩ := a
    by_cases hak : ak = k
    · subst hak; simp [List.filter, ih]
    · have h1 : (ak != k) = true := by simpa using hak
      have h2 : (k == ak) = false := by simpa using (fun h : k = ak => hak h.symm)
      simp [List.filter, h1, List.lookup, h2, ih]

theorem get_add (s : StrMap) (k k' : SKey) (v : Nat) :
    (s.add k v).get k' = if k' = k then some v else s.get k' := by
  unfold StrMap.add StrMap.get
  by_cases h : k' = k
  · subst h; simp [List.lookup]
  · have : (k' == k) = false := by simpa using h
    simp [List.lookup, this, h, lookup_filter_ne k k' s.items h]

theorem get_remove (s : StrMap) (k k' : SKey) :
    (s.remove k).get k' = if k' = k then none else s.get k' := by
  unfold StrMap.remove StrMap.get
  by_cases h : k' = k
  · subst h; simp [lookup_filter_eq]
  · simp [h, lookup_filter_ne k k' s.items h]

theorem wf_add (s : StrMap) (k : SKey) (v : Nat) (h : s.WF) : (s.add k v).WF := by
  unfold StrMap.WF StrMap.keys StrMap.add at *
  simp only [List.map_cons, List.nodup_cons]
  refine ⟨?_, ?_⟩
  · simp [List.mem_map, List.mem_filter]
  · exact (List.Pairwise.filter _ (List.pairwise_map.mp h)) |> List.pairwise_map.mpr

theorem wf_remove (s : StrMap) (k : SKey) (h : s.WF) : (s.remove k).WF := by
  unfold StrMap.WF StrMap.keys StrMap.remove at *
  exact (List.Pairwise.filter _ (List.pairwise_map.mp h)) |> List.pairwise_map.mpr

theorem mem_iff_lookup (l : List (SKey × Nat)) (h : (l.map (·.1)).Nodup) (k : SKey) (v : Nat) :
    (k, v) ∈ l ↔ List.lookup k l = some v := by
  induction l with
  | nil => simp [List.lookup]
  | cons a l ih =>
    obtain ⟨ak, av⟩ := a
    simp only [List.map_cons, List.nodup_cons] at h
    by_cases hk : k = ak
    · subst hk
      simp only [List.mem_cons, Prod.mk.injEq, true_and, List.lookup, beq_self_eq_true, Option.some.injEq]
      constructor
      · rintro (h1 | h1)
        · exact h1.symm
        · exact absurd (List.mem_map.mpr ⟨(k, v), h1, rfl⟩) h.1
      · intro h1; exact Or.inl h1.symm
    · have : (k == ak) = false := by simpa using hk
      simp [List.lookup, this, hk, ih h.2]

/-- in a well-formed association list membership and lookup agree -/
theorem mem_iff_get (s : StrMap) (h : s.WF) (k : SKey) (v : Nat) : (k, v) ∈ s.items ↔ s.get k = some v :=
  mem_iff_lookup s.items h k v

theorem nodup_items (s : StrMap) (h : s.WF) : s.items.Nodup := by
  unfold StrMap.WF StrMap.keys at h
  exact (List.pairwise_map.mp h).imp (by intro a b hab e; exact hab (by rw [e]))

/-- two well-formed maps with the same lookups hold the same pairs, up to order -/
theorem perm_of_get_eq (s1 s2 : StrMap) (h1 : s1.WF) (h2 : s2.WF) (h : ∀ k, s1.get k = s2.get k) :
    s1.items.Perm s2.items := by
  apply (List.perm_ext_iff_of_nodup (nodup_items s1 h1) (nodup_items s2 h2)).mpr
  intro ⟨k, v⟩
  rw [mem_iff_get s1 h1, mem_iff_get s2 h2, h k]

end SpecLemmas

/-! ### abstraction -/

theorem abs_wf (hc : CmpLaw cmp) (t : Table) (ho : t.root.Ordered cmp) (hko : t.root.KeysOk) : t.abs.WF := by
  unfold Spec.StrMap.WF Spec.StrMap.keys Table.abs
  simp only [List.map_map]
  apply List.pairwise_map.mpr
  apply (entries_distinct hc t.root ho).imp_of_mem
  intro a b ha hb hab
  simp only [Function.comp]
  rw [hko a ha, hko b hb]; exact hab

/-- the content seen through `abs` is what `lookup` finds (the empty key is not a key of the map) -/
theorem abs_get (hc : CmpLaw cmp) (t : Table) (ho : t.root.Ordered cmp) (hko : t.root.KeysOk) (k : Key) :
    t.abs.get k = if k = [] then none else (t.root.lookup cmp k).map (·.2) := by
  apply Option.ext
  intro v
  rw [← SpecLemmas.mem_iff_get _ (abs_wf hc t ho hko)]
  simp only [Table.abs, List.mem_map]
  constructor
  · rintro ⟨x, hx, hxe⟩
    have h1 := hko x hx
    have h2 := entries_key_ne_nil _ x hx
    have h3 := lookup_of_mem_entries hc _ ho x hx
    have : x.1 = k := by rw [← h1, hxe]
    subst this
    simp [h2, h3, hxe]
  · intro h
    split at h
    · cases h
    · rename_i hk
      cases hl : t.root.lookup cmp k with
      | none => simp [hl] at h
      | some e =>
        simp [hl] at h
        have hm := mem_entries_of_lookup hc _ k e hk hl
        have := hko _ hm
        simp at this
        exact ⟨(k, e), hm, by simp; exact Prod.ext this h⟩

theorem abs_size (t : Table) (hs : t.size = t.root.marked) : t.abs.size = t.size := by
  simp [Spec.StrMap.size, Table.abs, hs, marked_eq_length]

/-! ### table-level operations -/

theorem ins_unrefused (key : Key) (v : Nat) (t : Node) (ks : Key) (mem : Mem) (h : mem.sched = []) :
    (t.ins tr cmp key v ks mem).st = .ok := by
  induction t generalizing ks with
  | nil =>
    have a := allocChain_nil (tr := tr) (chainLen ks) 0 mem h
    have b := allocT_nil _ tr a.2
    simp [Node.ins, a.1, b.1]
  | node c d l m r ihl ihm ihr =>
    have hs : (setData tr key v c d l m r mem).st = .ok := by
      cases d with
      | some e => simp [setData]
      | none => simp [setData, (allocT_nil mem tr h).1]
    cases ks with
    | nil => simpa [Node.ins] using hs
    | cons x xs =>
      simp only [Node.ins]
      cases cmp x c <;> simp only []
      · exact ihl _
      · cases xs with
        | nil => exact hs
        | cons y ys => exact ihm _
      · exact ihr _

/-- the invariant used for histories that never mention the empty key -/
def Table.Good (cmp : Cmp) (t : Table) : Prop := t.Inv cmp ∧ t.root.KeysOk

instance (cmp : Cmp) (t : Table) : Decidable (t.Good cmp) := by unfold Table.Good; infer_instance

/-- the allocator ledger covers the table: header, nodes, entries (in the counter of the table's triple) -/
def Table.Owns (t : Table) (mem : Mem) : Prop := t.root.owned + 1 ≤ mem.liveT t.triple

@[simp] theorem Table.add_triple (t : Table) (key : Key) (v : Nat) (mem : Mem) :
    (t.add cmp key v mem).2.1.triple = t.triple := rfl

theorem Table.remove_triple (t : Table) (key : Key) (mem : Mem) :
    (t.remove cmp key mem).2.2.1.triple = t.triple := by
  simp only [Table.remove]
  split
  · rfl
  · split <;> rfl

@[simp] theorem Table.removeAll_triple (t : Table) (mem : Mem) : (t.removeAll mem).1.triple = t.triple := rfl

theorem Table.add_spec (hc : CmpLaw cmp) (t : Table) (key : Key) (v : Nat) (mem : Mem)
    (hk : key ≠ []) (hg : t.Good cmp) :
    ((t.add cmp key v mem).1 = .ok →
        (t.add cmp key v mem).2.1.Good cmp ∧
        (∀ k, (t.add cmp key v mem).2.1.abs.get k = (t.abs.add key v).get k) ∧
        (t.add cmp key v mem).2.2.liveT t.triple + t.root.owned =
          mem.liveT t.triple + (t.add cmp key v mem).2.1.root.owned) ∧
    ((t.add cmp key v mem).1 ≠ .ok →
        (t.add cmp key v mem).1 = .errAlloc ∧ (t.add cmp key v mem).2.1 = t ∧
        (t.add cmp key v mem).2.2.liveT t.triple = mem.liveT t.triple) ∧
    (t.add cmp key v mem).2.2.fault = mem.fault := by
  obtain ⟨⟨hs, hp, ho⟩, hko⟩ := hg
  have q := ins_spec (tr := t.triple) (cmp := cmp) key v t.root key mem
  unfold InsSpec at q
  simp only [Table.add]
  refine ⟨fun h => ?_, fun h => ?_, q.2.2⟩
  · obtain ⟨q1, q2, q3⟩ := q.1 h
    have ho' := ordered_insPure (cmp := cmp) (key, v) t.root key ho
    have hko' := keysOk_insPure hc key v t.root hk ho hko
    refine ⟨⟨⟨?_, ?_, ?_⟩, ?_⟩, ?_, q2⟩
    · simp only; rw [q3, hs]; split <;> rfl
    · simp only; rw [q1]; exact pruned_insPure _ _ _ hp
    · simp only; rw [q1]; exact ho'
    · simp only; rw [q1]; exact hko'
    · intro k
      rw [abs_get hc _ (by simp only; rw [q1]; exact ho') (by simp only; rw [q1]; exact hko'),
        SpecLemmas.get_add, abs_get hc t ho hko]
      simp only; rw [q1]
      by_cases hk0 : k = []
      · subst hk0; simp [Ne.symm hk]
      · rw [lookup_insPure hc _ _ _ _ hk hk0]
        simp only [hk0, if_false]
        split <;> simp
  · obtain ⟨q1, q2, q3, q4⟩ := q.2.1 h
    refine ⟨q1, ?_, q4⟩
    simp only [q2, q3]; rfl

theorem Table.add_unrefused (t : Table) (key : Key) (v : Nat) (mem : Mem) (h : mem.sched = []) :
    (t.add cmp key v mem).1 = .ok := ins_unrefused key v t.root key mem h

theorem Table.get_spec (hc : CmpLaw cmp) (t : Table) (key : Key) (hk : key ≠ []) (hg : t.Good cmp) :
    t.get cmp key = match t.abs.get key with
      | some v => (.ok, some v)
      | none => (.errKeyNotFound, none) := by
  obtain ⟨⟨hs, hp, ho⟩, hko⟩ := hg
  rw [abs_get hc t ho hko]
  simp only [hk, if_false, Table.get]
  cases t.root.lookup cmp key <;> simp

theorem Table.containsKey_spec (hc : CmpLaw cmp) (t : Table) (key : Key) (hk : key ≠ []) (hg : t.Good cmp) :
    t.containsKey cmp key = t.abs.contains key := by
  simp only [Table.containsKey, Table.get_spec hc t key hk hg, Spec.StrMap.contains]
  cases t.abs.get key <;> simp

/-- an absent key: `remove` returns at once, nothing is touched (no ledger hypothesis needed) -/
theorem Table.remove_absent (hc : CmpLaw cmp) (t : Table) (key : Key) (mem : Mem)
    (hk : key ≠ []) (hg : t.Good cmp) (hp : t.abs.get key = none) :
    t.remove cmp key mem = (.errKeyNotFound, none, t, mem) := by
  obtain ⟨⟨hs, hp', ho⟩, hko⟩ := hg
  rw [abs_get hc t ho hko] at hp
  simp only [hk, if_false] at hp
  have hlf := lookup_eq_findPath (cmp := cmp) t.root key
  simp only [Table.remove]
  cases hf : t.root.findPath cmp key with
  | none => rfl
  | some p =>
    simp only [hf, Option.bind_some] at hlf
    cases hd : (t.root.sub p).data? with
    | none => simp [hd]
    | some e => rw [hd] at hlf; rw [hlf] at hp; simp at hp

theorem Table.remove_spec (hc : CmpLaw cmp) (t : Table) (key : Key) (mem : Mem)
    (hk : key ≠ []) (hg : t.Good cmp) (hl : t.Owns mem) :
    match t.abs.get key with
    | none => t.remove cmp key mem = (.errKeyNotFound, none, t, mem)
    | some v =>
      (t.remove cmp key mem).1 = .ok ∧ (t.remove cmp key mem).2.1 = some v ∧
      (t.remove cmp key mem).2.2.1.Good cmp ∧
      (∀ k, (t.remove cmp key mem).2.2.1.abs.get k = (t.abs.remove key).get k) ∧
      (t.remove cmp key mem).2.2.2.liveT t.triple + t.root.owned =
        mem.liveT t.triple + (t.remove cmp key mem).2.2.1.root.owned ∧
      (t.remove cmp key mem).2.2.1.root.owned < t.root.owned ∧
      (t.remove cmp key mem).2.2.2.fault = mem.fault := by
  obtain ⟨⟨hs, hp, ho⟩, hko⟩ := hg
  rw [abs_get hc t ho hko]
  simp only [hk, if_false]
  have hlf := lookup_eq_findPath (cmp := cmp) t.root key
  simp only [Table.remove]
  cases hf : t.root.findPath cmp key with
  | none => simp [hf] at hlf; simp [hlf]
  | some p =>
    simp only [hf, Option.bind_some] at hlf
    cases hd : (t.root.sub p).data? with
    | none => rw [hd] at hlf; simp [hlf, hd]
    | some e =>
      rw [hd] at hlf
      simp only [hlf, Option.map_some, hd]
      have q := remAt_spec t.triple t.root p mem e hd (by unfold Table.Owns at hl; omega)
      obtain ⟨q1, q2, q3, q4, q6⟩ := q
      have ho' := ordered_remAt (tr := t.triple) (cmp := cmp) t.root p mem ho
      have hko' := keysOk_remAt (tr := t.triple) hc t.root key p mem e hk hf hd ho hko
      refine ⟨trivial, trivial, ⟨⟨?_, pruned_remAt _ _ _ hp, ho'⟩, hko'⟩, ?_, q3, ?_, q4⟩
      · simp only; rw [hs]; split <;> omega
      · intro k
        rw [abs_get hc _ ho' hko', SpecLemmas.get_remove, abs_get hc t ho hko]
        by_cases hk0 : k = []
        · subst hk0; simp
        · simp only [hk0, if_false]
          rw [lookup_remAt hc t.root key k p mem e hk hk0 hf hd]
          split <;> simp
      · exact q6

theorem Table.removeAll_spec (t : Table) (mem : Mem) (hs : t.size = t.root.marked) (hl : t.Owns mem) :
    (t.removeAll mem).1 = { t with size := 0, root := .nil } ∧
    (t.removeAll mem).2.liveT t.triple = mem.liveT t.triple - t.root.owned ∧
    (t.removeAll mem).2.fault = mem.fault := by
  have := freeAll_spec t.triple t.root t.size mem (by omega) (by unfold Table.Owns at hl; omega)
  simp only [Table.removeAll]
  refine ⟨?_, this.2.1, this.2.2⟩
  rw [this.1, hs]; simp

theorem Table.good_empty (tr : Triple) : (Table.mk 0 .nil tr).Good cmp := by
  refine ⟨⟨rfl, trivial, trivial⟩, ?_⟩
  intro x hx; simp [Node.entries] at hx

theorem Table.new_spec (tr : Triple) (mem : Mem) :
    ((Table.new tr mem).1 = .ok → (Table.new tr mem).2.1 = some ⟨0, .nil, tr⟩ ∧
        (Table.new tr mem).2.2.liveT tr = mem.liveT tr + 1) ∧
    ((Table.new tr mem).1 ≠ .ok → (Table.new tr mem).1 = .errAlloc ∧ (Table.new tr mem).2.1 = none ∧
        (Table.new tr mem).2.2.liveT tr = mem.liveT tr) ∧
    (Table.new tr mem).2.2.fault = mem.fault := by
  unfold Table.new
  rcases Bool.eq_false_or_eq_true (mem.allocT tr).1 with ha | ha
  · have a := allocT_fst_true mem tr ha; simp [ha, a]
  · have a := allocT_fst_false mem tr ha; simp [ha, a]

theorem Table.destroy_spec (t : Table) (mem : Mem) (hs : t.size = t.root.marked) (hl : t.Owns mem) :
    (t.destroy mem).liveT t.triple = mem.liveT t.triple - t.root.owned - 1 ∧ (t.destroy mem).fault = mem.fault := by
  have := Table.removeAll_spec t mem hs hl
  unfold Table.Owns at hl
  have f := free_spec (t.removeAll mem).2 t.triple (by omega)
  simp only [Table.destroy]
  exact ⟨by rw [f.1, this.2.1], by rw [f.2, this.2.2]⟩

/-! ### the structural invariant survives every call, the empty key included (X5 is a functional
defect, not a memory-safety one) -/

theorem Table.add_inv_any_key (t : Table) (key : Key) (v : Nat) (mem : Mem) (hi : t.Inv cmp) :
    (t.add cmp key v mem).2.1.Inv cmp ∧ (t.add cmp key v mem).2.2.fault = mem.fault ∧
    (t.add cmp key v mem).2.2.liveT t.triple + t.root.owned =
      mem.liveT t.triple + (t.add cmp key v mem).2.1.root.owned := by
  obtain ⟨hs, hp, ho⟩ := hi
  have q := ins_spec (tr := t.triple) (cmp := cmp) key v t.root key mem
  unfold InsSpec at q
  simp only [Table.add]
  by_cases h : (t.root.ins t.triple cmp key v key mem).st = .ok
  · obtain ⟨q1, q2, q3⟩ := q.1 h
    refine ⟨⟨?_, ?_, ?_⟩, q.2.2, q2⟩
    · simp only; rw [q3, hs]; split <;> rfl
    · simp only; rw [q1]; exact pruned_insPure _ _ _ hp
    · simp only; rw [q1]; exact ordered_insPure _ _ _ ho
  · obtain ⟨q1, q2, q3, q4⟩ := q.2.1 h
    refine ⟨?_, q.2.2, by rw [q2, q4]⟩
    simp only [q2, q3]; exact ⟨hs, hp, ho⟩

theorem Table.remove_inv_any_key (t : Table) (key : Key) (mem : Mem) (hi : t.Inv cmp) (hl : t.Owns mem) :
    (t.remove cmp key mem).2.2.1.Inv cmp ∧ (t.remove cmp key mem).2.2.2.fault = mem.fault ∧
    (t.remove cmp key mem).2.2.2.liveT t.triple + t.root.owned =
      mem.liveT t.triple + (t.remove cmp key mem).2.2.1.root.owned := by
  obtain ⟨hs, hp, ho⟩ := hi
  simp only [Table.remove]
  cases hf : t.root.findPath cmp key with
  | none => exact ⟨⟨hs, hp, ho⟩, rfl, rfl⟩
  | some p =>
    simp only []
    cases hd : (t.root.sub p).data? with
    | none => exact ⟨⟨hs, hp, ho⟩, rfl, rfl⟩
    | some e =>
      obtain ⟨q1, q2, q3, q4, q6⟩ := remAt_spec t.triple t.root p mem e hd (by unfold Table.Owns at hl; omega)
      refine ⟨⟨?_, pruned_remAt _ _ _ hp, ordered_remAt _ _ _ ho⟩, q4, q3⟩
      simp only; rw [hs]; split <;> omega

/-! ### refusals are never swallowed -/

theorem alloc_refused (m : Mem) (tr : Triple) :
    ((m.allocT tr).1 = true → (m.allocT tr).2.nrefused = m.nrefused) ∧
    ((m.allocT tr).1 = false → (m.allocT tr).2.nrefused = m.nrefused + 1) := by
  cases tr
  · simp only [Mem.allocT_conf]; unfold Mem.alloc; split <;> simp
  · exact ⟨fun _ => rfl, fun h => by cases h⟩

theorem free_refused (m : Mem) (tr : Triple) : (m.freeT tr).nrefused = m.nrefused := by
  cases tr
  · simp only [Mem.freeT_conf]; unfold Mem.free; split <;> rfl
  · simp only [Mem.freeT]; split <;> rfl

theorem freeN_refused (n : Nat) (m : Mem) : (freeN tr n m).nrefused = m.nrefused := by
  induction n generalizing m with
  | zero => rfl
  | succ n ih => simp only [freeN]; rw [ih, free_refused]

theorem allocChain_refused (todo made : Nat) (m : Mem) :
    ((allocChain tr todo made m).1 = true → (allocChain tr todo made m).2.nrefused = m.nrefused) ∧
    ((allocChain tr todo made m).1 = false → (allocChain tr todo made m).2.nrefused = m.nrefused + 1) := by
  induction todo generalizing made m with
  | zero => simp [allocChain]
  | succ n ih =>
    simp only [allocChain]
    have a := alloc_refused m tr
    rcases Bool.eq_false_or_eq_true (m.allocT tr).1 with ha | ha
    · have := ih (made + 1) (m.allocT tr).2
      simp only [ha, Bool.not_true, Bool.false_eq_true, if_false]
      rw [← a.1 ha]; exact this
    · simp only [ha, Bool.not_false, if_true]
      refine ⟨by simp, fun _ => ?_⟩
      rw [freeN_refused, a.2 ha]

/-- `add` reports `CC_ERR_ALLOC` exactly when one of its allocator requests was refused -/
def RefusedSpec (mem : Mem) (q : InsRes) : Prop :=
  (q.st = .ok → q.mem.nrefused = mem.nrefused) ∧ (q.st ≠ .ok → q.mem.nrefused = mem.nrefused + 1)

theorem setData_refused (key : Key) (v c : Nat) (d : Option Entry) (l m r : Node) (mem : Mem) :
    RefusedSpec mem (setData tr key v c d l m r mem) := by
  unfold RefusedSpec
  cases d with
  | some e0 => simp [setData]
  | none =>
    simp only [setData]
    have a := alloc_refused mem tr
    rcases Bool.eq_false_or_eq_true (mem.allocT tr).1 with ha | ha
    · simp [ha, a.1 ha]
    · simp [ha, a.2 ha]

theorem ins_refused (key : Key) (v : Nat) (t : Node) (ks : Key) (mem : Mem) :
    RefusedSpec mem (t.ins tr cmp key v ks mem) := by
  induction t generalizing ks with
  | nil =>
    unfold RefusedSpec
    simp only [Node.ins]
    have a := allocChain_refused (tr := tr) (chainLen ks) 0 mem
    rcases Bool.eq_false_or_eq_true (allocChain tr (chainLen ks) 0 mem).1 with ha | ha
    · have b := alloc_refused (allocChain tr (chainLen ks) 0 mem).2 tr
      rcases Bool.eq_false_or_eq_true ((allocChain tr (chainLen ks) 0 mem).2.allocT tr).1 with hb | hb
      · simp [ha, hb, b.1 hb, a.1 ha]
      · simp [ha, hb, freeN_refused, b.2 hb, a.1 ha]
    · simp [ha, a.2 ha]
  | node c d l m r ihl ihm ihr =>
    cases ks with
    | nil => simp only [Node.ins]; exact setData_refused key v c d l m r mem
    | cons x xs =>
      simp only [Node.ins]
      cases h : cmp x c <;> simp only []
      · exact ihl (x :: xs)
      · cases xs with
        | nil => exact setData_refused key v c d l m r mem
        | cons y ys => exact ihm (y :: ys)
      · exact ihr (x :: xs)

theorem Table.add_refused (t : Table) (key : Key) (v : Nat) (mem : Mem) :
    ((t.add cmp key v mem).1 = .ok → (t.add cmp key v mem).2.2.nrefused = mem.nrefused) ∧
    ((t.add cmp key v mem).1 ≠ .ok → (t.add cmp key v mem).2.2.nrefused = mem.nrefused + 1) :=
  ins_refused key v t.root key mem

/-- a table built on the C library's allocator is never refused -/
theorem Table.add_libc_ok (t : Table) (key : Key) (v : Nat) (mem : Mem) (h : t.triple = .libc) :
    (t.add cmp key v mem).1 = .ok := by
  have q := Table.add_refused (cmp := cmp) t key v mem
  by_cases hok : (t.add cmp key v mem).1 = .ok
  · exact hok
  · exfalso
    have h2 := q.2 hok
    -- no allocation through the C library changes `nrefused`
    have : ∀ (tn : Node) (ks : Key) (m : Mem), (tn.ins .libc cmp key v ks m).st = .ok := by
      intro tn
      induction tn with
      | nil =>
        intro ks m
        have hc : ∀ todo made m', (allocChain .libc todo made m').1 = true := by
          intro todo
          induction todo with
          | zero => intro _ _; rfl
          | succ n ih => intro made m'; simp only [allocChain, Mem.allocT]; exact ih _ _
        simp [Node.ins, hc, Mem.allocT]
      | node c d l m' r ihl ihm ihr =>
        intro ks m
        have hs : (setData .libc key v c d l m' r m).st = .ok := by cases d <;> simp [setData, Mem.allocT]
        cases ks with
        | nil => simpa [Node.ins] using hs
        | cons x xs =>
          simp only [Node.ins]
          cases cmp x c <;> simp only []
          · exact ihl _ _
          · cases xs with
            | nil => exact hs
            | cons y ys => exact ihm _ _
          · exact ihr _ _
    apply hok
    simp only [Table.add, h]
    exact this _ _ _

end CC.TST
