import CollectionsC.Proofs.PTreeWF
set_option linter.unusedSimpArgs false
set_option linter.unusedVariables false
namespace CC.PTree
open CC
open CC.Tree (Path Dir)

/-- replacing a subtree by one with the same root pointer needs no write to the node above -/
theorem Rep.replace_same_root {h h' : Heap} {t : ITree} (hr : Rep h t 0) (hnd : t.ids.Nodup) (q : Path)
    {x c a k v b} (hs : t.subtree q = .node x c a k v b) (s' : ITree) (hrid : s'.rid = x)
    (hout : ∀ i ∈ t.ids, i ∉ (t.subtree q).ids → h'.get i = h.get i)
    (hsub : Rep h' s' (parentAt t 0 q)) :
    Rep h' (t.replace q s') 0 := by
  refine hr.replace hnd q s' (fun i h0 hi _ => hout i h0 hi) hsub ?_
  intro q0 d hq
  subst hq
  obtain ⟨p1, p2, p3, p4⟩ := hr.parent_child hnd q0 d hs
  rw [hout _ (by
    have := ITree.rid_subtree_mem t q0
    have hpa : parentAt t 0 (q0 ++ [d]) = (t.subtree q0).rid := by simp [parentAt]
    rw [hpa] at p1 ⊢
    rcases this with h0 | hm
    · exact absurd h0 p1
    · exact hm) p2, hrid]
  cases d with
  | L => have := p3.2 rfl; simp only [withChild]; rw [← this]
  | R => have := p4.2 rfl; simp only [withChild]; rw [← this]

/-- **recolouring** the node at a position (`n->color = c'`) -/
theorem setColor_rep {st : PT} {t : ITree} (hr : Rep st.heap t 0) (hnd : t.ids.Nodup) (q : Path)
    {x c a k v b} (hs : t.subtree q = .node x c a k v b) (c' : Colour) :
    Rep (setColor st.heap x c') (t.replace q (.node x c' a k v b)) 0 ∧
    (∀ i, i ≠ x → (setColor st.heap x c').get i = st.heap.get i) := by
  have hsub := hr.sub q
  rw [hs] at hsub
  obtain ⟨hx0, hxr, ha, hb⟩ := hsub
  have hndS := ITree.ids_subtree_nodup t q hnd
  rw [hs] at hndS
  simp only [ITree.ids_node, List.nodup_cons, List.mem_append, not_or] at hndS
  have hget : ∀ i, i ≠ x → (setColor st.heap x c').get i = st.heap.get i := by
    intro i hi; simp [setColor, Heap.get_set, hi]
  refine ⟨?_, hget⟩
  refine hr.replace_same_root hnd q hs _ rfl ?_ ?_
  · intro i _ hi
    rw [hs] at hi
    exact hget i (fun e => hi (by simp [e]))
  · refine ⟨hx0, by simp [setColor, Heap.get_set, hxr], ?_, ?_⟩
    · exact ha.frame (fun i hi => hget i (fun e => hndS.1.1 (e ▸ hi)))
    · exact hb.frame (fun i hi => hget i (fun e => hndS.1.2 (e ▸ hi)))
end CC.PTree

namespace CC.PTree
open CC
open CC.Tree (Path Dir)

namespace ITree
theorem replace_append (t : ITree) (q1 q2 : Path) (s : ITree) :
    t.replace (q1 ++ q2) s = t.replace q1 ((t.subtree q1).replace q2 s) := by
  induction q1 generalizing t with
  | nil => simp
  | cons d q ih =>
    cases t with
    | nil => cases q2 <;> simp [replace]
    | node id c l k v r => cases d <;> simp [replace, ih]

theorem replace_replace (t : ITree) (q : Path) (a b : ITree) : (t.replace q a).replace q b = t.replace q b := by
  induction q generalizing t with
  | nil => simp
  | cons d q ih =>
    cases t with
    | nil => simp [replace]
    | node id c l k v r => cases d <;> simp [replace, ih]

theorem subtree_replace (t : ITree) (q : Path) (s : ITree) (h : t.subtree q ≠ nil) : (t.replace q s).subtree q = s := by
  induction q generalizing t with
  | nil => simp
  | cons d q ih =>
    cases t with
    | nil => simp at h
    | node id c l k v r =>
      cases d with
      | L => simp only [subtree_L] at h; simp [replace, ih l h]
      | R => simp only [subtree_R] at h; simp [replace, ih r h]

/-- replacing below a position does not change what is above or beside it -/
theorem subtree_replace_prefix (t : ITree) (q1 q2 : Path) (s : ITree) (h : t.subtree q1 ≠ nil) :
    (t.replace (q1 ++ q2) s).subtree q1 = (t.subtree q1).replace q2 s := by
  rw [replace_append, subtree_replace t q1 _ h]

def col : ITree → Colour
  | nil => .black
  | node _ c _ _ _ _ => c

theorem erase_col (t : ITree) : t.erase.col = t.col := by cases t <;> rfl
end ITree

/-- the colour read through a child pointer: the sentinel is black -/
theorem Rep.col_read {h : Heap} {t : ITree} {p : Nat} (hr : Rep h t p) (hS : (h.get 0).color = .black) :
    (h.get t.rid).color = t.col := by
  cases t with
  | nil => simpa [ITree.col] using hS
  | node id c l k v r => simp [ITree.col, hr.2.1]

theorem Represents.get_at {st : PT} {t : ITree} (h : Represents st t) (q : Path) {x c a k v b}
    (hs : t.subtree q = .node x c a k v b) :
    st.heap.get x = { key := k, value := v, color := c, left := a.rid, right := b.rid, parent := parentAt t 0 q } ∧
    x ≠ 0 := by
  have := h.rep.sub q
  rw [hs] at this
  exact ⟨this.2.1, this.1⟩

/-- a tree transformation below a position that keeps the set of nodes: `Represents` is kept -/
theorem Represents.of_rep {st st' : PT} {t : ITree} (h : Represents st t) (t' : ITree)
    (hrep : Rep st'.heap t' 0) (hroot : st'.root = t'.rid) (hperm : t'.ids.Perm t.ids)
    (h0 : st'.heap.get 0 = st.heap.get 0) (hsz : st'.size = st.size) (hfr : st'.fresh = st.fresh) :
    Represents st' t' :=
  ⟨hroot, hrep, (List.Perm.nodup_iff hperm).2 h.nodup, by rw [h0]; exact h.black, by rw [h0]; exact h.sent,
    by rw [hsz, h.size, hperm.length_eq], fun i hi => by rw [hfr]; exact h.fresh i (hperm.subset hi),
    by rw [hfr]; exact h.fresh_pos⟩

/-- recolouring keeps `Represents` -/
theorem setColor_represents {st : PT} {t : ITree} (h : Represents st t) (q : Path)
    {x c a k v b} (hs : t.subtree q = .node x c a k v b) (c' : Colour) :
    Represents { st with heap := setColor st.heap x c' } (t.replace q (.node x c' a k v b)) := by
  obtain ⟨r1, r2⟩ := setColor_rep h.rep h.nodup q hs c'
  have hx0 := (h.get_at q hs).2
  refine h.of_rep _ r1 ?_ ?_ (r2 0 (Ne.symm hx0)) rfl rfl
  · show st.root = _
    rw [h.root]
    cases q with
    | nil => simp at hs ⊢; rw [hs]; rfl
    | cons d q' => exact (ITree.rid_replace_cons t d q' _).symm
  · refine ITree.ids_replace_perm t q _ ?_
    rw [hs]; exact List.Perm.refl _
end CC.PTree
