import CollectionsC.Proofs.PTreeTransplant
namespace CC.Tree
/-- the tree with the subtree at a position replaced -/
def replaceAt : Tree → Path → Tree → Tree
  | _, [], s => s
  | nil, _ :: _, _ => nil
  | node c l k v r, .L :: p, s => node c (replaceAt l p s) k v r
  | node c l k v r, .R :: p, s => node c l k v (replaceAt r p s)
/-- a left rotation at the root: `x` with right child `y` becomes `y` with left child `x` (colours travel
with their nodes) -/
def rotL : Tree → Tree
  | node cx a kx vx (node cy b ky vy c) => node cy (node cx a kx vx b) ky vy c
  | t => t
/-- a right rotation at the root -/
def rotR : Tree → Tree
  | node cx (node cy a ky vy b) kx vx c => node cy a ky vy (node cx b kx vx c)
  | t => t
end CC.Tree

namespace CC.PTree
open CC
open CC.Tree (Path Dir)

namespace ITree
theorem erase_replace (t : ITree) (q : Path) (s : ITree) :
    (t.replace q s).erase = Tree.replaceAt t.erase q s.erase := by
  induction q generalizing t with
  | nil => simp [Tree.replaceAt]
  | cons d q ih =>
    cases t with
    | nil => simp [replace, erase, Tree.replaceAt]
    | node id c l k v r => cases d <;> simp [replace, erase, Tree.replaceAt, ih]

theorem ids_replace_perm (t : ITree) (q : Path) (s : ITree) (hq : (t.subtree q).ids.Perm s.ids) :
    (t.replace q s).ids.Perm t.ids := by
  induction q generalizing t with
  | nil => simpa using hq.symm
  | cons d q ih =>
    cases t with
    | nil => simp [replace]
    | node id c l k v r =>
      cases d with
      | L =>
        simp only [replace, ids_node, subtree_L] at hq ⊢
        exact List.Perm.cons _ (List.Perm.append_right _ (ih l hq))
      | R =>
        simp only [replace, ids_node, subtree_R] at hq ⊢
        exact List.Perm.cons _ (List.Perm.append_left _ (ih r hq))

/-- replacing a subtree by a tree made of some of its nodes keeps the nodes distinct and adds none -/
theorem ids_replace_nodup (t : ITree) (q : Path) (s : ITree) (hnd : t.ids.Nodup) (hs : s.ids.Nodup)
    (hin : ∀ i ∈ s.ids, i ∈ (t.subtree q).ids) :
    (t.replace q s).ids.Nodup ∧ ∀ i ∈ (t.replace q s).ids, i ∈ t.ids := by
  induction q generalizing t with
  | nil => simp only [subtree_root] at hin; simpa using ⟨hs, hin⟩
  | cons d q ih =>
    cases t with
    | nil => simp [replace]
    | node id c l k v r =>
      simp only [ids_node, List.nodup_cons, List.mem_append, not_or, List.nodup_append] at hnd
      obtain ⟨⟨h1, h2⟩, h3, h4, h5⟩ := hnd
      cases d with
      | L =>
        obtain ⟨i1, i2⟩ := ih l h3 (by simpa using hin)
        simp only [replace, ids_node, List.nodup_cons, List.mem_append, not_or, List.nodup_append, List.mem_cons]
        refine ⟨⟨⟨fun hm => h1 (i2 _ hm), h2⟩, i1, h4, fun a ha b hb => h5 a (i2 a ha) b hb⟩, ?_⟩
        intro i hi
        rcases hi with e | e | e
        · exact Or.inl e
        · exact Or.inr (Or.inl (i2 i e))
        · exact Or.inr (Or.inr e)
      | R =>
        obtain ⟨i1, i2⟩ := ih r h4 (by simpa using hin)
        simp only [replace, ids_node, List.nodup_cons, List.mem_append, not_or, List.nodup_append, List.mem_cons]
        refine ⟨⟨⟨h1, fun hm => h2 (i2 _ hm)⟩, h3, i1, fun a ha b hb => h5 a ha b (i2 b hb)⟩, ?_⟩
        intro i hi
        rcases hi with e | e | e
        · exact Or.inl e
        · exact Or.inr (Or.inl e)
        · exact Or.inr (Or.inr (i2 i e))

theorem height_subtree_le (t : ITree) (q : Path) : (t.subtree q).height ≤ t.height := by
  induction q generalizing t with
  | nil => simp
  | cons d q ih =>
    cases t with
    | nil => simp
    | node id c l k v r =>
      cases d with
      | L => have := ih l; simp only [subtree_L, height]; omega
      | R => have := ih r; simp only [subtree_R, height]; omega

theorem length_lt_height (t : ITree) (q : Path) (h : t.subtree q ≠ .nil) : q.length < t.height := by
  induction q generalizing t with
  | nil => cases t with
           | nil => simp at h
           | node _ _ _ _ _ _ => simp [height]
  | cons d q ih =>
    cases t with
    | nil => simp at h
    | node id c l k v r =>
      cases d with
      | L => have := ih l (by simpa using h); simp only [height, List.length_cons]; omega
      | R => have := ih r (by simpa using h); simp only [height, List.length_cons]; omega

theorem height_le_ids (t : ITree) : t.height ≤ t.ids.length := by
  induction t with
  | nil => simp [height]
  | node id c l k v r ihl ihr => simp only [height, ids_node, List.length_cons, List.length_append]; omega
end ITree

/-- the heap of `st` holds exactly the id-annotated tree `t`: `root` points to it, every node carries its
key, value, colour, both child pointers and the parent pointer, no node occurs twice, the sentinel is
black with zero key, value, `left`, `right` (its `parent` is scratch space), `size` counts the nodes and every id has been handed out by the allocator -/
structure Represents (st : PT) (t : ITree) : Prop where
  root  : st.root = t.rid
  rep   : Rep st.heap t 0
  nodup : t.ids.Nodup
  black : (st.heap.get 0).color = .black
  sent  : (st.heap.get 0).key = 0 ∧ (st.heap.get 0).value = 0 ∧ (st.heap.get 0).left = 0 ∧ (st.heap.get 0).right = 0
  size  : st.size = t.ids.length
  fresh : ∀ i ∈ t.ids, i < st.fresh
  fresh_pos : 0 < st.fresh

/-- well-formedness of a pointer-level table -/
def WF (st : PT) : Prop := ∃ t, Represents st t

theorem Represents.toTree {st : PT} {t : ITree} (h : Represents st t) : toTree st = t.erase := by
  unfold PTree.toTree
  rw [h.root]
  exact toTreeF_rep h.rep _ (by have := ITree.height_le_ids t; rw [h.size]; omega)

theorem new_represents : Represents PTree.new .nil :=
  ⟨rfl, trivial, List.nodup_nil, by simp [PTree.new, Heap.get_set], by simp [PTree.new, Heap.get_set], rfl, fun i hi => by simp at hi, by simp [PTree.new]⟩

/-- **`rotate_left` preserves well-formedness and commutes with the rotation of the inductive tree** -/
theorem rotateLeft_represents {st : PT} {t : ITree} (h : Represents st t) (q : Path) {x cx a kx vx y cy b ky vy c}
    (hs : t.subtree q = .node x cx a kx vx (.node y cy b ky vy c)) :
    Represents (rotateLeft st x) (t.replace q (.node y cy (.node x cx a kx vx b) ky vy c)) ∧
    toTree (rotateLeft st x) = Tree.replaceAt (toTree st) q (Tree.rotL (Tree.subtree (toTree st) q)) := by
  obtain ⟨r1, r2, r3, r4, r5⟩ := rotateLeft_rep h.rep h.root h.nodup q hs
  have hperm : (t.replace q (.node y cy (.node x cx a kx vx b) ky vy c)).ids.Perm t.ids := by
    refine ITree.ids_replace_perm t q _ ?_
    rw [hs]
    simp only [ITree.ids_node, List.cons_append, List.append_assoc]
    refine (List.perm_middle (l₁ := x :: a.ids) (a := y) (l₂ := b.ids ++ c.ids)).trans ?_
    exact List.Perm.refl _
  have hrep : Represents (rotateLeft st x) (t.replace q (.node y cy (.node x cx a kx vx b) ky vy c)) :=
    ⟨r2, r1, (List.Perm.nodup_iff hperm).2 h.nodup, by rw [r3]; exact h.black, by rw [r3]; exact h.sent, by rw [r4, h.size, hperm.length_eq],
      fun i hi => by rw [r5]; exact h.fresh i (hperm.subset hi), by rw [r5]; exact h.fresh_pos⟩
  refine ⟨hrep, ?_⟩
  rw [hrep.toTree, h.toTree, ITree.erase_replace, ← ITree.erase_subtree, hs]
  rfl

/-- **`rotate_right`**, the mirror image -/
theorem rotateRight_represents {st : PT} {t : ITree} (h : Represents st t) (q : Path) {x cx a kx vx y cy b ky vy c}
    (hs : t.subtree q = .node x cx (.node y cy a ky vy b) kx vx c) :
    Represents (rotateRight st x) (t.replace q (.node y cy a ky vy (.node x cx b kx vx c))) ∧
    toTree (rotateRight st x) = Tree.replaceAt (toTree st) q (Tree.rotR (Tree.subtree (toTree st) q)) := by
  obtain ⟨r1, r2, r3, r4, r5⟩ := rotateRight_rep h.rep h.root h.nodup q hs
  have hperm : (t.replace q (.node y cy a ky vy (.node x cx b kx vx c))).ids.Perm t.ids := by
    refine ITree.ids_replace_perm t q _ ?_
    rw [hs]
    simp only [ITree.ids_node, List.cons_append, List.append_assoc]
    exact (List.perm_middle (l₁ := y :: a.ids) (a := x) (l₂ := b.ids ++ c.ids)).symm
  have hrep : Represents (rotateRight st x) (t.replace q (.node y cy a ky vy (.node x cx b kx vx c))) :=
    ⟨r2, r1, (List.Perm.nodup_iff hperm).2 h.nodup, by rw [r3]; exact h.black, by rw [r3]; exact h.sent, by rw [r4, h.size, hperm.length_eq],
      fun i hi => by rw [r5]; exact h.fresh i (hperm.subset hi), by rw [r5]; exact h.fresh_pos⟩
  refine ⟨hrep, ?_⟩
  rw [hrep.toTree, h.toTree, ITree.erase_replace, ← ITree.erase_subtree, hs]
  rfl

/-- the walks on the heap agree with the path-based walks of the inductive model -/
theorem walks_agree {st : PT} {t : ITree} (h : Represents st t) (q : Path) {x c a k v b}
    (hs : t.subtree q = .node x c a k v b) :
    successor st.heap (st.size + 1) x =
      (match Tree.succPath (toTree st) q with | some s => (t.subtree s).rid | none => 0) ∧
    predecessor st.heap (st.size + 1) x =
      (match Tree.predPath (toTree st) q with | some s => (t.subtree s).rid | none => 0) := by
  have hf : t.height ≤ st.size + 1 := by have := ITree.height_le_ids t; rw [h.size]; omega
  rw [h.toTree]
  exact ⟨successor_rep h.rep h.nodup q hs _ hf, predecessor_rep h.rep h.nodup q hs _ hf⟩

/-- `tree_min(root)` / `tree_max(root)` are the nodes at `treeMinPath` / `treeMaxPath` -/
theorem min_max_agree {st : PT} {t : ITree} (h : Represents st t) :
    treeMin st.heap (st.size + 1) st.root = (t.subtree (Tree.treeMinPath (toTree st))).rid ∧
    treeMax st.heap (st.size + 1) st.root = (t.subtree (Tree.treeMaxPath (toTree st))).rid := by
  have hf : t.height ≤ st.size + 1 + 1 := by have := ITree.height_le_ids t; rw [h.size]; omega
  rw [h.toTree, h.root]
  cases t with
  | nil => simp [treeMin, treeMax, ITree.erase, Tree.treeMinPath, Tree.treeMaxPath]
  | node id c l k v r =>
    have h0 : id ≠ 0 := h.rep.1
    simp only [treeMin, treeMax, ITree.rid_node, S, h0, if_false]
    exact ⟨treeMinLoop_rep h.rep (by simp) _ hf, treeMaxLoop_rep h.rep (by simp) _ hf⟩
end CC.PTree
