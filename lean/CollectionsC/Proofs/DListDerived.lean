import CollectionsC.Proofs.DListBulk
/-! `cc_list.c` model, part 4: derived containers (sublist, copies, filter). -/
namespace CC.DList
open CC Chain
open CC.Spec

/-- what `buildLoop` appends for a run of source elements -/
def selMap (sel : Nat → Option Nat) (xs : List Nat) : List Nat := xs.filterMap sel

/-- allocation behaviour of a loop of `add` calls that destroys the partial result on a refusal:
`need` nodes are still to be added to a result that already owns `have_ + 1` blocks -/
def Mem.buildChain (t : Triple) : Nat → Nat → Mem → Bool × Mem
  | 0, _, m => (true, m)
  | k + 1, got, m =>
    let a := (m.allocT t)
    if !a.1 then (false, Mem.freeN t (got + 1) a.2) else Mem.buildChain t k (got + 1) a.2

theorem buildLoop_ofList (xs : List Nat) (sel : Nat → Option Nat) : ∀ (k j : Nat) (dst : List Nat) (m : Mem),
    j + k ≤ xs.length →
    buildLoop (ofList t xs) sel k (ptrAt xs.length j) (ofList t dst) m =
      let add := selMap sel ((xs.drop j).take k)
      let r := Mem.buildChain t add.length dst.length m
      if r.1 then (.ok, ofList t (dst ++ add), r.2) else (.errAlloc, {}, r.2)
  | 0, j, dst, m, _ => by simp [buildLoop, selMap, Mem.buildChain]
  | k + 1, j, dst, m, h => by
    have hj : j < xs.length := by omega
    rw [ptrAt_lt _ _ hj]
    simp only [buildLoop, ofList_nodes, Ptr.valid, hj, decide_true, Mem.check_true, data_some]
    have hn : Ptr.next xs.length (some j) = ptrAt xs.length (j + 1) := by
      rw [← ptrAt_lt _ _ hj, next_ptrAt _ _ hj]
    rw [hn, drop_eq_getD_cons xs j hj]
    simp only [List.take_succ_cons, selMap, List.filterMap_cons]
    obtain hs | ⟨y, hs⟩ : sel (xs.getD j 0) = none ∨ ∃ y, sel (xs.getD j 0) = some y := by
      cases sel (xs.getD j 0) <;> simp
    · simp only [hs]
      rw [buildLoop_ofList xs sel k (j + 1) dst m (by omega)]
      rfl
    · simp only [hs, addLast_ofList, LSeq.addLast, List.length_cons, Mem.buildChain]
      (try simp only [ofList_triple])
      by_cases ha : (m.allocT t).1 = true
      · simp only [ha, if_true, bne_self_eq_false, Bool.false_eq_true, if_false, Bool.not_true]
        rw [buildLoop_ofList xs sel k (j + 1) (dst ++ [y]) (m.allocT t).2 (by omega)]
        simp [selMap]
      · simp only [ha, Bool.not_false, if_true]
        have : (Stat.errAlloc != Stat.ok) = true := rfl
        simp [this, destroy_ofList]

theorem Mem.buildChain_spec (t : Triple) : ∀ (k got : Nat) (m : Mem), got + 1 ≤ m.liveT t →
    ((Mem.buildChain t k got m).1 = true → (Mem.buildChain t k got m).2.liveT t = m.liveT t + k) ∧
    ((Mem.buildChain t k got m).1 = false → (Mem.buildChain t k got m).2.liveT t = m.liveT t - (got + 1)) ∧
    (Mem.buildChain t k got m).2.fault = m.fault ∧ Mem.Frame t m (Mem.buildChain t k got m).2
  | 0, got, m, _ => by simp [Mem.buildChain, Mem.Frame.rfl']
  | k + 1, got, m, h => by
    simp only [Mem.buildChain]
    by_cases ha : (m.allocT t).1 = true
    · have e := Mem.allocT_fst_true m t ha
      have ih := Mem.buildChain_spec t k (got + 1) (m.allocT t).2 (by omega)
      simp only [ha, Bool.not_true, Bool.false_eq_true, if_false]
      refine ⟨fun h1 => by rw [ih.1 h1, e.1]; omega, fun h1 => by rw [ih.2.1 h1, e.1]; omega,
        by rw [ih.2.2.1, e.2], (Mem.frame_allocT t m).trans ih.2.2.2⟩
    · have ha' : (m.allocT t).1 = false := by simpa using ha
      have e := Mem.allocT_fst_false m t ha'
      have f := Mem.freeN_live t (got + 1) (m.allocT t).2 (by omega)
      simp only [ha', Bool.not_false, if_true]
      refine ⟨by simp, fun _ => by rw [f.1, e.1], by rw [f.2.1, e.2.1], (Mem.frame_allocT t m).trans f.2.2⟩

theorem selMap_some (xs : List Nat) : selMap some xs = xs := by simp [selMap]
theorem selMap_map (cp : Nat → Nat) (xs : List Nat) : selMap (fun v => some (cp v)) xs = xs.map cp := by
  simp [selMap, List.filterMap_eq_map']
theorem selMap_filter (p : Nat → Bool) (xs : List Nat) :
    selMap (fun v => if p v then some v else none) xs = xs.filter p := by
  simp only [selMap]
  induction xs with
  | nil => rfl
  | cons y ys ih => by_cases h : p y <;> simp [h, ih]

/-- common shape of the four builders: header allocation, then the filling loop -/
def builderResult (t : Triple) (add : List Nat) (m : Mem) : Stat × Option Chain × Mem :=
  if !(m.allocT t).1 then (.errAlloc, none, (m.allocT t).2) else
  let r := Mem.buildChain t add.length 0 (m.allocT t).2
  if r.1 then (.ok, some (ofList t add), r.2) else (.errAlloc, none, r.2)

theorem sublist_ofList (xs : List Nat) (b e : Nat) (m : Mem) :
    sublist (ofList t xs) b e m =
      match (LSeq.sublist xs b e).2 with
      | none => ((LSeq.sublist xs b e).1, none, m)
      | some add => builderResult t add m := by
  unfold sublist LSeq.sublist
  by_cases hr : b > e ∨ e ≥ xs.length
  · have : (decide (b > e) || decide (e ≥ xs.length)) = true := by simpa using hr
    simp [hr, this]
  · have : (decide (b > e) || decide (e ≥ (ofList t xs).size)) = false := by simpa using hr
    simp only [this, Bool.false_eq_true, if_false, hr, new_eq, builderResult]
    (try simp only [ofList_triple])
    by_cases ha : (m.allocT t).1 = true
    · have hb : b < xs.length := by omega
      simp only [ha, if_true, getNodeAt_ofList, hb, bne_self_eq_false, Bool.false_eq_true, if_false,
        Bool.not_true]
      rw [← ptrAt_lt _ _ hb, buildLoop_ofList xs some _ b [] (m.allocT t).2 (by omega)]
      simp only [selMap_some, List.nil_append, List.length_nil]
      generalize Mem.buildChain t (List.take (e - b + 1) (List.drop b xs)).length 0 (m.allocT t).2 = bc
      by_cases hc : bc.1 = true <;> simp [hc]
    · simp [ha]

theorem copy_ofList (cp : Nat → Nat) (xs : List Nat) (m : Mem) :
    copy cp (ofList t xs) m = builderResult t (LSeq.copyDeep cp xs) m := by
  unfold copy LSeq.copyDeep builderResult
  simp only [new_eq]
  (try simp only [ofList_triple])
  by_cases ha : (m.allocT t).1 = true
  · simp only [ha, if_true, Bool.not_true, Bool.false_eq_true, if_false, ofList_nodes]
    rw [ofList_head_ptrAt, buildLoop_ofList xs _ xs.length 0 [] (m.allocT t).2 (by omega)]
    simp only [selMap_map, List.drop_zero, List.take_length, List.nil_append, List.length_nil]
    generalize Mem.buildChain t (List.map cp xs).length 0 (m.allocT t).2 = bc
    by_cases hc : bc.1 = true <;> simp [hc]
  · simp [ha]

theorem filter_ofList (p : Nat → Bool) (xs : List Nat) (m : Mem) :
    filter p (ofList t xs) m =
      match (LSeq.filter p xs).2 with
      | none => ((LSeq.filter p xs).1, none, m)
      | some add => builderResult t add m := by
  unfold filter LSeq.filter
  by_cases hx : xs = []
  · simp [hx]
  have hxl := length_ne_zero_of_ne_nil hx
  simp only [ofList_size, hxl, if_false, hx, new_eq, builderResult]
  (try simp only [ofList_triple])
  by_cases ha : (m.allocT t).1 = true
  · simp only [ha, if_true, Bool.not_true, Bool.false_eq_true, if_false, ofList_nodes]
    rw [ofList_head_ptrAt, buildLoop_ofList xs _ xs.length 0 [] (m.allocT t).2 (by omega)]
    simp only [selMap_filter, List.drop_zero, List.take_length, List.nil_append, List.length_nil]
    generalize Mem.buildChain t (List.filter p xs).length 0 (m.allocT t).2 = bc
    by_cases hc : bc.1 = true <;> simp [hc]
  · simp [ha]
end CC.DList
