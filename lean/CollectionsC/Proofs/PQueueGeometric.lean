import CollectionsC.Proofs.PQueueCross
/-! Counting re-allocations of the priority queue for **every expansion factor > 1** (C20), the
`capacity + 1` fallback included — the port of `Proofs/ArrayGeometric.lean` (the arithmetic part is
the same and is repeated here so that this file depends on the queue's own development only).
A growth function with `c + c / k ≤ grow c` (factor `≥ 1 + 1/k`, rounded down) causes at most
`2k · (log2 (size + n) + 2)` re-allocations on `n` pushes, under every refusal schedule. -/
namespace CC.PQueue
open CC

/-- the capacity requested by `expand_capacity` below the wrap-around guard: the float product if it
makes progress, else one more slot -/
def capStep (grow : Nat → Nat) (c : Nat) : Nat := if grow c ≤ c then c + 1 else grow c

/-- `j` successive growth steps -/
def capIter (f : Nat → Nat) : Nat → Nat → Nat
  | 0, c => c
  | j + 1, c => capIter f j (f c)

theorem capIter_add (f : Nat → Nat) : ∀ a b c, capIter f (a + b) c = capIter f b (capIter f a c) := by
  intro a
  induction a with
  | zero => intro b c; simp [capIter]
  | succ a ih => intro b c; rw [Nat.succ_add]; simp only [capIter]; exact ih b (f c)

theorem newCapacity_eq_capStep (cmp : Nat → Nat → Int) (grow : Nat → Nat) (q : PQueue) (h : Inv' cmp q) :
    newCapacity grow q = capStep grow q.capacity := by
  have := h.2
  have : Gen.CC_MAX_ELEMENTS / ptrSize < Gen.CC_MAX_ELEMENTS / 2 := by decide
  unfold newCapacity capStep
  simp only
  split
  · rw [if_pos (by omega)]
  · rfl

/-- the buffers of `n` pushes: the number `r` of successful allocations on the queue's triple, the
final capacity as the `r`-th iterate of `capStep`, and every growth step taken at a capacity below
`size + n` -/
theorem pushAll_chain {cmp : Nat → Nat → Int} (tp : Spec.TotalPreorder cmp) (grow : Nat → Nat) (t : Triple) :
    ∀ (xs : List Nat) (q : PQueue) (m : Mem), Inv' cmp q → q.triple = t → 0 < m.liveT t →
    ∃ r, (pushAll cmp grow q xs m).2.allocsT t = m.allocsT t + r ∧
      (pushAll cmp grow q xs m).1.capacity = capIter (capStep grow) r q.capacity ∧
      (∀ j, j < r → capIter (capStep grow) j q.capacity < q.size + xs.length) ∧
      Inv' cmp (pushAll cmp grow q xs m).1 := by
  intro xs
  induction xs with
  | nil => intro q m h _ _; exact ⟨0, rfl, rfl, fun j hj => by omega, h⟩
  | cons x xs ih =>
    intro q m h ht hl
    simp only [pushAll, List.length_cons]
    have hl' : 0 < m.liveT q.triple := by rw [ht]; exact hl
    have hm := push_mem tp grow q x m h hl'
    rw [ht] at hm
    have hsp := push_spec tp grow q x m h hl'
    have ht' : (push cmp grow q x m).2.1.triple = t := by rw [push_triple, ht]
    have hinv' : Inv' cmp (push cmp grow q x m).2.1 := by
      rcases hsp with ⟨_, e, _⟩ | ⟨_, e⟩
      · exact e
      · rw [e]; exact h
    have hsize : (push cmp grow q x m).2.1.size ≤ q.size + 1 := by
      rcases hsp with ⟨_, _, _, e⟩ | ⟨_, e⟩
      · omega
      · rw [e]; omega
    obtain ⟨r, i1, i2, i3, i4⟩ := ih (push cmp grow q x m).2.1 (push cmp grow q x m).2.2 hinv' ht' (by rw [hm.1]; exact hl)
    rcases push_counts tp grow q x m h hl' with ⟨_, k1, k2⟩ | ⟨_, kfull, _, k1, _, k3⟩ | ⟨_, _, _, k1, _, k3⟩
    · have hn : (push cmp grow q x m).2.2.allocsT t = m.allocsT t := by rw [k1]
      rw [hn] at i1; rw [k2] at i2 i3
      exact ⟨r, i1, i2, fun j hj => by have := i3 j hj; omega, i4⟩
    · rw [ht] at k1
      rw [k1] at i1
      rw [k3, newCapacity_eq_capStep cmp grow q h] at i2 i3
      refine ⟨r + 1, by omega, i2, fun j hj => ?_, i4⟩
      cases j with
      | zero => simp only [capIter]; omega
      | succ j => simp only [capIter]; have := i3 j (by omega); omega
    · have hcap : (push cmp grow q x m).2.1.capacity = q.capacity := by rw [k3]
      have hsz : (push cmp grow q x m).2.1.size = q.size := by rw [k3]
      rw [ht] at k1
      rw [k1] at i1; rw [hcap] at i2 i3; rw [hsz] at i3
      exact ⟨r, i1, i2, fun j hj => by have := i3 j hj; omega, i4⟩

/-! ### the arithmetic -/

theorem capIter_lower (f : Nat → Nat) (B k : Nat) (hf : ∀ c, c < B → c + max 1 (c / k) ≤ f c) :
    ∀ j c, (∀ i, i < j → capIter f i c < B) → c + j * max 1 (c / k) ≤ capIter f j c := by
  intro j
  induction j with
  | zero => intro c _; simp [capIter]
  | succ j ih =>
    intro c hb
    simp only [capIter]
    have h0 : c < B := hb 0 (by omega)
    have h1 := hf c h0
    have h2 := ih (f c) (fun i hi => hb (i + 1) (by omega))
    have h3 : max 1 (c / k) ≤ max 1 (f c / k) := by
      have : c / k ≤ f c / k := Nat.div_le_div_right (by omega)
      omega
    have h4 : j * max 1 (c / k) ≤ j * max 1 (f c / k) := Nat.mul_le_mul_left _ h3
    rw [Nat.succ_mul]
    omega

theorem capIter_doubles (f : Nat → Nat) (B k : Nat) (hk : 1 ≤ k) (hf : ∀ c, c < B → c + max 1 (c / k) ≤ f c)
    (c : Nat) (hc : 2 * k ≤ c) (hb : ∀ i, i < 2 * k → capIter f i c < B) : 2 * c ≤ capIter f (2 * k) c := by
  have h := capIter_lower f B k hf (2 * k) c hb
  have h1 : 2 * k * (c / k) ≤ 2 * k * max 1 (c / k) := Nat.mul_le_mul_left _ (by omega)
  have h2 : c = k * (c / k) + c % k := (Nat.div_add_mod c k).symm
  have h3 : c % k < k := Nat.mod_lt _ (by omega)
  have h4 : 2 * k * (c / k) = 2 * (k * (c / k)) := Nat.mul_assoc _ _ _
  generalize k * (c / k) = p at h2 h4
  generalize 2 * k * (c / k) = q at h1 h4
  generalize 2 * k * max 1 (c / k) = q' at h h1
  omega

theorem capIter_count_big (f : Nat → Nat) (B k : Nat) (hk : 1 ≤ k) (hf : ∀ c, c < B → c + max 1 (c / k) ≤ f c) :
    ∀ e c r, 2 * k ≤ c → B ≤ c * 2 ^ e → (∀ j, j < r → capIter f j c < B) → r ≤ 2 * k * e := by
  intro e
  induction e with
  | zero =>
    intro c r _ hB hb
    cases r with
    | zero => omega
    | succ r => have := hb 0 (by omega); simp only [capIter] at this; omega
  | succ e ih =>
    intro c r hc hB hb
    rw [Nat.mul_succ]
    by_cases hr : r ≤ 2 * k
    · omega
    · have hd := capIter_doubles f B k hk hf c hc (fun i hi => hb i (by omega))
      have hB' : B ≤ capIter f (2 * k) c * 2 ^ e := by
        have : c * 2 ^ (e + 1) = 2 * c * 2 ^ e := by rw [Nat.pow_succ]; ac_rfl
        have : 2 * c * 2 ^ e ≤ capIter f (2 * k) c * 2 ^ e := Nat.mul_le_mul_right _ hd
        omega
      have := ih (capIter f (2 * k) c) (r - 2 * k) (by omega) hB' (fun j hj => by
        rw [← capIter_add]; exact hb _ (by omega))
      omega

theorem capIter_count (f : Nat → Nat) (B k : Nat) (hk : 1 ≤ k) (hf : ∀ c, c < B → c + max 1 (c / k) ≤ f c)
    (c r : Nat) (hc : 1 ≤ c) (hb : ∀ j, j < r → capIter f j c < B) : r ≤ 2 * k * (Nat.log2 B + 2) := by
  have e : 2 * k * (Nat.log2 B + 2) = 2 * k * (Nat.log2 B + 1) + 2 * k := by rw [← Nat.mul_succ]
  rw [e]
  by_cases hr : r ≤ 2 * k
  · omega
  · have hl := capIter_lower f B k hf (2 * k) c (fun i hi => hb i (by omega))
    have h1 : 2 * k * 1 ≤ 2 * k * max 1 (c / k) := Nat.mul_le_mul_left _ (by omega)
    have hB' : B ≤ capIter f (2 * k) c * 2 ^ (Nat.log2 B + 1) := by
      have h2 : B < 2 ^ (Nat.log2 B + 1) := Nat.lt_log2_self
      have h3 : 1 * 2 ^ (Nat.log2 B + 1) ≤ capIter f (2 * k) c * 2 ^ (Nat.log2 B + 1) :=
        Nat.mul_le_mul_right _ (by omega)
      omega
    have := capIter_count_big f B k hk hf (Nat.log2 B + 1) (capIter f (2 * k) c) (r - 2 * k) (by omega) hB'
      (fun j hj => by rw [← capIter_add]; exact hb _ (by omega))
    omega

theorem capStep_ge (grow : Nat → Nat) (k c : Nat) (h : c + c / k ≤ grow c) : c + max 1 (c / k) ≤ capStep grow c := by
  unfold capStep
  split <;> omega

/-- **re-allocation bound for every expansion factor > 1**: if the growth function multiplies every
capacity below `size + n` by at least `1 + 1/k` (`c + c / k ≤ grow c`; nothing is assumed where the
product makes no progress — the library then falls back to `capacity + 1`), then pushing any `n`
elements performs at most `2k · (log2 (size + n) + 2)` successful buffer allocations on the queue's
own triple, for every refusal schedule -/
theorem pushAll_realloc_geometric {cmp : Nat → Nat → Int} (tp : Spec.TotalPreorder cmp) (grow : Nat → Nat)
    (k : Nat) (hk : 1 ≤ k) (q : PQueue) (xs : List Nat) (m : Mem) (h : Inv' cmp q)
    (hl : 0 < m.liveT q.triple) (hd : ∀ c, c < q.size + xs.length → c + c / k ≤ grow c) :
    (pushAll cmp grow q xs m).2.allocsT q.triple - m.allocsT q.triple ≤ 2 * k * (Nat.log2 (q.size + xs.length) + 2) := by
  obtain ⟨r, h1, _, h3, _⟩ := pushAll_chain tp grow q.triple xs q m h rfl hl
  have := capIter_count (capStep grow) (q.size + xs.length) k hk
    (fun c hc => capStep_ge grow k c (hd c hc)) q.capacity r h.1.2.2.1 h3
  omega

end CC.PQueue
