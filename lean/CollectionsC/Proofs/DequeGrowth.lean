import CollectionsC.Proofs.DequeCross
import CollectionsC.Proofs.Growth
/-! Geometric growth of the deque (C20): the allocation count of a run of `add_first`/`add_last` calls is
the abstract capacity process `CC.Growth.appends` with `grow c = c << 1`. -/
namespace CC.Deque
open CC

/-- one insertion at an end: `(true, x)` = `add_first x` (the queue's enqueue), `(false, x)` = `add_last x` -/
def pushEnd (d : Deque) (fx : Bool × Nat) (m : Mem) : Stat × Deque × Mem :=
  if fx.1 then d.addFirst fx.2 m else d.addLast fx.2 m

/-- a run of insertions at the ends -/
def pushAll (d : Deque) (m : Mem) : List (Bool × Nat) → Deque × Mem
  | [] => (d, m)
  | fx :: rest => pushAll (pushEnd d fx m).2.1 (pushEnd d fx m).2.2 rest

/-- the ideal content after such a run -/
def pushAllSpec (l : List Nat) : List (Bool × Nat) → List Nat
  | [] => l
  | fx :: rest => pushAllSpec (if fx.1 then fx.2 :: l else l ++ [fx.2]) rest

/-- `capacity << 1` -/
def dbl (c : Nat) : Nat := 2 * c

theorem alloc_nil_eq (m : Mem) (hs : m.sched = []) :
    m.alloc.1 = true ∧ m.alloc.2.nalloc = m.nalloc + 1 ∧ m.alloc.2.sched = [] ∧ m.alloc.2.live = m.live + 1 := by
  unfold Mem.alloc; rw [hs]; exact ⟨rfl, rfl, rfl, rfl⟩

theorem free_nalloc (m : Mem) : m.free.nalloc = m.nalloc := by unfold Mem.free; split <;> rfl

/-- one insertion under a never-refusing allocator below the capacity limit: always `CC_OK`; the
buffer is re-allocated (exactly one allocator call, capacity doubled) iff the deque was full -/
theorem pushEnd_step (d : Deque) (fx : Bool × Nat) (m : Mem) (hi : d.Inv) (hs : m.sched = [])
    (hb : d.size < Gen.MAX_POW_TWO) :
    (pushEnd d fx m).1 = .ok ∧ (pushEnd d fx m).2.1.Inv ∧ (pushEnd d fx m).2.1.size = d.size + 1 ∧
    (pushEnd d fx m).2.1.abs = (if fx.1 then fx.2 :: d.abs else d.abs ++ [fx.2]) ∧
    (pushEnd d fx m).2.2.sched = [] ∧
    (d.size < d.cap → (pushEnd d fx m).2.1.cap = d.cap ∧ (pushEnd d fx m).2.2.nalloc = m.nalloc) ∧
    (¬ d.size < d.cap → (pushEnd d fx m).2.1.cap = dbl d.cap ∧ (pushEnd d fx m).2.2.nalloc = m.nalloc + 1) := by
  have hsz := hi.2.2.2.2.2
  obtain ⟨al1, al2, al3, al4⟩ := alloc_nil_eq m hs
  -- the ledger after the call, in both cases
  have hmem : ∀ (r : Stat × Deque × Mem), r.1 = .ok →
      (r = (if fx.1 then d.addFirst fx.2 m else d.addLast fx.2 m)) →
      (d.size < d.cap → r.2.2.nalloc = m.nalloc) ∧ (¬ d.size < d.cap → r.2.2.nalloc = m.nalloc + 1) := by
    intro r _ hr
    by_cases hlt : d.size < d.cap
    · refine ⟨fun _ => ?_, fun h => absurd hlt h⟩
      rw [hr]
      cases fx.1
      · simp only [Bool.false_eq_true, if_false]
        unfold addLast; rw [if_neg (by omega)]
        rw [(addLastCore_spec d fx.2 m hi hlt).2.2.2.1]
      · simp only [if_true]
        unfold addFirst; rw [if_neg (by omega)]
        rw [(addFirstCore_spec d fx.2 m hi hlt).2.2.2.1]
    · refine ⟨fun h => absurd h hlt, fun _ => ?_⟩
      have hfull : d.cap = d.size := by omega
      have hc : d.cap ≠ Gen.MAX_POW_TWO := by omega
      have he := expandCapacity_grow d m hc al1
      have heok : (d.expandCapacity m).1 = .ok := by rw [he]
      obtain ⟨e1, _, e3, e4, _⟩ := expandCapacity_ok d m hi heok
      have hcap2 : d.cap <<< 1 = 2 * d.cap := by simp [Nat.shiftLeft_eq]; omega
      have hcb := (copyBuffer_none d (Buf.mk (d.cap <<< 1)) m.alloc.2 hi (by simp [hcap2]; omega)).2.1
      have hemem : (d.expandCapacity m).2.2 = m.alloc.2.free := by rw [he]; simp only; rw [hcb]
      have hroom : (d.expandCapacity m).2.1.size < (d.expandCapacity m).2.1.cap := by
        rw [e3, e4]; have := Inv.cap_pos hi; omega
      rw [hr]
      cases fx.1
      · simp only [Bool.false_eq_true, if_false]
        unfold addLast; rw [if_pos hfull]
        have hne : ((d.expandCapacity m).1 != Stat.ok) = false := by simp [heok]
        simp only [hne, Bool.false_eq_true, if_false]
        rw [(addLastCore_spec _ fx.2 _ e1 hroom).2.2.2.1, hemem, free_nalloc, al2]
      · simp only [if_true]
        unfold addFirst; rw [if_pos (by omega)]
        have hne : ((d.expandCapacity m).1 != Stat.ok) = false := by simp [heok]
        simp only [hne, Bool.false_eq_true, if_false]
        rw [(addFirstCore_spec _ fx.2 _ e1 hroom).2.2.2.1, hemem, free_nalloc, al2]
  unfold pushEnd
  cases hfx : fx.1
  · simp only [Bool.false_eq_true, if_false]
    rcases addLast_spec d fx.2 m hi with ⟨a1, a2, a3, a4, a5, _⟩ | ⟨_, _, _, a4, a5⟩
    · have hm := hmem (d.addLast fx.2 m) a1 (by rw [hfx]; simp)
      have hsize : (d.addLast fx.2 m).2.1.size = d.size + 1 := by
        have := congrArg List.length a3; simpa using this
      refine ⟨a1, a2, hsize, a3, a4.2.2.2 hs, fun h => ⟨by rw [a5, if_neg (by omega)], hm.1 h⟩,
        fun h => ⟨by rw [a5, if_pos (by omega)]; rfl, hm.2 h⟩⟩
    · exfalso
      rcases a5 with a5 | a5
      · rw [a5] at al1; exact absurd al1 (by decide)
      · omega
  · simp only [if_true]
    rcases addFirst_spec d fx.2 m hi with ⟨a1, a2, a3, a4, a5, _⟩ | ⟨_, _, _, a4, a5⟩
    · have hm := hmem (d.addFirst fx.2 m) a1 (by rw [hfx]; simp)
      have hsize : (d.addFirst fx.2 m).2.1.size = d.size + 1 := by
        have := congrArg List.length a3; simpa using this
      refine ⟨a1, a2, hsize, a3, a4.2.2.2 hs, fun h => ⟨by rw [a5, if_neg (by omega)], hm.1 h⟩,
        fun h => ⟨by rw [a5, if_pos (by omega)]; rfl, hm.2 h⟩⟩
    · exfalso
      rcases a5 with a5 | a5
      · rw [a5] at al1; exact absurd al1 (by decide)
      · omega

/-- **the deque's growth is the abstract doubling process**: after any run of `n` insertions at the ends
(never-refusing allocator, below the capacity limit) size, capacity and the number of allocator calls are
those of `Growth.appends dbl size capacity n` -/
theorem pushAll_growth (l : List (Bool × Nat)) (d : Deque) (m : Mem) (hi : d.Inv) (hs : m.sched = [])
    (hb : d.size + l.length ≤ Gen.MAX_POW_TWO) :
    (pushAll d m l).1.Inv ∧ (pushAll d m l).1.abs = pushAllSpec d.abs l ∧
    (pushAll d m l).1.size = (Growth.appends dbl d.size d.cap l.length).size ∧
    (pushAll d m l).1.cap = (Growth.appends dbl d.size d.cap l.length).cap ∧
    (pushAll d m l).2.nalloc = m.nalloc + (Growth.appends dbl d.size d.cap l.length).reallocs ∧
    (pushAll d m l).2.sched = [] := by
  induction l generalizing d m with
  | nil => exact ⟨hi, rfl, rfl, rfl, rfl, hs⟩
  | cons fx rest ih =>
    simp only [List.length_cons] at hb
    obtain ⟨s1, s2, s3, s4, s5, s6, s7⟩ := pushEnd_step d fx m hi hs (by omega)
    obtain ⟨r1, r2, r3, r4, r5, r6⟩ := ih (pushEnd d fx m).2.1 (pushEnd d fx m).2.2 s2 s5 (by omega)
    simp only [pushAll, pushAllSpec, List.length_cons]
    rw [s4] at r2
    unfold Growth.appends
    by_cases hlt : d.size < d.cap
    · rw [if_pos hlt]
      obtain ⟨c1, c2⟩ := s6 hlt
      rw [s3, c1] at r3 r4 r5
      rw [c2] at r5
      exact ⟨r1, r2, r3, r4, r5, r6⟩
    · rw [if_neg hlt]
      obtain ⟨c1, c2⟩ := s7 hlt
      rw [s3, c1] at r3 r4 r5
      rw [c2] at r5
      exact ⟨r1, r2, r3, r4, by simp only; omega, r6⟩

/-- **O(log n) buffer re-allocations**: `n` insertions at the ends of a deque holding `size` elements make
at most `log2 (size + n) + 1` allocator calls, whatever the initial capacity and ring layout -/
theorem pushAll_realloc_log (l : List (Bool × Nat)) (d : Deque) (m : Mem) (hi : d.Inv) (hs : m.sched = [])
    (hb : d.size + l.length ≤ Gen.MAX_POW_TWO) :
    (pushAll d m l).2.nalloc - m.nalloc ≤ Nat.log2 (d.size + l.length) + 1 := by
  obtain ⟨_, _, _, _, r5, _⟩ := pushAll_growth l d m hi hs hb
  have := Growth.reallocs_le_log dbl (fun c => Nat.le_refl _) d.size d.cap l.length hi.2.2.2.2.2 (Inv.cap_pos hi)
  omega

end CC.Deque
