import CollectionsC.Proofs.DequeCross
import CollectionsC.Proofs.Growth
/-! Geometric growth of the deque (C20).  A run of `add_first`/`add_last` calls
* under **any** refusal schedule performs at most `log2 (size + n) + 1` successful buffer allocations
  (`pushAll_realloc_le`), and
* under a never-refusing allocator below the capacity limit is exactly the abstract capacity process
  `CC.Growth.appends` with `grow c = c << 1` (`pushAll_growth`).
Allocations are counted on the deque's own triple (`allocsOf d.triple`). -/
namespace CC.Deque
open CC

/-- one insertion at an end: `(true, x)` = `add_first x` (the queue's enqueue), `(false, x)` = `add_last x` -/
def pushEnd (d : Deque) (fx : Bool × Nat) (m : Mem) : Stat × Deque × Mem :=
  if fx.1 then d.addFirst fx.2 m else d.addLast fx.2 m

/-- a run of insertions at the ends (a refused one changes nothing and the run goes on) -/
def pushAll (d : Deque) (m : Mem) : List (Bool × Nat) → Deque × Mem
  | [] => (d, m)
  | fx :: rest => pushAll (pushEnd d fx m).2.1 (pushEnd d fx m).2.2 rest

/-- the ideal content after such a run when nothing is refused -/
def pushAllSpec (l : List Nat) : List (Bool × Nat) → List Nat
  | [] => l
  | fx :: rest => pushAllSpec (if fx.1 then fx.2 :: l else l ++ [fx.2]) rest

/-- `capacity << 1` -/
def dbl (c : Nat) : Nat := 2 * c

theorem pushEnd_triple (d : Deque) (fx : Bool × Nat) (m : Mem) : (pushEnd d fx m).2.1.triple = d.triple := by
  unfold pushEnd; split
  · exact addFirst_triple d _ m
  · exact addLast_triple d _ m

/-- the three things one insertion can do, with the exact allocation count on the deque's triple -/
theorem pushEnd_cases (d : Deque) (fx : Bool × Nat) (m : Mem) (hi : d.Inv) :
    ((pushEnd d fx m).1 = .ok ∧ (pushEnd d fx m).2.1.Inv ∧
      (pushEnd d fx m).2.1.abs = (if fx.1 then fx.2 :: d.abs else d.abs ++ [fx.2]) ∧
      memSame d.triple (pushEnd d fx m).2.2 m ∧
      ((d.size < d.cap ∧ (pushEnd d fx m).2.1.cap = d.cap ∧
          allocsOf d.triple (pushEnd d fx m).2.2 = allocsOf d.triple m) ∨
       (d.size = d.cap ∧ (pushEnd d fx m).2.1.cap = dbl d.cap ∧
          allocsOf d.triple (pushEnd d fx m).2.2 = allocsOf d.triple m + 1))) ∨
    ((pushEnd d fx m).1 = .errAlloc ∧ (pushEnd d fx m).2.1 = d ∧ memSame d.triple (pushEnd d fx m).2.2 m ∧
      allocsOf d.triple (pushEnd d fx m).2.2 = allocsOf d.triple m ∧ d.size = d.cap ∧
      ((m.allocT d.triple).1 = false ∨ d.cap = Gen.MAX_POW_TWO)) := by
  have hsz := hi.2.2.2.2.2
  -- the ledger after the call
  have hmem : (d.size < d.cap → (pushEnd d fx m).2.2 = m) ∧
      (d.size = d.cap → d.cap ≠ Gen.MAX_POW_TWO → (m.allocT d.triple).1 = true →
        (pushEnd d fx m).2.2 = (m.allocT d.triple).2.freeT d.triple) ∧
      (d.size = d.cap → d.cap ≠ Gen.MAX_POW_TWO → (m.allocT d.triple).1 = false →
        (pushEnd d fx m).2.2 = (m.allocT d.triple).2) ∧
      (d.size = d.cap → d.cap = Gen.MAX_POW_TWO → (pushEnd d fx m).2.2 = m) := by
    refine ⟨fun hlt => ?_, fun hfull hc ha => ?_, fun hfull hc ha => ?_, fun hfull hc => ?_⟩
    · unfold pushEnd
      cases fx.1
      · simp only [Bool.false_eq_true, if_false]
        unfold addLast; rw [if_neg (by omega)]
        exact (addLastCore_spec d fx.2 m hi hlt).2.2.2.1
      · simp only [if_true]
        unfold addFirst; rw [if_neg (by omega)]
        exact (addFirstCore_spec d fx.2 m hi hlt).2.2.2.1
    · have he := expandCapacity_grow d m hc ha
      have heok : (d.expandCapacity m).1 = .ok := by rw [he]
      obtain ⟨e1, _, e3, e4, _⟩ := expandCapacity_ok d m hi heok
      have hcap2 : d.cap <<< 1 = 2 * d.cap := by simp [Nat.shiftLeft_eq]; omega
      have hcb := (copyBuffer_none d (Buf.mk (d.cap <<< 1)) (m.allocT d.triple).2 hi (by simp [hcap2]; omega)).2.1
      have hemem : (d.expandCapacity m).2.2 = (m.allocT d.triple).2.freeT d.triple := by rw [he]; simp only; rw [hcb]
      have hroom : (d.expandCapacity m).2.1.size < (d.expandCapacity m).2.1.cap := by
        rw [e3, e4]; have := Inv.cap_pos hi; omega
      have hne : ((d.expandCapacity m).1 != Stat.ok) = false := by simp [heok]
      unfold pushEnd
      cases fx.1
      · simp only [Bool.false_eq_true, if_false]
        unfold addLast; rw [if_pos hfull.symm]
        simp only [hne, Bool.false_eq_true, if_false]
        rw [(addLastCore_spec _ fx.2 _ e1 hroom).2.2.2.1, hemem]
      · simp only [if_true]
        unfold addFirst; rw [if_pos (by omega)]
        simp only [hne, Bool.false_eq_true, if_false]
        rw [(addFirstCore_spec _ fx.2 _ e1 hroom).2.2.2.1, hemem]
    · have he := expandCapacity_refused d m hc ha
      unfold pushEnd
      cases fx.1
      · simp only [Bool.false_eq_true, if_false]
        unfold addLast; rw [if_pos hfull.symm, he]; rfl
      · simp only [if_true]
        unfold addFirst; rw [if_pos (by omega), he]; rfl
    · have he := expandCapacity_max d m hc
      unfold pushEnd
      cases fx.1
      · simp only [Bool.false_eq_true, if_false]
        unfold addLast; rw [if_pos hfull.symm, he]; rfl
      · simp only [if_true]
        unfold addFirst; rw [if_pos (by omega), he]; rfl
  obtain ⟨m1, m2, m3, m4⟩ := hmem
  have hal := allocT_allocsOf d.triple m
  -- status, state: from the two specs
  have hspec : ((pushEnd d fx m).1 = .ok ∧ (pushEnd d fx m).2.1.Inv ∧
        (pushEnd d fx m).2.1.abs = (if fx.1 then fx.2 :: d.abs else d.abs ++ [fx.2]) ∧
        memSame d.triple (pushEnd d fx m).2.2 m ∧
        (pushEnd d fx m).2.1.cap = (if d.size = d.cap then 2 * d.cap else d.cap) ∧
        (d.size = d.cap → (m.allocT d.triple).1 = true ∧ d.cap ≠ Gen.MAX_POW_TWO)) ∨
      ((pushEnd d fx m).1 = .errAlloc ∧ (pushEnd d fx m).2.1 = d ∧ memSame d.triple (pushEnd d fx m).2.2 m ∧
        d.size = d.cap ∧ ((m.allocT d.triple).1 = false ∨ d.cap = Gen.MAX_POW_TWO)) := by
    unfold pushEnd
    cases hfx : fx.1
    · simp only [Bool.false_eq_true, if_false]; exact addLast_spec d fx.2 m hi
    · simp only [if_true]; exact addFirst_spec d fx.2 m hi
  rcases hspec with ⟨a1, a2, a3, a4, a5, a6⟩ | ⟨a1, a2, a3, a4, a5⟩
  · left
    refine ⟨a1, a2, a3, a4, ?_⟩
    by_cases hlt : d.size < d.cap
    · exact Or.inl ⟨hlt, by rw [a5, if_neg (by omega)], by rw [m1 hlt]⟩
    · have hfull : d.size = d.cap := by omega
      obtain ⟨b1, b2⟩ := a6 hfull
      refine Or.inr ⟨hfull, by rw [a5, if_pos hfull]; rfl, ?_⟩
      rw [m2 hfull b2 b1, (freeT_allocsOf d.triple _).1, hal.1 b1]
  · right
    refine ⟨a1, a2, a3, ?_, a4, a5⟩
    by_cases hc : d.cap = Gen.MAX_POW_TWO
    · rw [m4 a4 hc]
    · rcases a5 with a5 | a5
      · rw [m3 a4 hc a5, hal.2 a5]
      · exact absurd a5 hc

/-- **any schedule**: the number of successful buffer allocations of a run of `n` insertions is
logarithmic — if there were `g ≥ 1` of them then `2^(g-1) · capacity ≤ size + n - 1` -/
theorem pushAll_doubling (l : List (Bool × Nat)) (d : Deque) (m : Mem) (hi : d.Inv) :
    (pushAll d m l).1.Inv ∧ (pushAll d m l).1.triple = d.triple ∧ (pushAll d m l).1.size ≤ d.size + l.length ∧
    d.cap ≤ (pushAll d m l).1.cap ∧ allocsOf d.triple m ≤ allocsOf d.triple (pushAll d m l).2 ∧
    memSame d.triple (pushAll d m l).2 m ∧
    (1 ≤ allocsOf d.triple (pushAll d m l).2 - allocsOf d.triple m →
      2 ^ (allocsOf d.triple (pushAll d m l).2 - allocsOf d.triple m - 1) * d.cap ≤ d.size + l.length - 1) := by
  induction l generalizing d m with
  | nil => exact ⟨hi, rfl, Nat.le_refl _, Nat.le_refl _, Nat.le_refl _, memSame_refl _ m, fun h => by simp [pushAll] at h⟩
  | cons fx rest ih =>
    have htr := pushEnd_triple d fx m
    simp only [pushAll, List.length_cons]
    rcases pushEnd_cases d fx m hi with ⟨_, s2, s3, s4, s5⟩ | ⟨_, s2, s3, s4, _⟩
    · obtain ⟨r1, r2, r3, r4, r5, r6, r7⟩ := ih (pushEnd d fx m).2.1 (pushEnd d fx m).2.2 s2
      rw [htr] at r2 r5 r6 r7
      have hsize : (pushEnd d fx m).2.1.size = d.size + 1 := by
        have := congrArg List.length s3
        rw [abs_length] at this
        rw [this]; split <;> simp
      rw [hsize] at r3 r7
      rcases s5 with ⟨c1, c2, c3⟩ | ⟨c1, c2, c3⟩
      · rw [c2] at r4 r7
        rw [c3] at r5 r7
        exact ⟨r1, r2, by omega, r4, r5, memSame_trans r6 s4, fun h => by have := r7 h; omega⟩
      · rw [c2] at r4 r7
        rw [c3] at r5 r7
        unfold dbl at r4 r7
        refine ⟨r1, r2, by omega, by omega, by omega, memSame_trans r6 s4, fun _ => ?_⟩
        by_cases hk : 1 ≤ allocsOf d.triple (pushAll (pushEnd d fx m).2.1 (pushEnd d fx m).2.2 rest).2 -
            (allocsOf d.triple m + 1)
        · have h3 := r7 hk
          have h5 : 2 ^ (allocsOf d.triple (pushAll (pushEnd d fx m).2.1 (pushEnd d fx m).2.2 rest).2 -
              allocsOf d.triple m - 1) = 2 ^ (allocsOf d.triple (pushAll (pushEnd d fx m).2.1
              (pushEnd d fx m).2.2 rest).2 - (allocsOf d.triple m + 1) - 1) * 2 := by
            rw [← Nat.pow_succ]; congr 1; omega
          rw [h5, Nat.mul_assoc]
          omega
        · have : allocsOf d.triple (pushAll (pushEnd d fx m).2.1 (pushEnd d fx m).2.2 rest).2 -
              allocsOf d.triple m - 1 = 0 := by omega
          rw [this]; simp; omega
    · obtain ⟨r1, r2, r3, r4, r5, r6, r7⟩ := ih (pushEnd d fx m).2.1 (pushEnd d fx m).2.2 (by rw [s2]; exact hi)
      rw [htr] at r2 r5 r6 r7
      have e1 : (pushEnd d fx m).2.1.size = d.size := by rw [s2]
      have e2 : (pushEnd d fx m).2.1.cap = d.cap := by rw [s2]
      rw [e1] at r3 r7
      rw [e2] at r4 r7
      rw [s4] at r5 r7
      exact ⟨r1, r2, by omega, r4, r5, memSame_trans r6 s3, fun h => by have := r7 h; omega⟩

/-- **O(log n) buffer re-allocations, every refusal schedule**: `n` insertions at the ends of a deque
holding `size` elements make at most `log2 (size + n) + 1` successful allocator calls, whatever the initial
capacity, ring layout and pattern of refusals -/
theorem pushAll_realloc_le (l : List (Bool × Nat)) (d : Deque) (m : Mem) (hi : d.Inv) :
    allocsOf d.triple (pushAll d m l).2 - allocsOf d.triple m ≤ Nat.log2 (d.size + l.length) + 1 := by
  obtain ⟨_, _, _, _, _, _, r7⟩ := pushAll_doubling l d m hi
  have hc := Inv.cap_pos hi
  by_cases hk : 1 ≤ allocsOf d.triple (pushAll d m l).2 - allocsOf d.triple m
  · have h3 := r7 hk
    have h4 : 2 ^ (allocsOf d.triple (pushAll d m l).2 - allocsOf d.triple m - 1) ≤ d.size + l.length := by
      have : 2 ^ (allocsOf d.triple (pushAll d m l).2 - allocsOf d.triple m - 1) * 1 ≤
          2 ^ (allocsOf d.triple (pushAll d m l).2 - allocsOf d.triple m - 1) * d.cap := Nat.mul_le_mul_left _ hc
      omega
    have hne : d.size + l.length ≠ 0 := by
      have : 0 < 2 ^ (allocsOf d.triple (pushAll d m l).2 - allocsOf d.triple m - 1) := Nat.pow_pos (by omega)
      omega
    have := (Nat.le_log2 hne).mpr h4
    omega
  · omega

/-- one insertion under a never-refusing allocator (C-library triple, or exhausted schedule) below the
capacity limit: always `CC_OK` -/
theorem pushEnd_step (d : Deque) (fx : Bool × Nat) (m : Mem) (hi : d.Inv) (hn : neverRefuses d.triple m)
    (hb : d.size < Gen.MAX_POW_TWO) :
    (pushEnd d fx m).1 = .ok ∧ (pushEnd d fx m).2.1.Inv ∧ (pushEnd d fx m).2.1.size = d.size + 1 ∧
    (pushEnd d fx m).2.1.abs = (if fx.1 then fx.2 :: d.abs else d.abs ++ [fx.2]) ∧
    neverRefuses d.triple (pushEnd d fx m).2.2 ∧
    (d.size < d.cap → (pushEnd d fx m).2.1.cap = d.cap ∧
      allocsOf d.triple (pushEnd d fx m).2.2 = allocsOf d.triple m) ∧
    (¬ d.size < d.cap → (pushEnd d fx m).2.1.cap = dbl d.cap ∧
      allocsOf d.triple (pushEnd d fx m).2.2 = allocsOf d.triple m + 1) := by
  have hsz := hi.2.2.2.2.2
  rcases pushEnd_cases d fx m hi with ⟨s1, s2, s3, s4, s5⟩ | ⟨_, _, _, _, s5, s6⟩
  · have hsize : (pushEnd d fx m).2.1.size = d.size + 1 := by
      have := congrArg List.length s3
      rw [abs_length] at this
      rw [this]; split <;> simp
    refine ⟨s1, s2, hsize, s3, memD_neverRefuses s4 hn, fun h => ?_, fun h => ?_⟩
    · rcases s5 with ⟨_, c2, c3⟩ | ⟨c1, _, _⟩
      · exact ⟨c2, c3⟩
      · omega
    · rcases s5 with ⟨c1, _, _⟩ | ⟨_, c2, c3⟩
      · exact absurd c1 h
      · exact ⟨c2, c3⟩
  · exfalso
    rcases s6 with s6 | s6
    · have := (allocT_of_neverRefuses d.triple m hn).1
      rw [s6] at this; exact absurd this (by decide)
    · omega

/-- **the deque's growth is the abstract doubling process**: after any run of `n` insertions at the ends
(never-refusing allocator, below the capacity limit) size, capacity and the number of allocator calls are
those of `Growth.appends dbl size capacity n` -/
theorem pushAll_growth (l : List (Bool × Nat)) (d : Deque) (m : Mem) (hi : d.Inv) (hn : neverRefuses d.triple m)
    (hb : d.size + l.length ≤ Gen.MAX_POW_TWO) :
    (pushAll d m l).1.Inv ∧ (pushAll d m l).1.abs = pushAllSpec d.abs l ∧
    (pushAll d m l).1.size = (Growth.appends dbl d.size d.cap l.length).size ∧
    (pushAll d m l).1.cap = (Growth.appends dbl d.size d.cap l.length).cap ∧
    allocsOf d.triple (pushAll d m l).2 =
      allocsOf d.triple m + (Growth.appends dbl d.size d.cap l.length).reallocs := by
  induction l generalizing d m with
  | nil => exact ⟨hi, rfl, rfl, rfl, rfl⟩
  | cons fx rest ih =>
    simp only [List.length_cons] at hb
    have htr := pushEnd_triple d fx m
    obtain ⟨s1, s2, s3, s4, s5, s6, s7⟩ := pushEnd_step d fx m hi hn (by omega)
    obtain ⟨r1, r2, r3, r4, r5⟩ := ih (pushEnd d fx m).2.1 (pushEnd d fx m).2.2 s2 (by rw [htr]; exact s5)
      (by omega)
    simp only [pushAll, pushAllSpec, List.length_cons]
    rw [s4] at r2
    rw [htr] at r5
    unfold Growth.appends
    by_cases hlt : d.size < d.cap
    · rw [if_pos hlt]
      obtain ⟨c1, c2⟩ := s6 hlt
      rw [s3, c1] at r3 r4 r5
      rw [c2] at r5
      exact ⟨r1, r2, r3, r4, r5⟩
    · rw [if_neg hlt]
      obtain ⟨c1, c2⟩ := s7 hlt
      rw [s3, c1] at r3 r4 r5
      rw [c2] at r5
      exact ⟨r1, r2, r3, r4, by simp only; omega⟩

end CC.Deque
