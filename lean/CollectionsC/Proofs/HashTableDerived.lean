import CollectionsC.Proofs.HashTable
/-! The arrays built by `cc_hashtable_get_keys` / `cc_hashtable_get_values` (C14/C15 for the hash
table): built with the table's allocator, one element per entry, capacity = size. -/
set_option maxHeartbeats 800000
namespace CC.DArr
open CC CC.HT CC.Spec

theorem firstN_succ (b : Buf Nat) (n : Nat) : b.firstN (n + 1) = b.firstN n ++ [b.get n] := by
  simp [Buf.firstN, List.range_succ]

theorem firstN_put (b : Buf Nat) (n i : Nat) (x : Nat) (h : n ≤ i) : (b.put i x).firstN n = b.firstN n := by
  unfold Buf.firstN
  apply List.map_congr_left
  intro j hj
  have : j < n := List.mem_range.mp hj
  exact Buf.get_put_ne _ _ _ _ (by omega)

/-- `cc_array_add` below capacity: appends, allocates nothing -/
theorem add_room (c : HCfg) (a : DArr) (x : Nat) (m : Mem) (h : a.Inv) (hr : a.size < a.cap) :
    (a.add c x m).1 = .ok ∧ (a.add c x m).2.1.Inv ∧ (a.add c x m).2.1.contents = a.contents ++ [x] ∧
    (a.add c x m).2.1.size = a.size + 1 ∧ (a.add c x m).2.1.cap = a.cap ∧ (a.add c x m).2.2 = m ∧
    (a.add c x m).2.1.triple = a.triple := by
  obtain ⟨h1, h2, h3⟩ := h
  have hge : ¬ a.size ≥ a.cap := by omega
  have hchk : decide (a.size < a.buf.length) = true := by simp; omega
  unfold add
  simp only [hge, if_false, ne_eq, not_true_eq_false, hchk, Mem.check_true]
  refine ⟨trivial, ⟨by simp only; omega, by simp [h2], h3⟩, ?_, trivial, trivial, trivial, trivial⟩
  unfold contents
  simp only
  rw [firstN_succ, firstN_put _ _ _ _ (Nat.le_refl _), Buf.get_put_eq _ _ _ (by omega)]

/-- the `cc_array_add` loop while there is room -/
theorem addAll_room (c : HCfg) (xs : List Nat) (a : DArr) (m : Mem) (h : a.Inv) (hr : a.size + xs.length ≤ a.cap) :
    (addAll c xs a m).1 = .ok ∧ (addAll c xs a m).2.1.Inv ∧ (addAll c xs a m).2.1.contents = a.contents ++ xs ∧
    (addAll c xs a m).2.1.cap = a.cap ∧ (addAll c xs a m).2.2 = m ∧ (addAll c xs a m).2.1.triple = a.triple := by
  induction xs generalizing a with
  | nil => simp [addAll, h]
  | cons x xs ih =>
    simp only [List.length_cons] at hr
    obtain ⟨a1, a2, a3, a4, a5, a6, a7⟩ := add_room c a x m h (by omega)
    unfold addAll
    simp only [a1, ne_eq, not_true_eq_false, if_false, a6]
    obtain ⟨b1, b2, b3, b4, b5, b6⟩ := ih (a.add c x m).2.1 a2 (by omega)
    refine ⟨b1, b2, by rw [b3, a3]; simp, by rw [b4, a5], b5, by rw [b6, a7]⟩

end CC.DArr

namespace CC.HashTable
open CC CC.HT CC.Spec

/-- common part of `get_keys`/`get_values`: the array is built with the table's allocator (two
blocks), holds one element per entry in walk order and has capacity `size`; an empty table is
rejected with `CC_ERR_INVALID_CAPACITY` before anything is allocated; a refused allocation leaves
nothing behind. -/
theorem collect_spec (c : HCfg) (t : HashTable) (xs : List Nat) (m : Mem) (h : t.Inv c)
    (hxs : xs.length = t.size) (hbig : 8 * t.size ≤ Gen.CC_MAX_ELEMENTS) :
    (t.size = 0 → t.collect c xs m = (.errInvalidCapacity, none, m)) ∧
    (0 < t.size →
      ((t.collect c xs m).1 = .ok ∨ (t.collect c xs m).1 = .errAlloc) ∧
      ((t.collect c xs m).1 ≠ .ok → (t.collect c xs m).2.1 = none ∧
          liveOf (t.collect c xs m).2.2 t.triple = liveOf m t.triple) ∧
      (∀ a, (t.collect c xs m).2.1 = some a → (t.collect c xs m).1 = .ok ∧ a.Inv ∧ a.contents = xs ∧ a.cap = t.size ∧
          liveOf (t.collect c xs m).2.2 t.triple = liveOf m t.triple + 2 ∧ a.triple = t.triple) ∧
      (t.collect c xs m).2.2.fault = m.fault ∧
      (m.sched = [] → (t.collect c xs m).1 = .ok)) := by
  obtain ⟨hcap, hlen, hsize, hok, hnd, hthr⟩ := h
  have hchk : decide (t.capacity ≤ t.buckets.length) = true := by simp; omega
  constructor
  · intro h0
    unfold collect DArr.new
    simp [h0]
  · intro hpos
    have hnz : ¬ (t.size = 0 ∨ 2 ≥ Gen.CC_MAX_ELEMENTS / t.size) := by
      intro h
      rcases h with h | h
      · omega
      · have h3 : 3 ≤ Gen.CC_MAX_ELEMENTS / t.size := (Nat.le_div_iff_mul_le hpos).mpr (by omega)
        omega
    have hnb : ¬ t.size > Gen.CC_MAX_ELEMENTS / 8 := by
      have : t.size ≤ Gen.CC_MAX_ELEMENTS / 8 := (Nat.le_div_iff_mul_le (by omega)).mpr (by omega)
      omega
    unfold collect DArr.new
    simp only [hnz, hnb, if_false]
    cases h1 : (m.allocT t.triple).1 with
    | false =>
      have e1 := allocT_false m t.triple h1
      simp only [Bool.not_false, if_true]
      refine ⟨by simp, fun _ => ⟨trivial, e1.1⟩, by simp, e1.2, ?_⟩
      intro hs; have := (allocT_nil m t.triple hs).1; rw [h1] at this; cases this
    | true =>
      have e1 := allocT_true m t.triple h1
      simp only [Bool.not_true, Bool.false_eq_true, if_false]
      cases h2 : ((m.allocT t.triple).2.allocT t.triple).1 with
      | false =>
        have e2 := allocT_false (m.allocT t.triple).2 t.triple h2
        have hfr := freeT_spec ((m.allocT t.triple).2.allocT t.triple).2 t.triple (by omega)
        simp only [Bool.not_false, if_true]
        refine ⟨by simp, fun _ => ⟨trivial, by rw [hfr.1]; omega⟩, by simp, by rw [hfr.2.1, e2.2, e1.2], ?_⟩
        intro hs
        have := (allocT_nil (m.allocT t.triple).2 t.triple (allocT_nil m t.triple hs).2).1; rw [h2] at this; cases this
      | true =>
        have e2 := allocT_true (m.allocT t.triple).2 t.triple h2
        simp only [Bool.not_true, Bool.false_eq_true, if_false, hchk, Mem.check_true]
        have hinv0 : (⟨0, t.size, Buf.mk t.size, t.triple⟩ : DArr).Inv := ⟨by simp, by simp, hpos⟩
        obtain ⟨b1, b2, b3, b4, b5, b6⟩ := DArr.addAll_room c xs ⟨0, t.size, Buf.mk t.size, t.triple⟩ ((m.allocT t.triple).2.allocT t.triple).2 hinv0 (by simp; omega)
        simp only [b1, ne_eq, not_true_eq_false, if_false, b5]
        refine ⟨by simp, by simp, ?_, by rw [e2.2, e1.2], by simp⟩
        intro a ha
        simp only [Option.some.injEq] at ha
        subst ha
        refine ⟨trivial, b2, ?_, b4, by omega, b6⟩
        rw [b3]; simp [DArr.contents, Buf.firstN]

/-- `cc_hashtable_get_keys`: the keys of the map, each once -/
theorem getKeys_spec (c : HCfg) (t : HashTable) (m : Mem) (h : t.Inv c) (a : DArr)
    (hbig : 8 * t.size ≤ Gen.CC_MAX_ELEMENTS) (ha : (t.getKeys c m).2.1 = some a) :
    a.contents = (Map.keys t.abs).map encKey ∧ a.Inv ∧ a.cap = t.size ∧ (t.getKeys c m).1 = .ok ∧
    liveOf (t.getKeys c m).2.2 t.triple = liveOf m t.triple + 2 ∧ a.triple = t.triple := by
  have hw := walk_eq t h.2.1
  have hlenx : (t.walk.map (fun e => encKey e.key)).length = t.size := by rw [hw, List.length_map]; exact h.2.2.1.symm
  have hs := collect_spec c t _ m h hlenx hbig
  unfold getKeys at ha ⊢
  by_cases h0 : t.size = 0
  · rw [hs.1 h0] at ha; cases ha
  · obtain ⟨_, _, s3, _⟩ := hs.2 (by omega)
    obtain ⟨r1, r2, r3, r4, r5, r6⟩ := s3 a ha
    refine ⟨?_, r2, r4, r1, r5, r6⟩
    rw [r3, hw]; unfold Map.keys abs; rw [List.map_map, List.map_map]; rfl

/-- `cc_hashtable_get_values`: the values of the map, one per key -/
theorem getValues_spec (c : HCfg) (t : HashTable) (m : Mem) (h : t.Inv c) (a : DArr)
    (hbig : 8 * t.size ≤ Gen.CC_MAX_ELEMENTS) (ha : (t.getValues c m).2.1 = some a) :
    a.contents = Map.vals t.abs ∧ a.Inv ∧ a.cap = t.size ∧ (t.getValues c m).1 = .ok ∧
    liveOf (t.getValues c m).2.2 t.triple = liveOf m t.triple + 2 ∧ a.triple = t.triple := by
  have hw := walk_eq t h.2.1
  have hlenx : (t.walk.map (·.value)).length = t.size := by rw [hw, List.length_map]; exact h.2.2.1.symm
  have hs := collect_spec c t _ m h hlenx hbig
  unfold getValues at ha ⊢
  by_cases h0 : t.size = 0
  · rw [hs.1 h0] at ha; cases ha
  · obtain ⟨_, _, s3, _⟩ := hs.2 (by omega)
    obtain ⟨r1, r2, r3, r4, r5, r6⟩ := s3 a ha
    refine ⟨?_, r2, r4, r1, r5, r6⟩
    rw [r3, hw]; unfold Map.vals abs; rw [List.map_map]; rfl

end CC.HashTable

namespace CC.DArr
open CC CC.HT CC.Spec

theorem firstN_memcpy (d s : Buf Nat) (n : Nat) (hd : n ≤ d.length) :
    (d.memcpy 0 s 0 n).firstN n = s.firstN n := by
  unfold Buf.firstN
  apply List.map_congr_left
  intro j hj
  have hjn : j < n := List.mem_range.mp hj
  rw [Buf.get_memcpy _ _ _ _ _ _ (by omega)]
  simp [hjn]

/-- `cc_array_add` on any array built by `get_keys/get_values` (full or not) appends: a full array
grows (its configuration carries the default expansion factor), which is what makes the derived
array a fully usable container.  `hmax`/`hg`: the byte-size guard of `expand_capacity`
(`new_capacity ≤ CC_MAX_ELEMENTS / sizeof(void*)`) is not hit. -/
theorem add_spec (c : HCfg) (a : DArr) (x : Nat) (m : Mem) (h : a.Inv) (hmax : a.cap < Gen.CC_MAX_ELEMENTS / 8)
    (hg : c.agrow a.cap ≤ Gen.CC_MAX_ELEMENTS / 8) :
    ((a.add c x m).1 = .ok → (a.add c x m).2.1.Inv ∧ (a.add c x m).2.1.contents = a.contents ++ [x] ∧
        (a.add c x m).2.1.triple = a.triple) ∧
    ((a.add c x m).1 ≠ .ok → (a.add c x m).1 = .errAlloc ∧ (a.add c x m).2.1 = a ∧
        liveOf (a.add c x m).2.2 a.triple = liveOf m a.triple) ∧
    ((a.add c x m).1 = .ok → liveOf (a.add c x m).2.2 a.triple = liveOf m a.triple) ∧
    (m.sched = [] → (a.add c x m).1 = .ok) ∧
    (a.add c x m).2.2.fault = m.fault ∧
    ((m.allocT a.triple).1 = true → (a.add c x m).1 = .ok) := by
  by_cases hroom : a.size < a.cap
  · obtain ⟨a1, a2, a3, a4, a5, a6, a7⟩ := add_room c a x m h hroom
    exact ⟨fun _ => ⟨a2, a3, a7⟩, fun hne => absurd a1 hne, fun _ => by rw [a6], fun _ => a1, by rw [a6], fun _ => a1⟩
  · obtain ⟨h1, h2, h3⟩ := h
    have hfull : a.size = a.cap := by omega
    have hge : a.size ≥ a.cap := by omega
    have hM : Gen.CC_MAX_ELEMENTS / 8 < Gen.CC_MAX_ELEMENTS / 2 := by decide
    have hM2 : Gen.CC_MAX_ELEMENTS / 2 < Gen.CC_MAX_ELEMENTS := by decide
    have hne : ¬ a.cap = Gen.CC_MAX_ELEMENTS := by omega
    unfold add expand
    simp only [hge, if_true, hne, if_false]
    generalize hnc : (if c.agrow a.cap ≤ a.cap then (if a.cap < Gen.CC_MAX_ELEMENTS / 2 then a.cap + 1 else Gen.CC_MAX_ELEMENTS) else c.agrow a.cap) = nc
    have hncgt : a.cap < nc := by
      rw [← hnc]; split
      · split <;> omega
      · omega
    have hncle : ¬ nc > Gen.CC_MAX_ELEMENTS / 8 := by
      rw [← hnc]; split
      · rw [if_pos (by omega)]; omega
      · omega
    simp only [hncle, if_false]
    cases ha : (m.allocT a.triple).1 with
    | false =>
      have e1 := allocT_false m a.triple ha
      simp only [Bool.not_false, if_true, ne_eq, reduceCtorEq, not_false_eq_true]
      refine ⟨by simp, fun _ => ⟨trivial, trivial, e1.1⟩, by simp, ?_, e1.2, by simp⟩
      intro hs; have := (allocT_nil m a.triple hs).1; rw [ha] at this; cases this
    | true =>
      have e1 := allocT_true m a.triple ha
      have hchk : (decide (a.size ≤ nc) && decide (a.size ≤ a.buf.length)) = true := by simp; omega
      have hfr := freeT_spec (m.allocT a.triple).2 a.triple (by omega)
      have hchk2 : decide (a.size < ((Buf.mk nc : Buf Nat).memcpy 0 a.buf 0 a.size).length) = true := by simp; omega
      simp only [Bool.not_true, Bool.false_eq_true, if_false, hchk, Mem.check_true, ne_eq, not_true_eq_false, hchk2]
      refine ⟨fun _ => ⟨⟨by simp only; omega, by simp, by simp only; omega⟩, ?_, trivial⟩, by simp, fun _ => by rw [hfr.1]; omega, by simp, by rw [hfr.2.1, e1.2], by simp⟩
      unfold contents; simp only
      rw [firstN_succ, firstN_put _ _ _ _ (Nat.le_refl _), Buf.get_put_eq _ _ _ (by simp; omega),
        firstN_memcpy _ _ _ (by simp; omega)]

end CC.DArr

namespace CC.HashTable
open CC CC.HT CC.Spec

theorem DArr_new_none (cap : Nat) (tr : Triple) (m : Mem) (h : (DArr.new cap tr m).2.1 = none) : (DArr.new cap tr m).1 ≠ .ok := by
  unfold DArr.new at h ⊢
  by_cases h0 : cap = 0 ∨ 2 ≥ Gen.CC_MAX_ELEMENTS / cap
  · simp [h0]
  · simp only [h0, if_false] at h ⊢
    by_cases hb : cap > Gen.CC_MAX_ELEMENTS / 8
    · simp [hb]
    · simp only [hb, if_false] at h ⊢
      cases h1 : (m.allocT tr).1 with
      | false => simp
      | true =>
        cases h2 : ((m.allocT tr).2.allocT tr).1 with
        | false => simp
        | true => simp [h1, h2] at h

/-- `get_keys`/`get_values` hand out an array exactly when they report `CC_OK` -/
theorem collect_ok_iff (c : HCfg) (t : HashTable) (xs : List Nat) (m : Mem) :
    (t.collect c xs m).1 = .ok ↔ (t.collect c xs m).2.1.isSome = true := by
  unfold collect; simp only
  cases hn : (DArr.new t.size t.triple m).2.1 with
  | none => simp only [Option.isSome_none, Bool.false_eq_true, iff_false]; exact DArr_new_none t.size t.triple m hn
  | some a =>
    simp only
    split
    · rename_i hne; simp [hne]
    · simp

end CC.HashTable
