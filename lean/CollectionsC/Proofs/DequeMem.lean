import CollectionsC.Base.Mem
/-! Triple-aware ledger relations used by the deque and queue proofs.

A container owns its blocks through one allocator triple `t` (`.conf` = the configured
`mem_alloc/mem_calloc/mem_free`, `.libc` = the C library).  `memRel t k m' m` says: compared with `m`, the
ledger `m'` has exactly `k` more blocks owned through `t`, the other triple's balance is unchanged, nothing
faulted, **nothing at all happened on the other triple's side** (no event, no refusal consumed), and a
never-refusing schedule is still never-refusing.  `memSame t = memRel t 0`. -/
namespace CC.Deque
open CC

/-- blocks currently owned through a triple -/
def liveOf (t : Triple) (m : Mem) : Nat := match t with | .conf => m.live | .libc => m.liveLibc
/-- successful allocator calls of the current operation through a triple -/
def allocsOf (t : Triple) (m : Mem) : Nat := match t with | .conf => m.nalloc | .libc => m.lalloc

/-- the side of the ledger a container on triple `t` must never touch -/
def otherSideSame (t : Triple) (m' m : Mem) : Prop :=
  match t with
  | .conf => m'.libc = m.libc ∧ m'.lalloc = m.lalloc ∧ m'.lfree = m.lfree ∧ m'.liveLibc = m.liveLibc
  | .libc => m'.live = m.live ∧ m'.nalloc = m.nalloc ∧ m'.nfree = m.nfree ∧ m'.nrefused = m.nrefused ∧
             m'.sched = m.sched

/-- `up` blocks gained and `down` blocks released through `t` between `m` and `m'` -/
def memD (t : Triple) (up down : Nat) (m' m : Mem) : Prop :=
  liveOf t m' + down = liveOf t m + up ∧ m'.fault = m.fault ∧ (m.sched = [] → m'.sched = []) ∧ otherSideSame t m' m

/-- `k` more blocks owned through `t` -/
def memRel (t : Triple) (k : Nat) (m' m : Mem) : Prop := memD t k 0 m' m

/-- same balance on both triples, same fault flag, other side untouched -/
def memSame (t : Triple) (m' m : Mem) : Prop := memD t 0 0 m' m

theorem otherSideSame_refl (t : Triple) (m : Mem) : otherSideSame t m m := by
  cases t <;> simp [otherSideSame]

theorem otherSideSame_trans {t : Triple} {a b c : Mem} (h1 : otherSideSame t a b) (h2 : otherSideSame t b c) :
    otherSideSame t a c := by
  cases t
  · obtain ⟨a1, a2, a3, a4⟩ := h1; obtain ⟨b1, b2, b3, b4⟩ := h2
    exact ⟨a1.trans b1, a2.trans b2, a3.trans b3, a4.trans b4⟩
  · obtain ⟨a1, a2, a3, a4, a5⟩ := h1; obtain ⟨b1, b2, b3, b4, b5⟩ := h2
    exact ⟨a1.trans b1, a2.trans b2, a3.trans b3, a4.trans b4, a5.trans b5⟩

theorem memSame_refl (t : Triple) (m : Mem) : memSame t m m := ⟨rfl, rfl, id, otherSideSame_refl t m⟩

theorem memD_trans {t : Triple} {u1 d1 u2 d2 : Nat} {a b c : Mem} (h1 : memD t u1 d1 a b) (h2 : memD t u2 d2 b c) :
    memD t (u2 + u1) (d2 + d1) a c :=
  ⟨by have := h1.1; have := h2.1; omega, h1.2.1.trans h2.2.1, fun h => h1.2.2.1 (h2.2.2.1 h),
    otherSideSame_trans h1.2.2.2 h2.2.2.2⟩

/-- only the difference of gains and releases matters -/
theorem memD_norm {t : Triple} {k j : Nat} {a m : Mem} (h : memD t (k + j) j a m) : memD t k 0 a m :=
  ⟨by have := h.1; omega, h.2.1, h.2.2.1, h.2.2.2⟩

theorem memD_norm' {t : Triple} {u d k : Nat} {a m : Mem} (h : memD t u d a m) (e : u = k + d) : memD t k 0 a m := by
  subst e; exact memD_norm h

theorem memSame_trans {t : Triple} {a b c : Mem} (h1 : memSame t a b) (h2 : memSame t b c) : memSame t a c :=
  memD_trans h1 h2

theorem memRel_trans {t : Triple} {j k : Nat} {a b c : Mem} (h1 : memRel t j a b) (h2 : memRel t k b c) :
    memRel t (k + j) a c := memD_trans h1 h2

theorem memRel_same {t : Triple} {k : Nat} {a b c : Mem} (h1 : memSame t a b) (h2 : memRel t k b c) :
    memRel t k a c := by have := memD_trans h1 h2; simpa [memRel] using this

theorem memSame_rel {t : Triple} {k : Nat} {a b c : Mem} (h1 : memRel t k a b) (h2 : memSame t b c) :
    memRel t k a c := by have := memD_trans h1 h2; simpa [memRel] using this

/-- the balance of the triple the container does not use is unchanged -/
theorem memD_other {t : Triple} {u d : Nat} {m' m : Mem} (h : memD t u d m' m) :
    (t = .conf → m'.liveLibc = m.liveLibc ∧ m'.libc = m.libc) ∧ (t = .libc → m'.live = m.live) := by
  cases t
  · exact ⟨fun _ => ⟨h.2.2.2.2.2.2, h.2.2.2.1⟩, fun e => (by cases e)⟩
  · exact ⟨fun e => (by cases e), fun _ => h.2.2.2.1⟩

/-- a successful allocator call: one more block on that triple -/
theorem allocT_ok (t : Triple) (m : Mem) (h : (m.allocT t).1 = true) : memRel t 1 (m.allocT t).2 m := by
  cases t
  · simp only [Mem.allocT_conf] at h ⊢
    unfold Mem.alloc at h ⊢
    split <;> simp_all [memRel, memD, liveOf, otherSideSame]
  · simp [Mem.allocT, memRel, memD, liveOf, otherSideSame]

/-- a refused call: only the configured triple can refuse; nothing but the schedule moved -/
theorem allocT_refused (t : Triple) (m : Mem) (h : (m.allocT t).1 = false) :
    memSame t (m.allocT t).2 m ∧ t = .conf ∧ m.sched ≠ [] := by
  cases t
  · simp only [Mem.allocT_conf] at h ⊢
    unfold Mem.alloc at h ⊢
    split <;> simp_all [memSame, memD, liveOf, otherSideSame]
  · simp [Mem.allocT] at h

/-- a release with something owned: one block less, no fault -/
theorem freeT_ok (t : Triple) (m : Mem) (h : 0 < liveOf t m) : memD t 0 1 (m.freeT t) m := by
  cases t
  · simp only [Mem.freeT_conf]
    unfold Mem.free
    simp only [liveOf] at h
    rw [if_neg (by omega)]
    simp [memD, liveOf, otherSideSame]; omega
  · simp only [Mem.freeT, liveOf] at h ⊢
    rw [if_neg (by omega)]
    simp [memD, liveOf, otherSideSame]; omega

/-- allocate one block, later release one: balance restored -/
theorem alloc_free_same (t : Triple) (m : Mem) (h : (m.allocT t).1 = true) :
    memSame t ((m.allocT t).2.freeT t) m := by
  have h1 := allocT_ok t m h
  have h2 := freeT_ok t (m.allocT t).2 (by have := h1.1; omega)
  exact memD_norm (k := 0) (j := 1) (by simpa using memD_trans h2 h1)

/-- with a never-refusing allocator (C-library triple, or an exhausted schedule) the call succeeds -/
def neverRefuses (t : Triple) (m : Mem) : Prop := t = .libc ∨ m.sched = []

theorem allocT_of_neverRefuses (t : Triple) (m : Mem) (h : neverRefuses t m) :
    (m.allocT t).1 = true ∧ neverRefuses t (m.allocT t).2 ∧ allocsOf t (m.allocT t).2 = allocsOf t m + 1 := by
  cases t
  · rcases h with h | h
    · cases h
    · simp only [Mem.allocT_conf]
      unfold Mem.alloc; rw [h]
      exact ⟨rfl, Or.inr rfl, rfl⟩
  · exact ⟨rfl, Or.inl rfl, rfl⟩

theorem allocT_allocsOf (t : Triple) (m : Mem) :
    ((m.allocT t).1 = true → allocsOf t (m.allocT t).2 = allocsOf t m + 1) ∧
    ((m.allocT t).1 = false → allocsOf t (m.allocT t).2 = allocsOf t m) := by
  cases t
  · simp only [Mem.allocT_conf]
    unfold Mem.alloc
    split <;> simp [allocsOf]
  · simp [Mem.allocT, allocsOf]

theorem freeT_allocsOf (t : Triple) (m : Mem) : allocsOf t (m.freeT t) = allocsOf t m ∧
    (neverRefuses t m → neverRefuses t (m.freeT t)) := by
  cases t
  · simp only [Mem.freeT_conf]; unfold Mem.free
    split <;> exact ⟨rfl, fun h => h⟩
  · simp only [Mem.freeT]
    split <;> exact ⟨rfl, fun _ => Or.inl rfl⟩

theorem memD_neverRefuses {t : Triple} {u d : Nat} {m' m : Mem} (h : memD t u d m' m) (hn : neverRefuses t m) :
    neverRefuses t m' := by
  rcases hn with hn | hn
  · exact Or.inl hn
  · exact Or.inr (h.2.2.1 hn)

/-! ## operations on two containers (zip iterators): each uses its own triple -/

/-- both balances, the fault flag and never-refusingness as they were -/
def memBal (m' m : Mem) : Prop :=
  m'.live = m.live ∧ m'.liveLibc = m.liveLibc ∧ m'.fault = m.fault ∧ (m.sched = [] → m'.sched = [])

/-- balanced, and a side of the ledger that neither container uses is untouched -/
def memSame2 (t1 t2 : Triple) (m' m : Mem) : Prop :=
  memBal m' m ∧ (t1 = .conf → t2 = .conf → otherSideSame .conf m' m) ∧
  (t1 = .libc → t2 = .libc → otherSideSame .libc m' m)

theorem memSame_bal {t : Triple} {m' m : Mem} (h : memSame t m' m) : memBal m' m := by
  cases t
  · exact ⟨by simpa [liveOf] using h.1, h.2.2.2.2.2.2, h.2.1, h.2.2.1⟩
  · exact ⟨h.2.2.2.1, by simpa [liveOf] using h.1, h.2.1, h.2.2.1⟩

theorem memBal_trans {a b c : Mem} (h1 : memBal a b) (h2 : memBal b c) : memBal a c :=
  ⟨h1.1.trans h2.1, h1.2.1.trans h2.2.1, h1.2.2.1.trans h2.2.2.1, fun h => h1.2.2.2 (h2.2.2.2 h)⟩

theorem memSame2_refl (t1 t2 : Triple) (m : Mem) : memSame2 t1 t2 m m :=
  ⟨⟨rfl, rfl, rfl, id⟩, fun _ _ => otherSideSame_refl _ m, fun _ _ => otherSideSame_refl _ m⟩

theorem memSame2_left {t1 : Triple} (t2 : Triple) {m' m : Mem} (h : memSame t1 m' m) : memSame2 t1 t2 m' m :=
  ⟨memSame_bal h, fun e _ => by subst e; exact h.2.2.2, fun e _ => by subst e; exact h.2.2.2⟩

theorem memSame2_right (t1 : Triple) {t2 : Triple} {m' m : Mem} (h : memSame t2 m' m) : memSame2 t1 t2 m' m :=
  ⟨memSame_bal h, fun _ e => by subst e; exact h.2.2.2, fun _ e => by subst e; exact h.2.2.2⟩

theorem memSame2_trans {t1 t2 : Triple} {a b c : Mem} (h1 : memSame2 t1 t2 a b) (h2 : memSame2 t1 t2 b c) :
    memSame2 t1 t2 a c :=
  ⟨memBal_trans h1.1 h2.1, fun e1 e2 => otherSideSame_trans (h1.2.1 e1 e2) (h2.2.1 e1 e2),
    fun e1 e2 => otherSideSame_trans (h1.2.2 e1 e2) (h2.2.2 e1 e2)⟩

end CC.Deque
