import CollectionsC.Proofs.PTreeDeleteLoopR
import CollectionsC.Proofs.PTreeAdd
set_option linter.unusedSimpArgs false
set_option linter.unusedVariables false
namespace CC.PTree
open CC
open CC.Tree (Path Dir)

theorem rotateLeft_size (st : PT) (x n : Nat) : rotateLeft { st with size := n } x = { rotateLeft st x with size := n } := by
  simp only [rotateLeft]
theorem rotateRight_size (st : PT) (x n : Nat) : rotateRight { st with size := n } x = { rotateRight st x with size := n } := by
  simp only [rotateRight]
end CC.PTree

namespace CC.PTree
open CC
theorem rotateLeft_mk (h : Heap) (r n n' fr x : Nat) :
    rotateLeft ⟨h, r, n, fr⟩ x = { rotateLeft ⟨h, r, n', fr⟩ x with size := n } := by simp only [rotateLeft]
theorem rotateRight_mk (h : Heap) (r n n' fr x : Nat) :
    rotateRight ⟨h, r, n, fr⟩ x = { rotateRight ⟨h, r, n', fr⟩ x with size := n } := by simp only [rotateRight]

theorem delCase1L_size (st : PT) (x n : Nat) :
    delCase1L { st with size := n } x = ({ (delCase1L st x).1 with size := n }, (delCase1L st x).2) := by
  simp only [delCase1L]
  split
  · rw [rotateLeft_mk _ _ n st.size]
  · rfl
theorem delCase3L_size (st : PT) (x w n : Nat) :
    delCase3L { st with size := n } x w = ({ (delCase3L st x w).1 with size := n }, (delCase3L st x w).2) := by
  simp only [delCase3L]
  split
  · rw [rotateRight_mk _ _ n st.size]
  · rfl
theorem delCase4L_size (st : PT) (x w n : Nat) :
    delCase4L { st with size := n } x w = { delCase4L st x w with size := n } := by
  simp only [delCase4L]
  rw [rotateLeft_mk _ _ n st.size]
theorem delCase1R_size (st : PT) (x n : Nat) :
    delCase1R { st with size := n } x = ({ (delCase1R st x).1 with size := n }, (delCase1R st x).2) := by
  simp only [delCase1R]
  split
  · rw [rotateRight_mk _ _ n st.size]
  · rfl
theorem delCase3R_size (st : PT) (x w n : Nat) :
    delCase3R { st with size := n } x w = ({ (delCase3R st x w).1 with size := n }, (delCase3R st x w).2) := by
  simp only [delCase3R]
  split
  · rw [rotateLeft_mk _ _ n st.size]
  · rfl
theorem delCase4R_size (st : PT) (x w n : Nat) :
    delCase4R { st with size := n } x w = { delCase4R st x w with size := n } := by
  simp only [delCase4R]
  rw [rotateRight_mk _ _ n st.size]

theorem delTailL_size (f : Nat)
    (ih : ∀ (st : PT) (x n : Nat), rebalDeleteLoop f { st with size := n } x =
      ({ (rebalDeleteLoop f st x).1 with size := n }, (rebalDeleteLoop f st x).2))
    (st : PT) (x w n : Nat) :
    delTailL f { st with size := n } x w = ({ (delTailL f st x w).1 with size := n }, (delTailL f st x w).2) := by
  simp only [delTailL]
  split
  · exact ih { st with heap := setColor st.heap w .red } _ n
  · rw [delCase3L_size, delCase4L_size]
theorem delTailR_size (f : Nat)
    (ih : ∀ (st : PT) (x n : Nat), rebalDeleteLoop f { st with size := n } x =
      ({ (rebalDeleteLoop f st x).1 with size := n }, (rebalDeleteLoop f st x).2))
    (st : PT) (x w n : Nat) :
    delTailR f { st with size := n } x w = ({ (delTailR f st x w).1 with size := n }, (delTailR f st x w).2) := by
  simp only [delTailR]
  split
  · exact ih { st with heap := setColor st.heap w .red } _ n
  · rw [delCase3R_size, delCase4R_size]

/-- the delete fix-up loop neither reads nor writes `size` -/
theorem rebalDeleteLoop_size (f : Nat) : ∀ (st : PT) (x n : Nat),
    rebalDeleteLoop f { st with size := n } x =
      ({ (rebalDeleteLoop f st x).1 with size := n }, (rebalDeleteLoop f st x).2) := by
  induction f with
  | zero => intro st x n; rfl
  | succ f ih =>
    intro st x n
    by_cases h0 : x = st.root ∨ (st.heap.get x).color ≠ .black
    · rw [rebalDeleteLoop_stop _ st x h0, rebalDeleteLoop_stop _ { st with size := n } x h0]
    · have h1 : x ≠ st.root := fun e => h0 (Or.inl e)
      have h2 : (st.heap.get x).color = .black := by
        cases hc : (st.heap.get x).color with
        | black => rfl
        | red => exact absurd (Or.inr (by rw [hc]; simp)) h0
      by_cases h3 : x = (st.heap.get (st.heap.get x).parent).left
      · rw [rebalDeleteLoop_left' f { st with size := n } x h1 h2 h3, rebalDeleteLoop_left' f st x h1 h2 h3,
          delCase1L_size]
        exact delTailL_size f ih _ _ _ _
      · rw [rebalDeleteLoop_right' f { st with size := n } x h1 h2 h3, rebalDeleteLoop_right' f st x h1 h2 h3,
          delCase1R_size]
        exact delTailR_size f ih _ _ _ _
end CC.PTree

namespace CC.PTree
open CC
open CC.Tree (Path Dir)

/-- **the loop of `rebalance_after_delete`**: entered at a node `x` (possibly the sentinel, with its scratch parent)
below which one black node is missing, with fuel at least the depth of `x`, it ends in a well-formed heap with the
same nodes and in-order content such that blackening the returned node restores the red-black rules -/
theorem rebalDeleteLoop_post (f : Nat) : ∀ (st : PT) (T : ITree) (q : Path) (n x : Nat), DelPre st T q n x →
    q.length ≤ f → DelPost T (rebalDeleteLoop f st x) := by
  induction f with
  | zero =>
    intro st T q n x pre hl
    have : q = [] := by cases q with
                        | nil => rfl
                        | cons a b => simp at hl
    exact pre.stop 0 (Or.inl this)
  | succ f ih =>
    intro st T q n x pre hl
    rcases path_cases q with h0 | ⟨g, d, rfl⟩
    · exact pre.stop _ (Or.inl h0)
    · have hlen : g.length ≤ f := by simp at hl; omega
      cases hc : (T.subtree (g ++ [d])).col with
      | red => exact pre.stop _ (Or.inr hc)
      | black =>
        cases d with
        | L => exact iter_L f ih pre hc hlen
        | R => exact iter_R f ih pre hc hlen

theorem setColor_same (h : Heap) (i : Nat) (c : Colour) (hc : (h.get i).color = c) (j : Nat) :
    (setColor h i c).get j = h.get j := by
  simp only [setColor, Heap.get_set]
  split
  · rename_i e; subst e
    cases hh : h.get j
    rw [hh] at hc; simp at hc; subst hc; rfl
  · rfl

/-- **`rebalance_after_delete` as a whole** (any fuel that covers the depth of `x`): well-formed, same nodes, same
in-order content, red-black rules with a black root -/
theorem rebalanceAfterDelete_post {st : PT} {T : ITree} {q : Path} {n x : Nat} (pre : DelPre st T q n x) (F : Nat)
    (hF : q.length ≤ F) :
    ∃ T', Represents { (rebalDeleteLoop F st x).1 with
              heap := setColor (rebalDeleteLoop F st x).1.heap (rebalDeleteLoop F st x).2 .black } T' ∧
      T'.erase.toList = T.erase.toList ∧ T'.ids.Perm T.ids ∧ Tree.RB T'.erase := by
  obtain ⟨T1, q', r1, r2, r3, r4, r5, r6⟩ := rebalDeleteLoop_post F st T q n x pre hF
  generalize rebalDeleteLoop F st x = r at r1 r4
  cases hs : T1.subtree q' with
  | nil =>
    rw [hs] at r4
    simp only [ITree.rid_nil] at r4
    rw [r4]
    have hsame := setColor_same r.1.heap 0 .black r1.black
    have hT1 : Tree.RBok T1.erase := by
      have e : Tree.subtree T1.erase q' = .nil := by rw [← ITree.erase_subtree, hs]; rfl
      rw [e] at r5
      have := Tree.replaceAt_subtree_self T1.erase q'
      rw [e] at this
      simp only [Tree.blacken] at r5
      rw [this] at r5; exact r5
    refine ⟨T1, r1.of_rep T1 (r1.rep.frame (fun i _ => hsame i)) r1.root (List.Perm.refl _) (hsame 0) rfl rfl,
      r2, r3, hT1, ?_⟩
    rcases r6 with e | e
    · subst e; simp only [ITree.subtree_root] at hs; rw [hs]; rfl
    · rw [ITree.erase_col]; exact e
  | node xi c a k v b =>
    rw [hs] at r4
    simp only [ITree.rid_node] at r4
    rw [r4]
    have := setColor_represents r1 q' hs .black
    refine ⟨_, this, ?_, ?_, ?_, ?_⟩
    · have := ITree.replace_facts T1 q' (.node xi .black a k v b) (by rw [hs]; simp)
        (by rw [hs]; simp [ITree.erase, Tree.toList]) (by rw [hs]; exact List.Perm.refl _)
      rw [this.1]; exact r2
    · have := ITree.replace_facts T1 q' (.node xi .black a k v b) (by rw [hs]; simp)
        (by rw [hs]; simp [ITree.erase, Tree.toList]) (by rw [hs]; exact List.Perm.refl _)
      exact this.2.1.trans r3
    · rw [ITree.erase_replace]
      have e : Tree.subtree T1.erase q' = .node c a.erase k v b.erase := by rw [← ITree.erase_subtree, hs]; rfl
      rw [e] at r5; exact r5
    · rw [ITree.erase_col]
      rcases r6 with e | e
      · subst e; simp
      · cases q' with
        | nil => simp
        | cons d q'' => rw [ITree.col_replace_cons]; exact e
end CC.PTree

