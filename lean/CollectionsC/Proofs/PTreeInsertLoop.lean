import CollectionsC.Proofs.PTreeInsertStep
set_option linter.unusedSimpArgs false
set_option linter.unusedVariables false
namespace CC.Tree
theorem toList_replaceAt_congr (t : Tree) (q : Path) (s s' : Tree) (h : s.toList = s'.toList) :
    (replaceAt t q s).toList = (replaceAt t q s').toList := by
  induction q generalizing t with
  | nil => simpa [replaceAt] using h
  | cons d q ih =>
    cases t with
    | nil => rfl
    | node c l k v r => cases d <;> simp [replaceAt, ih]
theorem replaceAt_subtree_self (t : Tree) (q : Path) : replaceAt t q (subtree t q) = t := by
  induction q generalizing t with
  | nil => cases t <;> rfl
  | cons d q ih =>
    cases t with
    | nil => rfl
    | node c l k v r => cases d <;> simp [replaceAt, subtree, ih]
end CC.Tree

namespace CC.PTree
open CC
open CC.Tree (Path Dir)

macro "ids_perm" : tactic => `(tactic| (rw [List.perm_iff_count]; intro n; simp only [ITree.ids_node, ITree.ids_nil, List.count_cons, List.count_append, List.cons_append, List.count_nil]; omega))
macro "tl_eq" : tactic => `(tactic| simp [ITree.erase, Tree.toList])

theorem path_two (q : Path) (h : 2 ≤ q.length) : ∃ g d1 d2, q = g ++ [d1, d2] := by
  rcases path_cases q with h0 | ⟨q1, d2, rfl⟩
  · subst h0; simp at h
  · rcases path_cases q1 with h1 | ⟨g, d1, rfl⟩
    · subst h1; simp at h
    · exact ⟨g, d1, d2, by simp⟩

/-- replacing the subtree at `g` by one with the same in-order content, the same nodes and (unless `g` is
the root position) leaves root, content and node set of the whole tree alone -/
theorem ITree.replace_facts (T : ITree) (g : Path) (G' : ITree) (hne : T.subtree g ≠ .nil)
    (hl : G'.erase.toList = (T.subtree g).erase.toList) (hp : G'.ids.Perm (T.subtree g).ids) :
    (T.replace g G').erase.toList = T.erase.toList ∧ (T.replace g G').ids.Perm T.ids ∧
    (g ≠ [] → (T.replace g G').col = T.col) := by
  refine ⟨?_, ITree.ids_replace_perm T g G' hp.symm, ?_⟩
  · rw [ITree.erase_replace]
    have := Tree.toList_replaceAt_congr T.erase g G'.erase (T.subtree g).erase hl
    rw [this, ITree.erase_subtree, Tree.replaceAt_subtree_self]
  · intro hg
    cases g with
    | nil => exact absurd rfl hg
    | cons d g' =>
      cases T with
      | nil => simp at hne
      | node id c l k v r => cases d <;> rfl
end CC.PTree

namespace CC.PTree
open CC
open CC.Tree (Path Dir)

/-- the loop stops after a terminal case: `z'` hangs below the new, black subtree root -/
theorem stop_after {st : PT} {T : ITree} {g : Path} {G : ITree} (h : At st T g G) (f : Nat) {r : Nat} {a : ITree}
    {k v : Nat} {b : ITree} (hG : G = .node r .black a k v b) (d : Dir) {z : Nat} {cz : Colour} {zl : ITree}
    {zk zv : Nat} {zr : ITree} (hz : G.subtree [d] = .node z cz zl zk zv zr) :
    rebalInsertLoop f st z = st := by
  subst hG
  have rz := (h.get [d] hz).1
  have rr := (h.get [] rfl).1
  simp only [List.dropLast, reduceCtorEq, if_false, ITree.subtree_root, ITree.rid_node, List.cons_ne_nil] at rz
  exact insert_loop_stop st z f (by rw [rz]; simp [rr])

theorem ITree.subtree_two (T : ITree) (g : Path) (d1 d2 : Dir) {z cz zl zk zv zr}
    (hz : T.subtree (g ++ [d1, d2]) = .node z cz zl zk zv zr) :
    ∃ gi cg A kg vg B p cp pl pk pv pr, T.subtree g = .node gi cg A kg vg B ∧
      (ITree.node gi cg A kg vg B).subtree [d1] = .node p cp pl pk pv pr ∧
      (ITree.node p cp pl pk pv pr).subtree [d2] = .node z cz zl zk zv zr := by
  have e : g ++ [d1, d2] = (g ++ [d1]) ++ [d2] := by simp
  rw [e] at hz
  obtain ⟨p, cp, pl, pk, pv, pr, hp⟩ := ITree.subtree_prefix_node T (g ++ [d1]) d2 hz
  obtain ⟨gi, cg, A, kg, vg, B, hg⟩ := ITree.subtree_prefix_node T g d1 hp
  refine ⟨gi, cg, A, kg, vg, B, p, cp, pl, pk, pv, pr, hg, ?_, ?_⟩
  · rw [← hg, ← ITree.subtree_append]; exact hp
  · rw [← hp, ← ITree.subtree_append]; exact hz

/-- **`rebalance_after_insert` preserves well-formedness and the in-order content**: started at a red node `z`
of a well-formed table whose root is black (or is `z`), with enough fuel, the loop ends in a heap that
represents a tree with the same nodes and the same in-order list — all child and parent pointers
consistent again after every recolouring and rotation it performed -/
theorem rebalInsertLoop_wf (f : Nat) : ∀ (st : PT) (T : ITree) (q : Path) (z : Nat) (zl : ITree) (zk zv : Nat)
    (zr : ITree), Represents st T → T.subtree q = .node z .red zl zk zv zr → (q = [] ∨ T.col = .black) →
    q.length ≤ f →
    ∃ T', Represents (rebalInsertLoop f st z) T' ∧ T'.erase.toList = T.erase.toList ∧ T'.ids.Perm T.ids := by
  induction f with
  | zero => intro st T q z zl zk zv zr h _ _ _; exact ⟨T, h, rfl, List.Perm.refl _⟩
  | succ f ih =>
    intro st T q z zl zk zv zr h hz hroot hlen
    obtain ⟨rz, z0⟩ := h.get_at q hz
    by_cases hq2 : 2 ≤ q.length
    · obtain ⟨g, d1, d2, rfl⟩ := path_two q hq2
      obtain ⟨gi, cg, A, kg, vg, B, p, cp, pl, pk, pv, pr, hg, hp, hzp⟩ := ITree.subtree_two T g d1 d2 hz
      have hne : T.subtree g ≠ .nil := by rw [hg]; simp
      have hAt := At.of_represents h g hne
      rw [hg] at hAt
      have hTcol : T.col = .black := by rcases hroot with h0 | h0; · simp at h0
                                        · exact h0
      have hlen' : g.length ≤ f := by simp at hlen; omega
      -- the parent's colour
      have rp := (hAt.get [d1] hp).1
      have hzpar : (st.heap.get z).parent = p := by
        have := (hAt.get [d1, d2] (by rw [show [d1, d2] = [d1] ++ [d2] from rfl, ITree.subtree_append, hp]; exact hzp)).1
        rw [this]; simp [List.dropLast, hp]
      by_cases hcp : cp = .red
      · subst hcp
        -- finishing a terminal case
        have fin : ∀ (st' : PT) (z' : Nat) (G' : ITree), rebalInsertLoop (f + 1) st z = rebalInsertLoop f st' z' →
            At st' T g G' → rebalInsertLoop f st' z' = st' →
            G'.erase.toList = (ITree.node gi cg A kg vg B).erase.toList →
            G'.ids.Perm (ITree.node gi cg A kg vg B).ids →
            ∃ T', Represents (rebalInsertLoop (f + 1) st z) T' ∧ T'.erase.toList = T.erase.toList ∧
              T'.ids.Perm T.ids := by
          intro st' z' G' e1 hA e2 hl hp'
          rw [e1, e2]
          have := ITree.replace_facts T g G' hne (by rw [hg]; exact hl) (by rw [hg]; exact hp')
          exact ⟨_, hA.rep, this.1, this.2.1⟩
        -- continuing after case 1
        have cont : ∀ (st' : PT) (G' : ITree) (a b : ITree), rebalInsertLoop (f + 1) st z = rebalInsertLoop f st' gi →
            At st' T g G' → G' = .node gi .red a kg vg b →
            G'.erase.toList = (ITree.node gi cg A kg vg B).erase.toList →
            G'.ids.Perm (ITree.node gi cg A kg vg B).ids →
            ∃ T', Represents (rebalInsertLoop (f + 1) st z) T' ∧ T'.erase.toList = T.erase.toList ∧
              T'.ids.Perm T.ids := by
          intro st' G' a b e1 hA hG' hl hp'
          have facts := ITree.replace_facts T g G' hne (by rw [hg]; exact hl) (by rw [hg]; exact hp')
          have hsub : (T.replace g G').subtree g = .node gi .red a kg vg b := by
            rw [ITree.subtree_replace T g G' hne, hG']
          have hr' : g = [] ∨ (T.replace g G').col = .black := by
            by_cases hg0 : g = []
            · exact Or.inl hg0
            · exact Or.inr (by rw [facts.2.2 hg0]; exact hTcol)
          obtain ⟨T', r1, r2, r3⟩ := ih st' (T.replace g G') g gi a kg vg b hA.rep hsub hr' hlen'
          rw [e1]
          exact ⟨T', r1, r2.trans facts.1, r3.trans facts.2.1⟩
        cases d1 with
        | L =>
          simp only [ITree.subtree_L, ITree.subtree_root] at hp
          subst hp
          -- the uncle
          rcases hB : B with _ | ⟨yi, _ | _, yl, yk, yv, yr⟩
          all_goals rw [hB] at hAt
          · cases d2 with
            | L =>
              simp only [ITree.subtree_L, ITree.subtree_root] at hzp; subst hzp
              obtain ⟨st', e1, hA⟩ := insert_step_L_case3 hAt rfl
              exact fin st' z _ (e1 f) hA (stop_after hA f rfl .L rfl) (by rw [hB]; tl_eq) (by rw [hB]; ids_perm)
            | R =>
              simp only [ITree.subtree_R, ITree.subtree_root] at hzp; subst hzp
              obtain ⟨st', e1, hA⟩ := insert_step_L_case2 hAt rfl
              exact fin st' p _ (e1 f) hA (stop_after hA f rfl .L rfl) (by rw [hB]; tl_eq) (by rw [hB]; ids_perm)
          · obtain ⟨st', e1, hA⟩ := insert_step_L_case1 hAt d2 hzp
            exact cont st' _ _ _ (e1 f) hA rfl (by rw [hB]; tl_eq) (by rw [hB]; first | exact List.Perm.refl _ | ids_perm)
          · cases d2 with
            | L =>
              simp only [ITree.subtree_L, ITree.subtree_root] at hzp; subst hzp
              obtain ⟨st', e1, hA⟩ := insert_step_L_case3 hAt rfl
              exact fin st' z _ (e1 f) hA (stop_after hA f rfl .L rfl) (by rw [hB]; tl_eq) (by rw [hB]; ids_perm)
            | R =>
              simp only [ITree.subtree_R, ITree.subtree_root] at hzp; subst hzp
              obtain ⟨st', e1, hA⟩ := insert_step_L_case2 hAt rfl
              exact fin st' p _ (e1 f) hA (stop_after hA f rfl .L rfl) (by rw [hB]; tl_eq) (by rw [hB]; ids_perm)
        | R =>
          simp only [ITree.subtree_R, ITree.subtree_root] at hp
          subst hp
          -- the uncle
          rcases hB : A with _ | ⟨yi, _ | _, yl, yk, yv, yr⟩
          all_goals rw [hB] at hAt
          · cases d2 with
            | R =>
              simp only [ITree.subtree_R, ITree.subtree_root] at hzp; subst hzp
              obtain ⟨st', e1, hA⟩ := insert_step_R_case3 hAt rfl
              exact fin st' z _ (e1 f) hA (stop_after hA f rfl .R rfl) (by rw [hB]; tl_eq) (by rw [hB]; ids_perm)
            | L =>
              simp only [ITree.subtree_L, ITree.subtree_root] at hzp; subst hzp
              obtain ⟨st', e1, hA⟩ := insert_step_R_case2 hAt rfl
              exact fin st' p _ (e1 f) hA (stop_after hA f rfl .R rfl) (by rw [hB]; tl_eq) (by rw [hB]; ids_perm)
          · obtain ⟨st', e1, hA⟩ := insert_step_R_case1 hAt d2 hzp
            exact cont st' _ _ _ (e1 f) hA rfl (by rw [hB]; tl_eq) (by rw [hB]; first | exact List.Perm.refl _ | ids_perm)
          · cases d2 with
            | R =>
              simp only [ITree.subtree_R, ITree.subtree_root] at hzp; subst hzp
              obtain ⟨st', e1, hA⟩ := insert_step_R_case3 hAt rfl
              exact fin st' z _ (e1 f) hA (stop_after hA f rfl .R rfl) (by rw [hB]; tl_eq) (by rw [hB]; ids_perm)
            | L =>
              simp only [ITree.subtree_L, ITree.subtree_root] at hzp; subst hzp
              obtain ⟨st', e1, hA⟩ := insert_step_R_case2 hAt rfl
              exact fin st' p _ (e1 f) hA (stop_after hA f rfl .R rfl) (by rw [hB]; tl_eq) (by rw [hB]; ids_perm)
      · -- black parent: the loop stops
        have : rebalInsertLoop (f + 1) st z = st :=
          insert_loop_stop st z (f + 1) (by rw [hzpar, rp]; exact hcp)
        rw [this]; exact ⟨T, h, rfl, List.Perm.refl _⟩
    · -- `z` is the root or a child of the (black) root: the parent is not red
      have hstop : (st.heap.get (st.heap.get z).parent).color ≠ .red := by
        rw [rz]
        rcases path_cases q with h0 | ⟨q1, d, rfl⟩
        · subst h0; simp only [parentAt, if_true]; rw [h.black]; simp
        · have hq1 : q1 = [] := by
            cases q1 with
            | nil => rfl
            | cons e q1' => simp at hq2
          subst hq1
          have hTcol : T.col = .black := by rcases hroot with h0 | h0; · simp at h0
                                            · exact h0
          cases T with
          | nil => simp at hz
          | node r c l k v rr =>
            have := (h.get_at [] (ITree.subtree_root _)).1
            simp only [ITree.col_node] at hTcol
            simp only [parentAt, List.nil_append, List.cons_ne_nil, if_false, List.dropLast, ITree.subtree_root,
              ITree.rid_node, this, hTcol]; simp
      rw [insert_loop_stop st z (f + 1) hstop]
      exact ⟨T, h, rfl, List.Perm.refl _⟩
end CC.PTree

namespace CC.PTree
open CC
open CC.Tree (Path Dir)

/-- **`rebalance_after_insert(table, z)`** as a whole (the loop and the final `root->color = BLACK`) -/
theorem rebalanceAfterInsert_wf (st : PT) (T : ITree) (q : Path) (z : Nat) (zl : ITree) (zk zv : Nat) (zr : ITree)
    (h : Represents st T) (hz : T.subtree q = .node z .red zl zk zv zr) (hroot : q = [] ∨ T.col = .black)
    (hf : q.length ≤ st.size + 2) :
    ∃ T', Represents (rebalanceAfterInsert st z) T' ∧ T'.erase.toList = T.erase.toList ∧ T'.ids.Perm T.ids ∧
      T'.col = .black := by
  obtain ⟨T1, r1, r2, r3⟩ := rebalInsertLoop_wf (st.size + 2) st T q z zl zk zv zr h hz hroot hf
  unfold rebalanceAfterInsert
  generalize rebalInsertLoop (st.size + 2) st z = st1 at r1
  cases T1 with
  | nil =>
    -- impossible: the tree still contains `z`
    have : z ∈ ITree.ids ITree.nil := r3.symm.subset (ITree.ids_subtree_subset T q z (by rw [hz]; simp))
    simp at this
  | node r c l k v rr =>
    have hs : (ITree.node r c l k v rr).subtree [] = .node r c l k v rr := ITree.subtree_root _
    have := setColor_represents r1 [] hs .black
    have hr : st1.root = r := r1.root
    dsimp only
    rw [hr]
    rw [hr] at this
    simp only [ITree.replace_root] at this
    refine ⟨.node r .black l k v rr, ?_, ?_, ?_, rfl⟩
    · exact this
    · rw [← r2]; simp [ITree.erase, Tree.toList]
    · exact (List.Perm.refl _).trans r3
end CC.PTree
