import CollectionsC.Model.TreeTable
/-! Search-tree part of the `cc_treetable` proofs: the in-order list of the tree is the ideal
ordered map, and every tree function refines the corresponding list function
(`Spec/OrdMapSpec.lean`).  Rotations and recolourings never change the in-order list. -/
namespace CC
open Spec Spec.OrdMap

namespace Spec.TotalOrder
variable {cmp : Nat → Nat → Int}

theorem self (h : TotalOrder cmp) (a : Nat) : cmp a a = 0 := (h.eq_zero a a).2 rfl
theorem irrefl (h : TotalOrder cmp) (a : Nat) : ¬ cmp a a < 0 := by rw [h.self]; omega
theorem asymm (h : TotalOrder cmp) {a b : Nat} (hab : cmp a b < 0) : ¬ cmp b a < 0 := by
  have := (h.antisymm a b).1 hab; omega
theorem ne_of_lt (h : TotalOrder cmp) {a b : Nat} (hab : cmp a b < 0) : a ≠ b := by
  intro e; subst e; exact h.irrefl a hab
theorem gt_iff (h : TotalOrder cmp) (a b : Nat) : 0 < cmp a b ↔ cmp b a < 0 := (h.antisymm b a).symm
/-- trichotomy in the form the descent uses it -/
theorem eq_of_not (h : TotalOrder cmp) {a b : Nat} (h1 : ¬ cmp a b < 0) (h2 : ¬ 0 < cmp a b) : a = b :=
  (h.eq_zero a b).1 (by omega)
/-- the opposite order is a total order as well -/
theorem flip (h : TotalOrder cmp) : TotalOrder (fun a b => cmp b a) where
  eq_zero a b := by rw [h.eq_zero]; exact eq_comm
  antisymm a b := h.antisymm b a
  trans a b c h1 h2 := h.trans c b a h2 h1
end Spec.TotalOrder

namespace Spec.OrdMap
variable {cmp : Nat → Nat → Int}

theorem sorted_append_cons {xs ys : OrdMap} {e : Nat × Nat} :
    Sorted cmp (xs ++ e :: ys) ↔
      Sorted cmp xs ∧ Sorted cmp ys ∧ (∀ a ∈ xs, cmp a.1 e.1 < 0) ∧ (∀ b ∈ ys, cmp e.1 b.1 < 0) ∧
      (∀ a ∈ xs, ∀ b ∈ ys, cmp a.1 b.1 < 0) := by
  simp only [Sorted, List.pairwise_append, List.pairwise_cons, List.mem_cons]
  constructor
  · rintro ⟨h1, ⟨h2, h3⟩, h4⟩
    exact ⟨h1, h3, fun a ha => h4 a ha e (Or.inl rfl), h2, fun a ha b hb => h4 a ha b (Or.inr hb)⟩
  · rintro ⟨h1, h2, h3, h4, h5⟩
    refine ⟨h1, ⟨h4, h2⟩, ?_⟩
    intro a ha b hb
    rcases hb with rfl | hb
    · exact h3 a ha
    · exact h5 a ha b hb

theorem sorted_cons {ys : OrdMap} {e : Nat × Nat} :
    Sorted cmp (e :: ys) ↔ Sorted cmp ys ∧ ∀ b ∈ ys, cmp e.1 b.1 < 0 := by
  simp only [Sorted, List.pairwise_cons]; exact And.comm

theorem below_all (h : TotalOrder cmp) {l : OrdMap} {k : Nat} (hl : ∀ e ∈ l, cmp e.1 k < 0) :
    below cmp l k = l ∧ above cmp l k = [] := by
  constructor
  · exact List.filter_eq_self.2 (fun e he => by simpa using hl e he)
  · exact List.filter_eq_nil_iff.2 (fun e he => by simpa using h.asymm (hl e he))

theorem above_all (h : TotalOrder cmp) {l : OrdMap} {k : Nat} (hl : ∀ e ∈ l, cmp k e.1 < 0) :
    below cmp l k = [] ∧ above cmp l k = l := by
  constructor
  · exact List.filter_eq_nil_iff.2 (fun e he => by simpa using h.asymm (hl e he))
  · exact List.filter_eq_self.2 (fun e he => by simpa using hl e he)

theorem below_append (xs ys : OrdMap) (k : Nat) : below cmp (xs ++ ys) k = below cmp xs k ++ below cmp ys k := by
  simp [below]
theorem above_append (xs ys : OrdMap) (k : Nat) : above cmp (xs ++ ys) k = above cmp xs k ++ above cmp ys k := by
  simp [above]

theorem below_cons (e : Nat × Nat) (l : OrdMap) (k : Nat) :
    below cmp (e :: l) k = if cmp e.1 k < 0 then e :: below cmp l k else below cmp l k := by
  simp only [below, List.filter_cons, decide_eq_true_eq]
theorem above_cons (e : Nat × Nat) (l : OrdMap) (k : Nat) :
    above cmp (e :: l) k = if cmp k e.1 < 0 then e :: above cmp l k else above cmp l k := by
  simp only [above, List.filter_cons, decide_eq_true_eq]

/-- keys different from `k` on a part of the map that lies entirely on one side of `k` -/
theorem ne_of_side (h : TotalOrder cmp) {l : OrdMap} {k : Nat}
    (hl : (∀ e ∈ l, cmp e.1 k < 0) ∨ (∀ e ∈ l, cmp k e.1 < 0)) : ∀ e ∈ l, e.1 ≠ k := by
  intro e he
  rcases hl with hl | hl
  · exact h.ne_of_lt (hl e he)
  · exact fun e' => h.ne_of_lt (hl e he) e'.symm

theorem lookup_none_of_ne {l : OrdMap} {k : Nat} (hl : ∀ e ∈ l, e.1 ≠ k) : lookup l k = none := by
  simp only [lookup, Option.map_eq_none_iff, List.find?_eq_none]
  intro e he; simpa using hl e he
theorem contains_false_of_ne {l : OrdMap} {k : Nat} (hl : ∀ e ∈ l, e.1 ≠ k) : contains l k = false := by
  simp only [contains, List.any_eq_false]
  intro e he; simpa using hl e he
theorem erase_self_of_ne {l : OrdMap} {k : Nat} (hl : ∀ e ∈ l, e.1 ≠ k) : erase l k = l := by
  exact List.filter_eq_self.2 (fun e he => by simpa using hl e he)

theorem lookup_append (xs ys : OrdMap) (k : Nat) : lookup (xs ++ ys) k = (lookup xs k).or (lookup ys k) := by
  simp only [lookup, List.find?_append]
  cases List.find? (fun e => e.1 == k) xs <;> simp
theorem contains_append (xs ys : OrdMap) (k : Nat) : contains (xs ++ ys) k = (contains xs k || contains ys k) := by
  simp [contains]
theorem erase_append (xs ys : OrdMap) (k : Nat) : erase (xs ++ ys) k = erase xs k ++ erase ys k := by
  simp [erase]

theorem contains_iff_lookup (l : OrdMap) (k : Nat) : contains l k = (lookup l k).isSome := by
  induction l with
  | nil => rfl
  | cons e rest ih =>
    simp only [contains, lookup, List.any_cons, List.find?_cons] at *
    cases h : e.1 == k <;> simp [ih]

/-! ### the three situations of a descent step: `k` below, above, or at the pivot `a` -/
section pivot
variable (h : TotalOrder cmp) {xs ys : OrdMap} {a av k : Nat}
include h

theorem right_above_of_lt (hs : Sorted cmp (xs ++ (a, av) :: ys)) (hk : cmp k a < 0) :
    ∀ e ∈ (a, av) :: ys, cmp k e.1 < 0 := by
  obtain ⟨_, _, _, h4, _⟩ := sorted_append_cons.1 hs
  intro e he
  rcases List.mem_cons.1 he with rfl | he
  · exact hk
  · exact h.trans _ _ _ hk (h4 e he)

theorem left_below_of_gt (hs : Sorted cmp (xs ++ (a, av) :: ys)) (hk : cmp a k < 0) :
    ∀ e ∈ xs ++ [(a, av)], cmp e.1 k < 0 := by
  obtain ⟨_, _, h3, _, _⟩ := sorted_append_cons.1 hs
  intro e he
  rcases List.mem_append.1 he with he | he
  · exact h.trans _ _ _ (h3 e he) hk
  · simp at he; subst he; exact hk

theorem insert_lt (hs : Sorted cmp (xs ++ (a, av) :: ys)) (hk : cmp k a < 0) (v : Nat) :
    insert cmp (xs ++ (a, av) :: ys) k v = insert cmp xs k v ++ (a, av) :: ys := by
  have := above_all h (right_above_of_lt h hs hk)
  simp only [insert, below_append, above_append, this.1, this.2, List.append_nil, List.append_assoc,
    List.cons_append]

theorem insert_gt (hs : Sorted cmp (xs ++ (a, av) :: ys)) (hk : cmp a k < 0) (v : Nat) :
    insert cmp (xs ++ (a, av) :: ys) k v = xs ++ (a, av) :: insert cmp ys k v := by
  have hx : ∀ e ∈ xs, cmp e.1 k < 0 := fun e he => left_below_of_gt h hs hk e (by simp [he])
  have := below_all h hx
  have na := h.asymm hk
  simp only [insert, below_append, above_append, below_cons, above_cons, this.1, this.2, hk, na, if_true,
    if_false, List.nil_append, List.append_assoc, List.cons_append]

theorem insert_eq (hs : Sorted cmp (xs ++ (a, av) :: ys)) (v : Nat) :
    insert cmp (xs ++ (a, av) :: ys) a v = xs ++ (a, v) :: ys := by
  obtain ⟨_, _, h3, h4, _⟩ := sorted_append_cons.1 hs
  have b1 := below_all h (l := xs) (k := a) h3
  have b2 := above_all h (l := ys) (k := a) h4
  have i := h.irrefl a
  simp only [insert, below_append, above_append, below_cons, above_cons, b1.1, b1.2, b2.1, b2.2, i, if_false,
    List.nil_append, List.append_nil]

theorem lookup_lt (hs : Sorted cmp (xs ++ (a, av) :: ys)) (hk : cmp k a < 0) :
    lookup (xs ++ (a, av) :: ys) k = lookup xs k := by
  rw [lookup_append, lookup_none_of_ne (ne_of_side h (Or.inr (right_above_of_lt h hs hk)))]
  simp
theorem lookup_gt (hs : Sorted cmp (xs ++ (a, av) :: ys)) (hk : cmp a k < 0) :
    lookup (xs ++ (a, av) :: ys) k = lookup ys k := by
  have e : xs ++ (a, av) :: ys = (xs ++ [(a, av)]) ++ ys := by simp
  rw [e, lookup_append, lookup_none_of_ne (ne_of_side h (Or.inl (left_below_of_gt h hs hk)))]
  simp
theorem lookup_eq (hs : Sorted cmp (xs ++ (a, av) :: ys)) :
    lookup (xs ++ (a, av) :: ys) a = some av := by
  obtain ⟨_, _, h3, _, _⟩ := sorted_append_cons.1 hs
  rw [lookup_append, lookup_none_of_ne (ne_of_side h (Or.inl h3))]
  simp [lookup]

theorem erase_lt (hs : Sorted cmp (xs ++ (a, av) :: ys)) (hk : cmp k a < 0) :
    erase (xs ++ (a, av) :: ys) k = erase xs k ++ (a, av) :: ys := by
  rw [erase_append, erase_self_of_ne (ne_of_side h (Or.inr (right_above_of_lt h hs hk)))]
theorem erase_gt (hs : Sorted cmp (xs ++ (a, av) :: ys)) (hk : cmp a k < 0) :
    erase (xs ++ (a, av) :: ys) k = xs ++ (a, av) :: erase ys k := by
  have e : xs ++ (a, av) :: ys = (xs ++ [(a, av)]) ++ ys := by simp
  rw [e, erase_append, erase_self_of_ne (ne_of_side h (Or.inl (left_below_of_gt h hs hk)))]
  simp
theorem erase_eq (hs : Sorted cmp (xs ++ (a, av) :: ys)) :
    erase (xs ++ (a, av) :: ys) a = xs ++ ys := by
  obtain ⟨_, _, h3, h4, _⟩ := sorted_append_cons.1 hs
  rw [erase_append, erase_self_of_ne (ne_of_side h (Or.inl h3))]
  have : erase ys a = ys := erase_self_of_ne (ne_of_side h (Or.inr h4))
  simp only [erase] at this ⊢
  simp [this]
end pivot

end Spec.OrdMap
end CC
