import CollectionsC.Model.TreeTable
/-! Search-tree part of the `cc_treetable` proofs: the in-order list of the tree is the ideal
ordered map, and every tree function refines the corresponding list function
(`Spec/OrdMapSpec.lean`).  Rotations and recolourings never change the in-order list. -/
namespace CC
open Spec Spec.OrdMap

namespace Spec.TotalOrder
variable {cmp : Nat → Nat → Int}

theorem self (h : TotalOrder cmp) (a : Nat) : cmp a a = 0 := (h.eq_zero a a).2 rfl
theorem irrefl (h : TotalOrder cmp) (a : Nat) : ¬ cmp a a < 0 := by rw [h.self]; omega
theorem asymm (h : TotalOrder cmp) {a b : Nat} (hab : cmp a b < 0) : ¬ cmp b a < 0 := by
  have := (h.antisymm a b).1 hab; omega
theorem ne_of_lt (h : TotalOrder cmp) {a b : Nat} (hab : cmp a b < 0) : a ≠ b := by
  intro e; subst e; exact h.irrefl a hab
theorem gt_iff (h : TotalOrder cmp) (a b : Nat) : 0 < cmp a b ↔ cmp b a < 0 := (h.antisymm b a).symm
/-- trichotomy in the form the descent uses it -/
theorem eq_of_not (h : TotalOrder cmp) {a b : Nat} (h1 : ¬ cmp a b < 0) (h2 : ¬ 0 < cmp a b) : a = b :=
  (h.eq_zero a b).1 (by omega)
/-- the opposite order is a total order as well -/
theorem flip (h : TotalOrder cmp) : TotalOrder (fun a b => cmp b a) where
  eq_zero a b := by rw [h.eq_zero]; exact eq_comm
  antisymm a b := h.antisymm b a
  trans a b c h1 h2 := h.trans c b a h2 h1
end Spec.TotalOrder

namespace Spec.OrdMap
variable {cmp : Nat → Nat → Int}

theorem sorted_append_cons {xs ys : OrdMap} {e : Nat × Nat} :
    Sorted cmp (xs ++ e :: ys) ↔
      Sorted cmp xs ∧ Sorted cmp ys ∧ (∀ a ∈ xs, cmp a.1 e.1 < 0) ∧ (∀ b ∈ ys, cmp e.1 b.1 < 0) ∧
      (∀ a ∈ xs, ∀ b ∈ ys, cmp a.1 b.1 < 0) := by
  simp only [Sorted, List.pairwise_append, List.pairwise_cons, List.mem_cons]
  constructor
  · rintro ⟨h1, ⟨h2, h3⟩, h4⟩
    exact ⟨h1, h3, fun a ha => h4 a ha e (Or.inl rfl), h2, fun a ha b hb => h4 a ha b (Or.inr hb)⟩
  · rintro ⟨h1, h2, h3, h4, h5⟩
    refine ⟨h1, ⟨h4, h2⟩, ?_⟩
    intro a ha b hb
    rcases hb with rfl | hb
    · exact h3 a ha
    · exact h5 a ha b hb

theorem sorted_cons {ys : OrdMap} {e : Nat × Nat} :
    Sorted cmp (e :: ys) ↔ Sorted cmp ys ∧ ∀ b ∈ ys, cmp e.1 b.1 < 0 := by
  simp only [Sorted, List.pairwise_cons]; exact And.comm

theorem below_all (h : TotalOrder cmp) {l : OrdMap} {k : Nat} (hl : ∀ e ∈ l, cmp e.1 k < 0) :
    below cmp l k = l ∧ above cmp l k = [] := by
  constructor
  · exact List.filter_eq_self.2 (fun e he => by simpa using hl e he)
  · exact List.filter_eq_nil_iff.2 (fun e he => by simpa using h.asymm (hl e he))

theorem above_all (h : TotalOrder cmp) {l : OrdMap} {k : Nat} (hl : ∀ e ∈ l, cmp k e.1 < 0) :
    below cmp l k = [] ∧ above cmp l k = l := by
  constructor
  · exact List.filter_eq_nil_iff.2 (fun e he => by simpa using h.asymm (hl e he))
  · exact List.filter_eq_self.2 (fun e he => by simpa using hl e he)

theorem below_append (xs ys : OrdMap) (k : Nat) : below cmp (xs ++ ys) k = below cmp xs k ++ below cmp ys k := by
  simp [below]
theorem above_append (xs ys : OrdMap) (k : Nat) : above cmp (xs ++ ys) k = above cmp xs k ++ above cmp ys k := by
  simp [above]

theorem below_cons (e : Nat × Nat) (l : OrdMap) (k : Nat) :
    below cmp (e :: l) k = if cmp e.1 k < 0 then e :: below cmp l k else below cmp l k := by
  simp only [below, List.filter_cons, decide_eq_true_eq]
theorem above_cons (e : Nat × Nat) (l : OrdMap) (k : Nat) :
    above cmp (e :: l) k = if cmp k e.1 < 0 then e :: above cmp l k else above cmp l k := by
  simp only [above, List.filter_cons, decide_eq_true_eq]

/-- keys different from `k` on a part of the map that lies entirely on one side of `k` -/
theorem ne_of_side (h : TotalOrder cmp) {l : OrdMap} {k : Nat}
    (hl : (∀ e ∈ l, cmp e.1 k < 0) ∨ (∀ e ∈ l, cmp k e.1 < 0)) : ∀ e ∈ l, e.1 ≠ k := by
  intro e he
  rcases hl with hl | hl
  · exact h.ne_of_lt (hl e he)
  · exact fun e' => h.ne_of_lt (hl e he) e'.symm

theorem lookup_none_of_ne {l : OrdMap} {k : Nat} (hl : ∀ e ∈ l, e.1 ≠ k) : lookup l k = none := by
  simp only [lookup, Option.map_eq_none_iff, List.find?_eq_none]
  intro e he; simpa using hl e he
theorem contains_false_of_ne {l : OrdMap} {k : Nat} (hl : ∀ e ∈ l, e.1 ≠ k) : contains l k = false := by
  simp only [contains, List.any_eq_false]
  intro e he; simpa using hl e he
theorem erase_self_of_ne {l : OrdMap} {k : Nat} (hl : ∀ e ∈ l, e.1 ≠ k) : erase l k = l := by
  exact List.filter_eq_self.2 (fun e he => by simpa using hl e he)

theorem lookup_append (xs ys : OrdMap) (k : Nat) : lookup (xs ++ ys) k = (lookup xs k).or (lookup ys k) := by
  simp only [lookup, List.find?_append]
  cases List.find? (fun e => e.1 == k) xs <;> simp
theorem contains_append (xs ys : OrdMap) (k : Nat) : contains (xs ++ ys) k = (contains xs k || contains ys k) := by
  simp [contains]
theorem erase_append (xs ys : OrdMap) (k : Nat) : erase (xs ++ ys) k = erase xs k ++ erase ys k := by
  simp [erase]

theorem contains_iff_lookup (l : OrdMap) (k : Nat) : contains l k = (lookup l k).isSome := by
  induction l with
  | nil => rfl
  | cons e rest ih =>
    simp only [contains, lookup, List.any_cons, List.find?_cons] at *
    cases h : e.1 == k <;> simp [ih]

/-! ### the three situations of a descent step: `k` below, above, or at the pivot `a` -/
section pivot
variable (h : TotalOrder cmp) {xs ys : OrdMap} {a av k : Nat}
include h

theorem right_above_of_lt (hs : Sorted cmp (xs ++ (a, av) :: ys)) (hk : cmp k a < 0) :
    ∀ e ∈ (a, av) :: ys, cmp k e.1 < 0 := by
  obtain ⟨_, _, _, h4, _⟩ := sorted_append_cons.1 hs
  intro e he
  rcases List.mem_cons.1 he with rfl | he
  · exact hk
  · exact h.trans _ _ _ hk (h4 e he)

theorem left_below_of_gt (hs : Sorted cmp (xs ++ (a, av) :: ys)) (hk : cmp a k < 0) :
    ∀ e ∈ xs ++ [(a, av)], cmp e.1 k < 0 := by
  obtain ⟨_, _, h3, _, _⟩ := sorted_append_cons.1 hs
  intro e he
  rcases List.mem_append.1 he with he | he
  · exact h.trans _ _ _ (h3 e he) hk
  · simp at he; subst he; exact hk

theorem insert_lt (hs : Sorted cmp (xs ++ (a, av) :: ys)) (hk : cmp k a < 0) (v : Nat) :
    insert cmp (xs ++ (a, av) :: ys) k v = insert cmp xs k v ++ (a, av) :: ys := by
  have := above_all h (right_above_of_lt h hs hk)
  simp only [insert, below_append, above_append, this.1, this.2, List.append_nil, List.append_assoc,
    List.cons_append]

theorem insert_gt (hs : Sorted cmp (xs ++ (a, av) :: ys)) (hk : cmp a k < 0) (v : Nat) :
    insert cmp (xs ++ (a, av) :: ys) k v = xs ++ (a, av) :: insert cmp ys k v := by
  have hx : ∀ e ∈ xs, cmp e.1 k < 0 := fun e he => left_below_of_gt h hs hk e (by simp [he])
  have := below_all h hx
  have na := h.asymm hk
  simp only [insert, below_append, above_append, below_cons, above_cons, this.1, this.2, hk, na, if_true,
    if_false, List.nil_append, List.append_assoc, List.cons_append]

theorem insert_eq (hs : Sorted cmp (xs ++ (a, av) :: ys)) (v : Nat) :
    insert cmp (xs ++ (a, av) :: ys) a v = xs ++ (a, v) :: ys := by
  obtain ⟨_, _, h3, h4, _⟩ := sorted_append_cons.1 hs
  have b1 := below_all h (l := xs) (k := a) h3
  have b2 := above_all h (l := ys) (k := a) h4
  have i := h.irrefl a
  simp only [insert, below_append, above_append, below_cons, above_cons, b1.1, b1.2, b2.1, b2.2, i, if_false,
    List.nil_append, List.append_nil]

theorem lookup_lt (hs : Sorted cmp (xs ++ (a, av) :: ys)) (hk : cmp k a < 0) :
    lookup (xs ++ (a, av) :: ys) k = lookup xs k := by
  rw [lookup_append, lookup_none_of_ne (ne_of_side h (Or.inr (right_above_of_lt h hs hk)))]
  simp
theorem lookup_gt (hs : Sorted cmp (xs ++ (a, av) :: ys)) (hk : cmp a k < 0) :
    lookup (xs ++ (a, av) :: ys) k = lookup ys k := by
  have e : xs ++ (a, av) :: ys = (xs ++ [(a, av)]) ++ ys := by simp
  rw [e, lookup_append, lookup_none_of_ne (ne_of_side h (Or.inl (left_below_of_gt h hs hk)))]
  simp
theorem lookup_eq (hs : Sorted cmp (xs ++ (a, av) :: ys)) :
    lookup (xs ++ (a, av) :: ys) a = some av := by
  obtain ⟨_, _, h3, _, _⟩ := sorted_append_cons.1 hs
  rw [lookup_append, lookup_none_of_ne (ne_of_side h (Or.inl h3))]
  simp [lookup]

theorem erase_lt (hs : Sorted cmp (xs ++ (a, av) :: ys)) (hk : cmp k a < 0) :
    erase (xs ++ (a, av) :: ys) k = erase xs k ++ (a, av) :: ys := by
  rw [erase_append, erase_self_of_ne (ne_of_side h (Or.inr (right_above_of_lt h hs hk)))]
theorem erase_gt (hs : Sorted cmp (xs ++ (a, av) :: ys)) (hk : cmp a k < 0) :
    erase (xs ++ (a, av) :: ys) k = xs ++ (a, av) :: erase ys k := by
  have e : xs ++ (a, av) :: ys = (xs ++ [(a, av)]) ++ ys := by simp
  rw [e, erase_append, erase_self_of_ne (ne_of_side h (Or.inl (left_below_of_gt h hs hk)))]
  simp
theorem erase_eq (hs : Sorted cmp (xs ++ (a, av) :: ys)) :
    erase (xs ++ (a, av) :: ys) a = xs ++ ys := by
  obtain ⟨_, _, h3, h4, _⟩ := sorted_append_cons.1 hs
  rw [erase_append, erase_self_of_ne (ne_of_side h (Or.inl h3))]
  have : erase ys a = ys := erase_self_of_ne (ne_of_side h (Or.inr h4))
  simp only [erase] at this ⊢
  simp [this]
end pivot

end Spec.OrdMap

namespace Tree
open Colour
variable {cmp : Nat → Nat → Int}

@[simp] theorem toList_nil : toList nil = [] := rfl
@[simp] theorem toList_node (c l k v r) : toList (node c l k v r) = toList l ++ (k, v) :: toList r := rfl
@[simp] theorem toList_blacken (t : Tree) : t.blacken.toList = t.toList := by cases t <;> rfl

/-! ### rotations and recolourings keep the in-order list -/
theorem toList_fixInsLeft (t : Tree) : (fixInsLeft t).toList = t.toList := by
  unfold fixInsLeft
  repeat' split
  all_goals simp

theorem toList_fixInsRight (t : Tree) : (fixInsRight t).toList = t.toList := by
  unfold fixInsRight
  repeat' split
  all_goals simp

theorem toList_fixDelLeftB (t : Tree) : (fixDelLeftB t).1.toList = t.toList := by
  unfold fixDelLeftB
  repeat' split
  all_goals simp
theorem toList_fixDelRightB (t : Tree) : (fixDelRightB t).1.toList = t.toList := by
  unfold fixDelRightB
  repeat' split
  all_goals simp
theorem toList_fixDelLeft (t : Tree) : (fixDelLeft t).1.toList = t.toList := by
  unfold fixDelLeft
  split
  · simp [toList_fixDelLeftB]
  · exact toList_fixDelLeftB _
theorem toList_fixDelRight (t : Tree) : (fixDelRight t).1.toList = t.toList := by
  unfold fixDelRight
  split
  · simp [toList_fixDelRightB]
  · exact toList_fixDelRightB _

/-! ### refinement of the tree functions to the list functions -/
theorem head?_append_ne {α} {xs ys : List α} (h : xs ≠ []) : (xs ++ ys).head? = xs.head? := by
  cases xs <;> simp_all
theorem getLast?_append_ne {α} {xs ys : List α} (h : ys ≠ []) : (xs ++ ys).getLast? = ys.getLast? := by
  rw [List.getLast?_append]
  cases h' : ys.getLast? with
  | none => simp [List.getLast?_eq_none_iff] at h'; contradiction
  | some a => simp
theorem getLast?_cons_ne {α} {e : α} {ys : List α} (h : ys ≠ []) : (e :: ys).getLast? = ys.getLast? := by
  cases ys with
  | nil => contradiction
  | cons a b => exact List.getLast?_cons_cons
theorem toList_node_ne_nil (c l k v r) : toList (node c l k v r) ≠ [] := by simp

theorem size_eq_length (t : Tree) : t.size = t.toList.length := by
  induction t with
  | nil => rfl
  | node c l k v r ihl ihr => simp [size, ihl, ihr]; omega

theorem BST.left {c l k v r} (h : BST cmp (node c l k v r)) : BST cmp l := (sorted_append_cons.1 h).1
theorem BST.right {c l k v r} (h : BST cmp (node c l k v r)) : BST cmp r := (sorted_append_cons.1 h).2.1

/-- insertion refines the ideal add-or-replace -/
theorem toList_ins (h : TotalOrder cmp) (k v : Nat) (t : Tree) (hb : BST cmp t) :
    (ins cmp k v t).1.toList = insert cmp t.toList k v := by
  induction t with
  | nil => simp [ins, OrdMap.insert, below, above]
  | node c l key val r ihl ihr =>
    have hs : Sorted cmp (l.toList ++ (key, val) :: r.toList) := hb
    unfold ins
    split
    · rename_i hlt
      have e : (if (ins cmp k v l).2.1 then fixInsLeft (node c (ins cmp k v l).1 key val r)
          else node c (ins cmp k v l).1 key val r).toList = (ins cmp k v l).1.toList ++ (key, val) :: r.toList := by
        split <;> simp [toList_fixInsLeft]
      simp only [e, ihl hb.left, toList_node]
      exact (insert_lt h hs hlt v).symm
    · split
      · rename_i _ hgt
        have hgt' := (h.gt_iff k key).1 hgt
        have e : (if (ins cmp k v r).2.1 then fixInsRight (node c l key val (ins cmp k v r).1)
            else node c l key val (ins cmp k v r).1).toList = l.toList ++ (key, val) :: (ins cmp k v r).1.toList := by
          split <;> simp [toList_fixInsRight]
        simp only [e, ihr hb.right, toList_node]
        exact (insert_gt h hs hgt' v).symm
      · rename_i h1 h2
        have := h.eq_of_not h1 h2
        subst this
        simp only [toList_node]
        exact (insert_eq h hs v).symm

/-- a node is created exactly when the key is absent -/
theorem ins_new (h : TotalOrder cmp) (k v : Nat) (t : Tree) (hb : BST cmp t) :
    (ins cmp k v t).2.1 = !contains t.toList k := by
  induction t with
  | nil => simp [ins, contains]
  | node c l key val r ihl ihr =>
    have hs : Sorted cmp (l.toList ++ (key, val) :: r.toList) := hb
    unfold ins
    split
    · rename_i hlt
      simp only [ihl hb.left, toList_node, contains_append]
      rw [contains_false_of_ne (ne_of_side h (Or.inr (right_above_of_lt h hs hlt)))]; simp
    · split
      · rename_i _ hgt
        have hgt' := (h.gt_iff k key).1 hgt
        have e : l.toList ++ (key, val) :: r.toList = (l.toList ++ [(key, val)]) ++ r.toList := by simp
        simp only [ihr hb.right, toList_node]
        rw [e, contains_append, contains_false_of_ne (ne_of_side h (Or.inl (left_below_of_gt h hs hgt')))]; simp
      · rename_i h1 h2
        have := h.eq_of_not h1 h2
        subst this
        simp [contains]

/-- lookup refines the ideal lookup -/
theorem find_refines (h : TotalOrder cmp) (k : Nat) (t : Tree) (hb : BST cmp t) :
    (find cmp k t).1 = lookup t.toList k := by
  induction t with
  | nil => simp [find, lookup]
  | node c l key val r ihl ihr =>
    have hs : Sorted cmp (l.toList ++ (key, val) :: r.toList) := hb
    unfold find
    split
    · rename_i hlt
      simp only [ihl hb.left, toList_node]; exact (lookup_lt h hs hlt).symm
    · split
      · rename_i _ hgt
        simp only [ihr hb.right, toList_node]; exact (lookup_gt h hs ((h.gt_iff k key).1 hgt)).symm
      · rename_i h1 h2
        have := h.eq_of_not h1 h2
        subst this
        simp only [toList_node]; exact (lookup_eq h hs).symm

theorem minEntry_eq (t : Tree) : t.minEntry = t.toList.head? := by
  induction t with
  | nil => rfl
  | node c l k v r ihl _ =>
    cases l with
    | nil => simp [minEntry]
    | node lc ll lk lv lr =>
      simp only [minEntry]
      rw [ihl, toList_node c, head?_append_ne (toList_node_ne_nil _ _ _ _ _)]

theorem maxEntry_eq (t : Tree) : t.maxEntry = t.toList.getLast? := by
  induction t with
  | nil => rfl
  | node c l k v r _ ihr =>
    cases r with
    | nil => simp [maxEntry]
    | node rc rl rk rv rr =>
      simp only [maxEntry]
      rw [ihr, toList_node c, getLast?_append_ne (by simp), getLast?_cons_ne (toList_node_ne_nil _ _ _ _ _)]

theorem toList_dropNode (c : Colour) (x : Tree) : (dropNode c x).1.toList = x.toList := by
  unfold dropNode; repeat' split
  all_goals simp

theorem toList_delMin (t : Tree) : (delMin t).1.toList = t.toList.tail := by
  induction t with
  | nil => rfl
  | node c l k v r ihl _ =>
    cases l with
    | nil => simp [delMin, toList_dropNode]
    | node lc ll lk lv lr =>
      simp only [delMin]
      split
      · rw [toList_fixDelLeft, toList_node, ihl, toList_node c, List.tail_append_of_ne_nil (toList_node_ne_nil _ _ _ _ _)]
      · rw [toList_node, ihl, toList_node c, List.tail_append_of_ne_nil (toList_node_ne_nil _ _ _ _ _)]

theorem toList_delMax (t : Tree) : (delMax t).1.toList = t.toList.dropLast := by
  induction t with
  | nil => rfl
  | node c l k v r _ ihr =>
    cases r with
    | nil => simp [delMax, toList_dropNode]
    | node rc rl rk rv rr =>
      simp only [delMax]
      split
      · rw [toList_fixDelRight, toList_node, ihr, toList_node c, List.dropLast_append_of_ne_nil (by simp),
          List.dropLast_cons_of_ne_nil (toList_node_ne_nil _ _ _ _ _)]
      · rw [toList_node, ihr, toList_node c, List.dropLast_append_of_ne_nil (by simp),
          List.dropLast_cons_of_ne_nil (toList_node_ne_nil _ _ _ _ _)]

theorem toList_removeHere (c l k v r) : (removeHere (node c l k v r)).1.toList = l.toList ++ r.toList := by
  cases l with
  | nil => simp [removeHere, toList_dropNode]
  | node lc ll lk lv lr =>
    cases r with
    | nil => simp [removeHere, toList_dropNode]
    | node rc rl rk rv rr =>
      have hm := minEntry_eq (node rc rl rk rv rr)
      have ht := toList_delMin (node rc rl rk rv rr)
      have hne := toList_node_ne_nil rc rl rk rv rr
      simp only [removeHere]
      generalize node rc rl rk rv rr = R at hm ht hne
      cases hmin : minEntry R with
      | none =>
        rw [hmin] at hm
        have : R.toList = [] := by simpa using hm.symm
        contradiction
      | some m =>
        rw [hmin] at hm
        obtain ⟨ys, hys⟩ := List.head?_eq_some_iff.1 hm.symm
        have h2 : (delMin R).1.toList = ys := by rw [ht, hys]; rfl
        simp only []
        split
        · rw [toList_fixDelRight, toList_node, h2, hys]
        · rw [toList_node, h2, hys]

/-- deletion refines the ideal erase -/
theorem toList_del (h : TotalOrder cmp) (k : Nat) (t : Tree) (hb : BST cmp t) :
    (del cmp k t).1.toList = erase t.toList k := by
  induction t with
  | nil => simp [del, erase]
  | node c l key val r ihl ihr =>
    have hs : Sorted cmp (l.toList ++ (key, val) :: r.toList) := hb
    unfold del
    split
    · rename_i hlt
      have e : (if (del cmp k l).2 then fixDelLeft (node c (del cmp k l).1 key val r)
          else (node c (del cmp k l).1 key val r, false)).1.toList = (del cmp k l).1.toList ++ (key, val) :: r.toList := by
        split <;> simp [toList_fixDelLeft]
      simp only [e, ihl hb.left, toList_node]
      exact (erase_lt h hs hlt).symm
    · split
      · rename_i _ hgt
        have e : (if (del cmp k r).2 then fixDelRight (node c l key val (del cmp k r).1)
            else (node c l key val (del cmp k r).1, false)).1.toList = l.toList ++ (key, val) :: (del cmp k r).1.toList := by
          split <;> simp [toList_fixDelRight]
        simp only [e, ihr hb.right, toList_node]
        exact (erase_gt h hs ((h.gt_iff k key).1 hgt)).symm
      · rename_i h1 h2
        have := h.eq_of_not h1 h2
        subst this
        simp only [toList_removeHere, toList_node]
        exact (erase_eq h hs).symm
end Tree
end CC

/-! ### order is preserved; sizes; successor and predecessor -/
namespace CC.Spec.OrdMap
open CC CC.Spec
variable {cmp : Nat → Nat → Int}

theorem sorted_below {l : OrdMap} (hs : Sorted cmp l) (k : Nat) : Sorted cmp (below cmp l k) :=
  List.Pairwise.filter _ hs
theorem sorted_above {l : OrdMap} (hs : Sorted cmp l) (k : Nat) : Sorted cmp (above cmp l k) :=
  List.Pairwise.filter _ hs
theorem sorted_erase {l : OrdMap} (hs : Sorted cmp l) (k : Nat) : Sorted cmp (erase l k) :=
  List.Pairwise.filter _ hs
theorem sorted_tail {l : OrdMap} (hs : Sorted cmp l) : Sorted cmp l.tail :=
  List.Pairwise.sublist (List.tail_sublist l) hs
theorem sorted_dropLast {l : OrdMap} (hs : Sorted cmp l) : Sorted cmp l.dropLast :=
  List.Pairwise.sublist (List.dropLast_sublist l) hs

theorem sorted_insert (h : TotalOrder cmp) {l : OrdMap} (hs : Sorted cmp l) (k v : Nat) :
    Sorted cmp (insert cmp l k v) := by
  refine sorted_append_cons.2 ⟨sorted_below hs k, sorted_above hs k, ?_, ?_, ?_⟩
  · intro a ha; simpa [below] using (List.mem_filter.1 ha).2
  · intro b hb; simpa [above] using (List.mem_filter.1 hb).2
  · intro a ha b hb
    have h1 : cmp a.1 k < 0 := by simpa [below] using (List.mem_filter.1 ha).2
    have h2 : cmp k b.1 < 0 := by simpa [above] using (List.mem_filter.1 hb).2
    exact h.trans _ _ _ h1 h2

/-- keys of a sorted map are pairwise different: erasing a present key removes one entry -/
theorem contains_cons (e : Nat × Nat) (l : OrdMap) (k : Nat) :
    contains (e :: l) k = (e.1 == k || contains l k) := rfl
theorem erase_cons (e : Nat × Nat) (l : OrdMap) (k : Nat) :
    erase (e :: l) k = if e.1 = k then erase l k else e :: erase l k := by
  by_cases h : e.1 = k <;> simp [erase, h]

theorem length_erase (h : TotalOrder cmp) {l : OrdMap} (hs : Sorted cmp l) (k : Nat) :
    (erase l k).length + (if contains l k then 1 else 0) = l.length := by
  induction l with
  | nil => rfl
  | cons e rest ih =>
    obtain ⟨hr, hlt⟩ := sorted_cons.1 hs
    by_cases hk : e.1 = k
    · subst hk
      have hne : ∀ x ∈ rest, x.1 ≠ e.1 := ne_of_side h (Or.inr hlt)
      rw [erase_cons, if_pos rfl, erase_self_of_ne hne, contains_cons]
      simp
    · have hb : (e.1 == k) = false := by simpa using hk
      have := ih hr
      rw [erase_cons, if_neg hk, contains_cons, hb, Bool.false_or, List.length_cons, List.length_cons]
      omega

theorem length_insert (h : TotalOrder cmp) {l : OrdMap} (hs : Sorted cmp l) (k v : Nat) :
    (insert cmp l k v).length = l.length + (if contains l k then 0 else 1) := by
  induction l with
  | nil => simp [insert, below, above, contains]
  | cons e rest ih =>
    obtain ⟨hr, hlt⟩ := sorted_cons.1 hs
    have hs' : Sorted cmp ([] ++ (e.1, e.2) :: rest) := hs
    have ee : e :: rest = [] ++ (e.1, e.2) :: rest := rfl
    by_cases h1 : cmp k e.1 < 0
    · have hc : contains (e :: rest) k = false :=
        contains_false_of_ne (ne_of_side h (Or.inr (right_above_of_lt h hs' h1)))
      rw [hc, ee, insert_lt h hs' h1 v]
      simp [insert, below, above]
    · by_cases h2 : cmp e.1 k < 0
      · have hb : (e.1 == k) = false := by simpa using h.ne_of_lt h2
        rw [contains_cons, hb, Bool.false_or, ee, insert_gt h hs' h2 v]
        simp only [List.nil_append, List.length_cons, ih hr]
        omega
      · have hk : k = e.1 := h.eq_of_not h1 (by rw [h.gt_iff]; exact h2)
        subst hk
        rw [contains_cons, ee, insert_eq h hs' v]
        simp

end CC.Spec.OrdMap

namespace CC.Tree
open CC.Spec CC.Spec.OrdMap
variable {cmp : Nat → Nat → Int}

/-- the in-order successor of a present key is the least entry above it -/
theorem nextAfter_eq_succ (h : TotalOrder cmp) {l : OrdMap} (hs : Sorted cmp l) {k : Nat}
    (hk : contains l k = true) : nextAfter l k = succ cmp l k := by
  induction l with
  | nil => simp [contains] at hk
  | cons e rest ih =>
    obtain ⟨hr, hlt⟩ := sorted_cons.1 hs
    by_cases he : e.1 = k
    · subst he
      have := above_all h hlt
      simp [nextAfter, succ, above_cons, h.irrefl, this.2]
    · have hk' : contains rest k = true := by simpa [contains, he] using hk
      have hmem : ∃ x ∈ rest, x.1 = k := by simpa [contains] using hk'
      obtain ⟨x, hx, hxk⟩ := hmem
      have : cmp e.1 k < 0 := hxk ▸ hlt x hx
      simp [nextAfter, he, succ, above_cons, h.asymm this, ih hr hk']

theorem sorted_reverse {l : OrdMap} (hs : Sorted cmp l) : Sorted (fun a b => cmp b a) l.reverse := by
  simpa [Sorted, List.pairwise_reverse] using hs

/-- the in-order predecessor of a present key is the greatest entry below it -/
theorem prevBefore_eq_pred (h : TotalOrder cmp) {l : OrdMap} (hs : Sorted cmp l) {k : Nat}
    (hk : contains l k = true) : prevBefore l k = pred cmp l k := by
  have hk' : contains l.reverse k = true := by simpa [contains] using hk
  rw [prevBefore, nextAfter_eq_succ h.flip (sorted_reverse hs) hk']
  simp [succ, pred, above, below, List.filter_reverse]

end CC.Tree
