import CollectionsC.Proofs.ArrayStep
import CollectionsC.Proofs.ArrayGrowth
/-! Ledger facets of the dynamic-array model that the cross-cutting properties need:
* `Led m m' r`: the C-library counter `libc` is untouched (C14) and the refusal counter moved by
  exactly one iff `r` (C08 `refused_iff`);
* `_indep`: status, out-values and resulting state of a call depend on the ledger only through its
  schedule of refusals (C14 `allocator_independent`).
Per operation for the allocating ones, then per step / history. -/
namespace CC.Arr
open CC
open CC.Spec.Seq (Cfg Op Out IterOp)

/-! ### primitives -/

theorem allocT_congr {m1 m2 : Mem} (h : m1.sched = m2.sched) (t : Triple) :
    (m1.allocT t).1 = (m2.allocT t).1 ∧ (m1.allocT t).2.sched = (m2.allocT t).2.sched := by
  cases t with
  | conf => simp only [Mem.allocT_conf]; unfold Mem.alloc; rw [h]; split <;> simp
  | libc => exact ⟨rfl, h⟩

theorem freeT_sched (m : Mem) (t : Triple) : (m.freeT t).sched = m.sched := by
  cases t with
  | conf => simp only [Mem.freeT_conf]; unfold Mem.free; split <;> rfl
  | libc => simp only [Mem.freeT]; split <;> rfl

/-- what a call through the triple `t` leaves alone: the counters of the *other* allocator.  For the
configured triple these are the C-library counters (`libc`, `lalloc`, `lfree`, `liveLibc`); for the
C-library triple the configured ones (`live`, `nalloc`, `nfree`) and the schedule of refusals. -/
def Foreign (t : Triple) (m m' : Mem) : Prop :=
  match t with
  | .conf => m'.liveLibc = m.liveLibc ∧ m'.libc = m.libc ∧ m'.lalloc = m.lalloc ∧ m'.lfree = m.lfree
  | .libc => m'.live = m.live ∧ m'.nalloc = m.nalloc ∧ m'.nfree = m.nfree ∧ m'.sched = m.sched

theorem Foreign.rfl' (t : Triple) (m : Mem) : Foreign t m m := by cases t <;> exact ⟨rfl, rfl, rfl, rfl⟩
theorem Foreign.trans {t : Triple} {m m' m'' : Mem} (h1 : Foreign t m m') (h2 : Foreign t m' m'') : Foreign t m m'' := by
  cases t with
  | conf => obtain ⟨x1, x2, x3, x4⟩ := h1; obtain ⟨y1, y2, y3, y4⟩ := h2
            exact ⟨by rw [y1, x1], by rw [y2, x2], by rw [y3, x3], by rw [y4, x4]⟩
  | libc => obtain ⟨x1, x2, x3, x4⟩ := h1; obtain ⟨y1, y2, y3, y4⟩ := h2
            exact ⟨by rw [y1, x1], by rw [y2, x2], by rw [y3, x3], by rw [y4, x4]⟩

/-- ledger effect of a call made by a container whose triple is `t`: its own block counter grew by
`k`, the other allocator's counters are untouched (C14), and the refusal counter advanced by one iff
`r` (C08 `refused_iff`) — which never happens on the C-library triple -/
def Led (t : Triple) (m m' : Mem) (k : Nat) (r : Bool) : Prop :=
  own t m' = own t m + k ∧ Foreign t m m' ∧ m'.nrefused = m.nrefused + (if r then 1 else 0) ∧
  (t = .libc → r = false)

theorem Led.rfl' (t : Triple) (m : Mem) : Led t m m 0 false :=
  ⟨rfl, by cases t <;> exact ⟨rfl, rfl, rfl, rfl⟩, by simp, fun _ => rfl⟩

theorem Led.trans {t : Triple} {m m' m'' : Mem} {k k' : Nat} {r : Bool} (h1 : Led t m m' k false)
    (h2 : Led t m' m'' k' r) : Led t m m'' (k + k') r := by
  obtain ⟨a1, a2, a3, _⟩ := h1; obtain ⟨b1, b2, b3, b4⟩ := h2
  refine ⟨by omega, ?_, by simp at a3; omega, b4⟩
  cases t with
  | conf => obtain ⟨x1, x2, x3, x4⟩ := a2; obtain ⟨y1, y2, y3, y4⟩ := b2
            exact ⟨by rw [y1, x1], by rw [y2, x2], by rw [y3, x3], by rw [y4, x4]⟩
  | libc => obtain ⟨x1, x2, x3, x4⟩ := a2; obtain ⟨y1, y2, y3, y4⟩ := b2
            exact ⟨by rw [y1, x1], by rw [y2, x2], by rw [y3, x3], by rw [y4, x4]⟩

theorem Led.trans0 {t : Triple} {m m' m'' : Mem} {k : Nat} {r : Bool} (h1 : Led t m m' 0 false)
    (h2 : Led t m' m'' k r) : Led t m m'' k r := by
  have := h1.trans h2; simpa using this

theorem Led.check {t : Triple} {m m' : Mem} {k : Nat} {r : Bool} (h : Led t m m' k r) (b : Bool) :
    Led t m (m'.check b) k r := by
  obtain ⟨a1, a2, a3, a4⟩ := h
  refine ⟨by rw [own_check]; exact a1, ?_, by cases b <;> exact a3, a4⟩
  cases t <;> cases b <;> exact a2

theorem Led.allocT_ok (m : Mem) (t : Triple) (h : (m.allocT t).1 = true) : Led t m (m.allocT t).2 1 false := by
  refine ⟨own_allocT_ok m t h, ?_, ?_, fun _ => rfl⟩
  · cases t with
    | conf => simp only [Mem.allocT_conf] at h ⊢; unfold Mem.alloc at h ⊢; split <;> simp_all [Foreign]
    | libc => exact ⟨rfl, rfl, rfl, rfl⟩
  · cases t with
    | conf => simp only [Mem.allocT_conf] at h ⊢; unfold Mem.alloc at h ⊢; split <;> simp_all
    | libc => rfl

theorem Led.allocT_refused (m : Mem) (t : Triple) (h : (m.allocT t).1 = false) : Led t m (m.allocT t).2 0 true := by
  cases t with
  | conf =>
    refine ⟨own_allocT_refused m .conf h, ?_, ?_, fun h' => by cases h'⟩
    · simp only [Mem.allocT_conf] at h ⊢; unfold Mem.alloc at h ⊢; split <;> simp_all [Foreign]
    · simp only [Mem.allocT_conf] at h ⊢; unfold Mem.alloc at h ⊢; split <;> simp_all
  | libc => simp [Mem.allocT] at h

theorem Led.freeT {t : Triple} {m m' : Mem} {k : Nat} {r : Bool} (h : Led t m m' (k + 1) r) :
    Led t m (m'.freeT t) k r := by
  obtain ⟨a1, a2, a3, a4⟩ := h
  have hf := freeT_live m' t (by omega)
  refine ⟨by rw [hf.2.2]; omega, ?_, ?_, a4⟩
  · cases t with
    | conf =>
      obtain ⟨x1, x2, x3, x4⟩ := a2
      simp only [Mem.freeT_conf]; unfold Mem.free; split <;> exact ⟨x1, x2, x3, x4⟩
    | libc =>
      obtain ⟨x1, x2, x3, x4⟩ := a2
      simp only [Mem.freeT]; split <;> exact ⟨x1, x2, x3, x4⟩
  · cases t with
    | conf => simp only [Mem.freeT_conf]; unfold Mem.free; split <;> exact a3
    | libc => simp only [Mem.freeT]; split <;> exact a3

theorem Led.nrefused_iff {t : Triple} {m m' : Mem} {k : Nat} {st : Stat} (l : Led t m m' k (decide (st = .errAlloc))) :
    (st = .errAlloc ↔ m'.nrefused = m.nrefused + 1) ∧ (st ≠ .errAlloc → m'.nrefused = m.nrefused) := by
  by_cases h : st = .errAlloc
  · have := l.2.2.1; simp only [h, decide_true, if_true] at this
    exact ⟨⟨fun _ => this, fun _ => h⟩, fun hn => absurd h hn⟩
  · have := l.2.2.1; simp only [h, decide_false] at this
    exact ⟨⟨fun hh => absurd hh h, fun hh => by simp at this; omega⟩, fun _ => by simpa using this⟩

/-- on the C-library triple no call is ever refused -/
theorem Led.libc_never_refused {m m' : Mem} {k : Nat} {st : Stat} (l : Led .libc m m' k (decide (st = .errAlloc))) :
    st ≠ .errAlloc := by
  have := l.2.2.2 rfl; simpa using this

/-! ### allocating operations -/

theorem expandCapacity_led (a : Arr) (m : Mem) :
    Led a.triple m (a.expandCapacity m).2.2 0 (decide ((a.expandCapacity m).1 = .errAlloc)) := by
  by_cases hmax : a.AtLimit
  · rw [expandCapacity_max a m hmax]; exact Led.rfl' _ m
  · cases hal : (m.allocT a.triple).1
    · rw [expandCapacity_refused a m hmax hal]
      simpa using Led.allocT_refused m a.triple hal
    · rw [expandCapacity_success a m hmax hal]
      simpa using ((Led.allocT_ok m a.triple hal).check _).freeT

theorem expandCapacity_indep (a : Arr) (m1 m2 : Mem) (h : m1.sched = m2.sched) :
    (a.expandCapacity m1).1 = (a.expandCapacity m2).1 ∧ (a.expandCapacity m1).2.1 = (a.expandCapacity m2).2.1 ∧
    (a.expandCapacity m1).2.2.sched = (a.expandCapacity m2).2.2.sched := by
  obtain ⟨e1, e2⟩ := allocT_congr h a.triple
  unfold expandCapacity
  simp only [e1]
  split
  · exact ⟨rfl, rfl, h⟩
  · split
    · exact ⟨rfl, rfl, h⟩
    · split
      · exact ⟨rfl, rfl, e2⟩
      · exact ⟨rfl, rfl, by simp only [freeT_sched, Mem.check_sched, e2]⟩


theorem store_led (a : Arr) (x : Nat) (m : Mem) : Led a.triple m (a.store x m).2.2 0 false := (Led.rfl' _ m).check _
theorem insertShift_led (a : Arr) (x i : Nat) (m : Mem) : Led a.triple m (a.insertShift x i m).2.2 0 false :=
  ((Led.rfl' _ m).check _).check _

theorem add_led (a : Arr) (x : Nat) (m : Mem) :
    Led a.triple m (a.add x m).2.2 0 (decide ((a.add x m).1 = .errAlloc)) := by
  have he := expandCapacity_led a m
  have ht := expandCapacity_triple a m
  unfold add
  split
  · simp only
    split
    · exact he
    · rename_i hok
      have hok' : (a.expandCapacity m).1 = .ok := by simpa using hok
      have h1 : Led a.triple m (a.expandCapacity m).2.2 0 false := by rw [hok'] at he; exact he
      have h2 := store_led (a.expandCapacity m).2.1 x (a.expandCapacity m).2.2
      rw [ht] at h2
      exact h1.trans0 h2
  · exact store_led a x m

theorem add_indep (a : Arr) (x : Nat) (m1 m2 : Mem) (h : m1.sched = m2.sched) :
    (a.add x m1).1 = (a.add x m2).1 ∧ (a.add x m1).2.1 = (a.add x m2).2.1 ∧
    (a.add x m1).2.2.sched = (a.add x m2).2.2.sched := by
  obtain ⟨e1, e2, e3⟩ := expandCapacity_indep a m1 m2 h
  unfold add
  split
  · simp only [e1, e2]
    split
    · exact ⟨rfl, rfl, e3⟩
    · exact ⟨rfl, rfl, by simp only [store, Mem.check_sched]; exact e3⟩
  · exact ⟨rfl, rfl, by simp only [store, Mem.check_sched]; exact h⟩


theorem addAt_led (a : Arr) (x i : Nat) (m : Mem) :
    Led a.triple m (a.addAt x i m).2.2 0 (decide ((a.addAt x i m).1 = .errAlloc)) := by
  have he := expandCapacity_led a m
  have ht := expandCapacity_triple a m
  unfold addAt
  split
  · exact add_led a x m
  · split
    · exact Led.rfl' _ m
    · split
      · simp only
        split
        · exact he
        · rename_i hok
          have hok' : (a.expandCapacity m).1 = .ok := by simpa using hok
          have h1 : Led a.triple m (a.expandCapacity m).2.2 0 false := by rw [hok'] at he; exact he
          have h2 := insertShift_led (a.expandCapacity m).2.1 x i (a.expandCapacity m).2.2
          rw [ht] at h2
          exact h1.trans0 h2
      · exact insertShift_led a x i m

theorem addAt_indep (a : Arr) (x i : Nat) (m1 m2 : Mem) (h : m1.sched = m2.sched) :
    (a.addAt x i m1).1 = (a.addAt x i m2).1 ∧ (a.addAt x i m1).2.1 = (a.addAt x i m2).2.1 ∧
    (a.addAt x i m1).2.2.sched = (a.addAt x i m2).2.2.sched := by
  obtain ⟨e1, e2, e3⟩ := expandCapacity_indep a m1 m2 h
  unfold addAt
  split
  · exact add_indep a x m1 m2 h
  · split
    · exact ⟨rfl, rfl, h⟩
    · split
      · simp only [e1, e2]
        split
        · exact ⟨rfl, rfl, e3⟩
        · exact ⟨rfl, rfl, by simp only [insertShift, Mem.check_sched]; exact e3⟩
      · exact ⟨rfl, rfl, by simp only [insertShift, Mem.check_sched]; exact h⟩


theorem trimCapacity_led (a : Arr) (m : Mem) :
    Led a.triple m (a.trimCapacity m).2.2 0 (decide ((a.trimCapacity m).1 = .errAlloc)) := by
  unfold trimCapacity
  by_cases h1 : a.size = a.capacity
  · simp only [if_pos h1]; exact Led.rfl' _ m
  · simp only [if_neg h1]
    by_cases h2 : (if a.size < 1 then 1 else a.size) = a.capacity
    · simp only [if_pos h2]; exact Led.rfl' _ m
    · simp only [if_neg h2]
      cases hal : (m.allocT a.triple).1
      · simpa using Led.allocT_refused m a.triple hal
      · simpa using ((Led.allocT_ok m a.triple hal).check _).freeT

theorem trimCapacity_indep (a : Arr) (m1 m2 : Mem) (h : m1.sched = m2.sched) :
    (a.trimCapacity m1).1 = (a.trimCapacity m2).1 ∧ (a.trimCapacity m1).2.1 = (a.trimCapacity m2).2.1 ∧
    (a.trimCapacity m1).2.2.sched = (a.trimCapacity m2).2.2.sched := by
  obtain ⟨e1, e2⟩ := allocT_congr h a.triple
  unfold trimCapacity
  by_cases h1 : a.size = a.capacity
  · simp only [if_pos h1]; exact ⟨by triv, by triv, h⟩
  · simp only [if_neg h1]
    by_cases h2 : (if a.size < 1 then 1 else a.size) = a.capacity
    · simp only [if_pos h2]; exact ⟨by triv, by triv, h⟩
    · simp only [if_neg h2, e1]
      split
      · exact ⟨rfl, rfl, e2⟩
      · exact ⟨rfl, rfl, by simp only [freeT_sched, Mem.check_sched, e2]⟩


/-- the allocation pair of constructor and builders: both blocks or none; a refusal of either request
is the only way to fail, and exactly one refusal is counted then -/
theorem alloc2_led (m : Mem) (t : Triple) :
    Led t m (alloc2 m t).2 (if (alloc2 m t).1 then 2 else 0) (!(alloc2 m t).1) := by
  cases h1 : (m.allocT t).1
  · simpa [alloc2, h1] using Led.allocT_refused m t h1
  · have l1 := Led.allocT_ok m t h1
    cases h2 : ((m.allocT t).2.allocT t).1
    · have l2 := Led.allocT_refused (m.allocT t).2 t h2
      have := (l1.trans l2).freeT (k := 0)
      simpa [alloc2, h1, h2] using this
    · have l2 := Led.allocT_ok (m.allocT t).2 t h2
      simpa [alloc2, h1, h2] using l1.trans l2

theorem alloc2_indep (m1 m2 : Mem) (t : Triple) (h : m1.sched = m2.sched) :
    (alloc2 m1 t).1 = (alloc2 m2 t).1 ∧ (alloc2 m1 t).2.sched = (alloc2 m2 t).2.sched := by
  obtain ⟨e1, e2⟩ := allocT_congr h t
  obtain ⟨f1, f2⟩ := allocT_congr e2 t
  unfold alloc2
  simp only [e1, f1]
  split
  · exact ⟨rfl, e2⟩
  · split
    · exact ⟨rfl, by simp only [freeT_sched]; exact f2⟩
    · exact ⟨rfl, f2⟩


/-- shape of a builder's result in terms of its allocation pair -/
theorem led_of_alloc2 {t : Triple} {m m' : Mem} {st : Stat}
    (h2 : Led t m (alloc2 m t).2 (if (alloc2 m t).1 then 2 else 0) (!(alloc2 m t).1))
    (hok : (alloc2 m t).1 = true → st = .ok ∧ ∃ b, m' = (alloc2 m t).2.check b)
    (hno : (alloc2 m t).1 = false → st = .errAlloc ∧ m' = (alloc2 m t).2) :
    Led t m m' (if st = .ok then 2 else 0) (decide (st = .errAlloc)) := by
  cases h : (alloc2 m t).1
  · obtain ⟨e1, e2⟩ := hno h
    rw [h] at h2; subst e1; subst e2; simpa using h2
  · obtain ⟨e1, b, e2⟩ := hok h
    rw [h] at h2; subst e1; subst e2; simpa using h2.check b

theorem new_indep (cap : Nat) (grow : Nat → Nat) (exGe : Nat → Bool) (m1 m2 : Mem) (t : Triple) (h : m1.sched = m2.sched) :
    (Arr.new cap grow exGe m1 t).1 = (Arr.new cap grow exGe m2 t).1 ∧
    (Arr.new cap grow exGe m1 t).2.1 = (Arr.new cap grow exGe m2 t).2.1 ∧
    (Arr.new cap grow exGe m1 t).2.2.sched = (Arr.new cap grow exGe m2 t).2.2.sched := by
  obtain ⟨e1, e2⟩ := allocT_congr h t
  obtain ⟨f1, f2⟩ := allocT_congr e2 t
  unfold Arr.new
  simp only [e1, f1]
  split
  · exact ⟨rfl, rfl, h⟩
  · split
    · exact ⟨rfl, rfl, h⟩
    · split
      · exact ⟨rfl, rfl, h⟩
      · split
        · exact ⟨rfl, rfl, e2⟩
        · split
          · exact ⟨rfl, rfl, by simp only [freeT_sched]; exact f2⟩
          · exact ⟨rfl, rfl, f2⟩


theorem new_led (cap : Nat) (grow : Nat → Nat) (exGe : Nat → Bool) (m : Mem) (t : Triple) :
    Led t m (Arr.new cap grow exGe m t).2.2 (if (Arr.new cap grow exGe m t).1 = .ok then 2 else 0)
      (decide ((Arr.new cap grow exGe m t).1 = .errAlloc)) := by
  by_cases hv : cap = 0 ∨ exGe (Gen.CC_MAX_ELEMENTS / cap) = true ∨ cap > Gen.CC_MAX_ELEMENTS / 8
  · rw [new_invalid_eq cap grow exGe m t hv]; simpa using Led.rfl' t m
  · have h0 : ¬ cap = 0 := fun h => hv (Or.inl h)
    have h1 : ¬ exGe (Gen.CC_MAX_ELEMENTS / cap) = true := fun h => hv (Or.inr (Or.inl h))
    have h8 : ¬ cap > Gen.CC_MAX_ELEMENTS / 8 := fun h => hv (Or.inr (Or.inr h))
    rw [new_eq cap grow exGe m t h0 h1 h8]
    have l := alloc2_led m t
    cases h : (alloc2 m t).1
    · rw [h] at l; simpa using l
    · rw [h] at l; simpa using l

/-- `cc_array_destroy`: both releases go through the array's own triple -/
theorem destroy_foreign (a : Arr) (m : Mem) : Foreign a.triple m (a.destroy m) := by
  unfold destroy
  have f1 : ∀ (t : Triple) (m : Mem), Foreign t m (m.freeT t) := by
    intro t m
    cases t with
    | conf => simp only [Mem.freeT_conf, Foreign]; unfold Mem.free; split <;> exact ⟨rfl, rfl, rfl, rfl⟩
    | libc => simp only [Mem.freeT, Foreign]; split <;> exact ⟨rfl, rfl, rfl, rfl⟩
  exact (f1 _ m).trans (f1 _ _)

theorem destroy_sched (a : Arr) (m : Mem) : (a.destroy m).sched = m.sched := by
  unfold destroy; rw [freeT_sched, freeT_sched]

theorem subarray_led (a : Arr) (b e : Nat) (m : Mem) :
    Led a.triple m (a.subarray b e m).2.2 (if (a.subarray b e m).1 = .ok then 2 else 0)
      (decide ((a.subarray b e m).1 = .errAlloc)) := by
  unfold subarray
  split
  · simpa using Led.rfl' a.triple m
  · simp only
    refine led_of_alloc2 (alloc2_led m a.triple) (fun h => ?_) (fun h => ?_)
    · simp only [h, Bool.not_true, Bool.false_eq_true, if_false]; exact ⟨by triv, _, rfl⟩
    · simp [h]

theorem subarray_indep (a : Arr) (b e : Nat) (m1 m2 : Mem) (h : m1.sched = m2.sched) :
    (a.subarray b e m1).1 = (a.subarray b e m2).1 ∧ (a.subarray b e m1).2.1 = (a.subarray b e m2).2.1 ∧
    (a.subarray b e m1).2.2.sched = (a.subarray b e m2).2.2.sched := by
  obtain ⟨e1, e2⟩ := alloc2_indep m1 m2 a.triple h
  unfold subarray
  simp only [e1]
  split
  · exact ⟨rfl, rfl, h⟩
  · split
    · exact ⟨rfl, rfl, e2⟩
    · exact ⟨rfl, rfl, by simp only [Mem.check_sched]; exact e2⟩


theorem copyShallow_led (a : Arr) (m : Mem) :
    Led a.triple m (a.copyShallow m).2.2 (if (a.copyShallow m).1 = .ok then 2 else 0)
      (decide ((a.copyShallow m).1 = .errAlloc)) := by
  unfold copyShallow
  simp only
  refine led_of_alloc2 (alloc2_led m a.triple) (fun h => ?_) (fun h => ?_)
  · simp only [h, Bool.not_true, Bool.false_eq_true, if_false]; exact ⟨by triv, _, rfl⟩
  · simp [h]

theorem copyShallow_indep (a : Arr) (m1 m2 : Mem) (h : m1.sched = m2.sched) :
    (a.copyShallow m1).1 = (a.copyShallow m2).1 ∧ (a.copyShallow m1).2.1 = (a.copyShallow m2).2.1 ∧
    (a.copyShallow m1).2.2.sched = (a.copyShallow m2).2.2.sched := by
  obtain ⟨e1, e2⟩ := alloc2_indep m1 m2 a.triple h
  unfold copyShallow
  simp only [e1]
  split
  · exact ⟨rfl, rfl, e2⟩
  · exact ⟨rfl, rfl, by simp only [Mem.check_sched]; exact e2⟩


theorem copyDeep_led (cp : Nat → Nat) (a : Arr) (m : Mem) :
    Led a.triple m (a.copyDeep cp m).2.2.2 (if (a.copyDeep cp m).1 = .ok then 2 else 0)
      (decide ((a.copyDeep cp m).1 = .errAlloc)) := by
  unfold copyDeep
  simp only
  refine led_of_alloc2 (alloc2_led m a.triple) (fun h => ?_) (fun h => ?_)
  · simp only [h, Bool.not_true, Bool.false_eq_true, if_false]; exact ⟨by triv, _, rfl⟩
  · simp [h]

theorem copyDeep_indep (cp : Nat → Nat) (a : Arr) (m1 m2 : Mem) (h : m1.sched = m2.sched) :
    (a.copyDeep cp m1).1 = (a.copyDeep cp m2).1 ∧ (a.copyDeep cp m1).2.1 = (a.copyDeep cp m2).2.1 ∧
    (a.copyDeep cp m1).2.2.1 = (a.copyDeep cp m2).2.2.1 ∧
    (a.copyDeep cp m1).2.2.2.sched = (a.copyDeep cp m2).2.2.2.sched := by
  obtain ⟨e1, e2⟩ := alloc2_indep m1 m2 a.triple h
  unfold copyDeep
  simp only [e1]
  split
  · exact ⟨rfl, rfl, rfl, e2⟩
  · exact ⟨rfl, rfl, rfl, by simp only [Mem.check_sched]; exact e2⟩


theorem filter_led (p : Nat → Bool) (a : Arr) (m : Mem) :
    Led a.triple m (a.filter p m).2.2.2 (if (a.filter p m).1 = .ok then 2 else 0)
      (decide ((a.filter p m).1 = .errAlloc)) := by
  unfold filter
  split
  · simpa using Led.rfl' a.triple m
  · simp only
    refine led_of_alloc2 (alloc2_led m a.triple) (fun h => ?_) (fun h => ?_)
    · simp only [h, Bool.not_true, Bool.false_eq_true, if_false]; exact ⟨by triv, _, rfl⟩
    · simp [h]

theorem filter_indep (p : Nat → Bool) (a : Arr) (m1 m2 : Mem) (h : m1.sched = m2.sched) :
    (a.filter p m1).1 = (a.filter p m2).1 ∧ (a.filter p m1).2.1 = (a.filter p m2).2.1 ∧
    (a.filter p m1).2.2.1 = (a.filter p m2).2.2.1 ∧
    (a.filter p m1).2.2.2.sched = (a.filter p m2).2.2.2.sched := by
  obtain ⟨e1, e2⟩ := alloc2_indep m1 m2 a.triple h
  unfold filter
  simp only [e1]
  split
  · exact ⟨rfl, rfl, rfl, h⟩
  · split
    · exact ⟨rfl, rfl, rfl, e2⟩
    · exact ⟨rfl, rfl, rfl, by simp only [Mem.check_sched]; exact e2⟩


/-! ### iterator insertions -/

theorem iterAdd_led (a : Arr) (it : ArrIter) (x : Nat) (m : Mem) :
    Led a.triple m (a.iterAdd it x m).2.2.2 0 (decide ((a.iterAdd it x m).1 = .errAlloc)) := by
  have := addAt_led a x it.index m
  unfold iterAdd
  simp only
  split <;> exact this

theorem iterAdd_indep (a : Arr) (it : ArrIter) (x : Nat) (m1 m2 : Mem) (h : m1.sched = m2.sched) :
    (a.iterAdd it x m1).1 = (a.iterAdd it x m2).1 ∧ (a.iterAdd it x m1).2.1 = (a.iterAdd it x m2).2.1 ∧
    (a.iterAdd it x m1).2.2.1 = (a.iterAdd it x m2).2.2.1 ∧
    (a.iterAdd it x m1).2.2.2.sched = (a.iterAdd it x m2).2.2.2.sched := by
  obtain ⟨e1, e2, e3⟩ := addAt_indep a x it.index m1 m2 h
  unfold iterAdd
  simp only [e1, e2]
  split <;> exact ⟨rfl, rfl, rfl, e3⟩


theorem ensureRoom_led (a : Arr) (m : Mem) :
    Led a.triple m (ensureRoom a m).2.2 0 (decide ((ensureRoom a m).1 = .errAlloc)) := by
  unfold ensureRoom
  split
  · exact expandCapacity_led a m
  · exact Led.rfl' _ m

theorem ensureRoom_indep (a : Arr) (m1 m2 : Mem) (h : m1.sched = m2.sched) :
    (ensureRoom a m1).1 = (ensureRoom a m2).1 ∧ (ensureRoom a m1).2.1 = (ensureRoom a m2).2.1 ∧
    (ensureRoom a m1).2.2.sched = (ensureRoom a m2).2.2.sched := by
  unfold ensureRoom
  split
  · exact expandCapacity_indep a m1 m2 h
  · exact ⟨rfl, rfl, h⟩


theorem removeAt_sched (a : Arr) (i : Nat) (m : Mem) : (a.removeAt i m).2.2.2.sched = m.sched := by
  unfold removeAt; split
  · rfl
  · simp only; cases (decide (i < a.buf.length) && decide (i + 1 + (a.size - 1 - i) ≤ a.buf.length)) <;> rfl

theorem zipAddCore_indep (b1 b2 : Arr) (it : ArrIter) (x y : Nat) (m1 m2 : Mem) (h : m1.sched = m2.sched) :
    (zipAddCore b1 b2 it x y m1).1 = (zipAddCore b1 b2 it x y m2).1 ∧
    (zipAddCore b1 b2 it x y m1).2.1 = (zipAddCore b1 b2 it x y m2).2.1 ∧
    (zipAddCore b1 b2 it x y m1).2.2.1 = (zipAddCore b1 b2 it x y m2).2.2.1 ∧
    (zipAddCore b1 b2 it x y m1).2.2.2.1 = (zipAddCore b1 b2 it x y m2).2.2.2.1 ∧
    (zipAddCore b1 b2 it x y m1).2.2.2.2.sched = (zipAddCore b1 b2 it x y m2).2.2.2.2.sched := by
  obtain ⟨g1, g2, g3⟩ := addAt_indep b1 x it.index m1 m2 h
  obtain ⟨k1, k2, k3⟩ := addAt_indep b2 y it.index _ _ g3
  have u3 : ∀ (a : Arr) (i : Nat) (n1 n2 : Mem), (a.removeAt i n1).2.2.1 = (a.removeAt i n2).2.2.1 := by
    intro a i n1 n2; unfold removeAt; split <;> rfl
  unfold zipAddCore
  by_cases c1 : ((b1.addAt x it.index m2).1 != .ok) = true
  · have c1' : ((b1.addAt x it.index m1).1 != .ok) = true := by rw [g1]; exact c1
    simp only [c1, c1', if_true]
    exact ⟨g1, g2, trivial, trivial, g3⟩
  · have c1' : ¬ ((b1.addAt x it.index m1).1 != .ok) = true := by rw [g1]; exact c1
    simp only [c1, c1', Bool.false_eq_true, if_false]
    by_cases c2 : ((b2.addAt y it.index (b1.addAt x it.index m2).2.2).1 != .ok) = true
    · have c2' : ((b2.addAt y it.index (b1.addAt x it.index m1).2.2).1 != .ok) = true := by rw [k1]; exact c2
      simp only [c2, c2', if_true]
      refine ⟨k1, ?_, k2, trivial, ?_⟩
      · rw [g2]; exact u3 _ _ _ _
      · rw [removeAt_sched, removeAt_sched, k3]
    · have c2' : ¬ ((b2.addAt y it.index (b1.addAt x it.index m1).2.2).1 != .ok) = true := by rw [k1]; exact c2
      simp only [c2, c2', Bool.false_eq_true, if_false]
      exact ⟨trivial, g2, k2, trivial, k3⟩

theorem zipAdd_indep (a1 a2 : Arr) (it : ArrIter) (x y : Nat) (m1 m2 : Mem) (h : m1.sched = m2.sched) :
    (zipAdd a1 a2 it x y m1).1 = (zipAdd a1 a2 it x y m2).1 ∧
    (zipAdd a1 a2 it x y m1).2.1 = (zipAdd a1 a2 it x y m2).2.1 ∧
    (zipAdd a1 a2 it x y m1).2.2.1 = (zipAdd a1 a2 it x y m2).2.2.1 ∧
    (zipAdd a1 a2 it x y m1).2.2.2.1 = (zipAdd a1 a2 it x y m2).2.2.2.1 ∧
    (zipAdd a1 a2 it x y m1).2.2.2.2.sched = (zipAdd a1 a2 it x y m2).2.2.2.2.sched := by
  obtain ⟨e1, e2, e3⟩ := ensureRoom_indep a1 m1 m2 h
  obtain ⟨f1, f2, f3⟩ := ensureRoom_indep a2 _ _ e3
  rw [zipAdd_unfold, zipAdd_unfold]
  simp only [e1, e2, f1, f2]
  split
  · exact ⟨rfl, rfl, rfl, rfl, e3⟩
  · split
    · exact ⟨rfl, rfl, rfl, rfl, f3⟩
    · exact zipAddCore_indep _ _ it x y _ _ f3


/-- `zip_iter_add` on two arrays that share one allocator triple: own counter balanced, the other
allocator untouched; a refusal makes the call report `CC_ERR_ALLOC`, and — unless one of the arrays
sits at the capacity limit, which this function also reports as `CC_ERR_ALLOC` — the converse holds -/
theorem zipAdd_led (a1 a2 : Arr) (it : ArrIter) (x y : Nat) (m : Mem) (h1 : a1.Inv) (h2 : a2.Inv)
    (ht : a2.triple = a1.triple) :
    own a1.triple (zipAdd a1 a2 it x y m).2.2.2.2 = own a1.triple m ∧
    Foreign a1.triple m (zipAdd a1 a2 it x y m).2.2.2.2 ∧
    (m.nrefused < (zipAdd a1 a2 it x y m).2.2.2.2.nrefused → (zipAdd a1 a2 it x y m).1 = .errAlloc) ∧
    ((zipAdd a1 a2 it x y m).1 = .errAlloc → ¬ a1.AtLimit → ¬ a2.AtLimit →
      (zipAdd a1 a2 it x y m).2.2.2.2.nrefused = m.nrefused + 1) ∧
    ((zipAdd a1 a2 it x y m).1 ≠ .errAlloc → (zipAdd a1 a2 it x y m).2.2.2.2.nrefused = m.nrefused) := by
  have l1 := ensureRoom_led a1 m
  have l2 := ensureRoom_led a2 (ensureRoom a1 m).2.2
  rw [ht] at l2
  obtain ⟨r1, _, _⟩ := ensureRoom_spec a1 m h1
  obtain ⟨r2, _, _⟩ := ensureRoom_spec a2 (ensureRoom a1 m).2.2 h2
  have hfail : ∀ (a : Arr) (m : Mem), (ensureRoom a m).1 ≠ .ok →
      (ensureRoom a m).1 = .errAlloc ∨ a.AtLimit := by
    intro a m hne
    unfold ensureRoom at hne ⊢
    split at hne
    · rename_i hf
      simp only [hf, if_true]
      by_cases hmax : a.AtLimit
      · exact Or.inr hmax
      · left
        cases hal : (m.allocT a.triple).1
        · rw [expandCapacity_refused a m hmax hal]
        · rw [expandCapacity_success a m hmax hal] at hne; simp at hne
    · exact absurd rfl hne
  rw [zipAdd_unfold]
  by_cases o1 : (ensureRoom a1 m).1 = .ok
  · have hl1 : Led a1.triple m (ensureRoom a1 m).2.2 0 false := by rw [o1] at l1; exact l1
    simp only [o1, bne_self_eq_false, Bool.false_eq_true, if_false]
    by_cases o2 : (ensureRoom a2 (ensureRoom a1 m).2.2).1 = .ok
    · have hl2 : Led a1.triple (ensureRoom a1 m).2.2 (ensureRoom a2 (ensureRoom a1 m).2.2).2.2 0 false := by
        rw [o2] at l2; exact l2
      simp only [o2, bne_self_eq_false, Bool.false_eq_true, if_false]
      rcases r1 with ⟨_, _, _, d1, e1, _⟩ | ⟨n1, _⟩
      · rcases r2 with ⟨_, _, _, d2, e2, _⟩ | ⟨n2, _⟩
        · obtain ⟨hm, hc⟩ := zipAddCore_room (ensureRoom a1 m).2.1 (ensureRoom a2 (ensureRoom a1 m).2.2).2.1 it x y
            (ensureRoom a2 (ensureRoom a1 m).2.2).2.2 (ensureRoom_inv a1 m h1) (ensureRoom_inv a2 _ h2) d1 d2
          have hst : (zipAddCore (ensureRoom a1 m).2.1 (ensureRoom a2 (ensureRoom a1 m).2.2).2.1 it x y
              (ensureRoom a2 (ensureRoom a1 m).2.2).2.2).1 ≠ .errAlloc := by
            rcases hc with ⟨_, _, e⟩ | ⟨_, e, _⟩ <;> rw [e] <;> simp
          rw [hm]
          have hl := hl1.trans0 hl2
          refine ⟨by simpa using hl.1, hl.2.1, fun h => ?_, fun h => absurd h hst, fun _ => by simpa using hl.2.2.1⟩
          have := hl.2.2.1; simp at this; omega
        · exact absurd o2 n2
      · exact absurd o1 n1
    · have hne : ((ensureRoom a2 (ensureRoom a1 m).2.2).1 != .ok) = true := by simpa using o2
      simp only [hne, if_true]
      have hl := hl1.trans0 l2
      refine ⟨by simpa using hl.1, hl.2.1, fun _ => by triv, fun _ _ hm2 => ?_, fun h => absurd rfl h⟩
      rcases hfail a2 _ o2 with e | e
      · have := hl.2.2.1; rw [e] at this; simpa using this
      · exact absurd e hm2
  · have hne : ((ensureRoom a1 m).1 != .ok) = true := by simpa using o1
    simp only [hne, if_true]
    refine ⟨by simpa using l1.1, l1.2.1, fun _ => by triv, fun _ hm1 _ => ?_, fun h => absurd rfl h⟩
    rcases hfail a1 _ o1 with e | e
    · have := l1.2.2.1; rw [e] at this; simpa using this
    · exact absurd e hm1

/-! ### the calls that never allocate: everything but the ledger is independent of the ledger -/

theorem pure_replaceAt (a : Arr) (x i : Nat) (m1 m2 : Mem) :
    (a.replaceAt x i m1).1 = (a.replaceAt x i m2).1 ∧ (a.replaceAt x i m1).2.1 = (a.replaceAt x i m2).2.1 ∧
    (a.replaceAt x i m1).2.2.1 = (a.replaceAt x i m2).2.2.1 := by
  unfold replaceAt; split <;> exact ⟨rfl, rfl, rfl⟩
theorem pure_swapAt (a : Arr) (i j : Nat) (m1 m2 : Mem) :
    (a.swapAt i j m1).1 = (a.swapAt i j m2).1 ∧ (a.swapAt i j m1).2.1 = (a.swapAt i j m2).2.1 := by
  unfold swapAt; split <;> exact ⟨rfl, rfl⟩
theorem pure_removeAt (a : Arr) (i : Nat) (m1 m2 : Mem) :
    (a.removeAt i m1).1 = (a.removeAt i m2).1 ∧ (a.removeAt i m1).2.1 = (a.removeAt i m2).2.1 ∧
    (a.removeAt i m1).2.2.1 = (a.removeAt i m2).2.2.1 := by
  unfold removeAt; split <;> exact ⟨rfl, rfl, rfl⟩
theorem pure_remove (a : Arr) (x : Nat) (m1 m2 : Mem) :
    (a.remove x m1).1 = (a.remove x m2).1 ∧ (a.remove x m1).2.1 = (a.remove x m2).2.1 ∧
    (a.remove x m1).2.2.1 = (a.remove x m2).2.2.1 := by
  unfold remove indexOf; split <;> (simp only; split <;> exact ⟨rfl, rfl, rfl⟩)
theorem pure_filterMut (p : Nat → Bool) (a : Arr) (m1 m2 : Mem) :
    (a.filterMut p m1).1 = (a.filterMut p m2).1 ∧ (a.filterMut p m1).2.1 = (a.filterMut p m2).2.1 ∧
    (a.filterMut p m1).2.2.1 = (a.filterMut p m2).2.2.1 := by
  unfold filterMut; split <;> exact ⟨rfl, rfl, rfl⟩
theorem pure_reverse (a : Arr) (m1 m2 : Mem) : (a.reverse m1).1 = (a.reverse m2).1 := by
  unfold reverse; split <;> rfl
theorem pure_getAt (a : Arr) (i : Nat) (m1 m2 : Mem) :
    (a.getAt i m1).1 = (a.getAt i m2).1 ∧ (a.getAt i m1).2.1 = (a.getAt i m2).2.1 := by
  unfold getAt; split <;> exact ⟨rfl, rfl⟩
theorem pure_getLast (a : Arr) (m1 m2 : Mem) :
    (a.getLast m1).1 = (a.getLast m2).1 ∧ (a.getLast m1).2.1 = (a.getLast m2).2.1 := by
  unfold getLast; split
  · exact ⟨rfl, rfl⟩
  · exact pure_getAt a _ m1 m2
theorem pure_indexOf (a : Arr) (x : Nat) (m1 m2 : Mem) :
    (a.indexOf x m1).1 = (a.indexOf x m2).1 ∧ (a.indexOf x m1).2.1 = (a.indexOf x m2).2.1 := by
  unfold indexOf; simp only; split <;> exact ⟨rfl, rfl⟩
theorem pure_reduce (fn : Nat → Nat → Nat) (a : Arr) (r0 : Nat) (m1 m2 : Mem) :
    (a.reduce fn r0 m1).1 = (a.reduce fn r0 m2).1 ∧ (a.reduce fn r0 m1).2.1 = (a.reduce fn r0 m2).2.1 := by
  unfold reduce; simp only; split <;> exact ⟨rfl, rfl⟩
theorem pure_iterNext (a : Arr) (it : ArrIter) (m1 m2 : Mem) :
    (a.iterNext it m1).1 = (a.iterNext it m2).1 ∧ (a.iterNext it m1).2.1 = (a.iterNext it m2).2.1 ∧
    (a.iterNext it m1).2.2.1 = (a.iterNext it m2).2.2.1 := by
  unfold iterNext; split <;> exact ⟨rfl, rfl, rfl⟩
theorem pure_iterRemove (a : Arr) (it : ArrIter) (m1 m2 : Mem) :
    (a.iterRemove it m1).1 = (a.iterRemove it m2).1 ∧ (a.iterRemove it m1).2.1 = (a.iterRemove it m2).2.1 ∧
    (a.iterRemove it m1).2.2.1 = (a.iterRemove it m2).2.2.1 ∧ (a.iterRemove it m1).2.2.2.1 = (a.iterRemove it m2).2.2.2.1 := by
  obtain ⟨p1, p2, p3⟩ := pure_removeAt a (Spec.Seq.wdec it.index) m1 m2
  unfold iterRemove
  split
  · simp only [p1, p2, p3]; split <;> exact ⟨rfl, rfl, rfl, rfl⟩
  · exact ⟨rfl, rfl, rfl, rfl⟩

/-! ### per step and per history -/

theorem some_ne_alloc {s : Stat} (h : s ≠ .errAlloc) : decide (some s = some Stat.errAlloc) = false := by
  simp [h]

/-- **ledger effect of one call of the C01 vocabulary**: `libc` untouched, and the refusal counter
advances (by one) exactly when the call reports `CC_ERR_ALLOC` -/
theorem step_led (cfg : Cfg) (a : Arr) (op : Op) (m : Mem) (hinv : a.Inv) :
    Led a.triple m (a.step cfg op m).2.2 0 (decide ((a.step cfg op m).1.st = some .errAlloc)) := by
  have conv : ∀ s : Stat, decide (some s = some Stat.errAlloc) = decide (s = .errAlloc) := by
    intro s; by_cases h : s = .errAlloc <;> simp [h]
  cases op with
  | add x => have := add_led a x m; simpa [step] using this
  | addAt x i => have := addAt_led a x i m; simpa [step] using this
  | trimCapacity => have := trimCapacity_led a m; simpa [step] using this
  | replaceAt x i =>
    obtain ⟨r1, _, _, _, _, r6, _⟩ := replaceAt_spec a x i m hinv
    simp only [step, conv, r6]
    have : (a.replaceAt x i m).1 ≠ .errAlloc := by rw [r1]; unfold Spec.Seq.replaceAt; split <;> simp
    simp only [this, decide_false]; exact Led.rfl' _ m
  | swapAt i j =>
    obtain ⟨r1, _, _, _, r5, _⟩ := swapAt_spec a i j m hinv
    simp only [step, conv, r5]
    have : (a.swapAt i j m).1 ≠ .errAlloc := by rw [r1]; unfold Spec.Seq.swapAt; split <;> simp
    simp only [this, decide_false]; exact Led.rfl' _ m
  | remove x =>
    obtain ⟨r1, _, _, _, _, r6, _⟩ := remove_spec a x m hinv
    simp only [step, conv, r6]
    have : (a.remove x m).1 ≠ .errAlloc := by rw [r1]; unfold Spec.Seq.remove; split <;> simp
    simp only [this, decide_false]; exact Led.rfl' _ m
  | removeAt i =>
    obtain ⟨r1, _, _, _, _, r6, _⟩ := removeAt_spec a i m hinv
    simp only [step, conv, r6]
    have : (a.removeAt i m).1 ≠ .errAlloc := by rw [r1]; unfold Spec.Seq.removeAt; split <;> simp
    simp only [this, decide_false]; exact Led.rfl' _ m
  | removeLast =>
    obtain ⟨r1, _, _, _, _, r6, _⟩ := removeLast_spec a m hinv
    simp only [step, conv, r6]
    have : (a.removeLast m).1 ≠ .errAlloc := by rw [r1]; unfold Spec.Seq.removeLast; split <;> simp
    simp only [this, decide_false]; exact Led.rfl' _ m
  | removeAll => simp only [step]; exact Led.rfl' _ m
  | removeAllFree =>
    obtain ⟨_, _, _, _, r5⟩ := removeAllFree_spec a m hinv
    simp only [step, r5]; exact Led.rfl' _ m
  | reverse =>
    obtain ⟨_, _, _, r4⟩ := reverse_spec a m hinv
    simp only [step, r4]; exact Led.rfl' _ m
  | filterMut =>
    obtain ⟨r1, _, _, _, r5, _⟩ := filterMut_spec cfg.pred a m hinv
    simp only [step, conv, r5]
    have : (a.filterMut cfg.pred m).1 ≠ .errAlloc := by rw [r1]; unfold Spec.Seq.filterMut; split <;> simp
    simp only [this, decide_false]; exact Led.rfl' _ m
  | sort =>
    have h6 : decide (a.size ≤ a.buf.length) = true := by simpa using hinv.size_le_len
    simp only [step, sort, h6, Mem.check_true]; exact Led.rfl' _ m
  | getAt i =>
    obtain ⟨r1, _, r3, _⟩ := getAt_spec a i m hinv
    simp only [step, conv, r3]
    have : (a.getAt i m).1 ≠ .errAlloc := by rw [r1]; unfold Spec.Seq.getAt; split <;> simp
    simp only [this, decide_false]; exact Led.rfl' _ m
  | getLast =>
    obtain ⟨r1, _, r3, _⟩ := getLast_spec a m hinv
    simp only [step, conv, r3]
    have : (a.getLast m).1 ≠ .errAlloc := by rw [r1]; unfold Spec.Seq.getLast; split <;> simp
    simp only [this, decide_false]; exact Led.rfl' _ m
  | indexOf x =>
    obtain ⟨r1, _, r3, _⟩ := indexOf_spec a x m hinv
    simp only [step, conv, r3]
    have : (a.indexOf x m).1 ≠ .errAlloc := by rw [r1]; unfold Spec.Seq.indexOf; split <;> simp
    simp only [this, decide_false]; exact Led.rfl' _ m
  | contains x => simp only [step, (contains_spec a x m hinv).2]; exact Led.rfl' _ m
  | containsValue x => simp only [step, (containsValue_spec cfg.cmp a x m hinv).2]; exact Led.rfl' _ m
  | size => simp only [step]; exact Led.rfl' _ m
  | map => simp only [step, (map_spec a m hinv).2]; exact Led.rfl' _ m
  | reduce r0 => simp only [step, (reduce_spec cfg.fn a r0 m hinv).2.2]; exact Led.rfl' _ m

/-- **allocator independence of one call**: two ledgers holding the same schedule of refusals give
the same report, the same resulting state, and again the same schedule -/
theorem step_indep (cfg : Cfg) (a : Arr) (op : Op) (m1 m2 : Mem) (hinv : a.Inv) (h : m1.sched = m2.sched) :
    (a.step cfg op m1).1 = (a.step cfg op m2).1 ∧ (a.step cfg op m1).2.1 = (a.step cfg op m2).2.1 ∧
    (a.step cfg op m1).2.2.sched = (a.step cfg op m2).2.2.sched := by
  cases op with
  | add x => obtain ⟨e1, e2, e3⟩ := add_indep a x m1 m2 h; simp only [step, e1]; exact ⟨by triv, e2, e3⟩
  | addAt x i => obtain ⟨e1, e2, e3⟩ := addAt_indep a x i m1 m2 h; simp only [step, e1]; exact ⟨by triv, e2, e3⟩
  | trimCapacity => obtain ⟨e1, e2, e3⟩ := trimCapacity_indep a m1 m2 h; simp only [step, e1]; exact ⟨by triv, e2, e3⟩
  | replaceAt x i =>
    obtain ⟨p1, p2, p3⟩ := pure_replaceAt a x i m1 m2
    have q1 := (replaceAt_spec a x i m1 hinv).2.2.2.2.2.1
    have q2 := (replaceAt_spec a x i m2 hinv).2.2.2.2.2.1
    simp only [step, p1, p2]; exact ⟨by triv, p3, by rw [q1, q2]; exact h⟩
  | swapAt i j =>
    obtain ⟨p1, p2⟩ := pure_swapAt a i j m1 m2
    have q1 := (swapAt_spec a i j m1 hinv).2.2.2.2.1
    have q2 := (swapAt_spec a i j m2 hinv).2.2.2.2.1
    simp only [step, p1]; exact ⟨by triv, p2, by rw [q1, q2]; exact h⟩
  | remove x =>
    obtain ⟨p1, p2, p3⟩ := pure_remove a x m1 m2
    have q1 := (remove_spec a x m1 hinv).2.2.2.2.2.1
    have q2 := (remove_spec a x m2 hinv).2.2.2.2.2.1
    simp only [step, p1, p2]; exact ⟨by triv, p3, by rw [q1, q2]; exact h⟩
  | removeAt i =>
    obtain ⟨p1, p2, p3⟩ := pure_removeAt a i m1 m2
    have q1 := (removeAt_spec a i m1 hinv).2.2.2.2.2.1
    have q2 := (removeAt_spec a i m2 hinv).2.2.2.2.2.1
    simp only [step, p1, p2]; exact ⟨by triv, p3, by rw [q1, q2]; exact h⟩
  | removeLast =>
    obtain ⟨p1, p2, p3⟩ := pure_removeAt a (Spec.Seq.wdec a.size) m1 m2
    have q1 := (removeLast_spec a m1 hinv).2.2.2.2.2.1
    have q2 := (removeLast_spec a m2 hinv).2.2.2.2.2.1
    simp only [step]
    exact ⟨by show (_ : Out) = _; simp only [removeLast, p1, p2], p3, by rw [q1, q2]; exact h⟩
  | removeAll => simp only [step]; exact ⟨by triv, by triv, h⟩
  | removeAllFree =>
    have q1 := (removeAllFree_spec a m1 hinv).2.2.2.2
    have q2 := (removeAllFree_spec a m2 hinv).2.2.2.2
    simp only [step]; exact ⟨by triv, by triv, by rw [q1, q2]; exact h⟩
  | reverse =>
    have q1 := (reverse_spec a m1 hinv).2.2.2
    have q2 := (reverse_spec a m2 hinv).2.2.2
    simp only [step]; exact ⟨by triv, pure_reverse a m1 m2, by rw [q1, q2]; exact h⟩
  | filterMut =>
    obtain ⟨p1, p2, p3⟩ := pure_filterMut cfg.pred a m1 m2
    have q1 := (filterMut_spec cfg.pred a m1 hinv).2.2.2.2.1
    have q2 := (filterMut_spec cfg.pred a m2 hinv).2.2.2.2.1
    simp only [step, p1, p3]; exact ⟨by triv, p2, by rw [q1, q2]; exact h⟩
  | sort =>
    simp only [step, sort, Mem.check_sched]; exact ⟨by triv, by triv, h⟩
  | getAt i =>
    obtain ⟨p1, p2⟩ := pure_getAt a i m1 m2
    have q1 := (getAt_spec a i m1 hinv).2.2.1
    have q2 := (getAt_spec a i m2 hinv).2.2.1
    simp only [step, p1, p2]; exact ⟨by triv, by triv, by rw [q1, q2]; exact h⟩
  | getLast =>
    obtain ⟨p1, p2⟩ := pure_getLast a m1 m2
    have q1 := (getLast_spec a m1 hinv).2.2.1
    have q2 := (getLast_spec a m2 hinv).2.2.1
    simp only [step, p1, p2]; exact ⟨by triv, by triv, by rw [q1, q2]; exact h⟩
  | indexOf x =>
    obtain ⟨p1, p2⟩ := pure_indexOf a x m1 m2
    have q1 := (indexOf_spec a x m1 hinv).2.2.1
    have q2 := (indexOf_spec a x m2 hinv).2.2.1
    simp only [step, p1, p2]; exact ⟨by triv, by triv, by rw [q1, q2]; exact h⟩
  | contains x => simp only [step, contains, Mem.check_sched]; exact ⟨by triv, by triv, h⟩
  | containsValue x => simp only [step, containsValue, Mem.check_sched]; exact ⟨by triv, by triv, h⟩
  | size => simp only [step]; exact ⟨by triv, by triv, h⟩
  | map => simp only [step, map, Mem.check_sched]; exact ⟨by triv, by triv, h⟩
  | reduce r0 =>
    obtain ⟨p1, p2⟩ := pure_reduce cfg.fn a r0 m1 m2
    have q1 := (reduce_spec cfg.fn a r0 m1 hinv).2.2
    have q2 := (reduce_spec cfg.fn a r0 m2 hinv).2.2
    simp only [step, p1, p2]; exact ⟨by triv, by triv, by rw [q1, q2]; exact h⟩

theorem addAt_triple (a : Arr) (x i : Nat) (m : Mem) : (a.addAt x i m).2.1.triple = a.triple := by
  have he := expandCapacity_triple a m
  unfold addAt
  split
  · exact add_triple a x m
  · split
    · rfl
    · split
      · simp only
        split
        · exact he
        · simp only [insertShift]; exact he
      · rfl

theorem trimCapacity_triple (a : Arr) (m : Mem) : (a.trimCapacity m).2.1.triple = a.triple := by
  unfold trimCapacity
  by_cases h1 : a.size = a.capacity
  · simp only [if_pos h1]
  · simp only [if_neg h1]
    by_cases h2 : (if a.size < 1 then 1 else a.size) = a.capacity
    · simp only [if_pos h2]
    · simp only [if_neg h2]
      split <;> rfl

/-- no call of the C01 vocabulary changes the array's allocator triple -/
theorem step_triple (cfg : Cfg) (a : Arr) (op : Op) (m : Mem) : (a.step cfg op m).2.1.triple = a.triple := by
  cases op with
  | add x => exact add_triple a x m
  | addAt x i => exact addAt_triple a x i m
  | trimCapacity => exact trimCapacity_triple a m
  | replaceAt x i => simp only [step, replaceAt]; split <;> rfl
  | swapAt i j => simp only [step, swapAt]; split <;> rfl
  | remove x => simp only [step, remove, closeGap]; split <;> rfl
  | removeAt i => simp only [step, removeAt, closeGap]; split <;> rfl
  | removeLast => simp only [step, removeLast, removeAt, closeGap]; split <;> rfl
  | filterMut => simp only [step, filterMut]; split <;> rfl
  | reverse => simp only [step, reverse]; split <;> rfl
  | removeAll | removeAllFree | sort | getAt _ | getLast | indexOf _ | contains _ | containsValue _ | size | map | reduce _ => rfl

/-- histories: the array's own block counter is balanced, the other allocator's counters are never
touched, and the number of refusals counted equals the number of calls that reported `CC_ERR_ALLOC` -/
theorem run_led (cfg : Cfg) (ops : List Op) : ∀ (a : Arr) (m : Mem), a.Inv →
    (∀ xs, (cfg.sortFn xs).length = xs.length) →
    own a.triple (a.run cfg ops m).2.2 = own a.triple m ∧ Foreign a.triple m (a.run cfg ops m).2.2 ∧
    (a.run cfg ops m).2.2.nrefused = m.nrefused + ((a.run cfg ops m).1.filter (fun o => decide (o.st = some .errAlloc))).length ∧
    (a.run cfg ops m).2.1.triple = a.triple := by
  induction ops with
  | nil => intro a m _ _; exact ⟨rfl, Foreign.rfl' _ m, rfl, rfl⟩
  | cons op ops ih =>
    intro a m hinv hsort
    obtain ⟨_, _, _, s4, _⟩ := step_spec cfg a op m hinv hsort
    obtain ⟨l1, l2, l3, _⟩ := step_led cfg a op m hinv
    have ht := step_triple cfg a op m
    obtain ⟨i1, i2, i3, i4⟩ := ih (a.step cfg op m).2.1 (a.step cfg op m).2.2 s4 hsort
    rw [ht] at i1 i2 i4
    simp only [Arr.run, List.filter_cons]
    refine ⟨by rw [i1, l1]; rfl, l2.trans i2, ?_, i4⟩
    rw [i3, l3]
    split <;> simp <;> omega

theorem run_indep (cfg : Cfg) (ops : List Op) : ∀ (a : Arr) (m1 m2 : Mem), a.Inv →
    (∀ xs, (cfg.sortFn xs).length = xs.length) → m1.sched = m2.sched →
    (a.run cfg ops m1).1 = (a.run cfg ops m2).1 ∧ (a.run cfg ops m1).2.1 = (a.run cfg ops m2).2.1 ∧
    (a.run cfg ops m1).2.2.sched = (a.run cfg ops m2).2.2.sched := by
  induction ops with
  | nil => intro a m1 m2 _ _ h; exact ⟨rfl, rfl, h⟩
  | cons op ops ih =>
    intro a m1 m2 hinv hsort h
    obtain ⟨e1, e2, e3⟩ := step_indep cfg a op m1 m2 hinv h
    obtain ⟨_, _, _, s4, s5, _⟩ := step_spec cfg a op m1 hinv hsort
    simp only [Arr.run]
    rw [e1]
    have := ih (a.step cfg op m1).2.1 (a.step cfg op m1).2.2 (a.step cfg op m2).2.2 s4 hsort e3
    rw [e2] at this ⊢
    exact ⟨by rw [this.1], this.2.1, this.2.2⟩

theorem run_append (cfg : Cfg) (ops1 ops2 : List Op) : ∀ (a : Arr) (m : Mem),
    (a.run cfg (ops1 ++ ops2) m).1 = (a.run cfg ops1 m).1 ++ ((a.run cfg ops1 m).2.1.run cfg ops2 (a.run cfg ops1 m).2.2).1 ∧
    (a.run cfg (ops1 ++ ops2) m).2 = ((a.run cfg ops1 m).2.1.run cfg ops2 (a.run cfg ops1 m).2.2).2 := by
  induction ops1 with
  | nil => intro a m; exact ⟨rfl, rfl⟩
  | cons op ops ih =>
    intro a m
    obtain ⟨i1, i2⟩ := ih (a.step cfg op m).2.1 (a.step cfg op m).2.2
    simp only [List.cons_append, Arr.run]
    exact ⟨by rw [i1], i2⟩

/-- iterator programs: ledger effect and allocator independence of one iterator call -/
theorem iterStep_led (a : Arr) (it : ArrIter) (op : IterOp) (m : Mem) (hinv : a.Inv) (c : Spec.Seq.Cursor)
    (hs : Sim a it c) :
    Led a.triple m (a.iterStep it op m).2.2.2 0 (decide ((a.iterStep it op m).1.st = some .errAlloc)) := by
  cases op with
  | next =>
    obtain ⟨r1, _, _, r4⟩ := iterNext_sim a it c m hinv hs
    have : (a.iterNext it m).1 ≠ .errAlloc := by
      rw [r1]; unfold Spec.Seq.Cursor.next; split <;> simp
    simp only [iterStep, r4]; simp [this]; exact Led.rfl' _ m
  | remove =>
    obtain ⟨r1, _, _, _, _, r6, _⟩ := iterRemove_sim a it c m hinv hs
    have : (a.iterRemove it m).1 ≠ .errAlloc := by
      rw [r1]; unfold Spec.Seq.Cursor.remove; split
      · simp
      · split <;> simp
    simp only [iterStep, r6]; simp [this]; exact Led.rfl' _ m
  | add x => have := iterAdd_led a it x m; simpa [iterStep] using this
  | replace x =>
    obtain ⟨r1, _, _, _, _, r6, _⟩ := iterReplace_sim a it c x m hinv hs
    have : (a.iterReplace it x m).1 ≠ .errAlloc := by
      rw [r1]; unfold Spec.Seq.Cursor.replace; split <;> simp
    simp only [iterStep, r6]; simp [this]; exact Led.rfl' _ m
  | index => simp only [iterStep]; exact Led.rfl' _ m

/-! ### when a call may be blocked, and histories on an allocator that never refuses -/

/-- a call of the C01 vocabulary reports `CC_ERR_ALLOC` only when the allocator refused the request,
and `CC_ERR_MAX_CAPACITY` only at the capacity limit -/
theorem step_blocked (cfg : Cfg) (a : Arr) (op : Op) (m : Mem) (hinv : a.Inv) :
    ((a.step cfg op m).1.blocked = some .errAlloc → (m.allocT a.triple).1 = false) ∧
    ((a.step cfg op m).1.blocked = some .errMaxCapacity → a.AtLimit ∧ a.size = a.capacity) := by
  have key : ∀ st : Stat, st ≠ .errAlloc → st ≠ .errMaxCapacity →
      ∀ v l, (({ st := some st, val := v, log := l } : Out).blocked = some .errAlloc → False) ∧
             (({ st := some st, val := v, log := l } : Out).blocked = some .errMaxCapacity → False) := by
    intro st h1 h2 v l
    simp [Out.blocked, h1, h2]
  have none_key : ∀ v l, (({ st := none, val := v, log := l } : Out).blocked = some .errAlloc → False) ∧
      (({ st := none, val := v, log := l } : Out).blocked = some .errMaxCapacity → False) := by
    intro v l; simp [Out.blocked]
  cases op with
  | add x =>
    simp only [step, blocked_mk]
    rcases (add_spec a x m hinv).1 with ⟨ok, _⟩ | ⟨⟨hb, hf⟩, _⟩
    · rw [ok]; simp
    · rcases hb with ⟨e, h⟩ | ⟨e, h⟩ <;> rw [e] <;> simp [h, hf]
  | addAt x i =>
    simp only [step, blocked_mk]
    rcases (addAt_spec a x i m hinv).1 with ⟨_, ⟨ok, _⟩ | ⟨⟨hb, hf⟩, _⟩⟩ | ⟨_, heq⟩
    · rw [ok]; simp
    · rcases hb with ⟨e, h⟩ | ⟨e, h⟩ <;> rw [e] <;> simp [h, hf]
    · rw [heq]; simp
  | trimCapacity =>
    simp only [step, blocked_mk]
    have hcase : (a.trimCapacity m).1 = .ok ∨ ((a.trimCapacity m).1 = .errAlloc ∧ (m.allocT a.triple).1 = false) := by
      rcases (trimCapacity_spec a m hinv).1 with ⟨ok, _⟩ | ⟨e, h, _⟩
      · exact Or.inl ok
      · exact Or.inr ⟨e, h⟩
    rcases hcase with ok | ⟨e, h⟩
    · rw [ok]; simp
    · rw [e]; simp [h]
  | replaceAt x i =>
    obtain ⟨r1, _⟩ := replaceAt_spec a x i m hinv
    have : (a.replaceAt x i m).1 ≠ .errAlloc ∧ (a.replaceAt x i m).1 ≠ .errMaxCapacity := by
      rw [r1]; unfold Spec.Seq.replaceAt; split <;> simp
    obtain ⟨k1, k2⟩ := key _ this.1 this.2 (a.replaceAt x i m).2.1 []
    exact ⟨fun h => (k1 h).elim, fun h => (k2 h).elim⟩
  | swapAt i j =>
    obtain ⟨r1, _⟩ := swapAt_spec a i j m hinv
    have : (a.swapAt i j m).1 ≠ .errAlloc ∧ (a.swapAt i j m).1 ≠ .errMaxCapacity := by
      rw [r1]; unfold Spec.Seq.swapAt; split <;> simp
    obtain ⟨k1, k2⟩ := key _ this.1 this.2 none []
    exact ⟨fun h => (k1 h).elim, fun h => (k2 h).elim⟩
  | remove x =>
    obtain ⟨r1, _⟩ := remove_spec a x m hinv
    have : (a.remove x m).1 ≠ .errAlloc ∧ (a.remove x m).1 ≠ .errMaxCapacity := by
      rw [r1]; unfold Spec.Seq.remove; split <;> simp
    obtain ⟨k1, k2⟩ := key _ this.1 this.2 (a.remove x m).2.1 []
    exact ⟨fun h => (k1 h).elim, fun h => (k2 h).elim⟩
  | removeAt i =>
    obtain ⟨r1, _⟩ := removeAt_spec a i m hinv
    have : (a.removeAt i m).1 ≠ .errAlloc ∧ (a.removeAt i m).1 ≠ .errMaxCapacity := by
      rw [r1]; unfold Spec.Seq.removeAt; split <;> simp
    obtain ⟨k1, k2⟩ := key _ this.1 this.2 (a.removeAt i m).2.1 []
    exact ⟨fun h => (k1 h).elim, fun h => (k2 h).elim⟩
  | removeLast =>
    obtain ⟨r1, _⟩ := removeLast_spec a m hinv
    have : (a.removeLast m).1 ≠ .errAlloc ∧ (a.removeLast m).1 ≠ .errMaxCapacity := by
      rw [r1]; unfold Spec.Seq.removeLast; split <;> simp
    obtain ⟨k1, k2⟩ := key _ this.1 this.2 (a.removeLast m).2.1 []
    exact ⟨fun h => (k1 h).elim, fun h => (k2 h).elim⟩
  | filterMut =>
    obtain ⟨r1, _⟩ := filterMut_spec cfg.pred a m hinv
    have : (a.filterMut cfg.pred m).1 ≠ .errAlloc ∧ (a.filterMut cfg.pred m).1 ≠ .errMaxCapacity := by
      rw [r1]; unfold Spec.Seq.filterMut; split <;> simp
    obtain ⟨k1, k2⟩ := key _ this.1 this.2 none (a.filterMut cfg.pred m).2.2.1
    exact ⟨fun h => (k1 h).elim, fun h => (k2 h).elim⟩
  | getAt i =>
    obtain ⟨r1, _⟩ := getAt_spec a i m hinv
    have : (a.getAt i m).1 ≠ .errAlloc ∧ (a.getAt i m).1 ≠ .errMaxCapacity := by
      rw [r1]; unfold Spec.Seq.getAt; split <;> simp
    obtain ⟨k1, k2⟩ := key _ this.1 this.2 (a.getAt i m).2.1 []
    exact ⟨fun h => (k1 h).elim, fun h => (k2 h).elim⟩
  | getLast =>
    obtain ⟨r1, _⟩ := getLast_spec a m hinv
    have : (a.getLast m).1 ≠ .errAlloc ∧ (a.getLast m).1 ≠ .errMaxCapacity := by
      rw [r1]; unfold Spec.Seq.getLast; split <;> simp
    obtain ⟨k1, k2⟩ := key _ this.1 this.2 (a.getLast m).2.1 []
    exact ⟨fun h => (k1 h).elim, fun h => (k2 h).elim⟩
  | indexOf x =>
    obtain ⟨r1, _⟩ := indexOf_spec a x m hinv
    have : (a.indexOf x m).1 ≠ .errAlloc ∧ (a.indexOf x m).1 ≠ .errMaxCapacity := by
      rw [r1]; unfold Spec.Seq.indexOf; split <;> simp
    obtain ⟨k1, k2⟩ := key _ this.1 this.2 (a.indexOf x m).2.1 []
    exact ⟨fun h => (k1 h).elim, fun h => (k2 h).elim⟩
  | removeAll | removeAllFree | reverse | sort | contains _ | containsValue _ | size | map | reduce _ =>
    simp [step, Out.blocked]

/-- fullness: only `trim_capacity` can report `CC_ERR_ALLOC` on an array that is not exactly full -/
theorem step_blocked_full (cfg : Cfg) (a : Arr) (op : Op) (m : Mem) (hinv : a.Inv) :
    (a.step cfg op m).1.blocked = some .errAlloc → op ≠ .trimCapacity → a.size = a.capacity := by
  have key : ∀ st : Stat, st ≠ .errAlloc → st ≠ .errMaxCapacity →
      ∀ v l, (({ st := some st, val := v, log := l } : Out).blocked = some .errAlloc → False) ∧
             (({ st := some st, val := v, log := l } : Out).blocked = some .errMaxCapacity → False) := by
    intro st h1 h2 v l
    simp [Out.blocked, h1, h2]
  have none_key : ∀ v l, (({ st := none, val := v, log := l } : Out).blocked = some .errAlloc → False) ∧
      (({ st := none, val := v, log := l } : Out).blocked = some .errMaxCapacity → False) := by
    intro v l; simp [Out.blocked]
  cases op with
  | add x =>
    simp only [step, blocked_mk]
    rcases (add_spec a x m hinv).1 with ⟨ok, _⟩ | ⟨⟨hb, hf⟩, _⟩
    · rw [ok]; simp
    · rcases hb with ⟨e, _⟩ | ⟨e, _⟩ <;> rw [e] <;> simp [hf]
  | addAt x i =>
    simp only [step, blocked_mk]
    rcases (addAt_spec a x i m hinv).1 with ⟨_, ⟨ok, _⟩ | ⟨⟨hb, hf⟩, _⟩⟩ | ⟨_, heq⟩
    · rw [ok]; simp
    · rcases hb with ⟨e, _⟩ | ⟨e, _⟩ <;> rw [e] <;> simp [hf]
    · rw [heq]; simp
  | trimCapacity => exact fun _ h => absurd rfl h
  | replaceAt x i =>
    obtain ⟨r1, _⟩ := replaceAt_spec a x i m hinv
    have : (a.replaceAt x i m).1 ≠ .errAlloc ∧ (a.replaceAt x i m).1 ≠ .errMaxCapacity := by
      rw [r1]; unfold Spec.Seq.replaceAt; split <;> simp
    obtain ⟨k1, k2⟩ := key _ this.1 this.2 (a.replaceAt x i m).2.1 []
    exact fun h _ => (k1 h).elim
  | swapAt i j =>
    obtain ⟨r1, _⟩ := swapAt_spec a i j m hinv
    have : (a.swapAt i j m).1 ≠ .errAlloc ∧ (a.swapAt i j m).1 ≠ .errMaxCapacity := by
      rw [r1]; unfold Spec.Seq.swapAt; split <;> simp
    obtain ⟨k1, k2⟩ := key _ this.1 this.2 none []
    exact fun h _ => (k1 h).elim
  | remove x =>
    obtain ⟨r1, _⟩ := remove_spec a x m hinv
    have : (a.remove x m).1 ≠ .errAlloc ∧ (a.remove x m).1 ≠ .errMaxCapacity := by
      rw [r1]; unfold Spec.Seq.remove; split <;> simp
    obtain ⟨k1, k2⟩ := key _ this.1 this.2 (a.remove x m).2.1 []
    exact fun h _ => (k1 h).elim
  | removeAt i =>
    obtain ⟨r1, _⟩ := removeAt_spec a i m hinv
    have : (a.removeAt i m).1 ≠ .errAlloc ∧ (a.removeAt i m).1 ≠ .errMaxCapacity := by
      rw [r1]; unfold Spec.Seq.removeAt; split <;> simp
    obtain ⟨k1, k2⟩ := key _ this.1 this.2 (a.removeAt i m).2.1 []
    exact fun h _ => (k1 h).elim
  | removeLast =>
    obtain ⟨r1, _⟩ := removeLast_spec a m hinv
    have : (a.removeLast m).1 ≠ .errAlloc ∧ (a.removeLast m).1 ≠ .errMaxCapacity := by
      rw [r1]; unfold Spec.Seq.removeLast; split <;> simp
    obtain ⟨k1, k2⟩ := key _ this.1 this.2 (a.removeLast m).2.1 []
    exact fun h _ => (k1 h).elim
  | filterMut =>
    obtain ⟨r1, _⟩ := filterMut_spec cfg.pred a m hinv
    have : (a.filterMut cfg.pred m).1 ≠ .errAlloc ∧ (a.filterMut cfg.pred m).1 ≠ .errMaxCapacity := by
      rw [r1]; unfold Spec.Seq.filterMut; split <;> simp
    obtain ⟨k1, k2⟩ := key _ this.1 this.2 none (a.filterMut cfg.pred m).2.2.1
    exact fun h _ => (k1 h).elim
  | getAt i =>
    obtain ⟨r1, _⟩ := getAt_spec a i m hinv
    have : (a.getAt i m).1 ≠ .errAlloc ∧ (a.getAt i m).1 ≠ .errMaxCapacity := by
      rw [r1]; unfold Spec.Seq.getAt; split <;> simp
    obtain ⟨k1, k2⟩ := key _ this.1 this.2 (a.getAt i m).2.1 []
    exact fun h _ => (k1 h).elim
  | getLast =>
    obtain ⟨r1, _⟩ := getLast_spec a m hinv
    have : (a.getLast m).1 ≠ .errAlloc ∧ (a.getLast m).1 ≠ .errMaxCapacity := by
      rw [r1]; unfold Spec.Seq.getLast; split <;> simp
    obtain ⟨k1, k2⟩ := key _ this.1 this.2 (a.getLast m).2.1 []
    exact fun h _ => (k1 h).elim
  | indexOf x =>
    obtain ⟨r1, _⟩ := indexOf_spec a x m hinv
    have : (a.indexOf x m).1 ≠ .errAlloc ∧ (a.indexOf x m).1 ≠ .errMaxCapacity := by
      rw [r1]; unfold Spec.Seq.indexOf; split <;> simp
    obtain ⟨k1, k2⟩ := key _ this.1 this.2 (a.indexOf x m).2.1 []
    exact fun h _ => (k1 h).elim
  | removeAll | removeAllFree | reverse | sort | contains _ | containsValue _ | size | map | reduce _ =>
    simp [step, Out.blocked]

theorem expandCapacity_sched_nil (a : Arr) (m : Mem) (hs : m.sched = []) : (a.expandCapacity m).2.2.sched = [] := by
  by_cases hmax : a.AtLimit
  · rw [expandCapacity_max a m hmax]; exact hs
  · have hal := allocT_never_refuses m a.triple hs
    rw [expandCapacity_success a m hmax hal.1]
    simp only [freeT_sched, Mem.check_sched]; exact hal.2

theorem add_sched_nil (a : Arr) (x : Nat) (m : Mem) (hs : m.sched = []) : (a.add x m).2.2.sched = [] := by
  have he := expandCapacity_sched_nil a m hs
  unfold add
  split
  · simp only
    split
    · exact he
    · simp only [store, Mem.check_sched]; exact he
  · simp only [store, Mem.check_sched]; exact hs

theorem addAt_sched_nil (a : Arr) (x i : Nat) (m : Mem) (hs : m.sched = []) : (a.addAt x i m).2.2.sched = [] := by
  have he := expandCapacity_sched_nil a m hs
  unfold addAt
  split
  · exact add_sched_nil a x m hs
  · split
    · exact hs
    · split
      · simp only
        split
        · exact he
        · simp only [insertShift, Mem.check_sched]; exact he
      · simp only [insertShift, Mem.check_sched]; exact hs

theorem trimCapacity_sched_nil (a : Arr) (m : Mem) (hs : m.sched = []) : (a.trimCapacity m).2.2.sched = [] := by
  have hal := allocT_never_refuses m a.triple hs
  unfold trimCapacity
  by_cases h1 : a.size = a.capacity
  · simp only [if_pos h1]; exact hs
  · simp only [if_neg h1]
    by_cases h2 : (if a.size < 1 then 1 else a.size) = a.capacity
    · simp only [if_pos h2]; exact hs
    · simp only [if_neg h2, hal.1, Bool.not_true, Bool.false_eq_true, if_false, freeT_sched, Mem.check_sched]
      exact hal.2

/-- an allocator that never refuses stays one through every call -/
theorem step_sched_nil (cfg : Cfg) (a : Arr) (op : Op) (m : Mem) (hinv : a.Inv) (hs : m.sched = []) :
    (a.step cfg op m).2.2.sched = [] := by
  have h := (step_indep cfg a op m { sched := [] } hinv hs).2.2
  cases op with
  | add x => exact add_sched_nil a x m hs
  | addAt x i => exact addAt_sched_nil a x i m hs
  | trimCapacity => exact trimCapacity_sched_nil a m hs
  | replaceAt x i => simp only [step, (replaceAt_spec a x i m hinv).2.2.2.2.2.1]; exact hs
  | swapAt i j => simp only [step, (swapAt_spec a i j m hinv).2.2.2.2.1]; exact hs
  | remove x => simp only [step, (remove_spec a x m hinv).2.2.2.2.2.1]; exact hs
  | removeAt i => simp only [step, (removeAt_spec a i m hinv).2.2.2.2.2.1]; exact hs
  | removeLast => simp only [step, (removeLast_spec a m hinv).2.2.2.2.2.1]; exact hs
  | removeAll => exact hs
  | removeAllFree => simp only [step, (removeAllFree_spec a m hinv).2.2.2.2]; exact hs
  | reverse => simp only [step, (reverse_spec a m hinv).2.2.2]; exact hs
  | filterMut => simp only [step, (filterMut_spec cfg.pred a m hinv).2.2.2.2.1]; exact hs
  | sort => simp only [step, sort, Mem.check_sched]; exact hs
  | getAt i => simp only [step, (getAt_spec a i m hinv).2.2.1]; exact hs
  | getLast => simp only [step, (getLast_spec a m hinv).2.2.1]; exact hs
  | indexOf x => simp only [step, (indexOf_spec a x m hinv).2.2.1]; exact hs
  | contains x => simp only [step, contains, Mem.check_sched]; exact hs
  | containsValue x => simp only [step, containsValue, Mem.check_sched]; exact hs
  | size => exact hs
  | map => simp only [step, map, Mem.check_sched]; exact hs
  | reduce r0 => simp only [step, (reduce_spec cfg.fn a r0 m hinv).2.2]; exact hs

theorem spec_step_length (cfg : Cfg) (xs : List Nat) (op : Op) (blk : Option Stat)
    (hsort : ∀ xs, (cfg.sortFn xs).length = xs.length) :
    (Spec.Seq.step cfg xs op blk).2.length ≤ xs.length + 1 := by
  cases op <;> simp only [Spec.Seq.step]
  case add x => cases blk <;> simp [Spec.Seq.add]
  case addAt x i =>
    cases blk
    · simp only [Spec.Seq.addAt]; split <;> simp [List.length_insertIdx] <;> split <;> omega
    · simp
  case trimCapacity => cases blk <;> simp
  case replaceAt x i => simp only [Spec.Seq.replaceAt]; split <;> simp
  case swapAt i j => simp only [Spec.Seq.swapAt]; split <;> simp
  case remove x => simp only [Spec.Seq.remove]; split <;> simp [List.length_erase] <;> split <;> omega
  case removeAt i => simp only [Spec.Seq.removeAt]; split <;> simp [List.length_eraseIdx] <;> split <;> omega
  case removeLast => simp only [Spec.Seq.removeLast]; split <;> simp <;> omega
  case removeAll => simp [Spec.Seq.removeAll]
  case removeAllFree => simp [Spec.Seq.removeAllFree]
  case reverse => simp [Spec.Seq.reverse]
  case filterMut =>
    simp only [Spec.Seq.filterMut]; split
    · simp
    · have := List.length_filter_le cfg.pred xs; simp only; omega
  case sort => simp [Spec.Seq.sort, hsort]
  all_goals first | omega | (simp only; omega) | simp

end CC.Arr
