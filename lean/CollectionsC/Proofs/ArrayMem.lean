import CollectionsC.Proofs.ArrayStep
/-! Ledger facets of the dynamic-array model that the cross-cutting properties need:
* `Led m m' r`: the C-library counter `libc` is untouched (C14) and the refusal counter moved by
  exactly one iff `r` (C08 `refused_iff`);
* `_indep`: status, out-values and resulting state of a call depend on the ledger only through its
  schedule of refusals (C14 `allocator_independent`).
Per operation for the allocating ones, then per step / history. -/
namespace CC.Arr
open CC
open CC.Spec.Seq (Cfg Op Out IterOp)

/-! ### primitives -/

theorem alloc_congr {m1 m2 : Mem} (h : m1.sched = m2.sched) :
    m1.alloc.1 = m2.alloc.1 ∧ m1.alloc.2.sched = m2.alloc.2.sched := by
  unfold Mem.alloc; rw [h]; split <;> simp

theorem free_sched (m : Mem) : m.free.sched = m.sched := by unfold Mem.free; split <;> rfl
theorem free_libc (m : Mem) : m.free.libc = m.libc := by unfold Mem.free; split <;> rfl
theorem free_nrefused (m : Mem) : m.free.nrefused = m.nrefused := by unfold Mem.free; split <;> rfl
theorem check_nrefused (m : Mem) (b : Bool) : (m.check b).nrefused = m.nrefused := by cases b <;> rfl

theorem alloc_led (m : Mem) :
    m.alloc.2.libc = m.libc ∧ m.alloc.2.nrefused = m.nrefused + (if m.alloc.1 then 0 else 1) := by
  unfold Mem.alloc; split <;> simp

/-- ledger effect of a call: `libc` untouched, the refusal counter advanced iff `r` -/
def Led (m m' : Mem) (r : Bool) : Prop :=
  m'.libc = m.libc ∧ m'.nrefused = m.nrefused + (if r then 1 else 0)

theorem Led.rfl' (m : Mem) : Led m m false := ⟨rfl, by simp⟩
theorem Led.of_eq {m m' : Mem} (h : m' = m) : Led m m' false := by subst h; exact Led.rfl' _
theorem Led.trans {m m' m'' : Mem} {r : Bool} (h1 : Led m m' false) (h2 : Led m' m'' r) : Led m m'' r := by
  obtain ⟨a1, a2⟩ := h1; obtain ⟨b1, b2⟩ := h2
  exact ⟨by rw [b1, a1], by rw [b2, a2]; simp⟩
theorem Led.free {m m' : Mem} {r : Bool} (h : Led m m' r) : Led m m'.free r :=
  ⟨by rw [free_libc]; exact h.1, by rw [free_nrefused]; exact h.2⟩
theorem Led.check {m m' : Mem} {r : Bool} (h : Led m m' r) (b : Bool) : Led m (m'.check b) r :=
  ⟨by rw [Mem.check_libc]; exact h.1, by rw [check_nrefused]; exact h.2⟩
theorem Led.alloc (m : Mem) : Led m m.alloc.2 (!m.alloc.1) := by
  obtain ⟨a1, a2⟩ := alloc_led m
  refine ⟨a1, ?_⟩
  rw [a2]; cases m.alloc.1 <;> rfl

/-! ### allocating operations -/

theorem expandCapacity_led (a : Arr) (m : Mem) :
    Led m (a.expandCapacity m).2.2 (decide ((a.expandCapacity m).1 = .errAlloc)) := by
  by_cases hmax : a.AtLimit
  · rw [expandCapacity_max a m hmax]; exact Led.rfl' m
  · cases hal : m.alloc.1
    · rw [expandCapacity_refused a m hmax hal]
      have := Led.alloc m; rw [hal] at this; exact this
    · rw [expandCapacity_success a m hmax hal]
      have := Led.alloc m; rw [hal] at this
      exact (this.check _).free

theorem expandCapacity_indep (a : Arr) (m1 m2 : Mem) (h : m1.sched = m2.sched) :
    (a.expandCapacity m1).1 = (a.expandCapacity m2).1 ∧ (a.expandCapacity m1).2.1 = (a.expandCapacity m2).2.1 ∧
    (a.expandCapacity m1).2.2.sched = (a.expandCapacity m2).2.2.sched := by
  obtain ⟨e1, e2⟩ := alloc_congr h
  unfold expandCapacity
  simp only [e1]
  split
  · exact ⟨rfl, rfl, h⟩
  · split
    · exact ⟨rfl, rfl, h⟩
    · split
      · exact ⟨rfl, rfl, e2⟩
      · exact ⟨rfl, rfl, by simp only [free_sched, Mem.check_sched, e2]⟩

theorem store_led (a : Arr) (x : Nat) (m : Mem) : Led m (a.store x m).2.2 false := (Led.rfl' m).check _
theorem insertShift_led (a : Arr) (x i : Nat) (m : Mem) : Led m (a.insertShift x i m).2.2 false :=
  ((Led.rfl' m).check _).check _

theorem add_led (a : Arr) (x : Nat) (m : Mem) : Led m (a.add x m).2.2 (decide ((a.add x m).1 = .errAlloc)) := by
  have he := expandCapacity_led a m
  unfold add
  split
  · simp only
    split
    · exact he
    · rename_i hok
      have hok' : (a.expandCapacity m).1 = .ok := by simpa using hok
      have h1 : Led m (a.expandCapacity m).2.2 false := by rw [hok'] at he; exact he
      exact h1.trans (store_led _ x _)
  · exact store_led a x m

theorem add_indep (a : Arr) (x : Nat) (m1 m2 : Mem) (h : m1.sched = m2.sched) :
    (a.add x m1).1 = (a.add x m2).1 ∧ (a.add x m1).2.1 = (a.add x m2).2.1 ∧
    (a.add x m1).2.2.sched = (a.add x m2).2.2.sched := by
  obtain ⟨e1, e2, e3⟩ := expandCapacity_indep a m1 m2 h
  unfold add
  split
  · simp only [e1, e2]
    split
    · exact ⟨rfl, rfl, e3⟩
    · exact ⟨rfl, rfl, by simp only [store, Mem.check_sched]; exact e3⟩
  · exact ⟨rfl, rfl, by simp only [store, Mem.check_sched]; exact h⟩

theorem addAt_led (a : Arr) (x i : Nat) (m : Mem) :
    Led m (a.addAt x i m).2.2 (decide ((a.addAt x i m).1 = .errAlloc)) := by
  have he := expandCapacity_led a m
  unfold addAt
  split
  · exact add_led a x m
  · split
    · exact Led.rfl' m
    · split
      · simp only
        split
        · exact he
        · rename_i hok
          have hok' : (a.expandCapacity m).1 = .ok := by simpa using hok
          have h1 : Led m (a.expandCapacity m).2.2 false := by rw [hok'] at he; exact he
          exact h1.trans (insertShift_led _ x i _)
      · exact insertShift_led a x i m

theorem addAt_indep (a : Arr) (x i : Nat) (m1 m2 : Mem) (h : m1.sched = m2.sched) :
    (a.addAt x i m1).1 = (a.addAt x i m2).1 ∧ (a.addAt x i m1).2.1 = (a.addAt x i m2).2.1 ∧
    (a.addAt x i m1).2.2.sched = (a.addAt x i m2).2.2.sched := by
  obtain ⟨e1, e2, e3⟩ := expandCapacity_indep a m1 m2 h
  unfold addAt
  split
  · exact add_indep a x m1 m2 h
  · split
    · exact ⟨rfl, rfl, h⟩
    · split
      · simp only [e1, e2]
        split
        · exact ⟨rfl, rfl, e3⟩
        · exact ⟨rfl, rfl, by simp only [insertShift, Mem.check_sched]; exact e3⟩
      · exact ⟨rfl, rfl, by simp only [insertShift, Mem.check_sched]; exact h⟩

theorem trimCapacity_led (a : Arr) (m : Mem) :
    Led m (a.trimCapacity m).2.2 (decide ((a.trimCapacity m).1 = .errAlloc)) := by
  unfold trimCapacity
  by_cases h1 : a.size = a.capacity
  · simp only [if_pos h1]; exact Led.rfl' m
  · simp only [if_neg h1]
    by_cases h2 : (if a.size < 1 then 1 else a.size) = a.capacity
    · simp only [if_pos h2]; exact Led.rfl' m
    · simp only [if_neg h2]
      cases hal : m.alloc.1
      · have := Led.alloc m; rw [hal] at this; simpa using this
      · have := Led.alloc m; rw [hal] at this
        simpa using (this.check _).free

theorem trimCapacity_indep (a : Arr) (m1 m2 : Mem) (h : m1.sched = m2.sched) :
    (a.trimCapacity m1).1 = (a.trimCapacity m2).1 ∧ (a.trimCapacity m1).2.1 = (a.trimCapacity m2).2.1 ∧
    (a.trimCapacity m1).2.2.sched = (a.trimCapacity m2).2.2.sched := by
  obtain ⟨e1, e2⟩ := alloc_congr h
  unfold trimCapacity
  by_cases h1 : a.size = a.capacity
  · simp only [if_pos h1]; exact ⟨by triv, by triv, h⟩
  · simp only [if_neg h1]
    by_cases h2 : (if a.size < 1 then 1 else a.size) = a.capacity
    · simp only [if_pos h2]; exact ⟨by triv, by triv, h⟩
    · simp only [if_neg h2, e1]
      split
      · exact ⟨rfl, rfl, e2⟩
      · exact ⟨rfl, rfl, by simp only [free_sched, Mem.check_sched, e2]⟩

/-- the allocation pair of constructor and builders: a refusal of either request is the only way
to fail, and exactly one refusal is counted then -/
theorem alloc2_led (m : Mem) : Led m (alloc2 m).2 (!(alloc2 m).1) := by
  cases h1 : m.alloc.1
  · have := Led.alloc m; rw [h1] at this
    simpa [alloc2, h1] using this
  · have l1 := Led.alloc m; rw [h1] at l1
    cases h2 : m.alloc.2.alloc.1
    · have l2 := Led.alloc m.alloc.2; rw [h2] at l2
      simpa [alloc2, h1, h2] using (l1.trans l2).free
    · have l2 := Led.alloc m.alloc.2; rw [h2] at l2
      simpa [alloc2, h1, h2] using l1.trans l2

theorem alloc2_indep (m1 m2 : Mem) (h : m1.sched = m2.sched) :
    (alloc2 m1).1 = (alloc2 m2).1 ∧ (alloc2 m1).2.sched = (alloc2 m2).2.sched := by
  obtain ⟨e1, e2⟩ := alloc_congr h
  obtain ⟨f1, f2⟩ := alloc_congr e2
  unfold alloc2
  simp only [e1, f1]
  split
  · exact ⟨rfl, e2⟩
  · split
    · exact ⟨rfl, by simp only [free_sched]; exact f2⟩
    · exact ⟨rfl, f2⟩

theorem new_led (cap : Nat) (grow : Nat → Nat) (exGe : Nat → Bool) (m : Mem) :
    Led m (Arr.new cap grow exGe m).2.2 (decide ((Arr.new cap grow exGe m).1 = .errAlloc)) := by
  have h2 := alloc2_led m
  unfold alloc2 at h2
  unfold Arr.new
  split
  · exact Led.rfl' m
  · split
    · exact Led.rfl' m
    · split
      · exact Led.rfl' m
      · simp only at h2 ⊢
        split
        · rename_i h; simp only [h, if_true] at h2; simpa using h2
        · rename_i h
          simp only [h] at h2
          split
          · rename_i h'; simp only [h', if_true] at h2; simpa using h2
          · rename_i h'; simp only [h'] at h2; simpa using h2

theorem new_indep (cap : Nat) (grow : Nat → Nat) (exGe : Nat → Bool) (m1 m2 : Mem) (h : m1.sched = m2.sched) :
    (Arr.new cap grow exGe m1).1 = (Arr.new cap grow exGe m2).1 ∧
    (Arr.new cap grow exGe m1).2.1 = (Arr.new cap grow exGe m2).2.1 ∧
    (Arr.new cap grow exGe m1).2.2.sched = (Arr.new cap grow exGe m2).2.2.sched := by
  obtain ⟨e1, e2⟩ := alloc_congr h
  obtain ⟨f1, f2⟩ := alloc_congr e2
  unfold Arr.new
  simp only [e1, f1]
  split
  · exact ⟨rfl, rfl, h⟩
  · split
    · exact ⟨rfl, rfl, h⟩
    · split
      · exact ⟨rfl, rfl, h⟩
      · split
        · exact ⟨rfl, rfl, e2⟩
        · split
          · exact ⟨rfl, rfl, by simp only [free_sched]; exact f2⟩
          · exact ⟨rfl, rfl, f2⟩

theorem destroy_led (a : Arr) (m : Mem) : Led m (a.destroy m) false := ((Led.rfl' m).free).free
theorem destroy_sched (a : Arr) (m : Mem) : (a.destroy m).sched = m.sched := by
  unfold destroy; rw [free_sched, free_sched]

theorem subarray_led (a : Arr) (b e : Nat) (m : Mem) :
    Led m (a.subarray b e m).2.2 (decide ((a.subarray b e m).1 = .errAlloc)) := by
  have h2 := alloc2_led m
  unfold subarray
  split
  · exact Led.rfl' m
  · simp only
    split
    · rename_i h; have h' : (alloc2 m).1 = false := by simpa using h
      rw [h'] at h2; simpa using h2
    · rename_i h; have h' : (alloc2 m).1 = true := by simpa using h
      rw [h'] at h2; simpa using h2.check _

theorem subarray_indep (a : Arr) (b e : Nat) (m1 m2 : Mem) (h : m1.sched = m2.sched) :
    (a.subarray b e m1).1 = (a.subarray b e m2).1 ∧ (a.subarray b e m1).2.1 = (a.subarray b e m2).2.1 ∧
    (a.subarray b e m1).2.2.sched = (a.subarray b e m2).2.2.sched := by
  obtain ⟨e1, e2⟩ := alloc2_indep m1 m2 h
  unfold subarray
  simp only [e1]
  split
  · exact ⟨rfl, rfl, h⟩
  · split
    · exact ⟨rfl, rfl, e2⟩
    · exact ⟨rfl, rfl, by simp only [Mem.check_sched]; exact e2⟩

theorem copyShallow_led (a : Arr) (m : Mem) :
    Led m (a.copyShallow m).2.2 (decide ((a.copyShallow m).1 = .errAlloc)) := by
  have h2 := alloc2_led m
  unfold copyShallow
  simp only
  split
  · rename_i h; have h' : (alloc2 m).1 = false := by simpa using h
    rw [h'] at h2; simpa using h2
  · rename_i h; have h' : (alloc2 m).1 = true := by simpa using h
    rw [h'] at h2; simpa using h2.check _

theorem copyShallow_indep (a : Arr) (m1 m2 : Mem) (h : m1.sched = m2.sched) :
    (a.copyShallow m1).1 = (a.copyShallow m2).1 ∧ (a.copyShallow m1).2.1 = (a.copyShallow m2).2.1 ∧
    (a.copyShallow m1).2.2.sched = (a.copyShallow m2).2.2.sched := by
  obtain ⟨e1, e2⟩ := alloc2_indep m1 m2 h
  unfold copyShallow
  simp only [e1]
  split
  · exact ⟨rfl, rfl, e2⟩
  · exact ⟨rfl, rfl, by simp only [Mem.check_sched]; exact e2⟩

theorem copyDeep_led (cp : Nat → Nat) (a : Arr) (m : Mem) :
    Led m (a.copyDeep cp m).2.2.2 (decide ((a.copyDeep cp m).1 = .errAlloc)) := by
  have h2 := alloc2_led m
  unfold copyDeep
  simp only
  split
  · rename_i h; have h' : (alloc2 m).1 = false := by simpa using h
    rw [h'] at h2; simpa using h2
  · rename_i h; have h' : (alloc2 m).1 = true := by simpa using h
    rw [h'] at h2; simpa using h2.check _

theorem copyDeep_indep (cp : Nat → Nat) (a : Arr) (m1 m2 : Mem) (h : m1.sched = m2.sched) :
    (a.copyDeep cp m1).1 = (a.copyDeep cp m2).1 ∧ (a.copyDeep cp m1).2.1 = (a.copyDeep cp m2).2.1 ∧
    (a.copyDeep cp m1).2.2.1 = (a.copyDeep cp m2).2.2.1 ∧
    (a.copyDeep cp m1).2.2.2.sched = (a.copyDeep cp m2).2.2.2.sched := by
  obtain ⟨e1, e2⟩ := alloc2_indep m1 m2 h
  unfold copyDeep
  simp only [e1]
  split
  · exact ⟨rfl, rfl, rfl, e2⟩
  · exact ⟨rfl, rfl, rfl, by simp only [Mem.check_sched]; exact e2⟩

theorem filter_led (p : Nat → Bool) (a : Arr) (m : Mem) :
    Led m (a.filter p m).2.2.2 (decide ((a.filter p m).1 = .errAlloc)) := by
  have h2 := alloc2_led m
  unfold filter
  split
  · exact Led.rfl' m
  · simp only
    split
    · rename_i h; have h' : (alloc2 m).1 = false := by simpa using h
      rw [h'] at h2; simpa using h2
    · rename_i h; have h' : (alloc2 m).1 = true := by simpa using h
      rw [h'] at h2; simpa using h2.check _

theorem filter_indep (p : Nat → Bool) (a : Arr) (m1 m2 : Mem) (h : m1.sched = m2.sched) :
    (a.filter p m1).1 = (a.filter p m2).1 ∧ (a.filter p m1).2.1 = (a.filter p m2).2.1 ∧
    (a.filter p m1).2.2.1 = (a.filter p m2).2.2.1 ∧
    (a.filter p m1).2.2.2.sched = (a.filter p m2).2.2.2.sched := by
  obtain ⟨e1, e2⟩ := alloc2_indep m1 m2 h
  unfold filter
  simp only [e1]
  split
  · exact ⟨rfl, rfl, rfl, h⟩
  · split
    · exact ⟨rfl, rfl, rfl, e2⟩
    · exact ⟨rfl, rfl, rfl, by simp only [Mem.check_sched]; exact e2⟩

/-! ### iterator insertions -/

theorem iterAdd_led (a : Arr) (it : ArrIter) (x : Nat) (m : Mem) :
    Led m (a.iterAdd it x m).2.2.2 (decide ((a.iterAdd it x m).1 = .errAlloc)) := by
  have := addAt_led a x it.index m
  unfold iterAdd
  simp only
  split <;> exact this

theorem iterAdd_indep (a : Arr) (it : ArrIter) (x : Nat) (m1 m2 : Mem) (h : m1.sched = m2.sched) :
    (a.iterAdd it x m1).1 = (a.iterAdd it x m2).1 ∧ (a.iterAdd it x m1).2.1 = (a.iterAdd it x m2).2.1 ∧
    (a.iterAdd it x m1).2.2.1 = (a.iterAdd it x m2).2.2.1 ∧
    (a.iterAdd it x m1).2.2.2.sched = (a.iterAdd it x m2).2.2.2.sched := by
  obtain ⟨e1, e2, e3⟩ := addAt_indep a x it.index m1 m2 h
  unfold iterAdd
  simp only [e1, e2]
  split <;> exact ⟨rfl, rfl, rfl, e3⟩

theorem ensureRoom_led (a : Arr) (m : Mem) :
    Led m (ensureRoom a m).2.2 (decide ((ensureRoom a m).1 = .errAlloc)) := by
  unfold ensureRoom
  split
  · exact expandCapacity_led a m
  · exact Led.rfl' m

theorem ensureRoom_indep (a : Arr) (m1 m2 : Mem) (h : m1.sched = m2.sched) :
    (ensureRoom a m1).1 = (ensureRoom a m2).1 ∧ (ensureRoom a m1).2.1 = (ensureRoom a m2).2.1 ∧
    (ensureRoom a m1).2.2.sched = (ensureRoom a m2).2.2.sched := by
  unfold ensureRoom
  split
  · exact expandCapacity_indep a m1 m2 h
  · exact ⟨rfl, rfl, h⟩

/-- `zip_iter_add`: `libc` untouched; a refusal makes the call report `CC_ERR_ALLOC`, and — unless one
of the arrays sits at the capacity limit, which this function also reports as `CC_ERR_ALLOC` — the
converse holds -/
theorem zipAdd_led (a1 a2 : Arr) (it : ArrIter) (x y : Nat) (m : Mem) (h1 : a1.Inv) (h2 : a2.Inv) (hlive : 0 < m.live) :
    (zipAdd a1 a2 it x y m).2.2.2.2.libc = m.libc ∧
    (m.nrefused < (zipAdd a1 a2 it x y m).2.2.2.2.nrefused → (zipAdd a1 a2 it x y m).1 = .errAlloc) ∧
    ((zipAdd a1 a2 it x y m).1 = .errAlloc → ¬ a1.AtLimit → ¬ a2.AtLimit →
      (zipAdd a1 a2 it x y m).2.2.2.2.nrefused = m.nrefused + 1) ∧
    ((zipAdd a1 a2 it x y m).1 ≠ .errAlloc → (zipAdd a1 a2 it x y m).2.2.2.2.nrefused = m.nrefused) := by
  have l1 := ensureRoom_led a1 m
  have l2 := ensureRoom_led a2 (ensureRoom a1 m).2.2
  obtain ⟨r1, rl1, _⟩ := ensureRoom_spec a1 m h1 hlive
  obtain ⟨r2, _, _⟩ := ensureRoom_spec a2 (ensureRoom a1 m).2.2 h2 (by omega)
  -- a failing room-making step: either a counted refusal, or the capacity limit
  have hfail : ∀ (a : Arr) (m : Mem), (ensureRoom a m).1 ≠ .ok →
      (ensureRoom a m).1 = .errAlloc ∨ a.AtLimit := by
    intro a m hne
    unfold ensureRoom at hne ⊢
    split at hne
    · rename_i hf
      simp only [hf, if_true]
      by_cases hmax : a.AtLimit
      · exact Or.inr hmax
      · left
        cases hal : m.alloc.1
        · rw [expandCapacity_refused a m hmax hal]
        · rw [expandCapacity_success a m hmax hal] at hne; simp at hne
    · exact absurd rfl hne
  rw [zipAdd_eq]
  by_cases o1 : (ensureRoom a1 m).1 = .ok
  · have hl1 : Led m (ensureRoom a1 m).2.2 false := by rw [o1] at l1; exact l1
    simp only [o1, bne_self_eq_false, Bool.false_eq_true, if_false]
    by_cases o2 : (ensureRoom a2 (ensureRoom a1 m).2.2).1 = .ok
    · have hl2 : Led (ensureRoom a1 m).2.2 (ensureRoom a2 (ensureRoom a1 m).2.2).2.2 false := by rw [o2] at l2; exact l2
      simp only [o2, bne_self_eq_false, Bool.false_eq_true, if_false]
      rcases r1 with ⟨_, _, _, d1, e1, _⟩ | ⟨n1, _⟩
      · rcases r2 with ⟨_, _, _, d2, e2, _⟩ | ⟨n2, _⟩
        · have p := addAt_led (ensureRoom a1 m).2.1 x it.index (ensureRoom a2 (ensureRoom a1 m).2.2).2.2
          have q := addAt_led (ensureRoom a2 (ensureRoom a1 m).2.2).2.1 y it.index
            ((ensureRoom a1 m).2.1.addAt x it.index (ensureRoom a2 (ensureRoom a1 m).2.2).2.2).2.2
          -- with room available neither inner call can report an allocation error
          have pk : ((ensureRoom a1 m).2.1.addAt x it.index (ensureRoom a2 (ensureRoom a1 m).2.2).2.2).2.2 =
              (ensureRoom a2 (ensureRoom a1 m).2.2).2.2 := by
            by_cases hi : it.index ≤ (ensureRoom a1 m).2.1.size
            · exact (addAt_room _ x it.index _ d1 e1 hi).2.2.2.2
            · rw [addAt_range _ x it.index _ (by omega)]
          rw [pk]
          have qk : ((ensureRoom a2 (ensureRoom a1 m).2.2).2.1.addAt y it.index (ensureRoom a2 (ensureRoom a1 m).2.2).2.2).2.2 =
              (ensureRoom a2 (ensureRoom a1 m).2.2).2.2 := by
            by_cases hi : it.index ≤ (ensureRoom a2 (ensureRoom a1 m).2.2).2.1.size
            · exact (addAt_room _ y it.index _ d2 e2 hi).2.2.2.2
            · rw [addAt_range _ y it.index _ (by omega)]
          rw [qk]
          have hl := hl1.trans hl2
          refine ⟨hl.1, fun h => ?_, fun h => by simp at h, fun _ => by simpa using hl.2⟩
          have := hl.2; simp at this; omega
        · exact absurd o2 n2
      · exact absurd o1 n1
    · have hne : ((ensureRoom a2 (ensureRoom a1 m).2.2).1 != .ok) = true := by simpa using o2
      simp only [hne, if_true]
      have hl := hl1.trans l2
      refine ⟨hl.1, fun _ => by triv, fun _ _ hm2 => ?_, fun h => absurd rfl h⟩
      rcases hfail a2 _ o2 with e | e
      · have := hl.2; rw [e] at this; simpa using this
      · exact absurd e hm2
  · have hne : ((ensureRoom a1 m).1 != .ok) = true := by simpa using o1
    simp only [hne, if_true]
    refine ⟨l1.1, fun _ => by triv, fun _ hm1 _ => ?_, fun h => absurd rfl h⟩
    rcases hfail a1 _ o1 with e | e
    · have := l1.2; rw [e] at this; simpa using this
    · exact absurd e hm1

theorem zipAdd_indep (a1 a2 : Arr) (it : ArrIter) (x y : Nat) (m1 m2 : Mem) (h : m1.sched = m2.sched) :
    (zipAdd a1 a2 it x y m1).1 = (zipAdd a1 a2 it x y m2).1 ∧
    (zipAdd a1 a2 it x y m1).2.1 = (zipAdd a1 a2 it x y m2).2.1 ∧
    (zipAdd a1 a2 it x y m1).2.2.1 = (zipAdd a1 a2 it x y m2).2.2.1 ∧
    (zipAdd a1 a2 it x y m1).2.2.2.1 = (zipAdd a1 a2 it x y m2).2.2.2.1 ∧
    (zipAdd a1 a2 it x y m1).2.2.2.2.sched = (zipAdd a1 a2 it x y m2).2.2.2.2.sched := by
  obtain ⟨e1, e2, e3⟩ := ensureRoom_indep a1 m1 m2 h
  obtain ⟨f1, f2, f3⟩ := ensureRoom_indep a2 _ _ e3
  obtain ⟨g1, g2, g3⟩ := addAt_indep (ensureRoom a1 m2).2.1 x it.index _ _ f3
  obtain ⟨k1, k2, k3⟩ := addAt_indep (ensureRoom a2 (ensureRoom a1 m2).2.2).2.1 y it.index _ _ g3
  rw [zipAdd_eq, zipAdd_eq]
  simp only [e1, e2, f1, f2]
  split
  · exact ⟨rfl, rfl, rfl, rfl, e3⟩
  · split
    · exact ⟨rfl, rfl, rfl, rfl, f3⟩
    · exact ⟨rfl, g2, k2, rfl, k3⟩

/-! ### the calls that never allocate: everything but the ledger is independent of the ledger -/

theorem pure_replaceAt (a : Arr) (x i : Nat) (m1 m2 : Mem) :
    (a.replaceAt x i m1).1 = (a.replaceAt x i m2).1 ∧ (a.replaceAt x i m1).2.1 = (a.replaceAt x i m2).2.1 ∧
    (a.replaceAt x i m1).2.2.1 = (a.replaceAt x i m2).2.2.1 := by
  unfold replaceAt; split <;> exact ⟨rfl, rfl, rfl⟩
theorem pure_swapAt (a : Arr) (i j : Nat) (m1 m2 : Mem) :
    (a.swapAt i j m1).1 = (a.swapAt i j m2).1 ∧ (a.swapAt i j m1).2.1 = (a.swapAt i j m2).2.1 := by
  unfold swapAt; split <;> exact ⟨rfl, rfl⟩
theorem pure_removeAt (a : Arr) (i : Nat) (m1 m2 : Mem) :
    (a.removeAt i m1).1 = (a.removeAt i m2).1 ∧ (a.removeAt i m1).2.1 = (a.removeAt i m2).2.1 ∧
    (a.removeAt i m1).2.2.1 = (a.removeAt i m2).2.2.1 := by
  unfold removeAt; split <;> exact ⟨rfl, rfl, rfl⟩
theorem pure_remove (a : Arr) (x : Nat) (m1 m2 : Mem) :
    (a.remove x m1).1 = (a.remove x m2).1 ∧ (a.remove x m1).2.1 = (a.remove x m2).2.1 ∧
    (a.remove x m1).2.2.1 = (a.remove x m2).2.2.1 := by
  unfold remove indexOf; split <;> (simp only; split <;> exact ⟨rfl, rfl, rfl⟩)
theorem pure_filterMut (p : Nat → Bool) (a : Arr) (m1 m2 : Mem) :
    (a.filterMut p m1).1 = (a.filterMut p m2).1 ∧ (a.filterMut p m1).2.1 = (a.filterMut p m2).2.1 ∧
    (a.filterMut p m1).2.2.1 = (a.filterMut p m2).2.2.1 := by
  unfold filterMut; split <;> exact ⟨rfl, rfl, rfl⟩
theorem pure_reverse (a : Arr) (m1 m2 : Mem) : (a.reverse m1).1 = (a.reverse m2).1 := by
  unfold reverse; split <;> rfl
theorem pure_getAt (a : Arr) (i : Nat) (m1 m2 : Mem) :
    (a.getAt i m1).1 = (a.getAt i m2).1 ∧ (a.getAt i m1).2.1 = (a.getAt i m2).2.1 := by
  unfold getAt; split <;> exact ⟨rfl, rfl⟩
theorem pure_getLast (a : Arr) (m1 m2 : Mem) :
    (a.getLast m1).1 = (a.getLast m2).1 ∧ (a.getLast m1).2.1 = (a.getLast m2).2.1 := by
  unfold getLast; split
  · exact ⟨rfl, rfl⟩
  · exact pure_getAt a _ m1 m2
theorem pure_indexOf (a : Arr) (x : Nat) (m1 m2 : Mem) :
    (a.indexOf x m1).1 = (a.indexOf x m2).1 ∧ (a.indexOf x m1).2.1 = (a.indexOf x m2).2.1 := by
  unfold indexOf; simp only; split <;> exact ⟨rfl, rfl⟩
theorem pure_reduce (fn : Nat → Nat → Nat) (a : Arr) (r0 : Nat) (m1 m2 : Mem) :
    (a.reduce fn r0 m1).1 = (a.reduce fn r0 m2).1 ∧ (a.reduce fn r0 m1).2.1 = (a.reduce fn r0 m2).2.1 := by
  unfold reduce; simp only; split <;> exact ⟨rfl, rfl⟩
theorem pure_iterNext (a : Arr) (it : ArrIter) (m1 m2 : Mem) :
    (a.iterNext it m1).1 = (a.iterNext it m2).1 ∧ (a.iterNext it m1).2.1 = (a.iterNext it m2).2.1 ∧
    (a.iterNext it m1).2.2.1 = (a.iterNext it m2).2.2.1 := by
  unfold iterNext; split <;> exact ⟨rfl, rfl, rfl⟩
theorem pure_iterRemove (a : Arr) (it : ArrIter) (m1 m2 : Mem) :
    (a.iterRemove it m1).1 = (a.iterRemove it m2).1 ∧ (a.iterRemove it m1).2.1 = (a.iterRemove it m2).2.1 ∧
    (a.iterRemove it m1).2.2.1 = (a.iterRemove it m2).2.2.1 ∧ (a.iterRemove it m1).2.2.2.1 = (a.iterRemove it m2).2.2.2.1 := by
  obtain ⟨p1, p2, p3⟩ := pure_removeAt a (Spec.Seq.wdec it.index) m1 m2
  unfold iterRemove
  split
  · simp only [p1, p2, p3]; split <;> exact ⟨rfl, rfl, rfl, rfl⟩
  · exact ⟨rfl, rfl, rfl, rfl⟩

/-! ### per step and per history -/

theorem some_ne_alloc {s : Stat} (h : s ≠ .errAlloc) : decide (some s = some Stat.errAlloc) = false := by
  simp [h]

/-- **ledger effect of one call of the C01 vocabulary**: `libc` untouched, and the refusal counter
advances (by one) exactly when the call reports `CC_ERR_ALLOC` -/
theorem step_led (cfg : Cfg) (a : Arr) (op : Op) (m : Mem) (hinv : a.Inv) :
    Led m (a.step cfg op m).2.2 (decide ((a.step cfg op m).1.st = some .errAlloc)) := by
  have conv : ∀ s : Stat, decide (some s = some Stat.errAlloc) = decide (s = .errAlloc) := by
    intro s; by_cases h : s = .errAlloc <;> simp [h]
  cases op with
  | add x => have := add_led a x m; simpa [step] using this
  | addAt x i => have := addAt_led a x i m; simpa [step] using this
  | trimCapacity => have := trimCapacity_led a m; simpa [step] using this
  | replaceAt x i =>
    obtain ⟨r1, _, _, _, _, r6, _⟩ := replaceAt_spec a x i m hinv
    simp only [step, conv, r6]
    have : (a.replaceAt x i m).1 ≠ .errAlloc := by rw [r1]; unfold Spec.Seq.replaceAt; split <;> simp
    simp only [this, decide_false]; exact Led.rfl' m
  | swapAt i j =>
    obtain ⟨r1, _, _, _, r5, _⟩ := swapAt_spec a i j m hinv
    simp only [step, conv, r5]
    have : (a.swapAt i j m).1 ≠ .errAlloc := by rw [r1]; unfold Spec.Seq.swapAt; split <;> simp
    simp only [this, decide_false]; exact Led.rfl' m
  | remove x =>
    obtain ⟨r1, _, _, _, _, r6, _⟩ := remove_spec a x m hinv
    simp only [step, conv, r6]
    have : (a.remove x m).1 ≠ .errAlloc := by rw [r1]; unfold Spec.Seq.remove; split <;> simp
    simp only [this, decide_false]; exact Led.rfl' m
  | removeAt i =>
    obtain ⟨r1, _, _, _, _, r6, _⟩ := removeAt_spec a i m hinv
    simp only [step, conv, r6]
    have : (a.removeAt i m).1 ≠ .errAlloc := by rw [r1]; unfold Spec.Seq.removeAt; split <;> simp
    simp only [this, decide_false]; exact Led.rfl' m
  | removeLast =>
    obtain ⟨r1, _, _, _, _, r6, _⟩ := removeLast_spec a m hinv
    simp only [step, conv, r6]
    have : (a.removeLast m).1 ≠ .errAlloc := by rw [r1]; unfold Spec.Seq.removeLast; split <;> simp
    simp only [this, decide_false]; exact Led.rfl' m
  | removeAll => simp only [step]; exact Led.rfl' m
  | removeAllFree =>
    obtain ⟨_, _, _, _, r5⟩ := removeAllFree_spec a m hinv
    simp only [step, r5]; exact Led.rfl' m
  | reverse =>
    obtain ⟨_, _, _, r4⟩ := reverse_spec a m hinv
    simp only [step, r4]; exact Led.rfl' m
  | filterMut =>
    obtain ⟨r1, _, _, _, r5, _⟩ := filterMut_spec cfg.pred a m hinv
    simp only [step, conv, r5]
    have : (a.filterMut cfg.pred m).1 ≠ .errAlloc := by rw [r1]; unfold Spec.Seq.filterMut; split <;> simp
    simp only [this, decide_false]; exact Led.rfl' m
  | sort =>
    have h6 : decide (a.size ≤ a.buf.length) = true := by simpa using hinv.size_le_len
    simp only [step, sort, h6, Mem.check_true]; exact Led.rfl' m
  | getAt i =>
    obtain ⟨r1, _, r3, _⟩ := getAt_spec a i m hinv
    simp only [step, conv, r3]
    have : (a.getAt i m).1 ≠ .errAlloc := by rw [r1]; unfold Spec.Seq.getAt; split <;> simp
    simp only [this, decide_false]; exact Led.rfl' m
  | getLast =>
    obtain ⟨r1, _, r3, _⟩ := getLast_spec a m hinv
    simp only [step, conv, r3]
    have : (a.getLast m).1 ≠ .errAlloc := by rw [r1]; unfold Spec.Seq.getLast; split <;> simp
    simp only [this, decide_false]; exact Led.rfl' m
  | indexOf x =>
    obtain ⟨r1, _, r3, _⟩ := indexOf_spec a x m hinv
    simp only [step, conv, r3]
    have : (a.indexOf x m).1 ≠ .errAlloc := by rw [r1]; unfold Spec.Seq.indexOf; split <;> simp
    simp only [this, decide_false]; exact Led.rfl' m
  | contains x => simp only [step, (contains_spec a x m hinv).2]; exact Led.rfl' m
  | containsValue x => simp only [step, (containsValue_spec cfg.cmp a x m hinv).2]; exact Led.rfl' m
  | size => simp only [step]; exact Led.rfl' m
  | map => simp only [step, (map_spec a m hinv).2]; exact Led.rfl' m
  | reduce r0 => simp only [step, (reduce_spec cfg.fn a r0 m hinv).2.2]; exact Led.rfl' m

/-- **allocator independence of one call**: two ledgers holding the same schedule of refusals give
the same report, the same resulting state, and again the same schedule -/
theorem step_indep (cfg : Cfg) (a : Arr) (op : Op) (m1 m2 : Mem) (hinv : a.Inv) (h : m1.sched = m2.sched) :
    (a.step cfg op m1).1 = (a.step cfg op m2).1 ∧ (a.step cfg op m1).2.1 = (a.step cfg op m2).2.1 ∧
    (a.step cfg op m1).2.2.sched = (a.step cfg op m2).2.2.sched := by
  cases op with
  | add x => obtain ⟨e1, e2, e3⟩ := add_indep a x m1 m2 h; simp only [step, e1]; exact ⟨by triv, e2, e3⟩
  | addAt x i => obtain ⟨e1, e2, e3⟩ := addAt_indep a x i m1 m2 h; simp only [step, e1]; exact ⟨by triv, e2, e3⟩
  | trimCapacity => obtain ⟨e1, e2, e3⟩ := trimCapacity_indep a m1 m2 h; simp only [step, e1]; exact ⟨by triv, e2, e3⟩
  | replaceAt x i =>
    obtain ⟨p1, p2, p3⟩ := pure_replaceAt a x i m1 m2
    have q1 := (replaceAt_spec a x i m1 hinv).2.2.2.2.2.1
    have q2 := (replaceAt_spec a x i m2 hinv).2.2.2.2.2.1
    simp only [step, p1, p2]; exact ⟨by triv, p3, by rw [q1, q2]; exact h⟩
  | swapAt i j =>
    obtain ⟨p1, p2⟩ := pure_swapAt a i j m1 m2
    have q1 := (swapAt_spec a i j m1 hinv).2.2.2.2.1
    have q2 := (swapAt_spec a i j m2 hinv).2.2.2.2.1
    simp only [step, p1]; exact ⟨by triv, p2, by rw [q1, q2]; exact h⟩
  | remove x =>
    obtain ⟨p1, p2, p3⟩ := pure_remove a x m1 m2
    have q1 := (remove_spec a x m1 hinv).2.2.2.2.2.1
    have q2 := (remove_spec a x m2 hinv).2.2.2.2.2.1
    simp only [step, p1, p2]; exact ⟨by triv, p3, by rw [q1, q2]; exact h⟩
  | removeAt i =>
    obtain ⟨p1, p2, p3⟩ := pure_removeAt a i m1 m2
    have q1 := (removeAt_spec a i m1 hinv).2.2.2.2.2.1
    have q2 := (removeAt_spec a i m2 hinv).2.2.2.2.2.1
    simp only [step, p1, p2]; exact ⟨by triv, p3, by rw [q1, q2]; exact h⟩
  | removeLast =>
    obtain ⟨p1, p2, p3⟩ := pure_removeAt a (Spec.Seq.wdec a.size) m1 m2
    have q1 := (removeLast_spec a m1 hinv).2.2.2.2.2.1
    have q2 := (removeLast_spec a m2 hinv).2.2.2.2.2.1
    simp only [step]
    exact ⟨by show (_ : Out) = _; simp only [removeLast, p1, p2], p3, by rw [q1, q2]; exact h⟩
  | removeAll => simp only [step]; exact ⟨by triv, by triv, h⟩
  | removeAllFree =>
    have q1 := (removeAllFree_spec a m1 hinv).2.2.2.2
    have q2 := (removeAllFree_spec a m2 hinv).2.2.2.2
    simp only [step]; exact ⟨by triv, by triv, by rw [q1, q2]; exact h⟩
  | reverse =>
    have q1 := (reverse_spec a m1 hinv).2.2.2
    have q2 := (reverse_spec a m2 hinv).2.2.2
    simp only [step]; exact ⟨by triv, pure_reverse a m1 m2, by rw [q1, q2]; exact h⟩
  | filterMut =>
    obtain ⟨p1, p2, p3⟩ := pure_filterMut cfg.pred a m1 m2
    have q1 := (filterMut_spec cfg.pred a m1 hinv).2.2.2.2.1
    have q2 := (filterMut_spec cfg.pred a m2 hinv).2.2.2.2.1
    simp only [step, p1, p3]; exact ⟨by triv, p2, by rw [q1, q2]; exact h⟩
  | sort =>
    simp only [step, sort, Mem.check_sched]; exact ⟨by triv, by triv, h⟩
  | getAt i =>
    obtain ⟨p1, p2⟩ := pure_getAt a i m1 m2
    have q1 := (getAt_spec a i m1 hinv).2.2.1
    have q2 := (getAt_spec a i m2 hinv).2.2.1
    simp only [step, p1, p2]; exact ⟨by triv, by triv, by rw [q1, q2]; exact h⟩
  | getLast =>
    obtain ⟨p1, p2⟩ := pure_getLast a m1 m2
    have q1 := (getLast_spec a m1 hinv).2.2.1
    have q2 := (getLast_spec a m2 hinv).2.2.1
    simp only [step, p1, p2]; exact ⟨by triv, by triv, by rw [q1, q2]; exact h⟩
  | indexOf x =>
    obtain ⟨p1, p2⟩ := pure_indexOf a x m1 m2
    have q1 := (indexOf_spec a x m1 hinv).2.2.1
    have q2 := (indexOf_spec a x m2 hinv).2.2.1
    simp only [step, p1, p2]; exact ⟨by triv, by triv, by rw [q1, q2]; exact h⟩
  | contains x => simp only [step, contains, Mem.check_sched]; exact ⟨by triv, by triv, h⟩
  | containsValue x => simp only [step, containsValue, Mem.check_sched]; exact ⟨by triv, by triv, h⟩
  | size => simp only [step]; exact ⟨by triv, by triv, h⟩
  | map => simp only [step, map, Mem.check_sched]; exact ⟨by triv, by triv, h⟩
  | reduce r0 =>
    obtain ⟨p1, p2⟩ := pure_reduce cfg.fn a r0 m1 m2
    have q1 := (reduce_spec cfg.fn a r0 m1 hinv).2.2
    have q2 := (reduce_spec cfg.fn a r0 m2 hinv).2.2
    simp only [step, p1, p2]; exact ⟨by triv, by triv, by rw [q1, q2]; exact h⟩

/-- histories: `libc` is never touched, and the number of refusals counted equals the number of
calls that reported `CC_ERR_ALLOC` -/
theorem run_led (cfg : Cfg) (ops : List Op) : ∀ (a : Arr) (m : Mem), a.Inv → 0 < m.live →
    (∀ xs, (cfg.sortFn xs).length = xs.length) →
    (a.run cfg ops m).2.2.libc = m.libc ∧
    (a.run cfg ops m).2.2.nrefused = m.nrefused + ((a.run cfg ops m).1.filter (fun o => decide (o.st = some .errAlloc))).length := by
  induction ops with
  | nil => intro a m _ _ _; exact ⟨rfl, rfl⟩
  | cons op ops ih =>
    intro a m hinv hlive hsort
    obtain ⟨_, _, _, s4, s5, _⟩ := step_spec cfg a op m hinv hlive hsort
    obtain ⟨l1, l2⟩ := step_led cfg a op m hinv
    obtain ⟨i1, i2⟩ := ih (a.step cfg op m).2.1 (a.step cfg op m).2.2 s4 (by omega) hsort
    simp only [Arr.run, List.filter_cons]
    refine ⟨by rw [i1, l1], ?_⟩
    rw [i2, l2]
    split <;> simp <;> omega

theorem run_indep (cfg : Cfg) (ops : List Op) : ∀ (a : Arr) (m1 m2 : Mem), a.Inv → 0 < m1.live → 0 < m2.live →
    (∀ xs, (cfg.sortFn xs).length = xs.length) → m1.sched = m2.sched →
    (a.run cfg ops m1).1 = (a.run cfg ops m2).1 ∧ (a.run cfg ops m1).2.1 = (a.run cfg ops m2).2.1 ∧
    (a.run cfg ops m1).2.2.sched = (a.run cfg ops m2).2.2.sched := by
  induction ops with
  | nil => intro a m1 m2 _ _ _ _ h; exact ⟨rfl, rfl, h⟩
  | cons op ops ih =>
    intro a m1 m2 hinv hl1 hl2 hsort h
    obtain ⟨e1, e2, e3⟩ := step_indep cfg a op m1 m2 hinv h
    obtain ⟨_, _, _, s4, s5, _⟩ := step_spec cfg a op m1 hinv hl1 hsort
    obtain ⟨_, _, _, _, t5, _⟩ := step_spec cfg a op m2 hinv hl2 hsort
    simp only [Arr.run]
    rw [e1]
    have := ih (a.step cfg op m1).2.1 (a.step cfg op m1).2.2 (a.step cfg op m2).2.2 s4 (by omega) (by omega) hsort e3
    rw [e2] at this ⊢
    exact ⟨by rw [this.1], this.2.1, this.2.2⟩

theorem run_append (cfg : Cfg) (ops1 ops2 : List Op) : ∀ (a : Arr) (m : Mem),
    (a.run cfg (ops1 ++ ops2) m).1 = (a.run cfg ops1 m).1 ++ ((a.run cfg ops1 m).2.1.run cfg ops2 (a.run cfg ops1 m).2.2).1 ∧
    (a.run cfg (ops1 ++ ops2) m).2 = ((a.run cfg ops1 m).2.1.run cfg ops2 (a.run cfg ops1 m).2.2).2 := by
  induction ops1 with
  | nil => intro a m; exact ⟨rfl, rfl⟩
  | cons op ops ih =>
    intro a m
    obtain ⟨i1, i2⟩ := ih (a.step cfg op m).2.1 (a.step cfg op m).2.2
    simp only [List.cons_append, Arr.run]
    exact ⟨by rw [i1], i2⟩

/-- iterator programs: ledger effect and allocator independence of one iterator call -/
theorem iterStep_led (a : Arr) (it : ArrIter) (op : IterOp) (m : Mem) (hinv : a.Inv) (c : Spec.Seq.Cursor)
    (hs : Sim a it c) :
    Led m (a.iterStep it op m).2.2.2 (decide ((a.iterStep it op m).1.st = some .errAlloc)) := by
  cases op with
  | next =>
    obtain ⟨r1, _, _, r4⟩ := iterNext_sim a it c m hinv hs
    have : (a.iterNext it m).1 ≠ .errAlloc := by
      rw [r1]; unfold Spec.Seq.Cursor.next; split <;> simp
    simp only [iterStep, r4]; simp [this]; exact Led.rfl' m
  | remove =>
    obtain ⟨r1, _, _, _, _, r6, _⟩ := iterRemove_sim a it c m hinv hs
    have : (a.iterRemove it m).1 ≠ .errAlloc := by
      rw [r1]; unfold Spec.Seq.Cursor.remove; split
      · simp
      · split <;> simp
    simp only [iterStep, r6]; simp [this]; exact Led.rfl' m
  | add x => have := iterAdd_led a it x m; simpa [iterStep] using this
  | replace x =>
    obtain ⟨r1, _, _, _, _, r6, _⟩ := iterReplace_sim a it c x m hinv hs
    have : (a.iterReplace it x m).1 ≠ .errAlloc := by
      rw [r1]; unfold Spec.Seq.Cursor.replace; split <;> simp
    simp only [iterStep, r6]; simp [this]; exact Led.rfl' m
  | index => simp only [iterStep]; exact Led.rfl' m

end CC.Arr
