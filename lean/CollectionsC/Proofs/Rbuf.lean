import CollectionsC.Base.Word
import CollectionsC.Spec.Fifo
import CollectionsC.Model.Rbuf
namespace CC.Rbuf
open CC

theorem new_ok (cap : Nat) (m : Mem) (r : Rbuf) (m' : Mem) (hc : 0 < cap)
    (h : Rbuf.new cap m = (.ok, some r, m')) : r.Inv ∧ r.abs = [] ∧ m'.live = m.live + 2 := by
  unfold Rbuf.new Rbuf.newT at h
  simp only [Mem.allocT_conf, Mem.freeT_conf] at h
  cases h1 : m.alloc.1
  · simp [h1] at h
  · cases h2 : m.alloc.2.alloc.1
    · simp [h1, h2] at h
    · simp only [h1, h2, Bool.not_true, Bool.false_eq_true, if_false, Prod.mk.injEq, Option.some.injEq, true_and] at h
      obtain ⟨hr, hm⟩ := h
      subst hr hm
      have e1 := Mem.alloc_fst_true m h1
      have e2 := Mem.alloc_fst_true m.alloc.2 h2
      refine ⟨⟨hc, by simp, by simp, hc, by simp⟩, by simp [abs], by omega⟩

theorem enqueue_inv (r : Rbuf) (x : Nat) (m : Mem) (h : r.Inv) : (r.enqueue x m).1.Inv := by
  obtain ⟨hc, hl, hs, ht, hh⟩ := h
  have c0 := mod_cases (x := r.tail + r.size) (c := r.cap) (by omega)
  have c1 := mod_cases (x := r.head + 1) (c := r.cap) (by omega)
  have c2 := mod_cases (x := r.tail + 1) (c := r.cap) (by omega)
  unfold enqueue Inv
  simp only [Buf.length_put]
  refine ⟨hc, hl, ?_, ?_, ?_⟩
  · split <;> omega
  · split <;> omega
  · by_cases hfull : r.size = r.cap
    · simp only [hfull, if_true, Nat.lt_irrefl, if_false]
      have c3 := mod_cases (x := (r.tail + 1) % r.cap + r.cap) (c := r.cap) (by omega)
      omega
    · have : r.size < r.cap := by omega
      simp only [hfull, if_false, this, if_true]
      have c3 := mod_cases (x := r.tail + (r.size + 1)) (c := r.cap) (by omega)
      omega

theorem enqueue_nofault (r : Rbuf) (x : Nat) (m : Mem) (h : r.Inv) :
    (r.enqueue x m).2 = m := by
  obtain ⟨hc, hl, hs, ht, hh⟩ := h
  have hhead : r.head < r.buf.length := by rw [hh, hl]; exact Nat.mod_lt _ hc
  have : (r.cap != 0) = true := by simp; omega
  simp [enqueue, this, hhead]

theorem abs_length (r : Rbuf) : r.abs.length = r.size := by simp [abs]

theorem enqueue_abs (r : Rbuf) (x : Nat) (m : Mem) (h : r.Inv) :
    (r.enqueue x m).1.abs = ((Spec.Fifo.mk r.cap r.abs).enqueue x).items := by
  obtain ⟨hc, hl, hs, ht, hh⟩ := h
  have c0 := mod_cases (x := r.tail + r.size) (c := r.cap) (by omega)
  have c2 := mod_cases (x := r.tail + 1) (c := r.cap) (by omega)
  unfold Spec.Fifo.enqueue
  simp only [abs_length]
  by_cases hfull : r.size = r.cap
  · have hnl : ¬ r.cap < r.cap := Nat.lt_irrefl _
    simp only [hfull, hnl, if_false]
    apply List.ext_getElem
    · simp [abs, enqueue, hfull]; omega
    · intro i h1 h2
      simp only [abs, enqueue, hfull, if_true, hnl, if_false, List.getElem_map, List.getElem_range,
        List.length_map, List.length_range] at h1 ⊢
      have c3 := mod_cases (x := (r.tail + 1) % r.cap + i) (c := r.cap) (by omega)
      rw [List.getElem_append]
      simp only [List.length_tail, List.length_map, List.length_range, hfull]
      split
      · rename_i hi
        simp only [List.getElem_tail, List.getElem_map, List.getElem_range]
        have c4 := mod_cases (x := r.tail + (i + 1)) (c := r.cap) (by omega)
        rw [Buf.get_put_ne _ _ _ _ (by omega)]
        congr 1; omega
      · rename_i hi
        simp only [List.getElem_singleton]
        have : ((r.tail + 1) % r.cap + i) % r.cap = r.head := by omega
        rw [this, Buf.get_put_eq]; omega
  · have hlt : r.size < r.cap := by omega
    simp only [hlt, if_true]
    apply List.ext_getElem
    · simp [abs, enqueue, hfull, hlt]
    · intro i h1 h2
      simp only [abs, enqueue, hfull, hlt, if_true, if_false, List.getElem_map, List.getElem_range,
        List.length_map, List.length_range] at h1 ⊢
      have c3 := mod_cases (x := r.tail + i) (c := r.cap) (by omega)
      rw [List.getElem_append]
      simp only [List.length_map, List.length_range]
      split
      · rename_i hi
        simp only [List.getElem_map, List.getElem_range]
        rw [Buf.get_put_ne _ _ _ _ (by omega)]
      · simp only [List.getElem_singleton]
        have : (r.tail + i) % r.cap = r.head := by omega
        rw [this, Buf.get_put_eq]; omega

end CC.Rbuf

namespace CC.Rbuf
open CC

theorem dequeue_empty (r : Rbuf) (m : Mem) (h : r.size = 0) :
    r.dequeue m = (.errOutOfRange, none, r, m) := by simp [dequeue, h]

theorem dequeue_inv (r : Rbuf) (m : Mem) (h : r.Inv) : (r.dequeue m).2.2.1.Inv := by
  obtain ⟨hc, hl, hs, ht, hh⟩ := h
  unfold dequeue
  split
  · exact ⟨hc, hl, hs, ht, hh⟩
  · have c0 := mod_cases (x := r.tail + r.size) (c := r.cap) (by omega)
    have c1 := mod_cases (x := r.tail + 1) (c := r.cap) (by omega)
    have c2 := mod_cases (x := (r.tail + 1) % r.cap + (r.size - 1)) (c := r.cap) (by omega)
    refine ⟨hc, hl, ?_, ?_, ?_⟩ <;> simp only <;> omega

theorem dequeue_nofault (r : Rbuf) (m : Mem) (h : r.Inv) : (r.dequeue m).2.2.2 = m := by
  obtain ⟨hc, hl, hs, ht, hh⟩ := h
  unfold dequeue
  split
  · rfl
  · have : (r.cap != 0) = true := by simp; omega
    have : decide (r.tail < r.buf.length) = true := by simp; omega
    simp [*]

theorem dequeue_refines (r : Rbuf) (m : Mem) (h : r.Inv) :
    let res := r.dequeue m
    let sres := (Spec.Fifo.mk r.cap r.abs).dequeue
    res.1 = sres.1 ∧ res.2.1 = sres.2.1 ∧ res.2.2.1.abs = sres.2.2.items := by
  obtain ⟨hc, hl, hs, ht, hh⟩ := h
  by_cases h0 : r.size = 0
  · simp [dequeue, h0, abs, Spec.Fifo.dequeue]
  · have habs : r.abs = r.buf.get r.tail :: (List.range (r.size - 1)).map (fun i => r.buf.get (((r.tail + 1) % r.cap + i) % r.cap)) := by
      apply List.ext_getElem
      · simp [abs]; omega
      · intro i h1 h2
        simp only [abs, List.getElem_map, List.getElem_range]
        cases i with
        | zero => simp [Nat.mod_eq_of_lt ht]
        | succ j =>
          simp only [List.getElem_cons_succ, List.getElem_map, List.getElem_range]
          simp [abs] at h1
          have c1 := mod_cases (x := r.tail + 1) (c := r.cap) (by omega)
          have c2 := mod_cases (x := (r.tail + 1) % r.cap + j) (c := r.cap) (by omega)
          have c3 := mod_cases (x := r.tail + (j + 1)) (c := r.cap) (by omega)
          congr 1; omega
    simp only [dequeue, h0, if_false, Spec.Fifo.dequeue, habs]
    simp [abs]

end CC.Rbuf
