import CollectionsC.Proofs.DList
/-! `cc_list.c` model, part 2: reverse, array export, qsort-based sort, reduce, in-place filter. -/
namespace CC.DList
open CC Chain
open CC.Spec

/-- state of the reversal loop after the outer `i` positions on both sides have been exchanged -/
def RevInv (xs : List Nat) (i : Nat) (l : Chain) : Prop :=
  l.nodes.length = xs.length ∧
  ∀ j, j < xs.length → l.nodes.getD j 0 = if j < i ∨ xs.length - i ≤ j then xs.getD (xs.length - 1 - j) 0 else xs.getD j 0

/-- where a node pointer ends up after the exchanges `i … i+k-1` -/
def mir (n i k : Nat) (q : Ptr) : Ptr :=
  match q with
  | none => none
  | some p => if (i ≤ p ∧ p < i + k) ∨ (n - i - k ≤ p ∧ p < n - i) then some (n - 1 - p) else some p

theorem reverseLoop_spec (xs : List Nat) : ∀ (k i : Nat) (l : Chain) (left right ho to : Ptr) (m : Mem),
    RevInv xs i l → i + k = xs.length / 2 →
    (0 < k → left = some i ∧ right = some (xs.length - 1 - i)) →
    ∃ l', reverseLoop k l left right ho to m = (l', mir xs.length i k ho, mir xs.length i k to, m) ∧
      RevInv xs (i + k) l' ∧ l'.size = l.size ∧ l'.triple = l.triple
  | 0, i, l, left, right, ho, to, m, hinv, _, _ => by
    refine ⟨l, ?_, hinv, rfl, rfl⟩
    have e : ∀ q, mir xs.length i 0 q = q := by
      intro q; cases q with
      | none => rfl
      | some p => simp only [mir]; rw [if_neg (by omega)]
    simp [reverseLoop, e]
  | k + 1, i, l, left, right, ho, to, m, hinv, hk, hlr => by
    obtain ⟨hl, hr⟩ := hlr (by omega)
    subst hl hr
    have hn := hinv.1
    have h1 : i < xs.length := by omega
    have h2 : xs.length - 1 - i < xs.length := by omega
    simp only [reverseLoop, Ptr.valid, hn, h1, h2, decide_true, Bool.and_self, Mem.check_true, Ptr.pos, Option.getD_some]
    have hsw : ∀ q : Ptr, mir xs.length (i + 1) k (q.swapPtr i (xs.length - 1 - i)) = mir xs.length i (k + 1) q := by
      intro q
      cases q with
      | none => rfl
      | some p =>
        simp only [Ptr.swapPtr, mir]
        by_cases c1 : p = i
        · subst c1; rw [if_pos rfl]; simp only []; rw [if_neg (by omega), if_pos (by omega)]
        · rw [if_neg c1]
          by_cases c2 : p = xs.length - 1 - i
          · rw [if_pos c2]; simp only []; rw [if_neg (by omega), if_pos (by omega)]; congr 1; omega
          · rw [if_neg c2]; simp only []
            by_cases c3 : (i + 1 ≤ p ∧ p < i + 1 + k) ∨ (xs.length - (i + 1) - k ≤ p ∧ p < xs.length - (i + 1))
            · rw [if_pos c3, if_pos (by omega)]
            · rw [if_neg c3, if_neg (by omega)]
    obtain ⟨l', e, hinv', hs, htr⟩ := reverseLoop_spec xs k (i + 1) (l.swapNodes i (xs.length - 1 - i))
      ((Ptr.next xs.length (some i)).swapPtr i (xs.length - 1 - i))
      ((Ptr.prev (some (xs.length - 1 - i))).swapPtr i (xs.length - 1 - i))
      (ho.swapPtr i (xs.length - 1 - i)) (to.swapPtr i (xs.length - 1 - i)) m
      (by
        refine ⟨by simp [Chain.swapNodes, hn], ?_⟩
        intro j hj
        simp only [Chain.swapNodes, getD_set, List.length_set, hn]
        have e1 := hinv.2 i h1
        have e2 := hinv.2 (xs.length - 1 - i) h2
        have e3 := hinv.2 j hj
        rw [if_neg (by omega)] at e1 e2
        by_cases c1 : xs.length - 1 - i = j
        · simp only [c1, true_and, hj, if_true]
          rw [e1, if_pos (by omega)]; congr 1; omega
        · by_cases c2 : i = j
          · subst c2
            simp only [c1, false_and, if_false, true_and, h1, if_true]
            rw [e2, if_pos (by omega)]
          · simp only [c1, c2, false_and, if_false]
            rw [e3]
            by_cases c3 : j < i ∨ xs.length - i ≤ j
            · rw [if_pos c3, if_pos (by omega)]
            · rw [if_neg c3, if_neg (by omega)])
      (by omega)
      (by
        intro hk0
        have a1 : i + 1 < xs.length := by omega
        have a2 : xs.length - 1 - i ≠ 0 := by omega
        simp only [Ptr.next, a1, if_true, Ptr.prev, a2, if_false, Ptr.swapPtr]
        rw [if_neg (by omega), if_neg (by omega), if_neg (by omega), if_neg (by omega)]
        constructor <;> congr 1 <;> omega)
    rw [hsw, hsw] at e
    refine ⟨l', e, ?_, by rw [hs]; rfl, by rw [htr]; rfl⟩
    have : i + 1 + k = i + (k + 1) := by omega
    rw [← this]; exact hinv'

theorem reverse_ofList (xs : List Nat) (m : Mem) : reverse (ofList t xs) m = (ofList t xs.reverse, m) := by
  unfold reverse
  by_cases h : xs.length < 2
  · have : xs.reverse = xs := by
      match xs, h with
      | [], _ => rfl
      | [a], _ => rfl
    rw [this]
    rcases (show xs.length = 0 ∨ xs.length = 1 by omega) with h' | h' <;> simp [h']
  · have h' : ¬ (xs.length = 0 ∨ xs.length = 1) := by omega
    have h0 : xs.length ≠ 0 := by omega
    rw [if_neg (by
      simp only [ofList_size, Bool.or_eq_true]
      intro hc; rcases hc with hc | hc <;> (have := of_decide_eq_true hc; omega))]
    simp only [ofList_size]
    obtain ⟨l', e, hinv, hs, htr⟩ := reverseLoop_spec xs (xs.length / 2) 0 (ofList t xs) (ofList t xs).head (ofList t xs).tail
      (ofList t xs).head (ofList t xs).tail m ⟨rfl, by intro j hj; rw [if_neg (by omega)]; rfl⟩ (by omega)
      (by intro _; simp [ofList, h0])
    rw [e]
    have hnodes : l'.nodes = xs.reverse := by
      apply ext_getD (by simp [hinv.1])
      intro j hj
      rw [hinv.1] at hj
      rw [hinv.2 j hj]
      have hr : xs.reverse.getD j 0 = xs.getD (xs.length - 1 - j) 0 := by
        simp only [List.getD_eq_getElem?_getD]
        rw [List.getElem?_reverse hj]
      rw [hr]
      split
      · rfl
      · congr 1; omega
    have hsz : l'.size = xs.length := by rw [hs]; rfl
    have htr' : l'.triple = t := by rw [htr]; rfl
    have hh : (ofList t xs).head = some 0 := by simp [ofList, h0]
    have ht : (ofList t xs).tail = some (xs.length - 1) := by simp [ofList, h0]
    have m1 : mir xs.length 0 (xs.length / 2) (some (xs.length - 1)) = some 0 := by
      simp only [mir]; rw [if_pos (by omega)]; congr 1; omega
    have m2 : mir xs.length 0 (xs.length / 2) (some 0) = some (xs.length - 1) := by
      simp only [mir]; rw [if_pos (by omega)]; congr 1
    rw [hh, ht, m1, m2]
    cases l'
    simp only [ofList, List.length_reverse, h0, if_false] at hnodes hsz htr' ⊢
    simp [hnodes, hsz, htr']

theorem toArray_ofList (xs : List Nat) (m : Mem) :
    toArray (ofList t xs) m =
      if (LSeq.toArray false xs).1 = .ok then
        (if (m.allocT t).1 then (.ok, (LSeq.toArray false xs).2, (m.allocT t).2) else (.errAlloc, none, (m.allocT t).2))
      else ((LSeq.toArray false xs).1, none, m) := by
  unfold toArray LSeq.toArray
  cases xs with
  | nil => simp
  | cons y ys =>
    simp only [ofList_size, List.length_cons, Nat.add_one_ne_zero, if_false]
    simp only [ofList_triple]
    by_cases ha : (m.allocT t).1 = true
    case neg => simp [ha]
    case pos =>
      simp only [ha, Bool.not_true, Bool.false_eq_true, if_false, if_true]
      rw [ofList_head_ptrAt, collect_ofList _ _ _ 0 (by simp)]
      simp

theorem sort_ofList (sortFn : List Nat → List Nat) (hlen : ∀ l, (sortFn l).length = l.length) (xs : List Nat) (m : Mem) :
    sort sortFn (ofList t xs) m =
      if (LSeq.sort false sortFn xs).1 = .ok then
        (if (m.allocT t).1 then (.ok, ofList t (LSeq.sort false sortFn xs).2, ((m.allocT t).2.freeT t)) else (.errAlloc, ofList t xs, (m.allocT t).2))
      else ((LSeq.sort false sortFn xs).1, ofList t xs, m) := by
  unfold sort
  rw [toArray_ofList]
  unfold LSeq.toArray LSeq.sort
  cases xs with
  | nil => simp
  | cons y ys =>
    simp only [reduceCtorEq, false_and, if_false, if_true]
    simp only [ofList_triple]
    by_cases ha : (m.allocT t).1 = true
    case neg => simp [ha]
    case pos =>
      simp only [ha, if_true, ofList_size]
      rw [ofList_head_ptrAt]
      obtain ⟨l', e, h1, h2, h3, h4, h5, h6⟩ := writeBack_spec (y :: ys).length (sortFn (y :: ys)) (m.allocT t).2
        (y :: ys).length 0 (ofList t (y :: ys)) rfl (by omega) (by rw [hlen]; exact Nat.le_refl _)
      rw [e]
      have hnodes : l'.nodes = sortFn (y :: ys) := by
        apply ext_getD (by rw [h1, hlen])
        intro j hj
        rw [h1] at hj
        rw [h2 j hj, if_pos (by omega)]
      cases l'
      simp only [ofList, hlen] at *
      simp [hnodes, h3, h4, h5, h6]
theorem reduce_ofList (f : Nat → Nat → Nat) (xs : List Nat) (m : Mem) :
    reduce f (ofList t xs) m = ((LSeq.reduce f xs).1, (LSeq.reduce f xs).2.1, (LSeq.reduce f xs).2.2, m) := by
  unfold reduce
  match xs with
  | [] => simp [LSeq.reduce]
  | [a] => simp [LSeq.reduce, ofList, Ptr.valid, Chain.data, Ptr.pos]
  | a :: b :: rest =>
    simp [LSeq.reduce, ofList, Ptr.valid, Chain.data, Ptr.pos, Ptr.next, Chain.walk]
    cases rest <;> simp

theorem eraseIdx_append_cons (kept : List Nat) (y : Nat) (ys : List Nat) :
    (kept ++ y :: ys).eraseIdx kept.length = kept ++ ys := by
  induction kept with
  | nil => rfl
  | cons k ks ih => simp [ih]

theorem filterMutLoop_ofList (p : Nat → Bool) : ∀ (rest kept : List Nat) (k : Nat) (m : Mem), rest.length ≤ k →
    filterMutLoop p k (ofList t (kept ++ rest)) (ptrAt (kept.length + rest.length) kept.length) m =
      (ofList t (kept ++ rest.filter p), Mem.freeN t (rest.length - (rest.filter p).length) m)
  | [], kept, k, m, _ => by
    cases k <;> simp [filterMutLoop, ptrAt, Mem.freeN]
  | y :: ys, kept, 0, m, h => by simp at h
  | y :: ys, kept, k + 1, m, h => by
    have hlt : kept.length < kept.length + (y :: ys).length := by simp
    rw [ptrAt_lt _ _ hlt]
    have hd : (kept ++ y :: ys).getD kept.length 0 = y := by simp
    simp only [filterMutLoop, ofList_nodes, List.length_append, Ptr.valid, hlt, decide_true, Mem.check_true, data_some, hd]
    by_cases hp : p y
    · simp only [hp, Bool.not_true, Bool.false_eq_true, if_false]
      have e1 : Ptr.next (kept.length + (y :: ys).length) (some kept.length) =
          ptrAt ((kept ++ [y]).length + ys.length) (kept ++ [y]).length := by
        simp only [Ptr.next, ptrAt, List.length_append, List.length_cons, List.length_nil]
        by_cases c : kept.length + 1 < kept.length + (ys.length + 1)
        · rw [if_pos c, if_pos (by omega)]
        · rw [if_neg c, if_neg (by omega)]
      have e2 : kept ++ y :: ys = (kept ++ [y]) ++ ys := by simp
      rw [e1, e2, filterMutLoop_ofList p ys (kept ++ [y]) k m (by simpa using h)]
      simp [hp]
    · simp only [hp, Bool.not_false, if_true]
      rw [unlinkn_ofList _ _ _ (by simp)]
      have e1 : (Ptr.next (kept.length + (y :: ys).length) (some kept.length)).shiftDel kept.length =
          ptrAt (kept.length + ys.length) kept.length := by
        simp only [Ptr.next, ptrAt, List.length_cons]
        by_cases c : kept.length + 1 < kept.length + (ys.length + 1)
        · rw [if_pos c, if_pos (by omega)]; simp [Ptr.shiftDel]
        · rw [if_neg c, if_neg (by omega)]; rfl
      rw [e1, eraseIdx_append_cons, filterMutLoop_ofList p ys kept k (m.freeT t) (by simpa using h)]
      have hle : (ys.filter p).length ≤ ys.length := List.length_filter_le _ _
      simp only [List.filter_cons, hp, Bool.false_eq_true, if_false, List.length_cons]
      rw [show ys.length + 1 - (List.filter p ys).length = (ys.length - (List.filter p ys).length) + 1 by omega]
      simp [Mem.freeN]

theorem filterMut_ofList (p : Nat → Bool) (xs : List Nat) (m : Mem) :
    filterMut p (ofList t xs) m =
      ((LSeq.filterMut p xs).1, ofList t (LSeq.filterMut p xs).2, Mem.freeN t (xs.length - (xs.filter p).length) m) := by
  unfold filterMut LSeq.filterMut
  cases xs with
  | nil => simp [Mem.freeN]
  | cons y ys =>
    simp only [ofList_size, List.length_cons, Nat.add_one_ne_zero, if_false, ofList_nodes, reduceCtorEq]
    rw [ofList_head_ptrAt]
    have := filterMutLoop_ofList (t := t) p (y :: ys) [] (ys.length + 1) m (by simp)
    simp only [List.nil_append, List.length_nil, Nat.zero_add, List.length_cons] at this ⊢
    rw [this]

end CC.DList
