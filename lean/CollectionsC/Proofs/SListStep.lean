import CollectionsC.Proofs.DListStep
import CollectionsC.Proofs.SListIter
/-! One history step of the singly linked list model refines one step of the ideal pair of lists
(bundle used by `Properties/C04.lean`). -/
namespace CC
open CC Chain
open CC.Spec
open CC.Spec.LSeq (Op Out Params)

namespace SList

theorem step_ok_aux (P : Params) (t1 t2 : Triple) (a b : List Nat) (m : Mem) (hlive : a.length ≤ m.liveT t1) : ∀ (op : Op),
    ((op = .splice ∨ ∃ i, op = .spliceAt i) → t1 = t2) →
    ∃ a' b' t1' t2', StepOk false P t1 t2 a b op m (step P (ofList t1 a, ofList t2 b) op m) a' b' t1' t2'
  | .addFirst x, _ => by
    by_cases ha : (m.allocT t1).1 = true
    · exact ⟨x :: a, b, t1, t2, StepOk.of { st := some .ok } _ (m.allocT t1).2 1 0 (by simp [step, addFirst_ofList, ha, LSeq.addFirst]) (by simp)
        (by intro _; simp [LSeq.step, LSeq.addFirst]) (Mem.eff_alloc_true t1 m ha) (by simp; omega) (by intro _; simp)⟩
    · have ha' : (m.allocT t1).1 = false := by simpa using ha
      exact ⟨a, b, t1, t2, StepOk.of { st := some .errAlloc } _ (m.allocT t1).2 0 0 (by simp [step, addFirst_ofList, ha']) (by simp)
        (by simp) (Mem.eff_alloc_false t1 m ha') rfl (by intro hs; simp_all [Mem.allocT_nil m t1 hs, Mem.allocChain_nil t1 _ 0 m hs])⟩
  | .addLast x, _ => by
    by_cases ha : (m.allocT t1).1 = true
    · exact ⟨a ++ [x], b, t1, t2, StepOk.of { st := some .ok } _ (m.allocT t1).2 1 0 (by simp [step, addLast_ofList, ha, LSeq.addLast]) (by simp)
        (by intro _; simp [LSeq.step, LSeq.addLast]) (Mem.eff_alloc_true t1 m ha) (by simp; omega) (by intro _; simp)⟩
    · have ha' : (m.allocT t1).1 = false := by simpa using ha
      exact ⟨a, b, t1, t2, StepOk.of { st := some .errAlloc } _ (m.allocT t1).2 0 0 (by simp [step, addLast_ofList, ha']) (by simp)
        (by simp) (Mem.eff_alloc_false t1 m ha') rfl (by intro hs; simp_all [Mem.allocT_nil m t1 hs, Mem.allocChain_nil t1 _ 0 m hs])⟩
  | .addAt x i, _ => by
    by_cases hi : i < a.length
    · by_cases ha : (m.allocT t1).1 = true
      · exact ⟨a.insertIdx i x, b, t1, t2, StepOk.of { st := some .ok } _ (m.allocT t1).2 1 0
          (by simp [step, addAt_ofList, ha, LSeq.addAt, hi]) (by simp)
          (by intro _; simp [LSeq.step, LSeq.addAt, hi]) (Mem.eff_alloc_true t1 m ha)
          (by simp [List.length_insertIdx, Nat.le_of_lt hi]; omega) (by intro _; simp)⟩
      · have ha' : (m.allocT t1).1 = false := by simpa using ha
        exact ⟨a, b, t1, t2, StepOk.of { st := some .errAlloc } _ (m.allocT t1).2 0 0
          (by simp [step, addAt_ofList, ha', LSeq.addAt, hi]) (by simp)
          (by simp) (Mem.eff_alloc_false t1 m ha') rfl (by intro hs; simp_all [Mem.allocT_nil m t1 hs, Mem.allocChain_nil t1 _ 0 m hs])⟩
    · exact ⟨a, b, t1, t2, StepOk.of { st := some .errOutOfRange } _ m 0 0 (by simp [step, addAt_ofList, LSeq.addAt, hi]) (by simp)
        (by intro _; simp [LSeq.step, LSeq.addAt, hi]) (Mem.Eff.rfl' t1 m) rfl (by intro _; simp)⟩
  | .addAll, _ => by
    by_cases hy : b = []
    · exact ⟨a, b, t1, t2, StepOk.of { st := some .ok } _ m 0 0 (by simp [step, addAll_ofList, hy]) (by simp)
        (by intro _; simp [LSeq.step, LSeq.addAll, hy]) (Mem.Eff.rfl' t1 m) rfl (by intro _; simp)⟩
    · by_cases ha : (m.allocChain t1 b.length 0).1 = true
      · exact ⟨a ++ b, b, t1, t2, StepOk.of { st := some .ok } _ (m.allocChain t1 b.length 0).2 b.length 0
          (by simp [step, addAll_ofList, hy, ha, LSeq.addAll]) (by simp)
          (by intro _; simp [LSeq.step, LSeq.addAll]) (Mem.eff_allocChain_true t1 m _ ha) (by simp) (by intro _; simp)⟩
      · have ha' : (m.allocChain t1 b.length 0).1 = false := by simpa using ha
        exact ⟨a, b, t1, t2, StepOk.of { st := some .errAlloc } _ (m.allocChain t1 b.length 0).2 0 0
          (by simp [step, addAll_ofList, hy, ha']) (by simp) (by simp) (Mem.eff_allocChain_false t1 m _ ha') rfl (by intro hs; simp_all [Mem.allocT_nil m t1 hs, Mem.allocChain_nil t1 _ 0 m hs])⟩
  | .addAllAt i, _ => by
    by_cases hy : b = []
    · exact ⟨a, b, t1, t2, StepOk.of { st := some .ok } _ m 0 0 (by simp [step, addAllAt_ofList, LSeq.addAllAt, hy]) (by simp)
        (by intro _; simp [LSeq.step, LSeq.addAllAt, hy]) (Mem.Eff.rfl' t1 m) rfl (by intro _; simp)⟩
    · by_cases hi : i < a.length
      · by_cases ha : (m.allocChain t1 b.length 0).1 = true
        · exact ⟨a.take i ++ b ++ a.drop i, b, t1, t2, StepOk.of { st := some .ok } _ (m.allocChain t1 b.length 0).2 b.length 0
            (by simp [step, addAllAt_ofList, LSeq.addAllAt, hy, hi, ha]) (by simp)
            (by intro _; simp [LSeq.step, LSeq.addAllAt, hy, hi]) (Mem.eff_allocChain_true t1 m _ ha)
            (by simp [List.length_take, List.length_drop]; omega) (by intro _; simp)⟩
        · have ha' : (m.allocChain t1 b.length 0).1 = false := by simpa using ha
          exact ⟨a, b, t1, t2, StepOk.of { st := some .errAlloc } _ (m.allocChain t1 b.length 0).2 0 0
            (by simp [step, addAllAt_ofList, LSeq.addAllAt, hy, hi, ha']) (by simp) (by simp)
            (Mem.eff_allocChain_false t1 m _ ha') rfl (by intro hs; simp_all [Mem.allocT_nil m t1 hs, Mem.allocChain_nil t1 _ 0 m hs])⟩
      · exact ⟨a, b, t1, t2, StepOk.of { st := some .errOutOfRange } _ m 0 0
          (by simp [step, addAllAt_ofList, LSeq.addAllAt, hy, hi]) (by simp)
          (by intro _; simp [LSeq.step, LSeq.addAllAt, hy, hi]) (Mem.Eff.rfl' t1 m) rfl (by intro _; simp)⟩
  | .splice, hc => by
    by_cases hy : b = []
    · exact ⟨a, b, t1, t2, StepOk.of { st := some .ok } _ m 0 0 (by simp [step, splice_ofList, LSeq.splice, hy]) (by simp)
        (by intro _; simp [LSeq.step, LSeq.splice, hy]) (Mem.Eff.rfl' t1 m) rfl (by intro _; simp)⟩
    · have ht : t1 = t2 := hc (Or.inl rfl)
      subst ht
      exact ⟨a ++ b, [], t1, t1, StepOk.ofMove { st := some .ok } _ _ (by simp [step, splice_ofList, LSeq.splice, hy]) (by simp)
        (by simp [LSeq.step, LSeq.splice]) (by simp)⟩
  | .spliceAt i, hc => by
    by_cases hy : b = []
    · exact ⟨a, b, t1, t2, StepOk.of { st := some .ok } _ m 0 0 (by simp [step, spliceAt_ofList, LSeq.spliceAt, hy]) (by simp)
        (by intro _; simp [LSeq.step, LSeq.spliceAt, hy]) (Mem.Eff.rfl' t1 m) rfl (by intro _; simp)⟩
    · by_cases hi : i < a.length
      · have ht : t1 = t2 := hc (Or.inr ⟨i, rfl⟩)
        subst ht
        exact ⟨a.take i ++ b ++ a.drop i, [], t1, t1, StepOk.ofMove { st := some .ok } _ _
          (by simp [step, spliceAt_ofList, LSeq.spliceAt, hy, hi]) (by simp)
          (by simp [LSeq.step, LSeq.spliceAt, hy, hi])
          (by simp [List.length_take, List.length_drop]; omega)⟩
      · exact ⟨a, b, t1, t2, StepOk.of { st := some .errOutOfRange } _ m 0 0
          (by simp [step, spliceAt_ofList, LSeq.spliceAt, hy, hi]) (by simp)
          (by intro _; simp [LSeq.step, LSeq.spliceAt, hy, hi]) (Mem.Eff.rfl' t1 m) rfl (by intro _; simp)⟩
  | .remove x, _ => by
    by_cases hx : x ∈ a
    · have hpos : 0 < a.length := List.length_pos_of_mem hx
      exact ⟨a.erase x, b, t1, t2, StepOk.of { st := some .ok, val := some x } _ (m.freeT t1) 0 1
        (by simp [step, remove_ofList, LSeq.remove, hx]) (by simp)
        (by intro _; simp [LSeq.step, LSeq.remove, hx]) (Mem.eff_free t1 m (by omega))
        (by rw [List.length_erase_of_mem hx]; omega) (by intro _; simp)⟩
    · exact ⟨a, b, t1, t2, StepOk.of { st := some .errValueNotFound } _ m 0 0
        (by simp [step, remove_ofList, LSeq.remove, hx]) (by simp)
        (by intro _; simp [LSeq.step, LSeq.remove, hx]) (Mem.Eff.rfl' t1 m) rfl (by intro _; simp)⟩
  | .removeAt i, _ => by
    by_cases hi : i < a.length
    · exact ⟨a.eraseIdx i, b, t1, t2, StepOk.of { st := some .ok, val := some (a.getD i 0) } _ (m.freeT t1) 0 1
        (by simp [step, removeAt_ofList, LSeq.removeAt, hi]) (by simp)
        (by intro _; simp [LSeq.step, LSeq.removeAt, hi]) (Mem.eff_free t1 m (by omega))
        (by rw [List.length_eraseIdx, if_pos hi]; omega) (by intro _; simp)⟩
    · exact ⟨a, b, t1, t2, StepOk.of { st := some .errOutOfRange } _ m 0 0
        (by simp [step, removeAt_ofList, LSeq.removeAt, hi]) (by simp)
        (by intro _; simp [LSeq.step, LSeq.removeAt, hi]) (Mem.Eff.rfl' t1 m) rfl (by intro _; simp)⟩
  | .removeFirst, _ => by
    cases a with
    | nil => exact ⟨[], b, t1, t2, StepOk.of { st := some .errValueNotFound } _ m 0 0
        (by simp [step, removeFirst_ofList, LSeq.removeFirst]) (by simp)
        (by intro _; simp [LSeq.step, LSeq.removeFirst]) (Mem.Eff.rfl' t1 m) rfl (by intro _; simp)⟩
    | cons y ys => exact ⟨ys, b, t1, t2, StepOk.of { st := some .ok, val := some y } _ (m.freeT t1) 0 1
        (by simp [step, removeFirst_ofList, LSeq.removeFirst]) (by simp)
        (by intro _; simp [LSeq.step, LSeq.removeFirst]) (Mem.eff_free t1 m (by simp at hlive; omega))
        (by simp; omega) (by intro _; simp)⟩
  | .removeLast, _ => by
    by_cases ha : a = []
    · subst ha
      exact ⟨[], b, t1, t2, StepOk.of { st := some .errValueNotFound } _ m 0 0
        (by simp [step, removeLast_ofList, LSeq.removeLast]) (by simp)
        (by intro _; simp [LSeq.step, LSeq.removeLast]) (Mem.Eff.rfl' t1 m) rfl (by intro _; simp)⟩
    · have hpos : 0 < a.length := List.length_pos_iff.2 ha
      exact ⟨a.dropLast, b, t1, t2, StepOk.of { st := some .ok, val := some (a.getLastD 0) } _ (m.freeT t1) 0 1
        (by simp [step, removeLast_ofList, LSeq.removeLast, ha]) (by simp)
        (by intro _; simp [LSeq.step, LSeq.removeLast, ha]) (Mem.eff_free t1 m (by omega))
        (by simp; omega) (by intro _; simp)⟩
  | .removeAll, _ => by
    by_cases ha : a = []
    · subst ha
      exact ⟨[], b, t1, t2, StepOk.of { st := some .errValueNotFound } _ m 0 0
        (by simp [step, removeAll_ofList, LSeq.removeAll, Mem.freeN]) (by simp)
        (by intro _; simp [LSeq.step, LSeq.removeAll]) (Mem.Eff.rfl' t1 m) rfl (by intro _; simp)⟩
    · exact ⟨[], b, t1, t2, StepOk.of { st := some .ok, vals := a } _ (Mem.freeN t1 a.length m) 0 a.length
        (by simp [step, removeAll_ofList, LSeq.removeAll, ha]) (by simp)
        (by intro _; simp [LSeq.step, LSeq.removeAll, ha]) (Mem.eff_freeN t1 m _ (by omega)) (by simp; omega) (by intro _; simp)⟩
  | .replaceAt x i, _ => by
    by_cases hi : i < a.length
    · exact ⟨a.set i x, b, t1, t2, StepOk.of { st := some .ok, val := some (a.getD i 0) } _ m 0 0
        (by simp [step, replaceAt_ofList, LSeq.replaceAt, hi]) (by simp)
        (by intro _; simp [LSeq.step, LSeq.replaceAt, hi]) (Mem.Eff.rfl' t1 m) (by simp) (by intro _; simp)⟩
    · exact ⟨a, b, t1, t2, StepOk.of { st := some .errOutOfRange } _ m 0 0
        (by simp [step, replaceAt_ofList, LSeq.replaceAt, hi]) (by simp)
        (by intro _; simp [LSeq.step, LSeq.replaceAt, hi]) (Mem.Eff.rfl' t1 m) rfl (by intro _; simp)⟩
  | .reverse, _ => ⟨a.reverse, b, t1, t2, StepOk.of {} _ m 0 0 (by simp [step, reverse_ofList]) (by simp)
        (by intro _; simp [LSeq.step]) (Mem.Eff.rfl' t1 m) (by simp) (by intro _; simp)⟩
  | .filterMut, _ => by
    have hle : (a.filter P.pred).length ≤ a.length := List.length_filter_le _ _
    by_cases ha : a = []
    · subst ha
      exact ⟨[], b, t1, t2, StepOk.of { st := some .errOutOfRange } _ m 0 0
        (by simp [step, filterMut_ofList, LSeq.filterMut, Mem.freeN]) (by simp)
        (by intro _; simp [LSeq.step, LSeq.filterMut]) (Mem.Eff.rfl' t1 m) rfl (by intro _; simp)⟩
    · exact ⟨a.filter P.pred, b, t1, t2, StepOk.of { st := some .ok } _ (Mem.freeN t1 (a.length - (a.filter P.pred).length) m) 0
          (a.length - (a.filter P.pred).length)
        (by simp [step, filterMut_ofList, LSeq.filterMut, ha]) (by simp)
        (by intro _; simp [LSeq.step, LSeq.filterMut, ha]) (Mem.eff_freeN t1 m _ (by omega)) (by omega) (by intro _; simp)⟩
  | .getFirst, _ => ⟨a, b, t1, t2, StepOk.of { st := some (LSeq.getFirst a).1, val := (LSeq.getFirst a).2 } _ m 0 0
        (by simp [step, getFirst_ofList]) (by cases a <;> simp [LSeq.getFirst])
        (by intro _; simp [LSeq.step]) (Mem.Eff.rfl' t1 m) rfl (by intro _; cases a <;> simp [LSeq.getFirst]) (by cases a <;> simp [LSeq.getFirst])⟩
  | .getLast, _ => ⟨a, b, t1, t2, StepOk.of { st := some (LSeq.getLast a).1, val := (LSeq.getLast a).2 } _ m 0 0
        (by simp [step, getLast_ofList]) (by by_cases h : a = [] <;> simp [LSeq.getLast, h])
        (by intro _; simp [LSeq.step]) (Mem.Eff.rfl' t1 m) rfl (by intro _; by_cases h : a = [] <;> simp [LSeq.getLast, h]) (by by_cases h : a = [] <;> simp [LSeq.getLast, h])⟩
  | .getAt i, _ => ⟨a, b, t1, t2, StepOk.of { st := some (LSeq.getAt a i).1, val := (LSeq.getAt a i).2 } _ m 0 0
        (by simp [step, getAt_ofList]) (by by_cases h : i < a.length <;> simp [LSeq.getAt, h])
        (by intro _; simp [LSeq.step]) (Mem.Eff.rfl' t1 m) rfl (by intro _; by_cases h : i < a.length <;> simp [LSeq.getAt, h]) (by by_cases h : i < a.length <;> simp [LSeq.getAt, h])⟩
  | .indexOf x, _ => ⟨a, b, t1, t2, StepOk.of { st := some (LSeq.indexOf LSeq.cmpNum a x).1, val := (LSeq.indexOf LSeq.cmpNum a x).2 } _ m 0 0
        (by simp [step, indexOf_ofList])
        (by simp only [LSeq.indexOf]; cases a.findIdx? fun y => LSeq.cmpNum y x == 0 <;> simp)
        (by intro _; simp [LSeq.step]) (Mem.Eff.rfl' t1 m) rfl (by intro _; simp only [LSeq.indexOf]; cases a.findIdx? fun y => LSeq.cmpNum y x == 0 <;> simp) (by simp only [LSeq.indexOf]; cases a.findIdx? fun y => LSeq.cmpNum y x == 0 <;> simp)⟩
  | .contains x, _ => ⟨a, b, t1, t2, StepOk.of { val := some (LSeq.contains a x) } _ m 0 0
        (by simp [step, contains_ofList]) (by simp) (by intro _; simp [LSeq.step]) (Mem.Eff.rfl' t1 m) rfl (by intro _; simp)⟩
  | .containsValue x, _ => ⟨a, b, t1, t2, StepOk.of { val := some (LSeq.containsValue P.cmp a x) } _ m 0 0
        (by simp [step, containsValue_ofList]) (by simp) (by intro _; simp [LSeq.step]) (Mem.Eff.rfl' t1 m) rfl (by intro _; simp)⟩
  | .size, _ => ⟨a, b, t1, t2, StepOk.of { val := some a.length } _ m 0 0
        (by simp [step]) (by simp) (by intro _; simp [LSeq.step]) (Mem.Eff.rfl' t1 m) rfl (by intro _; simp)⟩
  | .toArray, _ => by
    by_cases hal : (m.allocT t1).1 = true
    · have e1 := Mem.eff_alloc_true t1 m hal
      have e2 := Mem.eff_free t1 (m.allocT t1).2 (by have := e1.live; omega)
      exact ⟨a, b, t1, t2, StepOk.of { st := some .ok, vals := a } _ ((m.allocT t1).2.freeT t1) (1 + 0) (0 + 1)
        (by simp [step, toArray_ofList, LSeq.toArray, hal]) (by simp)
        (by intro _; simp [LSeq.step, LSeq.toArray]) (e1.trans e2) (by omega) (by intro _; simp)⟩
    · have hal' : (m.allocT t1).1 = false := by simpa using hal
      exact ⟨a, b, t1, t2, StepOk.of { st := some .errAlloc } _ (m.allocT t1).2 0 0
        (by simp [step, toArray_ofList, LSeq.toArray, hal']) (by simp) (by simp)
        (Mem.eff_alloc_false t1 m hal') rfl (by intro hs; simp_all [Mem.allocT_nil m t1 hs])⟩
  | .foreach, _ => ⟨a, b, t1, t2, StepOk.of { vals := a } _ m 0 0
        (by simp [step, foreach_ofList]) (by simp) (by intro _; simp [LSeq.step]) (Mem.Eff.rfl' t1 m) rfl (by intro _; simp)⟩
  | .swapRoles, _ => by
    refine ⟨b, a, t2, t1, ⟨by simp [step], Or.inr ⟨rfl, rfl⟩, fun h => absurd rfl h, by simp [step], by intro _; simp [step, LSeq.step], rfl,
      Mem.Frame.rfl' t1 m, ?_, fun hs => ⟨hs, by simp [step]⟩, by simp [step]⟩⟩
    intro t
    simp only [step, ownedBy]
    omega

theorem step_ok (P : Params) (t1 t2 : Triple) (a b : List Nat) (m : Mem) (hlive : ∀ t, ownedBy t1 t2 a b t ≤ m.liveT t)
    (op : Op) (hc : SpliceOk t1 t2 op) :
    ∃ a' b' t1' t2', StepOk false P t1 t2 a b op m (step P (ofList t1 a, ofList t2 b) op m) a' b' t1' t2' :=
  step_ok_aux P t1 t2 a b m (Nat.le_trans (ownedBy_dest_le t1 t2 a b) (hlive t1)) op hc
end SList
end CC
