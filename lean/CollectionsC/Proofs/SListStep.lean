import CollectionsC.Proofs.DListStep
import CollectionsC.Proofs.SListIter
/-! One history step of the singly linked list model refines one step of the ideal pair of lists
(bundle used by `Properties/C04.lean`). -/
namespace CC
open CC Chain
open CC.Spec
open CC.Spec.LSeq (Op Out Params)

namespace SList

theorem step_ok (P : Params) (a b : List Nat) (m : Mem) (hlive : a.length + b.length ≤ m.live) : ∀ (op : Op),
    ∃ a' b', StepOk false P a b op m (step P (ofList a, ofList b) op m) a' b'
  | .addFirst x => by
    by_cases ha : m.alloc.1 = true
    · exact ⟨x :: a, b, StepOk.of { st := some .ok } _ _ m.alloc.2 1 0 (by simp [step, addFirst_ofList, ha, LSeq.addFirst]) (by simp)
        (by intro _; simp [LSeq.step, LSeq.addFirst]) (Mem.eff_alloc_true m ha) (by simp; omega) (by intro _; simp)⟩
    · have ha' : m.alloc.1 = false := by simpa using ha
      exact ⟨a, b, StepOk.of { st := some .errAlloc } _ _ m.alloc.2 0 0 (by simp [step, addFirst_ofList, ha']) (by simp)
        (by simp) (Mem.eff_alloc_false m ha') rfl (by intro hs; simp_all [Mem.alloc_nil m hs, Mem.allocChain_nil _ 0 m hs])⟩
  | .addLast x => by
    by_cases ha : m.alloc.1 = true
    · exact ⟨a ++ [x], b, StepOk.of { st := some .ok } _ _ m.alloc.2 1 0 (by simp [step, addLast_ofList, ha, LSeq.addLast]) (by simp)
        (by intro _; simp [LSeq.step, LSeq.addLast]) (Mem.eff_alloc_true m ha) (by simp; omega) (by intro _; simp)⟩
    · have ha' : m.alloc.1 = false := by simpa using ha
      exact ⟨a, b, StepOk.of { st := some .errAlloc } _ _ m.alloc.2 0 0 (by simp [step, addLast_ofList, ha']) (by simp)
        (by simp) (Mem.eff_alloc_false m ha') rfl (by intro hs; simp_all [Mem.alloc_nil m hs, Mem.allocChain_nil _ 0 m hs])⟩
  | .addAt x i => by
    by_cases hi : i < a.length
    · by_cases ha : m.alloc.1 = true
      · exact ⟨a.insertIdx i x, b, StepOk.of { st := some .ok } _ _ m.alloc.2 1 0
          (by simp [step, addAt_ofList, ha, LSeq.addAt, hi]) (by simp)
          (by intro _; simp [LSeq.step, LSeq.addAt, hi]) (Mem.eff_alloc_true m ha)
          (by simp [List.length_insertIdx, Nat.le_of_lt hi]; omega) (by intro _; simp)⟩
      · have ha' : m.alloc.1 = false := by simpa using ha
        exact ⟨a, b, StepOk.of { st := some .errAlloc } _ _ m.alloc.2 0 0
          (by simp [step, addAt_ofList, ha', LSeq.addAt, hi]) (by simp)
          (by simp) (Mem.eff_alloc_false m ha') rfl (by intro hs; simp_all [Mem.alloc_nil m hs, Mem.allocChain_nil _ 0 m hs])⟩
    · exact ⟨a, b, StepOk.of { st := some .errOutOfRange } _ _ m 0 0 (by simp [step, addAt_ofList, LSeq.addAt, hi]) (by simp)
        (by intro _; simp [LSeq.step, LSeq.addAt, hi]) (Mem.Eff.rfl' m) rfl (by intro _; simp)⟩
  | .addAll => by
    by_cases hy : b = []
    · exact ⟨a, b, StepOk.of { st := some .ok } _ _ m 0 0 (by simp [step, addAll_ofList, hy]) (by simp)
        (by intro _; simp [LSeq.step, LSeq.addAll, hy]) (Mem.Eff.rfl' m) rfl (by intro _; simp)⟩
    · by_cases ha : (m.allocChain b.length 0).1 = true
      · exact ⟨a ++ b, b, StepOk.of { st := some .ok } _ _ (m.allocChain b.length 0).2 b.length 0
          (by simp [step, addAll_ofList, hy, ha, LSeq.addAll]) (by simp)
          (by intro _; simp [LSeq.step, LSeq.addAll]) (Mem.eff_allocChain_true m _ ha) (by simp) (by intro _; simp)⟩
      · have ha' : (m.allocChain b.length 0).1 = false := by simpa using ha
        exact ⟨a, b, StepOk.of { st := some .errAlloc } _ _ (m.allocChain b.length 0).2 0 0
          (by simp [step, addAll_ofList, hy, ha']) (by simp) (by simp) (Mem.eff_allocChain_false m _ ha') rfl (by intro hs; simp_all [Mem.alloc_nil m hs, Mem.allocChain_nil _ 0 m hs])⟩
  | .addAllAt i => by
    by_cases hy : b = []
    · exact ⟨a, b, StepOk.of { st := some .ok } _ _ m 0 0 (by simp [step, addAllAt_ofList, LSeq.addAllAt, hy]) (by simp)
        (by intro _; simp [LSeq.step, LSeq.addAllAt, hy]) (Mem.Eff.rfl' m) rfl (by intro _; simp)⟩
    · by_cases hi : i < a.length
      · by_cases ha : (m.allocChain b.length 0).1 = true
        · exact ⟨a.take i ++ b ++ a.drop i, b, StepOk.of { st := some .ok } _ _ (m.allocChain b.length 0).2 b.length 0
            (by simp [step, addAllAt_ofList, LSeq.addAllAt, hy, hi, ha]) (by simp)
            (by intro _; simp [LSeq.step, LSeq.addAllAt, hy, hi]) (Mem.eff_allocChain_true m _ ha)
            (by simp [List.length_take, List.length_drop]; omega) (by intro _; simp)⟩
        · have ha' : (m.allocChain b.length 0).1 = false := by simpa using ha
          exact ⟨a, b, StepOk.of { st := some .errAlloc } _ _ (m.allocChain b.length 0).2 0 0
            (by simp [step, addAllAt_ofList, LSeq.addAllAt, hy, hi, ha']) (by simp) (by simp)
            (Mem.eff_allocChain_false m _ ha') rfl (by intro hs; simp_all [Mem.alloc_nil m hs, Mem.allocChain_nil _ 0 m hs])⟩
      · exact ⟨a, b, StepOk.of { st := some .errOutOfRange } _ _ m 0 0
          (by simp [step, addAllAt_ofList, LSeq.addAllAt, hy, hi]) (by simp)
          (by intro _; simp [LSeq.step, LSeq.addAllAt, hy, hi]) (Mem.Eff.rfl' m) rfl (by intro _; simp)⟩
  | .splice => by
    by_cases hy : b = []
    · exact ⟨a, b, StepOk.of { st := some .ok } _ _ m 0 0 (by simp [step, splice_ofList, LSeq.splice, hy]) (by simp)
        (by intro _; simp [LSeq.step, LSeq.splice, hy]) (Mem.Eff.rfl' m) rfl (by intro _; simp)⟩
    · exact ⟨a ++ b, [], StepOk.of { st := some .ok } _ _ m 0 0 (by simp [step, splice_ofList, LSeq.splice, hy]) (by simp)
        (by intro _; simp [LSeq.step, LSeq.splice]) (Mem.Eff.rfl' m) (by simp) (by intro _; simp)⟩
  | .spliceAt i => by
    by_cases hy : b = []
    · exact ⟨a, b, StepOk.of { st := some .ok } _ _ m 0 0 (by simp [step, spliceAt_ofList, LSeq.spliceAt, hy]) (by simp)
        (by intro _; simp [LSeq.step, LSeq.spliceAt, hy]) (Mem.Eff.rfl' m) rfl (by intro _; simp)⟩
    · by_cases hi : i < a.length
      · exact ⟨a.take i ++ b ++ a.drop i, [], StepOk.of { st := some .ok } _ _ m 0 0
          (by simp [step, spliceAt_ofList, LSeq.spliceAt, hy, hi]) (by simp)
          (by intro _; simp [LSeq.step, LSeq.spliceAt, hy, hi]) (Mem.Eff.rfl' m)
          (by simp [List.length_take, List.length_drop]; omega) (by intro _; simp)⟩
      · exact ⟨a, b, StepOk.of { st := some .errOutOfRange } _ _ m 0 0
          (by simp [step, spliceAt_ofList, LSeq.spliceAt, hy, hi]) (by simp)
          (by intro _; simp [LSeq.step, LSeq.spliceAt, hy, hi]) (Mem.Eff.rfl' m) rfl (by intro _; simp)⟩
  | .remove x => by
    by_cases hx : x ∈ a
    · have hpos : 0 < a.length := List.length_pos_of_mem hx
      exact ⟨a.erase x, b, StepOk.of { st := some .ok, val := some x } _ _ m.free 0 1
        (by simp [step, remove_ofList, LSeq.remove, hx]) (by simp)
        (by intro _; simp [LSeq.step, LSeq.remove, hx]) (Mem.eff_free m (by omega))
        (by rw [List.length_erase_of_mem hx]; omega) (by intro _; simp)⟩
    · exact ⟨a, b, StepOk.of { st := some .errValueNotFound } _ _ m 0 0
        (by simp [step, remove_ofList, LSeq.remove, hx]) (by simp)
        (by intro _; simp [LSeq.step, LSeq.remove, hx]) (Mem.Eff.rfl' m) rfl (by intro _; simp)⟩
  | .removeAt i => by
    by_cases hi : i < a.length
    · exact ⟨a.eraseIdx i, b, StepOk.of { st := some .ok, val := some (a.getD i 0) } _ _ m.free 0 1
        (by simp [step, removeAt_ofList, LSeq.removeAt, hi]) (by simp)
        (by intro _; simp [LSeq.step, LSeq.removeAt, hi]) (Mem.eff_free m (by omega))
        (by rw [List.length_eraseIdx, if_pos hi]; omega) (by intro _; simp)⟩
    · exact ⟨a, b, StepOk.of { st := some .errOutOfRange } _ _ m 0 0
        (by simp [step, removeAt_ofList, LSeq.removeAt, hi]) (by simp)
        (by intro _; simp [LSeq.step, LSeq.removeAt, hi]) (Mem.Eff.rfl' m) rfl (by intro _; simp)⟩
  | .removeFirst => by
    cases a with
    | nil => exact ⟨[], b, StepOk.of { st := some .errValueNotFound } _ _ m 0 0
        (by simp [step, removeFirst_ofList, LSeq.removeFirst]) (by simp)
        (by intro _; simp [LSeq.step, LSeq.removeFirst]) (Mem.Eff.rfl' m) rfl (by intro _; simp)⟩
    | cons y ys => exact ⟨ys, b, StepOk.of { st := some .ok, val := some y } _ _ m.free 0 1
        (by simp [step, removeFirst_ofList, LSeq.removeFirst]) (by simp)
        (by intro _; simp [LSeq.step, LSeq.removeFirst]) (Mem.eff_free m (by simp at hlive; omega))
        (by simp; omega) (by intro _; simp)⟩
  | .removeLast => by
    by_cases ha : a = []
    · subst ha
      exact ⟨[], b, StepOk.of { st := some .errValueNotFound } _ _ m 0 0
        (by simp [step, removeLast_ofList, LSeq.removeLast]) (by simp)
        (by intro _; simp [LSeq.step, LSeq.removeLast]) (Mem.Eff.rfl' m) rfl (by intro _; simp)⟩
    · have hpos : 0 < a.length := List.length_pos_iff.2 ha
      exact ⟨a.dropLast, b, StepOk.of { st := some .ok, val := some (a.getLastD 0) } _ _ m.free 0 1
        (by simp [step, removeLast_ofList, LSeq.removeLast, ha]) (by simp)
        (by intro _; simp [LSeq.step, LSeq.removeLast, ha]) (Mem.eff_free m (by omega))
        (by simp; omega) (by intro _; simp)⟩
  | .removeAll => by
    by_cases ha : a = []
    · subst ha
      exact ⟨[], b, StepOk.of { st := some .errValueNotFound } _ _ m 0 0
        (by simp [step, removeAll_ofList, LSeq.removeAll, Mem.freeN]) (by simp)
        (by intro _; simp [LSeq.step, LSeq.removeAll]) (Mem.Eff.rfl' m) rfl (by intro _; simp)⟩
    · exact ⟨[], b, StepOk.of { st := some .ok, vals := a } _ _ (Mem.freeN a.length m) 0 a.length
        (by simp [step, removeAll_ofList, LSeq.removeAll, ha]) (by simp)
        (by intro _; simp [LSeq.step, LSeq.removeAll, ha]) (Mem.eff_freeN m _ (by omega)) (by simp; omega) (by intro _; simp)⟩
  | .replaceAt x i => by
    by_cases hi : i < a.length
    · exact ⟨a.set i x, b, StepOk.of { st := some .ok, val := some (a.getD i 0) } _ _ m 0 0
        (by simp [step, replaceAt_ofList, LSeq.replaceAt, hi]) (by simp)
        (by intro _; simp [LSeq.step, LSeq.replaceAt, hi]) (Mem.Eff.rfl' m) (by simp) (by intro _; simp)⟩
    · exact ⟨a, b, StepOk.of { st := some .errOutOfRange } _ _ m 0 0
        (by simp [step, replaceAt_ofList, LSeq.replaceAt, hi]) (by simp)
        (by intro _; simp [LSeq.step, LSeq.replaceAt, hi]) (Mem.Eff.rfl' m) rfl (by intro _; simp)⟩
  | .reverse => ⟨a.reverse, b, StepOk.of {} _ _ m 0 0 (by simp [step, reverse_ofList]) (by simp)
        (by intro _; simp [LSeq.step]) (Mem.Eff.rfl' m) (by simp) (by intro _; simp)⟩
  | .filterMut => by
    have hle : (a.filter P.pred).length ≤ a.length := List.length_filter_le _ _
    by_cases ha : a = []
    · subst ha
      exact ⟨[], b, StepOk.of { st := some .errOutOfRange } _ _ m 0 0
        (by simp [step, filterMut_ofList, LSeq.filterMut, Mem.freeN]) (by simp)
        (by intro _; simp [LSeq.step, LSeq.filterMut]) (Mem.Eff.rfl' m) rfl (by intro _; simp)⟩
    · exact ⟨a.filter P.pred, b, StepOk.of { st := some .ok } _ _ (Mem.freeN (a.length - (a.filter P.pred).length) m) 0
          (a.length - (a.filter P.pred).length)
        (by simp [step, filterMut_ofList, LSeq.filterMut, ha]) (by simp)
        (by intro _; simp [LSeq.step, LSeq.filterMut, ha]) (Mem.eff_freeN m _ (by omega)) (by omega) (by intro _; simp)⟩
  | .getFirst => ⟨a, b, StepOk.of { st := some (LSeq.getFirst a).1, val := (LSeq.getFirst a).2 } _ _ m 0 0
        (by simp [step, getFirst_ofList]) (by cases a <;> simp [LSeq.getFirst])
        (by intro _; simp [LSeq.step]) (Mem.Eff.rfl' m) rfl (by intro _; cases a <;> simp [LSeq.getFirst]) (by cases a <;> simp [LSeq.getFirst])⟩
  | .getLast => ⟨a, b, StepOk.of { st := some (LSeq.getLast a).1, val := (LSeq.getLast a).2 } _ _ m 0 0
        (by simp [step, getLast_ofList]) (by by_cases h : a = [] <;> simp [LSeq.getLast, h])
        (by intro _; simp [LSeq.step]) (Mem.Eff.rfl' m) rfl (by intro _; by_cases h : a = [] <;> simp [LSeq.getLast, h]) (by by_cases h : a = [] <;> simp [LSeq.getLast, h])⟩
  | .getAt i => ⟨a, b, StepOk.of { st := some (LSeq.getAt a i).1, val := (LSeq.getAt a i).2 } _ _ m 0 0
        (by simp [step, getAt_ofList]) (by by_cases h : i < a.length <;> simp [LSeq.getAt, h])
        (by intro _; simp [LSeq.step]) (Mem.Eff.rfl' m) rfl (by intro _; by_cases h : i < a.length <;> simp [LSeq.getAt, h]) (by by_cases h : i < a.length <;> simp [LSeq.getAt, h])⟩
  | .indexOf x => ⟨a, b, StepOk.of { st := some (LSeq.indexOf LSeq.cmpNum a x).1, val := (LSeq.indexOf LSeq.cmpNum a x).2 } _ _ m 0 0
        (by simp [step, indexOf_ofList])
        (by simp only [LSeq.indexOf]; cases a.findIdx? fun y => LSeq.cmpNum y x == 0 <;> simp)
        (by intro _; simp [LSeq.step]) (Mem.Eff.rfl' m) rfl (by intro _; simp only [LSeq.indexOf]; cases a.findIdx? fun y => LSeq.cmpNum y x == 0 <;> simp) (by simp only [LSeq.indexOf]; cases a.findIdx? fun y => LSeq.cmpNum y x == 0 <;> simp)⟩
  | .contains x => ⟨a, b, StepOk.of { val := some (LSeq.contains a x) } _ _ m 0 0
        (by simp [step, contains_ofList]) (by simp) (by intro _; simp [LSeq.step]) (Mem.Eff.rfl' m) rfl (by intro _; simp)⟩
  | .containsValue x => ⟨a, b, StepOk.of { val := some (LSeq.containsValue P.cmp a x) } _ _ m 0 0
        (by simp [step, containsValue_ofList]) (by simp) (by intro _; simp [LSeq.step]) (Mem.Eff.rfl' m) rfl (by intro _; simp)⟩
  | .size => ⟨a, b, StepOk.of { val := some a.length } _ _ m 0 0
        (by simp [step]) (by simp) (by intro _; simp [LSeq.step]) (Mem.Eff.rfl' m) rfl (by intro _; simp)⟩
  | .toArray => by
    by_cases hal : m.alloc.1 = true
    · have e1 := Mem.eff_alloc_true m hal
      have e2 := Mem.eff_free m.alloc.2 (by have := e1.live; omega)
      exact ⟨a, b, StepOk.of { st := some .ok, vals := a } _ _ m.alloc.2.free (1 + 0) (0 + 1)
        (by simp [step, toArray_ofList, LSeq.toArray, hal]) (by simp)
        (by intro _; simp [LSeq.step, LSeq.toArray]) (e1.trans e2) (by omega) (by intro _; simp)⟩
    · have hal' : m.alloc.1 = false := by simpa using hal
      exact ⟨a, b, StepOk.of { st := some .errAlloc } _ _ m.alloc.2 0 0
        (by simp [step, toArray_ofList, LSeq.toArray, hal']) (by simp) (by simp)
        (Mem.eff_alloc_false m hal') rfl (by intro hs; simp_all [Mem.alloc_nil m hs])⟩
  | .foreach => ⟨a, b, StepOk.of { vals := a } _ _ m 0 0
        (by simp [step, foreach_ofList]) (by simp) (by intro _; simp [LSeq.step]) (Mem.Eff.rfl' m) rfl (by intro _; simp)⟩
  | .swapRoles => ⟨b, a, StepOk.of {} _ _ m 0 0
        (by simp [step]) (by simp) (by intro _; simp [LSeq.step]) (Mem.Eff.rfl' m) (by omega) (by intro _; simp)⟩
end SList
end CC
