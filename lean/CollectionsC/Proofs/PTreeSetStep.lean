import CollectionsC.Proofs.PTreeStep
import CollectionsC.Proofs.TreeTableSpec
set_option linter.unusedSimpArgs false
set_option linter.unusedVariables false
/-! The set wrapper `cc_treeset` on the pointer-level model, the id-level ledger of the tree, and the height bound in
every reachable state. -/
namespace CC.PTree
open CC
open CC.Tree (Path Dir)
open Spec Spec.OrdMap

/-! ### `cc_treeset`: the table with the dummy value, `KEY_NOT_FOUND` reported as `VALUE_NOT_FOUND` -/

/-- one call of the set API on the pointer-level state: the wrapped table call (`OrdSet.toMapOp`: `add e` stores the
dummy `(int*) 1`), the status mapped as the wrapper does; the out-value is what the table hands back — for `remove`
the stored value, i.e. the dummy, not the element -/
def setStep (cmp : Nat → Nat → Int) (st : PT) (op : OrdSet.Op) (ok : Bool) : Out × PT :=
  let r := PTree.step cmp st (OrdSet.toMapOp op) ok
  ({ r.1 with st := r.1.st.map OrdSet.mapStat }, r.2)

def setRun (cmp : Nat → Nat → Int) (st : PT) : List (OrdSet.Op × Bool) → List Out × PT
  | [] => ([], st)
  | (op, refused) :: rest =>
    let r := setStep cmp st op (!refused)
    let rs := setRun cmp r.2 rest
    (r.1 :: rs.1, rs.2)

/-- every stored value is the dummy -/
def AllDummy (m : OrdMap) : Prop := ∀ e ∈ m, e.2 = OrdSet.dummy

theorem AllDummy.step (cmp : Nat → Nat → Int) {m : OrdMap} (hd : AllDummy m) (op : OrdSet.Op) (r : Bool) :
    AllDummy (OrdMap.step cmp m (OrdSet.toMapOp op) r).2 := by
  have hfilter : ∀ (p : Nat × Nat → Bool), AllDummy (m.filter p) := fun p e he => hd e (List.mem_filter.1 he).1
  cases op with
  | add e =>
    simp only [OrdSet.toMapOp, OrdMap.step]
    split
    · exact hd
    · intro x hx
      simp only [OrdMap.insert, OrdMap.below, OrdMap.above, List.mem_append, List.mem_cons] at hx
      rcases hx with hx | hx | hx
      · exact hfilter _ x hx
      · rw [hx]
      · exact hfilter _ x hx
  | remove e =>
    simp only [OrdSet.toMapOp, OrdMap.step, opRemove]
    split
    · exact hfilter _
    · exact hd
  | removeAll => intro x hx; simp [OrdSet.toMapOp, OrdMap.step] at hx
  | contains e => exact hd
  | size => exact hd
  | first => exact hd
  | last => exact hd
  | greaterThan e => exact hd
  | lesserThan e => exact hd
  | foreach => exact hd

/-- **one call of `cc_treeset` at the pointer level behaves like the ideal ordered set**: status, out-value and
callback log are what the C API hands back for the ideal set's answer (`OrdSet.apiOut`: `cc_treeset_remove` stores
the table's value — the dummy — in `*out`, not the element: the observation recorded in C03.lean / DESIGN.md), the
new heap represents a red-black search tree holding the ideal set's new content, every value the dummy -/
theorem set_pstep_refines (cmp : Nat → Nat → Int) (hto : TotalOrder cmp) {st : PT} {T : ITree} (h : Represents st T)
    (hb : Tree.BST cmp T.erase) (hrb : Tree.RB T.erase) (hd : AllDummy T.erase.toList) (op : OrdSet.Op) (ok : Bool) :
    (setStep cmp st op ok).1 = OrdSet.apiOut op (OrdSet.step cmp T.erase.toList op (!ok)).1 ∧
    ∃ T', Represents (setStep cmp st op ok).2 T' ∧ T'.erase.toList = (OrdSet.step cmp T.erase.toList op (!ok)).2 ∧
      Tree.BST cmp T'.erase ∧ Tree.RB T'.erase ∧ AllDummy T'.erase.toList := by
  obtain ⟨s1, T', r1, r2, r3, r4⟩ := pstep_refines cmp hto h hb hrb (OrdSet.toMapOp op) ok
  refine ⟨?_, T', r1, r2, r3, r4, by rw [r2]; exact hd.step cmp op _⟩
  simp only [setStep, OrdSet.step, OrdSet.apiOut, s1]
  cases op with
  | remove e =>
    simp only [OrdSet.isRemove, if_true, OrdSet.toMapOp, OrdMap.step, opRemove]
    cases hl : lookup T.erase.toList e with
    | none => rfl
    | some v =>
      have : v = OrdSet.dummy := hd _ (lookup_mem hl)
      subst this; rfl
  | add e => rfl
  | removeAll => rfl
  | contains e => rfl
  | size => rfl
  | first => rfl
  | last => rfl
  | greaterThan e => rfl
  | lesserThan e => rfl
  | foreach => rfl

/-- **histories of `cc_treeset` at the pointer level refine the ideal ordered set**, under every refusal schedule -/
theorem set_phistory_refines (cmp : Nat → Nat → Int) (hto : TotalOrder cmp) (ops : List (OrdSet.Op × Bool)) :
    ∀ {st : PT} {T : ITree}, Represents st T → Tree.BST cmp T.erase → Tree.RB T.erase → AllDummy T.erase.toList →
      (setRun cmp st ops).1 = OrdSet.apiOuts (ops.map (·.1)) (OrdSet.run cmp T.erase.toList ops).1 ∧
      ∃ T', Represents (setRun cmp st ops).2 T' ∧ T'.erase.toList = (OrdSet.run cmp T.erase.toList ops).2 ∧
        Tree.BST cmp T'.erase ∧ Tree.RB T'.erase ∧ AllDummy T'.erase.toList := by
  induction ops with
  | nil => intro st T h hb hrb hd; exact ⟨rfl, T, h, rfl, hb, hrb, hd⟩
  | cons o ops ih =>
    intro st T h hb hrb hd
    obtain ⟨op, refused⟩ := o
    obtain ⟨s1, T1, r1, r2, r3, r4, r5⟩ := set_pstep_refines cmp hto h hb hrb hd op (!refused)
    rw [Bool.not_not] at s1 r2
    obtain ⟨i1, T2, j1, j2, j3, j4, j5⟩ := ih r1 r3 r4 r5
    rw [r2] at i1 j2
    simp only [setRun, OrdSet.run, List.map_cons, OrdSet.apiOuts]
    exact ⟨by rw [s1, i1], T2, j1, j2, j3, j4, j5⟩

/-- from the constructor: the elements of the final set are the keys of the represented tree -/
theorem set_phistory_refines_new (cmp : Nat → Nat → Int) (hto : TotalOrder cmp) (ops : List (OrdSet.Op × Bool)) :
    (setRun cmp PTree.new ops).1 = OrdSet.apiOuts (ops.map (·.1)) (OrdSet.run cmp [] ops).1 ∧
    ∃ T', Represents (setRun cmp PTree.new ops).2 T' ∧ T'.erase.toList = (OrdSet.run cmp [] ops).2 ∧
      Tree.BST cmp T'.erase ∧ Tree.RB T'.erase ∧ AllDummy T'.erase.toList :=
  set_phistory_refines cmp hto ops new_represents (by simp [ITree.erase, Tree.BST, Tree.toList, Sorted])
    (by simp [ITree.erase, Tree.RB, Tree.RBok, Tree.col]) (by intro e he; simp [ITree.erase, Tree.toList] at he)

/-! ### the ledger of nodes at the pointer level (C06 for the tree) -/

/-- `remove_node` ends with `mem_free(z)`: the node is no longer in the heap -/
theorem removeNode_freed (st : PT) (z : Nat) : (removeNode st z).heap.m.contains z = false := by
  rw [removeNode_eq]
  show (Heap.del _ z).m.contains z = false
  rw [Heap.contains_del]; simp

/-- **one call, node by node**: the nodes of the represented tree change by exactly what the call allocates or frees —
nothing (read-only calls, replacement of a value, refused or failed calls), the one node with the fresh allocation
serial (`add` of an absent key, granted), exactly the removed node, which has left the heap (`remove`,
`remove_first`, `remove_last`), or all of them (`remove_all`); `size` is the number of nodes throughout -/
theorem pstep_ledger (cmp : Nat → Nat → Int) (hto : TotalOrder cmp) {st : PT} {T : ITree} (h : Represents st T)
    (hb : Tree.BST cmp T.erase) (hrb : Tree.RB T.erase) (op : Op) (ok : Bool) :
    ∃ T', Represents (step cmp st op ok).2 T' ∧ (step cmp st op ok).2.size = T'.ids.length ∧
      (T'.ids.Perm T.ids ∨
       T'.ids.Perm (st.fresh :: T.ids) ∨
       (∃ z, (z :: T'.ids).Perm T.ids ∧ (step cmp st op ok).2.heap.m.contains z = false) ∨
       (T' = .nil ∧ ∀ i ∈ T.ids, (step cmp st op ok).2.heap.m.contains i = false)) := by
  have same : ∃ T', Represents st T' ∧ st.size = T'.ids.length ∧
      (T'.ids.Perm T.ids ∨ T'.ids.Perm (st.fresh :: T.ids) ∨
       (∃ z, (z :: T'.ids).Perm T.ids ∧ st.heap.m.contains z = false) ∨
       (T' = .nil ∧ ∀ i ∈ T.ids, st.heap.m.contains i = false)) :=
    ⟨T, h, h.size, Or.inl (List.Perm.refl _)⟩
  have removed : ∀ {z cz zl zk zv zr} (q : Path), T.subtree q = .node z cz zl zk zv zr →
      ∃ T', Represents (removeNode st z) T' ∧ (removeNode st z).size = T'.ids.length ∧
        (T'.ids.Perm T.ids ∨ T'.ids.Perm (st.fresh :: T.ids) ∨
         (∃ z', (z' :: T'.ids).Perm T.ids ∧ (removeNode st z).heap.m.contains z' = false) ∨
         (T' = .nil ∧ ∀ i ∈ T.ids, (removeNode st z).heap.m.contains i = false)) := by
    intro z cz zl zk zv zr q hs
    obtain ⟨T', a, b, _, _⟩ := removeNode_wf cmp hto h hb hrb q hs
    exact ⟨T', a, a.size, Or.inr (Or.inr (Or.inl ⟨z, b, removeNode_freed st z⟩))⟩
  cases op with
  | add k v =>
    simp only [step]
    cases hs : T.subtree (Tree.leafPath cmp k T.erase) with
    | node x c a k0 v0 b =>
      obtain ⟨_, _, r1, _, _, _⟩ := add_existing_wf cmp hto h hb hrb k v ok hs
      exact ⟨_, r1, r1.size, Or.inl (ITree.ids_replace_perm T _ _ (by rw [hs]; exact List.Perm.refl _))⟩
    | nil =>
      cases ok with
      | true =>
        obtain ⟨T', r1, r2, _, _, _⟩ := add_new_wf cmp hto h hb hrb k v hs
        exact ⟨T', r1, r1.size, Or.inr (Or.inl r2)⟩
      | false => rw [add_refused cmp h k v hs]; exact same
  | remove k =>
    simp only [step, findNode_rep cmp h k]
    cases hs : T.subtree (Tree.leafPath cmp k T.erase) with
    | nil => exact same
    | node x c a k0 v0 b => exact removed _ hs
  | removeFirst =>
    by_cases hT : T = .nil
    · subst hT
      obtain ⟨e1, _⟩ := empty_facts h
      have e : (step cmp st .removeFirst ok).2 = st := by simp [step, e1]
      rw [e]; exact same
    · obtain ⟨z, cz, zk, zv, zr, rest, hs, hmin, _⟩ := min_facts h hT
      have hsz : st.size ≠ 0 := by
        rw [h.size]; cases T with
        | nil => exact absurd rfl hT
        | node _ _ _ _ _ _ => simp
      simp only [step, hsz, if_false, hmin]; exact removed _ hs
  | removeLast =>
    by_cases hT : T = .nil
    · subst hT
      obtain ⟨e1, _⟩ := empty_facts h
      have e : (step cmp st .removeLast ok).2 = st := by simp [step, e1]
      rw [e]; exact same
    · obtain ⟨z, cz, zl, zk, zv, pre, hs, hmax, _⟩ := max_facts h hT
      have hsz : st.size ≠ 0 := by
        rw [h.size]; cases T with
        | nil => exact absurd rfl hT
        | node _ _ _ _ _ _ => simp
      simp only [step, hsz, if_false, hmax]; exact removed _ hs
  | removeAll =>
    obtain ⟨r1, r2, _⟩ := removeAll_represents h
    exact ⟨.nil, r1, r1.size, Or.inr (Or.inr (Or.inr ⟨rfl, r2⟩))⟩
  | get k => simp only [step]; split <;> exact same
  | containsKey k => exact same
  | containsValue v => exact same
  | firstKey => simp only [step]; split <;> exact same
  | lastKey => simp only [step]; split <;> exact same
  | firstValue => simp only [step]; split <;> exact same
  | lastValue => simp only [step]; split <;> exact same
  | greaterThan k => simp only [step]; split <;> (try split) <;> exact same
  | lesserThan k => simp only [step]; split <;> (try split) <;> exact same
  | foreachKey => exact same
  | foreachValue => exact same
  | size => exact same

/-- **the ledger along histories**: at the end — hence, the statement holding for every history, at every point — of
every history from the constructor, under every refusal schedule, `size` is the number of nodes of the represented
tree and the number of keys of the ideal map, and every node id is below the allocation serial (`Represents.fresh`):
the live nodes are the `size` tree nodes (plus the sentinel, id 0, which no call frees) -/
theorem phistory_ledger (cmp : Nat → Nat → Int) (hto : TotalOrder cmp) (ops : List (Op × Bool)) :
    ∃ T', Represents (run cmp PTree.new ops).2 T' ∧
      (run cmp PTree.new ops).2.size = T'.ids.length ∧
      (run cmp PTree.new ops).2.size = (OrdMap.run cmp [] ops).2.length ∧
      (∀ i ∈ T'.ids, 0 < i ∧ i < (run cmp PTree.new ops).2.fresh) := by
  obtain ⟨_, T', r1, r2, _, _⟩ := phistory_refines_new cmp hto ops
  refine ⟨T', r1, r1.size, ?_, fun i hi => ⟨Nat.pos_of_ne_zero (r1.rep.ids_ne i hi), r1.fresh i hi⟩⟩
  rw [r1.size, ← r2, ITree.toList_length]

/-! ### the height bound in every reachable state (C17 on `PT`) -/

/-- **every reachable pointer-level state is balanced**: after any history from the constructor, under every refusal
schedule, the tree spanned by the heap has height at most `2·⌊log₂(size+1)⌋` -/
theorem reachable_height_bound (cmp : Nat → Nat → Int) (hto : TotalOrder cmp) (ops : List (Op × Bool)) :
    (toTree (run cmp PTree.new ops).2).height ≤ 2 * Nat.log2 ((run cmp PTree.new ops).2.size + 1) := by
  obtain ⟨_, T', r1, _, _, r4⟩ := phistory_refines_new cmp hto ops
  have := Tree.height_le_log T'.erase r4
  rw [ITree.size_erase, ← r1.size] at this
  rw [r1.toTree]; exact this

/-- the same for the states reached by the tree-changing calls alone (`reachable_states_good`) -/
theorem Good.height_bound {cmp : Nat → Nat → Int} {st : PT} (hg : Good cmp st) :
    (toTree st).height ≤ 2 * Nat.log2 (st.size + 1) := by
  obtain ⟨T, h, _, hrb⟩ := hg
  have := Tree.height_le_log T.erase hrb
  rw [ITree.size_erase, ← h.size] at this
  rw [h.toTree]; exact this
end CC.PTree
