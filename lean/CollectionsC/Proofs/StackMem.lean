import CollectionsC.Proofs.ArrayMem
import CollectionsC.Proofs.Stack
/-! Ledger facets (`Led`: `libc` untouched, refusal counted iff `CC_ERR_ALLOC`; `_indep`: dependence
on the ledger only through its schedule) for the stack adapter: constructor, push, `cc_stack_filter`
(with its loop of pushes), destructor, and the push/pop/peek/size steps and histories. -/
namespace CC.Stack
open CC CC.Arr
open CC.Spec.Seq (SOp Out)

theorem new_led (cap : Nat) (grow : Nat → Nat) (exGe : Nat → Bool) (m : Mem) :
    Led m (Stack.new cap grow exGe m).2.2 (decide ((Stack.new cap grow exGe m).1 = .errAlloc)) := by
  have ln := Arr.new_led cap grow exGe m.alloc.2
  unfold Stack.new
  cases hal : m.alloc.1
  · have := Led.alloc m; rw [hal] at this
    simp only [hal]; simpa using this
  · have l0 := Led.alloc m; rw [hal] at l0
    simp only [hal, Bool.not_true, Bool.false_eq_true, if_false]
    cases hn : (Arr.new cap grow exGe m.alloc.2).2.1 with
    | none => simp only; exact (l0.trans ln).free
    | some a =>
      simp only
      split
      · rename_i hok
        rw [hok] at ln
        simpa using l0.trans ln
      · exact (l0.trans ln).free

theorem new_indep (cap : Nat) (grow : Nat → Nat) (exGe : Nat → Bool) (m1 m2 : Mem) (h : m1.sched = m2.sched) :
    (Stack.new cap grow exGe m1).1 = (Stack.new cap grow exGe m2).1 ∧
    (Stack.new cap grow exGe m1).2.1.map (·.v) = (Stack.new cap grow exGe m2).2.1.map (·.v) ∧
    (Stack.new cap grow exGe m1).2.2.sched = (Stack.new cap grow exGe m2).2.2.sched := by
  obtain ⟨e1, e2⟩ := alloc_congr h
  obtain ⟨f1, f2, f3⟩ := Arr.new_indep cap grow exGe _ _ e2
  unfold Stack.new
  simp only [e1, f1, f2]
  split
  · exact ⟨rfl, rfl, e2⟩
  · split
    · split
      · exact ⟨rfl, rfl, f3⟩
      · exact ⟨rfl, rfl, by simp only [free_sched]; exact f3⟩
    · exact ⟨rfl, rfl, by simp only [free_sched]; exact f3⟩

theorem push_led (s : Stack) (x : Nat) (m : Mem) : Led m (s.push x m).2.2 (decide ((s.push x m).1 = .errAlloc)) :=
  Arr.add_led s.v x m

theorem push_indep (s : Stack) (x : Nat) (m1 m2 : Mem) (h : m1.sched = m2.sched) :
    (s.push x m1).1 = (s.push x m2).1 ∧ (s.push x m1).2.1.v = (s.push x m2).2.1.v ∧
    (s.push x m1).2.2.sched = (s.push x m2).2.2.sched := Arr.add_indep s.v x m1 m2 h

theorem destroy_led (s : Stack) (m : Mem) : Led m (s.destroy m) false := (Arr.destroy_led s.v m).free
theorem destroy_sched (s : Stack) (m : Mem) : (s.destroy m).sched = m.sched := by
  unfold destroy; rw [free_sched, Arr.destroy_sched]

/-- the loop of `cc_stack_filter` -/
theorem filterLoop_led (p : Nat → Bool) (src : Arr) (hsrc : src.Inv) : ∀ n (it : ArrIter) (dst : Stack) (log : List Nat) (m : Mem),
    Led m (filterLoop p src n it dst log m).2.2.2 (decide ((filterLoop p src n it dst log m).1 = .errAlloc)) := by
  intro n
  induction n with
  | zero => intro it dst log m; exact Led.rfl' m
  | succ n ih =>
    intro it dst log m
    simp only [filterLoop]
    by_cases hend : it.index ≥ src.size
    · have hnx : src.iterNext it m = (.iterEnd, none, it, m) := by simp [Arr.iterNext, hend]
      simp only [hnx, if_true]; exact Led.rfl' m
    · have h6 : decide (it.index < src.buf.length) = true := by have := hsrc.size_le_len; simp; omega
      have hnx : src.iterNext it m = (.ok, some (src.buf.get it.index), { index := it.index + 1, lastRemoved := false }, m) := by
        simp [Arr.iterNext, hend, h6]
      have hne : ¬ (Stat.ok = Stat.iterEnd) := by decide
      simp only [hnx, hne, if_false, Option.getD_some]
      split
      · have lp := push_led dst (src.buf.get it.index) m
        split
        · exact lp
        · rename_i hok
          have hok' : (dst.push (src.buf.get it.index) m).1 = .ok := by simpa using hok
          rw [hok'] at lp
          exact Led.trans (by simpa using lp) (ih _ _ _ _)
      · exact ih _ _ _ _

theorem filterLoop_indep (p : Nat → Bool) (src : Arr) : ∀ n (it : ArrIter) (dst : Stack) (log : List Nat) (m1 m2 : Mem),
    m1.sched = m2.sched →
    (filterLoop p src n it dst log m1).1 = (filterLoop p src n it dst log m2).1 ∧
    (filterLoop p src n it dst log m1).2.1.v = (filterLoop p src n it dst log m2).2.1.v ∧
    (filterLoop p src n it dst log m1).2.2.1 = (filterLoop p src n it dst log m2).2.2.1 ∧
    (filterLoop p src n it dst log m1).2.2.2.sched = (filterLoop p src n it dst log m2).2.2.2.sched := by
  intro n
  induction n with
  | zero => intro it dst log m1 m2 h; exact ⟨rfl, rfl, rfl, h⟩
  | succ n ih =>
    intro it dst log m1 m2 h
    obtain ⟨p1, p2, p3⟩ := pure_iterNext src it m1 m2
    have hs : (src.iterNext it m1).2.2.2.sched = (src.iterNext it m2).2.2.2.sched := by
      unfold Arr.iterNext; split
      · exact h
      · simp only [Mem.check_sched]; exact h
    simp only [filterLoop, p1, p2, p3]
    split
    · exact ⟨rfl, rfl, rfl, hs⟩
    · split
      · obtain ⟨q1, q2, q3⟩ := push_indep dst ((src.iterNext it m2).2.1.getD 0) _ _ hs
        have q2' : (dst.push ((src.iterNext it m2).2.1.getD 0) (src.iterNext it m1).2.2.2).2.1 =
            (dst.push ((src.iterNext it m2).2.1.getD 0) (src.iterNext it m2).2.2.2).2.1 := by
          cases hx : (dst.push ((src.iterNext it m2).2.1.getD 0) (src.iterNext it m1).2.2.2).2.1
          cases hy : (dst.push ((src.iterNext it m2).2.1.getD 0) (src.iterNext it m2).2.2.2).2.1
          rw [hx, hy] at q2; simp only at q2; rw [q2]
        simp only [q1, q2']
        split
        · exact ⟨rfl, rfl, rfl, q3⟩
        · exact ih _ _ _ _ _ q3
      · exact ih _ _ _ _ _ hs

/-- `cc_stack_filter`: `libc` untouched, one refusal counted iff the call reports `CC_ERR_ALLOC` -/
theorem filter_led (p : Nat → Bool) (s : Stack) (dgrow : Nat → Nat) (dexGe : Nat → Bool) (m : Mem) (hinv : s.Inv) :
    Led m (s.filter p dgrow dexGe m).2.2.2 (decide ((s.filter p dgrow dexGe m).1 = .errAlloc)) := by
  have ln := new_led Gen.ARRAY_DEFAULT_CAPACITY dgrow dexGe m
  unfold filter
  by_cases h0 : s.size = 0
  · simp only [h0, if_true]; exact Led.rfl' m
  · simp only [h0, if_false]
    cases hn : (Stack.new Gen.ARRAY_DEFAULT_CAPACITY dgrow dexGe m).2.1 with
    | none => simp only; exact ln
    | some f =>
      simp only
      by_cases hok : (Stack.new Gen.ARRAY_DEFAULT_CAPACITY dgrow dexGe m).1 = .ok
      · have ln' : Led m (Stack.new Gen.ARRAY_DEFAULT_CAPACITY dgrow dexGe m).2.2 false := by
          rw [hok] at ln; simpa using ln
        have ll := filterLoop_led p s.v hinv (s.v.size + 1) {} f [] (Stack.new Gen.ARRAY_DEFAULT_CAPACITY dgrow dexGe m).2.2
        have l2 := ln'.trans ll
        simp only [hok, bne_self_eq_false, Bool.false_eq_true, if_false]
        by_cases hok2 : (filterLoop p s.v (s.v.size + 1) {} f [] (Stack.new Gen.ARRAY_DEFAULT_CAPACITY dgrow dexGe m).2.2).1 = .ok
        · simp only [hok2, bne_self_eq_false, Bool.false_eq_true, if_false]
          rw [hok2] at l2; simpa using l2
        · have hb : ((filterLoop p s.v (s.v.size + 1) {} f [] (Stack.new Gen.ARRAY_DEFAULT_CAPACITY dgrow dexGe m).2.2).1 != .ok) = true := by
            simpa using hok2
          simp only [hb, if_true]
          obtain ⟨d1, d2⟩ := destroy_led
            (filterLoop p s.v (s.v.size + 1) {} f [] (Stack.new Gen.ARRAY_DEFAULT_CAPACITY dgrow dexGe m).2.2).2.1
            (filterLoop p s.v (s.v.size + 1) {} f [] (Stack.new Gen.ARRAY_DEFAULT_CAPACITY dgrow dexGe m).2.2).2.2.2
          exact ⟨by rw [d1]; exact l2.1, by rw [d2]; simpa using l2.2⟩
      · have hb : ((Stack.new Gen.ARRAY_DEFAULT_CAPACITY dgrow dexGe m).1 != .ok) = true := by simpa using hok
        simp only [hb, if_true]; exact ln

/-! ### push/pop/peek/size steps and histories -/

theorem step_led (s : Stack) (op : SOp) (m : Mem) (hinv : s.Inv) :
    Led m (s.step op m).2.2 (decide ((s.step op m).1.st = some .errAlloc)) := by
  cases op with
  | push x => have := push_led s x m; simpa [step] using this
  | pop =>
    obtain ⟨r1, _, _, _, _, r6, _⟩ := Arr.removeLast_spec s.v m hinv
    have : (s.v.removeLast m).1 ≠ .errAlloc := by rw [r1]; unfold Spec.Seq.removeLast; split <;> simp
    simp only [step, pop, r6]
    simp [this]; exact Led.rfl' m
  | peek =>
    obtain ⟨r1, _, r3, _⟩ := Arr.getLast_spec s.v m hinv
    have : (s.v.getLast m).1 ≠ .errAlloc := by rw [r1]; unfold Spec.Seq.getLast; split <;> simp
    simp only [step, peek, r3]
    simp [this]; exact Led.rfl' m
  | size => simp only [step]; exact Led.rfl' m

theorem step_indep (s : Stack) (op : SOp) (m1 m2 : Mem) (hinv : s.Inv) (h : m1.sched = m2.sched) :
    (s.step op m1).1 = (s.step op m2).1 ∧ (s.step op m1).2.1.v = (s.step op m2).2.1.v ∧
    (s.step op m1).2.2.sched = (s.step op m2).2.2.sched := by
  cases op with
  | push x => obtain ⟨e1, e2, e3⟩ := push_indep s x m1 m2 h; simp only [step, e1]; exact ⟨by triv, e2, e3⟩
  | pop =>
    obtain ⟨p1, p2, p3⟩ := pure_removeAt s.v (Spec.Seq.wdec s.v.size) m1 m2
    have q1 := (Arr.removeLast_spec s.v m1 hinv).2.2.2.2.2.1
    have q2 := (Arr.removeLast_spec s.v m2 hinv).2.2.2.2.2.1
    simp only [step, pop]
    exact ⟨by show (_ : Out) = _; simp only [Arr.removeLast, p1, p2], p3, by rw [q1, q2]; exact h⟩
  | peek =>
    obtain ⟨p1, p2⟩ := pure_getLast s.v m1 m2
    have q1 := (Arr.getLast_spec s.v m1 hinv).2.2.1
    have q2 := (Arr.getLast_spec s.v m2 hinv).2.2.1
    simp only [step, peek, p1, p2]; exact ⟨by triv, by triv, by rw [q1, q2]; exact h⟩
  | size => simp only [step]; exact ⟨by triv, by triv, h⟩

theorem ext_v {s t : Stack} (h : s.v = t.v) : s = t := by cases s; cases t; simp only at h; rw [h]

theorem step_inv (s : Stack) (op : SOp) (m : Mem) (hinv : s.Inv) (hlive : 0 < m.live) :
    (s.step op m).2.1.Inv ∧ (s.step op m).2.2.live = m.live := by
  cases op with
  | push x =>
    obtain ⟨sp, sl, _⟩ := Arr.add_spec s.v x m hinv hlive
    refine ⟨?_, sl⟩
    rcases sp with ⟨_, _, g⟩ | ⟨_, hsame⟩
    · exact g.inv hinv
    · simp only [step, push, Stack.Inv]; rw [hsame]; exact hinv
  | pop =>
    obtain ⟨_, _, _, r4, r5, r6, _⟩ := Arr.removeLast_spec s.v m hinv
    exact ⟨r4.inv hinv r5, by simp only [step, pop, r6]⟩
  | peek => exact ⟨hinv, by simp only [step, peek, (Arr.getLast_spec s.v m hinv).2.2.1]⟩
  | size => exact ⟨hinv, rfl⟩

theorem run_led (ops : List SOp) : ∀ (s : Stack) (m : Mem), s.Inv → 0 < m.live →
    (s.run ops m).2.2.libc = m.libc ∧
    (s.run ops m).2.2.nrefused = m.nrefused + ((s.run ops m).1.filter (fun o => decide (o.st = some .errAlloc))).length := by
  induction ops with
  | nil => intro s m _ _; exact ⟨rfl, rfl⟩
  | cons op ops ih =>
    intro s m hinv hlive
    obtain ⟨l1, l2⟩ := step_led s op m hinv
    have hinv' := step_inv s op m hinv hlive
    obtain ⟨i1, i2⟩ := ih (s.step op m).2.1 (s.step op m).2.2 hinv'.1 (by omega)
    simp only [Stack.run, List.filter_cons]
    refine ⟨by rw [i1, l1], ?_⟩
    rw [i2, l2]
    split <;> simp <;> omega

theorem run_indep (ops : List SOp) : ∀ (s : Stack) (m1 m2 : Mem), s.Inv → 0 < m1.live → 0 < m2.live →
    m1.sched = m2.sched →
    (s.run ops m1).1 = (s.run ops m2).1 ∧ (s.run ops m1).2.1 = (s.run ops m2).2.1 ∧
    (s.run ops m1).2.2.sched = (s.run ops m2).2.2.sched := by
  induction ops with
  | nil => intro s m1 m2 _ _ _ h; exact ⟨rfl, rfl, h⟩
  | cons op ops ih =>
    intro s m1 m2 hinv hl1 hl2 h
    obtain ⟨e1, e2, e3⟩ := step_indep s op m1 m2 hinv h
    have e2' := ext_v e2
    have i1 := step_inv s op m1 hinv hl1
    have i2 := step_inv s op m2 hinv hl2
    simp only [Stack.run]
    rw [e1]
    have := ih (s.step op m1).2.1 (s.step op m1).2.2 (s.step op m2).2.2 i1.1 (by omega) (by omega) e3
    rw [e2'] at this ⊢
    exact ⟨by rw [this.1], this.2.1, this.2.2⟩

theorem opt_eq_of_map_v {o1 o2 : Option Stack} (h : o1.map (·.v) = o2.map (·.v)) : o1 = o2 := by
  cases o1 <;> cases o2 <;> simp at h ⊢
  exact ext_v h

/-- `cc_stack_filter` depends on the ledger only through its schedule -/
theorem filter_indep (p : Nat → Bool) (s : Stack) (dgrow : Nat → Nat) (dexGe : Nat → Bool) (m1 m2 : Mem)
    (h : m1.sched = m2.sched) :
    (s.filter p dgrow dexGe m1).1 = (s.filter p dgrow dexGe m2).1 ∧
    (s.filter p dgrow dexGe m1).2.1 = (s.filter p dgrow dexGe m2).2.1 ∧
    (s.filter p dgrow dexGe m1).2.2.1 = (s.filter p dgrow dexGe m2).2.2.1 ∧
    (s.filter p dgrow dexGe m1).2.2.2.sched = (s.filter p dgrow dexGe m2).2.2.2.sched := by
  obtain ⟨e1, e2, e3⟩ := new_indep Gen.ARRAY_DEFAULT_CAPACITY dgrow dexGe m1 m2 h
  have e2' := opt_eq_of_map_v e2
  unfold filter
  by_cases h0 : s.size = 0
  · simp only [h0, if_true]; exact ⟨by triv, by triv, by triv, h⟩
  · simp only [h0, if_false, e1, e2']
    cases hn : (Stack.new Gen.ARRAY_DEFAULT_CAPACITY dgrow dexGe m2).2.1 with
    | none => exact ⟨rfl, rfl, rfl, e3⟩
    | some f =>
      simp only
      split
      · exact ⟨rfl, rfl, rfl, e3⟩
      · obtain ⟨l1, l2, l3, l4⟩ := filterLoop_indep p s.v (s.v.size + 1) {} f [] _ _ e3
        have l2' := ext_v l2
        simp only [l1, l2', l3]
        split
        · exact ⟨rfl, rfl, rfl, by rw [destroy_sched, destroy_sched]; exact l4⟩
        · exact ⟨rfl, rfl, rfl, l4⟩

end CC.Stack
