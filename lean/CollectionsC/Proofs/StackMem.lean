import CollectionsC.Proofs.ArrayMem
import CollectionsC.Proofs.Stack
/-! Ledger facets for the stack adapter (`Led t m m' k r`: own block counter of triple `t` grew by `k`,
the other allocator's counters untouched, refusal counted iff `r`; `_indep`: dependence on the ledger
only through its schedule): constructor, push, `cc_stack_filter` with its loop of pushes, destructor,
and the push/pop/peek/size steps and histories.  `Stack.Coh`: header and array share one triple. -/
namespace CC.Stack
open CC CC.Arr
open CC.Spec.Seq (SOp Out)

theorem ext_v {s t : Stack} (h : s.v = t.v) (ht : s.triple = t.triple) : s = t := by
  cases s; cases t; simp only at h ht; rw [h, ht]

theorem foreign_freeT (t : Triple) (m : Mem) : Foreign t m (m.freeT t) := by
  cases t with
  | conf => simp only [Mem.freeT_conf, Foreign]; unfold Mem.free; split <;> exact ⟨rfl, rfl, rfl, rfl⟩
  | libc => simp only [Mem.freeT, Foreign]; split <;> exact ⟨rfl, rfl, rfl, rfl⟩

theorem new_led (cap : Nat) (grow : Nat → Nat) (exGe : Nat → Bool) (m : Mem) (t : Triple) :
    Led t m (Stack.new cap grow exGe m t).2.2 (if (Stack.new cap grow exGe m t).1 = .ok then 3 else 0)
      (decide ((Stack.new cap grow exGe m t).1 = .errAlloc)) := by
  have ln := Arr.new_led cap grow exGe (m.allocT t).2 t
  unfold Stack.new
  cases hal : (m.allocT t).1
  · simp only [hal]; simpa using Led.allocT_refused m t hal
  · have l0 := Led.allocT_ok m t hal
    simp only [hal, Bool.not_true, Bool.false_eq_true, if_false]
    rcases Arr.new_spec cap grow exGe (m.allocT t).2 t with ⟨n1, n2, _⟩ | ⟨n1, n2, _⟩ | ⟨n1, _, r, n3, _⟩
    · rw [n2]; simp only
      rw [n1] at ln ⊢
      simpa using (l0.trans ln).freeT (k := 0)
    · rw [n2]; simp only
      rw [n1] at ln ⊢
      simpa using (l0.trans ln).freeT (k := 0)
    · rw [n3]; simp only [n1, if_true]
      rw [n1] at ln
      simpa using l0.trans ln

theorem new_indep (cap : Nat) (grow : Nat → Nat) (exGe : Nat → Bool) (m1 m2 : Mem) (t : Triple) (h : m1.sched = m2.sched) :
    (Stack.new cap grow exGe m1 t).1 = (Stack.new cap grow exGe m2 t).1 ∧
    (Stack.new cap grow exGe m1 t).2.1 = (Stack.new cap grow exGe m2 t).2.1 ∧
    (Stack.new cap grow exGe m1 t).2.2.sched = (Stack.new cap grow exGe m2 t).2.2.sched := by
  obtain ⟨e1, e2⟩ := allocT_congr h t
  obtain ⟨f1, f2, f3⟩ := Arr.new_indep cap grow exGe _ _ t e2
  unfold Stack.new
  simp only [e1, f1, f2]
  split
  · exact ⟨rfl, rfl, e2⟩
  · split
    · split
      · exact ⟨rfl, rfl, f3⟩
      · exact ⟨rfl, rfl, by simp only [freeT_sched]; exact f3⟩
    · exact ⟨rfl, rfl, by simp only [freeT_sched]; exact f3⟩

theorem push_led (s : Stack) (x : Nat) (m : Mem) :
    Led s.v.triple m (s.push x m).2.2 0 (decide ((s.push x m).1 = .errAlloc)) := Arr.add_led s.v x m

theorem push_indep (s : Stack) (x : Nat) (m1 m2 : Mem) (h : m1.sched = m2.sched) :
    (s.push x m1).1 = (s.push x m2).1 ∧ (s.push x m1).2.1 = (s.push x m2).2.1 ∧
    (s.push x m1).2.2.sched = (s.push x m2).2.2.sched := by
  obtain ⟨e1, e2, e3⟩ := Arr.add_indep s.v x m1 m2 h
  exact ⟨e1, by simp only [push]; rw [e2], e3⟩

theorem destroy_foreign (s : Stack) (m : Mem) (hc : s.Coh) : Foreign s.triple m (s.destroy m) := by
  unfold destroy Arr.destroy
  unfold Coh at hc
  rw [hc]
  exact ((foreign_freeT _ m).trans (foreign_freeT _ _)).trans (foreign_freeT _ _)

theorem destroy_sched (s : Stack) (m : Mem) : (s.destroy m).sched = m.sched := by
  unfold destroy; rw [freeT_sched, Arr.destroy_sched]

/-- the loop of `cc_stack_filter` -/
theorem filterLoop_led (p : Nat → Bool) (src : Arr) : ∀ n (it : ArrIter) (dst : Stack) (log : List Nat) (m : Mem),
    Led dst.v.triple m (filterLoop p src n it dst log m).2.2.2 0 (decide ((filterLoop p src n it dst log m).1 = .errAlloc)) := by
  intro n
  induction n with
  | zero => intro it dst log m; exact Led.rfl' _ m
  | succ n ih =>
    intro it dst log m
    have hm : Led dst.v.triple m (src.iterNext it m).2.2.2 0 false := by
      unfold Arr.iterNext; split
      · exact Led.rfl' _ m
      · exact (Led.rfl' _ m).check _
    simp only [filterLoop]
    split
    · simpa using hm
    · split
      · have lp := push_led dst ((src.iterNext it m).2.1.getD 0) (src.iterNext it m).2.2.2
        have ht := add_triple dst.v ((src.iterNext it m).2.1.getD 0) (src.iterNext it m).2.2.2
        split
        · exact hm.trans0 lp
        · rename_i hok
          have hok' : (dst.push ((src.iterNext it m).2.1.getD 0) (src.iterNext it m).2.2.2).1 = .ok := by simpa using hok
          rw [hok'] at lp
          have := ih (src.iterNext it m).2.2.1 (dst.push ((src.iterNext it m).2.1.getD 0) (src.iterNext it m).2.2.2).2.1
            (log ++ [(src.iterNext it m).2.1.getD 0]) (dst.push ((src.iterNext it m).2.1.getD 0) (src.iterNext it m).2.2.2).2.2
          simp only [push] at this lp ⊢
          rw [ht] at this
          exact (hm.trans0 (by simpa using lp)).trans0 this
      · exact hm.trans0 (ih _ _ _ _)

theorem filterLoop_indep (p : Nat → Bool) (src : Arr) : ∀ n (it : ArrIter) (dst : Stack) (log : List Nat) (m1 m2 : Mem),
    m1.sched = m2.sched →
    (filterLoop p src n it dst log m1).1 = (filterLoop p src n it dst log m2).1 ∧
    (filterLoop p src n it dst log m1).2.1 = (filterLoop p src n it dst log m2).2.1 ∧
    (filterLoop p src n it dst log m1).2.2.1 = (filterLoop p src n it dst log m2).2.2.1 ∧
    (filterLoop p src n it dst log m1).2.2.2.sched = (filterLoop p src n it dst log m2).2.2.2.sched := by
  intro n
  induction n with
  | zero => intro it dst log m1 m2 h; exact ⟨rfl, rfl, rfl, h⟩
  | succ n ih =>
    intro it dst log m1 m2 h
    obtain ⟨p1, p2, p3⟩ := pure_iterNext src it m1 m2
    have hs : (src.iterNext it m1).2.2.2.sched = (src.iterNext it m2).2.2.2.sched := by
      unfold Arr.iterNext; split
      · exact h
      · simp only [Mem.check_sched]; exact h
    simp only [filterLoop, p1, p2, p3]
    split
    · exact ⟨rfl, rfl, rfl, hs⟩
    · split
      · obtain ⟨q1, q2, q3⟩ := push_indep dst ((src.iterNext it m2).2.1.getD 0) _ _ hs
        simp only [q1, q2]
        split
        · exact ⟨rfl, rfl, rfl, q3⟩
        · exact ih _ _ _ _ _ q3
      · exact ih _ _ _ _ _ hs

/-- `cc_stack_filter`: three blocks of the source's triple with the result, none without; the other
allocator untouched; one refusal counted iff the call reports `CC_ERR_ALLOC` -/
theorem filter_led (p : Nat → Bool) (s : Stack) (dgrow : Nat → Nat) (dexGe : Nat → Bool) (m : Mem) :
    Led s.triple m (s.filter p dgrow dexGe m).2.2.2 (if (s.filter p dgrow dexGe m).1 = .ok then 3 else 0)
      (decide ((s.filter p dgrow dexGe m).1 = .errAlloc)) := by
  have ln := new_led Gen.ARRAY_DEFAULT_CAPACITY dgrow dexGe m s.triple
  unfold filter
  by_cases h0 : s.size = 0
  · simp only [h0, if_true]; simpa using Led.rfl' s.triple m
  · simp only [h0, if_false]
    cases hn : (Stack.new Gen.ARRAY_DEFAULT_CAPACITY dgrow dexGe m s.triple).2.1 with
    | none =>
      simp only
      rcases Stack.new_spec Gen.ARRAY_DEFAULT_CAPACITY dgrow dexGe m s.triple with ⟨n1, _⟩ | ⟨_, f, n2, _⟩
      · have hne : (Stack.new Gen.ARRAY_DEFAULT_CAPACITY dgrow dexGe m s.triple).1 ≠ .ok := by
          rcases n1 with n1 | n1 <;> rw [n1] <;> decide
        simpa [hne] using ln
      · rw [hn] at n2; simp at n2
    | some f =>
      simp only
      obtain ⟨ft, fvt⟩ := new_triple _ _ _ _ _ f hn
      by_cases hok : (Stack.new Gen.ARRAY_DEFAULT_CAPACITY dgrow dexGe m s.triple).1 = .ok
      · have ln' : Led s.triple m (Stack.new Gen.ARRAY_DEFAULT_CAPACITY dgrow dexGe m s.triple).2.2 3 false := by
          rw [hok] at ln; simpa using ln
        have ll := filterLoop_led p s.v (s.v.size + 1) {} f [] (Stack.new Gen.ARRAY_DEFAULT_CAPACITY dgrow dexGe m s.triple).2.2
        rw [fvt] at ll
        have l2 := ln'.trans ll
        obtain ⟨_, o2, o3⟩ := filterLoop_own p s.v (s.v.size + 1) {} f [] (Stack.new Gen.ARRAY_DEFAULT_CAPACITY dgrow dexGe m s.triple).2.2
        simp only [hok, bne_self_eq_false, Bool.false_eq_true, if_false]
        by_cases hok2 : (filterLoop p s.v (s.v.size + 1) {} f [] (Stack.new Gen.ARRAY_DEFAULT_CAPACITY dgrow dexGe m s.triple).2.2).1 = .ok
        · simp only [hok2, bne_self_eq_false, Bool.false_eq_true, if_false]
          rw [hok2] at l2; simpa using l2
        · have hb : ((filterLoop p s.v (s.v.size + 1) {} f [] (Stack.new Gen.ARRAY_DEFAULT_CAPACITY dgrow dexGe m s.triple).2.2).1 != .ok) = true := by
            simpa using hok2
          simp only [hb, if_true, hok2, if_false]
          unfold destroy Arr.destroy
          rw [o2, o3, fvt, ft]
          have l3 : Led s.triple m (filterLoop p s.v (s.v.size + 1) {} f [] (Stack.new Gen.ARRAY_DEFAULT_CAPACITY dgrow dexGe m s.triple).2.2).2.2.2
              (0 + 1 + 1 + 1) (decide ((filterLoop p s.v (s.v.size + 1) {} f [] (Stack.new Gen.ARRAY_DEFAULT_CAPACITY dgrow dexGe m s.triple).2.2).1 = .errAlloc)) := by
            simpa using l2
          exact l3.freeT.freeT.freeT
      · have hb : ((Stack.new Gen.ARRAY_DEFAULT_CAPACITY dgrow dexGe m s.triple).1 != .ok) = true := by simpa using hok
        simp only [hb, if_true]
        simpa [hok] using ln

/-- `cc_stack_filter` depends on the ledger only through its schedule -/
theorem filter_indep (p : Nat → Bool) (s : Stack) (dgrow : Nat → Nat) (dexGe : Nat → Bool) (m1 m2 : Mem)
    (h : m1.sched = m2.sched) :
    (s.filter p dgrow dexGe m1).1 = (s.filter p dgrow dexGe m2).1 ∧
    (s.filter p dgrow dexGe m1).2.1 = (s.filter p dgrow dexGe m2).2.1 ∧
    (s.filter p dgrow dexGe m1).2.2.1 = (s.filter p dgrow dexGe m2).2.2.1 ∧
    (s.filter p dgrow dexGe m1).2.2.2.sched = (s.filter p dgrow dexGe m2).2.2.2.sched := by
  obtain ⟨e1, e2, e3⟩ := new_indep Gen.ARRAY_DEFAULT_CAPACITY dgrow dexGe m1 m2 s.triple h
  unfold filter
  by_cases h0 : s.size = 0
  · simp only [h0, if_true]; exact ⟨by triv, by triv, by triv, h⟩
  · simp only [h0, if_false, e1, e2]
    cases hn : (Stack.new Gen.ARRAY_DEFAULT_CAPACITY dgrow dexGe m2 s.triple).2.1 with
    | none => exact ⟨rfl, rfl, rfl, e3⟩
    | some f =>
      simp only
      split
      · exact ⟨rfl, rfl, rfl, e3⟩
      · obtain ⟨l1, l2, l3, l4⟩ := filterLoop_indep p s.v (s.v.size + 1) {} f [] _ _ e3
        simp only [l1, l2, l3]
        split
        · exact ⟨rfl, rfl, rfl, by rw [destroy_sched, destroy_sched]; exact l4⟩
        · exact ⟨rfl, rfl, rfl, l4⟩

/-! ### push/pop/peek/size steps and histories -/

theorem step_led (s : Stack) (op : SOp) (m : Mem) (hinv : s.Inv) :
    Led s.v.triple m (s.step op m).2.2 0 (decide ((s.step op m).1.st = some .errAlloc)) := by
  cases op with
  | push x => have := push_led s x m; simpa [step] using this
  | pop =>
    obtain ⟨r1, _, _, _, _, r6, _⟩ := Arr.removeLast_spec s.v m hinv
    have : (s.v.removeLast m).1 ≠ .errAlloc := by rw [r1]; unfold Spec.Seq.removeLast; split <;> simp
    simp only [step, pop, r6]
    simp [this]; exact Led.rfl' _ m
  | peek =>
    obtain ⟨r1, _, r3, _⟩ := Arr.getLast_spec s.v m hinv
    have : (s.v.getLast m).1 ≠ .errAlloc := by rw [r1]; unfold Spec.Seq.getLast; split <;> simp
    simp only [step, peek, r3]
    simp [this]; exact Led.rfl' _ m
  | size => simp only [step]; exact Led.rfl' _ m

theorem step_indep (s : Stack) (op : SOp) (m1 m2 : Mem) (hinv : s.Inv) (h : m1.sched = m2.sched) :
    (s.step op m1).1 = (s.step op m2).1 ∧ (s.step op m1).2.1 = (s.step op m2).2.1 ∧
    (s.step op m1).2.2.sched = (s.step op m2).2.2.sched := by
  cases op with
  | push x => obtain ⟨e1, e2, e3⟩ := push_indep s x m1 m2 h; simp only [step, e1]; exact ⟨by triv, e2, e3⟩
  | pop =>
    obtain ⟨p1, p2, p3⟩ := pure_removeAt s.v (Spec.Seq.wdec s.v.size) m1 m2
    have q1 := (Arr.removeLast_spec s.v m1 hinv).2.2.2.2.2.1
    have q2 := (Arr.removeLast_spec s.v m2 hinv).2.2.2.2.2.1
    simp only [step, pop]
    refine ⟨by show (_ : Out) = _; simp only [Arr.removeLast, p1, p2], ?_, by rw [q1, q2]; exact h⟩
    simp only [Arr.removeLast]; rw [p3]
  | peek =>
    obtain ⟨p1, p2⟩ := pure_getLast s.v m1 m2
    have q1 := (Arr.getLast_spec s.v m1 hinv).2.2.1
    have q2 := (Arr.getLast_spec s.v m2 hinv).2.2.1
    simp only [step, peek, p1, p2]; exact ⟨by triv, by triv, by rw [q1, q2]; exact h⟩
  | size => simp only [step]; exact ⟨by triv, by triv, h⟩

/-- a step keeps the invariant and both triples -/
theorem step_inv (s : Stack) (op : SOp) (m : Mem) (hinv : s.Inv) :
    (s.step op m).2.1.Inv ∧ (s.step op m).2.1.v.triple = s.v.triple ∧ (s.step op m).2.1.triple = s.triple := by
  cases op with
  | push x =>
    obtain ⟨sp, _, _⟩ := Arr.add_spec s.v x m hinv
    refine ⟨?_, add_triple s.v x m, rfl⟩
    rcases sp with ⟨_, _, g⟩ | ⟨_, hsame⟩
    · exact g.inv hinv
    · simp only [step, push, Stack.Inv]; rw [hsame]; exact hinv
  | pop =>
    obtain ⟨_, _, _, r4, r5, _⟩ := Arr.removeLast_spec s.v m hinv
    refine ⟨r4.inv hinv r5, ?_, rfl⟩
    simp only [step, pop, Arr.removeLast, Arr.removeAt, Arr.closeGap]; split <;> rfl
  | peek => exact ⟨hinv, rfl, rfl⟩
  | size => exact ⟨hinv, rfl, rfl⟩

theorem run_led (ops : List SOp) : ∀ (s : Stack) (m : Mem), s.Inv →
    own s.v.triple (s.run ops m).2.2 = own s.v.triple m ∧ Foreign s.v.triple m (s.run ops m).2.2 ∧
    (s.run ops m).2.2.nrefused = m.nrefused + ((s.run ops m).1.filter (fun o => decide (o.st = some .errAlloc))).length ∧
    (s.run ops m).2.1.v.triple = s.v.triple ∧ (s.run ops m).2.1.triple = s.triple := by
  induction ops with
  | nil => intro s m _; exact ⟨rfl, Foreign.rfl' _ m, rfl, rfl, rfl⟩
  | cons op ops ih =>
    intro s m hinv
    obtain ⟨l1, l2, l3, _⟩ := step_led s op m hinv
    obtain ⟨hi, ht1, ht2⟩ := step_inv s op m hinv
    obtain ⟨i1, i2, i3, i4, i5⟩ := ih (s.step op m).2.1 (s.step op m).2.2 hi
    rw [ht1] at i1 i2 i4
    rw [ht2] at i5
    simp only [Stack.run, List.filter_cons]
    refine ⟨by rw [i1, l1]; rfl, l2.trans i2, ?_, i4, i5⟩
    rw [i3, l3]
    split <;> simp <;> omega

theorem run_indep (ops : List SOp) : ∀ (s : Stack) (m1 m2 : Mem), s.Inv → m1.sched = m2.sched →
    (s.run ops m1).1 = (s.run ops m2).1 ∧ (s.run ops m1).2.1 = (s.run ops m2).2.1 ∧
    (s.run ops m1).2.2.sched = (s.run ops m2).2.2.sched := by
  induction ops with
  | nil => intro s m1 m2 _ h; exact ⟨rfl, rfl, h⟩
  | cons op ops ih =>
    intro s m1 m2 hinv h
    obtain ⟨e1, e2, e3⟩ := step_indep s op m1 m2 hinv h
    have i1 := step_inv s op m1 hinv
    simp only [Stack.run]
    rw [e1]
    have := ih (s.step op m1).2.1 (s.step op m1).2.2 (s.step op m2).2.2 i1.1 e3
    rw [e2] at this ⊢
    exact ⟨by rw [this.1], this.2.1, this.2.2⟩

end CC.Stack
