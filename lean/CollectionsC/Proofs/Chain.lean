import CollectionsC.Model.Chain
/-! Helper lemmas about the shared `Chain` state: the canonical chain `ofList xs` (the unique state
with content `xs` that satisfies the invariant), pointer arithmetic, the walking loops. -/
namespace CC
open CC

namespace Chain

/-- the state with content `xs` whose bookkeeping is right -/
def ofList (xs : List Nat) : Chain :=
  { nodes := xs, size := xs.length,
    head := if xs.length = 0 then none else some 0,
    tail := if xs.length = 0 then none else some (xs.length - 1) }

theorem ofList_inv (xs : List Nat) : (ofList xs).Inv := by simp [ofList, Inv]
@[simp] theorem ofList_abs (xs : List Nat) : (ofList xs).abs = xs := rfl
@[simp] theorem ofList_nodes (xs : List Nat) : (ofList xs).nodes = xs := rfl
@[simp] theorem ofList_size (xs : List Nat) : (ofList xs).size = xs.length := rfl

theorem inv_iff (l : Chain) : l.Inv ↔ l = ofList l.nodes := by
  constructor
  · intro ⟨h1, h2, h3⟩
    cases l; simp_all [ofList]
  · intro h; rw [h]; exact ofList_inv _

theorem Inv.eq {l : Chain} (h : l.Inv) : l = ofList l.abs := (inv_iff l).1 h

theorem ofList_nil : ofList [] = {} := by simp [ofList]
theorem ofList_head_cons (x : Nat) (xs : List Nat) : (ofList (x :: xs)).head = some 0 := by simp [ofList]
theorem ofList_tail_cons (x : Nat) (xs : List Nat) : (ofList (x :: xs)).tail = some xs.length := by simp [ofList]

end Chain
end CC

namespace CC
namespace Chain

theorem walkNext_some (n : Nat) : ∀ (k j : Nat), j + k < n → walkNext n (some j) k = some (j + k)
  | 0, j, _ => rfl
  | k + 1, j, h => by
    have : j + 1 < n := by omega
    simp only [walkNext, Ptr.next, this, if_true]
    rw [walkNext_some n k (j + 1) (by omega)]; congr 1; omega

theorem walkPrev_some : ∀ (k j : Nat), k ≤ j → walkPrev (some j) k = some (j - k)
  | 0, j, _ => rfl
  | k + 1, j, h => by
    have : j ≠ 0 := by omega
    simp only [walkPrev, Ptr.prev, this, if_false]
    rw [walkPrev_some k (j - 1) (by omega)]; congr 1; omega

@[simp] theorem forward_ofList (xs : List Nat) : (ofList xs).forward = xs := by
  cases xs <;> simp [forward, walk, ofList]
@[simp] theorem backward_ofList (xs : List Nat) : (ofList xs).backward = xs.reverse := by
  cases xs <;> simp [backward, walkBack, ofList]

theorem data_some (l : Chain) (j : Nat) : l.data (some j) = l.nodes.getD j 0 := rfl

end Chain

theorem Mem.freeN_live : ∀ (n : Nat) (m : Mem), n ≤ m.live →
    (Mem.freeN n m).live = m.live - n ∧ (Mem.freeN n m).fault = m.fault ∧ (Mem.freeN n m).libc = m.libc
  | 0, m, _ => ⟨rfl, rfl, rfl⟩
  | k + 1, m, h => by
    have hf : m.free.live = m.live - 1 ∧ m.free.fault = m.fault ∧ m.free.libc = m.libc := by
      unfold Mem.free; split
      · omega
      · simp
    have ih := Mem.freeN_live k m.free (by omega)
    simp only [Mem.freeN]
    refine ⟨by omega, by rw [ih.2.1, hf.2.1], by rw [ih.2.2, hf.2.2]⟩

theorem Mem.freeN_free : ∀ (n : Nat) (m : Mem), (Mem.freeN n m).free = Mem.freeN n m.free
  | 0, _ => rfl
  | k + 1, m => by simp only [Mem.freeN]; exact Mem.freeN_free k m.free

theorem Mem.freeN_succ (n : Nat) (m : Mem) : Mem.freeN (n + 1) m = (Mem.freeN n m).free := by
  rw [Mem.freeN_free]; rfl

theorem Mem.free_live (m : Mem) (h : 0 < m.live) :
    m.free.live = m.live - 1 ∧ m.free.fault = m.fault ∧ m.free.libc = m.libc := by
  unfold Mem.free; split
  · omega
  · simp

theorem getD_set (l : List Nat) (a j v : Nat) :
    (l.set a v).getD j 0 = if a = j ∧ a < l.length then v else l.getD j 0 := by
  simp only [List.getD_eq_getElem?_getD, List.getElem?_set]
  by_cases h : a = j
  · subst h; by_cases h2 : a < l.length <;> simp [h2]
  · simp [h]

theorem ext_getD {l1 l2 : List Nat} (hl : l1.length = l2.length)
    (h : ∀ j, j < l1.length → l1.getD j 0 = l2.getD j 0) : l1 = l2 := by
  apply List.ext_getElem hl
  intro j h1 h2
  have := h j h1
  simpa [List.getD_eq_getElem?_getD, h1, h2] using this


namespace Chain
/-- the pointer reached after `j` steps from the head of a chain of `n` nodes -/
def ptrAt (n j : Nat) : Ptr := if j < n then some j else none

theorem ofList_head_ptrAt (xs : List Nat) : (ofList xs).head = ptrAt xs.length 0 := by
  cases xs <;> simp [ofList, ptrAt]
theorem next_ptrAt (n j : Nat) (h : j < n) : Ptr.next n (ptrAt n j) = ptrAt n (j + 1) := by
  simp [ptrAt, h, Ptr.next]
theorem ptrAt_lt (n j : Nat) (h : j < n) : ptrAt n j = some j := by simp [ptrAt, h]

theorem drop_eq_getD_cons (xs : List Nat) (j : Nat) (h : j < xs.length) :
    xs.drop j = xs.getD j 0 :: xs.drop (j + 1) := by
  rw [List.drop_eq_getElem_cons h]; simp [h]

theorem collect_ofList (xs : List Nat) (m : Mem) : ∀ (k j : Nat), j + k ≤ xs.length →
    collect (ofList xs) k (ptrAt xs.length j) m = ((xs.drop j).take k, m)
  | 0, j, _ => by simp [collect]
  | k + 1, j, h => by
    have hj : j < xs.length := by omega
    simp only [collect, ofList_nodes]
    rw [next_ptrAt _ _ hj, collect_ofList xs _ k (j + 1) (by omega)]
    rw [ptrAt_lt _ _ hj]
    simp only [Ptr.valid, hj, decide_true, Mem.check_true, data_some, ofList_nodes]
    rw [drop_eq_getD_cons xs j hj]; simp
end Chain

namespace Chain
theorem writeBack_spec (n : Nat) (vals : List Nat) (m : Mem) : ∀ (k i : Nat) (l : Chain),
    l.nodes.length = n → i + k ≤ n → n ≤ vals.length →
    ∃ l', writeBack k i (ptrAt n i) vals l m = (l', m) ∧ l'.nodes.length = n ∧
      (∀ j, j < n → l'.nodes.getD j 0 = if i ≤ j ∧ j < i + k then vals.getD j 0 else l.nodes.getD j 0) ∧
      l'.size = l.size ∧ l'.head = l.head ∧ l'.tail = l.tail
  | 0, i, l, hn, _, _ => ⟨l, rfl, hn, by intro j _; rw [if_neg (by omega)], rfl, rfl, rfl⟩
  | k + 1, i, l, hn, hk, hv => by
    have hi : i < n := by omega
    simp only [writeBack, hn]
    rw [next_ptrAt _ _ hi, ptrAt_lt _ _ hi]
    have hiv : i < vals.length := by omega
    simp only [Ptr.valid, hi, hiv, decide_true, Bool.and_self, Mem.check_true]
    obtain ⟨l', e, h1, h2, h3, h4, h5⟩ := writeBack_spec n vals m k (i + 1) (l.setData (some i) (vals.getD i 0))
      (by simp [Chain.setData, hn]) (by omega) hv
    refine ⟨l', e, h1, ?_, h3, h4, h5⟩
    intro j hj
    rw [h2 j hj]
    simp only [Chain.setData, Ptr.pos, Option.getD_some, getD_set, hn]
    by_cases c1 : i + 1 ≤ j ∧ j < i + 1 + k
    · rw [if_pos c1, if_pos (by omega)]
    · rw [if_neg c1]
      by_cases c2 : i = j
      · subst c2; rw [if_pos ⟨rfl, hi⟩, if_pos (by omega)]
      · rw [if_neg (by omega), if_neg (by omega)]
end Chain

/-- `k` node allocations in a row; the first refusal releases the `got` nodes obtained so far -/
def Mem.allocChain : Nat → Nat → Mem → Bool × Mem
  | 0, _, m => (true, m)
  | k + 1, got, m =>
    let a := m.alloc
    if !a.1 then (false, Mem.freeN got a.2) else Mem.allocChain k (got + 1) a.2

theorem Mem.allocChain_spec : ∀ (k got : Nat) (m : Mem), got ≤ m.live →
    ((Mem.allocChain k got m).1 = true → (Mem.allocChain k got m).2.live = m.live + k) ∧
    ((Mem.allocChain k got m).1 = false → (Mem.allocChain k got m).2.live = m.live - got) ∧
    (Mem.allocChain k got m).2.fault = m.fault ∧ (Mem.allocChain k got m).2.libc = m.libc
  | 0, got, m, _ => by simp [Mem.allocChain]
  | k + 1, got, m, h => by
    simp only [Mem.allocChain]
    cases ha : m.alloc.1
    · have e := Mem.alloc_fst_false m ha
      have f := Mem.freeN_live got m.alloc.2 (by omega)
      simp only [Bool.not_false, if_true]
      refine ⟨by simp, fun _ => by rw [f.1, e.1], by rw [f.2.1, e.2.1], by rw [f.2.2, e.2.2]⟩
    · have e := Mem.alloc_fst_true m ha
      have ih := Mem.allocChain_spec k (got + 1) m.alloc.2 (by omega)
      simp only [Bool.not_true, Bool.false_eq_true, if_false]
      refine ⟨fun h1 => by rw [ih.1 h1, e.1]; omega, fun h1 => by rw [ih.2.1 h1, e.1]; omega,
        by rw [ih.2.2.1, e.2.1], by rw [ih.2.2.2, e.2.2]⟩

namespace Chain
theorem linkAll_ofList (xs : List Nat) : ∀ (k j : Nat) (acc : List Nat) (m : Mem), j + k ≤ xs.length →
    linkAll (ofList xs) k (ptrAt xs.length j) acc m =
      if (m.allocChain k acc.length).1 then (true, acc ++ (xs.drop j).take k, (m.allocChain k acc.length).2)
      else (false, [], (m.allocChain k acc.length).2)
  | 0, j, acc, m, _ => by simp [linkAll, Mem.allocChain]
  | k + 1, j, acc, m, h => by
    have hj : j < xs.length := by omega
    simp only [linkAll, Mem.allocChain, ofList_nodes]
    by_cases ha : m.alloc.1 = true
    case neg => simp [ha]
    case pos =>
      simp only [ha, Bool.not_true, Bool.false_eq_true, if_false]
      rw [next_ptrAt _ _ hj, ptrAt_lt _ _ hj]
      simp only [Ptr.valid, hj, decide_true, Mem.check_true, data_some, ofList_nodes]
      have := linkAll_ofList xs k (j + 1) (acc ++ [xs.getD j 0]) m.alloc.2 (by omega)
      rw [this]
      simp only [List.length_append, List.length_cons, List.length_nil, List.append_assoc]
      rw [drop_eq_getD_cons xs j hj]
      simp

theorem linkAllExternally_ofList (xs : List Nat) (m : Mem) :
    (ofList xs).linkAllExternally m =
      if (m.allocChain xs.length 0).1 then (true, xs, (m.allocChain xs.length 0).2)
      else (false, [], (m.allocChain xs.length 0).2) := by
  unfold linkAllExternally
  rw [ofList_head_ptrAt, ofList_size, linkAll_ofList xs xs.length 0 [] m (by omega)]
  simp
end Chain

end CC
